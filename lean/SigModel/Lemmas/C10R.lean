/-
C10 slice "walrecover": proofs about Model/WalRecover.lean
(A) file names parse back, (B) writer invariant, (C) grouping, (D) replay order, (E) recovery = specification,
(F) the counterexample history for the replay order.  Core Lean only.
-/
import SigModel.Model.WalRecover
namespace SigModel.Lemmas.C10R
open SigModel.Wal (Dp)
open SigModel.WalRecover

/-- guard: at the crash the open block has at most 10 WAL files (indices 0..9) -/
def fewWalFiles (cap shard : Nat) (h : List Op) : Prop := (run cap shard h).walIdx < 10
instance (cap shard : Nat) (h : List Op) : Decidable (fewWalFiles cap shard h) := by unfold fewWalFiles; infer_instance

/-- the open block at the crash -/
def openKey (cap shard : Nat) (h : List Op) : Key := (dec shard, (run cap shard h).seg, (run cap shard h).blkNum)

/-! ### (A) file names -/

theorem splitU_ne_nil (s : List Char) : splitU s ≠ [] := by
  cases s with
  | nil => simp [splitU]
  | cons c cs =>
    unfold splitU
    split
    · simp
    · split <;> simp

theorem splitU_noU (a : List Char) (h : '_' ∉ a) : splitU a = [a] := by
  induction a with
  | nil => simp [splitU]
  | cons c a ih =>
    have hc : c ≠ '_' := by intro e; apply h; simp [e]
    have ha : '_' ∉ a := by intro e; apply h; simp [e]
    simp [splitU, ih ha, hc]

theorem splitU_app (a b : List Char) (h : '_' ∉ a) : splitU (a ++ '_' :: b) = a :: splitU b := by
  induction a with
  | nil =>
    simp only [List.nil_append, splitU]
    cases hb : splitU b with
    | nil => exact absurd hb (splitU_ne_nil b)
    | cons p ps => simp
  | cons c a ih =>
    have hc : c ≠ '_' := by intro e; apply h; simp [e]
    have ha : '_' ∉ a := by intro e; apply h; simp [e]
    simp [splitU, ih ha, hc]

theorem dec_noU (n : Nat) : '_' ∉ dec n := Nat.underscore_not_in_toDigits

theorem parseUint_dec (n : Nat) (h : n < 18446744073709551616) : parseUint (dec n) = some n := by
  unfold parseUint
  have h1 : dec n ≠ [] := Nat.toDigits_ne_nil
  have h2 : (dec n).all Char.isDigit = true := by
    rw [List.all_eq_true]
    intro c hc
    exact Nat.isDigit_of_mem_toDigits (by decide) (by decide) hc
  have h3 : Nat.ofDigitChars 10 (dec n) 0 = n := Nat.ofDigitChars_ten_toDigits
  simp [h1, h2, h3, h]

theorem c_shard : "shardID_".toList = ['s','h','a','r','d','I','D','_'] := by rfl
theorem c_seg : "_segID_".toList = ['_','s','e','g','I','D','_'] := by rfl
theorem c_blk : "_blockID_".toList = ['_','b','l','o','c','k','I','D','_'] := by rfl
theorem c_wal : ".wal".toList = ['.','w','a','l'] := by rfl

theorem render_eq (f : WalName) :
    render f = ['s','h','a','r','d','I','D'] ++ '_' :: (dec f.shard ++ '_' :: (['s','e','g','I','D'] ++ '_' :: (dec f.seg ++ '_' ::
      (['b','l','o','c','k','I','D'] ++ '_' :: (dec f.blk ++ '_' :: (dec f.idx ++ ['.','w','a','l']))))))  := by
  unfold render
  rw [c_shard, c_seg, c_blk, c_wal]
  simp only [List.append_assoc, List.cons_append, List.nil_append]

theorem splitU_render (f : WalName) :
    splitU (render f) = [['s','h','a','r','d','I','D'], dec f.shard, ['s','e','g','I','D'], dec f.seg, ['b','l','o','c','k','I','D'], dec f.blk,
      dec f.idx ++ ['.','w','a','l']] := by
  rw [render_eq]
  rw [splitU_app _ _ (by decide), splitU_app _ _ (dec_noU _), splitU_app _ _ (by decide),
    splitU_app _ _ (dec_noU _), splitU_app _ _ (by decide), splitU_app _ _ (dec_noU _), splitU_noU]
  intro hm
  rw [List.mem_append] at hm
  rcases hm with hm | hm
  · exact dec_noU _ hm
  · revert hm; decide

theorem parseName_render (f : WalName) (hs : f.seg < 18446744073709551616) (hb : f.blk < 18446744073709551616) :
    parseName (render f) = some { mId := dec f.shard, seg := f.seg, blk := f.blk,
                                  key := dec f.shard ++ '_' :: (dec f.seg ++ '_' :: dec f.blk) } := by
  unfold parseName
  rw [splitU_render]
  simp only [parseUint_dec _ hs, parseUint_dec _ hb]

/-! ### (B) writer invariant -/

structure Inv (st : WState) : Prop where
  wseg : st.walSeg = st.seg
  wblk : st.walBlk = st.blkNum
  names : st.files.map (·.1) =
    (List.range (st.walIdx + 1)).map (fun i => ({ shard := st.shard, seg := st.seg, blk := st.blkNum, idx := i } : WalName))

theorem appendLast_names (b : Block) (l : List (WalName × List Block)) :
    (appendLast b l).map (·.1) = l.map (·.1) := by
  induction l with
  | nil => rfl
  | cons f r ih =>
    cases r with
    | nil => rfl
    | cons g r => simp only [appendLast, List.map_cons] at ih ⊢; rw [ih]

theorem inv_init (shard : Nat) : Inv (WState.init shard) := by
  constructor <;> simp [WState.init, List.range_succ]

theorem inv_appendBuf (roll : Bool) (st : WState) (h : Inv st) : Inv (appendBuf roll st) := by
  obtain ⟨h1, h2, h3⟩ := h
  cases roll
  · constructor <;> simp [appendBuf, appendLast_names, *]
  · constructor
    · simp [appendBuf, initNewDpWal, h1]
    · simp [appendBuf, initNewDpWal, h2]
    · simp [appendBuf, initNewDpWal, appendLast_names, h3, h1, h2, List.range_succ (n := st.walIdx + 1)]

theorem inv_rotateBlock (st : WState) (h : Inv st) : Inv (rotateBlock st) := by
  obtain ⟨h1, h2, h3⟩ := h
  constructor <;> simp [rotateBlock, cleanAndInitNewDpWal, initNewDpWal, List.range_succ, *]

theorem inv_rotateSegment (st : WState) (h : Inv st) : Inv (rotateSegment st) := by
  obtain ⟨h1, h2, h3⟩ := h
  constructor <;> simp [rotateSegment, cleanAndInitNewDpWal, initNewDpWal, List.range_succ, *]

def ingest0 (name : Nat) (st : WState) : WState :=
  if st.mNames.contains name then st
  else { st with mNames := st.mNames ++ [name], pendNames := st.pendNames ++ [name] }
def ingest1 (d : Dp) (st0 : WState) : WState :=
  { st0 with cur := st0.cur ++ [d], segHasData := true, dpCount := st0.dpCount + 1 }
def ingest2 (cap : Nat) (roll : Bool) (st1 : WState) : WState :=
  if cap ≤ st1.buf.length then appendBuf roll st1 else st1
def ingest3 (d : Dp) (st2 : WState) : WState := { st2 with buf := st2.buf ++ [d] }

theorem step_ingest (cap : Nat) (st : WState) (name : Nat) (d : Dp) (roll : Bool) :
    step cap st (.ingest name d roll) = ingest3 d (ingest2 cap roll (ingest1 d (ingest0 name st))) := rfl

theorem inv_ingest0 (name : Nat) (st : WState) (h : Inv st) : Inv (ingest0 name st) := by
  unfold ingest0; split
  · exact h
  · exact ⟨h.1, h.2, h.3⟩
theorem inv_ingest1 (d : Dp) (st : WState) (h : Inv st) : Inv (ingest1 d st) := ⟨h.1, h.2, h.3⟩
theorem inv_ingest2 (cap : Nat) (roll : Bool) (st : WState) (h : Inv st) : Inv (ingest2 cap roll st) := by
  unfold ingest2; split
  · exact inv_appendBuf _ _ h
  · exact h
theorem inv_ingest3 (d : Dp) (st : WState) (h : Inv st) : Inv (ingest3 d st) := ⟨h.1, h.2, h.3⟩

theorem inv_step (cap : Nat) (st : WState) (op : Op) (h : Inv st) : Inv (step cap st op) := by
  cases op with
  | ingest name d roll =>
    rw [step_ingest]
    exact inv_ingest3 _ _ (inv_ingest2 _ _ _ (inv_ingest1 _ _ (inv_ingest0 _ _ h)))
  | walFlush roll =>
    simp only [step]; split
    · exact h
    · exact inv_appendBuf _ _ h
  | blockRotate =>
    simp only [step]; split
    · exact h
    · exact inv_rotateBlock _ h
  | segRotate =>
    simp only [step]; split
    · exact h
    · apply inv_rotateSegment; split
      · exact h
      · exact inv_rotateBlock _ h
  | nameFlush =>
    simp only [step]; split
    · exact h
    · exact ⟨h.1, h.2, h.3⟩

theorem shard_appendBuf (roll : Bool) (st : WState) : (appendBuf roll st).shard = st.shard := by
  cases roll <;> rfl
theorem shard_rotateBlock (st : WState) : (rotateBlock st).shard = st.shard := rfl
theorem shard_rotateSegment (st : WState) : (rotateSegment st).shard = st.shard := rfl

theorem shard_step (cap : Nat) (st : WState) (op : Op) : (step cap st op).shard = st.shard := by
  cases op with
  | ingest name d roll =>
    rw [step_ingest]
    show (ingest2 cap roll (ingest1 d (ingest0 name st))).shard = _
    have h0 : (ingest0 name st).shard = st.shard := by unfold ingest0; split <;> rfl
    have h2 : ∀ s, (ingest2 cap roll s).shard = s.shard := by
      intro s; unfold ingest2; split
      · exact shard_appendBuf _ _
      · rfl
    rw [h2]; exact h0
  | walFlush roll =>
    simp only [step]; split
    · rfl
    · exact shard_appendBuf _ _
  | blockRotate => simp only [step]; split <;> rfl
  | segRotate =>
    simp only [step]; split
    · rfl
    · rw [shard_rotateSegment]; split <;> rfl
  | nameFlush => simp only [step]; split <;> rfl

theorem inv_runFrom (cap : Nat) (h : List Op) : ∀ st, Inv st → Inv (runFrom cap st h) := by
  induction h with
  | nil => intro st hst; exact hst
  | cons op h ih => intro st hst; exact ih _ (inv_step cap st op hst)

theorem shard_runFrom (cap : Nat) (h : List Op) : ∀ st, (runFrom cap st h).shard = st.shard := by
  induction h with
  | nil => intro st; rfl
  | cons op h ih => intro st; exact (ih _).trans (shard_step cap st op)

theorem inv_run (cap shard : Nat) (h : List Op) : Inv (run cap shard h) := inv_runFrom cap h _ (inv_init shard)
theorem shard_run (cap shard : Nat) (h : List Op) : (run cap shard h).shard = shard := shard_runFrom cap h _

theorem files_of_open_block (cap shard : Nat) (h : List Op) :
    (run cap shard h).files.map (·.1) =
      (List.range ((run cap shard h).walIdx + 1)).map
        (fun i => ({ shard := shard, seg := (run cap shard h).seg, blk := (run cap shard h).blkNum, idx := i } : WalName)) := by
  have := (inv_run cap shard h).names
  rw [shard_run] at this
  exact this

/-! ### (C) grouping -/

theorem addFile_keys (i : Info) (f : RawFile) (acc : List Group) :
    (addFile i f acc).map (fun g => g.info.key) =
      if i.key ∈ acc.map (fun g => g.info.key) then acc.map (fun g => g.info.key)
      else acc.map (fun g => g.info.key) ++ [i.key] := by
  induction acc with
  | nil => simp [addFile]
  | cons g gs ih =>
    unfold addFile
    by_cases hg : g.info.key = i.key
    · simp [hg]
    · have hg' : ¬ i.key = g.info.key := fun e => hg e.symm
      simp only [hg, if_false, List.map_cons, ih, List.mem_cons, hg', false_or]
      split <;> simp

theorem addFile_nodup (i : Info) (f : RawFile) (acc : List Group)
    (h : (acc.map (fun g => g.info.key)).Nodup) : ((addFile i f acc).map (fun g => g.info.key)).Nodup := by
  rw [addFile_keys]
  split
  · exact h
  · rename_i hn
    rw [List.nodup_append]
    refine ⟨h, by simp, ?_⟩
    intro a ha b hb
    simp at hb
    subst hb
    intro e; subst e; exact hn ha

theorem groupsOfSorted_nodup (l : RawDir) : ∀ acc : List Group,
    (acc.map (fun g => g.info.key)).Nodup → ((groupsOfSorted l acc).map (fun g => g.info.key)).Nodup := by
  induction l with
  | nil => intro acc h; exact h
  | cons f fs ih =>
    intro acc h
    unfold groupsOfSorted
    split
    · exact ih _ h
    · exact ih _ (addFile_nodup _ _ _ h)

theorem groups_keys_nodup (d : RawDir) : ((groupsOld d).map (fun g => g.info.key)).Nodup :=
  groupsOfSorted_nodup _ _ (by simp)

theorem recover_length_le (d : RawDir) : (recoverOld d).length ≤ (groupsOld d).length :=
  List.length_filterMap_le _ _

/-- all files carry the same parsed info: one group, files in directory order -/
theorem groupsOfSorted_same_acc (i : Info) (l : RawDir) (hl : ∀ f ∈ l, parseName f.1 = some i) :
    ∀ fs : List RawFile, groupsOfSorted l [{ info := i, files := fs }] = [{ info := i, files := fs ++ l }] := by
  induction l with
  | nil => intro fs; simp [groupsOfSorted]
  | cons f l ih =>
    intro fs
    have hf := hl f (by simp)
    have hl' : ∀ f ∈ l, parseName f.1 = some i := fun g hg => hl g (by simp [hg])
    unfold groupsOfSorted
    rw [hf]
    simp only [addFile, if_true]
    rw [ih hl']
    simp

theorem groupsOfSorted_same (i : Info) (f : RawFile) (l : RawDir) (hl : ∀ g ∈ f :: l, parseName g.1 = some i) :
    groupsOfSorted (f :: l) [] = [{ info := i, files := f :: l }] := by
  have hf := hl f (by simp)
  have hl' : ∀ g ∈ l, parseName g.1 = some i := fun g hg => hl g (by simp [hg])
  unfold groupsOfSorted
  rw [hf]
  simp only [addFile]
  rw [groupsOfSorted_same_acc i l hl']
  simp

theorem mem_insertByName (x y : RawFile) (l : RawDir) : y ∈ insertByName x l ↔ y = x ∨ y ∈ l := by
  induction l with
  | nil => simp [insertByName]
  | cons z zs ih =>
    unfold insertByName
    split
    · simp [ih]; constructor
      · rintro (h | h | h) <;> simp [h]
      · rintro (h | h | h) <;> simp [h]
    · simp

theorem mem_readDir (y : RawFile) (d : RawDir) : y ∈ readDir d ↔ y ∈ d := by
  induction d with
  | nil => simp [readDir]
  | cons x d ih =>
    have : readDir (x :: d) = insertByName x (readDir d) := rfl
    rw [this, mem_insertByName, ih]; simp

theorem perm_insertByName (x : RawFile) (l : RawDir) : (insertByName x l).Perm (x :: l) := by
  induction l with
  | nil => exact List.Perm.refl _
  | cons z zs ih =>
    unfold insertByName
    split
    · exact (List.Perm.cons z ih).trans (List.Perm.swap x z zs)
    · exact List.Perm.refl _

theorem perm_readDir (d : RawDir) : (readDir d).Perm d := by
  induction d with
  | nil => exact List.Perm.refl _
  | cons x d ih =>
    have : readDir (x :: d) = insertByName x (readDir d) := rfl
    rw [this]
    exact (perm_insertByName x _).trans (List.Perm.cons x ih)

/-! ### (D) directory order -/

theorem lexLt_asymm (a : List Char) : ∀ b, lexLt a b = true → lexLt b a = false := by
  induction a with
  | nil => intro b h; cases b <;> simp [lexLt] at h ⊢
  | cons x a ih =>
    intro b h
    cases b with
    | nil => simp [lexLt] at h
    | cons y b =>
      simp only [lexLt] at h ⊢
      by_cases h1 : x.toNat < y.toNat
      · have h2 : ¬ y.toNat < x.toNat := by omega
        simp [h1, h2]
      · by_cases h2 : y.toNat < x.toNat
        · simp [h1, h2] at h
        · simp only [h1, h2, if_false] at h ⊢
          exact ih b h

theorem lexLt_prefix (p a b : List Char) : lexLt (p ++ a) (p ++ b) = lexLt a b := by
  induction p with
  | nil => rfl
  | cons c p ih => simp [lexLt, ih]

theorem readDir_sorted (d : RawDir) (h : d.Pairwise (fun x y => lexLt x.1 y.1 = true)) : readDir d = d := by
  induction d with
  | nil => rfl
  | cons x d ih =>
    have hx : readDir (x :: d) = insertByName x (readDir d) := rfl
    rw [List.pairwise_cons] at h
    rw [hx, ih h.2]
    cases d with
    | nil => rfl
    | cons y ys =>
      have := lexLt_asymm _ _ (h.1 y (by simp))
      simp [insertByName, this]

theorem lexLt_render (s g b i j : Nat) (hij : i < j) (hj : j < 10) :
    lexLt (render { shard := s, seg := g, blk := b, idx := i }) (render { shard := s, seg := g, blk := b, idx := j }) = true := by
  unfold render
  rw [lexLt_prefix]
  have hi : i < 10 := by omega
  simp only [dec, Nat.toDigits_of_lt_base hi, Nat.toDigits_of_lt_base hj, lexLt, List.cons_append, List.nil_append,
    Nat.toNat_digitChar_of_lt_ten hi, Nat.toNat_digitChar_of_lt_ten hj]
  have : 48 + i < 48 + j := by omega
  simp [this]

/-! ### the directory of the writer -/

def infoOf (st : WState) : Info :=
  { mId := dec st.shard, seg := st.seg, blk := st.blkNum, key := dec st.shard ++ '_' :: (dec st.seg ++ '_' :: dec st.blkNum) }

theorem files_ne_nil (st : WState) (hinv : Inv st) : st.files ≠ [] := by
  intro e
  have := congrArg List.length hinv.names
  simp [e] at this

theorem mem_files_name (st : WState) (hinv : Inv st) (g : WalName × List Block) (hg : g ∈ st.files) :
    ∃ i, i < st.walIdx + 1 ∧ g.1 = { shard := st.shard, seg := st.seg, blk := st.blkNum, idx := i } := by
  have : g.1 ∈ st.files.map (·.1) := List.mem_map_of_mem hg
  rw [hinv.names, List.mem_map] at this
  obtain ⟨i, hi, e⟩ := this
  exact ⟨i, List.mem_range.mp hi, e.symm⟩

theorem parse_rawOf (st : WState) (hinv : Inv st) (hs : st.seg < 18446744073709551616)
    (hb : st.blkNum < 18446744073709551616) : ∀ f ∈ rawOf st.files, parseName f.1 = some (infoOf st) := by
  intro f hf
  unfold rawOf at hf
  rw [List.mem_map] at hf
  obtain ⟨g, hg, e⟩ := hf
  obtain ⟨i, _, hi⟩ := mem_files_name st hinv g hg
  subst e
  simp only [hi]
  exact parseName_render _ hs hb

theorem groups_writer (st : WState) (hinv : Inv st) (hs : st.seg < 18446744073709551616)
    (hb : st.blkNum < 18446744073709551616) :
    groupsOld (rawOf st.files) = [{ info := infoOf st, files := readDir (rawOf st.files) }] := by
  unfold groupsOld
  have hp : ∀ f ∈ readDir (rawOf st.files), parseName f.1 = some (infoOf st) :=
    fun f hf => parse_rawOf st hinv hs hb f ((mem_readDir _ _).mp hf)
  cases hr : readDir (rawOf st.files) with
  | nil =>
    have := (perm_readDir (rawOf st.files)).length_eq
    rw [hr] at this
    have hne := files_ne_nil st hinv
    cases hf : st.files with
    | nil => exact absurd hf hne
    | cons a l => simp [rawOf, hf] at this
  | cons f l =>
    rw [hr] at hp
    exact groupsOfSorted_same _ f l hp

theorem rawOf_sorted (st : WState) (hinv : Inv st) (hfew : st.walIdx < 10) :
    (rawOf st.files).Pairwise (fun x y => lexLt x.1 y.1 = true) := by
  have h1 : (rawOf st.files).map (·.1) =
      (List.range (st.walIdx + 1)).map (fun i => render { shard := st.shard, seg := st.seg, blk := st.blkNum, idx := i }) := by
    have : (rawOf st.files).map (·.1) = (st.files.map (·.1)).map render := by
      simp [rawOf, List.map_map, Function.comp_def]
    rw [this, hinv.names, List.map_map]
    rfl
  have h2 : ((rawOf st.files).map (·.1)).Pairwise (fun a b => lexLt a b = true) := by
    rw [h1, List.pairwise_map]
    refine List.Pairwise.imp_of_mem ?_ List.pairwise_lt_range
    intro a b _ hb hab
    exact lexLt_render _ _ _ a b hab (by have := List.mem_range.mp hb; omega)
  rw [List.pairwise_map] at h2
  exact h2

theorem readDir_writer (st : WState) (hinv : Inv st) (hfew : st.walIdx < 10) :
    readDir (rawOf st.files) = rawOf st.files := readDir_sorted _ (rawOf_sorted st hinv hfew)

/-- the logged datapoints of the open block -/
def logged (st : WState) : List Dp := st.files.flatMap (fun f => f.2.flatten)

theorem flatMap_rawOf (fs : List (WalName × List Block)) : (rawOf fs).flatMap fileDps = fs.flatMap (fun f => f.2.flatten) := by
  simp [rawOf, List.flatMap_map, fileDps]

def curKey (st : WState) : Key := (dec st.shard, st.seg, st.blkNum)

theorem recover_writer (st : WState) (hinv : Inv st) (hs : st.seg < 18446744073709551616)
    (hb : st.blkNum < 18446744073709551616) :
    recoverOld (rawOf st.files) =
      if ((readDir (rawOf st.files)).flatMap fileDps).isEmpty then []
      else [(curKey st, (readDir (rawOf st.files)).flatMap fileDps)] := by
  unfold recoverOld
  rw [groups_writer st hinv hs hb]
  by_cases he : ((readDir (rawOf st.files)).flatMap fileDps).isEmpty = true
  · simp [groupDps, he]
  · simp [groupDps, he, curKey, infoOf]

/-- whatever the replay ORDER is: recovery after a crash of the writer flushes at most one block, the open one -/
theorem recover_only_open_block (cap shard : Nat) (h : List Op)
    (hs : (run cap shard h).seg < 18446744073709551616) (hb : (run cap shard h).blkNum < 18446744073709551616) :
    (recoverOld (dirAfter cap shard h)).length ≤ 1 ∧ ∀ kv ∈ recoverOld (dirAfter cap shard h), kv.1 = openKey cap shard h := by
  unfold dirAfter
  rw [recover_writer _ (inv_run cap shard h) hs hb]
  have hk : curKey (run cap shard h) = openKey cap shard h := by
    unfold curKey openKey; rw [shard_run]
  split
  · simp
  · simp [hk]

theorem replay_order_of_few (cap shard : Nat) (h : List Op) (hg : fewWalFiles cap shard h)
    (hs : (run cap shard h).seg < 18446744073709551616) (hb : (run cap shard h).blkNum < 18446744073709551616) :
    (groupsOld (dirAfter cap shard h)).map (·.files) = [dirAfter cap shard h] := by
  unfold dirAfter
  rw [groups_writer _ (inv_run cap shard h) hs hb, readDir_writer _ (inv_run cap shard h) hg]
  rfl

/-! ### (E) simulation -/

theorem lookup_flushTo_self (k : Key) (v : List Dp) (d : Disk) : lookup k (flushTo k v d) = v := by
  induction d with
  | nil => simp [flushTo, lookup]
  | cons kv r ih =>
    obtain ⟨k', v'⟩ := kv
    unfold flushTo
    by_cases hk : k' = k
    · simp [hk, lookup]
    · simp [hk, lookup, ih]

theorem lookup_flushTo_ne (k k' : Key) (v : List Dp) (d : Disk) (hne : k' ≠ k) :
    lookup k' (flushTo k v d) = lookup k' d := by
  induction d with
  | nil => simp [flushTo, lookup, Ne.symm hne]
  | cons kv r ih =>
    obtain ⟨k'', v''⟩ := kv
    unfold flushTo
    by_cases hk : k'' = k
    · have : ¬ k = k' := fun e => hne e.symm
      simp [hk, lookup, this]
    · simp only [hk, if_false, lookup, ih]

def blockOf (done : List (Key × Dp)) (k : Key) : List Dp := (done.filter (fun e => e.1 = k)).map (·.2)

theorem blockOf_append (a b : List (Key × Dp)) (k : Key) : blockOf (a ++ b) k = blockOf a k ++ blockOf b k := by
  simp [blockOf]

theorem blockOf_all (l : List (Key × Dp)) (k : Key) (h : ∀ e ∈ l, e.1 = k) : blockOf l k = l.map (·.2) := by
  unfold blockOf
  rw [List.filter_eq_self.mpr]
  intro e he; simp [h e he]

theorem blockOf_none (l : List (Key × Dp)) (k : Key) (h : ∀ e ∈ l, e.1 ≠ k) : blockOf l k = [] := by
  unfold blockOf
  rw [List.filter_eq_nil_iff.mpr]
  · rfl
  · intro e he; simp [h e he]

def older (st : WState) (k : Key) : Prop :=
  k.1 = dec st.shard ∧ (k.2.1 < st.seg ∨ (k.2.1 = st.seg ∧ k.2.2 < st.blkNum))

theorem not_older_curKey (st : WState) : ¬ older st (curKey st) := by
  simp [older, curKey]

structure R (st : WState) (sp : Spec) : Prop where
  shard : sp.shard = st.shard
  seg : sp.seg = st.seg
  blk : sp.blk = st.blkNum
  next : sp.nextSuffix = st.nextSuffix
  cnt : sp.openCount = st.cur.length
  hasData : sp.segHasData = st.segHasData
  pend : sp.pend.map (·.2) = st.buf
  pendKey : ∀ e ∈ sp.pend, e.1 = curKey st
  cur : logged st ++ st.buf = st.cur
  doneCur : blockOf sp.done (curKey st) = logged st
  doneOld : ∀ k, k ≠ curKey st → lookup k st.durable = blockOf sp.done k
  doneKeys : ∀ e ∈ sp.done, e.1 = curKey st ∨ older st e.1
  durOld : ∀ k, lookup k st.durable ≠ [] → older st k
  sufLt : st.seg < st.nextSuffix
  filesNe : st.files ≠ []

theorem R_init (shard : Nat) : R (WState.init shard) (Spec.init shard) := by
  constructor <;> simp [WState.init, Spec.init, logged, blockOf, lookup]

/-- `R` only reads these fields -/
theorem R_congr {st st' : WState} {sp : Spec} (h : R st sp)
    (e1 : st'.shard = st.shard) (e2 : st'.seg = st.seg) (e3 : st'.blkNum = st.blkNum) (e4 : st'.nextSuffix = st.nextSuffix)
    (e5 : st'.cur = st.cur) (e6 : st'.segHasData = st.segHasData) (e7 : st'.buf = st.buf) (e8 : st'.files = st.files)
    (e9 : st'.durable = st.durable) : R st' sp := by
  have hk : curKey st' = curKey st := by simp [curKey, e1, e2, e3]
  have ho : ∀ k, older st' k = older st k := by intro k; simp [older, e1, e2, e3]
  have hl : logged st' = logged st := by simp [logged, e8]
  constructor <;> simp only [hk, ho, hl, e1, e2, e3, e4, e5, e6, e7, e8, e9]
  · exact h.shard
  · exact h.seg
  · exact h.blk
  · exact h.next
  · exact h.cnt
  · exact h.hasData
  · exact h.pend
  · exact h.pendKey
  · exact h.cur
  · exact h.doneCur
  · exact h.doneOld
  · exact h.doneKeys
  · exact h.durOld
  · exact h.sufLt
  · exact h.filesNe

theorem flat_appendLast (b : Block) (l : List (WalName × List Block)) (hne : l ≠ []) :
    (appendLast b l).flatMap (fun f => f.2.flatten) = l.flatMap (fun f => f.2.flatten) ++ b := by
  induction l with
  | nil => exact absurd rfl hne
  | cons f r ih =>
    cases r with
    | nil => simp [appendLast]
    | cons g r =>
      simp only [appendLast, List.flatMap_cons] at ih ⊢
      rw [ih (by simp)]
      simp

theorem ab_shard (roll : Bool) (st : WState) : (appendBuf roll st).shard = st.shard := by cases roll <;> rfl
theorem ab_seg (roll : Bool) (st : WState) : (appendBuf roll st).seg = st.seg := by cases roll <;> rfl
theorem ab_blkNum (roll : Bool) (st : WState) : (appendBuf roll st).blkNum = st.blkNum := by cases roll <;> rfl
theorem ab_next (roll : Bool) (st : WState) : (appendBuf roll st).nextSuffix = st.nextSuffix := by cases roll <;> rfl
theorem ab_cur (roll : Bool) (st : WState) : (appendBuf roll st).cur = st.cur := by cases roll <;> rfl
theorem ab_hasData (roll : Bool) (st : WState) : (appendBuf roll st).segHasData = st.segHasData := by cases roll <;> rfl
theorem ab_durable (roll : Bool) (st : WState) : (appendBuf roll st).durable = st.durable := by cases roll <;> rfl
theorem ab_buf (roll : Bool) (st : WState) : (appendBuf roll st).buf = [] := by cases roll <;> rfl
theorem ab_files_ne (roll : Bool) (st : WState) (hne : st.files ≠ []) : (appendBuf roll st).files ≠ [] := by
  cases roll
  · show appendLast st.buf st.files ≠ []
    intro e
    have := congrArg (List.map (·.1)) e
    rw [appendLast_names] at this
    simp at this
    exact hne this
  · show appendLast st.buf st.files ++ [_] ≠ []
    simp
theorem ab_logged (roll : Bool) (st : WState) (hne : st.files ≠ []) :
    logged (appendBuf roll st) = logged st ++ st.buf := by
  cases roll
  · exact flat_appendLast _ _ hne
  · show (appendLast st.buf st.files ++ [_]).flatMap _ = _
    rw [List.flatMap_append, flat_appendLast _ _ hne]
    simp [logged]

theorem R_complete_nil {st : WState} {sp : Spec} (h : R st sp) (hp : sp.pend = []) : R st sp.complete := by
  have : sp.complete = sp := by
    cases sp; simp only [Spec.complete] at hp ⊢; simp [hp]
  rw [this]; exact h

theorem R_appendBuf (roll : Bool) {st : WState} {sp : Spec} (h : R st sp) : R (appendBuf roll st) sp.complete := by
  have hk : curKey (appendBuf roll st) = curKey st := by simp [curKey, ab_shard, ab_seg, ab_blkNum]
  have ho : ∀ k, older (appendBuf roll st) k = older st k := by intro k; simp [older, ab_shard, ab_seg, ab_blkNum]
  have hl := ab_logged roll st h.filesNe
  have hpb : blockOf sp.pend (curKey st) = st.buf := by rw [blockOf_all _ _ h.pendKey, h.pend]
  constructor <;>
    try simp only [hk, ho, hl, ab_shard, ab_seg, ab_blkNum, ab_next, ab_cur, ab_hasData, ab_durable, ab_buf, Spec.complete]
  · exact h.shard
  · exact h.seg
  · exact h.blk
  · exact h.next
  · exact h.cnt
  · exact h.hasData
  · rfl
  · intro e he; cases he
  · rw [List.append_nil]; exact h.cur
  · rw [blockOf_append, h.doneCur, hpb]
  · intro k hne
    rw [blockOf_append, h.doneOld k hne, blockOf_none sp.pend k, List.append_nil]
    intro e he; rw [h.pendKey e he]; exact Ne.symm hne
  · intro e he
    rcases List.mem_append.mp he with he | he
    · exact h.doneKeys e he
    · exact Or.inl (h.pendKey e he)
  · exact h.durOld
  · exact h.sufLt
  · exact ab_files_ne roll st h.filesNe

/-- the last two assignments of EncodeDatapoint -/
def push (d : Dp) (st : WState) : WState := ingest3 d (ingest1 d st)

theorem ingest2_comm (cap : Nat) (roll : Bool) (d : Dp) (st : WState) :
    ingest2 cap roll (ingest1 d st) = ingest1 d (ingest2 cap roll st) := by
  unfold ingest2
  show (if cap ≤ st.buf.length then _ else _) = _
  split
  · cases roll <;> rfl
  · rfl

theorem R_ingest2 (cap : Nat) (roll : Bool) {st : WState} {sp : Spec} (h : R st sp) :
    R (ingest2 cap roll st) (if cap ≤ sp.pend.length then sp.complete else sp) := by
  have : sp.pend.length = st.buf.length := by rw [← h.pend, List.length_map]
  unfold ingest2
  rw [this]
  split
  · exact R_appendBuf roll h
  · exact h

theorem R_push (d : Dp) {st : WState} {sp : Spec} (h : R st sp) :
    R (push d st) { sp with pend := sp.pend ++ [((dec sp.shard, sp.seg, sp.blk), d)], openCount := sp.openCount + 1,
                            segHasData := true } := by
  have hk : curKey (push d st) = curKey st := rfl
  have ho : ∀ k, older (push d st) k = older st k := fun _ => rfl
  have hl : logged (push d st) = logged st := rfl
  have hkey : (dec sp.shard, sp.seg, sp.blk) = curKey st := by rw [h.shard, h.seg, h.blk]; rfl
  constructor <;> try simp only [hk, ho, hl, hkey]
  · exact h.shard
  · exact h.seg
  · exact h.blk
  · exact h.next
  · show sp.openCount + 1 = (st.cur ++ [d]).length
    rw [h.cnt]; simp
  · rfl
  · show (sp.pend ++ [(curKey st, d)]).map (·.2) = st.buf ++ [d]
    rw [List.map_append, h.pend]; rfl
  · intro e he
    rcases List.mem_append.mp he with he | he
    · exact h.pendKey e he
    · simp at he; rw [he]
  · show logged st ++ (st.buf ++ [d]) = st.cur ++ [d]
    rw [← List.append_assoc, h.cur]
  · exact h.doneCur
  · exact h.doneOld
  · exact h.doneKeys
  · exact h.durOld
  · exact h.sufLt
  · exact h.filesNe

theorem R_ingest0 (name : Nat) {st : WState} {sp : Spec} (h : R st sp) : R (ingest0 name st) sp := by
  unfold ingest0; split
  · exact h
  · exact R_congr h rfl rfl rfl rfl rfl rfl rfl rfl rfl

theorem R_step_ingest (cap : Nat) (name : Nat) (d : Dp) (roll : Bool) {st : WState} {sp : Spec} (h : R st sp) :
    R (step cap st (.ingest name d roll)) (specStep cap sp (.ingest name d roll)) := by
  rw [step_ingest, ingest2_comm]
  have h2 := R_push d (R_ingest2 cap roll (R_ingest0 name h))
  have e : specStep cap sp (.ingest name d roll) =
      { (if cap ≤ sp.pend.length then sp.complete else sp) with
        pend := (if cap ≤ sp.pend.length then sp.complete else sp).pend ++
          [((dec (if cap ≤ sp.pend.length then sp.complete else sp).shard,
             (if cap ≤ sp.pend.length then sp.complete else sp).seg,
             (if cap ≤ sp.pend.length then sp.complete else sp).blk), d)],
        openCount := (if cap ≤ sp.pend.length then sp.complete else sp).openCount + 1, segHasData := true } := by
    simp only [specStep]
    split <;> rfl
  rw [e]
  exact h2

theorem rb_shard (st : WState) : (rotateBlock st).shard = st.shard := rfl
theorem rb_seg (st : WState) : (rotateBlock st).seg = st.seg := rfl
theorem rb_blkNum (st : WState) : (rotateBlock st).blkNum = st.blkNum + 1 := rfl
theorem rb_next (st : WState) : (rotateBlock st).nextSuffix = st.nextSuffix := rfl
theorem rb_cur (st : WState) : (rotateBlock st).cur = [] := rfl
theorem rb_buf (st : WState) : (rotateBlock st).buf = [] := rfl
theorem rb_hasData (st : WState) : (rotateBlock st).segHasData = st.segHasData := rfl
theorem rb_durable (st : WState) : (rotateBlock st).durable = flushTo (curKey st) st.cur st.durable := rfl
theorem rb_logged (st : WState) : logged (rotateBlock st) = [] := rfl
theorem rb_files_ne (st : WState) : (rotateBlock st).files ≠ [] := by
  show [_] ≠ []; simp

theorem older_rb (st : WState) (k : Key) (h : k = curKey st ∨ older st k) : older (rotateBlock st) k := by
  obtain ⟨m, s, b⟩ := k
  simp only [older, curKey, rb_shard, rb_seg, rb_blkNum, Prod.mk.injEq] at h ⊢
  rcases h with ⟨h1, h2, h3⟩ | ⟨h1, h2⟩
  · exact ⟨h1, Or.inr ⟨h2, by omega⟩⟩
  · refine ⟨h1, ?_⟩
    rcases h2 with h2 | ⟨h2, h3⟩
    · exact Or.inl h2
    · exact Or.inr ⟨h2, by omega⟩

theorem ne_curKey_rb (st : WState) (k : Key) (h : k = curKey st ∨ older st k) : k ≠ curKey (rotateBlock st) := by
  obtain ⟨m, s, b⟩ := k
  simp only [older, curKey, rb_shard, rb_seg, rb_blkNum, Prod.mk.injEq, ne_eq] at h ⊢
  rintro ⟨e1, e2, e3⟩
  rcases h with ⟨h1, h2, h3⟩ | ⟨h1, h2⟩ <;> omega

theorem R_rotateBlock {st : WState} {sp : Spec} (h : R st sp) : R (rotateBlock st) sp.closeBlock := by
  have hpb : blockOf sp.pend (curKey st) = st.buf := by rw [blockOf_all _ _ h.pendKey, h.pend]
  have hdk : ∀ e ∈ sp.done ++ sp.pend, e.1 = curKey st ∨ older st e.1 := by
    intro e he
    rcases List.mem_append.mp he with he | he
    · exact h.doneKeys e he
    · exact Or.inl (h.pendKey e he)
  constructor <;>
    try simp only [rb_shard, rb_seg, rb_blkNum, rb_next, rb_cur, rb_buf, rb_hasData, rb_durable, rb_logged,
      Spec.closeBlock, Spec.complete]
  · exact h.shard
  · exact h.seg
  · rw [h.blk]
  · exact h.next
  · rfl
  · exact h.hasData
  · rfl
  · intro e he; cases he
  · rfl
  · exact blockOf_none _ _ (fun e he => ne_curKey_rb st e.1 (hdk e he))
  · intro k hne
    by_cases hk : k = curKey st
    · rw [hk, lookup_flushTo_self, blockOf_append, h.doneCur, hpb, h.cur]
    · rw [lookup_flushTo_ne _ _ _ _ hk, blockOf_append, h.doneOld k hk, blockOf_none sp.pend k, List.append_nil]
      intro e he; rw [h.pendKey e he]; exact Ne.symm hk
  · intro e he
    exact Or.inr (older_rb st e.1 (hdk e he))
  · intro k hne
    by_cases hk : k = curKey st
    · exact older_rb st k (Or.inl hk)
    · rw [lookup_flushTo_ne _ _ _ _ hk] at hne
      exact older_rb st k (Or.inr (h.durOld k hne))
  · exact h.sufLt
  · exact rb_files_ne st

theorem rs_shard (st : WState) : (rotateSegment st).shard = st.shard := rfl
theorem rs_seg (st : WState) : (rotateSegment st).seg = st.nextSuffix := rfl
theorem rs_blkNum (st : WState) : (rotateSegment st).blkNum = 0 := rfl
theorem rs_next (st : WState) : (rotateSegment st).nextSuffix = st.nextSuffix + 1 := rfl
theorem rs_cur (st : WState) : (rotateSegment st).cur = st.cur := rfl
theorem rs_buf (st : WState) : (rotateSegment st).buf = [] := rfl
theorem rs_hasData (st : WState) : (rotateSegment st).segHasData = false := rfl
theorem rs_durable (st : WState) : (rotateSegment st).durable = st.durable := rfl
theorem rs_logged (st : WState) : logged (rotateSegment st) = [] := rfl
theorem rs_files_ne (st : WState) : (rotateSegment st).files ≠ [] := by
  show [_] ≠ []; simp

theorem older_rs (st : WState) (hlt : st.seg < st.nextSuffix) (k : Key) (h : k = curKey st ∨ older st k) :
    older (rotateSegment st) k := by
  obtain ⟨m, s, b⟩ := k
  simp only [older, curKey, rs_shard, rs_seg, rs_blkNum, Prod.mk.injEq] at h ⊢
  rcases h with ⟨h1, h2, h3⟩ | ⟨h1, h2⟩
  · exact ⟨h1, Or.inl (by omega)⟩
  · exact ⟨h1, Or.inl (by omega)⟩

theorem ne_curKey_rs (st : WState) (hlt : st.seg < st.nextSuffix) (k : Key) (h : k = curKey st ∨ older st k) :
    k ≠ curKey (rotateSegment st) := by
  obtain ⟨m, s, b⟩ := k
  simp only [older, curKey, rs_shard, rs_seg, rs_blkNum, Prod.mk.injEq, ne_eq] at h ⊢
  rintro ⟨e1, e2, e3⟩
  rcases h with ⟨h1, h2, h3⟩ | ⟨h1, h2⟩ <;> omega

theorem R_rotateSegment {st : WState} {sp : Spec} (h : R st sp) (hc : st.cur = []) :
    R (rotateSegment st)
      { sp with seg := sp.nextSuffix, nextSuffix := sp.nextSuffix + 1, blk := 0, segHasData := false } := by
  have hlb : logged st = [] ∧ st.buf = [] := by
    have := h.cur; rw [hc] at this; exact List.append_eq_nil_iff.mp this
  have hp : sp.pend = [] := by
    have := h.pend; rw [hlb.2] at this; exact List.map_eq_nil_iff.mp this
  constructor <;>
    try simp only [rs_shard, rs_seg, rs_blkNum, rs_next, rs_cur, rs_buf, rs_hasData, rs_durable, rs_logged]
  · exact h.shard
  · exact h.next
  · rw [h.next]
  · exact h.cnt
  · rw [hp]; rfl
  · rw [hp]; intro e he; cases he
  · rw [hc]; rfl
  · exact blockOf_none _ _ (fun e he => ne_curKey_rs st h.sufLt e.1 (h.doneKeys e he))
  · intro k hne
    by_cases hk : k = curKey st
    · rw [hk, h.doneCur, hlb.1]
      cases hl : lookup (curKey st) st.durable with
      | nil => rfl
      | cons a l => exact absurd (h.durOld (curKey st) (by rw [hl]; simp)) (not_older_curKey st)
    · exact h.doneOld k hk
  · intro e he
    exact Or.inr (older_rs st h.sufLt e.1 (h.doneKeys e he))
  · intro k hne
    exact older_rs st h.sufLt k (Or.inr (h.durOld k hne))
  · omega
  · exact rs_files_ne st

theorem R_step (cap : Nat) (op : Op) {st : WState} {sp : Spec} (h : R st sp) :
    R (step cap st op) (specStep cap sp op) := by
  cases op with
  | ingest name d roll => exact R_step_ingest cap name d roll h
  | walFlush roll =>
    simp only [step, specStep]
    split
    · rename_i he
      apply R_complete_nil h
      have hb : st.buf = [] := List.isEmpty_iff.mp he
      have := h.pend; rw [hb] at this; exact List.map_eq_nil_iff.mp this
    · exact R_appendBuf roll h
  | blockRotate =>
    simp only [step, specStep]
    have hiff : sp.openCount = 0 ↔ st.cur.isEmpty = true := by
      rw [h.cnt, List.isEmpty_iff, List.length_eq_zero_iff]
    by_cases he : st.cur.isEmpty = true
    · rw [if_pos he, if_pos (hiff.mpr he)]; exact h
    · have : ¬ sp.openCount = 0 := fun e => he (hiff.mp e)
      rw [if_neg he, if_neg this]; exact R_rotateBlock h
  | segRotate =>
    simp only [step, specStep]
    rw [h.hasData]
    split
    · exact h
    · have hiff : sp.openCount = 0 ↔ st.cur.isEmpty = true := by
        rw [h.cnt, List.isEmpty_iff, List.length_eq_zero_iff]
      by_cases he : st.cur.isEmpty = true
      · rw [if_pos he, if_pos (hiff.mpr he)]
        exact R_rotateSegment h (List.isEmpty_iff.mp he)
      · have : ¬ sp.openCount = 0 := fun e => he (hiff.mp e)
        rw [if_neg he, if_neg this]
        exact R_rotateSegment (R_rotateBlock h) rfl
  | nameFlush =>
    simp only [step, specStep]
    split
    · exact h
    · exact R_congr h rfl rfl rfl rfl rfl rfl rfl rfl rfl

theorem R_runFrom (cap : Nat) (h : List Op) : ∀ (st : WState) (sp : Spec), R st sp →
    R (runFrom cap st h) (h.foldl (specStep cap) sp) := by
  induction h with
  | nil => intro st sp hr; exact hr
  | cons op h ih => intro st sp hr; exact ih _ _ (R_step cap op hr)

theorem R_run (cap shard : Nat) (h : List Op) : R (run cap shard h) (specRun cap shard h) :=
  R_runFrom cap h _ _ (R_init shard)

theorem lookup_after {st : WState} {sp : Spec} (h : R st sp) (X : List Dp) (k : Key) :
    lookup k (applyFlushes st.durable (if X.isEmpty then [] else [(curKey st, X)])) =
      if k = curKey st then X else blockOf sp.done k := by
  have hcur : lookup (curKey st) st.durable = [] := by
    cases hl : lookup (curKey st) st.durable with
    | nil => rfl
    | cons a l => exact absurd (h.durOld (curKey st) (by rw [hl]; simp)) (not_older_curKey st)
  by_cases hx : X.isEmpty = true
  · have hx' : X = [] := List.isEmpty_iff.mp hx
    simp only [hx, if_true, applyFlushes, List.foldl_nil]
    split
    · rename_i hk; rw [hk, hcur, hx']
    · rename_i hk; exact h.doneOld k hk
  · rw [if_neg hx]
    simp only [applyFlushes, List.foldl_cons, List.foldl_nil]
    split
    · rename_i hk; rw [hk, lookup_flushTo_self]
    · rename_i hk; rw [lookup_flushTo_ne _ _ _ _ hk]; exact h.doneOld k hk

/-- the main theorem: under the guard the recovered disk holds, for every block, exactly the completed datapoints -/
theorem recover_exact (cap shard : Nat) (h : List Op) (hg : fewWalFiles cap shard h)
    (hs : (run cap shard h).seg < 18446744073709551616) (hb : (run cap shard h).blkNum < 18446744073709551616) (k : Key) :
    lookup k (diskAfterRecoveryOld cap shard h) = specBlock cap shard h k := by
  have hr := R_run cap shard h
  unfold diskAfterRecoveryOld durableBlocks dirAfter
  rw [recover_writer _ (inv_run cap shard h) hs hb, lookup_after hr,
    readDir_writer _ (inv_run cap shard h) hg, flatMap_rawOf]
  split
  · rename_i hk
    rw [hk]; exact hr.doneCur.symm
  · rfl

/-- without the guard: every datapoint is still there exactly once (a permutation), only the order can be wrong -/
theorem recover_perm (cap shard : Nat) (h : List Op)
    (hs : (run cap shard h).seg < 18446744073709551616) (hb : (run cap shard h).blkNum < 18446744073709551616) (k : Key) :
    (lookup k (diskAfterRecoveryOld cap shard h)).Perm (specBlock cap shard h k) := by
  have hr := R_run cap shard h
  unfold diskAfterRecoveryOld durableBlocks dirAfter
  rw [recover_writer _ (inv_run cap shard h) hs hb, lookup_after hr]
  split
  · rename_i hk
    rw [hk]
    have hp := List.Perm.flatMap_right fileDps (perm_readDir (rawOf (run cap shard h).files))
    rw [flatMap_rawOf] at hp
    have : specBlock cap shard h (curKey (run cap shard h)) = logged (run cap shard h) := hr.doneCur
    rw [this]; exact hp
  · exact List.Perm.refl _

/-! ### (F) counterexample history: 12 appends, each followed by a roll-over -/

def mkDp (i : Nat) : Dp := { ts := 100 + i, val := i, tsid := 7 }
def h11 : List Op := (List.range 12).flatMap (fun i => [Op.ingest 0 (mkDp i) false, Op.walFlush true])
theorem h11_replay_order :
    ((groupsOld (dirAfter 100 0 h11)).map (fun g => g.files.map (fun f => String.ofList f.1))) =
      [["shardID_0_segID_0_blockID_0_0.wal", "shardID_0_segID_0_blockID_0_1.wal", "shardID_0_segID_0_blockID_0_10.wal",
        "shardID_0_segID_0_blockID_0_11.wal", "shardID_0_segID_0_blockID_0_12.wal", "shardID_0_segID_0_blockID_0_2.wal",
        "shardID_0_segID_0_blockID_0_3.wal", "shardID_0_segID_0_blockID_0_4.wal", "shardID_0_segID_0_blockID_0_5.wal",
        "shardID_0_segID_0_blockID_0_6.wal", "shardID_0_segID_0_blockID_0_7.wal", "shardID_0_segID_0_blockID_0_8.wal",
        "shardID_0_segID_0_blockID_0_9.wal"]] := by decide +kernel
theorem h11_recovered :
    (lookup (dec 0, 0, 0) (diskAfterRecoveryOld 100 0 h11)).map (·.ts) = [100, 101, 110, 111, 102, 103, 104, 105, 106, 107, 108, 109]
    ∧ (specBlock 100 0 h11 (dec 0, 0, 0)).map (·.ts) = [100, 101, 102, 103, 104, 105, 106, 107, 108, 109, 110, 111] := by
  decide +kernel
end SigModel.Lemmas.C10R
