/-
Helper lemmas for C11 (part 5): the read of one request against a concurrent rotation (`Conc.ReadOne`).
The machine is finite; the invariants are checked by case analysis over rotation pc × reader pc × label.
-/
import SigModel.Model.Conc
set_option linter.unusedSimpArgs false
namespace SigModel.Lemmas.C11.ReadOne
open SigModel.Conc.ReadOne

/-- the repaired reader: a finished read has read the segment, from the unrotated entry or from the rotated
metadata; nothing is skipped, nothing crashes -/
def GoodReal (s : RSt) : Prop :=
  (s.pc = .done → (s.outcome = some .readUnrotated ∨ s.outcome = some .readRotated)) ∧
  (s.pc ≠ .done → s.outcome = none)

theorem goodReal_init : GoodReal {} := by
  simp [GoodReal]

theorem goodReal_step (s : RSt) (l : RLabel) (h : GoodReal s) : GoodReal (rstep .real s l) := by
  obtain ⟨rot, pc, out⟩ := s
  cases l <;> cases rot <;> cases pc <;>
    simp_all [GoodReal, rstep, readStep, RotPc.next, RotPc.inUnrot, RotPc.inRot]

theorem goodReal_run (ls : List RLabel) (s : RSt) (h : GoodReal s) : GoodReal (rrun .real s ls) := by
  induction ls generalizing s with
  | nil => exact h
  | cons l ls ih => exact ih _ (goodReal_step s l h)

/-- the old reader under the schedule guard: between a check that answered "unrotated" and its look-up the key
is still in the unrotated map; a finished read has read the segment -/
def GoodOld (s : RSt) : Prop :=
  ((s.pc = .lookupSsr ∨ s.pc = .lookupReader) → s.rot.inUnrot = true) ∧
  (s.pc = .done → (s.outcome = some .readUnrotated ∨ s.outcome = some .readRotated)) ∧
  (s.pc ≠ .done → s.outcome = none)

theorem goodOld_init : GoodOld {} := by
  simp [GoodOld]

theorem goodOld_step (s : RSt) (l : RLabel) (ls : List RLabel) (h : GoodOld s)
    (hg : noRemoveInWindow s (l :: ls) = true) :
    GoodOld (rstep .old s l) ∧ noRemoveInWindow (rstep .old s l) ls = true := by
  obtain ⟨rot, pc, out⟩ := s
  simp only [noRemoveInWindow, Bool.and_eq_true] at hg
  refine ⟨?_, hg.2⟩
  have hg1 := hg.1
  clear hg
  cases l <;> cases rot <;> cases pc <;>
    simp_all [GoodOld, rstep, readStep, RotPc.next, RotPc.inUnrot, RotPc.inRot]

theorem goodOld_run (ls : List RLabel) (s : RSt) (h : GoodOld s) (hg : noRemoveInWindow s ls = true) :
    GoodOld (rrun .old s ls) := by
  induction ls generalizing s with
  | nil => exact h
  | cons l ls ih =>
    obtain ⟨h1, h2⟩ := goodOld_step s l ls h hg
    exact ih _ h1 h2

end SigModel.Lemmas.C11.ReadOne
