/-
Helper lemmas for C11 (part 5): the read of one request against a concurrent rotation (`Conc.ReadOne`).
The machine is finite; the invariants are checked by case analysis over rotation pc × reader pc × label.
-/
import SigModel.Model.Conc
set_option linter.unusedSimpArgs false
namespace SigModel.Lemmas.C11.ReadOne
open SigModel.Conc.ReadOne

/-- between a check that answered "unrotated" and its look-up the key is still in the unrotated map; a
finished read has read the segment -/
def Good (s : RSt) : Prop :=
  ((s.pc = .lookupSsr ∨ s.pc = .lookupReader) → s.rot.inUnrot = true) ∧
  (s.pc = .done → (s.outcome = some .readUnrotated ∨ s.outcome = some .readRotated)) ∧
  (s.pc ≠ .done → s.outcome = none)

theorem good_init : Good {} := by
  simp [Good]

theorem good_step (s : RSt) (l : RLabel) (ls : List RLabel) (h : Good s)
    (hg : noRemoveInWindow s (l :: ls) = true) :
    Good (rstep false s l) ∧ noRemoveInWindow (rstep false s l) ls = true := by
  obtain ⟨rot, pc, out⟩ := s
  simp only [noRemoveInWindow, Bool.and_eq_true] at hg
  refine ⟨?_, hg.2⟩
  have hg1 := hg.1
  clear hg
  cases l <;> cases rot <;> cases pc <;>
    simp_all [Good, rstep, readStep, RotPc.next, RotPc.inUnrot, RotPc.inRot]

theorem good_run (ls : List RLabel) (s : RSt) (h : Good s) (hg : noRemoveInWindow s ls = true) :
    Good (rrun false s ls) := by
  induction ls generalizing s with
  | nil => exact h
  | cons l ls ih =>
    obtain ⟨h1, h2⟩ := good_step s l ls h hg
    exact ih _ h1 h2

/-- the repaired reader: never between a check and its look-up, never skipped or crashed -/
def GoodAtomic (s : RSt) : Prop :=
  s.pc ≠ .lookupSsr ∧ s.pc ≠ .lookupReader ∧ s.outcome ≠ some .skipped ∧ s.outcome ≠ some .crashed

theorem goodAtomic_step (s : RSt) (l : RLabel) (h : GoodAtomic s) : GoodAtomic (rstep true s l) := by
  obtain ⟨rot, pc, out⟩ := s
  cases l <;> cases rot <;> cases pc <;>
    simp_all [GoodAtomic, rstep, readStep, RotPc.next, RotPc.inUnrot, RotPc.inRot]

theorem goodAtomic_run (ls : List RLabel) (s : RSt) (h : GoodAtomic s) : GoodAtomic (rrun true s ls) := by
  induction ls generalizing s with
  | nil => exact h
  | cons l ls ih => exact ih _ (goodAtomic_step s l h)

end SigModel.Lemmas.C11.ReadOne
