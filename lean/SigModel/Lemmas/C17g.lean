/- helper lemmas for the state-multiplexer theorems of Props/C17.lean (Model/QMux.lean) -/
import SigModel.Model.QMux

namespace SigModel.Lemmas.C17g
open SigModel.Model.QMux

/-- CANCELLED / TIMEOUT / ERROR -/
def Msg.isAbort : Msg → Bool
  | .cancelled => true | .timeout => true | .error => true | _ => false

def closes (o : List Out) : Nat := (o.filter Out.isClose).length

theorem closes_append (a b : List Out) : closes (a ++ b) = closes a + closes b := by
  simp [closes, List.filter_append]

/-- what one step of a running goroutine does (all finite: by cases) -/
theorem step_live (s : St) (e : Ev) (he : s.ended = false) (hc : s.closedOutput = false)
    (hnd : allDone s = false) :
    (step s e).1.tcPresent = s.tcPresent ∧
    (step s e).1.ended = (step s e).1.closedOutput ∧
    closes (step s e).2 = (if (step s e).1.ended then 1 else 0) ∧
    ((step s e).1.ended = true → (step s e).2.getLast? = some Out.close) ∧
    (allDone (step s e).1 = true → (step s e).1.ended = true) := by
  obtain ⟨p, m, t, c, en⟩ := s
  obtain ⟨tc, msg⟩ := e
  simp only at he hc
  subst he hc
  cases p <;> cases m <;> cases t <;> simp [allDone] at hnd <;> cases tc <;> cases msg <;>
    simp [step, deliverable, handle, loopTail, allDone, isDone, setDone, errorAndClose, forward,
      forwardAndClose, mergedIfAll, closes, Out.isClose, List.filter]

theorem step_ended (s : St) (e : Ev) (he : s.ended = true) : step s e = (s, []) := by
  simp [step, he]

theorem step_abort (s : St) (e : Ev) (hd : deliverable s e = true) (ha : Msg.isAbort e.msg = true) :
    (step s e).1.ended = true := by
  obtain ⟨p, m, t, c, en⟩ := s
  obtain ⟨tc, msg⟩ := e
  cases en
  · cases msg <;> simp [Msg.isAbort] at ha <;>
      (cases p <;> cases tc <;> simp [deliverable] at hd <;>
        simp [step, deliverable, handle, loopTail, forwardAndClose])
  · simp [step]

theorem step_closed_incomplete (s : St) (e : Ev) (hd : deliverable s e = true) (hm : e.msg = Msg.closed)
    (hi : isDone s e.tc = false) : (step s e).1.ended = true := by
  obtain ⟨p, m, t, c, en⟩ := s
  obtain ⟨tc, msg⟩ := e
  simp only at hm
  subst hm
  cases en
  · cases p <;> cases tc <;> simp [deliverable] at hd <;> cases m <;> cases t <;> simp [isDone] at hi <;>
      simp [step, deliverable, handle, loopTail, errorAndClose, isDone]
  · simp [step]

theorem step_tcPresent (s : St) (e : Ev) : (step s e).1.tcPresent = s.tcPresent := by
  obtain ⟨p, m, t, c, en⟩ := s
  obtain ⟨tc, msg⟩ := e
  cases en <;> cases p <;> cases m <;> cases t <;> cases c <;> cases tc <;> cases msg <;>
    simp [step, deliverable, handle, loopTail, allDone, isDone, setDone, errorAndClose, forward,
      forwardAndClose, mergedIfAll]

/-- the invariant of a run at the loop head -/
structure Good (s : St) (acc : List Out) : Prop where
  sync : s.ended = s.closedOutput
  count : closes acc = (if s.ended then 1 else 0)
  last : s.ended = true → acc.getLast? = some Out.close
  done : allDone s = true → s.ended = true

theorem good_init (tc : Bool) : Good (init tc) [] := by
  constructor <;> simp [init, closes, allDone]

theorem good_step (s : St) (acc : List Out) (e : Ev) (h : Good s acc) :
    Good (step s e).1 (acc ++ (step s e).2) := by
  cases he : s.ended
  · have hc : s.closedOutput = false := by rw [← h.sync]; exact he
    have hnd : allDone s = false := by
      cases hd : allDone s
      · rfl
      · have := h.done hd; rw [he] at this; cases this
    obtain ⟨_, h1, h2, h3, h4⟩ := step_live s e he hc hnd
    have hcnt := h.count
    rw [he] at hcnt
    refine ⟨h1, ?_, ?_, h4⟩
    · rw [closes_append, h2, hcnt]; simp
    · intro hen
      rw [List.getLast?_append, h3 hen]
      rfl
  · rw [step_ended s e he]
    simpa using h

theorem good_runFrom (evs : List Ev) : ∀ (s : St) (acc : List Out), Good s acc →
    Good (runFrom s acc evs).1 (runFrom s acc evs).2 := by
  induction evs with
  | nil => intro s acc h; exact h
  | cons e r ih => intro s acc h; exact ih _ _ (good_step s acc e h)

theorem runFrom_ended (evs : List Ev) : ∀ (s : St) (acc : List Out), s.ended = true →
    (runFrom s acc evs).1.ended = true := by
  induction evs with
  | nil => intro s acc h; exact h
  | cons e r ih =>
    intro s acc h
    simp only [runFrom]
    apply ih
    rw [step_ended s e h]; exact h

theorem runFrom_tcPresent (evs : List Ev) : ∀ (s : St) (acc : List Out),
    (runFrom s acc evs).1.tcPresent = s.tcPresent := by
  induction evs with
  | nil => intro s acc; rfl
  | cons e r ih => intro s acc; simp only [runFrom]; rw [ih, step_tcPresent]

theorem runFrom_abort (evs : List Ev) : ∀ (s : St) (acc : List Out),
    (∃ e ∈ evs, Msg.isAbort e.msg = true ∧ deliverable s e = true) →
    (runFrom s acc evs).1.ended = true := by
  induction evs with
  | nil => intro s acc h; obtain ⟨e, he, _⟩ := h; cases he
  | cons e r ih =>
    intro s acc h
    obtain ⟨x, hx, ha, hd⟩ := h
    simp only [runFrom]
    rcases List.mem_cons.mp hx with hx | hx
    · subst hx
      exact runFrom_ended r _ _ (step_abort s x hd ha)
    · apply ih
      refine ⟨x, hx, ha, ?_⟩
      simpa [deliverable, step_tcPresent] using hd

/-! the variant the seeded bug C17-4 produces: `case query.TIMEOUT:` forwards the envelope but does not close -/

def handleNoCloseOnTimeout (s : St) (e : Ev) : St × List Out :=
  match e.msg with
  | .timeout => forward s "TIMEOUT" e.tc
  | _ => handle s e

def stepNoCloseOnTimeout (s : St) (e : Ev) : St × List Out :=
  if s.ended then (s, [])
  else if !deliverable s e then (s, [])
  else loopTail (handleNoCloseOnTimeout s e)

def runFromNoCloseOnTimeout (s : St) (acc : List Out) : List Ev → St × List Out
  | [] => (s, acc)
  | e :: r => runFromNoCloseOnTimeout (stepNoCloseOnTimeout s e).1 (acc ++ (stepNoCloseOnTimeout s e).2) r

end SigModel.Lemmas.C17g
