/-
C07 helper lemmas, part 2: the writer invariant, and what a restart serves at every cut of one command.
-/
import SigModel.Lemmas.C07

namespace SigModel.Lemmas.C07
open SigModel.Crash

def flat (sl : List (Nat × List Nat)) : List Nat := sl.flatMap (·.2)

theorem flat_append (a b : List (Nat × List Nat)) : flat (a ++ b) = flat a ++ flat b := by
  simp [flat, List.flatMap_append]

/-- between two commands: sealed segments `sl`, open segment as the writer state `w` says -/
structure Inv (sl : List (Nat × List Nat)) (w : W) (fs : FS) : Prop where
  frame : Frame sl w.cur fs
  cur_in : w.cur ∈ fs.dirs
  cur_ok : SegOK (fs.seg w.cur) w.fls
  cur_sfm : (fs.seg w.cur).sfm = if w.fls = [] then Sfm.absent else Sfm.json w.fls
  suffix : fs.suffix = some (w.cur + 1)
  ids : flat sl ++ w.fls = List.range w.nf

/-- just before `resetSegStore` creates segment `n` -/
structure PreOpen (sl : List (Nat × List Nat)) (n nf : Nat) (fs : FS) : Prop where
  frame : Frame sl n fs
  not_in : n ∉ fs.dirs
  next : nextSuffix fs = n
  ids : flat sl = List.range nf

/-- what the property asks of the directory `fs` found by a restart: `nf` flushes had completed, `extra` is
the flush in progress (if any) -/
structure Good (nf : Nat) (extra : Option Nat) (fs : FS) : Prop where
  nodup : (visible fs).Nodup
  torn : torn fs = []
  sound : ∀ f ∈ visible fs, f < nf ∨ extra = some f
  complete : ∀ f, f < nf → f ∈ visible fs
  fresh : ∀ s ∈ fs.dirs, s < nextSuffix fs
  untouched : ∀ s, s ∉ fs.dirs → fs.seg s = {}
  /-- every completed flush is served from a segment whose metadata record was built from (at least) that flush -/
  prov : ∀ f, f < nf → ∃ p ∈ metas fs, f ∈ p.2 ∧ f ∈ segVisible (fs.seg p.1)
  /-- EVERY block a restart serves — also that of the flush in progress — is one its segment's record was built from -/
  provAll : ∀ p ∈ metas fs, ∀ f ∈ segVisible (fs.seg p.1), f ∈ p.2

/-- every block summary is covered by the reconciled record -/
theorem segVisible_sub_reconciled {st : SegSt} {f : Nat} (h : f ∈ segVisible st) : f ∈ reconciled st := by
  unfold segVisible at h
  rcases List.mem_map.1 h with ⟨b, hb, rfl⟩
  have hb' : b.1 ∈ st.bsu.map (·.1) := List.mem_map.2 ⟨b, (List.mem_filter.1 hb).1, rfl⟩
  unfold reconciled
  by_cases hc : st.sfm.blocks.contains b.1 = true
  · exact List.mem_append_left _ (List.contains_iff_mem.1 hc)
  · exact List.mem_append_right _ (List.mem_filter.2 ⟨hb', by simpa using hc⟩)

/-- the records the restart holds, given the frame -/
theorem metas_frame {sl cur fs} (F : Frame sl cur fs) :
    metas fs = sl ++ (if cur ∈ fs.dirs ∧ (fs.seg cur).sfm.parsable = true then [(cur, reconciled (fs.seg cur))] else []) := by
  unfold metas
  rw [F.segmeta_eq, sfmAdopted_frame F]
  split <;> simp

theorem provAll_frame {sl cur fs} (F : Frame sl cur fs) :
    ∀ p ∈ metas fs, ∀ f ∈ segVisible (fs.seg p.1), f ∈ p.2 := by
  intro p hp f hf
  rw [metas_frame F] at hp
  rcases List.mem_append.1 hp with h | h
  · rw [segOK_visible (F.sealed_ok p h)] at hf; exact hf
  · split at h
    · have : p = (cur, reconciled (fs.seg cur)) := by simpa using h
      subst this
      exact segVisible_sub_reconciled hf
    · cases h

/-- a flush of a sealed segment: its segmeta.json line lists it and the segment serves it -/
theorem meta_sealed {sl cur fs} (F : Frame sl cur fs) {f : Nat} (hm : f ∈ flat sl) :
    ∃ p ∈ metas fs, f ∈ p.2 ∧ f ∈ segVisible (fs.seg p.1) := by
  rcases List.mem_flatMap.1 hm with ⟨p, hp, hfp⟩
  refine ⟨p, ?_, hfp, ?_⟩
  · unfold metas; rw [F.segmeta_eq]; exact List.mem_append_left _ hp
  · rw [segOK_visible (F.sealed_ok p hp)]; exact hfp

theorem nodup_prefix_of_range {a b : List Nat} {n : Nat} (h : a ++ b = List.range n) : a.Nodup := by
  have : (a ++ b).Nodup := h ▸ List.nodup_range
  exact (List.nodup_append.1 this).1

/-- the open segment is not adopted: only the sealed segments are served -/
theorem good_a {sl cur fs nf extra} {fls : List Nat} (F : Frame sl cur fs)
    (hno : ¬ (cur ∈ fs.dirs ∧ (fs.seg cur).sfm.parsable = true))
    (ids : flat sl ++ fls = List.range nf) (hl : fls = []) : Good nf extra fs := by
  have hv : visible fs = flat sl := by rw [visible_frame F, if_neg hno]; simp [flat]
  have ht : torn fs = [] := by rw [torn_frame F, if_neg hno]
  refine ⟨?_, ht, ?_, ?_, F.suffix_ok, F.untouched, ?_, provAll_frame F⟩
  · rw [hv]; exact nodup_prefix_of_range ids
  · intro f hf
    rw [hv] at hf
    have : f ∈ List.range nf := ids ▸ List.mem_append_left _ hf
    exact Or.inl (List.mem_range.1 this)
  · intro f hf
    subst hl
    rw [hv]
    have : f ∈ flat sl ++ [] := ids ▸ List.mem_range.2 hf
    simpa using this
  · intro f hf
    subst hl
    have : f ∈ flat sl ++ [] := ids ▸ List.mem_range.2 hf
    exact meta_sealed F (by simpa using this)

/-- the open segment is adopted and serves `X` = its earlier blocks, possibly with the block in progress -/
theorem good_b {sl cur fs nf extra} {fls X : List Nat} (F : Frame sl cur fs)
    (hin : cur ∈ fs.dirs) (hp : (fs.seg cur).sfm.parsable = true) (hok : SegOK (fs.seg cur) X)
    (ids : flat sl ++ fls = List.range nf) (hX : X = fls ∨ (X = fls ++ [nf] ∧ extra = some nf))
    (hY : ∃ Y, (fs.seg cur).sfm = Sfm.json Y ∧ ∀ f ∈ fls, f ∈ Y) :
    Good nf extra fs := by
  have hv : visible fs = flat sl ++ X := by
    rw [visible_frame F, if_pos ⟨hin, hp⟩, segOK_visible hok]; rfl
  have ht : torn fs = [] := by rw [torn_frame F, if_pos ⟨hin, hp⟩, segOK_torn hok]
  refine ⟨?_, ht, ?_, ?_, F.suffix_ok, F.untouched, ?_, provAll_frame F⟩
  rotate_right
  · intro f hf
    have hm : f ∈ flat sl ++ fls := ids ▸ List.mem_range.2 hf
    rcases List.mem_append.1 hm with h | h
    · exact meta_sealed F h
    · rcases hY with ⟨Y, hY1, hY2⟩
      refine ⟨(cur, reconciled (fs.seg cur)), ?_, ?_, ?_⟩
      · rw [metas_frame F, if_pos ⟨hin, hp⟩]
        exact List.mem_append_right _ (List.mem_singleton.2 rfl)
      · unfold reconciled
        rw [hY1]
        exact List.mem_append_left _ (hY2 f h)
      · show f ∈ segVisible (fs.seg cur)
        rw [segOK_visible hok]
        rcases hX with e | ⟨e, _⟩
        · rw [e]; exact h
        · rw [e]; exact List.mem_append_left _ h
  · rw [hv]
    rcases hX with e | ⟨e, _⟩
    · rw [e, ids]; exact List.nodup_range
    · rw [e, ← List.append_assoc, ids, ← List.range_succ]; exact List.nodup_range
  · intro f hf
    rw [hv] at hf
    rcases hX with e | ⟨e, he⟩
    · rw [e, ids] at hf; exact Or.inl (List.mem_range.1 hf)
    · rw [e, ← List.append_assoc, ids] at hf
      rcases List.mem_append.1 hf with h | h
      · exact Or.inl (List.mem_range.1 h)
      · have : f = nf := by simpa using h
        exact Or.inr (this ▸ he)
  · intro f hf
    rw [hv]
    have hm : f ∈ flat sl ++ fls := ids ▸ List.mem_range.2 hf
    rcases hX with e | ⟨e, _⟩
    · rw [e]; exact hm
    · rw [e, ← List.append_assoc]; exact List.mem_append_left _ hm

/-! ### the files of one segment under a run of steps on that segment -/

def applySeg (st : SegSt) : Step → SegSt
  | .chunk _ f w => { st with chunks := st.chunks ++ [(f, w)] }
  | .bsu _ f ws => { st with bsu := st.bsu ++ [(f, ws)] }
  | .sstTmp _ fls => { st with sstTmp := some fls }
  | .sstRename _ => { st with sst := (st.sstTmp <|> st.sst), sstTmp := none }
  | .sfmTmp _ fls => { st with sfmTmp := some fls }
  | .sfmRename _ => { st with sfm := (st.sfmTmp.map Sfm.json).getD st.sfm, sfmTmp := none }
  | .sfmTrunc _ => { st with sfm := .empty }
  | .sfmWrite _ fls => { st with sfm := .json fls }
  | _ => st

theorem apply_seg {cur : Nat} (fs : FS) (s : Step) (h : onSeg cur s = true) :
    (apply fs s).seg cur = applySeg (fs.seg cur) s := by
  cases s <;> simp [onSeg] at h <;> subst h <;> simp [apply, applySeg, FS.setSeg]

theorem run_seg {cur : Nat} (l : List Step) : ∀ (fs : FS), (∀ s ∈ l, onSeg cur s = true) →
    (run fs l).seg cur = l.foldl applySeg (fs.seg cur) := by
  induction l with
  | nil => intro fs _; rfl
  | cons a l ih =>
    intro fs h
    rw [run_cons, ih _ (fun s hs => h s (List.mem_cons_of_mem _ hs)), apply_seg fs a (h a (List.mem_cons_self ..))]
    rfl

theorem chunks_fold (cur nf : Nat) (l : List Nat) : ∀ (st : SegSt),
    (l.map (fun c => Step.chunk cur nf c)).foldl applySeg st
      = { st with chunks := st.chunks ++ l.map (fun c => (nf, c)) } := by
  induction l with
  | nil => intro st; simp
  | cons a l ih => intro st; simp [ih, applySeg]

theorem segOK_chunks {st : SegSt} {fl : List Nat} (h : SegOK st fl) (X : List (Nat × Nat)) :
    SegOK { st with chunks := st.chunks ++ X } fl := by
  refine ⟨?_, h.2⟩
  intro b hb
  exact whole_mono (st := st) (fun c hc => List.mem_append_left _ hc) b (h.1 b hb)

theorem segOK_congr {st st' : SegSt} {fl : List Nat} (h : SegOK st fl) (hc : st'.chunks = st.chunks)
    (hb : st'.bsu = st.bsu) : SegOK st' fl := by
  refine ⟨?_, hb ▸ h.2⟩
  intro b hb'
  rw [hb] at hb'
  exact whole_mono (st := st) (fun c hc' => hc ▸ hc') b (h.1 b hb')

/-- the block summary of flush `nf` appended after all its chunks -/
theorem segOK_bsu {st : SegSt} {fl : List Nat} (h : SegOK st fl) (nf : Nat) (ws : List Nat) :
    SegOK { st with chunks := st.chunks ++ ws.map (fun c => (nf, c)), bsu := st.bsu ++ [(nf, ws)] } (fl ++ [nf]) := by
  refine ⟨?_, ?_⟩
  · intro b hb
    rcases List.mem_append.1 hb with hb | hb
    · exact whole_mono (st := st) (fun c hc => List.mem_append_left _ hc) b (h.1 b hb)
    · have : b = (nf, ws) := by simpa using hb
      subst this
      unfold whole
      rw [List.all_eq_true]
      intro w hw
      rw [List.contains_iff_mem]
      exact List.mem_append_right _ (List.mem_map.2 ⟨w, hw, rfl⟩)
  · simp [h.2]

end SigModel.Lemmas.C07
