/-
C07 helper lemmas, part 5: what a metadata record built by the per-record update rule covers, and the search
after the restart (Model/CrashMeta.lean).
-/
import SigModel.Model.CrashMeta
import SigModel.Lemmas.C07d

namespace SigModel.Lemmas.C07
open SigModel.Crash

/-! ### the per-record update rule -/

/-- one more record: everything covered so far stays covered, the new record is covered, the range is set -/
theorem addEv_covers {m : SM} {seen : List Ev} {e : Ev} (hpos : 0 < e.ts)
    (hset : seen = [] ∨ (0 < m.lo ∧ 0 < m.hi)) (hc : ∀ x ∈ seen, m.covers x) :
    (∀ x ∈ seen ++ [e], (m.addEv e).covers x) ∧ 0 < (m.addEv e).lo ∧ 0 < (m.addEv e).hi := by
  have hlo : (m.addEv e).lo = if m.lo = 0 then e.ts else if e.ts < m.lo then e.ts else m.lo := rfl
  have hhi : (m.addEv e).hi = if m.hi = 0 then e.ts else if e.ts > m.hi then e.ts else m.hi := rfl
  have hcols : (m.addEv e).cols = m.cols ++ e.cols := rfl
  refine ⟨?_, ?_, ?_⟩
  · intro x hx
    rcases List.mem_append.1 hx with h | h
    · rcases hset with hs | ⟨h1, h2⟩
      · subst hs; cases h
      · have ⟨c1, c2, c3⟩ := hc x h
        refine ⟨?_, ?_, ?_⟩
        · rw [hlo]; split
          · omega
          · split <;> omega
        · rw [hhi]; split
          · omega
          · split <;> omega
        · intro c hcx; rw [hcols]; exact List.mem_append_left _ (c3 c hcx)
    · have hxe : x = e := by simpa using h
      subst hxe
      refine ⟨?_, ?_, ?_⟩
      · rw [hlo]; split
        · omega
        · split <;> omega
      · rw [hhi]; split
        · omega
        · split <;> omega
      · intro c hcx; rw [hcols]; exact List.mem_append_right _ hcx
  · rw [hlo]; split
    · exact hpos
    · split <;> omega
  · rw [hhi]; split
    · exact hpos
    · split <;> omega

theorem foldl_covers : ∀ (l : List Ev) (m : SM) (seen : List Ev), (∀ e ∈ l, 0 < e.ts) →
    (seen = [] ∨ (0 < m.lo ∧ 0 < m.hi)) → (∀ x ∈ seen, m.covers x) →
    ∀ x ∈ seen ++ l, (l.foldl SM.addEv m).covers x := by
  intro l
  induction l with
  | nil => intro m seen _ _ hc x hx; simpa using hc x (by simpa using hx)
  | cons e l ih =>
    intro m seen hpos hset hc x hx
    have step := addEv_covers (hpos e (List.mem_cons_self ..)) hset hc
    have := ih (m.addEv e) (seen ++ [e]) (fun y hy => hpos y (List.mem_cons_of_mem _ hy))
      (Or.inr step.2) step.1 x (by simpa using hx)
    simpa using this

/-- a record built from positive timestamps by the per-record rule covers every one of the records -/
theorem ofEvents_covers {es : List Ev} (hpos : ∀ e ∈ es, 0 < e.ts) : ∀ e ∈ es, (SM.ofEvents es).covers e := by
  intro e he
  exact foldl_covers es {} [] hpos (Or.inl rfl) (fun _ h => by cases h) e (by simpa using he)

theorem foldl_cols_mono : ∀ (l : List Ev) (m : SM) (c : String), c ∈ m.cols → c ∈ (l.foldl SM.addEv m).cols := by
  intro l
  induction l with
  | nil => intro m c h; exact h
  | cons e l ih =>
    intro m c h
    rw [List.foldl_cons]
    exact ih _ c (by show c ∈ m.cols ++ e.cols; exact List.mem_append_left _ h)

theorem foldl_cols : ∀ (l : List Ev) (m : SM), ∀ e ∈ l, ∀ c ∈ e.cols, c ∈ (l.foldl SM.addEv m).cols := by
  intro l
  induction l with
  | nil => intro m e he; cases he
  | cons x l ih =>
    intro m e he c hc
    rw [List.foldl_cons]
    rcases List.mem_cons.1 he with rfl | h
    · exact foldl_cols_mono l _ c (by show c ∈ m.cols ++ e.cols; exact List.mem_append_right _ hc)
    · exact ih _ e h c hc

/-- whatever the timestamps: a record names every column of every record it was built from -/
theorem ofEvents_cols {es : List Ev} : ∀ e ∈ es, ∀ c ∈ e.cols, c ∈ (SM.ofEvents es).cols :=
  foldl_cols es {}

theorem foldl_recs : ∀ (l : List Ev) (m : SM), (l.foldl SM.addEv m).recs = m.recs + l.length := by
  intro l
  induction l with
  | nil => intro m; rfl
  | cons e l ih =>
    intro m
    rw [List.foldl_cons, ih]
    show m.recs + 1 + l.length = m.recs + (l.length + 1)
    omega

/-- RecordCount of a record = number of records it was built from -/
theorem ofEvents_recs (es : List Ev) : (SM.ofEvents es).recs = es.length := by
  unfold SM.ofEvents; rw [foldl_recs]; show 0 + es.length = es.length; omega

/-! ### the filters -/

theorem evPass_range {q : Query} {e : Ev} (h : evPass q e = true) : q.lo ≤ e.ts ∧ e.ts ≤ q.hi := by
  unfold evPass Gen.TimeRange_CheckInRange at h
  simp only [Bool.and_eq_true] at h
  have h1 := h.1
  split at h1
  · rename_i hc
    simp only [decide_eq_true_eq] at hc
    omega
  · cases h1

/-- the overlap test of the code passes as soon as record range and window share a point -/
theorem rangePass_of_point {m : SM} {q : Query} {t : Nat} (h1 : m.lo ≤ t) (h2 : t ≤ m.hi) (h3 : q.lo ≤ t) (h4 : t ≤ q.hi) :
    rangePass m q = true := by
  unfold rangePass Gen.TimeRange_CheckRangeOverLap
  split
  · rfl
  · rename_i hc
    exfalso
    apply hc
    simp only [Bool.or_eq_true, Bool.and_eq_true, decide_eq_true_eq]
    omega

theorem rangePass_of_covers {m : SM} {q : Query} {e : Ev} (hc : m.covers e) (hp : evPass q e = true) :
    rangePass m q = true :=
  rangePass_of_point hc.1 hc.2.1 (evPass_range hp).1 (evPass_range hp).2

/-! ### the search -/

/-- the cut-off of the round that drops a request never exceeds the request's advertised start -/
theorem removalCutoff_le : ∀ (fuel : Nat) (l : List SM) (m : SM), removalCutoff fuel l m ≤ m.lo := by
  intro fuel
  induction fuel with
  | zero => intro l m; simp [removalCutoff]
  | succ n ih =>
    intro l m
    cases l with
    | nil => simp [removalCutoff]
    | cons F rest =>
      unfold removalCutoff
      split
      · assumption
      · exact ih _ m

/-- sufficient for a block to be read: its segment's advertised range and its own range both contain a point `t` of
the window, and the advertised range is a proper one around `t` -/
theorem mem_searchFlushesOn_of {ml : List (Nat × List Nat)} {mf : Evs → List Nat → SM} {evs : Evs} {fs : FS} {q : Query} {f : Nat}
    {p : Nat × List Nat} (hp : p ∈ ml) (hr : rangePass (mf evs p.2) q = true)
    (hv : f ∈ segVisible (fs.seg p.1)) (hb : rangePass (SM.ofEvents (evs f)) q = true)
    {t : Nat} (h1 : (mf evs p.2).lo ≤ t) (h2 : t ≤ (mf evs p.2).hi) (h3 : t ≤ (SM.ofEvents (evs f)).hi) :
    f ∈ searchFlushesOn ml mf evs fs q := by
  unfold searchFlushesOn
  simp only []
  rw [List.mem_flatMap]
  refine ⟨p, hp, ?_⟩
  generalize hord : (List.map (fun x => x.fst) (sortQ (List.map (fun p => (mf evs p.snd, p.fst))
    (List.filter (fun p => rangePass (mf evs p.snd) q) ml)))) = order
  have hc := removalCutoff_le order.length order (mf evs p.2)
  have hc1 : (rangePass (mf evs p.2) q && decide (removalCutoff order.length order (mf evs p.2) ≤ (mf evs p.2).hi)) = true := by
    rw [hr, Bool.true_and, decide_eq_true_eq]; omega
  rw [if_pos hc1, List.mem_filter]
  refine ⟨hv, ?_⟩
  rw [hb, Bool.true_and, decide_eq_true_eq]; omega

theorem sublist_flatMap {α β : Type} {f g : α → List β} (h : ∀ a, (f a).Sublist (g a)) :
    ∀ (l : List α), (l.flatMap f).Sublist (l.flatMap g) := by
  intro l
  induction l with
  | nil => exact List.Sublist.refl _
  | cons a l ih =>
    rw [List.flatMap_cons, List.flatMap_cons]
    exact List.Sublist.append (h a) ih

theorem flatMap_map' {α β γ : Type} (f : α → β) (g : β → List γ) :
    ∀ (l : List α), (l.map f).flatMap g = l.flatMap (fun a => g (f a)) := by
  intro l
  induction l with
  | nil => rfl
  | cons a l ih => rw [List.map_cons, List.flatMap_cons, List.flatMap_cons, ih]

theorem adopted_eq_metas (fs : FS) : adopted fs = (metas fs).map (·.1) := by
  unfold adopted metas segIds
  rw [List.map_append, List.map_map]
  congr 1
  induction sfmAdopted fs with
  | nil => rfl
  | cons a l ih => simpa using ih

/-! ### termination of the record search -/

theorem mem_insertQ {x y : SM × Nat} : ∀ {l : List (SM × Nat)}, y ∈ insertQ x l ↔ y = x ∨ y ∈ l := by
  intro l
  induction l with
  | nil => simp [insertQ]
  | cons z l ih =>
    unfold insertQ
    split
    · simp
    · simp only [List.mem_cons, ih]
      constructor
      · rintro (h | h | h)
        · exact Or.inr (Or.inl h)
        · exact Or.inl h
        · exact Or.inr (Or.inr h)
      · rintro (h | h | h)
        · exact Or.inr (Or.inl h)
        · exact Or.inl h
        · exact Or.inr (Or.inr h)

theorem mem_sortQ {y : SM × Nat} : ∀ {l : List (SM × Nat)}, y ∈ sortQ l ↔ y ∈ l := by
  intro l
  induction l with
  | nil => simp [sortQ]
  | cons z l ih =>
    show y ∈ insertQ z (sortQ l) ↔ _
    rw [mem_insertQ, ih]; simp

theorem length_insertQ (x : SM × Nat) : ∀ (l : List (SM × Nat)), (insertQ x l).length = l.length + 1 := by
  intro l
  induction l with
  | nil => rfl
  | cons z l ih =>
    unfold insertQ
    split
    · rfl
    · simp [ih]

/-- once every remaining request advertises a start at most `c`, the later cut-offs stay at most `c` -/
theorem lastCutoff_le_start : ∀ (fuel : Nat) (l : List SM) (c : Nat), (∀ x ∈ l, x.lo ≤ c) → lastCutoff fuel l c ≤ c := by
  intro fuel
  induction fuel with
  | zero => intro l c _; simp [lastCutoff]
  | succ n ih =>
    intro l c hl
    cases l with
    | nil => simp [lastCutoff]
    | cons F rest =>
      unfold lastCutoff
      have h1 := ih ((F :: rest).filter (fun x => !(decide (F.lo ≤ x.lo)))) F.lo (by
        intro x hx
        have := (List.mem_filter.1 hx).2
        simp only [Bool.not_eq_true', decide_eq_false_iff_not] at this
        omega)
      have h2 := hl F (List.mem_cons_self ..)
      omega

/-- with enough rounds the last cut-off is at most the advertised start of EVERY request -/
theorem lastCutoff_le : ∀ (fuel : Nat) (l : List SM) (c : Nat), l.length ≤ fuel → ∀ m ∈ l, lastCutoff fuel l c ≤ m.lo := by
  intro fuel
  induction fuel with
  | zero =>
    intro l c hl m hm
    cases l with
    | nil => cases hm
    | cons a t => simp at hl
  | succ n ih =>
    intro l c hl m hm
    cases l with
    | nil => cases hm
    | cons F rest =>
      unfold lastCutoff
      have hlen : ((F :: rest).filter (fun x => !(decide (F.lo ≤ x.lo)))).length ≤ n := by
        have : ((F :: rest).filter (fun x => !(decide (F.lo ≤ x.lo)))).length ≤ rest.length := by
          have e : (F :: rest).filter (fun x => !(decide (F.lo ≤ x.lo))) = rest.filter (fun x => !(decide (F.lo ≤ x.lo))) := by
            simp [List.filter_cons]
          rw [e]
          exact List.length_filter_le _ _
        simp only [List.length_cons] at hl
        omega
      by_cases hm2 : F.lo ≤ m.lo
      · have := lastCutoff_le_start n ((F :: rest).filter (fun x => !(decide (F.lo ≤ x.lo)))) F.lo (by
          intro x hx
          have := (List.mem_filter.1 hx).2
          simp only [Bool.not_eq_true', decide_eq_false_iff_not] at this
          omega)
        omega
      · exact ih _ F.lo hlen m (List.mem_filter.2 ⟨hm, by simpa using hm2⟩)

theorem nodup_flatMap_unique {α β : Type} {g : α → List β} : ∀ {l : List α}, (l.flatMap g).Nodup →
    ∀ {a b : α}, a ∈ l → b ∈ l → ∀ {x : β}, x ∈ g a → x ∈ g b → a = b := by
  intro l
  induction l with
  | nil => intro _ a b ha; cases ha
  | cons c l ih =>
    intro hn a b ha hb x hxa hxb
    rw [List.flatMap_cons, List.nodup_append] at hn
    rcases List.mem_cons.1 ha with rfl | ha' <;> rcases List.mem_cons.1 hb with rfl | hb'
    · rfl
    · exact absurd rfl (hn.2.2 x hxa x (List.mem_flatMap.2 ⟨b, hb', hxb⟩))
    · exact absurd rfl (hn.2.2 x hxb x (List.mem_flatMap.2 ⟨a, ha', hxa⟩))
    · exact ih hn.2.1 ha' hb' hxa hxb

theorem visible_eq_metas (fs : FS) : visible fs = (metas fs).flatMap (fun p => segVisible (fs.seg p.1)) := by
  unfold visible; rw [adopted_eq_metas, flatMap_map']

/-- whatever rule builds the metadata: a search reads a sub-list of the blocks the match-all search serves -/
theorem searchFlushesWith_sublist (mf : Evs → List Nat → SM) (evs : Evs) (fs : FS) (q : Query) :
    (searchFlushesWith mf evs fs q).Sublist (visible fs) := by
  rw [visible_eq_metas]
  unfold searchFlushesWith searchFlushesOn
  simp only []
  apply sublist_flatMap
  intro p
  split
  · exact List.filter_sublist
  · exact List.nil_sublist _

/-- what membership in the list of blocks read gives back -/
theorem mem_searchFlushesOn_elim {ml : List (Nat × List Nat)} {mf : Evs → List Nat → SM} {evs : Evs} {fs : FS} {q : Query} {f : Nat}
    (h : f ∈ searchFlushesOn ml mf evs fs q) :
    ∃ p ∈ ml, rangePass (mf evs p.2) q = true ∧ f ∈ segVisible (fs.seg p.1) := by
  unfold searchFlushesOn at h
  simp only [] at h
  rcases List.mem_flatMap.1 h with ⟨p, hp, hf⟩
  split at hf
  · rename_i hc
    simp only [Bool.and_eq_true] at hc
    exact ⟨p, hp, hc.1, (List.mem_filter.1 hf).1⟩
  · cases hf

/-- no record is kept back at the end when every record found lies at or above the advertised start of a request of the search -/
theorem keptBackOn_nil_of {ml : List (Nat × List Nat)} {mf : Evs → List Nat → SM} {evs : Evs} {fs : FS} {q : Query}
    (H : ∀ e ∈ searchOn ml mf evs fs q, ∃ p ∈ ml, rangePass (mf evs p.2) q = true ∧ (mf evs p.2).lo ≤ e.ts) :
    keptBackOn ml mf evs fs q = [] := by
  unfold keptBackOn
  simp only []
  rw [List.filter_eq_nil_iff]
  intro e he
  rcases H e he with ⟨p, hp, hr, hlo⟩
  have hmem : mf evs p.2 ∈ (sortQ ((ml.filter (fun p => rangePass (mf evs p.2) q)).map (fun p => (mf evs p.2, p.1)))).map (·.1) := by
    refine List.mem_map.2 ⟨(mf evs p.2, p.1), ?_, rfl⟩
    rw [mem_sortQ]
    exact List.mem_map.2 ⟨p, List.mem_filter.2 ⟨hp, hr⟩, rfl⟩
  have := lastCutoff_le _ _ 0 (Nat.le_refl _) _ hmem
  simp only [decide_eq_true_eq]
  omega

end SigModel.Lemmas.C07
