/-
C05 helper lemmas, part c: the scheduler invariant and the proof that the released stream is sorted (both
modes).  Core Lean only.
-/
import SigModel.Model.Sched
import SigModel.Lemmas.C05a
import SigModel.Lemmas.C05b
set_option linter.unusedSimpArgs false
set_option linter.unusedVariables false

namespace SigModel.Lemmas.C05
open SigModel.Sched

def recsOf (bs : List Block) : List Rec := bs.flatMap (·.recs)

/-- blocks of still-listed segment requests that were not handed out yet -/
def pending (st : St) : List Block :=
  (st.unproc.flatMap (·.blocks)).filter (fun b => !st.processed.contains b.id)

/-- every record the searcher may still release -/
def future (st : St) : List Rec := st.unsent ++ recsOf st.remaining ++ recsOf (pending st)

theorem mem_recsOf {bs : List Block} {r : Rec} : r ∈ recsOf bs ↔ ∃ b ∈ bs, r ∈ b.recs := by
  simp [recsOf, List.mem_flatMap]

theorem mem_pending {st : St} {b : Block} :
    b ∈ pending st ↔ (∃ s ∈ st.unproc, b ∈ s.blocks) ∧ b.id ∉ st.processed := by
  simp [pending, List.mem_filter, List.mem_flatMap]

theorem mem_future {st : St} {r : Rec} :
    r ∈ future st ↔ r ∈ st.unsent ∨ (∃ b ∈ st.remaining, r ∈ b.recs) ∨ (∃ b ∈ pending st, r ∈ b.recs) := by
  simp only [future, List.mem_append, mem_recsOf]
  constructor
  · rintro ((h | h) | h)
    · exact Or.inl h
    · exact Or.inr (Or.inl h)
    · exact Or.inr (Or.inr h)
  · rintro (h | h | h)
    · exact Or.inl (Or.inl h)
    · exact Or.inl (Or.inr h)
    · exact Or.inr h

theorem mem_allBlocks {segs : List Seg} {b : Block} : b ∈ allBlocks segs ↔ ∃ s ∈ segs, b ∈ s.blocks := by
  simp [allBlocks, List.mem_flatMap]

theorem blockOK_of_mem {segs : List Seg} (hwf : WF segs) {b : Block} (hb : b ∈ allBlocks segs) : BlockOK b := by
  rcases mem_allBlocks.mp hb with ⟨s, hs, hbs⟩
  exact (hwf s hs b hbs).2.2

/-- the invariant behind sortedness -/
structure Inv (m : Mode) (segs : List Seg) (st : St) : Prop where
  unproc_sub : ∀ s ∈ st.unproc, s ∈ segs
  rem_sub : ∀ b ∈ st.remaining, b ∈ allBlocks segs
  unsent_sorted : SortedBy m (·.2) st.unsent
  rem_sorted : SortedBy m (startOf m) st.remaining
  pend_bound : st.gotBlocks = true → ∀ b ∈ pending st, ∀ r ∈ b.recs, m.before st.cutoff r.2 = true
  gotAll_unproc : st.gotAll = true → st.unproc = []

theorem inv_init (m : Mode) (segs : List Seg) : Inv m segs (init m segs) where
  unproc_sub := by
    intro s hs
    exact (mem_sortBy m (segFirst m) segs s).mp hs
  rem_sub := by simp [init]
  unsent_sorted := by simp [init, SortedBy]
  rem_sorted := by simp [init, SortedBy]
  pend_bound := by simp [init]
  gotAll_unproc := by simp [init]

/-! ### refill -/

theorem refill_gotBlocks (m : Mode) (st : St) : (refill m st).gotBlocks = true := by
  unfold refill
  split
  · assumption
  · split <;> rfl

theorem refill_unsent (m : Mode) (st : St) : (refill m st).unsent = st.unsent := by
  unfold refill
  split
  · rfl
  · split <;> rfl

/-- the refill when the front unprocessed segment request is `front` -/
def newBlocks (m : Mode) (st : St) (front : Seg) : List Block × List Nat :=
  getFilteredBlocks m (segLast m front)
    ((st.unproc.filter (shouldProcessQSR m (segLast m front))).flatMap (·.blocks)) st.processed

def refillCons (m : Mode) (st : St) (front : Seg) : St :=
  { st with unproc := st.unproc.filter (fun s => !willProcessQSRCompletely m (segLast m front) s),
            cutoff := segLast m front, processed := (newBlocks m st front).2,
            remaining := sortBlocks m ((newBlocks m st front).1 ++ st.remaining), gotBlocks := true }

def refillNil (m : Mode) (st : St) : St :=
  { st with gotAll := true, remaining := sortBlocks m st.remaining, gotBlocks := true }

theorem refill_eq (m : Mode) (st : St) :
    refill m st = if st.gotBlocks then st else
      match st.unproc with
      | [] => refillNil m st
      | front :: _ => refillCons m st front := by
  rcases st with ⟨u, p, r, us, c, gb, ga⟩
  cases gb <;> cases u <;> rfl

theorem new_spec (m : Mode) (st : St) (front : Seg) :
    ∀ b ∈ (newBlocks m st front).1, (∃ s ∈ st.unproc, b ∈ s.blocks) ∧ b.id ∉ st.processed := by
  intro b hb
  have := gf_mem m _ _ _ b hb
  refine ⟨?_, this.2.1⟩
  rcases List.mem_flatMap.mp this.1 with ⟨s, hs, hbs⟩
  exact ⟨s, (List.mem_filter.mp hs).1, hbs⟩

theorem pending_refillCons_sub (m : Mode) (st : St) (front : Seg) :
    ∀ b ∈ pending (refillCons m st front), b ∈ pending st := by
  intro b hb
  rcases mem_pending.mp hb with ⟨⟨s, hs, hbs⟩, hid⟩
  refine mem_pending.mpr ⟨⟨s, (List.mem_filter.mp hs).1, hbs⟩, ?_⟩
  intro hp
  exact hid (gf_mono m _ _ _ _ hp)

/-- what is not handed out by a refill lies strictly beyond the new cut-off -/
theorem pending_refillCons_bound (m : Mode) (segs : List Seg) (hwf : WF segs) (st : St)
    (hsub : ∀ s ∈ st.unproc, s ∈ segs) (front : Seg) :
    ∀ b ∈ pending (refillCons m st front), ∀ r ∈ b.recs, m.before (segLast m front) r.2 = true := by
  intro b hb rr hrr
  rcases mem_pending.mp hb with ⟨⟨s, hs, hbs⟩, hid⟩
  have hs' : s ∈ st.unproc := (List.mem_filter.mp hs).1
  have hsok : SegOK s := hwf s (hsub s hs')
  have hbok : BlockOK b := (hsok b hbs).2.2
  by_cases hsp : shouldProcessQSR m (segLast m front) s = true
  · have hbin : b ∈ (st.unproc.filter (shouldProcessQSR m (segLast m front))).flatMap (·.blocks) :=
      List.mem_flatMap.mpr ⟨s, List.mem_filter.mpr ⟨hs', hsp⟩, hbs⟩
    have hnp : shouldProcessBlock m (segLast m front) b = false :=
      gf_notproc m _ _ st.processed b hbin hid
    have h1 : m.before (segLast m front) (startOf m b) = true := by
      simpa [shouldProcessBlock] using hnp
    have h2 := rec_nb_start m hbok hrr
    cases hcase : m.before (segLast m front) rr.2 with
    | true => rfl
    | false => rw [nb_trans m hcase h2] at h1; cases h1
  · have h1 : m.before (segLast m front) (segFirst m s) = true := by
      simpa [shouldProcessQSR] using hsp
    have h2 := start_nb_segFirst m hsok hbs
    have h3 := rec_nb_start m hbok hrr
    cases hcase : m.before (segLast m front) rr.2 with
    | true => rfl
    | false => rw [nb_trans m (nb_trans m hcase h3) h2] at h1; cases h1

theorem refill_inv (m : Mode) (segs : List Seg) (hwf : WF segs) (st : St) (h : Inv m segs st) :
    Inv m segs (refill m st) ∧ ∀ x ∈ future (refill m st), x ∈ future st := by
  rw [refill_eq]
  split
  · exact ⟨h, fun x hx => hx⟩
  · split
    · -- no unprocessed segment request left
      rename_i hun
      refine ⟨⟨?_, ?_, h.unsent_sorted, sortBy_sorted m _ _, ?_, fun _ => hun⟩, ?_⟩
      · simpa [refillNil] using h.unproc_sub
      · intro b hb
        exact h.rem_sub b ((mem_sortBy m _ _ b).mp hb)
      · intro _ b hb
        simp [pending, refillNil, hun] at hb
      · intro x hx
        rcases mem_future.mp hx with hx | ⟨b, hb, hr⟩ | ⟨b, hb, hr⟩
        · exact mem_future.mpr (Or.inl hx)
        · exact mem_future.mpr (Or.inr (Or.inl ⟨b, (mem_sortBy m _ _ b).mp hb, hr⟩))
        · simp [pending, refillNil, hun] at hb
    · rename_i front tl hun
      refine ⟨⟨?_, ?_, h.unsent_sorted, sortBy_sorted m _ _, ?_, ?_⟩, ?_⟩
      · intro s hs
        exact h.unproc_sub s (List.mem_filter.mp hs).1
      · intro b hb
        have hb' := (mem_sortBy m _ _ b).mp hb
        rcases List.mem_append.mp hb' with hb' | hb'
        · rcases (new_spec m st front b hb').1 with ⟨s, hs, hbs⟩
          exact mem_allBlocks.mpr ⟨s, h.unproc_sub s hs, hbs⟩
        · exact h.rem_sub b hb'
      · intro _
        exact pending_refillCons_bound m segs hwf st h.unproc_sub front
      · intro hg
        have hg' : st.gotAll = true := hg
        have := h.gotAll_unproc hg'
        rw [hun] at this
        cases this
      · intro x hx
        rcases mem_future.mp hx with hx | ⟨b, hb, hrb⟩ | ⟨b, hb, hrb⟩
        · exact mem_future.mpr (Or.inl hx)
        · have hb' := (mem_sortBy m _ _ b).mp hb
          rcases List.mem_append.mp hb' with hb' | hb'
          · exact mem_future.mpr (Or.inr (Or.inr ⟨b, mem_pending.mpr (new_spec m st front b hb'), hrb⟩))
          · exact mem_future.mpr (Or.inr (Or.inl ⟨b, hb', hrb⟩))
        · exact mem_future.mpr (Or.inr (Or.inr ⟨b, pending_refillCons_sub m st front b hb, hrb⟩))

/-! ### fetchRRCs -/

/-- the pieces of one `fetchRRCs` call -/
def fMerged (m : Mode) (mb : Nat) (st : St) : List Rec :=
  merge m (sortRRCs m ((getNextBlocks m st.remaining mb).1.flatMap (·.recs))) st.unsent

/-- `lastBlocks` of this call -/
def fLast (m : Mode) (mb : Nat) (st : St) : Bool := lastBlocks st (getNextBlocks m st.remaining mb).1.length

def fEnd (m : Mode) (mb : Nat) (st : St) : Nat :=
  if fLast m mb st then flushEnd m else clampEnd m (getNextBlocks m st.remaining mb).2 st.cutoff

def fOut (m : Mode) (mb : Nat) (st : St) : List Rec := getValidRRCs m (fMerged m mb st) (fEnd m mb st)

def fNext (m : Mode) (mb : Nat) (st : St) : St :=
  { st with remaining := st.remaining.drop (getNextBlocks m st.remaining mb).1.length,
            gotBlocks := if (st.remaining.drop (getNextBlocks m st.remaining mb).1.length).isEmpty
                            || fEnd m mb st == st.cutoff then false else st.gotBlocks,
            unsent := (fMerged m mb st).drop (fOut m mb st).length }

theorem fetchRRCs_eq (m : Mode) (mb : Nat) (st : St) :
    fetchRRCs m mb st =
      if st.remaining.isEmpty && st.unsent.isEmpty && st.gotAll then none
      else some (fOut m mb st, fNext m mb st) := rfl

theorem pending_fNext (m : Mode) (mb : Nat) (st : St) : pending (fNext m mb st) = pending st := rfl

theorem fEnd_last (m : Mode) (mb : Nat) (st : St) (h : fLast m mb st = true) : fEnd m mb st = flushEnd m := by
  unfold fEnd; rw [h]; rfl

theorem fEnd_notlast (m : Mode) (mb : Nat) (st : St) (h : fLast m mb st = false) :
    fEnd m mb st = clampEnd m (getNextBlocks m st.remaining mb).2 st.cutoff := by
  unfold fEnd; rw [h]; rfl

theorem fLast_gotAll (m : Mode) (mb : Nat) (st : St) (h : fLast m mb st = true) : st.gotAll = true := by
  unfold fLast lastBlocks at h
  simp only [Bool.and_eq_true] at h
  exact h.1

/-- in the last round every remaining block is taken -/
theorem fLast_rem (m : Mode) (mb : Nat) (st : St) (h : fLast m mb st = true) : (fNext m mb st).remaining = [] := by
  unfold fLast lastBlocks at h
  simp only [Bool.and_eq_true, beq_iff_eq] at h
  show st.remaining.drop (getNextBlocks m st.remaining mb).1.length = []
  rw [h.2]
  exact List.drop_length

/-- with no block left and every segment request handed over, the round is the last one -/
theorem fLast_of_nil (m : Mode) (mb : Nat) (st : St) (hr : st.remaining = []) (hg : st.gotAll = true) :
    fLast m mb st = true := by
  unfold fLast lastBlocks
  rw [hr, hg]
  rfl

theorem fMerged_sorted (m : Mode) (mb : Nat) (st : St) (hs : SortedBy m (·.2) st.unsent) :
    SortedBy m (·.2) (fMerged m mb st) :=
  merge_sorted m _ _ (sortBy_sorted m _ _) hs

theorem mem_fMerged (m : Mode) (mb : Nat) (st : St) (x : Rec) :
    x ∈ fMerged m mb st ↔ (∃ b ∈ (getNextBlocks m st.remaining mb).1, x ∈ b.recs) ∨ x ∈ st.unsent := by
  unfold fMerged
  rw [mem_merge, sortRRCs, mem_sortBy, List.mem_flatMap]

theorem mem_next_blocks (m : Mode) (mb : Nat) (st : St) (b : Block)
    (hb : b ∈ (getNextBlocks m st.remaining mb).1) : b ∈ st.remaining := by
  rw [nb_take] at hb
  exact List.mem_of_mem_take hb

theorem fOut_unsent (m : Mode) (mb : Nat) (st : St) :
    fOut m mb st ++ (fNext m mb st).unsent = fMerged m mb st := by
  show fOut m mb st ++ (fMerged m mb st).drop (fOut m mb st).length = fMerged m mb st
  unfold fOut getValidRRCs
  rw [drop_takeWhile_length]
  exact List.takeWhile_append_dropWhile

theorem fetchRRCs_step (m : Mode) (segs : List Seg) (hwf : WF segs) (mb : Nat) (st : St)
    (h : Inv m segs st) (hgb : st.gotBlocks = true) :
    Inv m segs (fNext m mb st) ∧ SortedBy m (·.2) (fOut m mb st) ∧
    ((∀ r ∈ fOut m mb st, m.before (fEnd m mb st) r.2 = false) ∧
     (∀ r ∈ future (fNext m mb st), m.before r.2 (fEnd m mb st) = false)) ∧
    (∀ x, x ∈ fOut m mb st ∨ x ∈ future (fNext m mb st) → x ∈ future st) := by
  have hms := fMerged_sorted m mb st h.unsent_sorted
  have hsplit := fOut_unsent m mb st
  have hout_sub : ∀ x ∈ fOut m mb st, x ∈ fMerged m mb st := by
    intro x hx; rw [← hsplit]; exact List.mem_append_left _ hx
  have huns_sub : ∀ x ∈ (fNext m mb st).unsent, x ∈ fMerged m mb st := by
    intro x hx; rw [← hsplit]; exact List.mem_append_right _ hx
  have hrem_sub : ∀ b ∈ (fNext m mb st).remaining, b ∈ st.remaining := by
    intro b hb; exact List.mem_of_mem_drop hb
  have hmerged_future : ∀ x ∈ fMerged m mb st, x ∈ future st := by
    intro x hx
    rcases (mem_fMerged m mb st x).mp hx with ⟨b, hb, hr⟩ | hx
    · exact mem_future.mpr (Or.inr (Or.inl ⟨b, mem_next_blocks m mb st b hb, hr⟩))
    · exact mem_future.mpr (Or.inl hx)
  refine ⟨⟨h.unproc_sub, ?_, ?_, ?_, ?_, h.gotAll_unproc⟩, ?_, ⟨?_, ?_⟩, ?_⟩
  · intro b hb; exact h.rem_sub b (hrem_sub b hb)
  · exact List.Pairwise.sublist (List.drop_sublist _ _) hms
  · exact List.Pairwise.sublist (List.drop_sublist _ _) h.rem_sorted
  · intro _; rw [pending_fNext]; exact h.pend_bound hgb
  · exact List.Pairwise.sublist (List.takeWhile_sublist _) hms
  · intro r hr
    have := mem_takeWhile_imp (p := fun (r : Rec) => !m.before (fEnd m mb st) r.2) hr
    simpa using this
  · intro r hr
    rcases mem_future.mp hr with hr | ⟨b, hb, hrb⟩ | ⟨b, hb, hrb⟩
    · have hd : (fNext m mb st).unsent = (fMerged m mb st).dropWhile (fun (r : Rec) => !m.before (fEnd m mb st) r.2) := by
        show (fMerged m mb st).drop (fOut m mb st).length = _
        unfold fOut getValidRRCs
        rw [drop_takeWhile_length]
      rw [hd] at hr
      exact dropWhile_bound m _ _ hms r hr
    · cases hl : fLast m mb st with
      | true =>
        -- the last round: no block is left behind
        rw [fLast_rem m mb st hl] at hb
        cases hb
      | false =>
        rw [fEnd_notlast m mb st hl]
        have hbok : BlockOK b := blockOK_of_mem hwf (h.rem_sub b (hrem_sub b hb))
        have h1 := rec_nb_start m hbok hrb
        have h2 := nb_rest_bound m st.remaining mb h.rem_sorted b hb
        exact clamp_of_nb m _ (nb_trans m h1 h2)
    · rw [pending_fNext] at hb
      cases hl : fLast m mb st with
      | true =>
        -- the last round: every segment request has handed over its blocks
        have hun := h.gotAll_unproc (fLast_gotAll m mb st hl)
        simp [pending, hun] at hb
      | false =>
        rw [fEnd_notlast m mb st hl]
        exact clamp_of_before_cutoff m _ (h.pend_bound hgb b hb r hrb)
  · intro x hx
    rcases hx with hx | hx
    · exact hmerged_future x (hout_sub x hx)
    · rcases mem_future.mp hx with hx | ⟨b, hb, hrb⟩ | ⟨b, hb, hrb⟩
      · exact hmerged_future x (huns_sub x hx)
      · exact mem_future.mpr (Or.inr (Or.inl ⟨b, hrem_sub b hb, hrb⟩))
      · rw [pending_fNext] at hb
        exact mem_future.mpr (Or.inr (Or.inr ⟨b, hb, hrb⟩))

/-- one Fetch call: invariant, sorted batch, a time that separates the batch from everything still to come -/
theorem fetch_step (m : Mode) (segs : List Seg) (hwf : WF segs) (mb : Nat) (st : St) (h : Inv m segs st)
    (out : List Rec) (st' : St) (hf : fetch m mb st = some (out, st')) :
    Inv m segs st' ∧ SortedBy m (·.2) out ∧
    (∃ e, (∀ r ∈ out, m.before e r.2 = false) ∧ (∀ r ∈ future st', m.before r.2 e = false)) ∧
    (∀ x, x ∈ out ∨ x ∈ future st' → x ∈ future st) := by
  unfold fetch at hf
  rw [fetchRRCs_eq] at hf
  split at hf
  · cases hf
  · injection hf with hf
    injection hf with h1 h2
    subst h1; subst h2
    have hr := refill_inv m segs hwf st h
    have hs := fetchRRCs_step m segs hwf mb (refill m st) hr.1 (refill_gotBlocks m st)
    refine ⟨hs.1, hs.2.1, ⟨_, hs.2.2.1⟩, ?_⟩
    intro x hx
    exact hr.2 x (hs.2.2.2 x hx)

theorem run_sorted (m : Mode) (segs : List Seg) (hwf : WF segs) (mb : Nat) :
    ∀ (fuel : Nat) (st : St), Inv m segs st →
      SortedBy m (·.2) (runFetch m mb fuel st).1.flatten ∧
      ∀ x ∈ (runFetch m mb fuel st).1.flatten, x ∈ future st
  | 0, st, _ => by simp [runFetch, SortedBy]
  | fuel + 1, st, h => by
    simp only [runFetch]
    cases hf : fetch m mb st with
    | none => simp [SortedBy]
    | some p =>
      rcases p with ⟨out, st'⟩
      have hs := fetch_step m segs hwf mb st h out st' hf
      have ih := run_sorted m segs hwf mb fuel st' hs.1
      simp only [List.flatten_cons]
      rcases hs.2.2.1 with ⟨e, he1, he2⟩
      refine ⟨?_, ?_⟩
      · refine List.pairwise_append.mpr ⟨hs.2.1, ih.1, ?_⟩
        intro a ha b hb
        exact nb_trans m (he2 b (ih.2 b hb)) (he1 a ha)
      · intro x hx
        rcases List.mem_append.mp hx with hx | hx
        · exact hs.2.2.2 x (Or.inl hx)
        · exact hs.2.2.2 x (Or.inr (ih.2 x hx))

end SigModel.Lemmas.C05
