/- Helper lemmas for the bin/aligntime theorems of Props/C04.lean (bin_align_*): floor of a quotient of integers in Rat,
   truncation of an integral rational, identity of the int64 wrap inside its range, the Time primitives on
   millisecond instants.  Core only. -/
import SigModel.Model.MachInt
import SigModel.Model.TimePrims
import SigModel.Model.BinAlign

namespace SigModel.Lemmas.C04B
open SigModel.MachInt SigModel.TimePrims SigModel.BinAlign

theorem wrapS64_id (x : Int) (h1 : -9223372036854775808 ≤ x) (h2 : x < 9223372036854775808) : wrapS64 x = x := by
  unfold wrapS64; omega

/-- floor of the rational quotient of two integers (positive divisor) is Lean's integer division (rounds down) -/
theorem ratFloor_div (a b : Int) (hb : 0 < b) : Rat.floor ((a : Rat) / (b : Rat)) = a / b := by
  have hbq : (0 : Rat) < (b : Rat) := by exact_mod_cast hb
  apply Int.le_antisymm
  · -- floor q < a / b + 1
    have : Rat.floor ((a : Rat) / (b : Rat)) < a / b + 1 := by
      rw [Rat.floor_lt_iff, Rat.div_lt_iff hbq]
      have h := Int.lt_ediv_add_one_mul_self a hb
      have : (a : Rat) < ((a / b + 1) * b : Int) := by exact_mod_cast h
      simpa [Rat.intCast_mul] using this
    omega
  · rw [Rat.le_floor_iff]
    have h := Int.ediv_mul_le a (Int.ne_of_gt hb)
    have h' : (((a / b) * b : Int) : Rat) ≤ (a : Rat) := by exact_mod_cast h
    rw [Rat.intCast_mul] at h'
    apply Rat.not_lt.mp
    rw [Rat.div_lt_iff hbq]
    exact Rat.not_lt.mpr h'

theorem ratTrunc_intCast (n : Int) : ratTrunc ((n : Int) : Rat) = n := by
  unfold ratTrunc
  split
  · have : -((n : Int) : Rat) = ((-n : Int) : Rat) := by simp [Rat.intCast_neg]
    rw [this, Rat.floor_intCast]; omega
  · exact Rat.floor_intCast n

theorem timeUnixMilli_ofMilli (ts : Int) : timeUnixMilli (timeOfUnixMilli ts) = ts := by
  unfold timeUnixMilli timeOfUnixMilli; omega

end SigModel.Lemmas.C04B
