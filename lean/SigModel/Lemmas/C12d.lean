/- C12 helper lemmas, part d: dependency-graph fold and RED fold. Core Lean only. -/
import SigModel.Lemmas.C12b
import SigModel.Lemmas.C12c

namespace SigModel.Lemmas.C12
open SigModel.Trace List

/-- number of (parent span `p`, child span `c`) pairs of the list with `c.parent = p.id ≠ ""`,
`p.service = a` and `c.service = b` -/
def crossPairs (spans : List Span) (a b : Nat) : Nat :=
  (spans.flatMap (fun c => spans.filter
    (fun p => (c.parent != 0 && p.service == a && c.service == b) && p.id == c.parent))).length

theorem filter_id_eq : ∀ {m : List Span}, (m.map (·.id)).Nodup → ∀ {p0 : Span}, p0 ∈ m →
    m.filter (fun p => p.id == p0.id) = [p0] := by
  intro m
  induction m with
  | nil => intro _ p0 h; simp at h
  | cons a m ih =>
    intro hnd p0 hp0
    simp only [map_cons] at hnd
    have ⟨h1, h2⟩ := nodup_cons.1 hnd
    rcases mem_cons.1 hp0 with rfl | hp
    · have : m.filter (fun p => p.id == p0.id) = [] := by
        rw [filter_eq_nil_iff]
        intro x hx hid
        exact h1 (mem_map.2 ⟨x, hx, by simpa using hid⟩)
      simp [this]
    · have hne : (a.id == p0.id) = false := by
        have : a.id ≠ p0.id := fun h => h1 (mem_map.2 ⟨p0, hp, h.symm⟩)
        simpa using this
      simp only [filter_cons, hne]
      exact ih h2 hp

theorem svcOf_some {spans : List Span} (hnd : (spans.map (·.id)).Nodup) {p0 : Span} (hp : p0 ∈ spans) :
    svcOf spans p0.id = some p0.service := by
  unfold svcOf
  have hr : (spans.reverse.map (·.id)).Nodup := ((reverse_perm spans).map _).nodup_iff.2 hnd
  rw [find_id hr (mem_reverse.2 hp)]
  rfl

theorem svcOf_none {spans : List Span} {id : Nat} (h : svcOf spans id = none) : ∀ p ∈ spans, p.id ≠ id := by
  unfold svcOf at h
  simp only [Option.map_eq_none_iff] at h
  intro p hp
  have := find?_eq_none.1 h p (mem_reverse.2 hp)
  simpa using this

theorem svcOf_some_iff {spans : List Span} (hnd : (spans.map (·.id)).Nodup) {id a : Nat} :
    svcOf spans id = some a ↔ ∃ p ∈ spans, p.id = id ∧ p.service = a := by
  constructor
  · intro h
    unfold svcOf at h
    simp only [Option.map_eq_some_iff] at h
    obtain ⟨p, hf, hs⟩ := h
    have hm := mem_reverse.1 (mem_of_find?_eq_some hf)
    have hid := find?_some hf
    exact ⟨p, hm, by simpa using hid, hs⟩
  · rintro ⟨p, hp, rfl, rfl⟩
    exact svcOf_some hnd hp

/-- the pair the second loop of MakeTracesDependancyGraph increments for span `c` -/
def depStep (spans : List Span) (c : Span) : Option (Nat × Nat) :=
  if c.parent == 0 then none else
  match svcOf spans c.parent with
  | none => none
  | some ps => if ps == c.service then none else some (ps, c.service)

theorem depPairs_eq (spans : List Span) : depPairs spans = spans.filterMap (depStep spans) := rfl

theorem depStep_ne {spans : List Span} {c : Span} {a b : Nat} (h : depStep spans c = some (a, b)) : a ≠ b := by
  unfold depStep at h
  split at h
  · simp at h
  · split at h
    · simp at h
    · split at h
      · simp at h
      · rename_i hne
        simp only [Option.some.injEq, Prod.mk.injEq] at h
        obtain ⟨rfl, rfl⟩ := h
        simpa using hne

theorem step_count {spans : List Span} (hnd : (spans.map (·.id)).Nodup) (c : Span) (a b : Nat) (hab : a ≠ b) :
    (spans.filter (fun p => (c.parent != 0 && p.service == a && c.service == b) && p.id == c.parent)).length =
      if depStep spans c = some (a, b) then 1 else 0 := by
  rw [← filter_filter]
  unfold depStep
  by_cases h0 : c.parent = 0
  · simp [h0]
  · have h0' : (c.parent == 0) = false := by simpa using h0
    simp only [h0', Bool.false_eq_true, if_false]
    match hs : svcOf spans c.parent with
    | none =>
      have hn := svcOf_none hs
      have : spans.filter (fun p => p.id == c.parent) = [] := by
        rw [filter_eq_nil_iff]
        intro x hx hid
        exact hn x hx (by simpa using hid)
      simp [this]
    | some ps =>
      obtain ⟨p0, hp0, hid, hsv⟩ := (svcOf_some_iff hnd).1 hs
      have := filter_id_eq hnd hp0
      rw [hid] at this
      rw [this]
      subst hsv
      by_cases h1 : p0.service = a
      · by_cases h2 : c.service = b
        · subst h1; subst h2
          have hne : (p0.service == c.service) = false := by simpa using hab
          simp [h0, hne]
        · have : ¬ (p0.service = a ∧ c.service = b) := fun h => h2 h.2
          by_cases h3 : p0.service = c.service
          · simp [h0, h2]
          · simp [h0, h2, h1]
      · by_cases h3 : p0.service = c.service
        · simp [h0, h3]
          intro h
          exact absurd (h3.trans h) h1
        · simp [h0, h1, h3]

theorem count_filterMap_step {spans : List Span} (hnd : (spans.map (·.id)).Nodup) (a b : Nat) (hab : a ≠ b) :
    ∀ cs : List Span, (cs.filterMap (depStep spans)).count (a, b) =
      (cs.flatMap (fun c => spans.filter
        (fun p => (c.parent != 0 && p.service == a && c.service == b) && p.id == c.parent))).length := by
  intro cs
  induction cs with
  | nil => simp
  | cons c cs ih =>
    simp only [flatMap_cons, length_append, step_count hnd c a b hab, ← ih]
    match hs : depStep spans c with
    | none => simp [hs]
    | some pr =>
      simp only [filterMap_cons, hs, count_cons]
      by_cases hp : pr = (a, b)
      · subst hp; simp; omega
      · have : (pr == (a, b)) = false := by simpa using hp
        simp [this, hp]

theorem depPairs_count {spans : List Span} (hnd : (spans.map (·.id)).Nodup) (a b : Nat) (hab : a ≠ b) :
    (depPairs spans).count (a, b) = crossPairs spans a b := by
  rw [depPairs_eq]
  exact count_filterMap_step hnd a b hab spans

theorem mem_depPairs_ne {spans : List Span} {a b : Nat} (h : (a, b) ∈ depPairs spans) : a ≠ b := by
  rw [depPairs_eq] at h
  obtain ⟨c, _, hc⟩ := mem_filterMap.1 h
  exact depStep_ne hc

theorem mem_depGraph {spans : List Span} {k : Nat × Nat} {n : Nat} :
    (k, n) ∈ depGraph spans ↔ k ∈ depPairs spans ∧ n = (depPairs spans).count k := by
  unfold depGraph
  simp only [mem_map, Prod.mk.injEq]
  constructor
  · rintro ⟨k', hk', rfl, rfl⟩
    exact ⟨mem_uniq.1 (mem_isort.1 hk'), rfl⟩
  · rintro ⟨hk, rfl⟩
    exact ⟨k, mem_isort.2 (mem_uniq.2 hk), rfl, rfl⟩

theorem depGraph_keys_nodup (spans : List Span) : ((depGraph spans).map Prod.fst).Nodup := by
  unfold depGraph
  simp only [map_map]
  have : (Prod.fst ∘ fun k : Nat × Nat => (k, count k (depPairs spans))) = id := rfl
  rw [this, map_id]
  exact ((isort_perm pairLe _).nodup_iff).2 (uniq_nodup _)

theorem pairLe_trans (a b c : Nat × Nat) : pairLe a b → pairLe b c → pairLe a c := by
  unfold pairLe
  simp only [Bool.or_eq_true, decide_eq_true_eq, Bool.and_eq_true, beq_iff_eq]
  omega

theorem pairLe_total (a b : Nat × Nat) : pairLe a b || pairLe b a := by
  unfold pairLe
  simp only [Bool.or_eq_true, decide_eq_true_eq, Bool.and_eq_true, beq_iff_eq]
  omega

theorem depGraph_keys_sorted (spans : List Span) :
    ((depGraph spans).map Prod.fst).Pairwise (fun x y => pairLe x y) := by
  unfold depGraph
  simp only [map_map]
  have : (Prod.fst ∘ fun k : Nat × Nat => (k, count k (depPairs spans))) = id := rfl
  rw [this, map_id]
  exact isort_pairwise pairLe pairLe_trans pairLe_total _

/-! ### RED -/

/-- durations (ms) of the entry spans of a service, in span order -/
def entryDurs (spans : List Span) (svc : Nat) : List Nat :=
  ((spans.filter (isEntry spans)).filter (fun s => s.service == svc)).map durMs

/-- the float64 index `p·(n−1)/100` of `FindPercentileData` -/
def pctIndex (p n : Nat) : Dy := Dy.div (Dy.ofNat (p * (n - 1))) (Dy.ofNat 100)

theorem redRow_percentiles (spans : List Span) (svc : Nat) (hne : entryDurs spans svc ≠ [])
    (h50 : (pctIndex 50 (entryDurs spans svc).length).ceil < (entryDurs spans svc).length)
    (h90 : (pctIndex 90 (entryDurs spans svc).length).ceil < (entryDurs spans svc).length)
    (h95 : (pctIndex 95 (entryDurs spans svc).length).ceil < (entryDurs spans svc).length)
    (h99 : (pctIndex 99 (entryDurs spans svc).length).ceil < (entryDurs spans svc).length) :
    (redRow spans svc).p50 = lerp (sortN (entryDurs spans svc)) (pctIndex 50 (entryDurs spans svc).length) ∧
    (redRow spans svc).p90 = lerp (sortN (entryDurs spans svc)) (pctIndex 90 (entryDurs spans svc).length) ∧
    (redRow spans svc).p95 = lerp (sortN (entryDurs spans svc)) (pctIndex 95 (entryDurs spans svc).length) ∧
    (redRow spans svc).p99 = lerp (sortN (entryDurs spans svc)) (pctIndex 99 (entryDurs spans svc).length) := by
  have key : ∀ (d : List Nat) (p : Nat), d ~ entryDurs spans svc → p ≤ 100 →
      (pctIndex p (entryDurs spans svc).length).ceil < (entryDurs spans svc).length →
      (pct d p).1 = lerp (sortN (entryDurs spans svc)) (pctIndex p (entryDurs spans svc).length) := by
    intro d p hd hp hc
    have hl := hd.length_eq
    have hdne : d ≠ [] := by
      intro h; rw [h] at hl; exact hne (length_eq_zero_iff.1 hl.symm)
    have := pct_spec d p hdne hp (by rw [hl]; exact hc)
    rw [this, hl, sortN_congr hd]
    rfl
  have e1 := pct_snd_perm (entryDurs spans svc) 50
  have e2 := (pct_snd_perm (pct (entryDurs spans svc) 50).2 90).trans e1
  have e3 := (pct_snd_perm (pct (pct (entryDurs spans svc) 50).2 90).2 95).trans e2
  refine ⟨key _ 50 (Perm.refl _) (by omega) h50, key _ 90 e1 (by omega) h90, key _ 95 e2 (by omega) h95,
    key _ 99 e3 (by omega) h99⟩

end SigModel.Lemmas.C12
