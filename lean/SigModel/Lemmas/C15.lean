import SigModel.Model.Bulk
/-
Helper lemmas for C15, part 1 (the loop of the REPAIRED code, `Version.fixed`), and the vocabulary the property
theorems are stated in: a request as a list of actions (`Act`), the per-action specification (`Act.status`,
`Act.storedOf`) and the accepted events with the positions of their items (`plesFrom`).
-/
namespace SigModel.Lemmas.C15
open SigModel.Bulk

/-- an action of the request: a one-line action (delete / unknown / malformed), or an
index/create/update action followed by its document line -/
inductive Act where
  | single (l : Line)
  | withDoc (a doc : Line)
deriving Repr, DecidableEq

def Act.lines : Act → List Line
  | .single l => [l]
  | .withDoc a d => [a, d]

/-- what the request syntax guarantees about the abstraction of a line -/
def Act.wf : Act → Prop
  | .single l => l.kind = Kind.other ∧ 0 < l.len
  | .withDoc a d => a.kind ≠ Kind.other ∧ 0 < a.len ∧ 0 < d.len

/-- the per-action specification of the LOOP: depends on nothing but the action itself (and the predicates on
its index name) -/
def Act.status (env : Env) : Act → Status
  | .single _ => .failed
  | .withDoc a d =>
    if a.kind = Kind.update then .failed
    else if env.valid a.idx = false then .failed
    else if maxRecordSize ≤ d.len then .tooLarge
    else if env.kibana a.idx = true then .failed
    else if d.docOk then .created else .failed

/-- the document an action contributes, with the index name of the action -/
def Act.storedOf (env : Env) : Act → List (Nat × Nat)
  | .single _ => []
  | .withDoc a d =>
    if a.kind ≠ Kind.update ∧ env.valid a.idx = true ∧ d.len < maxRecordSize ∧ env.kibana a.idx = false ∧ d.docOk
    then [(a.idx, d.id)] else []

/-- the index name an action addresses / the id of its document -/
def Act.idxOf : Act → Nat
  | .single l => l.idx
  | .withDoc a _ => a.idx

def Act.docId : Act → Nat
  | .single l => l.id
  | .withDoc _ d => d.id

/-- the event an action contributes when its item has position `pos` -/
def Act.pleOf (env : Env) (a : Act) (pos : Nat) : List Ple := (a.storedOf env).map (fun p => (p.1, p.2, pos))

/-- the events of a list of actions whose first item has position `off` -/
def plesFrom (env : Env) : List Act → Nat → List Ple
  | [], _ => []
  | a :: r, off => a.pleOf env off ++ plesFrom env r (off + 1)

def emptyLine : Line := { kind := .other, len := 0, docOk := false, id := 0, idx := 0 }

def tailOf (dangling : Option Line) (nl : Bool) : List Line :=
  dangling.toList ++ (if nl then [emptyLine] else [])

def tailItems (dangling : Option Line) : List Status :=
  (dangling.map (fun _ => Status.failed)).toList

/-- `s'` extends `s` by the items `its`, the stored ids `st`, and the corresponding error flag -/
def Good (s s' : St) (its : List Status) (st : List Ple) : Prop :=
  s'.items = s.items ++ its ∧ s'.ples = s.ples ++ st ∧
  s'.overallError = (s.overallError || its.any (· ≠ Status.created))

theorem Good.refl (s : St) : Good s s [] [] := by simp [Good]

theorem Good.trans {s s' s'' : St} {i1 i2 : List Status} {t1 t2 : List Ple}
    (h1 : Good s s' i1 t1) (h2 : Good s' s'' i2 t2) : Good s s'' (i1 ++ i2) (t1 ++ t2) := by
  obtain ⟨a1, b1, c1⟩ := h1
  obtain ⟨a2, b2, c2⟩ := h2
  refine ⟨?_, ?_, ?_⟩
  · rw [a2, a1, List.append_assoc]
  · rw [b2, b1, List.append_assoc]
  · rw [c2, c1, List.any_append, Bool.or_assoc]

theorem loop_nil (env : Env) (f : Nat) (s : St) : loop Version.fixed env f s [] = s := by
  cases f <;> simp [loop, readLine, remEmpty]

theorem loop_emptyLine (env : Env) (f : Nat) (s : St) : loop Version.fixed env f s [emptyLine] = s := by
  cases f <;> simp [loop, readLine, remEmpty, emptyLine]

theorem loop_tail_none (env : Env) (f : Nat) (s : St) (nl : Bool) : loop Version.fixed env f s (tailOf none nl) = s := by
  cases nl
  · simpa [tailOf] using loop_nil env f s
  · simpa [tailOf] using loop_emptyLine env f s

/-- an iteration on a non-empty line is `stepAction` -/
theorem loop_succ (env : Env) (l : Line) (hl : 0 < l.len) (f : Nat) (s : St) (rest : List Line) :
    loop Version.fixed env (f+1) s (l :: rest) = loop Version.fixed env f (stepAction Version.fixed env s l rest).1 (stepAction Version.fixed env s l rest).2 := by
  have hne : (l.len == 0) = false := by simp; omega
  simp [loop, readLine, hne]

/-- a one-line action (kind `other`) yields one `failed` item and consumes one line -/
theorem stepAction_single (env : Env) (l : Line) (hk : l.kind = Kind.other) (s : St) (rest : List Line) :
    (stepAction Version.fixed env s l rest).2 = rest ∧ Good s (stepAction Version.fixed env s l rest).1 [Status.failed] [] := by
  simp [stepAction, hk, Good]

/-- an index/create/update action with a non-empty document line -/
theorem stepAction_withDoc (env : Env) (a d : Line) (hk : a.kind ≠ Kind.other) (hd : 0 < d.len)
    (s : St) (rest : List Line) :
    (stepAction Version.fixed env s a (d :: rest)).2 = rest ∧
    Good s (stepAction Version.fixed env s a (d :: rest)).1 [(Act.withDoc a d).status env]
      ((Act.withDoc a d).pleOf env s.items.length) := by
  have hne : (d.len == 0) = false := by simp; omega
  cases hkind : a.kind with
  | other => exact absurd hkind hk
  | update => simp [stepAction, hkind, readLine, Good, Act.status, Act.storedOf, Act.pleOf]
  | index =>
    cases hv : env.valid a.idx with
    | false => simp [stepAction, hkind, readLine, Good, Act.status, Act.storedOf, Act.pleOf, hne, hv]
    | true =>
      by_cases h1 : d.len < maxRecordSize
      · have h1' : ¬ maxRecordSize ≤ d.len := by omega
        cases hkb : env.kibana a.idx <;> cases h2 : d.docOk <;>
          simp [stepAction, Version.fixed, hkind, readLine, Good, Act.status, Act.storedOf, Act.pleOf, hne, hv, hkb, h1, h1', h2]
      · have h1' : maxRecordSize ≤ d.len := by omega
        simp [stepAction, hkind, readLine, Good, Act.status, Act.storedOf, Act.pleOf, hne, hv, h1, h1']
  | create =>
    cases hv : env.valid a.idx with
    | false => simp [stepAction, hkind, readLine, Good, Act.status, Act.storedOf, Act.pleOf, hne, hv]
    | true =>
      by_cases h1 : d.len < maxRecordSize
      · have h1' : ¬ maxRecordSize ≤ d.len := by omega
        cases hkb : env.kibana a.idx <;> cases h2 : d.docOk <;>
          simp [stepAction, Version.fixed, hkind, readLine, Good, Act.status, Act.storedOf, Act.pleOf, hne, hv, hkb, h1, h1', h2]
      · have h1' : maxRecordSize ≤ d.len := by omega
        simp [stepAction, hkind, readLine, Good, Act.status, Act.storedOf, Act.pleOf, hne, hv, h1, h1']

/-- an index/create/update line whose document is missing (end of body, or only the trailing
newline follows) -/
theorem stepAction_dangling (env : Env) (l : Line) (hk : l.kind ≠ Kind.other) (nl : Bool) (s : St) :
    (stepAction Version.fixed env s l (if nl then [emptyLine] else [])).2 = [] ∧
    Good s (stepAction Version.fixed env s l (if nl then [emptyLine] else [])).1 [Status.failed] [] := by
  cases hkind : l.kind with
  | other => exact absurd hkind hk
  | update => cases nl <;> simp [stepAction, hkind, readLine, Good, emptyLine]
  | index => cases nl <;> simp [stepAction, hkind, readLine, Good, emptyLine, remEmpty]
  | create => cases nl <;> simp [stepAction, hkind, readLine, Good, emptyLine, remEmpty]

/-- one complete action: one unit of fuel, one item -/
theorem loop_act (env : Env) (a : Act) (hwf : a.wf) (f : Nat) (s : St) (rest : List Line) :
    ∃ s', loop Version.fixed env (f+1) s (a.lines ++ rest) = loop Version.fixed env f s' rest ∧
      Good s s' [a.status env] (a.pleOf env s.items.length) := by
  cases a with
  | single l =>
    obtain ⟨hk, hl⟩ := hwf
    obtain ⟨h1, h2⟩ := stepAction_single env l hk s rest
    refine ⟨(stepAction Version.fixed env s l rest).1, ?_, by simpa [Act.pleOf, Act.storedOf, Act.status] using h2⟩
    have := loop_succ env l hl f s rest
    rw [h1] at this
    simpa [Act.lines] using this
  | withDoc x d =>
    obtain ⟨hk, hx, hd⟩ := hwf
    obtain ⟨h1, h2⟩ := stepAction_withDoc env x d hk hd s rest
    refine ⟨(stepAction Version.fixed env s x (d :: rest)).1, ?_, h2⟩
    have := loop_succ env x hx f s (d :: rest)
    rw [h1] at this
    simpa [Act.lines] using this

/-- the tail of the body: optional dangling action line, optional trailing newline -/
theorem loop_tail (env : Env) (dangling : Option Line) (nl : Bool)
    (hd : ∀ l, dangling = some l → l.kind ≠ Kind.other ∧ 0 < l.len) (f : Nat) (s : St) :
    Good s (loop Version.fixed env (f+1) s (tailOf dangling nl)) (tailItems dangling) [] := by
  cases dangling with
  | none => rw [loop_tail_none]; exact Good.refl s
  | some l =>
    obtain ⟨hk, hl⟩ := hd l rfl
    obtain ⟨h1, h2⟩ := stepAction_dangling env l hk nl s
    have := loop_succ env l hl f s (if nl then [emptyLine] else [])
    rw [h1, loop_nil] at this
    have e : tailOf (some l) nl = l :: (if nl then [emptyLine] else []) := by simp [tailOf]
    rw [e, this]
    simpa [tailItems] using h2

/-- the loop invariant: with at least one unit of fuel per action plus one -/
theorem loop_inv (env : Env) (acts : List Act) (dangling : Option Line) (nl : Bool)
    (hwf : ∀ a ∈ acts, a.wf) (hd : ∀ l, dangling = some l → l.kind ≠ Kind.other ∧ 0 < l.len) :
    ∀ (f : Nat) (s : St), acts.length + 1 ≤ f →
      Good s (loop Version.fixed env f s (acts.flatMap Act.lines ++ tailOf dangling nl))
        (acts.map (Act.status env) ++ tailItems dangling) (plesFrom env acts s.items.length) := by
  induction acts with
  | nil =>
    intro f s hf
    obtain ⟨f', rfl⟩ : ∃ f', f = f' + 1 := ⟨f - 1, by simp at hf; omega⟩
    simpa [plesFrom] using loop_tail env dangling nl hd f' s
  | cons a acts ih =>
    intro f s hf
    obtain ⟨f', rfl⟩ : ∃ f', f = f' + 1 := ⟨f - 1, by simp at hf; omega⟩
    have hwfa : a.wf := hwf a (by simp)
    have hwf' : ∀ b ∈ acts, b.wf := fun b hb => hwf b (by simp [hb])
    obtain ⟨s', h1, h2⟩ := loop_act env a hwfa f' s (acts.flatMap Act.lines ++ tailOf dangling nl)
    have h3 := ih hwf' f' s' (by simp at hf; omega)
    have hlen : s'.items.length = s.items.length + 1 := by rw [h2.1]; simp
    rw [hlen] at h3
    have := Good.trans h2 h3
    simp only [List.flatMap_cons, List.map_cons, List.append_assoc, plesFrom]
    rw [h1]
    simpa using this

theorem length_le_flatMap_lines (acts : List Act) : acts.length ≤ (acts.flatMap Act.lines).length := by
  induction acts with
  | nil => simp
  | cons a acts ih => cases a <;> simp [Act.lines] at ih ⊢ <;> omega

/-- `handle` on a well-formed body, for the duplicated definitions -/
theorem handle_act (env : Env) (acts : List Act) (dangling : Option Line) (nl : Bool)
    (hwf : ∀ a ∈ acts, a.wf) (hd : ∀ l, dangling = some l → l.kind ≠ Kind.other ∧ 0 < l.len) :
    Good {} (handle Version.fixed env (acts.flatMap Act.lines ++ tailOf dangling nl))
      (acts.map (Act.status env) ++ tailItems dangling) (plesFrom env acts 0) := by
  unfold handle
  have h0 : plesFrom env acts 0 = plesFrom env acts ({} : St).items.length := rfl
  rw [h0]
  apply loop_inv env acts dangling nl hwf hd
  have := length_le_flatMap_lines acts
  simp only [List.length_append]
  omega

/-- the body: complete actions, then optionally an index/create/update line whose document is
missing, then optionally the trailing newline (= a final empty line) -/
def bodyOf (acts : List Act) (dangling : Option Line) (nl : Bool) : List Line :=
  acts.flatMap Act.lines ++ dangling.toList ++ (if nl then [emptyLine] else [])

/-- the items the loop leaves -/
def loopItems (env : Env) (acts : List Act) (dangling : Option Line) : List Status :=
  acts.map (Act.status env) ++ tailItems dangling

/-- the loop on a well-formed body: items, accepted events with their item positions, `errors` flag -/
theorem handle_spec (env : Env) (acts : List Act) (dangling : Option Line) (nl : Bool)
    (hwf : ∀ a ∈ acts, a.wf) (hd : ∀ l, dangling = some l → l.kind ≠ Kind.other ∧ 0 < l.len) :
    (handle Version.fixed env (bodyOf acts dangling nl)).items = loopItems env acts dangling ∧
    (handle Version.fixed env (bodyOf acts dangling nl)).ples = plesFrom env acts 0 ∧
    (handle Version.fixed env (bodyOf acts dangling nl)).overallError = (loopItems env acts dangling).any (· ≠ Status.created) := by
  have h := handle_act env acts dangling nl hwf hd
  obtain ⟨h1, h2, h3⟩ := h
  have e : bodyOf acts dangling nl = acts.flatMap Act.lines ++ tailOf dangling nl := by
    simp [bodyOf, tailOf, List.append_assoc]
  rw [e]
  refine ⟨?_, ?_, ?_⟩
  · simpa [loopItems] using h1
  · simpa using h2
  · simpa [loopItems] using h3

/-- `storedOf` is non-empty exactly for `created` actions -/
theorem storedOf_ne_nil_iff (env : Env) (a : Act) : a.storedOf env ≠ [] ↔ a.status env = Status.created := by
  cases a with
  | single l => simp [Act.storedOf, Act.status]
  | withDoc x d =>
    by_cases h1 : x.kind = Kind.update
    · simp [Act.storedOf, Act.status, h1]
    · cases hv : env.valid x.idx with
      | false => simp [Act.storedOf, Act.status, h1, hv]
      | true =>
        by_cases h2 : d.len < maxRecordSize
        · have h2' : ¬ maxRecordSize ≤ d.len := by omega
          cases hkb : env.kibana x.idx <;> cases h3 : d.docOk <;>
            simp [Act.storedOf, Act.status, h1, hv, hkb, h2, h2', h3]
        · have h2' : maxRecordSize ≤ d.len := by omega
          simp [Act.storedOf, Act.status, h1, hv, h2, h2']

/-- a created action contributes exactly its own (index name, document id) -/
theorem storedOf_of_created (env : Env) (a : Act) (h : a.status env = Status.created) :
    a.storedOf env = [(a.idxOf, a.docId)] := by
  have hne := (storedOf_ne_nil_iff env a).2 h
  cases a with
  | single l => simp [Act.storedOf] at hne
  | withDoc x d =>
    by_cases hc : x.kind ≠ Kind.update ∧ env.valid x.idx = true ∧ d.len < maxRecordSize ∧ env.kibana x.idx = false ∧ d.docOk
    · simp only [Act.storedOf, if_pos hc, Act.idxOf, Act.docId]
    · simp only [Act.storedOf, if_neg hc] at hne
      exact absurd rfl hne

theorem storedOf_of_not_created (env : Env) (a : Act) (h : a.status env ≠ Status.created) :
    a.storedOf env = [] := by
  by_cases hn : a.storedOf env = []
  · exact hn
  · exact absurd ((storedOf_ne_nil_iff env a).1 hn) h

end SigModel.Lemmas.C15
