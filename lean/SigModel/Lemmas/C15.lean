import SigModel.Model.Bulk
/-
Helper lemmas for C15 (bulk loop).  `Props/C15.lean` defines `Action`, `status`, … which cannot be
imported here, so the same small definitions are duplicated (`Act`, `Act.status`, …), every lemma is
proved for them, and `handle_spec` at the end is stated generically over any type `α` with a
translation `toAct : α → Act` that commutes with the four projections (proved by `cases a <;> rfl`
at the use site).
-/
namespace SigModel.Lemmas.C15
open SigModel.Bulk

inductive Act where
  | single (l : Line)
  | withDoc (a doc : Line)

def Act.lines : Act → List Line
  | .single l => [l]
  | .withDoc a d => [a, d]

def Act.wf : Act → Prop
  | .single l => l.kind = Kind.other ∧ 0 < l.len
  | .withDoc a d => a.kind ≠ Kind.other ∧ 0 < a.len ∧ 0 < d.len

def Act.status (env : Env) : Act → Status
  | .single _ => .failed
  | .withDoc a d =>
    if a.kind = Kind.update then .failed
    else if env.valid a.idx = false then .failed
    else if maxRecordSize ≤ d.len then .tooLarge
    else if d.docOk then .created else .failed

def Act.storedOf (env : Env) : Act → List (Nat × Nat)
  | .single _ => []
  | .withDoc a d =>
    if a.kind ≠ Kind.update ∧ env.valid a.idx = true ∧ d.len < maxRecordSize ∧ d.docOk then [(a.idx, d.id)] else []

def emptyLine : Line := { kind := .other, len := 0, docOk := false, id := 0, idx := 0 }

def tailOf (dangling : Option Line) (nl : Bool) : List Line :=
  dangling.toList ++ (if nl then [emptyLine] else [])

def tailItems (dangling : Option Line) : List Status :=
  (dangling.map (fun _ => Status.failed)).toList

/-- `s'` extends `s` by the items `its`, the stored ids `st`, and the corresponding error flag -/
def Good (s s' : St) (its : List Status) (st : List (Nat × Nat)) : Prop :=
  s'.items = s.items ++ its ∧ s'.ples = s.ples ++ st ∧
  s'.overallError = (s.overallError || its.any (· ≠ Status.created))

theorem Good.refl (s : St) : Good s s [] [] := by simp [Good]

theorem Good.trans {s s' s'' : St} {i1 i2 : List Status} {t1 t2 : List (Nat × Nat)}
    (h1 : Good s s' i1 t1) (h2 : Good s' s'' i2 t2) : Good s s'' (i1 ++ i2) (t1 ++ t2) := by
  obtain ⟨a1, b1, c1⟩ := h1
  obtain ⟨a2, b2, c2⟩ := h2
  refine ⟨?_, ?_, ?_⟩
  · rw [a2, a1, List.append_assoc]
  · rw [b2, b1, List.append_assoc]
  · rw [c2, c1, List.any_append, Bool.or_assoc]

theorem loop_nil (env : Env) (f : Nat) (s : St) : loop env f s [] = s := by
  cases f <;> simp [loop, readLine, remEmpty]

theorem loop_emptyLine (env : Env) (f : Nat) (s : St) : loop env f s [emptyLine] = s := by
  cases f <;> simp [loop, readLine, remEmpty, emptyLine]

theorem loop_tail_none (env : Env) (f : Nat) (s : St) (nl : Bool) : loop env f s (tailOf none nl) = s := by
  cases nl
  · simpa [tailOf] using loop_nil env f s
  · simpa [tailOf] using loop_emptyLine env f s

/-- an iteration on a non-empty line is `stepAction` -/
theorem loop_succ (env : Env) (l : Line) (hl : 0 < l.len) (f : Nat) (s : St) (rest : List Line) :
    loop env (f+1) s (l :: rest) = loop env f (stepAction env s l rest).1 (stepAction env s l rest).2 := by
  have hne : (l.len == 0) = false := by simp; omega
  simp [loop, readLine, hne]

/-- a one-line action (kind `other`) yields one `failed` item and consumes one line -/
theorem stepAction_single (env : Env) (l : Line) (hk : l.kind = Kind.other) (s : St) (rest : List Line) :
    (stepAction env s l rest).2 = rest ∧ Good s (stepAction env s l rest).1 [Status.failed] [] := by
  simp [stepAction, hk, Good]

/-- an index/create/update action with a non-empty document line -/
theorem stepAction_withDoc (env : Env) (a d : Line) (hk : a.kind ≠ Kind.other) (hd : 0 < d.len)
    (s : St) (rest : List Line) :
    (stepAction env s a (d :: rest)).2 = rest ∧
    Good s (stepAction env s a (d :: rest)).1 [(Act.withDoc a d).status env] ((Act.withDoc a d).storedOf env) := by
  have hne : (d.len == 0) = false := by simp; omega
  cases hkind : a.kind with
  | other => exact absurd hkind hk
  | update => simp [stepAction, hkind, readLine, Good, Act.status, Act.storedOf]
  | index =>
    cases hv : env.valid a.idx with
    | false => simp [stepAction, hkind, readLine, Good, Act.status, Act.storedOf, hne, hv]
    | true =>
      by_cases h1 : d.len < maxRecordSize
      · have h1' : ¬ maxRecordSize ≤ d.len := by omega
        cases h2 : d.docOk <;>
          simp [stepAction, hkind, readLine, Good, Act.status, Act.storedOf, hne, hv, h1, h1', h2]
      · have h1' : maxRecordSize ≤ d.len := by omega
        simp [stepAction, hkind, readLine, Good, Act.status, Act.storedOf, hne, hv, h1, h1']
  | create =>
    cases hv : env.valid a.idx with
    | false => simp [stepAction, hkind, readLine, Good, Act.status, Act.storedOf, hne, hv]
    | true =>
      by_cases h1 : d.len < maxRecordSize
      · have h1' : ¬ maxRecordSize ≤ d.len := by omega
        cases h2 : d.docOk <;>
          simp [stepAction, hkind, readLine, Good, Act.status, Act.storedOf, hne, hv, h1, h1', h2]
      · have h1' : maxRecordSize ≤ d.len := by omega
        simp [stepAction, hkind, readLine, Good, Act.status, Act.storedOf, hne, hv, h1, h1']

/-- an index/create/update line whose document is missing (end of body, or only the trailing
newline follows) -/
theorem stepAction_dangling (env : Env) (l : Line) (hk : l.kind ≠ Kind.other) (nl : Bool) (s : St) :
    (stepAction env s l (if nl then [emptyLine] else [])).2 = [] ∧
    Good s (stepAction env s l (if nl then [emptyLine] else [])).1 [Status.failed] [] := by
  cases hkind : l.kind with
  | other => exact absurd hkind hk
  | update => cases nl <;> simp [stepAction, hkind, readLine, Good, emptyLine]
  | index => cases nl <;> simp [stepAction, hkind, readLine, Good, emptyLine, remEmpty]
  | create => cases nl <;> simp [stepAction, hkind, readLine, Good, emptyLine, remEmpty]

/-- one complete action: one unit of fuel, one item -/
theorem loop_act (env : Env) (a : Act) (hwf : a.wf) (f : Nat) (s : St) (rest : List Line) :
    ∃ s', loop env (f+1) s (a.lines ++ rest) = loop env f s' rest ∧ Good s s' [a.status env] (a.storedOf env) := by
  cases a with
  | single l =>
    obtain ⟨hk, hl⟩ := hwf
    obtain ⟨h1, h2⟩ := stepAction_single env l hk s rest
    refine ⟨(stepAction env s l rest).1, ?_, h2⟩
    have := loop_succ env l hl f s rest
    rw [h1] at this
    simpa [Act.lines] using this
  | withDoc x d =>
    obtain ⟨hk, hx, hd⟩ := hwf
    obtain ⟨h1, h2⟩ := stepAction_withDoc env x d hk hd s rest
    refine ⟨(stepAction env s x (d :: rest)).1, ?_, h2⟩
    have := loop_succ env x hx f s (d :: rest)
    rw [h1] at this
    simpa [Act.lines] using this

/-- the tail of the body: optional dangling action line, optional trailing newline -/
theorem loop_tail (env : Env) (dangling : Option Line) (nl : Bool)
    (hd : ∀ l, dangling = some l → l.kind ≠ Kind.other ∧ 0 < l.len) (f : Nat) (s : St) :
    Good s (loop env (f+1) s (tailOf dangling nl)) (tailItems dangling) [] := by
  cases dangling with
  | none => rw [loop_tail_none]; exact Good.refl s
  | some l =>
    obtain ⟨hk, hl⟩ := hd l rfl
    obtain ⟨h1, h2⟩ := stepAction_dangling env l hk nl s
    have := loop_succ env l hl f s (if nl then [emptyLine] else [])
    rw [h1, loop_nil] at this
    have e : tailOf (some l) nl = l :: (if nl then [emptyLine] else []) := by simp [tailOf]
    rw [e, this]
    simpa [tailItems] using h2

/-- the loop invariant: with at least one unit of fuel per action plus one -/
theorem loop_inv (env : Env) (acts : List Act) (dangling : Option Line) (nl : Bool)
    (hwf : ∀ a ∈ acts, a.wf) (hd : ∀ l, dangling = some l → l.kind ≠ Kind.other ∧ 0 < l.len) :
    ∀ (f : Nat) (s : St), acts.length + 1 ≤ f →
      Good s (loop env f s (acts.flatMap Act.lines ++ tailOf dangling nl))
        (acts.map (Act.status env) ++ tailItems dangling) (acts.flatMap (Act.storedOf env)) := by
  induction acts with
  | nil =>
    intro f s hf
    obtain ⟨f', rfl⟩ : ∃ f', f = f' + 1 := ⟨f - 1, by simp at hf; omega⟩
    simpa using loop_tail env dangling nl hd f' s
  | cons a acts ih =>
    intro f s hf
    obtain ⟨f', rfl⟩ : ∃ f', f = f' + 1 := ⟨f - 1, by simp at hf; omega⟩
    have hwfa : a.wf := hwf a (by simp)
    have hwf' : ∀ b ∈ acts, b.wf := fun b hb => hwf b (by simp [hb])
    obtain ⟨s', h1, h2⟩ := loop_act env a hwfa f' s (acts.flatMap Act.lines ++ tailOf dangling nl)
    have h3 := ih hwf' f' s' (by simp at hf; omega)
    have := Good.trans h2 h3
    simp only [List.flatMap_cons, List.map_cons, List.append_assoc]
    rw [h1]
    simpa using this

theorem length_le_flatMap_lines (acts : List Act) : acts.length ≤ (acts.flatMap Act.lines).length := by
  induction acts with
  | nil => simp
  | cons a acts ih => cases a <;> simp [Act.lines] at ih ⊢ <;> omega

/-- `handle` on a well-formed body, for the duplicated definitions -/
theorem handle_act (env : Env) (acts : List Act) (dangling : Option Line) (nl : Bool)
    (hwf : ∀ a ∈ acts, a.wf) (hd : ∀ l, dangling = some l → l.kind ≠ Kind.other ∧ 0 < l.len) :
    Good {} (handle env (acts.flatMap Act.lines ++ tailOf dangling nl))
      (acts.map (Act.status env) ++ tailItems dangling) (acts.flatMap (Act.storedOf env)) := by
  unfold handle
  apply loop_inv env acts dangling nl hwf hd
  have := length_le_flatMap_lines acts
  simp only [List.length_append]
  omega

/-- Generic form used by `Props/C15.lean`: any action type `α` whose projections factor through
`Act`.  (`body` is spelled exactly as `bodyOf` unfolds.) -/
theorem handle_spec (env : Env) {α : Type} (toAct : α → Act)
    (lines : α → List Line) (wf : α → Prop) (status : α → Status) (storedOf : α → List (Nat × Nat))
    (hl : ∀ a, lines a = (toAct a).lines) (hw : ∀ a, wf a → (toAct a).wf)
    (hs : ∀ a, status a = (toAct a).status env) (ht : ∀ a, storedOf a = (toAct a).storedOf env)
    (acts : List α) (dangling : Option Line) (nl : Bool)
    (hwf : ∀ a ∈ acts, wf a) (hd : ∀ l, dangling = some l → l.kind ≠ Kind.other ∧ 0 < l.len) :
    let r := handle env (acts.flatMap lines ++ dangling.toList ++
      (if nl then [({ kind := .other, len := 0, docOk := false, id := 0, idx := 0 } : Line)] else []))
    let its := acts.map status ++ (dangling.map (fun _ => Status.failed)).toList
    r.items = its ∧ r.ples = acts.flatMap storedOf ∧
      r.overallError = its.any (· ≠ Status.created) := by
  have h := handle_act env (acts.map toAct) dangling nl
    (by intro a ha; obtain ⟨b, hb, rfl⟩ := List.mem_map.1 ha; exact hw b (hwf b hb)) hd
  have e1 : (acts.map toAct).flatMap Act.lines = acts.flatMap lines := by
    rw [List.flatMap_map]; congr 1; funext a; exact (hl a).symm
  have e2 : (acts.map toAct).map (Act.status env) = acts.map status := by
    rw [List.map_map]; congr 1; funext a; exact (hs a).symm
  have e3 : (acts.map toAct).flatMap (Act.storedOf env) = acts.flatMap storedOf := by
    rw [List.flatMap_map]; congr 1; funext a; exact (ht a).symm
  rw [e1, e2, e3] at h
  obtain ⟨h1, h2, h3⟩ := h
  simp only [tailOf, tailItems, emptyLine, ← List.append_assoc] at h1 h2 h3
  refine ⟨?_, ?_, ?_⟩
  · simpa using h1
  · simpa using h2
  · simpa using h3

/-- `storedOf` is non-empty exactly for `created` actions -/
theorem storedOf_ne_nil_iff (env : Env) (a : Act) : a.storedOf env ≠ [] ↔ a.status env = Status.created := by
  cases a with
  | single l => simp [Act.storedOf, Act.status]
  | withDoc x d =>
    by_cases h1 : x.kind = Kind.update
    · simp [Act.storedOf, Act.status, h1]
    · cases hv : env.valid x.idx with
      | false => simp [Act.storedOf, Act.status, h1, hv]
      | true =>
        by_cases h2 : d.len < maxRecordSize
        · have h2' : ¬ maxRecordSize ≤ d.len := by omega
          cases h3 : d.docOk <;> simp [Act.storedOf, Act.status, h1, hv, h2, h2', h3]
        · have h2' : maxRecordSize ≤ d.len := by omega
          simp [Act.storedOf, Act.status, h1, hv, h2, h2']

end SigModel.Lemmas.C15
