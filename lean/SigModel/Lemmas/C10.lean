import SigModel.Model.Wal
namespace SigModel.Lemmas.C10
end SigModel.Lemmas.C10
