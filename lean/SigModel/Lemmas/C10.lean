import SigModel.Model.Wal
/-
Helper lemmas for C10 (write-ahead log framing).  Core Lean only.
-/
namespace SigModel.Lemmas.C10
open SigModel.Wal

/-! ### little-endian readers -/

theorem le32_length (n : Nat) : (le32 n).length = 4 := rfl

theorem rd32_le32 (n : Nat) (r : Bytes) (h : n < 4294967296) :
    rd32 (le32 n ++ r) = some (n, r) := by
  simp only [le32, List.cons_append, List.nil_append, rd32]
  have : n % 256 + 256 * (n / 256 % 256) + 65536 * (n / 65536 % 256)
      + 16777216 * (n / 16777216 % 256) = n := by omega
  rw [this]

theorem rd32_short (bs : Bytes) (h : bs.length < 4) : rd32 bs = none := by
  match bs, h with
  | [], _ => rfl
  | [_], _ => rfl
  | [_, _], _ => rfl
  | [_, _, _], _ => rfl
  | _ :: _ :: _ :: _ :: _, h => simp at h; omega

theorem rd64_le64 (n : Nat) (r : Bytes) (h : n < 18446744073709551616) :
    rd64 (le64 n ++ r) = some (n, r) := by
  unfold rd64 le64
  rw [List.append_assoc, rd32_le32 _ _ (by omega)]
  simp only
  rw [rd32_le32 _ _ (by omega)]
  simp only
  congr 2
  omega

theorem rdMany_flatMap {α : Type} (rd : Bytes → Option (Nat × Bytes)) (g : α → Nat)
    (enc : Nat → Bytes) (ds : List α) (r : Bytes)
    (h : ∀ d ∈ ds, ∀ r, rd (enc (g d) ++ r) = some (g d, r)) :
    rdMany rd ds.length (ds.flatMap (fun d => enc (g d)) ++ r) = some (ds.map g, r) := by
  induction ds with
  | nil => simp [rdMany]
  | cons d ds ih =>
    simp only [List.flatMap_cons, List.length_cons, List.append_assoc, rdMany, List.map_cons]
    rw [h d (by simp)]
    simp only
    rw [ih (fun d' hd' => h d' (by simp [hd']))]

theorem zip3_map (dps : List Dp) :
    ((dps.map Dp.ts).zip ((dps.map Dp.val).zip (dps.map Dp.tsid))).map
      (fun (t, v, i) => ({ ts := t, val := v, tsid := i } : Dp)) = dps := by
  induction dps with
  | nil => rfl
  | cons d ds ih => simp [ih]

theorem decBlock_encBlock (dps : List Dp)
    (h : ∀ d ∈ dps, d.ts < 4294967296 ∧ d.val < 18446744073709551616 ∧ d.tsid < 18446744073709551616)
    (hn : dps.length < 4294967296) :
    decBlock (encBlock dps) = some dps := by
  unfold decBlock encBlock
  rw [List.append_assoc, List.append_assoc, rd32_le32 _ _ hn]
  simp only
  rw [rdMany_flatMap rd32 Dp.ts le32 dps _ (fun d hd r => rd32_le32 _ _ (h d hd).1)]
  simp only
  rw [rdMany_flatMap rd64 Dp.val le64 dps _ (fun d hd r => rd64_le64 _ _ (h d hd).2.1)]
  simp only
  have := rdMany_flatMap rd64 Dp.tsid le64 dps [] (fun d hd r => rd64_le64 _ _ (h d hd).2.2)
  rw [List.append_nil] at this
  rw [this]
  simp only
  rw [zip3_map]

/-! ### frames -/

theorem frame_length (crc : Bytes → Nat) (p : Bytes) : (frame crc p).length = 8 + p.length := by
  simp [frame, le32]; omega

theorem frame_ne_nil (crc : Bytes → Nat) (p : Bytes) (rest : Bytes) : frame crc p ++ rest ≠ [] := by
  simp [frame, le32]

/-- one unfolding of the reader on a nonempty input -/
theorem readBlocks_step (crc : Bytes → Nat) (ok : Bytes → Bool) (fuel : Nat) (bs : Bytes)
    (hne : bs ≠ []) :
    readBlocks crc ok (fuel + 1) bs =
      match rd32 bs with
      | none => ([], .err)
      | some (size, r1) =>
        if size < 4 then ([], .err)
        else match rd32 r1 with
          | none => ([], .err)
          | some (sum, r2) =>
            if r2.length < size - 4 then ([], .err)
            else
              let p := r2.take (size - 4)
              if crc p ≠ sum then ([], .err)
              else if !ok p then ([], .err)
              else
                let (rest, st) := readBlocks crc ok fuel (r2.drop (size - 4))
                (p :: rest, st) := by
  cases bs with
  | nil => exact absurd rfl hne
  | cons b bs =>
    rw [readBlocks]
    · rfl
    · simp

theorem readBlocks_nil (crc : Bytes → Nat) (ok : Bytes → Bool) (fuel : Nat) :
    readBlocks crc ok (fuel + 1) [] = ([], .clean) := by
  rw [readBlocks]

/-- the reader accepts one well-formed frame and continues with one less fuel -/
theorem readBlocks_frame (crc : Bytes → Nat) (ok : Bytes → Bool) (fuel : Nat) (p rest : Bytes)
    (hlen : p.length + 4 < 4294967296) (hcrc : crc p < 4294967296) (hok : ok p = true) :
    readBlocks crc ok (fuel + 1) (frame crc p ++ rest) =
      (p :: (readBlocks crc ok fuel rest).1, (readBlocks crc ok fuel rest).2) := by
  rw [readBlocks_step _ _ _ _ (frame_ne_nil crc p rest)]
  have e : frame crc p ++ rest = le32 (p.length + 4) ++ (le32 (crc p) ++ (p ++ rest)) := by
    simp [frame, List.append_assoc]
  rw [e, rd32_le32 _ _ hlen]
  simp only
  rw [rd32_le32 _ _ hcrc]
  simp only [hok, List.length_append, List.take_left', List.drop_left', ne_eq, not_true_eq_false,
    Bool.not_true, Bool.false_eq_true, if_false, Nat.add_sub_cancel]
  rw [if_neg (by omega), if_neg (by omega)]


/-! ### intact prefix followed by an arbitrary tail -/

theorem readBlocks_frames_append (crc : Bytes → Nat) (ok : Bytes → Bool) (qs : List Bytes)
    (tail : Bytes) (fuel : Nat)
    (hwf : ∀ p ∈ qs, p.length + 4 < 4294967296 ∧ crc p < 4294967296 ∧ (∀ b ∈ p, b < 256))
    (hok : ∀ p ∈ qs, ok p = true) (hf : qs.length < fuel) :
    readBlocks crc ok fuel (qs.flatMap (frame crc) ++ tail) =
      (qs ++ (readBlocks crc ok (fuel - qs.length) tail).1,
        (readBlocks crc ok (fuel - qs.length) tail).2) := by
  induction qs generalizing fuel with
  | nil => simp
  | cons q qs ih =>
    obtain ⟨f, rfl⟩ : ∃ f, fuel = f + 1 := ⟨fuel - 1, by omega⟩
    have hq := hwf q (by simp)
    simp only [List.flatMap_cons, List.append_assoc]
    rw [readBlocks_frame crc ok f q _ hq.1 hq.2.1 (hok q (by simp))]
    rw [ih f (fun p hp => hwf p (by simp [hp])) (fun p hp => hok p (by simp [hp]))
      (by simp at hf; omega)]
    simp

theorem flatMap_frame_length_ge (crc : Bytes → Nat) (ps : List Bytes) :
    ps.length ≤ (ps.flatMap (frame crc)).length := by
  induction ps with
  | nil => simp
  | cons p ps ih =>
    simp only [List.flatMap_cons, List.length_append, List.length_cons, frame_length]
    omega

/-! ### truncation -/

/-- a strict prefix of a frame never yields a block -/
theorem readBlocks_frame_take (crc : Bytes → Nat) (ok : Bytes → Bool) (fuel : Nat) (p : Bytes)
    (k : Nat) (hlen : p.length + 4 < 4294967296) (hcrc : crc p < 4294967296)
    (hk : k < 8 + p.length) :
    ∃ st, readBlocks crc ok (fuel + 1) ((frame crc p).take k) = ([], st) := by
  have e : frame crc p = le32 (p.length + 4) ++ (le32 (crc p) ++ p) := by
    simp [frame, List.append_assoc]
  by_cases h0 : k = 0
  · subst h0
    exact ⟨.clean, by simp [readBlocks_nil]⟩
  have hne : (frame crc p).take k ≠ [] := by
    intro h
    have := congrArg List.length h
    simp [frame_length] at this
    omega
  refine ⟨.err, ?_⟩
  rw [readBlocks_step _ _ _ _ hne]
  by_cases h4 : k < 4
  · rw [rd32_short _ (by simp; omega)]
  · rw [e, List.take_append, List.take_of_length_le (by simp [le32_length]; omega), le32_length,
      rd32_le32 _ _ hlen]
    simp only
    rw [if_neg (by omega)]
    by_cases h8 : k < 8
    · rw [rd32_short _ (by simp; omega)]
    · rw [List.take_append, List.take_of_length_le (by simp [le32_length]; omega), le32_length,
        rd32_le32 _ _ hcrc]
      simp only
      rw [if_pos (by simp; omega)]


/-- frames completely inside the first `k` bytes (same recursion as `Props.C10.completeWithin`) -/
def cw : List Bytes → Nat → Nat
  | [], _ => 0
  | p :: ps, k => if 8 + p.length ≤ k then 1 + cw ps (k - (8 + p.length)) else 0

theorem readBlocks_take (crc : Bytes → Nat) (ok : Bytes → Bool) (ps : List Bytes) (k fuel : Nat)
    (hwf : ∀ p ∈ ps, p.length + 4 < 4294967296 ∧ crc p < 4294967296 ∧ (∀ b ∈ p, b < 256))
    (hok : ∀ p ∈ ps, ok p = true)
    (hf : ((ps.flatMap (frame crc)).take k).length < fuel) :
    ∃ st, readBlocks crc ok fuel ((ps.flatMap (frame crc)).take k) = (ps.take (cw ps k), st) := by
  induction ps generalizing k fuel with
  | nil =>
    obtain ⟨f, rfl⟩ : ∃ f, fuel = f + 1 := ⟨fuel - 1, by omega⟩
    exact ⟨.clean, by simp [readBlocks_nil]⟩
  | cons p ps ih =>
    obtain ⟨f, rfl⟩ : ∃ f, fuel = f + 1 := ⟨fuel - 1, by omega⟩
    have hp := hwf p (by simp)
    simp only [List.flatMap_cons, cw] at hf ⊢
    by_cases hk : 8 + p.length ≤ k
    · rw [if_pos hk]
      have e : (frame crc p ++ ps.flatMap (frame crc)).take k
          = frame crc p ++ (ps.flatMap (frame crc)).take (k - (8 + p.length)) := by
        rw [List.take_append, List.take_of_length_le (by rw [frame_length]; exact hk), frame_length]
      rw [e] at hf ⊢
      rw [readBlocks_frame crc ok f p _ hp.1 hp.2.1 (hok p (by simp))]
      obtain ⟨st, hst⟩ := ih (k - (8 + p.length)) f (fun q hq => hwf q (by simp [hq]))
        (fun q hq => hok q (by simp [hq]))
        (by simp only [List.length_append, frame_length] at hf; omega)
      refine ⟨st, ?_⟩
      rw [hst, Nat.add_comm 1, List.take_succ_cons]
    · rw [if_neg hk]
      have e : (frame crc p ++ ps.flatMap (frame crc)).take k = (frame crc p).take k := by
        rw [List.take_append_of_le_length (by rw [frame_length]; omega)]
      rw [e]
      simpa using readBlocks_frame_take crc ok f p k hp.1 hp.2.1 (by omega)

/-! ### crash at a write boundary -/

theorem readBlocks_writes_take (crc : Bytes → Nat) (ok : Bytes → Bool) (ps : List Bytes)
    (j fuel : Nat)
    (hwf : ∀ p ∈ ps, p.length + 4 < 4294967296 ∧ crc p < 4294967296 ∧ (∀ b ∈ p, b < 256))
    (hok : ∀ p ∈ ps, ok p = true) (hne : ∀ p ∈ ps, p ≠ [])
    (hf : ((ps.flatMap (frameWrites crc)).take j).flatten.length < fuel) :
    ∃ st, readBlocks crc ok fuel ((ps.flatMap (frameWrites crc)).take j).flatten
      = (ps.take (j / 3), st) := by
  induction ps generalizing j fuel with
  | nil =>
    obtain ⟨f, rfl⟩ : ∃ f, fuel = f + 1 := ⟨fuel - 1, by omega⟩
    exact ⟨.clean, by simp [readBlocks_nil]⟩
  | cons p ps ih =>
    obtain ⟨f, rfl⟩ : ∃ f, fuel = f + 1 := ⟨fuel - 1, by omega⟩
    have hp := hwf p (by simp)
    have hpne : 0 < p.length := List.length_pos_iff.mpr (hne p (by simp))
    have e : (p :: ps).flatMap (frameWrites crc)
        = le32 (p.length + 4) :: le32 (crc p) :: p :: ps.flatMap (frameWrites crc) := by
      simp [frameWrites]
    rw [e] at hf ⊢
    match j, hf with
    | 0, _ => exact ⟨.clean, by simp [readBlocks_nil]⟩
    | 1, _ =>
      have e1 : ([le32 (p.length + 4)] : List Bytes).flatten = (frame crc p).take 4 := by
        simp [frame, le32]
      simp only [List.take_succ_cons, List.take_zero]
      rw [e1]
      simpa using readBlocks_frame_take crc ok f p 4 hp.1 hp.2.1 (by omega)
    | 2, _ =>
      have e2 : ([le32 (p.length + 4), le32 (crc p)] : List Bytes).flatten
          = (frame crc p).take 8 := by
        simp [frame, le32]
      simp only [List.take_succ_cons, List.take_zero]
      rw [e2]
      simpa using readBlocks_frame_take crc ok f p 8 hp.1 hp.2.1 (by omega)
    | j + 3, hf =>
      have e3 : ((le32 (p.length + 4) :: le32 (crc p) :: p ::
            ps.flatMap (frameWrites crc)).take (j + 3)).flatten
          = frame crc p ++ ((ps.flatMap (frameWrites crc)).take j).flatten := by
        simp [frame, List.take_succ_cons, List.append_assoc]
      rw [e3] at hf ⊢
      rw [readBlocks_frame crc ok f p _ hp.1 hp.2.1 (hok p (by simp))]
      obtain ⟨st, hst⟩ := ih j f (fun q hq => hwf q (by simp [hq]))
        (fun q hq => hok q (by simp [hq])) (fun q hq => hne q (by simp [hq]))
        (by simp only [List.length_append, frame_length] at hf; omega)
      refine ⟨st, ?_⟩
      have : (j + 3) / 3 = j / 3 + 1 := by omega
      rw [hst, this, List.take_succ_cons]

/-! ### corruption -/

/-- the reader's size and checksum tests on the bytes at the head of `bs` -/
def acceptsHead (crc : Bytes → Nat) (bs : Bytes) : Bool :=
  match rd32 bs with
  | none => false
  | some (size, r1) =>
    decide (4 ≤ size) &&
    match rd32 r1 with
    | none => false
    | some (sum, r2) => decide (size - 4 ≤ r2.length) && decide (crc (r2.take (size - 4)) = sum)

theorem readBlocks_reject (crc : Bytes → Nat) (ok : Bytes → Bool) (fuel : Nat) (bs : Bytes)
    (hne : bs ≠ []) (hacc : acceptsHead crc bs = false) :
    readBlocks crc ok fuel bs = ([], .err) := by
  cases fuel with
  | zero => rw [readBlocks]
  | succ f =>
    rw [readBlocks_step _ _ _ _ hne]
    unfold acceptsHead at hacc
    cases h1 : rd32 bs with
    | none => rfl
    | some x =>
      obtain ⟨size, r1⟩ := x
      rw [h1] at hacc
      simp only at hacc ⊢
      by_cases hs : size < 4
      · rw [if_pos hs]
      · rw [if_neg hs]
        cases h2 : rd32 r1 with
        | none => rfl
        | some y =>
          obtain ⟨sum, r2⟩ := y
          rw [h2] at hacc
          simp only at hacc ⊢
          by_cases hl : r2.length < size - 4
          · rw [if_pos hl]
          · rw [if_neg hl]
            have hc : crc (r2.take (size - 4)) ≠ sum := by
              intro hc
              simp [hc] at hacc
              omega
            simp [hc]


/-! ### whole-file statements -/

theorem readFile_cons (crc : Bytes → Nat) (ok : Bytes → Bool) (r : Bytes) :
    readFile crc ok (walVersion :: r) = some (readBlocks crc ok (r.length + 1) r) := by
  simp [readFile]

theorem readFile_file (crc : Bytes → Nat) (ok : Bytes → Bool) (ps : List Bytes)
    (hwf : ∀ p ∈ ps, p.length + 4 < 4294967296 ∧ crc p < 4294967296 ∧ (∀ b ∈ p, b < 256))
    (hok : ∀ p ∈ ps, ok p = true) :
    readFile crc ok (file crc ps) = some (ps, St.clean) := by
  unfold file
  rw [readFile_cons]
  have h := readBlocks_frames_append crc ok ps [] ((ps.flatMap (frame crc)).length + 1) hwf hok
    (by have := flatMap_frame_length_ge crc ps; omega)
  rw [List.append_nil] at h
  rw [h]
  obtain ⟨f, hf⟩ : ∃ f, (ps.flatMap (frame crc)).length + 1 - ps.length = f + 1 :=
    ⟨(ps.flatMap (frame crc)).length - ps.length, by
      have := flatMap_frame_length_ge crc ps; omega⟩
  rw [hf, readBlocks_nil]
  simp

theorem file_take (crc : Bytes → Nat) (ps : List Bytes) (k : Nat) (hk : 1 ≤ k) :
    (file crc ps).take k = walVersion :: (ps.flatMap (frame crc)).take (k - 1) := by
  obtain ⟨k', rfl⟩ : ∃ k', k = k' + 1 := ⟨k - 1, by omega⟩
  simp [file]

theorem readFile_truncate (crc : Bytes → Nat) (ok : Bytes → Bool) (ps : List Bytes) (k : Nat)
    (hwf : ∀ p ∈ ps, p.length + 4 < 4294967296 ∧ crc p < 4294967296 ∧ (∀ b ∈ p, b < 256))
    (hok : ∀ p ∈ ps, ok p = true) (hk : 1 ≤ k) :
    ∃ st, readFile crc ok ((file crc ps).take k) = some (ps.take (cw ps (k - 1)), st) := by
  rw [file_take crc ps k hk, readFile_cons]
  obtain ⟨st, hst⟩ := readBlocks_take crc ok ps (k - 1) _ hwf hok (Nat.lt_succ_self _)
  exact ⟨st, by rw [hst]⟩

theorem writes_take_flatten (crc : Bytes → Nat) (ps : List Bytes) (n : Nat) (hn : 1 ≤ n) :
    ((writes crc ps).take n).flatten
      = walVersion :: ((ps.flatMap (frameWrites crc)).take (n - 1)).flatten := by
  obtain ⟨n', rfl⟩ : ∃ n', n = n' + 1 := ⟨n - 1, by omega⟩
  simp [writes]

theorem readFile_crash (crc : Bytes → Nat) (ok : Bytes → Bool) (ps : List Bytes) (n : Nat)
    (hwf : ∀ p ∈ ps, p.length + 4 < 4294967296 ∧ crc p < 4294967296 ∧ (∀ b ∈ p, b < 256))
    (hok : ∀ p ∈ ps, ok p = true) (hne : ∀ p ∈ ps, p ≠ []) (hn : 1 ≤ n) :
    ∃ st, readFile crc ok ((writes crc ps).take n).flatten
      = some (ps.take ((n - 1) / 3), st) := by
  rw [writes_take_flatten crc ps n hn, readFile_cons]
  obtain ⟨st, hst⟩ := readBlocks_writes_take crc ok ps (n - 1) _ hwf hok hne (Nat.lt_succ_self _)
  exact ⟨st, by rw [hst]⟩

/-- byte offset in the file at which frame `m` starts (same term as `Props.C10.frameStart`) -/
def fstart (ps : List Bytes) (m : Nat) : Nat := 1 + ((ps.take m).map (fun p => 8 + p.length)).sum

theorem flatMap_frame_length (crc : Bytes → Nat) (ps : List Bytes) :
    (ps.flatMap (frame crc)).length = (ps.map (fun p => 8 + p.length)).sum := by
  induction ps with
  | nil => simp
  | cons p ps ih => simp [frame_length, ih]

theorem readFile_corrupt (crc : Bytes → Nat) (ok : Bytes → Bool) (ps : List Bytes) (m i b : Nat)
    (hwf : ∀ p ∈ ps, p.length + 4 < 4294967296 ∧ crc p < 4294967296 ∧ (∀ b ∈ p, b < 256))
    (hok : ∀ p ∈ ps, ok p = true) (hm : m < ps.length) (hi : fstart ps m ≤ i)
    (hacc : acceptsHead crc (((file crc ps).set i b).drop (fstart ps m)) = false) :
    readFile crc ok ((file crc ps).set i b) = some (ps.take m, St.err) := by
  have hA : fstart ps m = ((ps.take m).flatMap (frame crc)).length + 1 := by
    rw [flatMap_frame_length, fstart, Nat.add_comm]
  have hB : 0 < ((ps.drop m).flatMap (frame crc)).length := by
    have := flatMap_frame_length_ge crc (ps.drop m)
    have : 0 < (ps.drop m).length := by simp; omega
    omega
  have hsplit : file crc ps
      = walVersion :: ((ps.take m).flatMap (frame crc) ++ (ps.drop m).flatMap (frame crc)) := by
    rw [← List.flatMap_append, List.take_append_drop, file]
  rw [hA] at hi hacc
  obtain ⟨i', rfl⟩ : ∃ i', i = i' + 1 := ⟨i - 1, by omega⟩
  have hset : (file crc ps).set (i' + 1) b = walVersion :: ((ps.take m).flatMap (frame crc) ++
      ((ps.drop m).flatMap (frame crc)).set (i' - ((ps.take m).flatMap (frame crc)).length) b) := by
    rw [hsplit, List.set_cons_succ, List.set_append_right _ _ (by omega)]
  rw [hset] at hacc ⊢
  rw [List.drop_succ_cons, List.drop_left] at hacc
  rw [readFile_cons]
  rw [readBlocks_frames_append crc ok (ps.take m) _ _
    (fun p hp => hwf p (List.mem_of_mem_take hp)) (fun p hp => hok p (List.mem_of_mem_take hp))
    (by have := flatMap_frame_length_ge crc (ps.take m)
        simp only [List.length_append]; omega)]
  rw [readBlocks_reject crc ok _ _ (by
    intro h
    have := congrArg List.length h
    simp only [List.length_set, List.length_nil] at this
    omega) hacc]
  simp


/-! ### crash at a write boundary, payloads possibly empty -/

theorem readBlocks_writes_take_any (crc : Bytes → Nat) (ok : Bytes → Bool) (ps : List Bytes)
    (j fuel : Nat)
    (hwf : ∀ p ∈ ps, p.length + 4 < 4294967296 ∧ crc p < 4294967296 ∧ (∀ b ∈ p, b < 256))
    (hok : ∀ p ∈ ps, ok p = true)
    (hf : ((ps.flatMap (frameWrites crc)).take j).flatten.length < fuel) :
    ∃ c st, readBlocks crc ok fuel ((ps.flatMap (frameWrites crc)).take j).flatten
      = (ps.take c, st) ∧ j / 3 ≤ c ∧ c ≤ j / 3 + 1 := by
  induction ps generalizing j fuel with
  | nil =>
    obtain ⟨f, rfl⟩ : ∃ f, fuel = f + 1 := ⟨fuel - 1, by omega⟩
    exact ⟨j / 3, .clean, by simp [readBlocks_nil], Nat.le_refl _, Nat.le_succ _⟩
  | cons p ps ih =>
    obtain ⟨f, rfl⟩ : ∃ f, fuel = f + 1 := ⟨fuel - 1, by omega⟩
    have hp := hwf p (by simp)
    have e : (p :: ps).flatMap (frameWrites crc)
        = le32 (p.length + 4) :: le32 (crc p) :: p :: ps.flatMap (frameWrites crc) := by
      simp [frameWrites]
    rw [e] at hf ⊢
    match j, hf with
    | 0, _ => exact ⟨0, .clean, by simp [readBlocks_nil]⟩
    | 1, _ =>
      have e1 : ([le32 (p.length + 4)] : List Bytes).flatten = (frame crc p).take 4 := by
        simp [frame, le32]
      simp only [List.take_succ_cons, List.take_zero]
      rw [e1]
      obtain ⟨st, hst⟩ := readBlocks_frame_take crc ok f p 4 hp.1 hp.2.1 (by omega)
      exact ⟨0, st, by simpa using hst, by omega, by omega⟩
    | 2, hf =>
      simp only [List.take_succ_cons, List.take_zero] at hf ⊢
      by_cases hpe : p = []
      · subst hpe
        have e2 : ([le32 (([] : Bytes).length + 4), le32 (crc [])] : List Bytes).flatten
            = frame crc [] ++ [] := by
          simp [frame, le32]
        rw [e2] at hf ⊢
        rw [readBlocks_frame crc ok f [] _ hp.1 hp.2.1 (hok [] (by simp))]
        obtain ⟨f', rfl⟩ : ∃ f', f = f' + 1 :=
          ⟨f - 1, by simp only [List.length_append, frame_length] at hf; omega⟩
        exact ⟨1, .clean, by simp [readBlocks_nil], by omega, by omega⟩
      · have hpne : 0 < p.length := List.length_pos_iff.mpr hpe
        have e2 : ([le32 (p.length + 4), le32 (crc p)] : List Bytes).flatten
            = (frame crc p).take 8 := by
          simp [frame, le32]
        rw [e2]
        obtain ⟨st, hst⟩ := readBlocks_frame_take crc ok f p 8 hp.1 hp.2.1 (by omega)
        exact ⟨0, st, by simpa using hst, by omega, by omega⟩
    | j + 3, hf =>
      have e3 : ((le32 (p.length + 4) :: le32 (crc p) :: p ::
            ps.flatMap (frameWrites crc)).take (j + 3)).flatten
          = frame crc p ++ ((ps.flatMap (frameWrites crc)).take j).flatten := by
        simp [frame, List.take_succ_cons, List.append_assoc]
      rw [e3] at hf ⊢
      rw [readBlocks_frame crc ok f p _ hp.1 hp.2.1 (hok p (by simp))]
      obtain ⟨c, st, hst, h1, h2⟩ := ih j f (fun q hq => hwf q (by simp [hq]))
        (fun q hq => hok q (by simp [hq]))
        (by simp only [List.length_append, frame_length] at hf; omega)
      refine ⟨c + 1, st, ?_, by omega, by omega⟩
      rw [hst, List.take_succ_cons]

theorem readFile_crash_any (crc : Bytes → Nat) (ok : Bytes → Bool) (ps : List Bytes) (n : Nat)
    (hwf : ∀ p ∈ ps, p.length + 4 < 4294967296 ∧ crc p < 4294967296 ∧ (∀ b ∈ p, b < 256))
    (hok : ∀ p ∈ ps, ok p = true) (hn : 1 ≤ n) :
    ∃ c st, readFile crc ok ((writes crc ps).take n).flatten = some (ps.take c, st)
      ∧ (n - 1) / 3 ≤ c ∧ c ≤ (n - 1) / 3 + 1 := by
  rw [writes_take_flatten crc ps n hn, readFile_cons]
  obtain ⟨c, st, hst, h1, h2⟩ :=
    readBlocks_writes_take_any crc ok ps (n - 1) _ hwf hok (Nat.lt_succ_self _)
  exact ⟨c, st, by rw [hst], h1, h2⟩

end SigModel.Lemmas.C10
