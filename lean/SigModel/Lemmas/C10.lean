import SigModel.Model.Wal
/-
Helper lemmas for C10 (write-ahead log framing).  Core Lean only.
-/
namespace SigModel.Lemmas.C10
open SigModel.Wal

/-! ### little-endian readers -/

theorem le32_length (n : Nat) : (le32 n).length = 4 := rfl

theorem rd32_le32 (n : Nat) (r : Bytes) (h : n < 4294967296) :
    rd32 (le32 n ++ r) = some (n, r) := by
  simp only [le32, List.cons_append, List.nil_append, rd32]
  have : n % 256 + 256 * (n / 256 % 256) + 65536 * (n / 65536 % 256)
      + 16777216 * (n / 16777216 % 256) = n := by omega
  rw [this]

theorem rd32_short (bs : Bytes) (h : bs.length < 4) : rd32 bs = none := by
  match bs, h with
  | [], _ => rfl
  | [_], _ => rfl
  | [_, _], _ => rfl
  | [_, _, _], _ => rfl
  | _ :: _ :: _ :: _ :: _, h => simp at h; omega

theorem rd64_le64 (n : Nat) (r : Bytes) (h : n < 18446744073709551616) :
    rd64 (le64 n ++ r) = some (n, r) := by
  unfold rd64 le64
  rw [List.append_assoc, rd32_le32 _ _ (by omega)]
  simp only
  rw [rd32_le32 _ _ (by omega)]
  simp only
  congr 2
  omega

theorem rdMany_flatMap {α : Type} (rd : Bytes → Option (Nat × Bytes)) (g : α → Nat)
    (enc : Nat → Bytes) (ds : List α) (r : Bytes)
    (h : ∀ d ∈ ds, ∀ r, rd (enc (g d) ++ r) = some (g d, r)) :
    rdMany rd ds.length (ds.flatMap (fun d => enc (g d)) ++ r) = some (ds.map g, r) := by
  induction ds with
  | nil => simp [rdMany]
  | cons d ds ih =>
    simp only [List.flatMap_cons, List.length_cons, List.append_assoc, rdMany, List.map_cons]
    rw [h d (by simp)]
    simp only
    rw [ih (fun d' hd' => h d' (by simp [hd']))]

theorem zip3_map (dps : List Dp) :
    ((dps.map Dp.ts).zip ((dps.map Dp.val).zip (dps.map Dp.tsid))).map
      (fun (t, v, i) => ({ ts := t, val := v, tsid := i } : Dp)) = dps := by
  induction dps with
  | nil => rfl
  | cons d ds ih => simp [ih]

theorem decBlock_encBlock (dps : List Dp)
    (h : ∀ d ∈ dps, d.ts < 4294967296 ∧ d.val < 18446744073709551616 ∧ d.tsid < 18446744073709551616)
    (hn : dps.length < 4294967296) :
    decBlock (encBlock dps) = some dps := by
  unfold decBlock encBlock
  rw [List.append_assoc, List.append_assoc, rd32_le32 _ _ hn]
  simp only
  rw [rdMany_flatMap rd32 Dp.ts le32 dps _ (fun d hd r => rd32_le32 _ _ (h d hd).1)]
  simp only
  rw [rdMany_flatMap rd64 Dp.val le64 dps _ (fun d hd r => rd64_le64 _ _ (h d hd).2.1)]
  simp only
  have := rdMany_flatMap rd64 Dp.tsid le64 dps [] (fun d hd r => rd64_le64 _ _ (h d hd).2.2)
  rw [List.append_nil] at this
  rw [this]
  simp only
  rw [zip3_map]

/-! ### frames -/

theorem frame_length (crc : Bytes → Nat) (p : Bytes) : (frame crc p).length = 8 + p.length := by
  simp [frame, le32]; omega

theorem frame_ne_nil (crc : Bytes → Nat) (p : Bytes) (rest : Bytes) : frame crc p ++ rest ≠ [] := by
  simp [frame, le32]

/-- one unfolding of the reader on a nonempty input -/
theorem readBlocks_step (crc : Bytes → Nat) (ok : Bytes → Bool) (fuel : Nat) (bs : Bytes)
    (hne : bs ≠ []) :
    readBlocks crc ok (fuel + 1) bs =
      match rd32 bs with
      | none => ([], .err)
      | some (size, r1) =>
        if size < 4 then ([], .err)
        else match rd32 r1 with
          | none => ([], .err)
          | some (sum, r2) =>
            if r2.length < size - 4 then ([], .err)
            else
              let p := r2.take (size - 4)
              if crc p ≠ sum then ([], .err)
              else if !ok p then ([], .err)
              else
                let (rest, st) := readBlocks crc ok fuel (r2.drop (size - 4))
                (p :: rest, st) := by
  cases bs with
  | nil => exact absurd rfl hne
  | cons b bs =>
    rw [readBlocks]
    · rfl
    · simp

theorem readBlocks_nil (crc : Bytes → Nat) (ok : Bytes → Bool) (fuel : Nat) :
    readBlocks crc ok (fuel + 1) [] = ([], .clean) := by
  rw [readBlocks]

/-- the reader accepts one well-formed frame and continues with one less fuel -/
theorem readBlocks_frame (crc : Bytes → Nat) (ok : Bytes → Bool) (fuel : Nat) (p rest : Bytes)
    (hlen : p.length + 4 < 4294967296) (hcrc : crc p < 4294967296) (hok : ok p = true) :
    readBlocks crc ok (fuel + 1) (frame crc p ++ rest) =
      (p :: (readBlocks crc ok fuel rest).1, (readBlocks crc ok fuel rest).2) := by
  rw [readBlocks_step _ _ _ _ (frame_ne_nil crc p rest)]
  have e : frame crc p ++ rest = le32 (p.length + 4) ++ (le32 (crc p) ++ (p ++ rest)) := by
    simp [frame, List.append_assoc]
  rw [e, rd32_le32 _ _ hlen]
  simp only
  rw [rd32_le32 _ _ hcrc]
  simp only [hok, List.length_append, List.take_left', List.drop_left', ne_eq, not_true_eq_false,
    Bool.not_true, Bool.false_eq_true, if_false, Nat.add_sub_cancel]
  rw [if_neg (by omega), if_neg (by omega)]


/-! ### intact prefix followed by an arbitrary tail -/

theorem readBlocks_frames_append (crc : Bytes → Nat) (ok : Bytes → Bool) (qs : List Bytes)
    (tail : Bytes) (fuel : Nat)
    (hwf : ∀ p ∈ qs, p.length + 4 < 4294967296 ∧ crc p < 4294967296 ∧ (∀ b ∈ p, b < 256))
    (hok : ∀ p ∈ qs, ok p = true) (hf : qs.length < fuel) :
    readBlocks crc ok fuel (qs.flatMap (frame crc) ++ tail) =
      (qs ++ (readBlocks crc ok (fuel - qs.length) tail).1,
        (readBlocks crc ok (fuel - qs.length) tail).2) := by
  induction qs generalizing fuel with
  | nil => simp
  | cons q qs ih =>
    obtain ⟨f, rfl⟩ : ∃ f, fuel = f + 1 := ⟨fuel - 1, by omega⟩
    have hq := hwf q (by simp)
    simp only [List.flatMap_cons, List.append_assoc]
    rw [readBlocks_frame crc ok f q _ hq.1 hq.2.1 (hok q (by simp))]
    rw [ih f (fun p hp => hwf p (by simp [hp])) (fun p hp => hok p (by simp [hp]))
      (by simp at hf; omega)]
    simp

theorem flatMap_frame_length_ge (crc : Bytes → Nat) (ps : List Bytes) :
    ps.length ≤ (ps.flatMap (frame crc)).length := by
  induction ps with
  | nil => simp
  | cons p ps ih =>
    simp only [List.flatMap_cons, List.length_append, List.length_cons, frame_length]
    omega

/-! ### truncation -/

/-- a strict prefix of a frame never yields a block -/
theorem readBlocks_frame_take (crc : Bytes → Nat) (ok : Bytes → Bool) (fuel : Nat) (p : Bytes)
    (k : Nat) (hlen : p.length + 4 < 4294967296) (hcrc : crc p < 4294967296)
    (hk : k < 8 + p.length) :
    ∃ st, readBlocks crc ok (fuel + 1) ((frame crc p).take k) = ([], st) := by
  have e : frame crc p = le32 (p.length + 4) ++ (le32 (crc p) ++ p) := by
    simp [frame, List.append_assoc]
  by_cases h0 : k = 0
  · subst h0
    exact ⟨.clean, by simp [readBlocks_nil]⟩
  have hne : (frame crc p).take k ≠ [] := by
    intro h
    have := congrArg List.length h
    simp [frame_length] at this
    omega
  refine ⟨.err, ?_⟩
  rw [readBlocks_step _ _ _ _ hne]
  by_cases h4 : k < 4
  · rw [rd32_short _ (by simp; omega)]
  · rw [e, List.take_append, List.take_of_length_le (by simp [le32_length]; omega), le32_length,
      rd32_le32 _ _ hlen]
    simp only
    rw [if_neg (by omega)]
    by_cases h8 : k < 8
    · rw [rd32_short _ (by simp; omega)]
    · rw [List.take_append, List.take_of_length_le (by simp [le32_length]; omega), le32_length,
        rd32_le32 _ _ hcrc]
      simp only
      rw [if_pos (by simp; omega)]

end SigModel.Lemmas.C10
