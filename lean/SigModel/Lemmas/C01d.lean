/-
C01 lemmas, part d: the timestamp column, and the filling of one column (back-fill of absent / late values,
the per-segment record size).  Core Lean only.
-/
import SigModel.Model.Tlv
import SigModel.Lemmas.C01
import SigModel.Lemmas.C01b

namespace SigModel.Lemmas.C01
open SigModel.Tlv

/-! ### timestamps -/

theorem u64_eq : u64 = 256 ^ 8 := by decide

theorem sub_mod_u64 (ts low : Nat) (h1 : low ≤ ts) (h2 : ts < u64) : (ts + u64 - low) % u64 = ts - low := by
  have : ts + u64 - low = (ts - low) + u64 := by omega
  rw [this, Nat.add_mod_right, Nat.mod_eq_of_lt (by omega)]

theorem tsWidth_tsType (low high : Nat) (h : low ≤ high) (hh : high < u64) :
    ∃ w, tsWidth (tsType low high) = some w ∧ 0 < w ∧ high - low < 256 ^ w := by
  unfold tsType
  rw [sub_mod_u64 high low h hh]
  simp only
  by_cases h1 : high - low ≤ 255
  · exact ⟨1, by rw [if_pos h1]; decide, by decide, by omega⟩
  · rw [if_neg h1]
    by_cases h2 : high - low ≤ 65535
    · exact ⟨2, by rw [if_pos h2]; decide, by decide, by omega⟩
    · rw [if_neg h2]
      by_cases h3 : high - low ≤ 4294967295
      · exact ⟨4, by rw [if_pos h3]; decide, by decide, by omega⟩
      · rw [if_neg h3]
        refine ⟨8, by decide, by decide, ?_⟩
        have : u64 = 256 ^ 8 := u64_eq
        omega

theorem flatMap_length_const {α : Type} (f : α → Bytes) (w : Nat) (l : List α) (h : ∀ a, (f a).length = w) :
    (l.flatMap f).length = l.length * w := by
  induction l with
  | nil => simp
  | cons a l ih => simp [List.flatMap_cons, ih, h, Nat.add_mul]; omega

theorem rdMany_enc (w low : Nat) (tss : List Nat) (rest : Bytes)
    (h : ∀ t ∈ tss, low ≤ t ∧ t < u64 ∧ t - low < 256 ^ w) :
    rdMany w low tss.length (tss.flatMap (fun ts => leN w ((ts + u64 - low) % u64)) ++ rest) = tss := by
  induction tss with
  | nil => rfl
  | cons t tss ih =>
    obtain ⟨h1, h2, h3⟩ := h t (by simp)
    have h' : ∀ x ∈ tss, low ≤ x ∧ x < u64 ∧ x - low < 256 ^ w := fun x hx => h x (by simp [hx])
    simp only [List.flatMap_cons, List.append_assoc, List.length_cons, rdMany]
    rw [sub_mod_u64 t low h1 h2, rdN_leN w _ _ h3]
    simp only
    rw [ih h']
    have : (t - low + low) % u64 = t := by
      rw [Nat.sub_add_cancel h1, Nat.mod_eq_of_lt h2]
    rw [this]

/-- C01.5 core -/
theorem decTs_tsBlock (low high : Nat) (tss : List Nat) (hlh : low ≤ high) (hh : high < u64)
    (hn : tss.length < 65536) (hb : ∀ t ∈ tss, low ≤ t ∧ t ≤ high) :
    decTs (tsBlock low high tss) tss.length = .ok tss := by
  obtain ⟨w, hw, hpos, hd⟩ := tsWidth_tsType low high hlh hh
  have hbody : (tss.flatMap (fun ts => leN w ((ts + u64 - low) % u64))).length = tss.length * w :=
    flatMap_length_const _ w tss (fun a => leN_length w _)
  have hlow : low < 256 ^ 8 := by rw [← u64_eq]; omega
  unfold decTs tsBlock encTs
  simp only [hw, Option.getD_some]
  rw [if_neg (by simp [leN_length])]
  rw [if_neg (by simp), rdN_leN 8 low _ hlow]
  simp only
  rw [hbody, Nat.mul_div_cancel _ hpos, Nat.mod_eq_of_lt hn, Nat.min_self, if_neg (by simp)]
  have := rdMany_enc w low tss [] (fun t ht => by
    obtain ⟨a, b⟩ := hb t ht
    exact ⟨a, by omega, by omega⟩)
  simp only [List.append_nil] at this
  rw [this]

theorem adjust_pos (lo hi t : Nat) (h1 : 0 < lo) (h2 : 0 < hi) :
    adjustLowHigh (lo, hi) t = (if t < lo then t else lo, if t > hi then t else hi) := by
  unfold adjustLowHigh
  simp only
  have a : ¬ lo = 0 := by omega
  have b : ¬ hi = 0 := by omega
  rw [if_neg a, if_neg b]

theorem fold_adjust (tss : List Nat) (hpos : ∀ t ∈ tss, 0 < t) :
    ∀ lo hi, 0 < lo → lo ≤ hi →
      let r := tss.foldl adjustLowHigh (lo, hi)
      0 < r.1 ∧ r.1 ≤ lo ∧ hi ≤ r.2 ∧ (∀ t ∈ tss, r.1 ≤ t ∧ t ≤ r.2) ∧
        (∀ B, hi < B → (∀ t ∈ tss, t < B) → r.2 < B) := by
  induction tss with
  | nil => intro lo hi h1 h2; simp; omega
  | cons t tss ih =>
    intro lo hi h1 h2
    have ht : 0 < t := hpos t (by simp)
    have hpos' : ∀ x ∈ tss, 0 < x := fun x hx => hpos x (by simp [hx])
    simp only [List.foldl_cons]
    rw [adjust_pos lo hi t h1 (by omega)]
    have hlo' : 0 < (if t < lo then t else lo) := by split <;> omega
    have hle' : (if t < lo then t else lo) ≤ (if t > hi then t else hi) := by split <;> split <;> omega
    obtain ⟨a, b, c, d, e⟩ := ih hpos' _ _ hlo' hle'
    have hb1 : (if t < lo then t else lo) ≤ lo := by split <;> omega
    have hb2 : (if t < lo then t else lo) ≤ t := by split <;> omega
    have hc1 : hi ≤ (if t > hi then t else hi) := by split <;> omega
    have hc2 : t ≤ (if t > hi then t else hi) := by split <;> omega
    refine ⟨a, by omega, by omega, ?_, ?_⟩
    · intro x hx
      simp at hx
      rcases hx with rfl | hx
      · omega
      · exact d x hx
    · intro B hB hall
      apply e B
      · have := hall t (by simp)
        split <;> omega
      · intro x hx; exact hall x (by simp [hx])

/-- the block summary bounds the block's timestamps (all timestamps positive: `GetNewPLE` replaces 0 by "now") -/
theorem blockLowHigh_bounds (tss : List Nat) (hne : tss ≠ []) (hpos : ∀ t ∈ tss, 0 < t) (B : Nat) (hB : ∀ t ∈ tss, t < B) :
    0 < (blockLowHigh tss).1 ∧ (blockLowHigh tss).1 ≤ (blockLowHigh tss).2 ∧ (blockLowHigh tss).2 < B ∧
      ∀ t ∈ tss, (blockLowHigh tss).1 ≤ t ∧ t ≤ (blockLowHigh tss).2 := by
  cases tss with
  | nil => exact absurd rfl hne
  | cons t tss =>
    have ht : 0 < t := hpos t (by simp)
    have hstart : adjustLowHigh (0, 0) t = (t, t) := by simp [adjustLowHigh]
    unfold blockLowHigh
    simp only [List.foldl_cons, hstart]
    obtain ⟨a, b, c, d, e⟩ := fold_adjust tss (fun x hx => hpos x (by simp [hx])) t t ht (Nat.le_refl t)
    refine ⟨a, by omega, e B (hB t (by simp)) (fun x hx => hB x (by simp [hx])), ?_⟩
    intro x hx
    simp at hx
    rcases hx with rfl | hx
    · omega
    · exact d x hx

/-! ### filling one column -/

def getB (v : Option Val) : Val := v.getD .backfill

theorem encCol_all_none (pre : List (Option Val)) (h : ∀ v ∈ pre, v = none) :
    encCol (pre.map getB) = List.replicate pre.length tBackfill := by
  induction pre with
  | nil => rfl
  | cons v pre ih =>
    have hv : v = none := h v (by simp)
    subst hv
    rw [List.map_cons, encCol_cons, ih (fun x hx => h x (by simp [hx]))]
    simp [getB, encTLV, List.replicate_succ]

/-- state of the column after the events `pre` -/
structure FillInv (st : ColSt) (pre : List (Option Val)) : Prop where
  unseen : st.seen = false → st.buf = [] ∧ st.sizes = [] ∧ ∀ v ∈ pre, v = none
  seen : st.seen = true → st.buf = encCol (pre.map getB)
  sizes : st.seen = true → st.firstRec = 0 → st.sizes = (pre.map getB).map (fun v => (encTLV v).length)
  sizesPos : ∀ s ∈ st.sizes, 0 < s
  nonempty : st.seen = true → pre ≠ []

theorem step_inv (lim : Nat) (st : ColSt) (pre : List (Option Val)) (v : Option Val) (inv : FillInv st pre) :
    FillInv (st.step lim pre.length v) (pre ++ [v]) := by
  cases v with
  | none =>
    cases hs : st.seen with
    | false =>
      have := inv.unseen hs
      simp only [ColSt.step, hs]
      refine ⟨fun _ => ⟨this.1, this.2.1, ?_⟩, fun h => ?_, fun h => ?_, inv.sizesPos, fun h => ?_⟩
      · intro x hx; simp at hx; rcases hx with hx | hx
        · exact this.2.2 x hx
        · exact hx
      all_goals (simp [hs] at h)
    | true =>
      simp only [ColSt.step, hs]
      refine ⟨fun h => by simp at h, fun _ => ?_, fun _ hf => ?_, ?_, fun _ => by simp⟩
      · simp [inv.seen hs, encCol, getB, encTLV]
      · simp [inv.sizes hs hf, getB, encTLV]
      · intro s hs'
        simp at hs'
        rcases hs' with hs' | hs'
        · exact inv.sizesPos s hs'
        · omega
  | some x =>
    have hx1 : 0 < (encTLV x).length := encTLV_length_pos x
    cases hs : st.seen with
    | true =>
      simp only [ColSt.step, hs]
      refine ⟨fun h => by simp at h, fun _ => ?_, fun _ hf => ?_, ?_, fun _ => by simp⟩
      · simp [inv.seen hs, encCol, getB]
      · simp [inv.sizes hs hf, getB]
      · intro s hs'
        simp at hs'
        rcases hs' with hs' | hs'
        · exact inv.sizesPos s hs'
        · omega
    | false =>
      obtain ⟨hb, hsz, hnone⟩ := inv.unseen hs
      simp only [ColSt.step, hs]
      refine ⟨fun h => by simp at h, fun _ => ?_, fun _ hf => ?_, ?_, fun _ => by simp⟩
      · simp [hb, encCol_append, encCol_all_none pre hnone]
        simp [encCol, getB]
      · have hp : pre = [] := List.length_eq_zero_iff.mp hf
        subst hp
        simp [hsz, getB]
      · intro s hs'
        simp [hsz] at hs'
        omega

theorem fold_inv (lim : Nat) (vs : List (Option Val)) :
    ∀ (pre : List (Option Val)) (st : ColSt), FillInv st pre →
      FillInv ((vs.zipIdx pre.length).foldl (fun st (p : Option Val × Nat) => st.step lim p.2 p.1) st) (pre ++ vs) := by
  induction vs with
  | nil => intro pre st inv; simpa using inv
  | cons v vs ih =>
    intro pre st inv
    simp only [List.zipIdx_cons, List.foldl_cons]
    have := ih (pre ++ [v]) _ (step_inv lim st pre v inv)
    simpa using this

theorem fillCol_inv (lim : Nat) (vs : List (Option Val)) : FillInv (fillCol lim vs) vs := by
  have h0 : FillInv ({} : ColSt) [] :=
    ⟨fun _ => ⟨rfl, rfl, by simp⟩, fun h => by simp at h, fun h => by simp at h, by simp, fun h => by simp at h⟩
  have := fold_inv lim vs [] {} h0
  simpa [fillCol] using this

/-- once a value of the column has been seen, the flag stays set -/
theorem step_seen (lim : Nat) (st : ColSt) (i : Nat) (v : Option Val) (h : st.seen = true ∨ v.isSome) :
    (st.step lim i v).seen = true := by
  cases v with
  | none =>
    rcases h with h | h
    · simp [ColSt.step, h]
    · simp at h
  | some x =>
    cases hs : st.seen <;> simp [ColSt.step, hs]

theorem fold_seen (lim : Nat) (vs : List (Option Val)) :
    ∀ (k : Nat) (st : ColSt), (st.seen = true ∨ ∃ v ∈ vs, v.isSome) →
      ((vs.zipIdx k).foldl (fun st (p : Option Val × Nat) => st.step lim p.2 p.1) st).seen = true := by
  induction vs with
  | nil => intro k st h; rcases h with h | ⟨v, hv, _⟩
           · simpa using h
           · simp at hv
  | cons v vs ih =>
    intro k st h
    simp only [List.zipIdx_cons, List.foldl_cons]
    apply ih
    by_cases hv : v.isSome
    · exact Or.inl (step_seen lim st k v (Or.inr hv))
    · rcases h with h | ⟨x, hx, hxs⟩
      · exact Or.inl (step_seen lim st k v (Or.inl h))
      · simp at hx
        rcases hx with rfl | hx
        · exact absurd hxs hv
        · exact Or.inr ⟨x, hx, hxs⟩

theorem fillCol_seen (lim : Nat) (vs : List (Option Val)) (h : ∃ v ∈ vs, v.isSome) : (fillCol lim vs).seen = true := by
  unfold fillCol
  exact fold_seen lim vs 0 {} (Or.inr h)

/-! ### the length hint recorded while the column is filled -/

/-- with the size recorded at ingest, the reader's length function is right at every record boundary of the
column AS FILLED (both modes: consistent size → shortcut, otherwise forward scan) -/
theorem lenOk_fillCol (lim : Nat) (evs : List (Option Val)) (hsome : ∃ v ∈ evs, v.isSome)
    (hwf : ∀ v ∈ evs, ∀ x, v = some x → wf x) :
    LenOk (evs.map getB) ((seenSize (fillCol lim evs).firstRec (fillCol lim evs).sizes).getD inconsistent) := by
  have inv := fillCol_inv lim evs
  have hseen := fillCol_seen lim evs hsome
  have hwf' : ∀ v ∈ evs.map getB, wf v := by
    intro v hv
    simp at hv
    obtain ⟨o, ho, rfl⟩ := hv
    cases o with
    | none => simp [getB, wf]
    | some x => exact hwf _ ho x rfl
  by_cases hmode : (seenSize (fillCol lim evs).firstRec (fillCol lim evs).sizes).getD inconsistent > 0 ∧
      (seenSize (fillCol lim evs).firstRec (fillCol lim evs).sizes).getD inconsistent ≠ inconsistent
  · cases hs : seenSize (fillCol lim evs).firstRec (fillCol lim evs).sizes with
    | none => simp [hs] at hmode
    | some c =>
      simp only [hs, Option.getD_some] at hmode ⊢
      obtain ⟨hf, hall⟩ := seenSize_consistent _ _ _ hmode.2 hs
      have hsizes := inv.sizes hseen hf
      apply lenOk_const _ _ hmode
      intro v hv
      apply hall
      rw [hsizes]
      exact List.mem_map_of_mem hv
  · exact lenOk_scan _ _ hmode hwf'

/-! ### type consolidation -/

theorem digitsAux_length (f n : Nat) (acc : Bytes) : (digitsAux f n acc).length ≤ f + acc.length := by
  induction f generalizing n acc with
  | zero => simp [digitsAux]
  | succ f ih =>
    unfold digitsAux
    split
    · simp; omega
    · have := ih (n / 10) ((48 + n % 10) :: acc)
      simp at this
      omega

theorem decText_length (i : Int) : (decText i).length ≤ 21 := by
  unfold decText decNat
  split
  · have := digitsAux_length 20 (-i).toNat []
    simp at this ⊢
    omega
  · have := digitsAux_length 20 i.toNat []
    simp at this ⊢
    omega

theorem toNumbers_spec (vs : List Val) : ∀ r, toNumbers vs = some r →
    r.length = vs.length ∧ ((∀ v ∈ vs, wf v) → ∀ v ∈ r, wf v) := by
  induction vs with
  | nil => intro r h; simp [toNumbers] at h; subst h; simp
  | cons v vs ih =>
    intro r h
    unfold toNumbers at h
    cases ht : toNumbers vs with
    | none => simp [ht] at h
    | some r' =>
      obtain ⟨hl, hw⟩ := ih r' ht
      simp only [ht] at h
      have key : ∀ x : Val, wf x → r = x :: r' →
          r.length = (v :: vs).length ∧ ((∀ y ∈ v :: vs, wf y) → ∀ y ∈ r, wf y) := by
        intro x hx hr
        subst hr
        refine ⟨by simp [hl], fun hall y hy => ?_⟩
        simp at hy
        rcases hy with rfl | hy
        · exact hx
        · exact hw (fun z hz => hall z (by simp [hz])) y hy
      cases v with
      | str s =>
        cases hp : parseDec? s with
        | none => simp [hp] at h
        | some i =>
          simp [hp] at h
          refine key _ ?_ h.symm
          show (i % 18446744073709551616).toNat < 256 ^ NumKind.width .i64
          simp [NumKind.width]
          omega
      | bool b => simp at h
      | backfill => simp at h; exact key .backfill trivial h.symm
      | num k b =>
        cases k <;> simp at h
        all_goals first
          | (refine ⟨?_, ?_⟩
             · subst h; simp [hl]
             · intro hall y hy
               subst h
               simp at hy
               rcases hy with rfl | hy
               · exact hall _ (by simp)
               · exact hw (fun z hz => hall z (by simp [hz])) y hy)

theorem toStrings_spec (vs : List Val) :
    (toStrings vs).length = vs.length ∧ ((∀ v ∈ vs, wf v) → ∀ v ∈ toStrings vs, wf v) := by
  refine ⟨by simp [toStrings], ?_⟩
  intro hall v hv
  simp only [toStrings, List.mem_map] at hv
  obtain ⟨x, hx, rfl⟩ := hv
  have hwx := hall x hx
  cases x with
  | str s => exact hwx
  | backfill => trivial
  | bool b => cases b <;> (show _ < 65536; simp)
  | num k b =>
    cases k <;> try exact hwx
    show (decText (sext 8 b)).length < 65536
    have := decText_length (sext 8 b)
    omega

theorem consolidate_spec (vs : List Val) :
    (consolidate vs).length = vs.length ∧ ((∀ v ∈ vs, wf v) → ∀ v ∈ consolidate vs, wf v) := by
  unfold consolidate
  cases h : toNumbers vs with
  | some r => exact toNumbers_spec vs r h
  | none => exact toStrings_spec vs


end SigModel.Lemmas.C01
