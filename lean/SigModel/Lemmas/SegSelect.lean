/-
Lemmas about segment selection by time (Model/SegSelect.lean); the property theorems are in Props/C02.lean (completeness and
soundness of the rotated and the open selection) and Props/C11.lean (the open segments are collected whatever the rotated
metadata hold).
-/
import SigModel.Model.SegSelect

namespace SigModel.SegSelect
open SigModel.Gen

theorem mem_insertDesc (s x : Seg) (l : List Seg) : x ∈ insertDesc s l ↔ x = s ∨ x ∈ l := by
  induction l with
  | nil => simp [insertDesc]
  | cons y ys ih =>
    unfold insertDesc
    split
    · simp
    · simp [ih]
      constructor
      · rintro (h | h | h) <;> simp [h]
      · rintro (h | h | h) <;> simp [h]

/-- sorting a table's slice changes its order, not its members -/
theorem mem_sortDesc (x : Seg) (l : List Seg) : x ∈ sortDesc l ↔ x ∈ l := by
  induction l with
  | nil => simp [sortDesc]
  | cons y ys ih =>
    have : sortDesc (y :: ys) = insertDesc y (sortDesc ys) := rfl
    rw [this, mem_insertDesc, ih]
    simp

theorem mem_bulkAdd (x : Seg) (tbl new : List Seg) :
    x ∈ bulkAdd tbl new ↔ x ∈ tbl ∨ (x ∈ new ∧ ∀ y ∈ tbl, y.key ≠ x.key) := by
  unfold bulkAdd
  rw [mem_sortDesc]
  simp [List.mem_append, List.mem_filter]

/-- a segment whose key no other added segment carries is in its table's slice, however the segments were cut into bulks and
in whatever order they were added -/
theorem mem_tableOf_aux (table : Nat) (x : Seg) (hx : x.table = table) :
    ∀ (bulks : List (List Seg)) (acc : List Seg),
      (∀ y ∈ acc, y.key = x.key → y = x) →
      (∀ b ∈ bulks, ∀ y ∈ b, y.key = x.key → y = x) →
      (x ∈ acc ∨ ∃ b ∈ bulks, x ∈ b) →
      x ∈ bulks.foldl (fun tbl b => bulkAdd tbl (b.filter (·.table == table))) acc := by
  intro bulks
  induction bulks with
  | nil => intro acc _ _ h; simpa using h
  | cons b bs ih =>
    intro acc hacc hb h
    simp only [List.foldl_cons]
    apply ih
    · intro y hy hk
      rw [mem_bulkAdd] at hy
      rcases hy with hy | ⟨hy, _⟩
      · exact hacc y hy hk
      · exact hb b (by simp) y (List.mem_filter.mp hy).1 hk
    · intro b' hb' y hy hk
      exact hb b' (by simp [hb']) y hy hk
    · by_cases hin : x ∈ acc
      · left; rw [mem_bulkAdd]; left; exact hin
      · rcases h with h | ⟨b', hb', hxb⟩
        · exact absurd h hin
        · simp at hb'
          rcases hb' with rfl | hb'
          · left
            rw [mem_bulkAdd]; right
            refine ⟨List.mem_filter.mpr ⟨hxb, by simp [hx]⟩, ?_⟩
            intro y hy hk
            exact hin (hacc y hy hk ▸ hy)
          · right; exact ⟨b', hb', hxb⟩

theorem mem_tableOf (bulks : List (List Seg)) (x : Seg)
    (huniq : ∀ b ∈ bulks, ∀ y ∈ b, y.key = x.key → y = x) (hx : ∃ b ∈ bulks, x ∈ b) :
    x ∈ tableOf bulks x.table := by
  unfold tableOf
  exact mem_tableOf_aux x.table x rfl bulks [] (by simp) huniq (Or.inr hx)

/-- a segment holding an instant of the range overlaps the range (for every range and every segment bounds) -/
theorem overlaps_of_point (qs qe t : Int) (s : Seg) (h1 : qs ≤ t) (h2 : t ≤ qe) (h3 : s.earliest ≤ t) (h4 : t ≤ s.latest) :
    overlaps qs qe s = true := by
  unfold overlaps TimeRange_CheckRangeOverLap
  split <;> rename_i h <;> simp at h ⊢
  omega

/-- an overlapping well-formed segment shares an instant with a well-formed range -/
theorem point_of_overlaps (qs qe : Int) (s : Seg) (hq : qs ≤ qe) (hs : s.earliest ≤ s.latest) (h : overlaps qs qe s = true) :
    ∃ t, qs ≤ t ∧ t ≤ qe ∧ s.earliest ≤ t ∧ t ≤ s.latest := by
  unfold overlaps TimeRange_CheckRangeOverLap at h
  split at h <;> rename_i h' <;> simp at h h'
  by_cases hc : qs ≤ s.earliest
  · exact ⟨s.earliest, by omega, by omega, by omega, by omega⟩
  · exact ⟨qs, by omega, by omega, by omega, by omega⟩

theorem mem_filterRotated (qs qe org : Int) (indexes : List Nat) (tables : Nat → List Seg) (s : Seg) :
    s ∈ filterRotated qs qe org indexes tables ↔ ∃ ix ∈ indexes, s ∈ tables ix ∧ keep qs qe org s = true := by
  unfold filterRotated
  simp [List.mem_flatMap, List.mem_filter]

theorem mem_filterUnrotated (qs qe org : Int) (indexes : List Nat) (open_ : List Seg) (s : Seg) :
    s ∈ filterUnrotated qs qe org indexes open_ ↔ s ∈ open_ ∧ s.table ∈ indexes ∧ keep qs qe org s = true := by
  unfold filterUnrotated
  simp [List.mem_filter]

theorem keep_of_point (qs qe org t : Int) (s : Seg) (h1 : qs ≤ t) (h2 : t ≤ qe) (h3 : s.earliest ≤ t) (h4 : t ≤ s.latest)
    (horg : s.org = org) : keep qs qe org s = true := by
  unfold keep
  simp [overlaps_of_point qs qe t s h1 h2 h3 h4, horg]

/-- what a query collects holds a request for the key of every selected open or rotated segment -/
theorem collect_has_key (qs qe org : Int) (indexes : List Nat) (tables : Nat → List Seg) (open_ : List Seg) (s : Seg)
    (h : s ∈ filterRotated qs qe org indexes tables ∨ s ∈ filterUnrotated qs qe org indexes open_) :
    ∃ s' ∈ (collect qs qe org indexes tables open_).1 ++ (collect qs qe org indexes tables open_).2, s'.key = s.key := by
  unfold collect
  simp only [List.mem_append, List.mem_filter]
  rcases h with h | h
  · exact ⟨s, Or.inr h, rfl⟩
  · by_cases hk : (filterRotated qs qe org indexes tables).any (·.key == s.key) = true
    · rw [List.any_eq_true] at hk
      obtain ⟨r, hr, hrk⟩ := hk
      exact ⟨r, Or.inr hr, by simpa using hrk⟩
    · exact ⟨s, Or.inl ⟨h, by simpa using hk⟩, rfl⟩

end SigModel.SegSelect
