/-
C09 helper lemmas, part 1: byte-string primitives and the characterisation of the group key that
`getAggSeriesId` extracts from a series id built by the tsid tracker.
-/
import SigModel.Model.Promql

namespace SigModel.Lemmas.C09
open SigModel.Promql

/-! ### stripPrefix / afterFirst -/

theorem stripPrefix_eq_some {p s r : Str} : stripPrefix p s = some r ↔ s = p ++ r := by
  induction p generalizing s with
  | nil => simp [stripPrefix, eq_comm]
  | cons a p ih =>
    cases s with
    | nil => simp [stripPrefix]
    | cons c s =>
      simp only [stripPrefix]
      by_cases h : a = c
      · subst h; simp [ih]
      · simp [h]; intro h'; exact absurd h'.symm h

/-- the first occurrence of a separator splits a string uniquely -/
theorem append_cons_inj {c : Nat} {a a' b b' : Str} (ha : c ∉ a) (ha' : c ∉ a')
    (h : a ++ c :: b = a' ++ c :: b') : a = a' ∧ b = b' := by
  induction a generalizing a' with
  | nil =>
    cases a' with
    | nil => simpa using h
    | cons x a' =>
      simp at h
      exact absurd h.1 (by intro e; exact ha' (by simp [e]))
  | cons x a ih =>
    cases a' with
    | nil =>
      simp at h
      exact absurd h.1 (by intro e; exact ha (by simp [e]))
    | cons y a' =>
      simp at h
      have := ih (a' := a') (by intro m; exact ha (by simp [m])) (by intro m; exact ha' (by simp [m])) h.2
      exact ⟨by rw [h.1, this.1], this.2⟩

theorem stripPrefix_sep {c : Nat} {f X rest : Str} (hf : c ∉ f) (hX : c ∉ X) :
    stripPrefix (f ++ [c]) (X ++ c :: rest) = if f = X then some rest else none := by
  by_cases h : f = X
  · subst h; simp [stripPrefix_eq_some]
  · simp only [h, if_false]
    cases hs : stripPrefix (f ++ [c]) (X ++ c :: rest) with
    | none => rfl
    | some r =>
      rw [stripPrefix_eq_some] at hs
      have : X ++ c :: rest = f ++ c :: r := by simpa using hs
      exact absurd (append_cons_inj hX hf this).1.symm h

theorem stripPrefix_none_of_notMem {c : Nat} {f s : Str} (hs : c ∉ s) :
    stripPrefix (f ++ [c]) s = none := by
  cases h : stripPrefix (f ++ [c]) s with
  | none => rfl
  | some r =>
    rw [stripPrefix_eq_some] at h
    exact absurd (by rw [h]; simp) hs

theorem afterFirst_none_of_notMem {c : Nat} {f s : Str} (hs : c ∉ s) :
    afterFirst (f ++ [c]) s = none := by
  induction s with
  | nil => simp [afterFirst, stripPrefix_none_of_notMem]
  | cons x s ih =>
    simp only [afterFirst]
    rw [stripPrefix_none_of_notMem hs]
    exact ih (by intro m; exact hs (by simp [m]))

/-- Lemma B: the first `c` of the string decides: a match of `f ++ [c]` ends there iff `f` is a suffix
of the text before it; otherwise the search continues behind it. -/
theorem afterFirst_sep {c : Nat} {f X rest : Str} (hf : c ∉ f) (hX : c ∉ X) :
    afterFirst (f ++ [c]) (X ++ c :: rest) =
      if f <:+ X then some rest else afterFirst (f ++ [c]) rest := by
  induction X with
  | nil =>
    cases f with
    | nil => simp [afterFirst, stripPrefix]
    | cons a f =>
      have hac : a ≠ c := by intro e; exact hf (by simp [e])
      simp [afterFirst, stripPrefix, hac]
  | cons x X ih =>
    have hX' : c ∉ X := by intro m; exact hX (by simp [m])
    have : (x :: X) ++ c :: rest = x :: (X ++ c :: rest) := rfl
    rw [this]
    simp only [afterFirst]
    rw [← this, stripPrefix_sep hf hX]
    by_cases h : f = x :: X
    · simp [h]
    · simp only [h, if_false]
      rw [ih hX']
      have : f <:+ x :: X ↔ f <:+ X := by
        rw [List.suffix_cons_iff]; simp [h]
      simp [this]


/-! ### cleanliness -/

theorem clean_iff {s : Str} : clean s = true ↔ ∀ c ∈ s, c ≠ cComma ∧ c ≠ cColon ∧ c ≠ cBrace := by
  simp [clean, isSep, List.all_eq_true, and_assoc]

theorem clean_comma {s : Str} (h : clean s = true) : cComma ∉ s := fun m => ((clean_iff.1 h) _ m).1 rfl
theorem clean_colon {s : Str} (h : clean s = true) : cColon ∉ s := fun m => ((clean_iff.1 h) _ m).2.1 rfl
theorem clean_brace {s : Str} (h : clean s = true) : cBrace ∉ s := fun m => ((clean_iff.1 h) _ m).2.2 rfl

theorem takeWhile_sep {c : Nat} {v r : Str} (hv : c ∉ v) :
    (v ++ c :: r).takeWhile (· != c) = v := by
  induction v with
  | nil => simp
  | cons x v ih =>
    have hx : x ≠ c := by intro e; exact hv (by simp [e])
    have hv' : c ∉ v := by intro m; exact hv (by simp [m])
    simp [hx, ih hv']

theorem suffix_of_suffix_sep {sep : Nat} {f A k : Str} (hf : sep ∉ f) :
    f <:+ A ++ sep :: k ↔ f <:+ k := by
  constructor
  · intro h
    induction A with
    | nil =>
      rcases List.suffix_cons_iff.1 h with e | h'
      · exact absurd (by rw [e]; simp) hf
      · exact h'
    | cons a A ih =>
      rcases List.suffix_cons_iff.1 h with e | h'
      · exact absurd (by rw [e]; simp) hf
      · exact ih h'
  · intro h
    exact h.trans (by
      have : A ++ sep :: k = (A ++ [sep]) ++ k := by simp
      rw [this]; exact List.suffix_append _ _)

/-! ### what ExtractGroupByFieldsFromSeriesId finds in a tracker-built id -/

theorem mem_labelStr {c : Nat} {kv : Str × Str} : c ∈ labelStr kv ↔ c ∈ kv.1 ∨ c = cColon ∨ c ∈ kv.2 ∨ c = cComma := by
  simp [labelStr, kvStr]

/-- Exact characterisation (no guard on the label NAMES): in `… sep k1:v1,k2:v2,…` the search for
`f:` returns the value of the FIRST label whose name has `f` as a SUFFIX. -/
theorem fieldValue_sid (f : Str) (labels : Labels) (A : Str) (sep : Nat)
    (hA : cColon ∉ A) (hsep : sep ≠ cColon) (hsepf : sep ∉ f) (hf : clean f = true)
    (hl : ∀ kv ∈ labels, clean kv.1 = true ∧ clean kv.2 = true) :
    fieldValue f (A ++ sep :: labels.flatMap labelStr)
      = (labels.find? (fun kv => f.isSuffixOf kv.1)).map (·.2) := by
  induction labels generalizing A sep with
  | nil =>
    have : cColon ∉ A ++ [sep] := by
      intro m; rcases List.mem_append.1 m with m | m
      · exact hA m
      · simp at m; exact hsep m.symm
    simp [fieldValue, afterFirst_none_of_notMem this]
  | cons kv ls ih =>
    obtain ⟨k, v⟩ := kv
    have hk := (hl (k, v) (by simp)).1
    have hv := (hl (k, v) (by simp)).2
    have hls : ∀ kv ∈ ls, clean kv.1 = true ∧ clean kv.2 = true := fun kv m => hl kv (by simp [m])
    have hX : cColon ∉ A ++ sep :: k := by
      intro m; rcases List.mem_append.1 m with m | m
      · exact hA m
      · rcases List.mem_cons.1 m with m | m
        · exact hsep m.symm
        · exact clean_colon hk m
    have hshape : A ++ sep :: ((k, v) :: ls).flatMap labelStr
        = (A ++ sep :: k) ++ cColon :: (v ++ cComma :: ls.flatMap labelStr) := by
      simp [List.flatMap_cons, labelStr, kvStr]
    rw [hshape]
    unfold fieldValue
    rw [afterFirst_sep (clean_colon hf) hX]
    have hsuf : f <:+ A ++ sep :: k ↔ f <:+ k := suffix_of_suffix_sep hsepf
    by_cases h : f <:+ k
    · have h1 : f <:+ A ++ sep :: k := hsuf.2 h
      have h2 : f.isSuffixOf k = true := by simpa using h
      simp [h1, List.find?, h2, takeWhile_sep (clean_comma hv)]
    · have h1 : ¬ f <:+ A ++ sep :: k := fun x => h (hsuf.1 x)
      have h2 : f.isSuffixOf k = false := Bool.eq_false_iff.2 (by simpa using h)
      simp only [h1, if_false, List.find?, h2]
      exact ih v cComma (clean_colon hv) (by decide) (clean_comma hf) hls

theorem lookup_eq_find (f : Str) (labels : Labels) :
    labels.lookup f = (labels.find? (fun kv => kv.1 == f)).map (·.2) := by
  induction labels with
  | nil => rfl
  | cons kv ls ih =>
    obtain ⟨k, v⟩ := kv
    simp only [List.lookup, List.find?]
    by_cases h : f = k
    · subst h; simp
    · have h1 : (f == k) = false := by simpa using h
      have h2 : (k == f) = false := by simpa using (fun e : k = f => h e.symm)
      simp [h1, h2, ih]

theorem find_suffix_eq_lookup (f : Str) (labels : Labels)
    (h : ∀ kv ∈ labels, f.isSuffixOf kv.1 = true → f = kv.1) :
    (labels.find? (fun kv => f.isSuffixOf kv.1)).map (·.2) = labels.lookup f := by
  rw [lookup_eq_find]
  induction labels with
  | nil => rfl
  | cons kv ls ih =>
    obtain ⟨k, v⟩ := kv
    have ih' := ih (fun kv m => h kv (by simp [m]))
    simp only [List.find?]
    by_cases hs : f.isSuffixOf k = true
    · have e := h (k, v) (by simp) hs
      subst e; simp [hs]
    · have hs' : f.isSuffixOf k = false := Bool.eq_false_iff.2 hs
      have hk : (k == f) = false := by
        cases hkf : (k == f) with
        | false => rfl
        | true =>
          have e : k = f := by simpa using hkf
          subst e
          have : k.isSuffixOf k = true := by simp
          rw [this] at hs'; cases hs'
      simp only [hs', hk]; exact ih'


/-! ### unpacking the guard -/

structure Safe (name : Str) (labels : Labels) (fields : List Str) : Prop where
  hname : clean name = true
  hlabels : ∀ kv ∈ labels, clean kv.1 = true ∧ clean kv.2 = true
  hfields : ∀ f ∈ fields, clean f = true
  hnodup : (labels.map (·.1)).Nodup
  hsuffix : ∀ f ∈ fields, ∀ kv ∈ labels, f.isSuffixOf kv.1 = true → f = kv.1

theorem safe_of_labelSafe {name : Str} {labels : Labels} {fields : List Str}
    (h : LabelSafe name labels fields) : Safe name labels fields := by
  unfold LabelSafe labelSafe at h
  simp only [Bool.and_eq_true, List.all_eq_true, decide_eq_true_eq, Bool.or_eq_true,
    Bool.not_eq_true', beq_iff_eq] at h
  obtain ⟨⟨⟨⟨h1, h2⟩, h3⟩, h4⟩, h5⟩ := h
  refine ⟨h1, h2, h3, h4, ?_⟩
  intro f hf kv hkv hs
  rcases h5 f hf kv hkv with h | h
  · rw [h] at hs; cases hs
  · exact h

theorem labelSafe_of_safe {name : Str} {labels : Labels} {fields : List Str}
    (h : Safe name labels fields) : LabelSafe name labels fields := by
  unfold LabelSafe labelSafe
  simp only [Bool.and_eq_true, List.all_eq_true, decide_eq_true_eq, Bool.or_eq_true,
    Bool.not_eq_true', beq_iff_eq]
  refine ⟨⟨⟨⟨h.hname, h.hlabels⟩, h.hfields⟩, h.hnodup⟩, ?_⟩
  intro f hf kv hkv
  cases hs : f.isSuffixOf kv.1 with
  | false => exact Or.inl rfl
  | true => exact Or.inr (h.hsuffix f hf kv hkv hs)

theorem notMem_flatMap_labelStr {c : Nat} {labels : Labels} (hc1 : c ≠ cColon) (hc2 : c ≠ cComma)
    (hl : ∀ kv ∈ labels, c ∉ kv.1 ∧ c ∉ kv.2) : c ∉ labels.flatMap labelStr := by
  intro m
  rcases List.mem_flatMap.1 m with ⟨kv, hkv, hc⟩
  rcases mem_labelStr.1 hc with h | h | h | h
  · exact (hl kv hkv).1 h
  · exact hc1 h
  · exact (hl kv hkv).2 h
  · exact hc2 h

/-! ### `by`: metric name and pairs -/

theorem filterMap_congr' {α β} {f g : α → Option β} {l : List α} (h : ∀ a ∈ l, f a = g a) :
    l.filterMap f = l.filterMap g := by
  induction l with
  | nil => rfl
  | cons a l ih =>
    simp only [List.filterMap_cons, h a (by simp)]
    rw [ih (fun a m => h a (by simp [m]))]

theorem metricNameOf_sid {name rest : Str} (hn : cBrace ∉ name) (hr : cBrace ∉ rest) :
    metricNameOf (name ++ cBrace :: rest) = name := by
  unfold metricNameOf
  have h1 : List.count cBrace name = 0 := List.count_eq_zero.2 hn
  have h2 : List.count cBrace rest = 0 := List.count_eq_zero.2 hr
  have : List.count cBrace (name ++ cBrace :: rest) = 1 := by
    simp [List.count_append, h1, h2]
  rw [if_pos this]
  exact takeWhile_sep hn

theorem extractPairs_sid {name : Str} {labels : Labels} {fields : List Str}
    (h : Safe name labels fields) :
    extractPairs fields (seriesIdOf name labels)
      = (specGroupKey fields false labels).map kvStr := by
  unfold extractPairs specGroupKey
  simp only [Bool.false_eq_true, if_false, List.map_filterMap]
  apply filterMap_congr'
  intro f hf
  have hfc := h.hfields f hf
  have hv : fieldValue f (seriesIdOf name labels) = labels.lookup f := by
    unfold seriesIdOf
    rw [fieldValue_sid f labels name cBrace (clean_colon h.hname) (by decide) (clean_brace hfc) hfc h.hlabels]
    exact find_suffix_eq_lookup f labels (h.hsuffix f hf)
  rw [hv]
  cases labels.lookup f <;> simp [kvStr]

theorem byKey_sid {name : Str} {labels : Labels} {fields : List Str} (h : Safe name labels fields) :
    byKey fields (seriesIdOf name labels) = render false name (specGroupKey fields false labels) := by
  unfold byKey render
  rw [extractPairs_sid h]
  have hb : cBrace ∉ labels.flatMap labelStr :=
    notMem_flatMap_labelStr (by decide) (by decide)
      (fun kv m => ⟨clean_brace (h.hlabels kv m).1, clean_brace (h.hlabels kv m).2⟩)
  have : metricNameOf (seriesIdOf name labels) = name := metricNameOf_sid (clean_brace h.hname) hb
  simp [this]


/-! ### `without`: strings.Split / SplitN / Join on a tracker-built id -/

theorem splitOn_ne_nil (c : Nat) (s : Str) : splitOn c s ≠ [] := by
  induction s with
  | nil => simp [splitOn]
  | cons x s ih =>
    simp only [splitOn]
    split
    · simp
    · split <;> simp

theorem splitOn_notMem {c : Nat} {A : Str} (h : c ∉ A) : splitOn c A = [A] := by
  induction A with
  | nil => rfl
  | cons x A ih =>
    have hx : x ≠ c := by intro e; exact h (by simp [e])
    simp [splitOn, hx, ih (by intro m; exact h (by simp [m]))]

theorem splitOn_append_sep {c : Nat} {A B : Str} (h : c ∉ A) :
    splitOn c (A ++ c :: B) = A :: splitOn c B := by
  induction A with
  | nil => simp [splitOn]
  | cons x A ih =>
    have hx : x ≠ c := by intro e; exact h (by simp [e])
    have : (x :: A) ++ c :: B = x :: (A ++ c :: B) := rfl
    rw [this]
    simp only [splitOn, hx, if_false]
    rw [ih (by intro m; exact h (by simp [m]))]

theorem splitFirst_sep {c : Nat} {A B : Str} (h : c ∉ A) : splitFirst c (A ++ c :: B) = some (A, B) := by
  induction A with
  | nil => simp [splitFirst]
  | cons x A ih =>
    have hx : x ≠ c := by intro e; exact h (by simp [e])
    have : (x :: A) ++ c :: B = x :: (A ++ c :: B) := rfl
    rw [this]
    simp [splitFirst, hx, ih (by intro m; exact h (by simp [m]))]

theorem joinWith_cons {c : Nat} {x : Str} {r : List Str} (h : r ≠ []) :
    joinWith c (x :: r) = x ++ c :: joinWith c r := by
  cases r with
  | nil => exact absurd rfl h
  | cons y r => rfl

/-- Lemma D: the comma-parts of `k1:v1,k2:v2,…,kn:vn,` -/
theorem splitOn_labels {labels : Labels} (hl : ∀ kv ∈ labels, clean kv.1 = true ∧ clean kv.2 = true) :
    splitOn cComma (labels.flatMap labelStr) = labels.map kvStr ++ [[]] := by
  induction labels with
  | nil => rfl
  | cons kv ls ih =>
    have hc : cComma ∉ kvStr kv := by
      intro m
      simp only [kvStr, List.mem_append, List.mem_cons] at m
      rcases m with m | m | m
      · exact clean_comma (hl kv (by simp)).1 m
      · cases m
      · exact clean_comma (hl kv (by simp)).2 m
    have : (kv :: ls).flatMap labelStr = kvStr kv ++ cComma :: ls.flatMap labelStr := by
      simp [List.flatMap_cons, labelStr]
    rw [this, splitOn_append_sep hc, ih (fun kv m => hl kv (by simp [m]))]
    simp

theorem joinWith_labels (L : Labels) : joinWith cComma (L.map kvStr ++ [[]]) = L.flatMap labelStr := by
  induction L with
  | nil => rfl
  | cons kv L ih =>
    have : (kv :: L).map kvStr ++ [[]] = kvStr kv :: (L.map kvStr ++ [[]]) := rfl
    rw [this, joinWith_cons (by simp), ih]
    simp [List.flatMap_cons, labelStr]

theorem keepPart_kvStr {fields : List Str} {kv : Str × Str} (hk : clean kv.1 = true) :
    keepPart fields (kvStr kv) = !fields.contains kv.1 := by
  unfold keepPart kvStr
  rw [splitFirst_sep (clean_colon hk)]

theorem filter_keepPart {fields : List Str} {labels : Labels}
    (hl : ∀ kv ∈ labels, clean kv.1 = true ∧ clean kv.2 = true) :
    (labels.map kvStr ++ [[]]).filter (keepPart fields)
      = (labels.filter (fun kv => !fields.contains kv.1)).map kvStr ++ [[]] := by
  induction labels with
  | nil => simp [keepPart, splitFirst]
  | cons kv ls ih =>
    have ih' := ih (fun kv m => hl kv (by simp [m]))
    have hk := keepPart_kvStr (fields := fields) (hl kv (by simp)).1
    simp only [List.map_cons, List.cons_append, List.filter_cons, hk]
    cases hfc : fields.contains kv.1 <;> simp [ih']

theorem withoutKey_sid {name : Str} {labels : Labels} {fields : List Str} (h : Safe name labels fields) :
    withoutKey fields (seriesIdOf name labels) = render true name (specGroupKey fields true labels) := by
  unfold withoutKey render specGroupKey
  simp only [if_true]
  cases hfe : fields.isEmpty with
  | true =>
    have : fields = [] := by simpa using hfe
    subst this
    have : labels.filter (fun _ => true) = labels := List.filter_eq_self.2 (fun _ _ => rfl)
    simp [this]
  | false =>
    simp only [Bool.false_eq_true, if_false]
    -- the comma-parts: first part `name{<first label or nothing>`, then the other labels, then ""
    have hparts : ∃ p0' , splitOn cComma (seriesIdOf name labels)
        = (name ++ cBrace :: p0') :: (labels.map kvStr ++ [[]]).tail
        ∧ p0' :: (labels.map kvStr ++ [[]]).tail = labels.map kvStr ++ [[]] := by
      cases labels with
      | nil =>
        refine ⟨[], ?_, rfl⟩
        have : cComma ∉ name ++ [cBrace] := by
          intro m; rcases List.mem_append.1 m with m | m
          · exact clean_comma h.hname m
          · simp at m; cases m
        simpa [seriesIdOf] using splitOn_notMem this
      | cons kv ls =>
        refine ⟨kvStr kv, ?_, rfl⟩
        have hls : ∀ kv ∈ ls, clean kv.1 = true ∧ clean kv.2 = true := fun kv m => h.hlabels kv (by simp [m])
        have hc : cComma ∉ name ++ cBrace :: kvStr kv := by
          intro m
          simp only [kvStr, List.mem_append, List.mem_cons] at m
          rcases m with m | m | m | m | m
          · exact clean_comma h.hname m
          · cases m
          · exact clean_comma (h.hlabels kv (by simp)).1 m
          · cases m
          · exact clean_comma (h.hlabels kv (by simp)).2 m
        have : seriesIdOf name (kv :: ls) = (name ++ cBrace :: kvStr kv) ++ cComma :: ls.flatMap labelStr := by
          simp [seriesIdOf, List.flatMap_cons, labelStr]
        rw [this, splitOn_append_sep hc, splitOn_labels hls]
        simp
    obtain ⟨p0', hsplit, hcons⟩ := hparts
    rw [hsplit]
    simp only [splitFirst_sep (clean_brace h.hname)]
    rw [hcons, filter_keepPart h.hlabels, joinWith_labels]
    rfl

theorem extract_eq_spec {name : Str} {labels : Labels} {fields : List Str} (without : Bool)
    (h : Safe name labels fields) :
    extractGroupKey fields without (seriesIdOf name labels)
      = render without name (specGroupKey fields without labels) := by
  unfold extractGroupKey
  cases without with
  | true => simpa using withoutKey_sid h
  | false => simpa using byKey_sid h

end SigModel.Lemmas.C09
