/-
C09 helper lemmas, part 1: byte-string primitives and the characterisation of the group key that
`getAggSeriesId` extracts from a series id built by the tsid tracker (code as of the C09 fix: tags after
the first "{", split on ",", key compared for equality).
-/
import SigModel.Model.Promql

namespace SigModel.Lemmas.C09
open SigModel.Promql

/-- the first occurrence of a separator splits a string uniquely -/
theorem append_cons_inj {c : Nat} {a a' b b' : Str} (ha : c ∉ a) (ha' : c ∉ a')
    (h : a ++ c :: b = a' ++ c :: b') : a = a' ∧ b = b' := by
  induction a generalizing a' with
  | nil =>
    cases a' with
    | nil => simpa using h
    | cons x a' =>
      simp at h
      exact absurd h.1 (by intro e; exact ha' (by simp [e]))
  | cons x a ih =>
    cases a' with
    | nil =>
      simp at h
      exact absurd h.1 (by intro e; exact ha (by simp [e]))
    | cons y a' =>
      simp at h
      have := ih (a' := a') (by intro m; exact ha (by simp [m])) (by intro m; exact ha' (by simp [m])) h.2
      exact ⟨by rw [h.1, this.1], this.2⟩

/-! ### cleanliness -/

theorem clean_iff {s : Str} : clean s = true ↔ ∀ c ∈ s, c ≠ cComma ∧ c ≠ cColon ∧ c ≠ cBrace := by
  simp [clean, isSep, List.all_eq_true, and_assoc]

theorem clean_comma {s : Str} (h : clean s = true) : cComma ∉ s := fun m => ((clean_iff.1 h) _ m).1 rfl
theorem clean_colon {s : Str} (h : clean s = true) : cColon ∉ s := fun m => ((clean_iff.1 h) _ m).2.1 rfl
theorem clean_brace {s : Str} (h : clean s = true) : cBrace ∉ s := fun m => ((clean_iff.1 h) _ m).2.2 rfl

theorem cleanV_iff {s : Str} : cleanV s = true ↔ ∀ c ∈ s, c ≠ cComma ∧ c ≠ cBrace := by
  simp [cleanV, List.all_eq_true]

theorem cleanVal_iff {s : Str} : cleanVal s = true ↔ ∀ c ∈ s, c ≠ cComma := by
  simp [cleanVal, List.all_eq_true]

theorem cleanVal_comma {s : Str} (h : cleanVal s = true) : cComma ∉ s := fun m => ((cleanVal_iff.1 h) _ m) rfl

theorem cleanV_comma {s : Str} (h : cleanV s = true) : cComma ∉ s := fun m => ((cleanV_iff.1 h) _ m).1 rfl
theorem cleanV_brace {s : Str} (h : cleanV s = true) : cBrace ∉ s := fun m => ((cleanV_iff.1 h) _ m).2 rfl

theorem takeWhile_sep {c : Nat} {v r : Str} (hv : c ∉ v) :
    (v ++ c :: r).takeWhile (· != c) = v := by
  induction v with
  | nil => simp
  | cons x v ih =>
    have hx : x ≠ c := by intro e; exact hv (by simp [e])
    have hv' : c ∉ v := by intro m; exact hv (by simp [m])
    simp [hx, ih hv']

theorem mem_labelStr {c : Nat} {kv : Str × Str} : c ∈ labelStr kv ↔ c ∈ kv.1 ∨ c = cColon ∨ c ∈ kv.2 ∨ c = cComma := by
  simp [labelStr, kvStr]

/-! ### unpacking the guard -/

structure Safe (name : Str) (labels : Labels) : Prop where
  hname : cleanV name = true
  hlabels : ∀ kv ∈ labels, clean kv.1 = true ∧ cleanVal kv.2 = true

theorem safe_of_labelSafe {name : Str} {labels : Labels} (h : LabelSafe name labels) : Safe name labels := by
  unfold LabelSafe labelSafe at h
  simp only [Bool.and_eq_true, List.all_eq_true] at h
  exact ⟨h.1, h.2⟩

theorem labelSafe_of_safe {name : Str} {labels : Labels} (h : Safe name labels) : LabelSafe name labels := by
  unfold LabelSafe labelSafe
  simp only [Bool.and_eq_true, List.all_eq_true]
  exact ⟨h.hname, h.hlabels⟩

theorem notMem_flatMap_labelStr {c : Nat} {labels : Labels} (hc1 : c ≠ cColon) (hc2 : c ≠ cComma)
    (hl : ∀ kv ∈ labels, c ∉ kv.1 ∧ c ∉ kv.2) : c ∉ labels.flatMap labelStr := by
  intro m
  rcases List.mem_flatMap.1 m with ⟨kv, hkv, hc⟩
  rcases mem_labelStr.1 hc with h | h | h | h
  · exact (hl kv hkv).1 h
  · exact hc1 h
  · exact (hl kv hkv).2 h
  · exact hc2 h

theorem filterMap_congr' {α β} {f g : α → Option β} {l : List α} (h : ∀ a ∈ l, f a = g a) :
    l.filterMap f = l.filterMap g := by
  induction l with
  | nil => rfl
  | cons a l ih =>
    simp only [List.filterMap_cons, h a (by simp)]
    rw [ih (fun a m => h a (by simp [m]))]

/-! ### strings.Split / SplitN / Join on a tracker-built id -/

theorem splitOn_ne_nil (c : Nat) (s : Str) : splitOn c s ≠ [] := by
  induction s with
  | nil => simp [splitOn]
  | cons x s ih =>
    simp only [splitOn]
    split
    · simp
    · split <;> simp

theorem splitOn_notMem {c : Nat} {A : Str} (h : c ∉ A) : splitOn c A = [A] := by
  induction A with
  | nil => rfl
  | cons x A ih =>
    have hx : x ≠ c := by intro e; exact h (by simp [e])
    simp [splitOn, hx, ih (by intro m; exact h (by simp [m]))]

theorem splitOn_append_sep {c : Nat} {A B : Str} (h : c ∉ A) :
    splitOn c (A ++ c :: B) = A :: splitOn c B := by
  induction A with
  | nil => simp [splitOn]
  | cons x A ih =>
    have hx : x ≠ c := by intro e; exact h (by simp [e])
    have : (x :: A) ++ c :: B = x :: (A ++ c :: B) := rfl
    rw [this]
    simp only [splitOn, hx, if_false]
    rw [ih (by intro m; exact h (by simp [m]))]

theorem splitFirst_sep {c : Nat} {A B : Str} (h : c ∉ A) : splitFirst c (A ++ c :: B) = some (A, B) := by
  induction A with
  | nil => simp [splitFirst]
  | cons x A ih =>
    have hx : x ≠ c := by intro e; exact h (by simp [e])
    have : (x :: A) ++ c :: B = x :: (A ++ c :: B) := rfl
    rw [this]
    simp [splitFirst, hx, ih (by intro m; exact h (by simp [m]))]

theorem joinWith_cons {c : Nat} {x : Str} {r : List Str} (h : r ≠ []) :
    joinWith c (x :: r) = x ++ c :: joinWith c r := by
  cases r with
  | nil => exact absurd rfl h
  | cons y r => rfl

/-- Lemma D: the comma-parts of `k1:v1,k2:v2,…,kn:vn,` -/
theorem splitOn_labels {labels : Labels} (hl : ∀ kv ∈ labels, clean kv.1 = true ∧ cleanVal kv.2 = true) :
    splitOn cComma (labels.flatMap labelStr) = labels.map kvStr ++ [[]] := by
  induction labels with
  | nil => rfl
  | cons kv ls ih =>
    have hc : cComma ∉ kvStr kv := by
      intro m
      simp only [kvStr, List.mem_append, List.mem_cons] at m
      rcases m with m | m | m
      · exact clean_comma (hl kv (by simp)).1 m
      · cases m
      · exact cleanVal_comma (hl kv (by simp)).2 m
    have : (kv :: ls).flatMap labelStr = kvStr kv ++ cComma :: ls.flatMap labelStr := by
      simp [List.flatMap_cons, labelStr]
    rw [this, splitOn_append_sep hc, ih (fun kv m => hl kv (by simp [m]))]
    simp

theorem joinWith_labels (L : Labels) : joinWith cComma (L.map kvStr ++ [[]]) = L.flatMap labelStr := by
  induction L with
  | nil => rfl
  | cons kv L ih =>
    have : (kv :: L).map kvStr ++ [[]] = kvStr kv :: (L.map kvStr ++ [[]]) := rfl
    rw [this, joinWith_cons (by simp), ih]
    simp [List.flatMap_cons, labelStr]

/-! ### `by`: metric name and pairs -/

theorem metricNameOf_sid {name rest : Str} (hn : cBrace ∉ name) :
    metricNameOf (name ++ cBrace :: rest) = name := by
  unfold metricNameOf
  exact takeWhile_sep hn

theorem labelPart_sid {name rest : Str} (hn : cBrace ∉ name) : labelPart (name ++ cBrace :: rest) = rest := by
  unfold labelPart
  rw [splitFirst_sep hn]

/-- scanning the comma-parts `k1:v1, …, kn:vn, ""` for a key equal to `f` is `List.lookup` -/
theorem findSome_parts (f : Str) (labels : Labels) (hl : ∀ kv ∈ labels, clean kv.1 = true) :
    (labels.map kvStr ++ [[]]).findSome? (fun part =>
      match splitFirst cColon part with
      | some (k, v) => if k = f then some v else none
      | none => none) = labels.lookup f := by
  induction labels with
  | nil => simp [splitFirst, List.lookup]
  | cons kv ls ih =>
    obtain ⟨k, v⟩ := kv
    have hk : cColon ∉ k := clean_colon (hl (k, v) (by simp))
    have ih' := ih (fun kv m => hl kv (by simp [m]))
    simp only [List.map_cons, List.cons_append, List.findSome?_cons, List.lookup]
    have : splitFirst cColon (kvStr (k, v)) = some (k, v) := by
      unfold kvStr; exact splitFirst_sep hk
    rw [this]
    by_cases e : k = f
    · subst e; simp
    · have e' : (f == k) = false := by simpa using (fun h : f = k => e h.symm)
      simp only [e, if_false, e']
      exact ih'

theorem fieldValue_sid {name : Str} {labels : Labels} (h : Safe name labels) (f : Str) :
    fieldValue f (seriesIdOf name labels) = labels.lookup f := by
  unfold fieldValue seriesIdOf
  rw [labelPart_sid (cleanV_brace h.hname), splitOn_labels h.hlabels]
  exact findSome_parts f labels (fun kv m => (h.hlabels kv m).1)

theorem extractPairs_sid {name : Str} {labels : Labels} (fields : List Str) (h : Safe name labels) :
    extractPairs fields (seriesIdOf name labels)
      = (specGroupKey fields false labels).map kvStr := by
  unfold extractPairs specGroupKey
  simp only [Bool.false_eq_true, if_false, List.map_filterMap]
  apply filterMap_congr'
  intro f _
  rw [fieldValue_sid h f]
  cases labels.lookup f <;> simp [kvStr]

theorem byKey_sid {name : Str} {labels : Labels} (fields : List Str) (h : Safe name labels) :
    byKey fields (seriesIdOf name labels) = render false name (specGroupKey fields false labels) := by
  unfold byKey render
  rw [extractPairs_sid fields h]
  have : metricNameOf (seriesIdOf name labels) = name := metricNameOf_sid (cleanV_brace h.hname)
  simp [this]

/-! ### `without` -/

theorem keepPart_kvStr {fields : List Str} {kv : Str × Str} (hk : clean kv.1 = true) :
    keepPart fields (kvStr kv) = !fields.contains kv.1 := by
  unfold keepPart kvStr
  rw [splitFirst_sep (clean_colon hk)]

theorem filter_keepPart {fields : List Str} {labels : Labels}
    (hl : ∀ kv ∈ labels, clean kv.1 = true ∧ cleanVal kv.2 = true) :
    (labels.map kvStr ++ [[]]).filter (keepPart fields)
      = (labels.filter (fun kv => !fields.contains kv.1)).map kvStr ++ [[]] := by
  induction labels with
  | nil => simp [keepPart, splitFirst]
  | cons kv ls ih =>
    have ih' := ih (fun kv m => hl kv (by simp [m]))
    have hk := keepPart_kvStr (fields := fields) (hl kv (by simp)).1
    simp only [List.map_cons, List.cons_append, List.filter_cons, hk]
    cases hfc : fields.contains kv.1 <;> simp [ih']

theorem withoutKey_sid {name : Str} {labels : Labels} (fields : List Str) (h : Safe name labels) :
    withoutKey fields (seriesIdOf name labels) = render true name (specGroupKey fields true labels) := by
  unfold withoutKey render specGroupKey
  simp only [if_true]
  cases hfe : fields.isEmpty with
  | true =>
    have : fields = [] := by simpa using hfe
    subst this
    have : labels.filter (fun _ => true) = labels := List.filter_eq_self.2 (fun _ _ => rfl)
    simp [this]
  | false =>
    simp only [Bool.false_eq_true, if_false]
    -- the comma-parts: first part `name{<first label or nothing>`, then the other labels, then ""
    have hparts : ∃ p0' , splitOn cComma (seriesIdOf name labels)
        = (name ++ cBrace :: p0') :: (labels.map kvStr ++ [[]]).tail
        ∧ p0' :: (labels.map kvStr ++ [[]]).tail = labels.map kvStr ++ [[]] := by
      cases labels with
      | nil =>
        refine ⟨[], ?_, rfl⟩
        have : cComma ∉ name ++ [cBrace] := by
          intro m; rcases List.mem_append.1 m with m | m
          · exact cleanV_comma h.hname m
          · simp at m; cases m
        simpa [seriesIdOf] using splitOn_notMem this
      | cons kv ls =>
        refine ⟨kvStr kv, ?_, rfl⟩
        have hls : ∀ kv ∈ ls, clean kv.1 = true ∧ cleanVal kv.2 = true := fun kv m => h.hlabels kv (by simp [m])
        have hc : cComma ∉ name ++ cBrace :: kvStr kv := by
          intro m
          simp only [kvStr, List.mem_append, List.mem_cons] at m
          rcases m with m | m | m | m | m
          · exact cleanV_comma h.hname m
          · cases m
          · exact clean_comma (h.hlabels kv (by simp)).1 m
          · cases m
          · exact cleanVal_comma (h.hlabels kv (by simp)).2 m
        have : seriesIdOf name (kv :: ls) = (name ++ cBrace :: kvStr kv) ++ cComma :: ls.flatMap labelStr := by
          simp [seriesIdOf, List.flatMap_cons, labelStr]
        rw [this, splitOn_append_sep hc, splitOn_labels hls]
        simp
    obtain ⟨p0', hsplit, hcons⟩ := hparts
    rw [hsplit]
    simp only [splitFirst_sep (cleanV_brace h.hname)]
    rw [hcons, filter_keepPart h.hlabels, joinWith_labels]
    rfl

theorem extract_eq_spec {name : Str} {labels : Labels} (fields : List Str) (without : Bool)
    (h : Safe name labels) :
    extractGroupKey fields without (seriesIdOf name labels)
      = render without name (specGroupKey fields without labels) := by
  unfold extractGroupKey
  cases without with
  | true => simpa using withoutKey_sid fields h
  | false => simpa using byKey_sid fields h

end SigModel.Lemmas.C09
