/-
C04 statistics slice, lemmas part a: the algebra of the min / max cells under exact arithmetic.
`cvMin = reduceMinMax exact true` and `cvMax = reduceMinMax exact false` are associative and commutative with
identity `invalid` on cells that are not `backfill` (SegStats cells never are), and a running (min, max) pair
that has seen the same values stays compatible (`Compat`): merging the max of the other side into the min
changes nothing.  Core Lean only.
-/
import SigModel.Model.Stats

namespace SigModel.Stats

@[simp] theorem exact_apply (q : Rat) : exact q = q := rfl

theorem castMin (a b : Int) : ((min a b : Int) : Rat) = min (a : Rat) (b : Rat) := by
  rcases Int.le_total a b with h | h
  · have h' : (a : Rat) ≤ (b : Rat) := Rat.intCast_le_intCast.mpr h
    rw [Int.min_eq_left h]; grind
  · have h' : (b : Rat) ≤ (a : Rat) := Rat.intCast_le_intCast.mpr h
    rw [Int.min_eq_right h]; grind

theorem castMax (a b : Int) : ((max a b : Int) : Rat) = max (a : Rat) (b : Rat) := by
  rcases Int.le_total a b with h | h
  · have h' : (a : Rat) ≤ (b : Rat) := Rat.intCast_le_intCast.mpr h
    rw [Int.max_eq_right h]; grind
  · have h' : (b : Rat) ≤ (a : Rat) := Rat.intCast_le_intCast.mpr h
    rw [Int.max_eq_left h]; grind

/-! ### byte strings: `strMin` / `strMax` are the meet / join of the lexicographic order -/

theorem str_nlt_trans {a b c : Str} (h1 : ¬ a < b) (h2 : ¬ b < c) : ¬ a < c :=
  List.not_lt.mpr (List.le_trans (List.not_lex_lt.mp h2) (List.not_lex_lt.mp h1))

theorem str_eq_of_nlt {a b : Str} (h1 : ¬ a < b) (h2 : ¬ b < a) : a = b :=
  List.le_antisymm (List.not_lex_lt.mp h2) (List.not_lex_lt.mp h1)

theorem strMin_comm (a b : Str) : strMin a b = strMin b a := by
  unfold strMin
  by_cases h1 : a < b <;> by_cases h2 : b < a <;> simp [h1, h2]
  · exact absurd h2 (List.lt_asymm h1)
  · exact (str_eq_of_nlt h1 h2).symm

theorem strMax_comm (a b : Str) : strMax a b = strMax b a := by
  unfold strMax
  by_cases h1 : a < b <;> by_cases h2 : b < a <;> simp [h1, h2]
  · exact absurd h2 (List.lt_asymm h1)
  · exact (str_eq_of_nlt h1 h2).symm

theorem strMin_assoc (a b c : Str) : strMin (strMin a b) c = strMin a (strMin b c) := by
  unfold strMin
  by_cases hab : a < b <;> by_cases hbc : b < c <;> simp only [hab, hbc, if_true, if_false]
  · simp [List.lt_trans hab hbc]
  · simp [str_nlt_trans hab hbc]

theorem strMax_assoc (a b c : Str) : strMax (strMax a b) c = strMax a (strMax b c) := by
  unfold strMax
  by_cases hba : b < a <;> by_cases hcb : c < b <;> simp only [hba, hcb, if_true, if_false]
  · simp [List.lt_trans hcb hba]
  · simp [str_nlt_trans hcb hba]

theorem strMin_self (a : Str) : strMin a a = a := by simp [strMin]
theorem strMax_self (a : Str) : strMax a a = a := by simp [strMax]

/-! ### cells -/

def cvMin (a b : CV) : CV := reduceMinMax exact true a b
def cvMax (a b : CV) : CV := reduceMinMax exact false a b

def CV.notBackfill : CV → Prop
  | .backfill => False
  | _ => True

theorem cvMin_invalid_left (a : CV) : cvMin .invalid a = a := rfl
theorem cvMax_invalid_left (a : CV) : cvMax .invalid a = a := rfl

theorem cvMin_invalid_right (a : CV) (h : a.notBackfill) : cvMin a .invalid = a := by
  cases a <;> simp_all [cvMin, reduceMinMax, CV.notBackfill]
theorem cvMax_invalid_right (a : CV) (h : a.notBackfill) : cvMax a .invalid = a := by
  cases a <;> simp_all [cvMax, reduceMinMax, CV.notBackfill]

theorem cvMin_notBackfill {a b : CV} (ha : a.notBackfill) (hb : b.notBackfill) : (cvMin a b).notBackfill := by
  cases a <;> cases b <;> simp_all [cvMin, reduceMinMax, CV.notBackfill]
theorem cvMax_notBackfill {a b : CV} (ha : a.notBackfill) (hb : b.notBackfill) : (cvMax a b).notBackfill := by
  cases a <;> cases b <;> simp_all [cvMax, reduceMinMax, CV.notBackfill]

theorem cvMin_comm (a b : CV) (ha : a.notBackfill) (hb : b.notBackfill) : cvMin a b = cvMin b a := by
  cases a <;> cases b <;> simp_all [cvMin, reduceMinMax, CV.notBackfill, pickI, pickQ, pickS]
  · omega
  · grind
  · grind
  · grind
  · exact strMin_comm _ _

theorem cvMax_comm (a b : CV) (ha : a.notBackfill) (hb : b.notBackfill) : cvMax a b = cvMax b a := by
  cases a <;> cases b <;> simp_all [cvMax, reduceMinMax, CV.notBackfill, pickI, pickQ, pickS]
  · omega
  · grind
  · grind
  · grind
  · exact strMax_comm _ _

theorem cvMin_assoc (a b c : CV) (ha : a.notBackfill) (hb : b.notBackfill) (hc : c.notBackfill) :
    cvMin (cvMin a b) c = cvMin a (cvMin b c) := by
  cases a <;> cases b <;> cases c <;>
    simp_all [cvMin, reduceMinMax, CV.notBackfill, pickI, pickQ, pickS, castMin, strMin_assoc] <;>
    first | omega | grind

theorem cvMax_assoc (a b c : CV) (ha : a.notBackfill) (hb : b.notBackfill) (hc : c.notBackfill) :
    cvMax (cvMax a b) c = cvMax a (cvMax b c) := by
  cases a <;> cases b <;> cases c <;>
    simp_all [cvMax, reduceMinMax, CV.notBackfill, pickI, pickQ, pickS, castMax, strMax_assoc] <;>
    first | omega | grind

/-! ### a (min, max) pair that has seen the same values -/

def Compat (mn mx : CV) : Prop := cvMin mn mx = mn ∧ cvMax mn mx = mx

theorem compat_init : Compat .invalid .invalid := ⟨rfl, rfl⟩

/-- `a ≤ b` on byte strings -/
def StrLe (a b : Str) : Prop := ¬ b < a

theorem strLe_trans {a b c : Str} (h1 : StrLe a b) (h2 : StrLe b c) : StrLe a c := str_nlt_trans h2 h1

theorem strMin_of_le {a b : Str} (h : StrLe a b) : strMin a b = a := by
  unfold strMin; unfold StrLe at h
  by_cases h1 : a < b
  · simp [h1]
  · simp only [h1, if_false]; exact str_eq_of_nlt h h1

theorem strMax_of_le {a b : Str} (h : StrLe a b) : strMax a b = b := by
  unfold strMax; unfold StrLe at h
  simp [h]

theorem strLe_of_strMin {a b : Str} (h : strMin a b = a) : StrLe a b := by
  unfold strMin at h; unfold StrLe
  by_cases h1 : a < b
  · exact List.lt_asymm h1
  · simp only [h1, if_false] at h; subst h; exact List.lt_irrefl _

theorem strMin_le_left (a c : Str) : StrLe (strMin a c) a := by
  unfold strMin StrLe
  by_cases h : a < c
  · simp only [h, if_true]; exact List.lt_irrefl a
  · simp only [h, if_false]; exact fun h' => h'

theorem strLe_strMax_left (b c : Str) : StrLe b (strMax b c) := by
  unfold strMax StrLe
  by_cases h : c < b
  · simp only [h, if_true]; exact List.lt_irrefl b
  · simp only [h, if_false]; exact fun h' => h'

theorem strMin_strMax_absorb (a b c : Str) (h1 : strMin a b = a) :
    strMin (strMin a c) (strMax b c) = strMin a c ∧ strMax (strMin a c) (strMax b c) = strMax b c := by
  have h : StrLe (strMin a c) (strMax b c) :=
    strLe_trans (strLe_trans (strMin_le_left a c) (strLe_of_strMin h1)) (strLe_strMax_left b c)
  exact ⟨strMin_of_le h, strMax_of_le h⟩

theorem compat_step (mn mx c : CV) (h1 : mn.notBackfill) (h2 : mx.notBackfill) (h3 : c.notBackfill)
    (h : Compat mn mx) : Compat (cvMin mn c) (cvMax mx c) := by
  unfold Compat at *
  cases mn <;> cases mx <;> cases c <;>
    simp_all [cvMin, cvMax, reduceMinMax, CV.notBackfill, pickI, pickQ, pickS] <;>
    first | omega | grind | skip
  · exact ⟨strMin_self _, strMax_self _⟩
  · exact strMin_strMax_absorb _ _ _ h.1

end SigModel.Stats
