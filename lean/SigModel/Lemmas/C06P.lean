/-
Helper lemmas for the plan / parallelism layer of C06 (Model/PipePlan.lean): sorting theory over an arbitrary
comparison `le : α → α → Bool` that is transitive and total, and antisymmetric on the rows at hand (the op format makes
the last sort key row-unique).  Core Lean only.
-/
import SigModel.Model.PipePlan

namespace SigModel.Lemmas.C06P
open List

variable {α : Type} {le : α → α → Bool}

/-- antisymmetry of `le` on the elements of a list -/
def AS (le : α → α → Bool) (l : List α) : Prop := ∀ a b, a ∈ l → b ∈ l → le a b = true → le b a = true → a = b

theorem AS.mono {l l' : List α} (h : AS le l) (sub : ∀ x, x ∈ l' → x ∈ l) : AS le l' :=
  fun a b ha hb => h a b (sub a ha) (sub b hb)

/-- two sorted permutations of each other are equal -/
theorem sorted_perm_eq {l₁ l₂ : List α} (as : AS le l₁) (p : l₁ ~ l₂)
    (s₁ : l₁.Pairwise (fun a b => le a b = true)) (s₂ : l₂.Pairwise (fun a b => le a b = true)) : l₁ = l₂ :=
  Perm.eq_of_pairwise (le := fun a b => le a b = true)
    (fun a b ha hb h1 h2 => as a b ha (p.symm.subset hb) h1 h2) s₁ s₂ p

section order
variable (htr : ∀ a b c : α, le a b = true → le b c = true → le a c = true) (htot : ∀ a b : α, (le a b || le b a) = true)
include htr htot

theorem mergeSort_perm_eq {l₁ l₂ : List α} (as : AS le l₁) (p : l₁ ~ l₂) : l₁.mergeSort le = l₂.mergeSort le := by
  apply sorted_perm_eq (le := le)
  · exact as.mono (fun x hx => (mem_mergeSort.mp hx))
  · exact (mergeSort_perm l₁ le).trans (p.trans (mergeSort_perm l₂ le).symm)
  · exact pairwise_mergeSort htr htot l₁
  · exact pairwise_mergeSort htr htot l₂

/-- merging two sorted lists is sorting their concatenation -/
theorem merge_eq_mergeSort {xs ys : List α} (as : AS le (xs ++ ys))
    (sx : xs.Pairwise (fun a b => le a b = true)) (sy : ys.Pairwise (fun a b => le a b = true)) :
    merge xs ys le = (xs ++ ys).mergeSort le := by
  apply sorted_perm_eq (le := le)
  · exact as.mono (fun x hx => by
      rcases mem_merge.mp hx with h | h
      · exact mem_append_left _ h
      · exact mem_append_right _ h)
  · exact (merge_perm_append le).trans (mergeSort_perm _ le).symm
  · exact pairwise_merge htr htot xs ys sx sy
  · exact pairwise_mergeSort htr htot _

end order

/-- the first L outputs of a merge depend only on the first L elements of either input -/
theorem take_merge_take_left (le : α → α → Bool) : ∀ (xs ys : List α) (L M : Nat), L ≤ M →
    (merge (xs.take M) ys le).take L = (merge xs ys le).take L
  | [], ys, L, M, _ => by simp
  | x :: xs, [], L, M, h => by
    simp only [merge_right]
    rw [take_take]; congr 1; omega
  | x :: xs, y :: ys, 0, M, _ => by simp
  | x :: xs, y :: ys, L + 1, M + 1, h => by
    simp only [take_succ_cons]
    by_cases hxy : le x y = true
    · rw [cons_merge_cons_pos _ _ _ hxy, cons_merge_cons_pos _ _ _ hxy]
      simp only [take_succ_cons]
      rw [take_merge_take_left le xs (y :: ys) L M (by omega)]
    · rw [cons_merge_cons_neg _ _ _ hxy, cons_merge_cons_neg _ _ _ hxy]
      simp only [take_succ_cons]
      have := take_merge_take_left le (x :: xs) ys L (M + 1) (by omega)
      simp only [take_succ_cons] at this
      rw [this]
  | x :: xs, y :: ys, L + 1, 0, h => by omega
termination_by xs ys => xs.length + ys.length

theorem take_merge_take_right (le : α → α → Bool) : ∀ (xs ys : List α) (L M : Nat), L ≤ M →
    (merge xs (ys.take M) le).take L = (merge xs ys le).take L
  | xs, [], L, M, _ => by simp
  | [], y :: ys, L, M, h => by
    simp only [nil_merge]
    rw [take_take]; congr 1; omega
  | x :: xs, y :: ys, 0, M, _ => by simp
  | x :: xs, y :: ys, L + 1, M + 1, h => by
    simp only [take_succ_cons]
    by_cases hxy : le x y = true
    · rw [cons_merge_cons_pos _ _ _ hxy, cons_merge_cons_pos _ _ _ hxy]
      simp only [take_succ_cons]
      have := take_merge_take_right le xs (y :: ys) L (M + 1) (by omega)
      simp only [take_succ_cons] at this
      rw [this]
    · rw [cons_merge_cons_neg _ _ _ hxy, cons_merge_cons_neg _ _ _ hxy]
      simp only [take_succ_cons]
      rw [take_merge_take_right le (x :: xs) ys L M (by omega)]
  | x :: xs, y :: ys, L + 1, 0, h => by omega
termination_by xs ys => xs.length + ys.length

/-! ### the first L of the sorted list -/

open SigModel.PipePlan SigModel.Pipe

theorem take_pairwise {R : α → α → Prop} {l : List α} (h : l.Pairwise R) (n : Nat) : (l.take n).Pairwise R :=
  h.sublist (take_sublist n l)

section topL
variable (htr : ∀ a b c : α, le a b = true → le b c = true → le a c = true) (htot : ∀ a b : α, (le a b || le b a) = true)
include htr htot

/-- sorting "sorted prefix ++ rest" = merging the prefix with the sorted rest -/
theorem mergeSort_sorted_append {x b : List α} (as : AS le (x ++ b)) (sx : x.Pairwise (fun a b => le a b = true)) :
    (x ++ b).mergeSort le = merge x (b.mergeSort le) le := by
  have as' : AS le (x ++ b.mergeSort le) := as.mono (fun y hy => by
    rcases mem_append.mp hy with h | h
    · exact mem_append_left _ h
    · exact mem_append_right _ (mem_mergeSort.mp h))
  rw [merge_eq_mergeSort htr htot as' sx (pairwise_mergeSort htr htot b)]
  exact mergeSort_perm_eq htr htot as ((Perm.refl x).append (mergeSort_perm b le).symm)

theorem sortL_append_left (L : Nat) {a b : List α} (as : AS le (a ++ b)) :
    sortL le L (sortL le L a ++ b) = sortL le L (a ++ b) := by
  unfold sortL
  have sub : ∀ y, y ∈ (a.mergeSort le).take L ++ b → y ∈ a ++ b := fun y hy => by
    rcases mem_append.mp hy with h | h
    · exact mem_append_left _ (mem_mergeSort.mp (mem_of_mem_take h))
    · exact mem_append_right _ h
  rw [mergeSort_sorted_append htr htot (as.mono sub) (take_pairwise (pairwise_mergeSort htr htot a) L)]
  rw [take_merge_take_left le _ _ L L (Nat.le_refl _)]
  have as2 : AS le (a.mergeSort le ++ b) := as.mono (fun y hy => by
    rcases mem_append.mp hy with h | h
    · exact mem_append_left _ (mem_mergeSort.mp h)
    · exact mem_append_right _ h)
  rw [← mergeSort_sorted_append htr htot as2 (pairwise_mergeSort htr htot a)]
  rw [mergeSort_perm_eq htr htot as2 ((mergeSort_perm a le).append (Perm.refl b))]

theorem sortL_append_right (L : Nat) {a b : List α} (as : AS le (a ++ b)) :
    sortL le L (a ++ sortL le L b) = sortL le L (a ++ b) := by
  have as' : AS le (b ++ a) := as.mono (fun y hy => by
    rcases mem_append.mp hy with h | h
    · exact mem_append_right _ h
    · exact mem_append_left _ h)
  have h1 : sortL le L (a ++ sortL le L b) = sortL le L (sortL le L b ++ a) := by
    unfold sortL
    rw [mergeSort_perm_eq htr htot (as.mono (fun y hy => by
      rcases mem_append.mp hy with h | h
      · exact mem_append_left _ h
      · exact mem_append_right _ (mem_mergeSort.mp (mem_of_mem_take h)))) perm_append_comm]
  have h2 : sortL le L (a ++ b) = sortL le L (b ++ a) := by
    unfold sortL
    rw [mergeSort_perm_eq htr htot as perm_append_comm]
  rw [h1, h2, sortL_append_left htr htot L as']

/-- the first L of everything = the first L of the chains' own first L (the merger's job) -/
theorem sortL_flatten_map (L : Nat) : ∀ (shs : List (List α)) (_ : AS le shs.flatten),
    sortL le L (shs.map (sortL le L)).flatten = sortL le L shs.flatten
  | [], _ => rfl
  | a :: r, as => by
    simp only [map_cons, flatten_cons]
    have asr : AS le r.flatten := as.mono (fun y hy => by simp only [flatten_cons]; exact mem_append_right _ hy)
    have sub : ∀ y, y ∈ a ++ (r.map (sortL le L)).flatten → y ∈ (a :: r).flatten := fun y hy => by
      simp only [flatten_cons]
      rcases mem_append.mp hy with h | h
      · exact mem_append_left _ h
      · apply mem_append_right
        rcases mem_flatten.mp h with ⟨q, hq, hy⟩
        rcases mem_map.mp hq with ⟨q0, hq0, rfl⟩
        exact mem_flatten.mpr ⟨q0, hq0, mem_mergeSort.mp (mem_of_mem_take hy)⟩
    rw [sortL_append_left htr htot L (as.mono (fun y hy => by
      rcases mem_append.mp hy with h | h
      · exact sub y (mem_append_left _ h)
      · exact sub y (mem_append_right _ h)))]
    rw [← sortL_append_right htr htot L (as.mono sub)]
    rw [sortL_flatten_map L r asr]
    rw [sortL_append_right htr htot L (by simpa using as)]

end topL

/-! ### the sort processor under the Fetch loop -/

/-- resultsSoFar after the batches -/
def sortFold (le : Row → Row → Bool) (L : Nat) : Option Table → List Table → Option Table
  | r, [] => r
  | r, b :: bs => sortFold le L (some (sortStep le L r b)) bs

theorem sort_pass (le : Row → Row → Bool) (L : Nat) : ∀ (parts : List Table) (r : Option Table),
    pass (sortProcLe le L) false { rsf := r, done := false } parts
      = ({ rsf := sortFold le L r parts, done := true }, otl (sortFold le L r parts))
  | [], r => by simp [pass, sortProcLe, sortFold]
  | b :: bs, r => by
    have ih := sort_pass le L bs (some (sortStep le L r b))
    simp only [pass, sortProcLe, sortFold, Bool.false_eq_true, ↓reduceIte, List.nil_append] at ih ⊢
    rw [ih]

section sortproc
variable {le : Row → Row → Bool}
variable (htr : ∀ a b c : Row, le a b = true → le b c = true → le a c = true) (htot : ∀ a b : Row, (le a b || le b a) = true)
include htr htot

theorem sortStep_some (L : Nat) {acc b : Table} (as : AS le (acc ++ b)) :
    sortStep le L (some (sortL le L acc)) b = sortL le L (acc ++ b) := by
  simp only [sortStep, sortL]
  rw [take_merge_take_left le _ _ L L (Nat.le_refl _)]
  have as' : AS le (acc.mergeSort le ++ b.mergeSort le) := as.mono (fun y hy => by
    rcases mem_append.mp hy with h | h
    · exact mem_append_left _ (mem_mergeSort.mp h)
    · exact mem_append_right _ (mem_mergeSort.mp h))
  rw [merge_eq_mergeSort htr htot as' (pairwise_mergeSort htr htot acc) (pairwise_mergeSort htr htot b)]
  rw [mergeSort_perm_eq htr htot as' ((mergeSort_perm acc le).append (mergeSort_perm b le))]

theorem sortFold_some (L : Nat) : ∀ (parts : List Table) (acc : Table) (_ : AS le (acc ++ parts.flatten)),
    sortFold le L (some (sortL le L acc)) parts = some (sortL le L (acc ++ parts.flatten))
  | [], acc, _ => by simp [sortFold]
  | b :: bs, acc, as => by
    simp only [sortFold, flatten_cons]
    rw [sortStep_some htr htot L (as.mono (fun y hy => by
      simp only [flatten_cons]
      rcases mem_append.mp hy with h | h
      · exact mem_append_left _ h
      · exact mem_append_right _ (mem_append_left _ h)))]
    rw [sortFold_some L bs (acc ++ b) (by simpa [List.append_assoc] using as), List.append_assoc]

theorem sortFold_none (L : Nat) (parts : List Table) (as : AS le parts.flatten) :
    ((sortFold le L none parts).getD []) = sortL le L parts.flatten := by
  cases parts with
  | nil => simp [sortFold, sortL]
  | cons b bs =>
    simp only [sortFold, flatten_cons]
    have : sortStep le L none b = sortL le L b := rfl
    rw [this, sortFold_some htr htot L bs b (by simpa using as)]
    rfl

/-- `sort` under the Fetch loop: whatever the batches, the first L rows of the sorted input -/
theorem sort_runBatched (L : Nat) (parts : List Table) (as : AS le parts.flatten) :
    runBatched (sortProcLe le L) parts = sortL le L parts.flatten := by
  have h := sort_pass le L parts none
  simp only [runBatched, runBatches, show (sortProcLe le L).twoPass = false from rfl,
    show (sortProcLe le L).bottleneck = true from rfl, Bool.false_eq_true, ↓reduceIte, Bool.not_true,
    show (sortProcLe le L).init = { rsf := none, done := false } from rfl, h]
  rw [← sortFold_none htr htot L parts as]
  cases sortFold le L none parts <;> simp [otl]

end sortproc

/-! ### the merger: IndexOfMin, one merge round, the Fetch loop with its limit -/

section merger
variable {less : α → α → Bool}
variable (htr : ∀ a b c : α, le a b = true → le b c = true → le a c = true) (htot : ∀ a b : α, (le a b || le b a) = true)
variable (hl : ∀ a b : α, less a b = !le b a)
include htr htot hl

omit htr hl in
theorem le_refl' (a : α) : le a a = true := by simpa using htot a a

theorem minGo_spec : ∀ (xs : List α) (best : Nat × α) (i : Nat),
    le (minGo less best i xs).2 best.2 = true ∧ (∀ y, y ∈ xs → le (minGo less best i xs).2 y = true) ∧
      (minGo less best i xs = best ∨ ∃ j, (minGo less best i xs).1 = i + j ∧ xs[j]? = some (minGo less best i xs).2)
  | [], best, i => by
    refine ⟨le_refl' htot _, by simp, Or.inl rfl⟩
  | x :: xs, best, i => by
    by_cases h : less x best.2 = true
    · have hx : le x best.2 = true := by
        have := htot x best.2
        rw [hl] at h
        cases h1 : le x best.2 <;> simp_all
      have ih := minGo_spec xs (i, x) (i + 1)
      simp only [minGo, h, ↓reduceIte]
      refine ⟨htr _ _ _ ih.1 hx, ?_, ?_⟩
      · intro y hy
        rcases mem_cons.mp hy with rfl | hy
        · exact ih.1
        · exact ih.2.1 y hy
      · right
        rcases ih.2.2 with e | ⟨j, hj1, hj2⟩
        · exact ⟨0, by rw [e]; rfl, by rw [e]; rfl⟩
        · exact ⟨j + 1, by omega, by simpa using hj2⟩
    · have hx : le best.2 x = true := by
        rw [hl] at h
        cases h1 : le best.2 x <;> simp_all
      have ih := minGo_spec xs best (i + 1)
      simp only [minGo, h, Bool.false_eq_true, ↓reduceIte]
      refine ⟨ih.1, ?_, ?_⟩
      · intro y hy
        rcases mem_cons.mp hy with rfl | hy
        · exact htr _ _ _ ih.1 hx
        · exact ih.2.1 y hy
      · rcases ih.2.2 with e | ⟨j, hj1, hj2⟩
        · exact Or.inl e
        · exact Or.inr ⟨j + 1, by omega, by simpa using hj2⟩

theorem indexOfMin_spec {arr : List α} {r : Nat × α} (h : indexOfMin less arr = some r) :
    arr[r.1]? = some r.2 ∧ ∀ y, y ∈ arr → le r.2 y = true := by
  cases arr with
  | nil => simp [indexOfMin] at h
  | cons x xs =>
    simp only [indexOfMin, Option.some.injEq] at h
    have sp := minGo_spec htr htot hl xs (0, x) 1
    rw [h] at sp
    refine ⟨?_, ?_⟩
    · rcases sp.2.2 with e | ⟨j, hj1, hj2⟩
      · rw [e]; rfl
      · rw [hj1, Nat.add_comm]; simpa using hj2
    · intro y hy
      rcases mem_cons.mp hy with rfl | hy
      · exact sp.1
      · exact sp.2.1 y hy

omit htr htot hl in
theorem heads_get : ∀ (qs : List (List α)) (i : Nat), (∀ q, q ∈ qs → q ≠ []) →
    (qs.filterMap List.head?)[i]? = (qs[i]?).bind List.head?
  | [], i, _ => by simp
  | q :: qs, i, hne => by
    cases q with
    | nil => exact absurd rfl (hne [] mem_cons_self)
    | cons a t =>
      cases i with
      | zero => simp
      | succ i =>
        simp only [filterMap_cons, head?_cons, getElem?_cons_succ]
        exact heads_get qs i (fun q hq => hne q (mem_cons_of_mem _ hq))

omit htr htot hl in
theorem dropHeadAt_perm : ∀ (qs : List (List α)) (i : Nat) (h : α) (t : List α), qs[i]? = some (h :: t) →
    qs.flatten ~ h :: (dropHeadAt qs i).flatten
  | [], i, h, t, e => by simp at e
  | q :: qs, 0, h, t, e => by
    simp only [getElem?_cons_zero, Option.some.injEq] at e
    subst e
    simp [dropHeadAt]
  | q :: qs, i + 1, h, t, e => by
    simp only [getElem?_cons_succ] at e
    have ih := dropHeadAt_perm qs i h t e
    simp only [dropHeadAt, flatten_cons]
    exact ((Perm.refl q).append ih).trans perm_middle

omit htr htot hl in
theorem dropHeadAt_sorted {R : α → α → Prop} : ∀ (qs : List (List α)) (i : Nat), (∀ q, q ∈ qs → q.Pairwise R) →
    ∀ q, q ∈ dropHeadAt qs i → q.Pairwise R
  | [], i, _, q, hq => by simp [dropHeadAt] at hq
  | p :: qs, 0, hs, q, hq => by
    simp only [dropHeadAt, mem_cons] at hq
    rcases hq with rfl | hq
    · exact (hs p mem_cons_self).sublist (tail_sublist p)
    · exact hs q (mem_cons_of_mem _ hq)
  | p :: qs, i + 1, hs, q, hq => by
    simp only [dropHeadAt, mem_cons] at hq
    rcases hq with rfl | hq
    · exact hs q mem_cons_self
    · exact dropHeadAt_sorted qs i (fun q hq => hs q (mem_cons_of_mem _ hq)) q hq

/-- one merge round over sorted queues: what is merged is sorted, not after anything that is left, and nothing is lost -/
theorem mergeRound_spec : ∀ (fuel : Nat) (qs : List (List α)), (∀ q, q ∈ qs → q.Pairwise (fun a b => le a b = true)) →
    ((mergeRound less fuel qs).1 ++ (mergeRound less fuel qs).2.flatten ~ qs.flatten) ∧
    (mergeRound less fuel qs).1.Pairwise (fun a b => le a b = true) ∧
    (∀ x y, x ∈ (mergeRound less fuel qs).1 → y ∈ (mergeRound less fuel qs).2.flatten → le x y = true) ∧
    (∀ q, q ∈ (mergeRound less fuel qs).2 → q.Pairwise (fun a b => le a b = true))
  | 0, qs, hs => by simp [mergeRound]; exact hs
  | fuel + 1, qs, hs => by
    by_cases hany : qs.any List.isEmpty = true
    · simp only [mergeRound, hany, ↓reduceIte]
      simp; exact hs
    · have hne : ∀ q, q ∈ qs → q ≠ [] := by
        intro q hq e
        apply hany
        simp only [any_eq_true]
        exact ⟨q, hq, by simp [e]⟩
      cases hmin : indexOfMin less (qs.filterMap List.head?) with
      | none =>
        simp only [mergeRound, hany, Bool.false_eq_true, ↓reduceIte, hmin]
        simp; exact hs
      | some r =>
        obtain ⟨i, h⟩ := r
        have sp := indexOfMin_spec htr htot hl hmin
        have hget := heads_get qs i hne
        rw [sp.1] at hget
        -- the queue the head comes from
        obtain ⟨qi, hqi, hhead⟩ : ∃ qi, qs[i]? = some qi ∧ qi.head? = some h := by
          cases e : qs[i]? with
          | none => simp [e] at hget
          | some qi => exact ⟨qi, rfl, by simpa [e] using hget.symm⟩
        obtain ⟨t, rfl⟩ : ∃ t, qi = h :: t := by
          cases qi with
          | nil => simp at hhead
          | cons a t => simp at hhead; exact ⟨t, by rw [hhead]⟩
        have hperm := dropHeadAt_perm qs i h t hqi
        -- h is not after any row of any queue
        have hmin' : ∀ y, y ∈ qs.flatten → le h y = true := by
          intro y hy
          rcases mem_flatten.mp hy with ⟨q, hq, hyq⟩
          cases q with
          | nil => exact absurd rfl (hne [] hq)
          | cons a tq =>
            have ha : le h a = true := sp.2 a (by
              apply mem_filterMap.mpr
              exact ⟨a :: tq, hq, rfl⟩)
            rcases mem_cons.mp hyq with rfl | hyt
            · exact ha
            · exact htr _ _ _ ha (rel_of_pairwise_cons (hs _ hq) hyt)
        have ih := mergeRound_spec fuel (dropHeadAt qs i) (dropHeadAt_sorted qs i hs)
        simp only [mergeRound, hany, Bool.false_eq_true, ↓reduceIte, hmin]
        have hsub : ∀ y, y ∈ (mergeRound less fuel (dropHeadAt qs i)).1 ++ (mergeRound less fuel (dropHeadAt qs i)).2.flatten →
            y ∈ qs.flatten := fun y hy =>
          hperm.symm.subset (mem_cons_of_mem _ (ih.1.subset hy))
        refine ⟨?_, ?_, ?_, ih.2.2.2⟩
        · simp only [cons_append]
          exact ((Perm.cons h ih.1).trans hperm.symm)
        · exact pairwise_cons.mpr ⟨fun x hx => hmin' x (hsub x (mem_append_left _ hx)), ih.2.1⟩
        · intro x y hx hy
          rcases mem_cons.mp hx with rfl | hx
          · exact hmin' y (hsub y (mem_append_right _ hy))
          · exact ih.2.2.1 x y hx hy

end merger

theorem totalLen_eq (qs : List (List α)) : totalLen qs = qs.flatten.length := by
  simp [totalLen, length_flatten]

theorem flatten_filter_nonempty : ∀ (qs : List (List α)), (qs.filter (fun q => !q.isEmpty)).flatten = qs.flatten
  | [] => rfl
  | q :: qs => by
    cases q with
    | nil => simp [flatten_filter_nonempty qs]
    | cons a t => simp [flatten_filter_nonempty qs]

theorem mergeRound_progress (less : α → α → Bool) (fuel : Nat) (qs : List (List α)) (hne : qs ≠ [])
    (hall : ∀ q, q ∈ qs → q ≠ []) : (mergeRound less (fuel + 1) qs).1 ≠ [] := by
  have hany : ¬ (qs.any List.isEmpty = true) := by
    intro h
    rcases any_eq_true.mp h with ⟨q, hq, he⟩
    exact hall q hq (by simpa using he)
  cases qs with
  | nil => exact absurd rfl hne
  | cons q qs =>
    cases q with
    | nil => exact absurd rfl (hall [] mem_cons_self)
    | cons a t =>
      simp only [mergeRound, hany, Bool.false_eq_true, ↓reduceIte, filterMap_cons, head?_cons, indexOfMin]
      simp

section mergerRun
variable {le less : Row → Row → Bool}
variable (htr : ∀ a b c : Row, le a b = true → le b c = true → le a c = true) (htot : ∀ a b : Row, (le a b || le b a) = true)
variable (hl : ∀ a b : Row, less a b = !le b a)
include htr htot hl

/-- The merger's Fetch loop over sorted queues hands downstream, in total, the first `limit - numReturned` rows of the
sorted union of the queues — whatever the rounds (each round ends when a queue is drained) -/
theorem mergerRun_spec (limit : Nat) : ∀ (fuel : Nat) (s : MergerSt),
    (∀ q, q ∈ s.queues → q.Pairwise (fun a b => le a b = true)) → AS le s.queues.flatten → totalLen s.queues < fuel →
    (mergerRun less limit fuel s).2.flatten = (s.queues.flatten.mergeSort le).take (limit - s.numReturned)
  | 0, s, _, _, hf => by omega
  | fuel + 1, s, hs, as, hf => by
    have hlive_fl := flatten_filter_nonempty s.queues
    by_cases hemp : (s.queues.filter (fun q => !q.isEmpty)).isEmpty = true
    · have : s.queues.flatten = [] := by
        rw [← hlive_fl]
        have : s.queues.filter (fun q => !q.isEmpty) = [] := by simpa using hemp
        rw [this]; rfl
      simp [mergerRun, hemp, this]
    · have hlne : s.queues.filter (fun q => !q.isEmpty) ≠ [] := by simpa using hemp
      have hlall : ∀ q, q ∈ s.queues.filter (fun q => !q.isEmpty) → q ≠ [] := by
        intro q hq e
        have := (mem_filter.mp hq).2
        simp [e] at this
      have hls : ∀ q, q ∈ s.queues.filter (fun q => !q.isEmpty) → q.Pairwise (fun a b => le a b = true) :=
        fun q hq => hs q (mem_filter.mp hq).1
      have sp := mergeRound_spec htr htot hl (totalLen (s.queues.filter (fun q => !q.isEmpty)) + 1) _ hls
      have pr := mergeRound_progress less (totalLen (s.queues.filter (fun q => !q.isEmpty))) _ hlne hlall
      generalize hr : mergeRound less (totalLen (s.queues.filter (fun q => !q.isEmpty)) + 1)
        (s.queues.filter (fun q => !q.isEmpty)) = r at sp pr
      rw [hlive_fl] at sp
      -- the sorted union starts with what this round merged
      have hsplit : s.queues.flatten.mergeSort le = r.1 ++ r.2.flatten.mergeSort le := by
        apply sorted_perm_eq (le := le)
        · exact as.mono (fun x hx => mem_mergeSort.mp hx)
        · exact (mergeSort_perm _ le).trans (sp.1.symm.trans ((Perm.refl r.1).append (mergeSort_perm _ le).symm))
        · exact pairwise_mergeSort htr htot _
        · apply pairwise_append.mpr
          refine ⟨sp.2.1, pairwise_mergeSort htr htot _, ?_⟩
          intro x hx y hy
          exact sp.2.2.1 x y hx (mem_mergeSort.mp hy)
      have hlen : r.1.length + totalLen r.2 = totalLen s.queues := by
        rw [totalLen_eq, totalLen_eq, ← length_append]
        exact sp.1.length_eq
      have hpos : r.1.length ≥ 1 := by
        cases h : r.1 with
        | nil => exact absurd h pr
        | cons a t => simp
      by_cases hz : limit - s.numReturned = 0
      · simp only [mergerRun, hemp, Bool.false_eq_true, ↓reduceIte, hr, hz]
        simp
      · simp only [mergerRun, hemp, Bool.false_eq_true, ↓reduceIte, hr, hz, flatten_cons]
        have as2 : AS le r.2.flatten := as.mono (fun x hx => sp.1.subset (mem_append_right _ hx))
        rw [mergerRun_spec limit fuel { queues := r.2, numReturned := s.numReturned + (r.1.take (limit - s.numReturned)).length }
          sp.2.2.2 as2 (by simp only; omega)]
        rw [hsplit, take_append]
        simp only [length_take]
        congr 2
        omega

/-- the merger over the chains' sorted results, read until EOF: the first `limit` rows of their sorted union -/
theorem mergerBatches_spec (limit : Nat) (qs : List Table)
    (hs : ∀ q, q ∈ qs → q.Pairwise (fun a b => le a b = true)) (as : AS le qs.flatten) :
    (mergerBatches less limit qs).flatten = sortL le limit qs.flatten := by
  unfold mergerBatches sortL
  rw [mergerRun_spec htr htot hl limit _ { queues := qs } hs as (by simp only; omega)]
  simp

/-- PARALLEL SORT: every chain sorts its share and keeps `limit` rows, the merger merges the chains under the same limit:
the consumer receives the first `limit` rows of the sorted whole, however the rows were dealt to the chains -/
theorem parallel_sort_merge (limit : Nat) (shs : List Table) (as : AS le shs.flatten) :
    (mergerBatches less limit (shs.map (sortL le limit))).flatten = sortL le limit shs.flatten := by
  rw [mergerBatches_spec htr htot hl limit]
  · exact sortL_flatten_map htr htot limit shs as
  · intro q hq
    rcases mem_map.mp hq with ⟨q0, _, rfl⟩
    exact take_pairwise (pairwise_mergeSort htr htot q0) limit
  · exact as.mono (fun y hy => by
      rcases mem_flatten.mp hy with ⟨q, hq, hyq⟩
      rcases mem_map.mp hq with ⟨q0, hq0, rfl⟩
      exact mem_flatten.mpr ⟨q0, hq0, mem_mergeSort.mp (mem_of_mem_take hyq)⟩)

end mergerRun

/-! ### the comparator of `sort` is a total preorder -/

section cmp
open Std

theorem flipOrd_swap (asc : Bool) (o : Ordering) : (flipOrd asc o).swap = flipOrd asc o.swap := by
  cases asc <;> simp [flipOrd]

theorem cmpVal_swap (a b : Val) (asc : Bool) : cmpVal a b asc = (cmpVal b a asc).swap := by
  cases a <;> cases b <;> simp only [cmpVal, flipOrd_swap, Ordering.swap_eq, Ordering.swap_lt, Ordering.swap_gt]
  · rw [← OrientedCmp.eq_swap (cmp := (compare : Int → Int → Ordering))]
  · rw [← OrientedCmp.eq_swap (cmp := (compare : String → String → Ordering))]

instance (asc : Bool) : OrientedCmp (fun a b => cmpVal a b asc) := ⟨fun {a b} => cmpVal_swap a b asc⟩

theorem flip_isLE_true (o : Ordering) : (flipOrd true o).isLE = o.isLE := rfl
theorem flip_isLE_false (o : Ordering) : (flipOrd false o).isLE = o.isGE := by cases o <;> rfl

theorem int_ge_trans {x y z : Int} (h1 : (compare x y).isGE = true) (h2 : (compare y z).isGE = true) : (compare x z).isGE = true := by
  have a := OrientedCmp.isLE_of_isGE (cmp := (compare : Int → Int → Ordering)) h1
  have b := OrientedCmp.isLE_of_isGE (cmp := (compare : Int → Int → Ordering)) h2
  have c := TransCmp.isLE_trans (cmp := (compare : Int → Int → Ordering)) b a
  exact OrientedCmp.isGE_of_isLE c

theorem str_ge_trans {x y z : String} (h1 : (compare x y).isGE = true) (h2 : (compare y z).isGE = true) : (compare x z).isGE = true := by
  have a := OrientedCmp.isLE_of_isGE (cmp := (compare : String → String → Ordering)) h1
  have b := OrientedCmp.isLE_of_isGE (cmp := (compare : String → String → Ordering)) h2
  have c := TransCmp.isLE_trans (cmp := (compare : String → String → Ordering)) b a
  exact OrientedCmp.isGE_of_isLE c

theorem cmpVal_trans (asc : Bool) (a b c : Val) (h1 : (cmpVal a b asc).isLE = true) (h2 : (cmpVal b c asc).isLE = true) :
    (cmpVal a c asc).isLE = true := by
  cases asc
  · cases a <;> cases b <;> cases c <;>
      simp only [cmpVal, flip_isLE_false, Ordering.isGE_lt, Ordering.isGE_gt, Ordering.isLE_lt,
        Ordering.isLE_gt, Ordering.isLE_eq, Bool.false_eq_true] at h1 h2 ⊢
    · exact int_ge_trans h1 h2
    · exact str_ge_trans h1 h2
  · cases a <;> cases b <;> cases c <;>
      simp only [cmpVal, flip_isLE_true, Ordering.isLE_lt,
        Ordering.isLE_gt, Ordering.isLE_eq, Bool.false_eq_true] at h1 h2 ⊢
    · exact TransCmp.isLE_trans (cmp := (compare : Int → Int → Ordering)) h1 h2
    · exact TransCmp.isLE_trans (cmp := (compare : String → String → Ordering)) h1 h2

instance (asc : Bool) : TransCmp (fun a b => cmpVal a b asc) := ⟨fun {a b c} => cmpVal_trans asc a b c⟩

/-- a comparison of rows by one column -/
instance colCmp (f : String) (asc : Bool) : TransCmp (fun (a b : Row) => cmpVal (a.get f) (b.get f) asc) where
  eq_swap := fun {a b} => cmpVal_swap (a.get f) (b.get f) asc
  isLE_trans := fun {a b c} => cmpVal_trans asc (a.get f) (b.get f) (c.get f)

theorem cmpRows_trans : ∀ (ks : List (String × Bool)), TransCmp (cmpRows ks)
  | [] => { eq_swap := rfl, isLE_trans := fun _ _ => rfl }
  | (f, asc) :: ks => by
    have := cmpRows_trans ks
    have : TransCmp (compareLex (fun (a b : Row) => cmpVal (a.get f) (b.get f) asc) (cmpRows ks)) := inferInstance
    exact this

theorem leKeys_eq (ks : List (String × Bool)) (a b : Row) : leKeys ks a b = (cmpRows ks a b).isLE := by
  have := cmpRows_trans ks
  simp only [leKeys, lessKeys]
  rw [OrientedCmp.eq_swap (cmp := cmpRows ks) (a := b) (b := a)]
  cases cmpRows ks a b <;> rfl

theorem leKeys_trans (ks : List (String × Bool)) (a b c : Row) (h1 : leKeys ks a b = true) (h2 : leKeys ks b c = true) :
    leKeys ks a c = true := by
  have := cmpRows_trans ks
  rw [leKeys_eq] at h1 h2 ⊢
  exact TransCmp.isLE_trans h1 h2

theorem leKeys_total (ks : List (String × Bool)) (a b : Row) : (leKeys ks a b || leKeys ks b a) = true := by
  have := cmpRows_trans ks
  rw [leKeys_eq, leKeys_eq, OrientedCmp.eq_swap (cmp := cmpRows ks) (a := b) (b := a)]
  cases cmpRows ks a b <;> rfl

theorem lessKeys_eq (ks : List (String × Bool)) (a b : Row) : lessKeys ks a b = !leKeys ks b a := by
  simp [leKeys]

end cmp

/-! ### CanParallelSearch -/

theorem canParallelGo_sound : ∀ (dps : List Flags) (cs : Bool) (i0 i : Nat), canParallelGo cs i0 dps = (true, i) →
    ∃ k, i = i0 + k ∧ (∃ d, dps[k]? = some d ∧ d.bottleneck = true ∧ d.orderMatters = false ∧ d.generates = false) ∧
      (∀ j d, j < k → dps[j]? = some d → d.bottleneck = false ∧ d.orderMatters = false ∧ d.generates = false) ∧
      (cs = true ∨ ∃ j d, j ≤ k ∧ dps[j]? = some d ∧ d.ignoresOrder = true)
  | [], cs, i0, i, h => by simp [canParallelGo] at h
  | dp :: rest, cs, i0, i, h => by
    simp only [canParallelGo] at h
    by_cases h1 : dp.orderMatters = true
    · simp [h1] at h
    · by_cases h2 : dp.generates = true
      · simp [h1, h2] at h
      · simp only [h1, h2, Bool.false_eq_true, ↓reduceIte] at h
        by_cases h3 : dp.bottleneck = true
        · simp only [h3, ↓reduceIte, Prod.mk.injEq] at h
          refine ⟨0, by omega, ⟨dp, rfl, h3, by simpa using h1, by simpa using h2⟩, by intro j d hj; omega, ?_⟩
          rcases Bool.or_eq_true_iff.mp h.1 with hc | hi
          · exact Or.inl hc
          · exact Or.inr ⟨0, dp, Nat.le_refl _, rfl, hi⟩
        · simp only [h3, Bool.false_eq_true, ↓reduceIte] at h
          obtain ⟨k, hk, hb, hpre, hign⟩ := canParallelGo_sound rest (cs || dp.ignoresOrder) (i0 + 1) i h
          refine ⟨k + 1, by omega, by simpa using hb, ?_, ?_⟩
          · intro j d hj hd
            cases j with
            | zero =>
              simp only [getElem?_cons_zero, Option.some.injEq] at hd
              subst hd
              exact ⟨by simpa using h3, by simpa using h1, by simpa using h2⟩
            | succ j => exact hpre j d (by omega) (by simpa using hd)
          · rcases hign with hc | ⟨j, d, hj, hd, hi⟩
            · rcases Bool.or_eq_true_iff.mp hc with hc | hi
              · exact Or.inl hc
              · exact Or.inr ⟨0, dp, by omega, rfl, hi⟩
            · exact Or.inr ⟨j + 1, d, by omega, by simpa using hd, hi⟩

end SigModel.Lemmas.C06P
