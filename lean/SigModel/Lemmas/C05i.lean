/-
C05 helper lemmas, part i: a Fetch that releases nothing and does not change the state repeats forever.
Core Lean only.
-/
import SigModel.Model.Sched
set_option linter.unusedSimpArgs false
set_option linter.unusedVariables false

namespace SigModel.Lemmas.C05
open SigModel.Sched

/-- a Fetch that releases nothing and leaves the state unchanged repeats for ever: no EOF, nothing more released -/
theorem stuck_forever (m : Mode) (mb : Nat) (st : St) (h : fetch m mb st = some ([], st)) :
    ∀ fuel, (runFetch m mb fuel st).2 = false ∧ (runFetch m mb fuel st).1.flatten = []
  | 0 => by simp [runFetch]
  | fuel + 1 => by
    have ih := stuck_forever m mb st h fuel
    simp only [runFetch, h, List.flatten_cons, List.nil_append]
    exact ih

end SigModel.Lemmas.C05
