/-
C05 helper lemmas, part i: the scheduler BEFORE the repair — a Fetch that releases nothing and does not change the
state repeats forever.
Core Lean only.
-/
import SigModel.Model.Sched
set_option linter.unusedSimpArgs false
set_option linter.unusedVariables false

namespace SigModel.Lemmas.C05
open SigModel.Sched

/-- (scheduler before the repair) a Fetch that releases nothing and leaves the state unchanged repeats for ever:
no EOF, nothing more released -/
theorem stuck_forever_old (m : Mode) (mb : Nat) (st : St) (h : fetchOld m mb st = some ([], st)) :
    ∀ fuel, (runFetchOld m mb fuel st).2 = false ∧ (runFetchOld m mb fuel st).1.flatten = []
  | 0 => by simp [runFetchOld]
  | fuel + 1 => by
    have ih := stuck_forever_old m mb st h fuel
    simp only [runFetchOld, h, List.flatten_cons, List.nil_append]
    exact ih

end SigModel.Lemmas.C05
