/-
C05 helper lemmas, part i: the decidable form of the comparator guard; a Fetch that releases nothing and does
not change the state repeats forever.  Core Lean only.
-/
import SigModel.Model.Sched
import SigModel.Model.SortCmp
import SigModel.Lemmas.C05g
set_option linter.unusedSimpArgs false
set_option linter.unusedVariables false

namespace SigModel.Lemmas.C05
open SigModel.Sched SigModel.SortCmp

/-- decidable: a numerically ranked value is finite -/
def finB (rnd : Rat → Rat) (op : SortOp) (v : Val) : Bool :=
  if getRank v op = .numeric then
    match floatOf rnd v with
    | some (.fin _) => true
    | _ => false
  else true

/-- decidable: two numerically ranked finite values are equal or not identified by AlmostEquals -/
def sepB (rnd : Rat → Rat) (op : SortOp) (a b : Val) : Bool :=
  if getRank a op = .numeric ∧ getRank b op = .numeric then
    match floatOf rnd a, floatOf rnd b with
    | some (.fin qa), some (.fin qb) => !almostEq rnd (.fin qa) (.fin qb) || decide (qa = qb)
    | _, _ => true
  else true

def posSepB (rnd : Rat → Rat) : List (Bool × SortOp) → List Val → List Val → Bool
  | k :: ks, x :: xs, y :: ys => finB rnd k.2 x && finB rnd k.2 y && sepB rnd k.2 x y && posSepB rnd ks xs ys
  | _, _, _ => true

theorem finB_spec (rnd : Rat → Rat) (op : SortOp) (v : Val) (h : finB rnd op v = true) : FinV rnd op v := by
  intro hr
  unfold finB at h
  simp only [hr, if_true] at h
  split at h
  · rename_i q hq; exact ⟨q, hq⟩
  · cases h

theorem sepB_spec (rnd : Rat → Rat) (op : SortOp) (a b : Val) (h : sepB rnd op a b = true) : Sep rnd op a b := by
  intro qa qb ha hb hra hrb hae
  unfold sepB at h
  simp only [hra, hrb, and_self, if_true, ha, hb] at h
  simp only [hae, Bool.not_true, Bool.false_or, decide_eq_true_eq] at h
  exact h

theorem posSepB_spec (rnd : Rat → Rat) : ∀ (ks : List (Bool × SortOp)) (a b : List Val),
    posSepB rnd ks a b = true → PosSep rnd ks a b
  | [], _, _, _ => by simp [PosSep]
  | _ :: _, [], _, _ => by simp [PosSep]
  | _ :: _, _ :: _, [], _ => by simp [PosSep]
  | k :: ks, x :: xs, y :: ys, h => by
    simp only [posSepB, Bool.and_eq_true] at h
    exact ⟨finB_spec rnd _ _ h.1.1.1, finB_spec rnd _ _ h.1.1.2, sepB_spec rnd _ _ _ h.1.2,
      posSepB_spec rnd ks xs ys h.2⟩

/-- a Fetch that releases nothing and leaves the state unchanged repeats for ever: no EOF, nothing more released -/
theorem stuck_forever (m : Mode) (mb : Nat) (st : St) (h : fetch m mb st = some ([], st)) :
    ∀ fuel, (runFetch m mb fuel st).2 = false ∧ (runFetch m mb fuel st).1.flatten = []
  | 0 => by simp [runFetch]
  | fuel + 1 => by
    have ih := stuck_forever m mb st h fuel
    simp only [runFetch, h, List.flatten_cons, List.nil_append]
    exact ih

end SigModel.Lemmas.C05
