/-
C10 slice "walrecover": crash points INSIDE an operation (Model/WalRecover.lean, last section).
Partial positive theorems under a guard on the crash point + the two counterexample histories.  Core Lean only.
-/
import SigModel.Lemmas.C10R
namespace SigModel.Lemmas.C10R
open SigModel.Wal (Dp)
open SigModel.WalRecover

/-- block files after: the writer dies inside a block-rotation pass after `m` steps, restart recovers completely -/
def diskAfterRotateCrashOld (cap shard : Nat) (h : List Op) (m : Nat) : Disk :=
  let st := blockRotateCrash m (run cap shard h)
  applyFlushes st.durable (recoverOld (rawOf st.files))

/-- guard for a crash inside rotateBlock: only flushBlock completed (m = 1), or every WAL file of the block is
already deleted (m > number of files) -/
def rotateCrashGuard (cap shard : Nat) (h : List Op) (m : Nat) : Prop :=
  m = 1 ∨ (run cap shard h).files.length < m

/-! ### a directory whose files hold no datapoint recovers nothing -/

theorem addFile_files (Q : RawFile → Prop) (i : Info) (f : RawFile) (hf : Q f) (acc : List Group)
    (h : ∀ g ∈ acc, ∀ x ∈ g.files, Q x) : ∀ g ∈ addFile i f acc, ∀ x ∈ g.files, Q x := by
  induction acc with
  | nil =>
    intro g hg x hx
    simp only [addFile, List.mem_singleton] at hg
    subst hg
    simp only [List.mem_singleton] at hx
    subst hx; exact hf
  | cons a acc ih =>
    have ha := h a (by simp)
    have hacc : ∀ g ∈ acc, ∀ x ∈ g.files, Q x := fun g hg => h g (by simp [hg])
    intro g hg x hx
    unfold addFile at hg
    split at hg
    · rcases List.mem_cons.mp hg with e | hg
      · subst e
        rcases List.mem_append.mp hx with hx | hx
        · exact ha x hx
        · simp only [List.mem_singleton] at hx
          subst hx; exact hf
      · exact hacc g hg x hx
    · rcases List.mem_cons.mp hg with e | hg
      · subst e; exact ha x hx
      · exact ih hacc g hg x hx

theorem groupsOfSorted_files (Q : RawFile → Prop) (l : RawDir) (hl : ∀ f ∈ l, Q f) : ∀ acc : List Group,
    (∀ g ∈ acc, ∀ x ∈ g.files, Q x) → ∀ g ∈ groupsOfSorted l acc, ∀ x ∈ g.files, Q x := by
  induction l with
  | nil => intro acc h; exact h
  | cons f fs ih =>
    have hf := hl f (by simp)
    have hfs : ∀ f ∈ fs, Q f := fun g hg => hl g (by simp [hg])
    intro acc h
    unfold groupsOfSorted
    split
    · exact ih hfs _ h
    · exact ih hfs _ (addFile_files Q _ f hf acc h)

/-- the files of a group are files of the directory -/
theorem groups_files (Q : RawFile → Prop) (d : RawDir) (hd : ∀ f ∈ d, Q f) : ∀ g ∈ groupsOld d, ∀ x ∈ g.files, Q x :=
  groupsOfSorted_files Q _ (fun f hf => hd f ((mem_readDir f d).mp hf)) [] (by intro g hg; cases hg)

theorem recover_no_dps (d : RawDir) (hd : ∀ f ∈ d, fileDps f = []) : recoverOld d = [] := by
  unfold recoverOld
  rw [List.filterMap_eq_nil_iff]
  intro g hg
  have : groupDps g = [] := by
    unfold groupDps
    rw [List.flatMap_eq_nil_iff]
    exact groups_files (fun f => fileDps f = []) d hd g hg
  simp [this]

theorem recover_nil : recoverOld [] = [] := recover_no_dps [] (by intro f hf; cases hf)

/-! ### crash inside rotateBlock -/

theorem lookup_curKey_nil {st : WState} {sp : Spec} (h : R st sp) : lookup (curKey st) st.durable = [] := by
  cases hl : lookup (curKey st) st.durable with
  | nil => rfl
  | cons a l => exact absurd (h.durOld (curKey st) (by rw [hl]; simp)) (not_older_curKey st)

/-- after the flushBlock of rotateBlock, and no recovered flush: a prefix (the buffer is on disk too) -/
theorem prefix_after_flush {st : WState} {sp : Spec} (h : R st sp) (k : Key) :
    blockOf sp.done k <+: lookup k (flushTo (curKey st) st.cur st.durable) := by
  by_cases hk : k = curKey st
  · rw [hk, lookup_flushTo_self, h.doneCur, ← h.cur]
    exact List.prefix_append _ _
  · rw [lookup_flushTo_ne _ _ _ _ hk, h.doneOld k hk]
    exact List.prefix_refl _

theorem rotate_crash_partial (cap shard : Nat) (h : List Op) (m : Nat) (hm : rotateCrashGuard cap shard h m)
    (hg : fewWalFiles cap shard h)
    (hs : (run cap shard h).seg < 18446744073709551616) (hb : (run cap shard h).blkNum < 18446744073709551616) (k : Key) :
    specBlock cap shard h k <+: lookup k (diskAfterRotateCrashOld cap shard h m) := by
  have hr := R_run cap shard h
  have hinv := inv_run cap shard h
  unfold diskAfterRotateCrashOld blockRotateCrash
  by_cases he : (run cap shard h).cur.isEmpty = true
  · rw [if_pos he]
    have := recover_exact cap shard h hg hs hb k
    unfold diskAfterRecoveryOld durableBlocks dirAfter at this
    show specBlock cap shard h k <+: lookup k (applyFlushes (run cap shard h).durable (recoverOld (rawOf (run cap shard h).files)))
    rw [this]
    exact List.prefix_refl _
  · rw [if_neg he]
    show blockOf (specRun cap shard h).done k <+: _
    unfold rotateCrashGuard at hm
    by_cases h1 : m = 1
    · subst h1
      show blockOf (specRun cap shard h).done k <+:
        lookup k (applyFlushes (flushTo (curKey (run cap shard h)) (run cap shard h).cur (run cap shard h).durable)
          (recoverOld (rawOf (run cap shard h).files)))
      rw [recover_writer _ hinv hs hb, readDir_writer _ hinv hg, flatMap_rawOf]
      by_cases hx : (List.flatMap (fun f => f.2.flatten) (run cap shard h).files).isEmpty = true
      · rw [if_pos hx]
        exact prefix_after_flush hr k
      · rw [if_neg hx]
        simp only [applyFlushes, List.foldl_cons, List.foldl_nil]
        by_cases hk : k = curKey (run cap shard h)
        · rw [hk, lookup_flushTo_self, hr.doneCur]
          exact List.prefix_refl _
        · rw [lookup_flushTo_ne _ _ _ _ hk, lookup_flushTo_ne _ _ _ _ hk, hr.doneOld k hk]
          exact List.prefix_refl _
    · have hlt : (run cap shard h).files.length < m := by
        rcases hm with hm | hm
        · exact absurd hm h1
        · exact hm
      have hm0 : ¬ m = 0 := by omega
      unfold rotateBlockCrashed
      simp only [if_neg hm0]
      by_cases hle : m ≤ (run cap shard h).files.length + 1
      · rw [if_pos hle]
        have hd : List.drop (m - 1) (run cap shard h).files = [] := List.drop_eq_nil_of_le (by omega)
        show blockOf (specRun cap shard h).done k <+:
          lookup k (applyFlushes (flushTo (curKey (run cap shard h)) (run cap shard h).cur (run cap shard h).durable)
            (recoverOld (rawOf (List.drop (m - 1) (run cap shard h).files))))
        rw [hd]
        show blockOf (specRun cap shard h).done k <+:
          lookup k (applyFlushes (flushTo (curKey (run cap shard h)) (run cap shard h).cur (run cap shard h).durable)
            (recoverOld []))
        rw [recover_nil]
        exact prefix_after_flush hr k
      · rw [if_neg hle]
        have hrec : recoverOld (rawOf (rotateBlock (run cap shard h)).files) = [] := by
          apply recover_no_dps
          intro f hf
          have : (rotateBlock (run cap shard h)).files =
              [({ shard := (run cap shard h).shard, seg := (run cap shard h).walSeg, blk := (run cap shard h).walBlk + 1,
                  idx := 0 }, [])] := rfl
          rw [this] at hf
          simp only [rawOf, List.map_cons, List.map_nil, List.mem_singleton] at hf
          subst hf
          rfl
        rw [hrec, rb_durable]
        exact prefix_after_flush hr k

/-! ### crash inside RecoverWALData -/

/-- guard for a crash inside RecoverWALData: it died before its first step, or after its last one -/
def recoverCrashGuard (cap shard : Nat) (h : List Op) (m : Nat) : Prop :=
  m = 0 ∨ (recoverActionsOld (dirAfter cap shard h)).length ≤ m

theorem foldl_deletes (disk : Disk) (l : RawDir) : ∀ s : RawDir,
    ((l.map (fun f => RecAction.delete f.1)).foldl applyRecAction (s, disk)).2 = disk ∧
    ∀ f ∈ ((l.map (fun f => RecAction.delete f.1)).foldl applyRecAction (s, disk)).1, f ∈ s ∧ ∀ g ∈ l, f.1 ≠ g.1 := by
  induction l with
  | nil =>
    intro s
    refine ⟨rfl, ?_⟩
    intro f hf
    exact ⟨hf, by intro g hg; cases hg⟩
  | cons a l ih =>
    intro s
    simp only [List.map_cons, List.foldl_cons, applyRecAction]
    obtain ⟨h1, h2⟩ := ih (List.filter (fun f => f.1 != a.1) s)
    refine ⟨h1, ?_⟩
    intro f hf
    obtain ⟨h3, h4⟩ := h2 f hf
    rw [List.mem_filter] at h3
    refine ⟨h3.1, ?_⟩
    intro g hg
    rcases List.mem_cons.mp hg with e | hg
    · subst e
      have := h3.2
      simpa using this
    · exact h4 g hg

theorem foldl_deletes_self (disk : Disk) (d : RawDir) :
    (d.map (fun f => RecAction.delete f.1)).foldl applyRecAction (d, disk) = ([], disk) := by
  obtain ⟨h1, h2⟩ := foldl_deletes disk d d
  have h3 : ((d.map (fun f => RecAction.delete f.1)).foldl applyRecAction (d, disk)).1 = [] := by
    rw [List.eq_nil_iff_forall_not_mem]
    intro f hf
    obtain ⟨h4, h5⟩ := h2 f hf
    exact h5 f h4 rfl
  exact Prod.ext h3 h1

theorem recoverActions_writer (st : WState) (hinv : Inv st) (hfew : st.walIdx < 10) (hs : st.seg < 18446744073709551616)
    (hb : st.blkNum < 18446744073709551616) :
    recoverActionsOld (rawOf st.files) =
      (rawOf st.files).map (fun f => RecAction.delete f.1)
        ++ (if (logged st).isEmpty then [] else [RecAction.flush (curKey st) (logged st)]) := by
  unfold recoverActionsOld
  rw [groups_writer st hinv hs hb, readDir_writer st hinv hfew]
  have hd : groupDps { info := infoOf st, files := rawOf st.files } = logged st := flatMap_rawOf st.files
  simp only [List.flatMap_cons, List.flatMap_nil, List.append_nil, hd]
  rfl

/-- RecoverWALData ran to its end: the WAL directory is empty, the block files are the recovered ones -/
theorem recoverCrashed_full (st : WState) (hinv : Inv st) (hfew : st.walIdx < 10) (hs : st.seg < 18446744073709551616)
    (hb : st.blkNum < 18446744073709551616) (disk : Disk) (m : Nat)
    (hm : (recoverActionsOld (rawOf st.files)).length ≤ m) :
    recoverCrashedOld m (rawOf st.files) disk = ([], applyFlushes disk (recoverOld (rawOf st.files))) := by
  unfold recoverCrashedOld
  rw [List.take_of_length_le hm, recoverActions_writer st hinv hfew hs hb, List.foldl_append, foldl_deletes_self,
    recover_writer st hinv hs hb, readDir_writer st hinv hfew, flatMap_rawOf]
  show List.foldl applyRecAction ([], disk) (if (logged st).isEmpty then [] else [RecAction.flush (curKey st) (logged st)])
    = ([], applyFlushes disk (if (logged st).isEmpty then [] else [(curKey st, logged st)]))
  by_cases hx : (logged st).isEmpty = true
  · rw [if_pos hx, if_pos hx]; rfl
  · rw [if_neg hx, if_neg hx]; rfl

theorem recover_crash_partial (cap shard : Nat) (h : List Op) (m : Nat) (hm : recoverCrashGuard cap shard h m)
    (hg : fewWalFiles cap shard h)
    (hs : (run cap shard h).seg < 18446744073709551616) (hb : (run cap shard h).blkNum < 18446744073709551616) (k : Key) :
    lookup k (diskAfterCrashedRecoveryOld m (dirAfter cap shard h) (durableBlocks cap shard h)) = specBlock cap shard h k := by
  have hex := recover_exact cap shard h hg hs hb k
  unfold diskAfterRecoveryOld at hex
  unfold recoverCrashGuard at hm
  rcases hm with hm | hm
  · subst hm
    exact hex
  · unfold diskAfterCrashedRecoveryOld
    unfold dirAfter at hm ⊢
    rw [recoverCrashed_full _ (inv_run cap shard h) hg hs hb _ m hm]
    show lookup k (applyFlushes (applyFlushes (durableBlocks cap shard h) (recoverOld (rawOf (run cap shard h).files))) (recoverOld []))
      = specBlock cap shard h k
    rw [recover_nil]
    exact hex

/-! ### counterexamples: crash points outside the guards -/

def hx : List Op := [.ingest 0 ⟨100, 1, 7⟩ false, .walFlush true, .ingest 0 ⟨110, 2, 7⟩ false, .walFlush false]
theorem hx_rotate_crash : specBlock 1000 0 hx (dec 0, 0, 0) = [⟨100, 1, 7⟩, ⟨110, 2, 7⟩]
    ∧ lookup (dec 0, 0, 0) (diskAfterRotateCrashOld 1000 0 hx 2) = [⟨110, 2, 7⟩] := by decide +kernel
theorem hx_recover_crash : lookup (dec 0, 0, 0) (diskAfterCrashedRecoveryOld 1 (dirAfter 1000 0 hx) (durableBlocks 1000 0 hx)) = [⟨110, 2, 7⟩]
    ∧ lookup (dec 0, 0, 0) (diskAfterCrashedRecoveryOld 2 (dirAfter 1000 0 hx) (durableBlocks 1000 0 hx)) = [] := by decide +kernel
end SigModel.Lemmas.C10R
