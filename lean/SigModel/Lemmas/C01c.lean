/-
C01 lemmas, part c: the dictionary block (PackDictEnc / ReadDictEnc / deGetRec).  Core Lean only.
-/
import SigModel.Model.Tlv
import SigModel.Lemmas.C01

namespace SigModel.Lemmas.C01
open SigModel.Tlv

/-- one dictionary entry as `PackDictEnc` writes it -/
def encEntry (e : Bytes × List Nat) : Bytes :=
  e.1 ++ leN 2 e.2.length ++ (e.2.take (e.2.length % 65536)).flatMap (leN 2)

theorem packDict_eq (d : Dict) : packDict d = leN 2 d.length ++ (d.map encEntry).flatten := rfl

/-- a word the dictionary reader frames correctly, whatever follows it -/
def DictWordOk (w : Bytes) : Prop := ∀ r, dictWordLen (w ++ r) = .ok w.length

/-- the kinds `ReadDictEnc` knows -/
def dictKind : Val → Prop
  | .str _ | .bool _ | .backfill => True
  | .num k _ => k = .i64 ∨ k = .f64

theorem dictWordOk_encTLV (v : Val) (hk : dictKind v) (hw : wfDec v) : DictWordOk (encTLV v) := by
  intro r
  cases v with
  | str s =>
    have h' : s.length + 3 < 65536 := hw
    have h2 : s.length < 65536 := by omega
    rw [encTLV_str_wf s h2]
    have hr : rdN 2 (leN 2 s.length ++ (s ++ r)) = some (s.length, s ++ r) := rdN_leN 2 _ _ (by simpa using h2)
    simp [dictWordLen, hr, leN_length]
    omega
  | bool b => simp [dictWordLen, encTLV, tags]
  | backfill => simp [dictWordLen, encTLV, tags]
  | num k bits =>
    rcases hk with rfl | rfl <;> simp [dictWordLen, encTLV, NumKind.tag, NumKind.width, tags, leN_length]

def EntryOk (e : Bytes × List Nat) : Prop :=
  DictWordOk e.1 ∧ e.2.length < 65536 ∧ ∀ r ∈ e.2, r < 65536

/-- effect of one word's record numbers on `deRecToTlv` -/
def applyRecs (w rc : Nat) (rs : List Nat) (tbl : List Nat) : List Nat :=
  rs.foldl (fun t r => if r ≥ rc then t else t.set r w) tbl

def tableOf (rc : Nat) : Nat → Dict → List Nat → List Nat
  | _, [], tbl => tbl
  | w, e :: es, tbl => tableOf rc (w + 1) es (applyRecs w rc e.2 tbl)

def anyBad (rc : Nat) (es : Dict) : Bool := es.any (fun e => e.2.any (fun r => decide (r ≥ rc)))

theorem readRecNums_ok (w rc : Nat) (rs : List Nat) (rest : Bytes) (tbl : List Nat) (bad : Bool)
    (h : ∀ r ∈ rs, r < 65536) :
    readRecNums w rc rs.length (rs.flatMap (leN 2) ++ rest) tbl bad
      = .ok (rest, applyRecs w rc rs tbl, bad || rs.any (fun r => decide (r ≥ rc))) := by
  induction rs generalizing tbl bad with
  | nil => simp [readRecNums, applyRecs]
  | cons r rs ih =>
    have hr : r < 256 ^ 2 := by have := h r (by simp); omega
    have h' : ∀ x ∈ rs, x < 65536 := fun x hx => h x (by simp [hx])
    simp only [List.flatMap_cons, List.append_assoc, List.length_cons, readRecNums, rdN_leN 2 r _ hr]
    by_cases hge : r ≥ rc
    · rw [if_pos hge, ih _ _ h']
      simp [applyRecs, hge]
    · rw [if_neg hge, ih _ _ h']
      simp [applyRecs, hge]

theorem readWords_ok (rc : Nat) (es : Dict) (hes : ∀ e ∈ es, EntryOk e) (w : Nat) (rest : Bytes)
    (words : List Bytes) (tbl : List Nat) (bad : Bool) :
    readWords rc es.length w ((es.map encEntry).flatten ++ rest) words tbl bad
      = .ok { words := words ++ es.map (·.1), recToWord := tableOf rc w es tbl, badRec := bad || anyBad rc es } := by
  induction es generalizing w words tbl bad with
  | nil => simp [readWords, tableOf, anyBad]
  | cons e es ih =>
    obtain ⟨hw, hl, hr⟩ := hes e (by simp)
    have hes' : ∀ x ∈ es, EntryOk x := fun x hx => hes x (by simp [hx])
    have hbytes : ((e :: es).map encEntry).flatten ++ rest
        = e.1 ++ (leN 2 e.2.length ++ (e.2.flatMap (leN 2) ++ ((es.map encEntry).flatten ++ rest))) := by
      simp [encEntry, Nat.mod_eq_of_lt hl, List.append_assoc]
    rw [hbytes]
    simp only [List.length_cons, readWords, hw _]
    rw [if_neg (by simp)]
    rw [List.drop_left, rdN_leN 2 _ _ (by omega)]
    simp only
    rw [readRecNums_ok w rc e.2 _ tbl bad hr, List.take_left]
    simp only
    rw [ih hes']
    simp [tableOf, anyBad, Bool.or_assoc, List.append_assoc]

/-- C01.4 core: `ReadDictEnc` on `PackDictEnc`'s output recovers the words in order and the record table -/
theorem readDict_packDict' (d : Dict) (rc : Nat) (hn : d.length < 65536) (hes : ∀ e ∈ d, EntryOk e) :
    readDict (packDict d) rc
      = .ok { words := d.map (·.1), recToWord := tableOf rc 0 d (List.replicate rc 0), badRec := anyBad rc d } := by
  rw [packDict_eq]
  unfold readDict
  rw [rdN_leN 2 _ _ (by omega)]
  have := readWords_ok rc d hes 0 [] [] (List.replicate rc 0) false
  simpa using this

/-! ### the record table -/

theorem applyRecs_length (w rc : Nat) (rs tbl : List Nat) : (applyRecs w rc rs tbl).length = tbl.length := by
  unfold applyRecs
  induction rs generalizing tbl with
  | nil => rfl
  | cons r rs ih =>
    simp only [List.foldl_cons]
    rw [ih]
    split <;> simp

theorem applyRecs_not_mem (w rc : Nat) (rs tbl : List Nat) (r : Nat) (h : r ∉ rs) :
    (applyRecs w rc rs tbl)[r]? = tbl[r]? := by
  unfold applyRecs
  induction rs generalizing tbl with
  | nil => rfl
  | cons x rs ih =>
    simp only [List.foldl_cons]
    have hx : x ≠ r := fun hxr => h (by simp [hxr])
    have hr : r ∉ rs := fun hm => h (by simp [hm])
    rw [ih _ hr]
    split
    · rfl
    · rw [List.getElem?_set, if_neg hx]

theorem applyRecs_mem (w rc : Nat) (rs tbl : List Nat) (r : Nat) (h : r ∈ rs) (hr : r < rc) (hl : tbl.length = rc) :
    (applyRecs w rc rs tbl)[r]? = some w := by
  unfold applyRecs
  induction rs generalizing tbl with
  | nil => simp at h
  | cons x rs ih =>
    simp only [List.foldl_cons]
    by_cases hm : r ∈ rs
    · apply ih _ hm
      split <;> simp [hl]
    · have hx : x = r := by
        simp at h
        rcases h with h | h
        · exact h.symm
        · exact absurd h hm
      subst hx
      have := applyRecs_not_mem w rc rs (if x ≥ rc then tbl else tbl.set x w) x hm
      unfold applyRecs at this
      rw [this, if_neg (by omega), List.getElem?_set]
      simp [hl, hr]

theorem tableOf_length (rc w : Nat) (es : Dict) (tbl : List Nat) : (tableOf rc w es tbl).length = tbl.length := by
  induction es generalizing w tbl with
  | nil => rfl
  | cons e es ih => simp [tableOf, ih, applyRecs_length]

theorem tableOf_not_mem (rc w : Nat) (es : Dict) (tbl : List Nat) (r : Nat) (h : ∀ e ∈ es, r ∉ e.2) :
    (tableOf rc w es tbl)[r]? = tbl[r]? := by
  induction es generalizing w tbl with
  | nil => rfl
  | cons e es ih =>
    simp only [tableOf]
    rw [ih _ _ (fun x hx => h x (by simp [hx])), applyRecs_not_mem _ _ _ _ _ (h e (by simp))]

/-- a record number listed under entry `pre.length` and under no later entry maps to that entry -/
theorem tableOf_mem (rc w : Nat) (pre : Dict) (e : Bytes × List Nat) (post : Dict) (tbl : List Nat) (r : Nat)
    (hm : r ∈ e.2) (hr : r < rc) (hl : tbl.length = rc) (hpost : ∀ x ∈ post, r ∉ x.2) :
    (tableOf rc w (pre ++ e :: post) tbl)[r]? = some (w + pre.length) := by
  induction pre generalizing w tbl with
  | nil =>
    simp only [List.nil_append, tableOf, List.length_nil, Nat.add_zero]
    rw [tableOf_not_mem _ _ _ _ _ hpost]
    exact applyRecs_mem _ _ _ _ _ hm hr hl
  | cons p pre ih =>
    simp only [List.cons_append, tableOf, List.length_cons]
    rw [ih (w + 1) _ (by rw [applyRecs_length]; exact hl)]
    congr 1; omega

end SigModel.Lemmas.C01
