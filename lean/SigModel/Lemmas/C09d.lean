/-
C09 helper lemmas, part 4: model aggregation = specification on safe inputs; result enumeration.
-/
import SigModel.Lemmas.C09c

namespace SigModel.Lemmas.C09
open SigModel.Promql

/-- every series of the query satisfies the string guard -/
def AllSafe (q : Query) (ss : List Series) : Prop := ∀ s ∈ ss, LabelSafe q.name s.labels

/-- `count` with an empty field list is only right for `by ()`: computeAggCount puts everything under `name{`
(also for `without ()`).  (Before patch c09-26 it also counted distinct series ids, and the guard had to ask for
pairwise distinct label sets.) -/
def CountOK (q : Query) (_ss : List Series) : Prop :=
  q.fn = .count → q.fields = [] → q.without = false

theorem spec_nofields_by (labels : Labels) : specGroupKey [] false labels = [] := by
  simp [specGroupKey]

theorem members_eq_specMembers {q : Query} {ss : List Series} (hs : AllSafe q ss) (hc : CountOK q ss)
    {s0 : Series} (h0 : s0 ∈ ss) (t : Nat) :
    members q ss (render q.without q.name (specGroupKey q.fields q.without s0.labels)) t
      = specMembers q ss (specGroupKey q.fields q.without s0.labels) t := by
  unfold members specMembers
  apply List.filter_congr
  intro s hsm
  congr 1
  have S := safe_of_labelSafe (hs s hsm)
  have S0 := safe_of_labelSafe (hs s0 h0)
  by_cases hcnt : q.fn = .count ∧ q.fields = []
  · have hw := hc hcnt.1 hcnt.2
    simp only [groupOf, hcnt, and_self, if_true, hw, spec_nofields_by]
    simp [render, joinWith]
  · simp only [groupOf, hcnt, if_false, sidOf]
    rw [extract_eq_spec q.fields q.without S]
    by_cases e : specGroupKey q.fields q.without s.labels = specGroupKey q.fields q.without s0.labels
    · simp [e]
    · have : render q.without q.name (specGroupKey q.fields q.without s.labels)
          ≠ render q.without q.name (specGroupKey q.fields q.without s0.labels) :=
        fun h => e (render_inj (specKey_clean _ _ S) (specKey_clean _ _ S0) h)
      simp [e, this]

theorem nodup_map_of_inj_on {α β} {f : α → β} {l : List α} (hl : l.Nodup)
    (hf : ∀ a ∈ l, ∀ b ∈ l, f a = f b → a = b) : (l.map f).Nodup := by
  induction l with
  | nil => simp
  | cons x l ih =>
    rw [List.nodup_cons] at hl
    simp only [List.map_cons, List.nodup_cons, List.mem_map, not_exists, not_and]
    refine ⟨?_, ih hl.2 (fun a ha b hb => hf a (by simp [ha]) b (by simp [hb]))⟩
    intro y hy e
    have := hf y (by simp [hy]) x (by simp) e
    subst this
    exact hl.1 hy

theorem sids_nodup {q : Query} {ss ms : List Series} (hs : AllSafe q ss) (hsub : ms.Sublist ss)
    (hn : (ss.map (·.labels)).Nodup) : (ms.map (sidOf q)).Nodup := by
  have h1 : (ms.map (·.labels)).Nodup := List.Nodup.sublist (List.Sublist.map _ hsub) hn
  have : ms.map (sidOf q) = (ms.map (·.labels)).map (seriesIdOf q.name) := by
    simp [List.map_map, sidOf, Function.comp_def]
  rw [this]
  apply nodup_map_of_inj_on h1
  intro a ha b hb e
  rcases List.mem_map.1 ha with ⟨sa, hsa, rfl⟩
  rcases List.mem_map.1 hb with ⟨sb, hsb, rfl⟩
  exact seriesIdOf_inj (safe_of_labelSafe (hs sa (hsub.subset hsa))).hlabels
    (safe_of_labelSafe (hs sb (hsub.subset hsb))).hlabels e

/-- value of the model for a group, written over the member list -/
theorem aggAt_members (q : Query) (ss : List Series) (g : Str) (t : Nat) :
    aggAt q ss g t =
      let ms := members q ss g t
      if ms.isEmpty then none
      else some (match q.fn with
        | .count => (ms.length : Rat)
        | fn => reduceRunning fn (ms.map (fun s => mkEntry q.fn q.step t s.pts))) := by
  unfold aggAt
  simp only [members_isEmpty]
  rw [entriesAt_eq]
  cases hfn : q.fn <;> simp [List.map_map, Function.comp_def]

theorem reduceRunning_spec (fn : Fn) (hfn : fn ≠ .count) (step t : Nat) (ms : List Series) :
    reduceRunning fn (ms.map (fun s => mkEntry fn step t s.pts)) = specValue fn step t ms := by
  cases fn with
  | count => exact absurd rfl hfn
  | sum => simp [reduceRunning, sumVals, mkEntry, dsFn, reduceVals, specValue, List.map_map, Function.comp_def]
  | avg => simp [reduceRunning, sumVals, sumCnts, mkEntry, dsFn, reduceVals, specValue, List.map_map, Function.comp_def]
  | min => simp [reduceRunning, mkEntry, dsFn, reduceVals, specValue, List.map_map, Function.comp_def]
  | max => simp [reduceRunning, mkEntry, dsFn, reduceVals, specValue, List.map_map, Function.comp_def]

theorem aggAt_eq_specAt {q : Query} {ss : List Series} (hs : AllSafe q ss) (hc : CountOK q ss)
    {s0 : Series} (h0 : s0 ∈ ss) (t : Nat) :
    aggAt q ss (render q.without q.name (specGroupKey q.fields q.without s0.labels)) t
      = specAt q ss (specGroupKey q.fields q.without s0.labels) t := by
  rw [aggAt_members]
  simp only [members_eq_specMembers hs hc h0 t, specAt]
  cases hemp : (specMembers q ss (specGroupKey q.fields q.without s0.labels) t).isEmpty with
  | true => simp
  | false =>
    simp only [Bool.false_eq_true, if_false]
    congr 1
    cases hfn : q.fn with
    | count => simp only [specValue]
    | sum => simpa [hfn] using reduceRunning_spec .sum (by decide) q.step t _
    | avg => simpa [hfn] using reduceRunning_spec .avg (by decide) q.step t _
    | min => simpa [hfn] using reduceRunning_spec .min (by decide) q.step t _
    | max => simpa [hfn] using reduceRunning_spec .max (by decide) q.step t _

/-! ### the enumeration of the result -/

theorem aggAt_some_mem_keys {q : Query} {ss : List Series} {g : Str} {t : Nat} {v : Rat}
    (h : aggAt q ss g t = some v) : (g, t) ∈ keys q ss := by
  rw [aggAt_members] at h
  simp only at h
  cases hm : members q ss g t with
  | nil => simp [hm] at h
  | cons s ms =>
    have hs : s ∈ members q ss g t := by rw [hm]; simp
    unfold members at hs
    rw [List.mem_filter] at hs
    obtain ⟨hss, hp⟩ := hs
    simp only [Bool.and_eq_true, decide_eq_true_eq, Bool.not_eq_true', List.isEmpty_eq_false_iff] at hp
    unfold keys
    rw [mem_dedup, List.mem_flatMap]
    refine ⟨s, hss, ?_⟩
    rw [List.mem_map]
    have hne : samplesAt q.step t s.pts ≠ [] := hp.2
    have hmem : t ∈ s.pts.map (fun p => bucket p.1 q.step) := by
      cases hd : decide (t ∈ s.pts.map (fun p => bucket p.1 q.step)) with
      | true => simpa using hd
      | false =>
        have : t ∉ s.pts.map (fun p => bucket p.1 q.step) := by simpa using hd
        exact absurd (samplesAt_eq_nil_iff.2 this) hne
    refine ⟨mkEntry q.fn q.step t s.pts, ?_, by simp [mkEntry, hp.1]⟩
    unfold dsSeries
    rw [List.mem_map]
    exact ⟨t, mem_dedup.2 hmem, rfl⟩

theorem mem_results_iff {q : Query} {ss : List Series} {g : Str} {t : Nat} {v : Rat} :
    (g, t, v) ∈ results q ss ↔ aggAt q ss g t = some v := by
  unfold results
  rw [List.mem_filterMap]
  constructor
  · rintro ⟨⟨g', t'⟩, _, h⟩
    cases ha : aggAt q ss g' t' with
    | none => simp [ha] at h
    | some v' =>
      simp [ha] at h
      obtain ⟨rfl, rfl, rfl⟩ := h
      exact ha
  · intro h
    exact ⟨(g, t), aggAt_some_mem_keys h, by simp [h]⟩

/-- every key of the result is the rendering of the PromQL key of one of the series -/
theorem keys_are_spec {q : Query} {ss : List Series} (hs : AllSafe q ss) (hc : CountOK q ss)
    {g : Str} {t : Nat} (h : (g, t) ∈ keys q ss) :
    ∃ s ∈ ss, g = render q.without q.name (specGroupKey q.fields q.without s.labels) := by
  unfold keys at h
  rw [mem_dedup, List.mem_flatMap] at h
  obtain ⟨s, hss, hm⟩ := h
  rw [List.mem_map] at hm
  obtain ⟨e, _, he⟩ := hm
  refine ⟨s, hss, ?_⟩
  have hg : g = groupOf q (sidOf q s) := by
    have := congrArg Prod.fst he; simpa using this.symm
  rw [hg]
  have S := safe_of_labelSafe (hs s hss)
  by_cases hcnt : q.fn = .count ∧ q.fields = []
  · have hw := hc hcnt.1 hcnt.2
    simp only [groupOf, hcnt, and_self, if_true, hw, spec_nofields_by]
    simp [render, joinWith]
  · simp only [groupOf, hcnt, if_false, sidOf]
    exact extract_eq_spec q.fields q.without S

end SigModel.Lemmas.C09
