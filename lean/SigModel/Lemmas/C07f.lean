/-
C07 helper lemmas, part 6: the suffix allocation protocol at system-call level (Model/CrashSuffix.lean) and its tie
to the step model (Model/Crash.lean).
-/
import SigModel.Model.Crash
import SigModel.Model.CrashSuffix

namespace SigModel.Lemmas.C07f
open SigModel.CrashSuffix

theorem run_append (d : Disk) (a b : List Sys) : run d (a ++ b) = run (run d a) b := by
  simp [run, List.foldl_append]

/-- a crash after all calls of the first allocation: the rest is a crash of the remaining allocations on the disk
the first one left -/
theorem crashAfter_succ_ge (proto : Nat → List Sys) (j : Nat) (d : Disk) (k : Nat)
    (h : (proto (getSuffix d)).length ≤ k) :
    crashAfter proto (j + 1) d k =
      crashAfter proto j (run d (proto (getSuffix d))) (k - (proto (getSuffix d)).length) := by
  unfold crashAfter
  simp only [allocs]
  rw [List.take_append, List.take_of_length_le h, run_append]

/-- a crash inside the first allocation -/
theorem crashAfter_succ_lt (proto : Nat → List Sys) (j : Nat) (d : Disk) (k : Nat)
    (h : k ≤ (proto (getSuffix d)).length) :
    crashAfter proto (j + 1) d k = run d ((proto (getSuffix d)).take k) := by
  unfold crashAfter
  simp only [allocs]
  rw [List.take_append_of_le_length h]

theorem handed_succ_ge (proto : Nat → List Sys) (j : Nat) (d : Disk) (k : Nat)
    (h : (proto (getSuffix d)).length ≤ k) :
    handed proto (j + 1) d k =
      getSuffix d :: handed proto j (run d (proto (getSuffix d))) (k - (proto (getSuffix d)).length) := by
  simp only [handed]
  rw [if_pos h]

theorem handed_succ_lt (proto : Nat → List Sys) (j : Nat) (d : Disk) (k : Nat)
    (h : k < (proto (getSuffix d)).length) : handed proto (j + 1) d k = [] := by
  simp only [handed]
  rw [if_neg (Nat.not_le.mpr h)]

/-- a completed temp-file + rename allocation bumps the number the file holds -/
theorem getSuffix_allocTmpRename (d : Disk) :
    getSuffix (run d (allocTmpRename (getSuffix d))) = getSuffix d + 1 := by
  simp [run, allocTmpRename, apply, getSuffix]

/-- THE KERNEL: as long as the rename has not happened, nothing the restart reads has changed — wherever the process
dies inside the temp-file write (also between its open(O_TRUNC) and its write) -/
theorem getSuffix_allocTmpRename_prefix (d : Disk) (r k : Nat) (hk : k < 3) :
    getSuffix (run d ((allocTmpRename r).take k)) = getSuffix d := by
  match k, hk with
  | 0, _ => simp [run]
  | 1, _ => simp [run, allocTmpRename, apply, getSuffix]
  | 2, _ => simp [run, allocTmpRename, apply, getSuffix]

/-- one process: the number on disk never goes down, and every number handed out lies between what the process found
and what the crash leaves; the numbers handed out are strictly increasing -/
theorem crashAfter_fresh (j : Nat) : ∀ (d : Disk) (k : Nat),
    getSuffix d ≤ getSuffix (crashAfter allocTmpRename j d k) ∧
    (∀ r ∈ handed allocTmpRename j d k, getSuffix d ≤ r ∧ r < getSuffix (crashAfter allocTmpRename j d k)) ∧
    (handed allocTmpRename j d k).Pairwise (· < ·) := by
  induction j with
  | zero =>
    intro d k
    simp [crashAfter, allocs, handed, run]
  | succ j ih =>
    intro d k
    have hlen : (allocTmpRename (getSuffix d)).length = 3 := rfl
    by_cases h : 3 ≤ k
    · have h' : (allocTmpRename (getSuffix d)).length ≤ k := by rw [hlen]; exact h
      rw [crashAfter_succ_ge allocTmpRename j d k h', handed_succ_ge allocTmpRename j d k h']
      have IH := ih (run d (allocTmpRename (getSuffix d))) (k - (allocTmpRename (getSuffix d)).length)
      rw [getSuffix_allocTmpRename] at IH
      refine ⟨by omega, ?_, ?_⟩
      · intro r hr
        rcases List.mem_cons.mp hr with rfl | hr
        · omega
        · have := IH.2.1 r hr
          omega
      · refine List.pairwise_cons.mpr ⟨?_, IH.2.2⟩
        intro r hr
        have := IH.2.1 r hr
        omega
    · have hk : k < 3 := Nat.lt_of_not_le h
      have h' : k ≤ (allocTmpRename (getSuffix d)).length := by rw [hlen]; omega
      have h'' : k < (allocTmpRename (getSuffix d)).length := by rw [hlen]; exact hk
      rw [crashAfter_succ_lt allocTmpRename j d k h', handed_succ_lt allocTmpRename j d k h'',
        getSuffix_allocTmpRename_prefix d _ k hk]
      simp

/-- a whole life (any number of processes, each dying anywhere): no number is handed out twice, and the number the
next process will read is above every number ever handed out -/
theorem life_fresh (runs : List (Nat × Nat)) : ∀ (d : Disk),
    getSuffix d ≤ getSuffix (life allocTmpRename d runs) ∧
    (∀ r ∈ lifeHanded allocTmpRename d runs, getSuffix d ≤ r ∧ r < getSuffix (life allocTmpRename d runs)) ∧
    (lifeHanded allocTmpRename d runs).Pairwise (· < ·) := by
  induction runs with
  | nil => intro d; simp [life, lifeHanded]
  | cons jk rest ih =>
    intro d
    obtain ⟨j, k⟩ := jk
    have H := crashAfter_fresh j d k
    have IH := ih (crashAfter allocTmpRename j d k)
    simp only [life, lifeHanded]
    refine ⟨by omega, ?_, ?_⟩
    · intro r hr
      rcases List.mem_append.mp hr with hr | hr
      · have := H.2.1 r hr
        omega
      · have := IH.2.1 r hr
        omega
    · refine List.pairwise_append.mpr ⟨H.2.2, IH.2.2, ?_⟩
      intro a ha b hb
      have := H.2.1 a ha
      have := IH.2.1 b hb
      omega

/-! ### tie to the step model of Model/Crash.lean -/

def optFile : Option Nat → File
  | none => .missing
  | some n => .num n

/-- the two suffix files of the step model's data directory -/
def project (fs : SigModel.Crash.FS) : Disk := { file := optFile fs.suffix, tmp := optFile fs.suffixTmp }

theorem project_nextSuffix (fs : SigModel.Crash.FS) : SigModel.Crash.nextSuffix fs = getSuffix (project fs) := by
  cases h : fs.suffix <;> simp [SigModel.Crash.nextSuffix, getSuffix, project, optFile, h]

/-- the step `suffixTmp n` (a completed os.WriteFile of the temp file) is the two system calls open + write -/
theorem project_suffixTmp (fs : SigModel.Crash.FS) (n : Nat) :
    project (SigModel.Crash.apply fs (.suffixTmp n)) = run (project fs) [.tmpOpen, .tmpWrite n] := by
  simp [SigModel.Crash.apply, project, optFile, run, apply]

theorem project_suffixRename (fs : SigModel.Crash.FS) :
    project (SigModel.Crash.apply fs .suffixRename) = run (project fs) [.rename] := by
  cases h : fs.suffixTmp <;> simp [SigModel.Crash.apply, project, optFile, run, apply, h]

/-- `openSteps n` of the step model is one `allocTmpRename n` (plus the directory) -/
theorem project_openSteps (fs : SigModel.Crash.FS) (n : Nat) :
    project (SigModel.Crash.run fs (SigModel.Crash.openSteps n)) = run (project fs) (allocTmpRename n) := by
  by_cases h2 : n ∈ fs.dirs <;>
    simp [SigModel.Crash.run, SigModel.Crash.openSteps, SigModel.Crash.apply, project, optFile, run, apply, allocTmpRename, h2]

end SigModel.Lemmas.C07f
