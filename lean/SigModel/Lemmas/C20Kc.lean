/-
C20 (keyed-store half) — helper lemmas: lookup files, contact points, dashboards/folders.
-/
import SigModel.Lemmas.C20K

namespace SigModel.Lemmas.C20K
open SigModel.KV

theorem mem_keys_iff_get {K V : Type} [DecidableEq K] (l : AL K V) (k : K) : k ∈ l.keys ↔ l.get k ≠ none := by
  induction l with
  | nil => simp [AL.keys, AL.get]
  | cons p r ih =>
    obtain ⟨a, b⟩ := p
    simp only [AL.keys, List.map_cons, List.mem_cons, AL.get] at ih ⊢
    by_cases h : a = k
    · simp [h]
    · simp only [h, if_false]; rw [← ih]
      constructor
      · rintro (h1 | h1)
        · exact absurd h1.symm h
        · exact h1
      · exact Or.inr

/-! ### lookup files -/
namespace Lookup
open SigModel.KV.Lookup

theorem step_ok {st : St} (h : st.files.keys.Nodup) (op : Op) :
    (step st op).1.files.keys.Nodup ∧ abs (step st op).1 = specStep (abs st) op ∧ OutOk (abs st) op (step st op).2 := by
  cases op with
  | upload name content overwrite gz =>
    by_cases hv : Alias.validIndex name = true
    · simp only [step, hv, Bool.not_true, Bool.false_eq_true, if_false, specStep, OutOk]
      have hset : abs { files := st.files.put (norm name gz) content } = (abs st).set () (norm name gz) (some content) := by
        funext u k; simp only [abs, get_put, Spec.set, true_and]
      cases hg : st.files.get (norm name gz) with
      | none =>
        have hn : abs st () (norm name gz) = none := hg
        refine ⟨keys_put_nodup _ _ _ h, ?_, ?_⟩
        · rw [hset]; cases overwrite <;> simp [Spec.put, Spec.create, hn]
        · cases overwrite <;> simp [Spec.create, hn]
      | some c =>
        have hn : abs st () (norm name gz) = some c := hg
        cases overwrite with
        | true =>
          simp only [if_true]
          exact ⟨keys_put_nodup _ _ _ h, by rw [hset]; simp [Spec.put], by simp⟩
        | false =>
          simp only [Bool.false_eq_true, if_false]
          exact ⟨h, by simp [Spec.create, hn], by simp [Spec.create, hn]⟩
    · simp [step, hv, specStep, OutOk, h]
  | get name =>
    simp only [step]
    cases hg : st.files.get name with
    | none => exact ⟨h, rfl, by simp [OutOk, abs, hg]⟩
    | some c => exact ⟨h, rfl, by simp [OutOk, abs, hg]⟩
  | delete name =>
    simp only [step]
    cases hg : st.files.get name with
    | none =>
      have hn : abs st () name = none := hg
      exact ⟨h, by simp [specStep, Spec.delete, hn], by simp [OutOk, Spec.delete, hn]⟩
    | some c =>
      have hn : abs st () name = some c := hg
      refine ⟨keys_del_nodup _ _ h, ?_, by simp [OutOk, Spec.delete, hn]⟩
      funext u k
      simp only [specStep, Spec.delete, hn, Spec.set, true_and]
      simp only [abs, get_del]
  | list =>
    refine ⟨h, rfl, ?_⟩
    simp only [step, OutOk]
    exact ⟨h, fun k => mem_keys_iff_get _ k⟩
  | restart => exact ⟨h, rfl, by simp [step, OutOk]⟩

theorem refines_of_nodup (ops : List Op) : ∀ (st : St), st.files.keys.Nodup → Refines (abs st) st ops := by
  induction ops with
  | nil => intro _ _; trivial
  | cons op r ih =>
    intro st h
    obtain ⟨h1, h2, h3⟩ := step_ok h op
    refine ⟨h3, h2, ?_⟩
    rw [← h2]; exact ih _ h1

theorem abs_init : abs init = Spec.empty := by funext u k; simp [abs, init, AL.get, Spec.empty]
end Lookup

/-! ### contact points -/
namespace Contact
open SigModel.KV.Contact

/-- ids are unique and below the id generator -/
structure Inv (st : St) : Prop where
  nodup : st.rows.keys.Nodup
  fresh : ∀ id, st.rows.get id ≠ none → id < st.next

theorem inv_init : Inv init := ⟨by simp [init, AL.keys], by simp [init, AL.get]⟩

theorem abs_fresh {st : St} (h : Inv st) (t : Nat) : abs st t st.next = none := by
  unfold abs
  cases hg : st.rows.get st.next with
  | none => rfl
  | some r => exact absurd (h.fresh st.next (by rw [hg]; simp)) (Nat.lt_irrefl _)

theorem step_ok {st : St} (h : Inv st) (op : Op) (hc : stepClean st op = true) :
    Inv (step st op).1 ∧ abs (step st op).1 = specStep (abs st) st.next op ∧
    OutOk (abs st) st.next op (step st op).2 := by
  cases op with
  | create t name pager slack =>
    simp only [stepClean, Bool.not_eq_true'] at hc
    simp only [step, hc, Bool.false_eq_true, if_false]
    refine ⟨⟨keys_put_nodup _ _ _ h.nodup, ?_⟩, ?_, by simp [OutOk]⟩
    · intro id hid
      simp only [get_put] at hid
      by_cases e : id = st.next
      · rw [e]; exact Nat.lt_succ_self _
      · simp only [e, if_false] at hid; exact Nat.lt_succ_of_lt (h.fresh id hid)
    · funext t' id
      simp only [specStep, Spec.set]
      by_cases hid : id = st.next
      · subst hid
        by_cases ht : t' = t
        · subst ht; simp [abs, get_put]
        · have ht2 : ¬ (t = t') := fun e => ht e.symm
          simp only [ht, false_and, if_false]
          rw [abs_fresh h]
          simp [abs, get_put, ht2]
      · simp [abs, get_put, hid]
  | update t id name pager slack =>
    simp only [stepClean] at hc
    simp only [step]
    cases hg : st.rows.get id with
    | none =>
      have hn : abs st t id = none := by simp [abs, hg]
      exact ⟨h, by simp [specStep, Spec.update, hn], by simp [OutOk, Spec.update, hn]⟩
    | some r =>
      simp only [hg, Bool.and_eq_true, decide_eq_true_eq, Bool.not_eq_true', Bool.or_eq_true,
        List.isEmpty_iff] at hc
      obtain ⟨⟨horg, hname⟩, hsl⟩ := hc
      have hn : abs st t id = some (r.name, r.pager, r.slack) := by simp [abs, hg, horg]
      have hslack : (if slack = [] then r.slack else slack) = slack := by
        by_cases e : slack = []
        · simp only [e, if_true]
          rcases hsl with h1 | h1
          · simp [e] at h1
          · exact h1
        · simp [e]
      simp only [hname, Bool.false_eq_true, if_false, hslack]
      refine ⟨⟨keys_put_nodup _ _ _ h.nodup, ?_⟩, ?_, by simp [OutOk, Spec.update, hn]⟩
      · intro id' hid
        simp only [get_put] at hid
        by_cases e : id' = id
        · rw [e]; exact h.fresh id (by rw [hg]; simp)
        · simp only [e, if_false] at hid; exact h.fresh id' hid
      · funext t' id'
        simp only [specStep, Spec.update, hn, Spec.set]
        by_cases hid : id' = id
        · subst hid
          by_cases ht : t' = t
          · subst ht; simp [abs, get_put]
          · have ht2 : ¬ (t = t') := fun e => ht e.symm
            have ht3 : ¬ (r.org = t') := fun e => ht (by rw [← e, horg])
            simp [abs, get_put, ht, ht2, hg, ht3]
        · simp [abs, get_put, hid]
  | delete t id =>
    simp only [stepClean] at hc
    simp only [step]
    cases hg : st.rows.get id with
    | none =>
      have hn : abs st t id = none := by simp [abs, hg]
      exact ⟨h, by simp [specStep, Spec.delete, hn], by simp [OutOk, Spec.delete, hn]⟩
    | some r =>
      simp only [hg, decide_eq_true_eq] at hc
      have hn : abs st t id = some (r.name, r.pager, r.slack) := by simp [abs, hg, hc]
      refine ⟨⟨keys_del_nodup _ _ h.nodup, ?_⟩, ?_, by simp [OutOk, Spec.delete, hn]⟩
      · intro id' hid
        simp only [get_del] at hid
        by_cases e : id' = id
        · simp [e] at hid
        · simp only [e, if_false] at hid; exact h.fresh id' hid
      · funext t' id'
        simp only [specStep, Spec.delete, hn, Spec.set]
        by_cases hid : id' = id
        · subst hid
          by_cases ht : t' = t
          · subst ht; simp [abs, get_del]
          · have ht3 : ¬ (r.org = t') := fun e => ht (by rw [← e, hc])
            simp [abs, get_del, ht, hg, ht3]
        · simp [abs, get_del, hid]
  | list t =>
    refine ⟨h, rfl, ?_⟩
    simp only [step, OutOk]
    refine ⟨keys_filter_nodup _ _ h.nodup, ?_⟩
    intro id r
    rw [List.mem_filter, mem_iff_get _ h.nodup]
    simp only [decide_eq_true_eq, abs]
    constructor
    · rintro ⟨hg, horg⟩; simp [hg, horg]
    · rintro ⟨hs, horg⟩
      cases hg : st.rows.get id with
      | none => simp [hg] at hs
      | some r' =>
        simp only [hg] at hs
        by_cases e : r'.org = t
        · simp only [e, if_true, Option.some.injEq, Prod.mk.injEq] at hs
          refine ⟨?_, horg⟩
          obtain ⟨h1, h2, h3⟩ := hs
          cases r; cases r'; simp_all
        · simp [e] at hs
  | restart => exact ⟨h, rfl, by simp [step, OutOk]⟩

theorem refines_of_inv (ops : List Op) : ∀ (st : St), Inv st → Clean st ops = true → Refines (abs st) st ops := by
  induction ops with
  | nil => intro _ _ _; trivial
  | cons op r ih =>
    intro st h hc
    simp only [Clean, Bool.and_eq_true] at hc
    obtain ⟨h1, h2, h3⟩ := step_ok h op hc.1
    refine ⟨h3, h2, ?_⟩
    rw [← h2]; exact ih _ h1 hc.2

theorem abs_init : abs init = Spec.empty := by funext t id; simp [abs, init, AL.get, Spec.empty]

end Contact

/-! ### dashboards / folders -/
namespace Dash
open SigModel.KV.Dash

theorem getDash_fs (st : St) (t id : Nat) : (getDash st t id).1.fs = st.fs := by
  unfold getDash
  cases st.det.get id with
  | none => rfl
  | some d =>
    simp only
    cases (st.fs t).items.get id with
    | none => rfl
    | some it =>
      simp only
      cases it.parent with
      | none => rfl
      | some fid =>
        simp only
        cases (st.fs t).items.get fid with
        | none => rfl
        | some p =>
          simp only
          split <;> rfl

theorem listFold_fs (fs0 : FS) (t : Nat) (items : List (Nat × Item)) :
    ∀ (acc : St × List Row), (listFold fs0 t items acc).1.fs = acc.1.fs := by
  induction items with
  | nil => intro acc; rfl
  | cons e r ih =>
    intro acc
    simp only [listFold, List.foldl_cons] at ih ⊢
    rw [ih]
    unfold listRow
    by_cases h0 : e.1 = 0
    · simp [h0]
    · simp only [h0, if_false]; exact getDash_fs acc.1 t e.1

/-- an operation of tenant `t` leaves the folder structure of every other tenant untouched -/
theorem fs_frame (st : St) (op : Op) (t : Nat) (ht : op.tenant = some t) (t' : Nat) (hne : t' ≠ t) :
    (step st op).1.fs t' = st.fs t' := by
  cases op with
  | createDash t0 name payload parent =>
    simp only [Op.tenant, Option.some.injEq] at ht; subst ht
    simp only [step]
    repeat' split
    all_goals first | rfl | simp [upd, hne]
  | createFolder t0 name parent =>
    simp only [Op.tenant, Option.some.injEq] at ht; subst ht
    simp only [step]
    repeat' split
    all_goals first | rfl | simp [upd, hne]
  | updateDash t0 id name payload newParent =>
    simp only [Op.tenant, Option.some.injEq] at ht; subst ht
    simp only [step]
    split
    · rfl
    · split
      · rfl
      · simp [upd, hne]
  | updateFolder t0 id name newParent =>
    simp only [Op.tenant, Option.some.injEq] at ht; subst ht
    simp only [step]
    repeat' split
    all_goals first | rfl | simp [setFS, upd, hne]
  | deleteDash t0 id =>
    simp only [Op.tenant, Option.some.injEq] at ht; subst ht
    simp only [step]
    split
    · rfl
    · split
      · rfl
      · simp [upd, hne]
  | deleteFolder t0 id =>
    simp only [Op.tenant, Option.some.injEq] at ht; subst ht
    simp only [step]
    split
    · rfl
    · split
      · rfl
      · simp [upd, hne]
  | getDash t0 id =>
    simp only [step]
    have := getDash_fs st t0 id
    split <;> simp_all
  | contents t0 id =>
    simp only [step]
    split <;> rfl
  | list t0 =>
    simp only [step]
    rw [listFold_fs]
  | favorite t0 id =>
    simp only [step]
    split <;> rfl
  | restart => rfl

end Dash

end SigModel.Lemmas.C20K
