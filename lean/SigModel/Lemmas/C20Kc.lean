/-
C20 (keyed-store half) — helper lemmas: lookup files, contact points, dashboards/folders.
-/
import SigModel.Lemmas.C20K

namespace SigModel.Lemmas.C20K
open SigModel.KV

theorem mem_keys_iff_get {K V : Type} [DecidableEq K] (l : AL K V) (k : K) : k ∈ l.keys ↔ l.get k ≠ none := by
  induction l with
  | nil => simp [AL.keys, AL.get]
  | cons p r ih =>
    obtain ⟨a, b⟩ := p
    simp only [AL.keys, List.map_cons, List.mem_cons, AL.get] at ih ⊢
    by_cases h : a = k
    · simp [h]
    · simp only [h, if_false]; rw [← ih]
      constructor
      · rintro (h1 | h1)
        · exact absurd h1.symm h
        · exact h1
      · exact Or.inr

/-! ### lookup files -/
namespace Lookup
open SigModel.KV.Lookup

theorem endsWithCI_append (name suf : Key) (h : suf.map asciiLower = suf) : endsWithCI (name ++ suf) suf = true := by
  simp only [endsWithCI, List.map_append, List.reverse_append, h, decide_eq_true_eq]
  have hl : suf.reverse.length = suf.length := List.length_reverse
  rw [← hl, List.take_left']
  rfl

/-- an upload stores under a name that carries one of the two extensions -/
theorem hasExt_norm (name : Key) (gz : Bool) : hasExt (norm name gz) = true := by
  unfold norm hasExt
  by_cases h : (endsWithCI name csv || endsWithCI name csvgz) = true
  · simp only [h, if_true]
  · simp only [h, if_false, Bool.false_eq_true]
    cases gz with
    | true =>
      have := endsWithCI_append name csvgz (by decide)
      simp [this]
    | false =>
      have := endsWithCI_append name csv (by decide)
      simp [this]

/-- the files of every org have distinct names, and every name carries one of the two extensions -/
structure Inv (st : St) : Prop where
  nodup : ∀ t, (st.files t).keys.Nodup
  ext : ∀ t k, (st.files t).get k ≠ none → hasExt k = true

theorem inv_init : Inv init := ⟨fun _ => by simp [init, AL.keys], fun _ _ h => by simp [init, AL.get] at h⟩

theorem abs_upd_put (st : St) (t : Nat) (k : Key) (c : String) :
    abs { files := upd st.files t ((st.files t).put k c) } = (abs st).set t k (some c) := by
  funext t' k'
  simp only [abs, upd, Spec.set]
  by_cases ht : t' = t
  · subst ht; simp only [if_true, get_put, true_and]
  · simp [ht]

theorem abs_upd_del (st : St) (t : Nat) (k : Key) :
    abs { files := upd st.files t ((st.files t).del k) } = (abs st).set t k none := by
  funext t' k'
  simp only [abs, upd, Spec.set]
  by_cases ht : t' = t
  · subst ht; simp only [if_true, get_del, true_and]
  · simp [ht]

theorem inv_upd_put {st : St} (h : Inv st) (t : Nat) (k : Key) (c : String) (hk : hasExt k = true) :
    Inv { files := upd st.files t ((st.files t).put k c) } := by
  refine ⟨fun t' => ?_, fun t' k' hg => ?_⟩
  · simp only [upd]; by_cases ht : t' = t
    · subst ht; simp only [if_true]; exact keys_put_nodup _ _ _ (h.nodup _)
    · simp only [ht, if_false]; exact h.nodup t'
  · simp only [upd] at hg; by_cases ht : t' = t
    · subst ht; simp only [if_true, get_put] at hg
      by_cases hkk : k' = k
      · rw [hkk]; exact hk
      · simp only [hkk, if_false] at hg; exact h.ext _ _ hg
    · simp only [ht, if_false] at hg; exact h.ext _ _ hg

theorem inv_upd_del {st : St} (h : Inv st) (t : Nat) (k : Key) :
    Inv { files := upd st.files t ((st.files t).del k) } := by
  refine ⟨fun t' => ?_, fun t' k' hg => ?_⟩
  · simp only [upd]; by_cases ht : t' = t
    · subst ht; simp only [if_true]; exact keys_del_nodup _ _ (h.nodup _)
    · simp only [ht, if_false]; exact h.nodup t'
  · simp only [upd] at hg; by_cases ht : t' = t
    · subst ht; simp only [if_true, get_del] at hg
      by_cases hkk : k' = k
      · simp [hkk] at hg
      · simp only [hkk, if_false] at hg; exact h.ext _ _ hg
    · simp only [ht, if_false] at hg; exact h.ext _ _ hg

theorem step_ok {st : St} (h : Inv st) (op : Op) :
    Inv (step st op).1 ∧ abs (step st op).1 = specStep (abs st) op ∧ OutOk (abs st) op (step st op).2 := by
  cases op with
  | upload t name content overwrite gz =>
    by_cases hv : Alias.validIndex name = true
    · simp only [step, hv, Bool.not_true, Bool.false_eq_true, if_false, specStep, OutOk]
      cases hg : (st.files t).get (norm name gz) with
      | none =>
        have hn : abs st t (norm name gz) = none := hg
        refine ⟨inv_upd_put h _ _ _ (hasExt_norm _ _), ?_, ?_⟩
        · rw [abs_upd_put]; cases overwrite <;> simp [Spec.put, Spec.create, hn]
        · cases overwrite <;> simp [Spec.create, hn]
      | some c =>
        have hn : abs st t (norm name gz) = some c := hg
        cases overwrite with
        | true =>
          simp only [if_true]
          exact ⟨inv_upd_put h _ _ _ (hasExt_norm _ _), by rw [abs_upd_put]; simp [Spec.put], by simp⟩
        | false =>
          simp only [Bool.false_eq_true, if_false]
          exact ⟨h, by simp [Spec.create, hn], by simp [Spec.create, hn]⟩
    · simp [step, hv, specStep, OutOk, h]
  | get t name =>
    by_cases he : hasExt name = true
    · simp only [step, he, Bool.not_true, Bool.false_eq_true, if_false]
      cases hg : (st.files t).get name with
      | none => exact ⟨h, rfl, by simp [OutOk, abs, hg]⟩
      | some c => exact ⟨h, rfl, by simp [OutOk, abs, hg]⟩
    · -- a name without the extension is no file of any org
      have hn : (st.files t).get name = none := by
        cases hg : (st.files t).get name with
        | none => rfl
        | some c => exact absurd (h.ext t name (by simp [hg])) he
      simp only [step, he, Bool.not_false, if_true]
      exact ⟨h, rfl, by simp [OutOk, abs, hn]⟩
  | delete t name =>
    by_cases he : hasExt name = true
    · simp only [step, he, Bool.not_true, Bool.false_eq_true, if_false]
      cases hg : (st.files t).get name with
      | none =>
        have hn : abs st t name = none := hg
        exact ⟨h, by simp [specStep, Spec.delete, hn], by simp [OutOk, Spec.delete, hn]⟩
      | some c =>
        have hn : abs st t name = some c := hg
        refine ⟨inv_upd_del h _ _, ?_, by simp [OutOk, Spec.delete, hn]⟩
        rw [abs_upd_del]; simp [specStep, Spec.delete, hn]
    · have hn : abs st t name = none := by
        show (st.files t).get name = none
        cases hg : (st.files t).get name with
        | none => rfl
        | some c => exact absurd (h.ext t name (by simp [hg])) he
      simp only [step, he, Bool.not_false, if_true]
      exact ⟨h, by simp [specStep, Spec.delete, hn], by simp [OutOk, Spec.delete, hn]⟩
  | list t =>
    refine ⟨h, rfl, ?_⟩
    simp only [step, OutOk]
    exact ⟨h.nodup t, fun k => mem_keys_iff_get _ k⟩
  | restart => exact ⟨h, rfl, by simp [step, OutOk]⟩

theorem refines_of_inv (ops : List Op) : ∀ (st : St), Inv st → Refines (abs st) st ops := by
  induction ops with
  | nil => intro _ _; trivial
  | cons op r ih =>
    intro st h
    obtain ⟨h1, h2, h3⟩ := step_ok h op
    refine ⟨h3, h2, ?_⟩
    rw [← h2]; exact ih _ h1

theorem abs_init : abs init = Spec.empty := by funext u k; simp [abs, init, AL.get, Spec.empty]

/-- an operation of org `t` leaves the directory of every other org as it is — in ANY state -/
theorem frame (st : St) (op : Op) (t : Nat) (ht : op.tenant = some t) (t' : Nat) (hne : t' ≠ t) :
    (step st op).1.files t' = st.files t' := by
  cases op with
  | upload t0 name content overwrite gz =>
    simp only [Op.tenant, Option.some.injEq] at ht; subst ht
    simp only [step]
    split
    · rfl
    · split
      · split
        · simp [upd, hne]
        · rfl
      · simp [upd, hne]
  | get t0 name =>
    simp only [step]; split
    · rfl
    · split <;> rfl
  | delete t0 name =>
    simp only [Op.tenant, Option.some.injEq] at ht; subst ht
    simp only [step]; split
    · rfl
    · split
      · simp [upd, hne]
      · rfl
  | list t0 => rfl
  | restart => rfl
end Lookup

/-! ### contact points -/
namespace Contact
open SigModel.KV.Contact

/-- ids are unique and below the id generator -/
structure Inv (st : St) : Prop where
  nodup : st.rows.keys.Nodup
  fresh : ∀ id, st.rows.get id ≠ none → id < st.next

theorem inv_init : Inv init := ⟨by simp [init, AL.keys], by simp [init, AL.get]⟩

theorem abs_fresh {st : St} (h : Inv st) (t : Nat) : abs st t st.next = none := by
  unfold abs
  cases hg : st.rows.get st.next with
  | none => rfl
  | some r => exact absurd (h.fresh st.next (by rw [hg]; simp)) (Nat.lt_irrefl _)

theorem nameUsed_iff {st : St} (h : Inv st) (name : Key) (ex : Option Nat) :
    nameUsed st.rows name ex = true ↔ NameUsed (abs st) name ex := by
  unfold nameUsed NameUsed
  simp only [List.any_eq_true, Bool.and_eq_true, decide_eq_true_eq]
  constructor
  · rintro ⟨e, hm, hn, hx⟩
    have hg : st.rows.get e.1 = some e.2 := (mem_iff_get _ h.nodup e.1 e.2).1 hm
    exact ⟨e.2.org, e.1, (e.2.name, e.2.pager, e.2.slack), by simp [abs, hg], hn, hx⟩
  · rintro ⟨t, id, v, hs, hn, hx⟩
    unfold abs at hs
    cases hg : st.rows.get id with
    | none => simp [hg] at hs
    | some r =>
      simp only [hg] at hs
      by_cases e : r.org = t
      · simp only [e, if_true, Option.some.injEq] at hs
        refine ⟨(id, r), (mem_iff_get _ h.nodup id r).2 hg, ?_, hx⟩
        rw [← hs] at hn; exact hn
      · simp [e] at hs

theorem step_ok {st : St} (h : Inv st) (op : Op) :
    Inv (step st op).1 ∧ abs (step st op).1 = specNext (abs st) op (step st op).2 ∧
    OutOk (abs st) st.next op (step st op).2 := by
  cases op with
  | create t name pager slack =>
    simp only [step]
    by_cases hu : nameUsed st.rows name none = true
    · simp only [hu, if_true]
      exact ⟨h, rfl, Or.inr ⟨(nameUsed_iff h name none).1 hu, rfl⟩⟩
    · simp only [hu, Bool.false_eq_true, if_false]
      refine ⟨⟨keys_put_nodup _ _ _ h.nodup, ?_⟩, ?_, Or.inl ⟨fun hn => hu ((nameUsed_iff h name none).2 hn), rfl⟩⟩
      · intro id hid
        simp only [get_put] at hid
        by_cases e : id = st.next
        · rw [e]; exact Nat.lt_succ_self _
        · simp only [e, if_false] at hid; exact Nat.lt_succ_of_lt (h.fresh id hid)
      · funext t' id
        simp only [specNext, Spec.set]
        by_cases hid : id = st.next
        · subst hid
          by_cases ht : t' = t
          · subst ht; simp [abs, get_put]
          · have ht2 : ¬ (t = t') := fun e => ht e.symm
            simp only [ht, false_and, if_false]
            rw [abs_fresh h]
            simp [abs, get_put, ht2]
        · simp [abs, get_put, hid]
  | update t id name pager slack =>
    simp only [step]
    cases hg : st.rows.get id with
    | none =>
      have hn : abs st t id = none := by simp [abs, hg]
      exact ⟨h, rfl, Or.inl ⟨hn, rfl⟩⟩
    | some r =>
      by_cases hc : ¬ r.org = t
      · -- a contact of another org: answered like a contact that does not exist, nothing changes
        have hn : abs st t id = none := by simp [abs, hg, hc]
        simp only [ne_eq, hc, not_false_eq_true, if_true]
        exact ⟨h, rfl, Or.inl ⟨hn, rfl⟩⟩
      have hc : r.org = t := Classical.not_not.mp hc
      simp only [ne_eq, hc, not_true_eq_false, if_false]
      have hn : abs st t id = some (r.name, r.pager, r.slack) := by simp [abs, hg, hc]
      have hne : abs st t id ≠ none := by rw [hn]; simp
      by_cases hu : nameUsed st.rows name (some id) = true
      · simp only [hu, if_true]
        exact ⟨h, rfl, Or.inr (Or.inr ⟨hne, (nameUsed_iff h name (some id)).1 hu, rfl⟩)⟩
      · simp only [hu, Bool.false_eq_true, if_false]
        refine ⟨⟨keys_put_nodup _ _ _ h.nodup, ?_⟩, ?_,
          Or.inr (Or.inl ⟨hne, fun hx => hu ((nameUsed_iff h name (some id)).2 hx), rfl⟩)⟩
        · intro id' hid
          simp only [get_put] at hid
          by_cases e : id' = id
          · rw [e]; exact h.fresh id (by rw [hg]; simp)
          · simp only [e, if_false] at hid; exact h.fresh id' hid
        · funext t' id'
          simp only [specNext, Spec.set]
          by_cases hid : id' = id
          · subst hid
            by_cases ht : t' = t
            · subst ht; simp [abs, get_put]
            · have ht2 : ¬ (t = t') := fun e => ht e.symm
              have ht3 : ¬ (r.org = t') := fun e => ht (by rw [← e, hc])
              simp [abs, get_put, ht, ht2, hg, ht3]
          · simp [abs, get_put, hid]
  | delete t id =>
    simp only [step]
    cases hg : st.rows.get id with
    | none =>
      have hn : abs st t id = none := by simp [abs, hg]
      exact ⟨h, by simp [specNext], by simp [OutOk, Spec.delete, hn]⟩
    | some r =>
      by_cases hc : ¬ r.org = t
      · have hn : abs st t id = none := by simp [abs, hg, hc]
        simp only [ne_eq, hc, not_false_eq_true, if_true]
        exact ⟨h, by simp [specNext], by simp [OutOk, Spec.delete, hn]⟩
      have hc : r.org = t := Classical.not_not.mp hc
      simp only [ne_eq, hc, not_true_eq_false, if_false]
      have hn : abs st t id = some (r.name, r.pager, r.slack) := by simp [abs, hg, hc]
      refine ⟨⟨keys_del_nodup _ _ h.nodup, ?_⟩, ?_, by simp [OutOk, Spec.delete, hn]⟩
      · intro id' hid
        simp only [get_del] at hid
        by_cases e : id' = id
        · simp [e] at hid
        · simp only [e, if_false] at hid; exact h.fresh id' hid
      · funext t' id'
        simp only [specNext, Spec.set]
        by_cases hid : id' = id
        · subst hid
          by_cases ht : t' = t
          · subst ht; simp [abs, get_del]
          · have ht3 : ¬ (r.org = t') := fun e => ht (by rw [← e, hc])
            simp [abs, get_del, ht, hg, ht3]
        · simp [abs, get_del, hid]
  | list t =>
    refine ⟨h, rfl, ?_⟩
    simp only [step, OutOk]
    refine ⟨keys_filter_nodup _ _ h.nodup, ?_⟩
    intro id r
    rw [List.mem_filter, mem_iff_get _ h.nodup]
    simp only [decide_eq_true_eq, abs]
    constructor
    · rintro ⟨hg, horg⟩; simp [hg, horg]
    · rintro ⟨hs, horg⟩
      cases hg : st.rows.get id with
      | none => simp [hg] at hs
      | some r' =>
        simp only [hg] at hs
        by_cases e : r'.org = t
        · simp only [e, if_true, Option.some.injEq, Prod.mk.injEq] at hs
          refine ⟨?_, horg⟩
          obtain ⟨h1, h2, h3⟩ := hs
          cases r; cases r'; simp_all
        · simp [e] at hs
  | restart => exact ⟨h, rfl, by simp [step, OutOk]⟩

theorem refines_of_inv (ops : List Op) : ∀ (st : St), Inv st → Refines (abs st) st ops := by
  induction ops with
  | nil => intro _ _; trivial
  | cons op r ih =>
    intro st h
    obtain ⟨h1, h2, h3⟩ := step_ok h op
    refine ⟨h3, h2, ?_⟩
    rw [← h2]; exact ih _ h1

theorem inv_run (ops : List Op) : ∀ (st : St), Inv st → Inv (run st ops).1 := by
  induction ops with
  | nil => intro st h; exact h
  | cons op r ih => intro st h; simpa [run] using ih _ (step_ok h op).1

theorem abs_init : abs init = Spec.empty := by funext t id; simp [abs, init, AL.get, Spec.empty]

end Contact

/-! ### alert definitions -/
namespace AlertDB
open SigModel.KV.AlertDB

theorem mem_of_get' {K V : Type} [DecidableEq K] (l : AL K V) (k : K) (v : V) (h : l.get k = some v) : (k, v) ∈ l := by
  induction l with
  | nil => simp [AL.get] at h
  | cons p r ih =>
    obtain ⟨a, b⟩ := p
    simp only [AL.get] at h
    by_cases hk : a = k
    · simp only [hk, if_true, Option.some.injEq] at h; subst h; subst hk; exact List.mem_cons_self
    · simp only [hk, if_false] at h; exact List.mem_cons_of_mem _ (ih h)

theorem not_used {alerts : AL Nat Row} {name : Key} {ex : Option Nat} (h : nameUsed alerts name ex = false)
    (id : Nat) (r : Row) (hg : alerts.get id = some r) (hn : r.name = name) : some id = ex := by
  unfold nameUsed at h
  rw [List.any_eq_false] at h
  have := h (id, r) (mem_of_get' _ _ _ hg)
  simp only [hn, decide_true, Bool.true_and, decide_eq_true_eq, Classical.not_not] at this
  exact this

/-- no two stored alerts carry the same name -/
def Unique (st : St) : Prop :=
  ∀ id id' r r', st.alerts.get id = some r → st.alerts.get id' = some r' → r.name = r'.name → id = id'

theorem unique_step {st : St} (h : Unique st) (op : Op) : Unique (step st op).1 := by
  cases op with
  | contact t name =>
    simp only [step]; split <;> exact h
  | create t name msg cid =>
    simp only [step]
    split
    · exact h
    · split
      · exact h
      · split
        · exact h
        · rename_i hu
          have hu' : nameUsed st.alerts name none = false := by simpa using hu
          intro id id' r r' hg hg' hn
          simp only [get_put] at hg hg'
          by_cases e : id = st.nextA <;> by_cases e' : id' = st.nextA
          · rw [e, e']
          · simp only [e, if_true, Option.some.injEq] at hg
            simp only [e', if_false] at hg'
            have := not_used hu' id' r' hg' (by rw [← hn, ← hg])
            cases this
          · simp only [e, if_false] at hg
            simp only [e', if_true, Option.some.injEq] at hg'
            have := not_used hu' id r hg (by rw [hn, ← hg'])
            cases this
          · simp only [e, if_false] at hg
            simp only [e', if_false] at hg'
            exact h id id' r r' hg hg' hn
  | update t id0 name msg cid =>
    simp only [step]
    split
    · exact h
    · split
      · exact h
      · split
        · exact h
        · split
          · exact h
          · split
            · exact h
            · rename_i hu
              have hu' : nameUsed st.alerts name (some id0) = false := by simpa using hu
              intro id id' r r' hg hg' hn
              simp only [get_put] at hg hg'
              by_cases e : id = id0 <;> by_cases e' : id' = id0
              · rw [e, e']
              · simp only [e, if_true, Option.some.injEq] at hg
                simp only [e', if_false] at hg'
                have := not_used hu' id' r' hg' (by rw [← hn, ← hg])
                exact absurd (Option.some.inj this) e'
              · simp only [e, if_false] at hg
                simp only [e', if_true, Option.some.injEq] at hg'
                have := not_used hu' id r hg (by rw [hn, ← hg'])
                exact absurd (Option.some.inj this) e
              · simp only [e, if_false] at hg
                simp only [e', if_false] at hg'
                exact h id id' r r' hg hg' hn
  | delete t id0 =>
    simp only [step]
    split
    · exact h
    · split
      · exact h
      · intro id id' r r' hg hg' hn
        simp only [get_del] at hg hg'
        by_cases e : id = id0
        · simp [e] at hg
        · by_cases e' : id' = id0
          · simp [e'] at hg'
          · simp only [e, if_false] at hg
            simp only [e', if_false] at hg'
            exact h id id' r r' hg hg' hn
  | get t id0 => simp only [step]; split <;> first | exact h | (split <;> exact h)
  | list t => exact h
  | restart => exact h

/-- alert ids are below the id generator -/
def Fresh (st : St) : Prop := ∀ id, st.alerts.get id ≠ none → id < st.nextA

theorem fresh_init : Fresh init := by intro id h; simp [init, AL.get] at h

theorem fresh_step {st : St} (h : Fresh st) (op : Op) : Fresh (step st op).1 := by
  cases op with
  | contact t name => simp only [step]; split <;> exact h
  | create t name msg cid =>
    simp only [step]
    split
    · exact h
    · split
      · exact h
      · split
        · exact h
        · intro id hid
          simp only [get_put] at hid
          by_cases e : id = st.nextA
          · rw [e]; exact Nat.lt_succ_self _
          · simp only [e, if_false] at hid; exact Nat.lt_succ_of_lt (h id hid)
  | update t id0 name msg cid =>
    simp only [step]
    split
    · exact h
    · rename_i r hg
      split
      · exact h
      · split
        · exact h
        · split
          · exact h
          · split
            · exact h
            · intro id hid
              simp only [get_put] at hid
              by_cases e : id = id0
              · rw [e]; exact h id0 (by rw [hg]; simp)
              · simp only [e, if_false] at hid; exact h id hid
  | delete t id0 =>
    simp only [step]
    split
    · exact h
    · split
      · exact h
      · intro id hid
        simp only [get_del] at hid
        by_cases e : id = id0
        · simp [e] at hid
        · simp only [e, if_false] at hid; exact h id hid
  | get t id0 => simp only [step]; split <;> first | exact h | (split <;> exact h)
  | list t => exact h
  | restart => exact h

theorem fresh_run (ops : List Op) : ∀ (st : St), Fresh st → Fresh (run st ops).1 := by
  induction ops with
  | nil => intro st h; exact h
  | cons op r ih => intro st h; simp only [run]; exact ih _ (fresh_step h op)

/-- a request of org `t` leaves every alert of another org as it is, and creates none for another org -/
theorem frame_step {st : St} (h : Fresh st) (op : Op) (t : Nat) (ht : op.tenant = some t) (id : Nat) (r : Row)
    (hne : r.org ≠ t) : (step st op).1.alerts.get id = some r ↔ st.alerts.get id = some r := by
  cases op with
  | contact t0 name => simp only [step]; split <;> rfl
  | create t0 name msg cid =>
    simp only [Op.tenant, Option.some.injEq] at ht; subst ht
    simp only [step]
    split
    · rfl
    · split
      · rfl
      · split
        · rfl
        · simp only [get_put]
          by_cases e : id = st.nextA
          · simp only [e, if_true, Option.some.injEq]
            constructor
            · intro hr; rw [← hr] at hne; exact absurd rfl hne
            · intro hg; exact absurd (h st.nextA (by rw [hg]; simp)) (Nat.lt_irrefl _)
          · simp only [e, if_false]
  | update t0 id0 name msg cid =>
    simp only [Op.tenant, Option.some.injEq] at ht; subst ht
    simp only [step]
    split
    · rfl
    · rename_i r0 hg0
      split
      · rfl
      · rename_i horg
        split
        · rfl
        · split
          · rfl
          · split
            · rfl
            · simp only [get_put]
              by_cases e : id = id0
              · simp only [e, if_true, Option.some.injEq]
                have horg' : r0.org = t0 := Classical.not_not.mp horg
                constructor
                · intro hr; rw [← hr] at hne; exact absurd horg' hne
                · intro hg; rw [hg0] at hg; rw [← Option.some.inj hg] at hne; exact absurd horg' hne
              · simp only [e, if_false]
  | delete t0 id0 =>
    simp only [Op.tenant, Option.some.injEq] at ht; subst ht
    simp only [step]
    split
    · rfl
    · rename_i r0 hg0
      split
      · rfl
      · rename_i horg
        have horg' : r0.org = t0 := Classical.not_not.mp horg
        simp only [get_del]
        by_cases e : id = id0
        · simp only [e, if_true]
          constructor
          · intro hr; cases hr
          · intro hg; rw [hg0] at hg; rw [← Option.some.inj hg] at hne; exact absurd horg' hne
        · simp only [e, if_false]
  | get t0 id0 => simp only [step]; split <;> first | rfl | (split <;> rfl)
  | list t0 => rfl
  | restart => rfl

theorem unique_run (ops : List Op) : ∀ (st : St), Unique st → Unique (run st ops).1 := by
  induction ops with
  | nil => intro st h; exact h
  | cons op r ih => intro st h; simp only [run]; exact ih _ (unique_step h op)

theorem unique_init : Unique init := by intro id id' r r' hg; simp [init, AL.get] at hg

end AlertDB

/-! ### dashboards / folders -/
namespace Dash
open SigModel.KV.Dash

theorem getDashG_fs (old : Bool) (st : St) (t id : Nat) : (getDashG old st t id).1.fs = st.fs := by
  unfold getDashG
  split
  · rfl
  · cases st.det.get id with
    | none => rfl
    | some d =>
      simp only
      cases (st.fs t).items.get id with
      | none => rfl
      | some it =>
        simp only
        cases it.parent with
        | none => rfl
        | some fid =>
          simp only
          cases (st.fs t).items.get fid with
          | none => rfl
          | some p =>
            simp only
            split <;> rfl

theorem listFold_fs (old : Bool) (fs0 : FS) (t : Nat) (items : List (Nat × Item)) :
    ∀ (acc : St × List Row), (listFold old fs0 t items acc).1.fs = acc.1.fs := by
  induction items with
  | nil => intro acc; rfl
  | cons e r ih =>
    intro acc
    simp only [listFold, List.foldl_cons] at ih ⊢
    rw [ih]
    unfold listRow
    by_cases h0 : e.1 = 0
    · simp [h0]
    · simp only [h0, if_false]; exact getDashG_fs old acc.1 t e.1

/-- an operation of tenant `t` leaves the folder structure of every other tenant untouched (old and
patched behaviour alike) -/
theorem fs_frame (old : Bool) (st : St) (op : Op) (t : Nat) (ht : op.tenant = some t) (t' : Nat) (hne : t' ≠ t) :
    (stepG old st op).1.fs t' = st.fs t' := by
  cases op with
  | createDash t0 name payload parent =>
    simp only [Op.tenant, Option.some.injEq] at ht; subst ht
    simp only [stepG]
    repeat' split
    all_goals first | rfl | simp [upd, hne]
  | createFolder t0 name parent =>
    simp only [Op.tenant, Option.some.injEq] at ht; subst ht
    simp only [stepG]
    repeat' split
    all_goals first | rfl | simp [upd, hne]
  | updateDash t0 id name payload newParent =>
    simp only [Op.tenant, Option.some.injEq] at ht; subst ht
    simp only [stepG]
    split
    · rfl
    · split
      · rfl
      · split
        · rfl
        · simp [upd, hne]
  | updateFolder t0 id name newParent =>
    simp only [Op.tenant, Option.some.injEq] at ht; subst ht
    simp only [stepG]
    repeat' split
    all_goals first | rfl | simp [setFS, upd, hne]
  | deleteDash t0 id =>
    simp only [Op.tenant, Option.some.injEq] at ht; subst ht
    simp only [stepG]
    split
    · rfl
    · split
      · rfl
      · simp [upd, hne]
  | deleteFolder t0 id =>
    simp only [Op.tenant, Option.some.injEq] at ht; subst ht
    simp only [stepG]
    split
    · rfl
    · split
      · rfl
      · simp [upd, hne]
  | getDash t0 id =>
    simp only [stepG]
    have := getDashG_fs old st t0 id
    split <;> simp_all
  | contents t0 id =>
    simp only [stepG]
    split <;> rfl
  | list t0 =>
    simp only [stepG]
    rw [listFold_fs]
  | favorite t0 id =>
    simp only [stepG]
    split
    · rfl
    · split <;> rfl
  | restart => rfl

/-! #### the details files: which ids an operation can touch -/

theorem ownsDash_get {st : St} {t id : Nat} (h : ownsDash st t id = true) : (st.fs t).items.get id ≠ none := by
  unfold ownsDash at h
  cases hg : (st.fs t).items.get id with
  | none => simp [hg] at h
  | some it => simp

theorem getDash_effect (st : St) (t id : Nat) :
    (getDashG false st t id).1.next = st.next ∧
    ∀ y, (getDashG false st t id).1.det.get y = st.det.get y ∨ (st.fs t).items.get y ≠ none := by
  unfold getDashG
  by_cases ho : ownsDash st t id = true
  · simp only [ho, Bool.not_false, Bool.not_true, Bool.and_false, Bool.false_eq_true, if_false]
    cases st.det.get id with
    | none => exact ⟨rfl, fun _ => Or.inl rfl⟩
    | some d =>
      simp only
      cases (st.fs t).items.get id with
      | none => exact ⟨rfl, fun _ => Or.inl rfl⟩
      | some it =>
        simp only
        cases it.parent with
        | none => exact ⟨rfl, fun _ => Or.inl rfl⟩
        | some fid =>
          simp only
          cases (st.fs t).items.get fid with
          | none => exact ⟨rfl, fun _ => Or.inl rfl⟩
          | some p =>
            simp only
            split
            · exact ⟨rfl, fun _ => Or.inl rfl⟩
            · refine ⟨rfl, fun y => ?_⟩
              simp only [get_put]
              by_cases e : y = id
              · subst e; exact Or.inr (ownsDash_get ho)
              · simp [e]
  · simp only [Bool.not_eq_true] at ho
    simp [ho]

theorem listFold_effect (fs0 : FS) (t : Nat) (items : List (Nat × Item)) :
    ∀ (acc : St × List Row),
      (listFold false fs0 t items acc).1.next = acc.1.next ∧
      ∀ y, (listFold false fs0 t items acc).1.det.get y = acc.1.det.get y ∨ (acc.1.fs t).items.get y ≠ none := by
  induction items with
  | nil => intro acc; exact ⟨rfl, fun _ => Or.inl rfl⟩
  | cons e r ih =>
    intro acc
    simp only [listFold, List.foldl_cons] at ih ⊢
    obtain ⟨h1, h2⟩ := ih (listRow false fs0 t acc e)
    have hrow : (listRow false fs0 t acc e).1.next = acc.1.next ∧ (listRow false fs0 t acc e).1.fs = acc.1.fs ∧
        ∀ y, (listRow false fs0 t acc e).1.det.get y = acc.1.det.get y ∨ (acc.1.fs t).items.get y ≠ none := by
      unfold listRow
      by_cases h0 : e.1 = 0
      · simp [h0]
      · simp only [h0, if_false]
        exact ⟨(getDash_effect acc.1 t e.1).1, getDashG_fs false acc.1 t e.1, (getDash_effect acc.1 t e.1).2⟩
    refine ⟨h1.trans hrow.1, fun y => ?_⟩
    rcases h2 y with h | h
    · rcases hrow.2.2 y with h' | h'
      · exact Or.inl (h.trans h')
      · exact Or.inr h'
    · rw [hrow.2.1] at h; exact Or.inr h

theorem get_foldl_del {V : Type} (dead : List Nat) : ∀ (m : AL Nat V) (y : Nat),
    (dead.foldl (fun m x => m.del x) m).get y ≠ none → m.get y ≠ none := by
  induction dead with
  | nil => intro m y h; exact h
  | cons x r ih =>
    intro m y h
    have := ih (m.del x) y h
    rw [get_del] at this
    by_cases e : y = x
    · simp [e] at this
    · simpa [e] using this

theorem det_foldl_del (fs : FS) (dead : List Nat) : ∀ (d : AL Nat Det) (y : Nat),
    (dead.foldl (fun d x => match fs.items.get x with
        | some ix => if ix.ty = .dash then d.del x else d
        | none => d) d).get y = d.get y ∨ fs.items.get y ≠ none := by
  induction dead with
  | nil => intro d y; exact Or.inl rfl
  | cons x r ih =>
    intro d y
    simp only [List.foldl_cons]
    cases hg : fs.items.get x with
    | none => simpa [hg] using ih d y
    | some ix =>
      simp only
      by_cases hty : ix.ty = .dash
      · simp only [hty, if_true]
        rcases ih (d.del x) y with h | h
        · rw [h, get_del]
          by_cases e : y = x
          · subst e; right; rw [hg]; simp
          · left; simp [e]
        · exact Or.inr h
      · simp only [hty, if_false]; exact ih d y

/-- what one operation of tenant `t` can do to the id generator, to the ids of `t`'s folder structure and to
the details files: new ids come from the generator, details change only at the new id or at ids of `t` -/
structure Effect (st : St) (t : Nat) (st' : St) : Prop where
  next_le : st.next ≤ st'.next
  ids : ∀ id, (st'.fs t).items.get id ≠ none → (st.fs t).items.get id ≠ none ∨ (id = st.next ∧ st'.next = st.next + 1)
  det : ∀ id, st'.det.get id = st.det.get id ∨ id = st.next ∨ (st.fs t).items.get id ≠ none

theorem effect_refl (st : St) (t : Nat) : Effect st t st :=
  ⟨Nat.le_refl _, fun _ h => Or.inl h, fun _ => Or.inl rfl⟩

theorem step_effect (st : St) (op : Op) (t : Nat) (ht : op.tenant = some t) : Effect st t (step st op).1 := by
  cases op with
  | createDash t0 name payload parent =>
    simp only [Op.tenant, Option.some.injEq] at ht; subst ht
    simp only [step, stepG]
    repeat' split
    all_goals first
      | exact effect_refl st t0
      | (refine ⟨Nat.le_succ _, fun id h => ?_, fun id => ?_⟩
         · simp only [upd, if_true, get_put] at h
           by_cases e : id = st.next
           · exact Or.inr ⟨e, rfl⟩
           · simp only [e, if_false] at h; exact Or.inl h
         · simp only [get_put]
           by_cases e : id = st.next
           · exact Or.inr (Or.inl e)
           · simp [e])
  | createFolder t0 name parent =>
    simp only [Op.tenant, Option.some.injEq] at ht; subst ht
    simp only [step, stepG]
    repeat' split
    all_goals first
      | exact effect_refl st t0
      | (refine ⟨Nat.le_succ _, fun id h => ?_, fun id => Or.inl rfl⟩
         simp only [upd, if_true, get_put] at h
         by_cases e : id = st.next
         · exact Or.inr ⟨e, rfl⟩
         · simp only [e, if_false] at h; exact Or.inl h)
  | updateDash t0 id0 name payload newParent =>
    simp only [Op.tenant, Option.some.injEq] at ht; subst ht
    simp only [step, stepG]
    split
    · exact effect_refl st t0
    · rename_i it hg
      split
      · exact effect_refl st t0
      · split
        · exact effect_refl st t0
        · rename_i r fs1 it1 heq
          have hit : ∀ y, fs1.items.get y ≠ none → (st.fs t0).items.get y ≠ none := by
            revert heq
            repeat' split
            all_goals
              intro heq
              first
                | (cases heq; done)
                | (cases heq; intro y hy
                   first
                     | exact hy
                     | (simp only [get_put] at hy
                        by_cases e : y = id0
                        · subst e; rw [hg]; simp
                        · simp only [e, if_false] at hy; exact hy))
          refine ⟨Nat.le_refl _, fun id h => ?_, fun id => ?_⟩
          · left
            simp only [upd, if_true] at h
            split at h
            · simp only [get_put] at h
              by_cases e : id = id0
              · subst e; rw [hg]; simp
              · simp only [e, if_false] at h; exact hit id h
            · exact hit id h
          · simp only [get_put]
            by_cases e : id = id0
            · subst e; right; right; rw [hg]; simp
            · simp [e]
  | updateFolder t0 id0 name newParent =>
    simp only [Op.tenant, Option.some.injEq] at ht; subst ht
    simp only [step, stepG]
    split
    · exact effect_refl st t0
    · split
      · exact effect_refl st t0
      · rename_i it hg
        split
        · exact effect_refl st t0
        · split
          · exact effect_refl st t0
          · rename_i r fs1 it1 heq
            have hit : fs1.items = (st.fs t0).items := by
              revert heq
              repeat' split
              all_goals
                intro heq
                first
                  | (cases heq; done)
                  | (cases heq; rfl)
            repeat' split
            all_goals first
              | exact effect_refl st t0
              | (refine ⟨Nat.le_refl _, fun id h => ?_, fun id => Or.inl rfl⟩
                 simp only [setFS, upd, if_true, get_put, hit] at h
                 by_cases e : id = id0
                 · subst e; left; rw [hg]; simp
                 · simp only [e, if_false] at h; exact Or.inl h)
  | deleteDash t0 id0 =>
    simp only [Op.tenant, Option.some.injEq] at ht; subst ht
    simp only [step, stepG]
    split
    · exact effect_refl st t0
    · rename_i it hg
      split
      · exact effect_refl st t0
      · refine ⟨Nat.le_refl _, fun id h => ?_, fun id => ?_⟩
        · simp only [upd, if_true, get_del] at h
          by_cases e : id = id0
          · simp [e] at h
          · simp only [e, if_false] at h; exact Or.inl h
        · simp only [get_del]
          by_cases e : id = id0
          · subst e; right; right; rw [hg]; simp
          · simp [e]
  | deleteFolder t0 id0 =>
    simp only [Op.tenant, Option.some.injEq] at ht; subst ht
    simp only [step, stepG]
    split
    · exact effect_refl st t0
    · split
      · exact effect_refl st t0
      · refine ⟨Nat.le_refl _, fun id h => ?_, fun id => ?_⟩
        · simp only [upd, if_true] at h
          exact Or.inl (get_foldl_del _ _ _ h)
        · exact (det_foldl_del (st.fs t0) _ st.det id).elim Or.inl (fun h => Or.inr (Or.inr h))
  | getDash t0 id0 =>
    simp only [Op.tenant, Option.some.injEq] at ht; subst ht
    have he := getDash_effect st t0 id0
    have hf := getDashG_fs false st t0 id0
    have : Effect st t0 (getDashG false st t0 id0).1 :=
      ⟨Nat.le_of_eq he.1.symm, fun id h => by rw [hf] at h; exact Or.inl h,
       fun id => (he.2 id).elim Or.inl (fun h => Or.inr (Or.inr h))⟩
    simp only [step, stepG]
    split <;> simp_all
  | contents t0 id0 =>
    simp only [step, stepG]
    split <;> exact effect_refl st t
  | list t0 =>
    simp only [Op.tenant, Option.some.injEq] at ht; subst ht
    simp only [step, stepG]
    have he := listFold_effect (st.fs t0) t0 (st.fs t0).items (st, [])
    have hf := listFold_fs false (st.fs t0) t0 (st.fs t0).items (st, [])
    exact ⟨Nat.le_of_eq he.1.symm, fun id h => by rw [hf] at h; exact Or.inl h,
      fun id => (he.2 id).elim Or.inl (fun h => Or.inr (Or.inr h))⟩
  | favorite t0 id0 =>
    simp only [Op.tenant, Option.some.injEq] at ht; subst ht
    simp only [step, stepG]
    split
    · exact effect_refl st t0
    · rename_i ho
      simp only [Bool.not_false, Bool.true_and, Bool.not_eq_true', Bool.not_eq_false] at ho
      split
      · exact effect_refl st t0
      · refine ⟨Nat.le_refl _, fun id h => Or.inl h, fun id => ?_⟩
        simp only [get_put]
        by_cases e : id = id0
        · subst e; exact Or.inr (Or.inr (ownsDash_get ho))
        · simp [e]
  | restart => exact effect_refl st t

/-- ids come from one generator: every id in a folder structure is below it, and no id other than the root
is in the structures of two tenants -/
structure Inv (st : St) : Prop where
  fresh : ∀ t id, (st.fs t).items.get id ≠ none → id < st.next
  disjoint : ∀ t t' id, t ≠ t' → id ≠ 0 → (st.fs t).items.get id ≠ none → (st.fs t').items.get id = none

theorem items_init (t id : Nat) (h : ((init.fs t).items.get id) ≠ none) : id = 0 := by
  simp only [init, initFS, AL.get] at h
  by_cases e : 0 = id
  · exact e.symm
  · simp [e] at h

theorem inv_init : Inv init :=
  ⟨fun t id h => by rw [items_init t id h]; exact Nat.zero_lt_one,
   fun t _ id _ hid h => absurd (items_init t id h) hid⟩

theorem inv_step {st : St} (h : Inv st) (op : Op) : Inv (step st op).1 := by
  cases hten : op.tenant with
  | none => cases op <;> simp [Op.tenant] at hten; exact h
  | some t =>
    have eff := step_effect st op t hten
    have frame := fun t' (hne : t' ≠ t) => fs_frame false st op t hten t' hne
    have nofresh : ∀ t1, (st.fs t1).items.get st.next = none := by
      intro t1
      cases hg : (st.fs t1).items.get st.next with
      | none => rfl
      | some it => exact absurd (h.fresh t1 st.next (by rw [hg]; simp)) (Nat.lt_irrefl _)
    refine ⟨?_, ?_⟩
    · intro t1 id hid
      by_cases e : t1 = t
      · subst e
        rcases eff.ids id hid with h1 | ⟨h1, h2⟩
        · exact Nat.lt_of_lt_of_le (h.fresh t1 id h1) eff.next_le
        · show id < (step st op).1.next
          rw [h1, h2]; exact Nat.lt_succ_self _
      · have : (step st op).1.fs t1 = st.fs t1 := frame t1 e
        rw [show (step st op).1.fs t1 = st.fs t1 from this] at hid
        exact Nat.lt_of_lt_of_le (h.fresh t1 id hid) eff.next_le
    · intro t1 t2 id hne hid hg
      by_cases e1 : t1 = t
      · subst e1
        have e2 : t2 ≠ t1 := fun e => hne e.symm
        rw [show (step st op).1.fs t2 = st.fs t2 from frame t2 e2]
        rcases eff.ids id hg with h1 | ⟨h1, _⟩
        · exact h.disjoint t1 t2 id hne hid h1
        · rw [h1]; exact nofresh t2
      · rw [show (step st op).1.fs t1 = st.fs t1 from frame t1 e1] at hg
        by_cases e2 : t2 = t
        · subst e2
          cases hg2 : ((step st op).1.fs t2).items.get id with
          | none => rfl
          | some it =>
            exfalso
            rcases eff.ids id (by rw [hg2]; simp) with h1 | ⟨h1, _⟩
            · have := h.disjoint t2 t1 id (fun e => hne e.symm) hid h1
              exact hg this
            · rw [h1, nofresh t1] at hg; exact hg rfl
        · rw [show (step st op).1.fs t2 = st.fs t2 from frame t2 e2]
          exact h.disjoint t1 t2 id hne hid hg

theorem inv_run (ops : List Op) : ∀ (st : St), Inv st → Inv (run st ops).1 := by
  induction ops with
  | nil => intro st h; exact h
  | cons op r ih =>
    intro st h
    show Inv (runG false (stepG false st op).1 r).1
    exact ih _ (inv_step h op)

/-- the details file of another tenant's object is not touched -/
theorem det_frame {st : St} (h : Inv st) (op : Op) (t : Nat) (ht : op.tenant = some t) (t' : Nat) (hne : t' ≠ t)
    (id : Nat) (hid : id ≠ 0) (hown : (st.fs t').items.get id ≠ none) :
    (step st op).1.det.get id = st.det.get id := by
  rcases (step_effect st op t ht).det id with h1 | h1 | h1
  · exact h1
  · exact absurd (h.fresh t' id hown) (by rw [h1]; exact Nat.lt_irrefl _)
  · exact absurd (h.disjoint t t' id (fun e => hne e.symm) hid h1) hown

/-! ### updateFolder: the duplicate-name test (patch c20-13) -/

theorem nameTaken_put_self (fs : FS) (id : Nat) (x : Item) (p : Nat) (n : Key) :
    nameTaken { fs with items := fs.items.put id x } p n none (some id) = nameTaken fs p n none (some id) := by
  unfold nameTaken
  congr 1
  funext c
  by_cases e : c = id
  · subst e
    simp only [get_put, if_true]
    cases fs.items.get c <;> simp
  · simp only [get_put, e, if_false]

def renOf (name : Option Key) (it1 : Item) : Bool := match name with | some n => decide (n ≠ it1.name) | none => false
def newNameOf (name : Option Key) (it1 : Item) : Key := match name with | some n => n | none => it1.name
def it2Of (name : Option Key) (it1 : Item) : Item :=
  if renOf name it1 = true then { name := name.getD [], ty := it1.ty, parent := it1.parent } else it1
def takenOf (id : Nat) (name : Option Key) (fs1 : FS) (target : Option Nat) (it1 : Item) : Bool :=
  match target with
  | some p => nameTaken fs1 p (newNameOf name it1) none (some id)
  | none => false
def tailOf (st : St) (t id : Nat) (name : Option Key) (fs1 : FS) (target : Option Nat) (it1 : Item) (chg : Bool) : St × Out :=
  if ((renOf name it1 || chg) && takenOf id name fs1 target it1) = true then (st, Out.res Res.exists_)
  else (setFS st t { items := fs1.items.put id (it2Of name it1), order := fs1.order }, Out.res Res.ok)

theorem it2_name (name : Option Key) (it1 : Item) : (it2Of name it1).name = newNameOf name it1 := by
  unfold it2Of renOf newNameOf
  cases name with
  | none => simp
  | some n => by_cases e : n = it1.name <;> simp [e]

theorem it2_parent (name : Option Key) (it1 : Item) : (it2Of name it1).parent = it1.parent := by
  unfold it2Of; split <;> rfl

/-- the rename part of updateFolder, for whatever structure `fs1` / item `it1` the move part produced -/
theorem rename_tail (st : St) (t id : Nat) (name : Option Key) (fs1 : FS) (target : Option Nat) (it1 : Item) (chg : Bool)
    (htg : target = it1.parent)
    (hc : (renOf name it1 || chg) = true) (hok : (tailOf st t id name fs1 target it1 chg).2 = .res .ok) :
    ∃ it', (((tailOf st t id name fs1 target it1 chg).1).fs t).items.get id = some it' ∧
      ∀ p, it'.parent = some p →
        nameTaken (((tailOf st t id name fs1 target it1 chg).1).fs t) p it'.name none (some id) = false := by
  subst htg
  unfold tailOf at hok ⊢
  rw [hc] at hok ⊢
  simp only [Bool.true_and] at hok ⊢
  by_cases htk : takenOf id name fs1 it1.parent it1 = true
  · simp [htk] at hok
  simp only [htk, Bool.false_eq_true, if_false, setFS, upd, if_true] at hok ⊢
  refine ⟨it2Of name it1, by simp [get_put], ?_⟩
  intro p hp
  rw [it2_parent] at hp
  rw [it2_name, nameTaken_put_self]
  unfold takenOf at htk
  rw [hp] at htk
  simpa using htk

/-- the structure after the move part of updateFolder (folder `id` with item `it` goes below `np`) -/
def movedFS (fs : FS) (id : Nat) (it : Item) (np : Nat) : FS :=
  let order1 := match it.parent with
    | some c => (match fs.order.get c with
        | some l => fs.order.put c (l.filter (fun x => x ≠ id))
        | none => fs.order)
    | none => fs.order
  { fs with order := order1.put np (((order1.get np).getD []) ++ [id]) }


end Dash

end SigModel.Lemmas.C20K
