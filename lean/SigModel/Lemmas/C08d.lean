/-
Helper lemmas for C08, part 4: encoder/decoder invariant, per-point step, the decode loop.
-/
import SigModel.Lemmas.C08c

namespace SigModel.Lemmas.C08
open SigModel SigModel.Gorilla

/-! ### guard (verbatim copies of the definitions in Props/C08.lean, which imports this file) -/

def okFirstL (header t : Nat) : Prop :=
  header < P32 ∧ t < P32 ∧ t ≠ 0 ∧ header ≤ t ∧ t - header < 2 ^ 14 - 1

def okPtsL (c : Enc) : List (Nat × Nat) → Prop
  | [] => True
  | (t, v) :: ps =>
    t < P32 ∧ t ≠ 0 ∧ v < P64 ∧
    ((-2047 ≤ dodOf c t ∧ dodOf c t ≤ 2048) ∨ dodOf c t % (P32 : Int) ≠ (P32 : Int) - 1) ∧
    okPtsL (compress c t v).1 ps

def okSeriesL (header : Nat) : List (Nat × Nat) → Prop
  | [] => header < P32
  | (t, v) :: ps => okFirstL header t ∧ v < P64 ∧ okPtsL (compress (Enc.new header).1 t v).1 ps

/-! ### invariant -/

structure Inv (c : Enc) (d : Dec) : Prop where
  t_ne : c.t ≠ 0
  t_lt : c.t < P32
  t_eq : d.t = c.t
  delta_eq : d.delta = c.tDelta
  delta_lt : c.tDelta < P32
  value_eq : d.value = c.value
  value_lt : c.value < P64
  win : Win c d

theorem compress_ne (c : Enc) (t v : Nat) (h : c.t ≠ 0) :
    compress c t v = ((compressValue (compressTimestamp c t).1 v).1,
      (compressTimestamp c t).2 ++ (compressValue (compressTimestamp c t).1 v).2) := by
  rw [compress]
  refine (if_neg h).trans ?_
  generalize compressTimestamp c t = p
  obtain ⟨c1, b1⟩ := p
  simp only

/- NOTE: the kernel must never be asked to check `(A, B).1 ≡ A` when `A` is itself `(f x).1` with `f`
a big unfoldable function: it compares the arguments of the two `Prod.fst` first and unfolds `f`.
Go through these abstract lemmas instead. -/
theorem fst_mk {α β : Type} (a : α) (b : β) : (a, b).1 = a := rfl
theorem snd_mk {α β : Type} (a : α) (b : β) : (a, b).2 = b := rfl

theorem compress_ne_fst (c : Enc) (t v : Nat) (h : c.t ≠ 0) :
    (compress c t v).1 = (compressValue (compressTimestamp c t).1 v).1 :=
  (congrArg Prod.fst (compress_ne c t v h)).trans (fst_mk _ _)

theorem compress_ne_snd (c : Enc) (t v : Nat) (h : c.t ≠ 0) :
    (compress c t v).2 = (compressTimestamp c t).2 ++ (compressValue (compressTimestamp c t).1 v).2 :=
  (congrArg Prod.snd (compress_ne c t v h)).trans (snd_mk _ _)

theorem encodePts_cons (c : Enc) (t v : Nat) (ps : List (Nat × Nat)) :
    encodePts c ((t, v) :: ps) = ((encodePts (compress c t v).1 ps).1,
      (compress c t v).2 ++ (encodePts (compress c t v).1 ps).2) := by
  rw [encodePts]

/-! ### one point, encoder state already primed (`c.t ≠ 0`) -/

theorem next_of_ok (d d1 d2 : Dec) (bs r r2 : Bits) (hdt : d.t ≠ 0)
    (h1 : decompressTimestamp d bs = .ok (d1, r)) (h2 : decompressValue d1 r = some (d2, r2)) :
    next d bs = .ok (d2, r2) := by
  rw [next, if_neg hdt, h1]
  simp only [h2]

theorem next_of_eof (d : Dec) (bs : Bits) (hdt : d.t ≠ 0)
    (h1 : decompressTimestamp d bs = .eof) : next d bs = .eof := by
  rw [next, if_neg hdt, h1]

theorem next_step (c : Enc) (d : Dec) (t v : Nat) (r : Bits) (inv : Inv c d)
    (ht : t < P32) (ht0 : t ≠ 0) (hv : v < P64)
    (hg : (-2047 ≤ dodOf c t ∧ dodOf c t ≤ 2048) ∨ dodOf c t % (P32 : Int) ≠ (P32 : Int) - 1) :
    ∃ d1, next d ((compress c t v).2 ++ r) = .ok (d1, r) ∧ d1.t = t ∧ d1.value = v ∧
      Inv (compress c t v).1 d1 := by
  have hdt : d.t ≠ 0 := by rw [inv.t_eq]; exact inv.t_ne
  have hrange := dodOf_range c t inv.delta_lt
  have hts := ts_step d (dodOf c t) ((compressValue (compressTimestamp c t).1 v).2 ++ r)
    (by rw [inv.delta_eq]; exact inv.delta_lt) hrange.1 hrange.2 hg
  rw [tsDec_dodOf c d t ht inv.t_lt inv.t_eq inv.delta_eq, Nat.mod_eq_of_lt ht] at hts
  have hfst := compressTimestamp_fst c t
  rw [Nat.mod_eq_of_lt ht] at hfst
  obtain ⟨d2, hd2, e_t, e_delta, e_val, hwin, c_val, c_t, c_delta⟩ :=
    value_step (compressTimestamp c t).1 { d with delta := (t + P32 - c.t) % P32, t := t } v r hv
      (by rw [hfst]; exact inv.value_eq) (by rw [hfst]; exact inv.value_lt)
      (by rw [hfst]; exact inv.win)
  refine ⟨d2, ?_, e_t, e_val, ?_⟩
  · rw [compress_ne_snd c t v inv.t_ne, List.append_assoc, compressTimestamp_snd]
    exact next_of_ok d _ d2 _ _ r hdt hts hd2
  · rw [compress_ne_fst c t v inv.t_ne]
    have hP : (t + P32 - c.t) % P32 < P32 := Nat.mod_lt _ (by simp only [P32]; omega)
    constructor
    · rw [c_t, hfst]; exact ht0
    · rw [c_t, hfst]; exact ht
    · rw [c_t, hfst, e_t]
    · rw [c_delta, hfst, e_delta]
    · rw [c_delta, hfst]; exact hP
    · rw [c_val, e_val]
    · rw [c_val]; exact hv
    · exact hwin

/-! ### the decode loop over primed states -/

theorem encodePts_nil (c : Enc) : encodePts c [] = (c, []) := by rw [encodePts]

theorem encodePts_cons_fst (c : Enc) (t v : Nat) (ps : List (Nat × Nat)) :
    (encodePts c ((t, v) :: ps)).1 = (encodePts (compress c t v).1 ps).1 :=
  (congrArg Prod.fst (encodePts_cons c t v ps)).trans (fst_mk _ _)

theorem encodePts_cons_snd (c : Enc) (t v : Nat) (ps : List (Nat × Nat)) :
    (encodePts c ((t, v) :: ps)).2 = (compress c t v).2 ++ (encodePts (compress c t v).1 ps).2 :=
  (congrArg Prod.snd (encodePts_cons c t v ps)).trans (snd_mk _ _)

/-- the finish marker stops a primed decoder -/
theorem next_finish (c : Enc) (d : Dec) (pad : Bits) (inv : Inv c d) :
    next d (finish c ++ pad) = .eof := by
  have hdt : d.t ≠ 0 := by rw [inv.t_eq]; exact inv.t_ne
  apply next_of_eof d _ hdt
  rw [finish, if_neg inv.t_ne, wbF]
  rw [decompressTimestamp_of d _ (writeBits 0xFFFFFFFF 32 ++ ([false] ++ pad)) ([false] ++ pad) 32
    (0xFFFFFFFF % 2 ^ 32) (by simp only [List.cons_append, List.nil_append, List.append_assoc, dodBitN])
    (by omega) (readBits_writeBits _ _ _)]
  exact if_pos ⟨rfl, by omega⟩

theorem decodeLoop_succ_ok (fuel : Nat) (d d1 : Dec) (bs r : Bits) (h : next d bs = .ok (d1, r)) :
    decodeLoop (fuel + 1) d bs = ((d1.t, d1.value) :: (decodeLoop fuel d1 r).1, (decodeLoop fuel d1 r).2) := by
  rw [decodeLoop, h]

theorem decodeLoop_succ_eof (fuel : Nat) (d : Dec) (bs : Bits) (h : next d bs = .eof) :
    decodeLoop (fuel + 1) d bs = ([], .eof) := by
  rw [decodeLoop, h]

theorem decodeLoop_encodePts (pts : List (Nat × Nat)) : ∀ (c : Enc) (d : Dec) (fuel : Nat) (pad : Bits),
    Inv c d → okPtsL c pts → pts.length < fuel →
    decodeLoop fuel d ((encodePts c pts).2 ++ (finish (encodePts c pts).1 ++ pad)) = (pts, .eof) := by
  induction pts with
  | nil =>
    intro c d fuel pad inv _ hf
    obtain ⟨f, rfl⟩ : ∃ f, fuel = f + 1 := ⟨fuel - 1, by simp only [List.length_nil] at hf; omega⟩
    rw [encodePts_nil, List.nil_append]
    exact decodeLoop_succ_eof f d _ (next_finish c d pad inv)
  | cons p ps ih =>
    intro c d fuel pad inv hok hf
    obtain ⟨t, v⟩ := p
    obtain ⟨f, rfl⟩ : ∃ f, fuel = f + 1 := ⟨fuel - 1, by simp only [List.length_cons] at hf; omega⟩
    obtain ⟨ht, ht0, hv, hg, hrest⟩ := hok
    rw [encodePts_cons_fst, encodePts_cons_snd, List.append_assoc]
    obtain ⟨d1, hnext, e1, e2, inv1⟩ := next_step c d t v
      ((encodePts (compress c t v).1 ps).2 ++ (finish (encodePts (compress c t v).1 ps).1 ++ pad)) inv ht ht0 hv hg
    rw [decodeLoop_succ_ok f d d1 _ _ hnext,
      ih (compress c t v).1 d1 f pad inv1 hrest (by simp only [List.length_cons] at hf; omega), e1, e2]

/-! ### the first point -/

theorem compress_first (header t v : Nat) (hf : okFirstL header t) :
    compress (Enc.new header).1 t v =
      ({ header := header, t := t, tDelta := t - header, lead := 255, trail := 0, value := v },
       writeBits (t - header) 14 ++ writeBits v 64) := by
  obtain ⟨h1, h2, h3, h4, h5⟩ := hf
  rw [compress]
  refine (if_pos rfl).trans ?_
  have e1 : t % P32 = t := Nat.mod_eq_of_lt h2
  have e2 : header % P32 = header := Nat.mod_eq_of_lt h1
  have e3 : (t + P32 - header) % P32 = t - header := by
    simp only [P32] at h1 h2 ⊢; omega
  simp only [Enc.new, firstDeltaBits, e1, e2, e3]
  have e4 : ¬ toS32 (t - header) < 0 := by
    rcases toS32_cases (t - header) with ⟨_, e⟩ | ⟨h, _⟩
    · rw [e]; omega
    · omega
  rw [if_neg e4]

theorem compress_first_fst (header t v : Nat) (hf : okFirstL header t) :
    (compress (Enc.new header).1 t v).1 =
      { header := header, t := t, tDelta := t - header, lead := 255, trail := 0, value := v } :=
  (congrArg Prod.fst (compress_first header t v hf)).trans (fst_mk _ _)

theorem compress_first_snd (header t v : Nat) (hf : okFirstL header t) :
    (compress (Enc.new header).1 t v).2 = writeBits (t - header) 14 ++ writeBits v 64 :=
  (congrArg Prod.snd (compress_first header t v hf)).trans (snd_mk _ _)

/-- the decoder state right after `NewDecompressIterator` -/
def dec0 (header : Nat) : Dec :=
  { header := header, t := 0, delta := 0, lead := 0, trail := 0, value := 0 }

theorem first_step (header t v : Nat) (r : Bits) (hf : okFirstL header t) (hv : v < P64) :
    ∃ d1, next (dec0 header) ((compress (Enc.new header).1 t v).2 ++ r) = .ok (d1, r) ∧
      d1.t = t ∧ d1.value = v ∧ Inv (compress (Enc.new header).1 t v).1 d1 := by
  rw [compress_first_fst header t v hf, compress_first_snd header t v hf, List.append_assoc]
  obtain ⟨h1, h2, h3, h4, h5⟩ := hf
  have r14 : readBits 14 (writeBits (t - header) 14 ++ (writeBits v 64 ++ r)) =
      some (t - header, writeBits v 64 ++ r) := readBits_writeBits_lt _ _ _ (by omega)
  have r64 : readBits 64 (writeBits v 64 ++ r) = some (v, r) :=
    readBits_writeBits_lt _ _ _ (by simp only [P64] at hv; omega)
  have et : (header + (t - header)) % P32 = t := by
    simp only [P32] at h2 ⊢; omega
  refine ⟨{ header := header, t := t, delta := t - header, lead := 0, trail := 0, value := v },
    ?_, rfl, rfl, ?_⟩
  · rw [next]
    refine (if_pos rfl).trans ?_
    rw [decompressFirst]
    simp only [firstDeltaBits, r14, r64, dec0, et]
    rw [if_neg (by omega)]
  · exact ⟨h3, h2, rfl, rfl, by simp only [P32] at h2 ⊢; omega, rfl, hv, Or.inl rfl⟩

end SigModel.Lemmas.C08
