/-
Helper lemmas for C08, part 4: encoder/decoder invariant, per-point step, the decode loop.
-/
import SigModel.Lemmas.C08c

namespace SigModel.Lemmas.C08
open SigModel SigModel.Gorilla

/-! ### guard (verbatim copies of the definitions in Props/C08.lean, which imports this file) -/

def okFirstL (header t : Nat) : Prop :=
  header < P32 ∧ t < P32 ∧ t ≠ 0 ∧ header ≤ t ∧ t - header < 2 ^ 14 - 1

def okPtsL (c : Enc) : List (Nat × Nat) → Prop
  | [] => True
  | (t, v) :: ps =>
    t < P32 ∧ t ≠ 0 ∧ v < P64 ∧
    ((-2047 ≤ dodOf c t ∧ dodOf c t ≤ 2048) ∨ dodOf c t % (P32 : Int) ≠ (P32 : Int) - 1) ∧
    okPtsL (compress c t v).1 ps

def okSeriesL (header : Nat) : List (Nat × Nat) → Prop
  | [] => header < P32
  | (t, v) :: ps => okFirstL header t ∧ v < P64 ∧ okPtsL (compress (Enc.new header).1 t v).1 ps

/-! ### invariant -/

structure Inv (c : Enc) (d : Dec) : Prop where
  t_ne : c.t ≠ 0
  t_lt : c.t < P32
  t_eq : d.t = c.t
  delta_eq : d.delta = c.tDelta
  delta_lt : c.tDelta < P32
  value_eq : d.value = c.value
  value_lt : c.value < P64
  win : Win c d

theorem compress_ne (c : Enc) (t v : Nat) (h : c.t ≠ 0) :
    compress c t v = ((compressValue (compressTimestamp c t).1 v).1,
      (compressTimestamp c t).2 ++ (compressValue (compressTimestamp c t).1 v).2) := by
  rw [compress, if_neg h]

theorem encodePts_cons (c : Enc) (t v : Nat) (ps : List (Nat × Nat)) :
    encodePts c ((t, v) :: ps) = ((encodePts (compress c t v).1 ps).1,
      (compress c t v).2 ++ (encodePts (compress c t v).1 ps).2) := by
  rw [encodePts]

end SigModel.Lemmas.C08
