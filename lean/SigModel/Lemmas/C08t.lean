/-
C08, tags tree data chunk at block level (Model/TagsTree.lean): the chunks of a TSID list concatenate to the list and
fit the 16-bit count field; the readers collect, for every value, exactly the TSIDs of its entry however many blocks
it was written in.  Core Lean only.
-/
import SigModel.Model.TagsTree
namespace SigModel.Lemmas.C08t
open SigModel.TagsTree

theorem chunksAux_flatten (fuel : Nat) (l : List Nat) (h : l.length < fuel) : (chunksAux fuel l).flatten = l := by
  induction fuel generalizing l with
  | zero => omega
  | succ n ih =>
    unfold chunksAux
    split
    · simp
    · rename_i hl
      have hd : (l.drop maxPerBlock).length < n := by
        rw [List.length_drop]; unfold maxPerBlock at *; omega
      rw [List.flatten_cons, ih _ hd, List.take_append_drop]

theorem chunks_flatten (l : List Nat) : (chunks l).flatten = l :=
  chunksAux_flatten _ l (Nat.lt_succ_self _)

theorem chunksAux_fit (fuel : Nat) (l : List Nat) : ∀ c ∈ chunksAux fuel l, c.length ≤ maxPerBlock := by
  induction fuel generalizing l with
  | zero => intro c hc; simp [chunksAux] at hc
  | succ n ih =>
    intro c hc
    unfold chunksAux at hc
    split at hc
    · rename_i hl
      simp only [List.mem_singleton] at hc
      rw [hc]; exact hl
    · simp only [List.mem_cons] at hc
      rcases hc with hc | hc
      · rw [hc, List.length_take]; exact Nat.min_le_left _ _
      · exact ih _ c hc

theorem chunks_fit (l : List Nat) : ∀ c ∈ chunks l, c.length ≤ maxPerBlock := chunksAux_fit _ l

theorem chunks_ne_nil (l : List Nat) : chunks l ≠ [] := by
  unfold chunks chunksAux
  split <;> simp

theorem blocksOf_ne_nil (e : Entry) : blocksOf e ≠ [] := by
  unfold blocksOf
  intro h
  exact chunks_ne_nil e.tsids (List.map_eq_nil_iff.mp h)

theorem blocksOf_hash (e : Entry) : ∀ b ∈ blocksOf e, b.hash = e.hash := by
  intro b hb
  unfold blocksOf at hb
  rw [List.mem_map] at hb
  obtain ⟨c, _, hc⟩ := hb
  rw [← hc]

theorem blocksOf_tsids (e : Entry) : (blocksOf e).flatMap (·.tsids) = e.tsids := by
  unfold blocksOf
  rw [List.flatMap_def, List.map_map]
  have : ((fun b : Block => b.tsids) ∘ fun c => ({ hash := e.hash, tsids := c } : Block)) = id := by
    funext c; rfl
  rw [this, List.map_id, chunks_flatten]

/-- every block the repaired encoder writes is read back as written -/
theorem encodeBlocks_wellFramed (es : List Entry) : ∀ b ∈ encodeBlocks es, wellFramed b := by
  intro b hb
  unfold encodeBlocks at hb
  rw [List.mem_flatMap] at hb
  obtain ⟨e, _, hbe⟩ := hb
  unfold blocksOf at hbe
  rw [List.mem_map] at hbe
  obtain ⟨c, hc, hcb⟩ := hbe
  have hfit := chunks_fit e.tsids c hc
  unfold wellFramed countField
  rw [← hcb]
  unfold maxPerBlock at hfit
  exact Nat.mod_eq_of_lt (by simp only; omega)

/-! ### the readers on runs of blocks with one hash -/

theorem readEqual_run_same (h : Nat) (cs : List (List Nat)) (m : Bool) (rest : List Block) :
    readEqual h m (cs.map (fun c => ({ hash := h, tsids := c } : Block)) ++ rest)
      = cs.flatten ++ readEqual h (m || !cs.isEmpty) rest := by
  induction cs generalizing m with
  | nil => simp
  | cons c cs ih =>
    simp only [List.map_cons, List.cons_append, readEqual, if_true, List.flatten_cons, List.append_assoc]
    rw [ih]
    simp

theorem readEqual_run_other (h h' : Nat) (hne : h' ≠ h) (cs : List (List Nat)) (rest : List Block) :
    readEqual h false (cs.map (fun c => ({ hash := h', tsids := c } : Block)) ++ rest) = readEqual h false rest := by
  induction cs with
  | nil => simp
  | cons c cs ih =>
    simp only [List.map_cons, List.cons_append, readEqual, hne, if_false]
    exact ih

theorem readEqual_true_stop (h : Nat) (es : List Entry) (hall : ∀ e ∈ es, e.hash ≠ h) :
    readEqual h true (encodeBlocks es) = [] := by
  cases es with
  | nil => rfl
  | cons x xs =>
    unfold encodeBlocks
    rw [List.flatMap_cons]
    have hx := hall x (List.mem_cons_self ..)
    cases hb : blocksOf x with
    | nil => exact absurd hb (blocksOf_ne_nil x)
    | cons b bs =>
      have hbh : b.hash = x.hash := blocksOf_hash x b (by rw [hb]; exact List.mem_cons_self ..)
      simp only [List.cons_append, readEqual]
      rw [hbh, if_neg hx]
      simp

theorem readEqual_complete (es : List Entry) (hnd : (es.map (·.hash)).Nodup) (e : Entry) (he : e ∈ es) :
    readEqual e.hash false (encodeBlocks es) = e.tsids := by
  induction es with
  | nil => cases he
  | cons x xs ih =>
    rw [List.map_cons, List.nodup_cons] at hnd
    obtain ⟨hx, hxs⟩ := hnd
    have henc : encodeBlocks (x :: xs) = blocksOf x ++ encodeBlocks xs := by
      unfold encodeBlocks; rw [List.flatMap_cons]
    rw [henc]
    rcases List.mem_cons.mp he with hex | hexs
    · subst hex
      unfold blocksOf
      rw [readEqual_run_same]
      have hne : (chunks e.tsids).isEmpty = false := by
        cases hc : chunks e.tsids with
        | nil => exact absurd hc (chunks_ne_nil _)
        | cons _ _ => rfl
      rw [hne, chunks_flatten]
      simp only [Bool.not_false, Bool.or_true]
      rw [readEqual_true_stop]
      · simp
      · intro y hy hyh
        apply hx
        rw [← hyh]
        exact List.mem_map.mpr ⟨y, hy, rfl⟩
    · have hne : x.hash ≠ e.hash := by
        intro hh
        apply hx
        rw [hh]
        exact List.mem_map.mpr ⟨e, hexs, rfl⟩
      unfold blocksOf
      rw [readEqual_run_other _ _ hne]
      exact ih hxs hexs

/-- a filter on the hash commutes with the encoding, as far as the collected TSIDs go -/
theorem filter_hash_tsids (q : Nat → Bool) (es : List Entry) :
    ((encodeBlocks es).filter (fun b => q b.hash)).flatMap (·.tsids) = (es.filter (fun e => q e.hash)).flatMap (·.tsids) := by
  induction es with
  | nil => rfl
  | cons x xs ih =>
    have henc : encodeBlocks (x :: xs) = blocksOf x ++ encodeBlocks xs := by
      unfold encodeBlocks; rw [List.flatMap_cons]
    rw [henc, List.filter_append, List.flatMap_append, ih, List.filter_cons]
    have hall : ∀ b ∈ blocksOf x, q b.hash = q x.hash := by
      intro b hb; rw [blocksOf_hash x b hb]
    by_cases hq : q x.hash = true
    · have : (blocksOf x).filter (fun b => q b.hash) = blocksOf x := by
        apply List.filter_eq_self.mpr
        intro b hb; rw [hall b hb, hq]
      rw [this, blocksOf_tsids, if_pos hq, List.flatMap_cons]
    · have : (blocksOf x).filter (fun b => q b.hash) = [] := by
        apply List.filter_eq_nil_iff.mpr
        intro b hb; rw [hall b hb]; exact hq
      rw [this, if_neg hq]
      simp

theorem readNotEqual_complete (h : Nat) (es : List Entry) :
    readNotEqual h (encodeBlocks es) = (es.filter (fun e => e.hash != h)).flatMap (·.tsids) :=
  filter_hash_tsids (fun x => x != h) es

theorem flatMap_filter_nonempty (q : Block → Bool) (bs : List Block) :
    ((bs.filter (fun b => !b.tsids.isEmpty)).filter q).flatMap (·.tsids) = (bs.filter q).flatMap (·.tsids) := by
  induction bs with
  | nil => rfl
  | cons b r ih =>
    cases hb : b.tsids with
    | nil =>
      by_cases hq : q b = true
      · simp [hb, hq] at ih ⊢; exact ih
      · simp [hb, hq] at ih ⊢; exact ih
    | cons t ts =>
      by_cases hq : q b = true
      · simp [hb, hq] at ih ⊢; exact ih
      · simp [hb, hq] at ih ⊢; exact ih

theorem iterFor_filter (h : Nat) (bs : List Block) :
    iterFor h bs = (bs.filter (fun b => b.hash == h)).flatMap (·.tsids) := by
  unfold iterFor iterate
  rw [List.filter_map, List.flatMap_def, List.map_map]
  have : ((fun x : Nat × List Nat => x.2) ∘ fun b : Block => (b.hash, b.tsids)) = fun b => b.tsids := by
    funext b; rfl
  rw [this, ← List.flatMap_def]
  exact flatMap_filter_nonempty (fun b => b.hash == h) bs

theorem iterFor_complete (h : Nat) (es : List Entry) :
    iterFor h (encodeBlocks es) = (es.filter (fun e => e.hash == h)).flatMap (·.tsids) := by
  rw [iterFor_filter]
  exact filter_hash_tsids (fun x => x == h) es

/-- before the repair: a value with 65536 TSIDs was written with the count 0 in front of them -/
theorem old_not_wellFramed :
    ¬ wellFramed ({ hash := 0, tsids := List.replicate 65536 0 } : Block) := by
  unfold wellFramed countField
  simp only [List.length_replicate]
  decide

end SigModel.Lemmas.C08t
