/-
Helper lemmas for C06, dedup: the seen-map of the code (key ↦ count) against the history of earlier keys of
the specification; the Fetch loop over dedup; transfer between key functions that agree up to an injection.
Core Lean only.
-/
import SigModel.Model.Pipe
import SigModel.Lemmas.C06

namespace SigModel.Lemmas.C06
open SigModel.Pipe

/-- how many earlier keys count against `k`: all equal ones, or (consecutive) the immediately preceding run -/
def cnt [DecidableEq κ] (cons : Bool) (pre : List κ) (k : κ) : Nat :=
  if cons then (pre.takeWhile (fun x => decide (x = k))).length else pre.count k

theorem cnt_cons [DecidableEq κ] (cons : Bool) (pre : List κ) (k k' : κ) :
    cnt cons (k :: pre) k' = if k' = k then cnt cons pre k + 1 else (if cons then 0 else cnt cons pre k') := by
  unfold cnt
  cases cons with
  | true =>
    simp only [↓reduceIte, List.takeWhile_cons]
    by_cases hk : k' = k
    · subst hk; simp
    · have : ¬ k = k' := fun e => hk e.symm
      simp [hk, this]
  | false =>
    simp only [Bool.false_eq_true, ↓reduceIte, List.count_cons]
    by_cases hk : k' = k
    · subst hk; simp
    · have : ¬ k = k' := fun e => hk e.symm
      simp [hk, this]

theorem cnt_nil [DecidableEq κ] (cons : Bool) (k : κ) : cnt cons ([] : List κ) k = 0 := by
  unfold cnt; cases cons <;> simp

theorem cnt_map [DecidableEq κ] [DecidableEq κ'] (g : κ → κ') (cons : Bool) (k : κ) :
    ∀ (pre : List κ), (∀ x ∈ pre, g x = g k → x = k) → cnt cons (pre.map g) (g k) = cnt cons pre k := by
  intro pre
  induction pre with
  | nil => intro _; simp [cnt_nil]
  | cons a pre ih =>
    intro hinj
    have ih' := ih (fun x hx => hinj x (List.mem_cons_of_mem a hx))
    rw [List.map_cons, cnt_cons, cnt_cons]
    by_cases hk : k = a
    · subst hk; simp [ih']
    · have h1 : ¬ g k = g a := fun e => hk (hinj a (List.mem_cons_self) e.symm).symm
      simp [hk, h1, ih']

/-! ### association-list lookups -/

theorem lookup_filter_ne (s : Seen) (k k' : Nat) :
    (s.filter (fun e => e.1 != k)).lookup k' = if k' = k then none else s.lookup k' := by
  induction s with
  | nil => simp
  | cons e s ih =>
    obtain ⟨a, b⟩ := e
    by_cases ha : a = k
    · subst ha
      by_cases hk : k' = a
      · subst hk; simp [ih]
      · have : (k' == a) = false := by simpa using hk
        simp [ih, hk, List.lookup_cons, this]
    · have hne : (a != k) = true := by simpa using ha
      by_cases hk : k' = k
      · subst hk
        have : (k' == a) = false := by simpa using (fun e : k' = a => ha e.symm)
        simp [hne, List.lookup_cons, this, ih]
      · by_cases hka : k' = a
        · subst hka; simp [hne, hk]
        · have : (k' == a) = false := by simpa using hka
          simp [hne, List.lookup_cons, this, ih, hk]

theorem lookup_filter_eq (s : Seen) (k k' : Nat) :
    (s.filter (fun e => e.1 == k)).lookup k' = if k' = k then s.lookup k' else none := by
  induction s with
  | nil => simp
  | cons e s ih =>
    obtain ⟨a, b⟩ := e
    by_cases ha : a = k
    · subst ha
      by_cases hk : k' = a
      · subst hk; simp
      · have : (k' == a) = false := by simpa using hk
        simp [List.lookup_cons, this, ih, hk]
    · have hne : (a == k) = false := by simpa using ha
      by_cases hk : k' = k
      · subst hk
        have : (k' == a) = false := by simpa using (fun e : k' = a => ha e.symm)
        simp [hne, List.lookup_cons, this, ih]
      · simp [hne, ih, hk]

theorem lookup_seenSet (s : Seen) (k v k' : Nat) :
    (seenSet s k v).lookup k' = if k' = k then some v else s.lookup k' := by
  unfold seenSet
  by_cases hk : k' = k
  · subst hk; simp
  · have : (k' == k) = false := by simpa using hk
    simp [List.lookup_cons, this, lookup_filter_ne, hk]

/-! ### the code's seen-map against the history of keys -/

def Rel (cons : Bool) (seen : Seen) (pre : List Nat) : Prop :=
  ∀ k, seen.lookup k = if cnt cons pre k = 0 then none else some (cnt cons pre k)

theorem rel_init (cons : Bool) : Rel cons [] [] := by
  intro k; simp [cnt_nil]

theorem dedupRow_none (kf : List Val → Nat) (o : DedupOpts) (seen : Seen) (r : Row)
    (hk : rowKey kf o.fields r = none) : dedupRow kf o seen r = (seen, !o.keepEmpty) := by
  unfold dedupRow; rw [hk]

theorem dedupRow_some (kf : List Val → Nat) (o : DedupOpts) (seen : Seen) (pre : List Nat) (r : Row) (k : Nat)
    (hk : rowKey kf o.fields r = some k) (hR : Rel o.consecutive seen pre) :
    Rel o.consecutive (dedupRow kf o seen r).1 (k :: pre) ∧
      (dedupRow kf o seen r).2 = decide (cnt o.consecutive pre k ≥ max o.limit 1) := by
  have hRk := hR k
  unfold dedupRow
  rw [hk]
  -- the two branches of the map lookup produce the same new map: count + 1
  have hseen : (seenBump o.limit seen k).2 = seenSet seen k (cnt o.consecutive pre k + 1) ∧
      (seenBump o.limit seen k).1 = decide (cnt o.consecutive pre k ≥ max o.limit 1) := by
    unfold seenBump
    by_cases h0 : cnt o.consecutive pre k = 0
    · rw [h0] at hRk ⊢
      simp only [↓reduceIte] at hRk
      rw [hRk]
      refine ⟨rfl, ?_⟩
      have : ¬ (0 ≥ max o.limit 1) := by omega
      simp [this]
    · simp only [h0, ↓reduceIte] at hRk
      rw [hRk]
      refine ⟨rfl, ?_⟩
      by_cases hl : cnt o.consecutive pre k ≥ o.limit
      · have : cnt o.consecutive pre k ≥ max o.limit 1 := by omega
        simp [hl, this]
      · have : ¬ cnt o.consecutive pre k ≥ max o.limit 1 := by omega
        simp [hl, this]
  obtain ⟨h2, h1⟩ := hseen
  refine ⟨?_, h1⟩
  intro k'
  dsimp only
  rw [h2, cnt_cons]
  by_cases hc : o.consecutive = true
  · simp only [hc, ↓reduceIte]
    rw [lookup_filter_eq, lookup_seenSet]
    by_cases hkk : k' = k
    · simp [hkk]
    · simp [hkk]
  · have hc' : o.consecutive = false := by simpa using hc
    simp only [hc', Bool.false_eq_true, ↓reduceIte]
    rw [lookup_seenSet]
    by_cases hkk : k' = k
    · simp [hkk]
    · have := hR k'
      rw [hc'] at this
      simp [hkk, this]

theorem dedupRows_spec (kf : List Val → Nat) (o : DedupOpts) : ∀ (t : Table) (seen : Seen) (pre : List Nat),
    Rel o.consecutive seen pre →
    (dedupRows kf o seen t).2 = dedupSpecFrom (rowKey kf o.fields) o pre t := by
  intro t
  induction t with
  | nil => intro seen pre _; simp [dedupRows, dedupSpecFrom]
  | cons r t ih =>
    intro seen pre hR
    simp only [dedupRows, dedupSpecFrom]
    cases hk : rowKey kf o.fields r with
    | none =>
      rw [dedupRow_none kf o seen r hk]
      simp only
      rw [ih seen pre hR]
    | some k =>
      obtain ⟨hR', hd⟩ := dedupRow_some kf o seen pre r k hk hR
      simp only
      rw [hd, ih _ _ hR']
      rfl

theorem dedupRows_append (kf : List Val → Nat) (o : DedupOpts) : ∀ (a b : Table) (seen : Seen),
    dedupRows kf o seen (a ++ b) =
      ((dedupRows kf o (dedupRows kf o seen a).1 b).1, (dedupRows kf o seen a).2 ++ (dedupRows kf o (dedupRows kf o seen a).1 b).2) := by
  intro a
  induction a with
  | nil => intro b seen; simp [dedupRows]
  | cons r a ih =>
    intro b seen
    simp only [List.cons_append, dedupRows]
    rw [ih]
    simp [List.append_assoc]

/-! ### the Fetch loop over dedup -/

theorem dedup_process (kf : List Val → Nat) (o : DedupOpts) (hf : o.fields ≠ [])
    (seen : Seen) (b : Table) :
    (dedupProc kf o).process seen b = ((dedupRows kf o seen b).1, some (dedupRows kf o seen b).2, false) := by
  simp only [dedupProc]
  cases hfl : o.fields with
  | nil => exact absurd hfl hf
  | cons f fs => rfl

theorem dedup_pass (kf : List Val → Nat) (o : DedupOpts) (hf : o.fields ≠ []) :
    ∀ (parts : List Table) (seen : Seen),
    ((pass (dedupProc kf o) true seen parts).2).flatten = (dedupRows kf o seen parts.flatten).2 := by
  intro parts
  induction parts with
  | nil => intro seen; rw [pass_nil _ _ _ rfl]; simp [dedupProc, otl, dedupRows]
  | cons b bs ih =>
    intro seen
    rw [pass_cons _ _ _ _ _ rfl, dedup_process kf o hf seen b]
    simp only [Bool.false_eq_true, ↓reduceIte, otl, List.flatten_cons, List.cons_append, List.nil_append]
    rw [ih, dedupRows_append]

/-! ### transfer between key functions -/

theorem spec_congr [DecidableEq κ] [DecidableEq κ'] (g : κ → κ') (key : Row → Option κ) (o : DedupOpts) :
    ∀ (t : Table) (pre : List κ),
    (∀ x y, (x ∈ pre ∨ ∃ r ∈ t, key r = some x) → (y ∈ pre ∨ ∃ r ∈ t, key r = some y) → g x = g y → x = y) →
    dedupSpecFrom (fun r => (key r).map g) o (pre.map g) t = dedupSpecFrom key o pre t := by
  intro t
  induction t with
  | nil => intro pre _; simp [dedupSpecFrom]
  | cons r t ih =>
    intro pre hinj
    simp only [dedupSpecFrom]
    cases hk : key r with
    | none =>
      simp only [Option.map_none]
      rw [ih pre]
      intro x y hx hy
      refine hinj x y ?_ ?_
      · rcases hx with hx | ⟨r', hr', hx⟩
        · exact Or.inl hx
        · exact Or.inr ⟨r', List.mem_cons_of_mem r hr', hx⟩
      · rcases hy with hy | ⟨r', hr', hy⟩
        · exact Or.inl hy
        · exact Or.inr ⟨r', List.mem_cons_of_mem r hr', hy⟩
    | some k =>
      simp only [Option.map_some]
      have hcnt : cnt o.consecutive (pre.map g) (g k) = cnt o.consecutive pre k :=
        cnt_map g o.consecutive k pre (fun x hx e =>
          hinj x k (Or.inl hx) (Or.inr ⟨r, List.mem_cons_self, hk⟩) e)
      have hih := ih (k :: pre) (by
        intro x y hx hy
        refine hinj x y ?_ ?_
        · rcases hx with hx | ⟨r', hr', hx⟩
          · rcases List.mem_cons.mp hx with hx | hx
            · subst hx; exact Or.inr ⟨r, List.mem_cons_self, hk⟩
            · exact Or.inl hx
          · exact Or.inr ⟨r', List.mem_cons_of_mem r hr', hx⟩
        · rcases hy with hy | ⟨r', hr', hy⟩
          · rcases List.mem_cons.mp hy with hy | hy
            · subst hy; exact Or.inr ⟨r, List.mem_cons_self, hk⟩
            · exact Or.inl hy
          · exact Or.inr ⟨r', List.mem_cons_of_mem r hr', hy⟩)
      rw [List.map_cons] at hih
      rw [hih]
      unfold cnt at hcnt
      rw [hcnt]

theorem rowKey_map (g : List Val → κ) (fs : List String) (r : Row) :
    rowKey g fs r = (rowKey (fun vs => vs) fs r).map g := by
  simp only [rowKey]
  by_cases hc : (List.map r.get fs).any Val.isNull = true <;> simp [hc]

/-! ### the key of a tuple -/

theorem rowKey_length (fs : List String) (r : Row) (vs : List Val)
    (h : rowKey (fun vs => vs) fs r = some vs) : vs.length = fs.length := by
  simp only [rowKey] at h
  by_cases hc : (List.map r.get fs).any Val.isNull = true
  · simp [hc] at h
  · simp [hc] at h; subst h; simp

theorem map_injective_of_injective {α β : Type} (h : α → β) (hinj : ∀ v w, h v = h w → v = w) :
    ∀ (vs ws : List α), vs.map h = ws.map h → vs = ws := by
  intro vs
  induction vs with
  | nil => intro ws e; cases ws with
    | nil => rfl
    | cons w ws => simp at e
  | cons v vs ih =>
    intro ws e
    cases ws with
    | nil => simp at e
    | cons w ws =>
      simp only [List.map_cons, List.cons.injEq] at e
      rw [hinj v w e.1, ih ws e.2]

/-! ### the XOR combination of the code before the repair -/

theorem xorKeyOld_swap (h : Val → Nat) (a b : Val) : xorKeyOld h [a, b] = xorKeyOld h [b, a] := by
  simp [xorKeyOld, Nat.xor_comm]

theorem xorKeyOld_pair_self (h : Val → Nat) (a : Val) : xorKeyOld h [a, a] = 0 := by
  simp [xorKeyOld]

end SigModel.Lemmas.C06
