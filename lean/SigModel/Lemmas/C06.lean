/-
Helper lemmas for C06 (pipeline commands are chunk-invariant): the Fetch loop `pass` over head, scroll,
tail, the row-wise commands and the two-pass fillnull.  Core Lean only.
-/
import SigModel.Model.Pipe

namespace SigModel.Lemmas.C06
open SigModel.Pipe

/-! ### `pass` for processors without a final result -/

theorem pass_nil (p : Proc σ) (e : Bool) (s : σ) (h : p.final s = none) :
    pass p e s [] = ((p.finish s).1, otl (p.finish s).2) := by
  simp [pass, h]

theorem pass_cons (p : Proc σ) (e : Bool) (s : σ) (b : Table) (bs : List Table) (h : p.final s = none) :
    pass p e s (b :: bs) =
      if (p.process s b).2.2 then ((p.process s b).1, otl (p.process s b).2.1)
      else ((pass p e (p.process s b).1 bs).1,
            (if e then otl (p.process s b).2.1 else []) ++ (pass p e (p.process s b).1 bs).2) := by
  simp [pass, h]

/-! ### head -/

theorem head_process (n s : Nat) (b : Table) :
    (headProc n).process s b = (s + (b.take (n - s)).length, some (b.take (n - s)), decide (s + (b.take (n - s)).length ≥ n)) := rfl

theorem head_pass (n : Nat) (parts : List Table) : ∀ (s : Nat),
    ((pass (headProc n) true s parts).2).flatten = parts.flatten.take (n - s) := by
  induction parts with
  | nil => intro s; rw [pass_nil _ _ _ rfl]; simp [headProc, otl]
  | cons b bs ih =>
    intro s
    rw [pass_cons _ _ _ _ _ rfl, head_process]
    simp only [List.length_take, List.flatten_cons, List.take_append]
    by_cases hlt : b.length < n - s
    · have h1 : ¬ (s + min (n - s) b.length ≥ n) := by omega
      simp only [ge_iff_le, h1, decide_false, Bool.false_eq_true, ↓reduceIte, otl, List.flatten_append,
        List.flatten_cons, List.flatten_nil, List.append_nil]
      rw [ih]
      have h2 : n - (s + min (n - s) b.length) = n - s - b.length := by omega
      rw [h2]
    · have h1 : s + min (n - s) b.length ≥ n := by omega
      simp only [ge_iff_le, h1, decide_true, ↓reduceIte, otl, List.flatten_cons, List.flatten_nil,
        List.append_nil]
      have h2 : n - s - b.length = 0 := by omega
      simp [h2]

/-! ### scroll -/

theorem scroll_process (f rem : Nat) (b : Table) :
    (scrollProc f).process rem b =
      if rem = 0 then (rem, some b, false)
      else if rem < b.length then (0, some (b.drop rem), false)
      else (rem - b.length, some (b.drop b.length), false) := rfl

theorem scroll_pass (f : Nat) (parts : List Table) : ∀ (rem : Nat),
    ((pass (scrollProc f) true rem parts).2).flatten = parts.flatten.drop rem := by
  induction parts with
  | nil => intro s; rw [pass_nil _ _ _ rfl]; simp [scrollProc, otl]
  | cons b bs ih =>
    intro rem
    rw [pass_cons _ _ _ _ _ rfl, scroll_process]
    simp only [List.flatten_cons, List.drop_append]
    by_cases h0 : rem = 0
    · subst h0; simp [otl, ih]
    · by_cases hlt : rem < b.length
      · have : rem - b.length = 0 := by omega
        simp [h0, hlt, otl, ih, this]
      · have h3 : List.drop rem b = [] := List.drop_of_length_le (by omega)
        simp [h0, hlt, otl, ih, h3]

/-! ### tail -/

/-- the last `n` rows -/
def lastN (n : Nat) (l : List α) : List α := l.drop (l.length - n)

theorem lastN_append_long (n : Nat) (x b : List α) (h : b.length ≥ n) :
    lastN n (x ++ b) = lastN n b := by
  unfold lastN
  rw [List.drop_append, List.length_append]
  have h1 : x.length + b.length - n ≥ x.length := by omega
  rw [List.drop_of_length_le h1]
  have h2 : x.length + b.length - n - x.length = b.length - n := by omega
  simp [h2]

theorem lastN_append_short (n : Nat) (x b : List α) (h : b.length < n) :
    lastN n (x ++ b) = (lastN n x).drop ((lastN n x).length - (n - b.length)) ++ b := by
  unfold lastN
  rw [List.drop_append, List.length_append, List.drop_drop, List.length_drop]
  have h1 : x.length + b.length - n - x.length = 0 := by omega
  have h2 : x.length - n + (x.length - (x.length - n) - (n - b.length)) = x.length + b.length - n := by omega
  rw [h1, h2]; simp

/-- state update of `tailProcessor.Process` for a non-nil batch -/
def tailAcc (n : Nat) (f : Option Table) (b : Table) : Option Table :=
  match f with
  | none => some (b.drop (b.length - n))
  | some f => if b.length ≥ n then some (b.drop (b.length - n)) else some (f.drop (f.length - (n - b.length)) ++ b)

theorem tailAcc_inv (n : Nat) (f : Option Table) (x b : Table) (h : f.getD [] = lastN n x) :
    (tailAcc n f b).getD [] = lastN n (x ++ b) := by
  cases f with
  | none =>
    simp only [Option.getD_none] at h
    simp only [tailAcc, Option.getD_some]
    by_cases hl : b.length ≥ n
    · rw [lastN_append_long n x b hl]; rfl
    · rw [lastN_append_short n x b (by omega), ← h]; simp
      have : b.length - n = 0 := by omega
      simp [this]
  | some f =>
    simp only [Option.getD_some] at h
    simp only [tailAcc]
    by_cases hl : b.length ≥ n
    · simp only [hl, ↓reduceIte, Option.getD_some]; rw [lastN_append_long n x b hl]; rfl
    · simp only [hl, ↓reduceIte, Option.getD_some]; rw [lastN_append_short n x b (by omega), ← h]

theorem tail_process (n : Nat) (f : Option Table) (b : Table) :
    (tailProc n).process { fin := f, eof := false } b = ({ fin := tailAcc n f b, eof := false }, none, false) := by
  cases f with
  | none => simp [tailProc, tailAcc]
  | some f => simp only [tailProc, tailAcc]; split <;> rfl

theorem tail_pass (n : Nat) (parts : List Table) : ∀ (f : Option Table) (x : Table), f.getD [] = lastN n x →
    ((pass (tailProc n) false { fin := f, eof := false } parts).2).flatten = (lastN n (x ++ parts.flatten)).reverse := by
  induction parts with
  | nil =>
    intro f x h
    rw [pass_nil _ _ _ (by simp [tailProc])]
    cases f with
    | none =>
      have h' : lastN n x = [] := by simpa using h.symm
      simp [tailProc, otl, h']
    | some f =>
      have h' : lastN n x = f := by simpa using h.symm
      simp [tailProc, otl, h']
  | cons b bs ih =>
    intro f x h
    rw [pass_cons _ _ _ _ _ (by simp [tailProc])]
    rw [tail_process]
    simp only [Bool.false_eq_true, ↓reduceIte, List.nil_append, List.flatten_cons]
    rw [ih (tailAcc n f b) (x ++ b) (tailAcc_inv n f x b h), List.append_assoc]

/-! ### row-wise commands -/

theorem rowwise_pass (f : Table → Table) (parts : List Table) :
    (pass (rowwiseProc f) true () parts).2 = parts.map f := by
  induction parts with
  | nil => simp [pass_nil, rowwiseProc, otl]
  | cons b bs ih =>
    rw [pass_cons _ _ _ _ _ (by simp [rowwiseProc])]
    simp only [rowwiseProc, otl] at ih ⊢
    simp [ih]

theorem map_flatten_of_hom (f : Table → Table) (h0 : f [] = []) (happ : ∀ a b, f (a ++ b) = f a ++ f b)
    (parts : List Table) : (parts.map f).flatten = f parts.flatten := by
  induction parts with
  | nil => simp [h0]
  | cons b bs ih => simp [happ, ih]

theorem rowwise_run (f : Table → Table) (h0 : f [] = []) (happ : ∀ a b, f (a ++ b) = f a ++ f b)
    (parts : List Table) : runBatched (rowwiseProc f) parts = f parts.flatten := by
  show (if (rowwiseProc f).twoPass then _ else (pass (rowwiseProc f) (!(rowwiseProc f).bottleneck) (rowwiseProc f).init parts).2).flatten = _
  rw [show (rowwiseProc f).twoPass = false from rfl, show (rowwiseProc f).bottleneck = false from rfl]
  simp only [Bool.false_eq_true, ↓reduceIte, Bool.not_false]
  rw [show (rowwiseProc f).init = () from rfl, rowwise_pass, map_flatten_of_hom f h0 happ]

theorem dropEmpty_append (a b : Table) : dropEmpty (a ++ b) = dropEmpty a ++ dropEmpty b := by
  simp [dropEmpty]

/-! ### fillnull without a field list -/

theorem fillAll_pass1 (v : String) (parts : List Table) : ∀ (k : List String),
    (pass (fillAllProc v) false { known := k, second := false } parts).1
      = { known := parts.foldl addCols k, second := false } := by
  induction parts with
  | nil => intro k; simp [pass_nil, fillAllProc]
  | cons b bs ih =>
    intro k
    rw [pass_cons _ _ _ _ _ (by simp [fillAllProc])]
    simp only [fillAllProc] at ih ⊢
    simp [ih]

theorem fillAll_pass2 (v : String) (k : List String) (parts : List Table) :
    (pass (fillAllProc v) true { known := k, second := true } parts).2 = parts.map (fillTable k v) := by
  induction parts with
  | nil => simp [pass_nil, fillAllProc, otl]
  | cons b bs ih =>
    rw [pass_cons _ _ _ _ _ (by simp [fillAllProc])]
    simp only [fillAllProc, otl] at ih ⊢
    simp [ih]

theorem addCols_flatten (parts : List Table) (k : List String) :
    parts.foldl addCols k = addCols k parts.flatten := by
  unfold addCols
  rw [List.foldl_flatten]

end SigModel.Lemmas.C06
