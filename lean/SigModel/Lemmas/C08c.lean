/-
Helper lemmas for C08, part 3: XOR value window step.
-/
import SigModel.Lemmas.C08b

namespace SigModel.Lemmas.C08
open SigModel SigModel.Gorilla

/-! ### leading / trailing zeros -/

theorem lt_of_testBit_false (v n : Nat) (h : v < 2 ^ (n + 1)) (hb : v.testBit n = false) : v < 2 ^ n := by
  have h1 := @Nat.mod_pow_succ v 2 n
  have h2 := Nat.toNat_testBit v n
  rw [hb] at h2
  rw [Nat.mod_eq_of_lt h, ← h2] at h1
  simp only [Bool.toNat_false, Nat.mul_zero, Nat.add_zero] at h1
  rw [h1]
  exact Nat.mod_lt _ (Nat.two_pow_pos n)

theorem lzFrom_le (v n : Nat) : lzFrom v n ≤ n := by
  induction n with
  | zero => simp [lzFrom]
  | succ n ih =>
    rw [lzFrom]
    split <;> omega

theorem lt_of_lzFrom (v n : Nat) (h : v < 2 ^ n) : v < 2 ^ (n - lzFrom v n) := by
  induction n with
  | zero => simpa [lzFrom] using h
  | succ n ih =>
    rw [lzFrom]
    split
    · simpa using h
    · rename_i hb
      have hb' : v.testBit n = false := by simpa using hb
      have := ih (lt_of_testBit_false v n h hb')
      have e : n + 1 - (1 + lzFrom v n) = n - lzFrom v n := by omega
      rw [e]; exact this

theorem tzFrom_dvd (f : Nat) : ∀ v : Nat, 2 ^ tzFrom v f ∣ v := by
  induction f with
  | zero => intro v; simp [tzFrom]
  | succ f ih =>
    intro v
    rw [tzFrom]
    split
    · simp
    · rename_i h
      obtain ⟨k, hk⟩ := ih (v / 2)
      refine ⟨k, ?_⟩
      rw [Nat.add_comm 1, Nat.pow_succ, Nat.mul_comm (2 ^ _) 2, Nat.mul_assoc, ← hk]
      omega

/-- clamped leading zero count written by the encoder -/
def clz (x : Nat) : Nat := if leadingZeros x ≥ 32 then 31 else leadingZeros x

theorem clz_le (x : Nat) : clz x ≤ 31 := by
  rw [clz]; split <;> omega

theorem lt_pow_clz (x : Nat) (h : x < P64) : x < 2 ^ (64 - clz x) := by
  have h1 : x < 2 ^ (64 - leadingZeros x) := lt_of_lzFrom x 64 h
  have h2 : clz x ≤ leadingZeros x := by rw [clz]; split <;> omega
  exact Nat.lt_of_lt_of_le h1 (Nat.pow_le_pow_right (by omega) (by omega))

theorem tz_dvd (x : Nat) : 2 ^ trailingZeros x ∣ x := tzFrom_dvd 64 x

theorem clz_add_tz (x : Nat) (h : x < P64) (h0 : x ≠ 0) : clz x + trailingZeros x ≤ 63 := by
  have h1 := lt_pow_clz x h
  have h2 : 2 ^ trailingZeros x ≤ x := Nat.le_of_dvd (by omega) (tz_dvd x)
  have h3 : trailingZeros x < 64 - clz x :=
    (Nat.pow_lt_pow_iff_right (by omega : 1 < 2)).1 (Nat.lt_of_le_of_lt h2 h1)
  omega

/-! ### the window round trip -/

theorem window_lt (x lead trail : Nat) (h1 : x < 2 ^ (64 - lead)) (h3 : lead + trail ≤ 63) :
    x >>> trail < 2 ^ (64 - lead - trail) := by
  rw [Nat.shiftRight_eq_div_pow]
  apply Nat.div_lt_of_lt_mul
  rw [← Nat.pow_add]
  have : trail + (64 - lead - trail) = 64 - lead := by omega
  rw [this]; exact h1

theorem window_back (x trail : Nat) (hx : x < P64) (h2 : 2 ^ trail ∣ x) :
    (((x >>> trail) % P64) <<< trail) % P64 = x := by
  have hle : x >>> trail ≤ x := by
    rw [Nat.shiftRight_eq_div_pow]; exact Nat.div_le_self _ _
  rw [Nat.mod_eq_of_lt (Nat.lt_of_le_of_lt hle hx), Nat.shiftLeft_eq, Nat.shiftRight_eq_div_pow,
    Nat.div_mul_cancel h2, Nat.mod_eq_of_lt hx]

theorem xor_cancel (a v : Nat) : a ^^^ (a ^^^ v) = v := by
  rw [← Nat.xor_assoc, Nat.xor_self, Nat.zero_xor]

theorem eq_of_xor_eq_zero (a v : Nat) (h : a ^^^ v = 0) : a = v := by
  have := xor_cancel a v
  rw [h, Nat.xor_zero] at this
  exact this

theorem u8sub_small (a b : Nat) (h : b ≤ a) (ha : a < 256) : u8sub a b = a - b := by
  rw [u8sub]; omega

end SigModel.Lemmas.C08
