/-
Helper lemmas for C08, part 3: XOR value window step.
-/
import SigModel.Lemmas.C08b

namespace SigModel.Lemmas.C08
open SigModel SigModel.Gorilla

/-! ### leading / trailing zeros -/

theorem lt_of_testBit_false (v n : Nat) (h : v < 2 ^ (n + 1)) (hb : v.testBit n = false) : v < 2 ^ n := by
  have h1 := @Nat.mod_pow_succ v 2 n
  have h2 := Nat.toNat_testBit v n
  rw [hb] at h2
  rw [Nat.mod_eq_of_lt h, ← h2] at h1
  simp only [Bool.toNat_false, Nat.mul_zero, Nat.add_zero] at h1
  rw [h1]
  exact Nat.mod_lt _ (Nat.two_pow_pos n)

theorem lzFrom_le (v n : Nat) : lzFrom v n ≤ n := by
  induction n with
  | zero => simp [lzFrom]
  | succ n ih =>
    rw [lzFrom]
    split <;> omega

theorem lt_of_lzFrom (v n : Nat) (h : v < 2 ^ n) : v < 2 ^ (n - lzFrom v n) := by
  induction n with
  | zero => simpa [lzFrom] using h
  | succ n ih =>
    rw [lzFrom]
    split
    · simpa using h
    · rename_i hb
      have hb' : v.testBit n = false := by simpa using hb
      have := ih (lt_of_testBit_false v n h hb')
      have e : n + 1 - (1 + lzFrom v n) = n - lzFrom v n := by omega
      rw [e]; exact this

theorem tzFrom_dvd (f : Nat) : ∀ v : Nat, 2 ^ tzFrom v f ∣ v := by
  induction f with
  | zero => intro v; simp [tzFrom]
  | succ f ih =>
    intro v
    rw [tzFrom]
    split
    · simp
    · rename_i h
      obtain ⟨k, hk⟩ := ih (v / 2)
      refine ⟨k, ?_⟩
      rw [Nat.add_comm 1, Nat.pow_succ, Nat.mul_comm (2 ^ _) 2, Nat.mul_assoc, ← hk]
      omega

/-- clamped leading zero count written by the encoder -/
def clz (x : Nat) : Nat := if leadingZeros x ≥ 32 then 31 else leadingZeros x

theorem clz_le (x : Nat) : clz x ≤ 31 := by
  rw [clz]; split <;> omega

theorem lt_pow_clz (x : Nat) (h : x < P64) : x < 2 ^ (64 - clz x) := by
  have h1 : x < 2 ^ (64 - leadingZeros x) := lt_of_lzFrom x 64 h
  have h2 : clz x ≤ leadingZeros x := by rw [clz]; split <;> omega
  exact Nat.lt_of_lt_of_le h1 (Nat.pow_le_pow_right (by omega) (by omega))

theorem tz_dvd (x : Nat) : 2 ^ trailingZeros x ∣ x := tzFrom_dvd 64 x

theorem clz_add_tz (x : Nat) (h : x < P64) (h0 : x ≠ 0) : clz x + trailingZeros x ≤ 63 := by
  have h1 := lt_pow_clz x h
  have h2 : 2 ^ trailingZeros x ≤ x := Nat.le_of_dvd (by omega) (tz_dvd x)
  have h3 : trailingZeros x < 64 - clz x :=
    (Nat.pow_lt_pow_iff_right (by omega : 1 < 2)).1 (Nat.lt_of_le_of_lt h2 h1)
  omega

/-! ### the window round trip -/

theorem window_lt (x lead trail : Nat) (h1 : x < 2 ^ (64 - lead)) (h3 : lead + trail ≤ 63) :
    x >>> trail < 2 ^ (64 - lead - trail) := by
  rw [Nat.shiftRight_eq_div_pow]
  apply Nat.div_lt_of_lt_mul
  rw [← Nat.pow_add]
  have : trail + (64 - lead - trail) = 64 - lead := by omega
  rw [this]; exact h1

theorem window_back (x trail : Nat) (hx : x < P64) (h2 : 2 ^ trail ∣ x) :
    (((x >>> trail) % P64) <<< trail) % P64 = x := by
  have hle : x >>> trail ≤ x := by
    rw [Nat.shiftRight_eq_div_pow]; exact Nat.div_le_self _ _
  rw [Nat.mod_eq_of_lt (Nat.lt_of_le_of_lt hle hx), Nat.shiftLeft_eq, Nat.shiftRight_eq_div_pow,
    Nat.div_mul_cancel h2, Nat.mod_eq_of_lt hx]

theorem xor_cancel (a v : Nat) : a ^^^ (a ^^^ v) = v := by
  rw [← Nat.xor_assoc, Nat.xor_self, Nat.zero_xor]

theorem eq_of_xor_eq_zero (a v : Nat) (h : a ^^^ v = 0) : a = v := by
  have := xor_cancel a v
  rw [h, Nat.xor_zero] at this
  exact this

theorem u8sub_small (a b : Nat) (h : b ≤ a) (ha : a < 256) : u8sub a b = a - b := by
  rw [u8sub]; omega

/-! ### decoder / encoder value step -/

theorem decompressValue_zero (d : Dec) (r : Bits) : decompressValue d (false :: r) = some (d, r) := by
  simp only [decompressValue]

theorem decompressValue_reuse (d : Dec) (r4 r5 : Bits) (vb : Nat)
    (h : readBits (u8sub (u8sub 64 d.lead) d.trail) r4 = some (vb, r5)) :
    decompressValue d (true :: false :: r4) =
      some ({ d with value := d.value ^^^ (if d.trail ≥ 64 then 0 else ((vb % P64) <<< d.trail) % P64) }, r5) := by
  simp only [decompressValue, Bool.false_eq_true, if_false, h]

theorem decompressValue_new (d : Dec) (r2 r3 r5 : Bits) (lz sig0 vb : Nat)
    (h5 : readBits 5 r2 = some (lz, r3))
    (h6 : readBits 6 r3 = some (sig0, r4))
    (h : readBits (u8sub (u8sub 64 lz) (u8sub (u8sub 64 (if sig0 = 0 then 64 else sig0)) lz)) r4 = some (vb, r5)) :
    decompressValue d (true :: true :: r2) =
      some ({ d with lead := lz, trail := u8sub (u8sub 64 (if sig0 = 0 then 64 else sig0)) lz,
                     value := d.value ^^^
                       (if u8sub (u8sub 64 (if sig0 = 0 then 64 else sig0)) lz ≥ 64 then 0
                        else ((vb % P64) <<< u8sub (u8sub 64 (if sig0 = 0 then 64 else sig0)) lz) % P64) }, r5) := by
  simp only [decompressValue, if_true, h5, h6, h]

theorem compressValue_zero (c : Enc) (v : Nat) (h : c.value ^^^ v = 0) :
    compressValue c v = ({ c with value := v }, [false]) := by
  simp only [compressValue, h, if_true]

theorem compressValue_reuse (c : Enc) (v : Nat) (h : c.value ^^^ v ≠ 0)
    (hw : c.lead ≤ clz (c.value ^^^ v) ∧ c.trail ≤ trailingZeros (c.value ^^^ v)) :
    compressValue c v = ({ c with value := v },
      true :: false :: writeBits ((c.value ^^^ v) >>> c.trail) (64 - c.lead - c.trail)) := by
  simp only [clz] at hw
  simp only [compressValue, h, if_false, hw, and_self, if_true]

theorem compressValue_new (c : Enc) (v : Nat) (h : c.value ^^^ v ≠ 0)
    (hw : ¬ (c.lead ≤ clz (c.value ^^^ v) ∧ c.trail ≤ trailingZeros (c.value ^^^ v))) :
    compressValue c v = ({ c with value := v, lead := clz (c.value ^^^ v), trail := trailingZeros (c.value ^^^ v) },
      true :: true :: (writeBits (clz (c.value ^^^ v)) 5 ++
        writeBits (64 - clz (c.value ^^^ v) - trailingZeros (c.value ^^^ v)) 6 ++
        writeBits ((c.value ^^^ v) >>> trailingZeros (c.value ^^^ v))
          (64 - clz (c.value ^^^ v) - trailingZeros (c.value ^^^ v)))) := by
  simp only [clz] at hw ⊢
  simp only [compressValue, h, if_false, hw]

/-- window part of the encoder/decoder invariant -/
def Win (c : Enc) (d : Dec) : Prop :=
  c.lead = 255 ∨ (d.lead = c.lead ∧ d.trail = c.trail ∧ c.lead ≤ 31 ∧ c.lead + c.trail ≤ 63)

theorem value_step (c : Enc) (d : Dec) (v : Nat) (r : Bits) (hv : v < P64)
    (hval : d.value = c.value) (hcv : c.value < P64) (hwin : Win c d) :
    ∃ d2, decompressValue d ((compressValue c v).2 ++ r) = some (d2, r) ∧
      d2.t = d.t ∧ d2.delta = d.delta ∧ d2.value = v ∧ Win (compressValue c v).1 d2 ∧
      (compressValue c v).1.value = v ∧ (compressValue c v).1.t = c.t ∧
      (compressValue c v).1.tDelta = c.tDelta := by
  by_cases h0 : c.value ^^^ v = 0
  · rw [compressValue_zero c v h0]
    refine ⟨d, decompressValue_zero d r, rfl, rfl, ?_, hwin, rfl, rfl, rfl⟩
    rw [hval]; exact eq_of_xor_eq_zero _ _ h0
  · have hx : c.value ^^^ v < P64 := Nat.xor_lt_two_pow (n := 64) hcv hv
    have hlz := clz_le (c.value ^^^ v)
    have hlt := lt_pow_clz _ hx
    have hdvd := tz_dvd (c.value ^^^ v)
    have hsum := clz_add_tz _ hx h0
    generalize hX : c.value ^^^ v = x at *
    have hxv : c.value ^^^ x = v := by rw [← hX, xor_cancel]
    generalize hL : clz x = lz at *
    generalize hT : trailingZeros x = tz at *
    by_cases hw : c.lead ≤ lz ∧ c.trail ≤ tz
    · have hwin' : d.lead = c.lead ∧ d.trail = c.trail ∧ c.lead ≤ 31 ∧ c.lead + c.trail ≤ 63 := by
        rcases hwin with h | h
        · omega
        · exact h
      obtain ⟨e1, e2, h31, h63⟩ := hwin'
      rw [compressValue_reuse c v (by rw [hX]; exact h0) (by rw [hX, hL, hT]; exact hw), hX]
      have hlt' : x < 2 ^ (64 - c.lead) :=
        Nat.lt_of_lt_of_le hlt (Nat.pow_le_pow_right (by omega) (by omega))
      have hdvd' : 2 ^ c.trail ∣ x := Nat.dvd_trans (Nat.pow_dvd_pow 2 hw.2) hdvd
      have hsig : u8sub (u8sub 64 d.lead) d.trail = 64 - c.lead - c.trail := by
        rw [e1, e2, u8sub_small 64 c.lead (by omega) (by omega), u8sub_small _ _ (by omega) (by omega)]
      have hrd : readBits (u8sub (u8sub 64 d.lead) d.trail)
          (writeBits (x >>> c.trail) (64 - c.lead - c.trail) ++ r) = some (x >>> c.trail, r) := by
        rw [hsig]; exact readBits_writeBits_lt _ _ _ (window_lt x c.lead c.trail hlt' h63)
      refine ⟨{ d with value := d.value ^^^ (if d.trail ≥ 64 then 0 else ((x >>> c.trail % P64) <<< d.trail) % P64) },
        ?_, rfl, rfl, ?_, Or.inr ⟨e1, e2, h31, h63⟩, rfl, rfl, rfl⟩
      · simp only [List.cons_append]
        exact decompressValue_reuse d _ r _ hrd
      · show d.value ^^^ (if d.trail ≥ 64 then 0 else ((x >>> c.trail % P64) <<< d.trail) % P64) = v
        rw [if_neg (by omega), e2, window_back x c.trail hx hdvd', hval, hxv]
    · rw [compressValue_new c v (by rw [hX]; exact h0) (by rw [hX, hL, hT]; exact hw), hX, hL, hT]
      have hsig0 : (if (64 - lz - tz) % 2 ^ 6 = 0 then 64 else (64 - lz - tz) % 2 ^ 6) = 64 - lz - tz := by
        split <;> omega
      have htr : u8sub (u8sub 64 (64 - lz - tz)) lz = tz := by
        rw [u8sub_small 64 _ (by omega) (by omega), u8sub_small _ _ (by omega) (by omega)]; omega
      have hsig : u8sub (u8sub 64 lz) tz = 64 - lz - tz := by
        rw [u8sub_small 64 lz (by omega) (by omega), u8sub_small _ _ (by omega) (by omega)]
      have h5 : readBits 5 (writeBits lz 5 ++ (writeBits (64 - lz - tz) 6 ++
            (writeBits (x >>> tz) (64 - lz - tz) ++ r))) = some (lz, _) :=
        readBits_writeBits_lt _ _ _ (by omega)
      have h6 : readBits 6 (writeBits (64 - lz - tz) 6 ++ (writeBits (x >>> tz) (64 - lz - tz) ++ r))
            = some ((64 - lz - tz) % 2 ^ 6, _) :=
        readBits_writeBits _ _ _
      have hrd : readBits (u8sub (u8sub 64 lz) (u8sub (u8sub 64
            (if (64 - lz - tz) % 2 ^ 6 = 0 then 64 else (64 - lz - tz) % 2 ^ 6)) lz))
          (writeBits (x >>> tz) (64 - lz - tz) ++ r) = some (x >>> tz, r) := by
        rw [hsig0, htr, hsig]; exact readBits_writeBits_lt _ _ _ (window_lt x lz tz hlt hsum)
      have hdec := decompressValue_new d _ _ r lz _ _ h5 h6 hrd
      simp only [hsig0, htr] at hdec
      rw [if_neg (by omega), window_back x tz hx hdvd, hval, hxv] at hdec
      refine ⟨{ d with lead := lz, trail := tz, value := v }, ?_, rfl, rfl, rfl,
        Or.inr ⟨rfl, rfl, hlz, hsum⟩, rfl, rfl, rfl⟩
      simpa only [List.cons_append, List.append_assoc] using hdec

end SigModel.Lemmas.C08
