/- C12 helper lemmas, part h: the end-to-end model after the repairs c12-7 … c12-10 (records decoded one by one,
distinct span counts of the listing, every OTLP value kind accepted). Core Lean only. -/
import SigModel.Model.TraceE2E
import SigModel.Lemmas.C12a
import SigModel.Lemmas.C12g

namespace SigModel.Lemmas.C12
open SigModel.Trace SigModel.TraceE2E List

/-! ### decodeSpans inside the paging loops -/

theorem foldl_collectStep : ∀ (recs init : List Rec), recs.foldl collectStep init = init ++ readable recs := by
  intro recs
  induction recs with
  | nil => intro init; simp [readable]
  | cons r recs ih =>
    intro init
    rw [foldl_cons, ih]
    unfold collectStep readable
    by_cases hp : poison r = true
    · simp [hp]
    · simp [hp]

theorem readable_of_no_poison (recs : List Rec) (h : recs.any poison = false) : readable recs = recs := by
  unfold readable
  rw [filter_eq_self]
  intro r hr
  have : poison r = false := by
    cases hp : poison r with
    | false => rfl
    | true =>
      have : recs.any poison = true := any_eq_true.2 ⟨r, hr, hp⟩
      rw [h] at this
      cases this
  simp [this]

theorem collectSpans_eq (P : Nat) (hP : 0 < P) (recs : List Rec) : collectSpans P recs = readable recs := by
  unfold collectSpans
  rw [pageLoop_all collectStep P hP false recs [], foldl_collectStep]
  simp

/-! ### `uniq` and re-delivered records -/

/-- elements that occur again later do not change the list of distinct elements (`uniq` keeps the LAST occurrence) -/
theorem uniq_append_of_subset {α} [BEq α] [LawfulBEq α] : ∀ (l₁ l₂ : List α), (∀ a ∈ l₁, a ∈ l₂) →
    uniq (l₁ ++ l₂) = uniq l₂ := by
  intro l₁
  induction l₁ with
  | nil => intro l₂ _; rfl
  | cons a l₁ ih =>
    intro l₂ h
    have ha : a ∈ l₂ := h a mem_cons_self
    have hc : (l₁ ++ l₂).contains a = true := by
      rw [contains_iff_mem]
      exact mem_append_right _ ha
    have e : uniq (a :: (l₁ ++ l₂)) = uniq (l₁ ++ l₂) := by
      rw [uniq]
      exact if_pos hc
    rw [cons_append, e]
    exact ih l₂ (fun x hx => h x (mem_cons_of_mem _ hx))

theorem uniq_map_append_of_subset {α β} [BEq β] [LawfulBEq β] (f : α → β) (l₁ l₂ : List α) (h : ∀ a ∈ l₁, a ∈ l₂) :
    uniq ((l₁ ++ l₂).map f) = uniq (l₂.map f) := by
  rw [map_append]
  apply uniq_append_of_subset
  intro b hb
  obtain ⟨a, ha, rfl⟩ := mem_map.1 hb
  exact mem_map.2 ⟨a, h a ha, rfl⟩

theorem filter_subset_of_subset {α} (p : α → Bool) (l₁ l₂ : List α) (h : ∀ a ∈ l₁, a ∈ l₂) :
    ∀ a ∈ l₁.filter p, a ∈ l₂.filter p := by
  intro a ha
  obtain ⟨h1, h2⟩ := mem_filter.1 ha
  exact mem_filter.2 ⟨h a h1, h2⟩

theorem uniq_filterMap_append_of_subset {α β} [BEq β] [LawfulBEq β] (f : α → Option β) (l₁ l₂ : List α)
    (h : ∀ a ∈ l₁, a ∈ l₂) : uniq ((l₁ ++ l₂).filterMap f) = uniq (l₂.filterMap f) := by
  rw [filterMap_append]
  apply uniq_append_of_subset
  intro b hb
  obtain ⟨a, ha, hab⟩ := mem_filterMap.1 hb
  exact mem_filterMap.2 ⟨a, h a ha, hab⟩

theorem isEmpty_append_of_subset {α} (l₁ l₂ : List α) (h : ∀ a ∈ l₁, a ∈ l₂) : (l₁ ++ l₂).isEmpty = l₂.isEmpty := by
  cases l₂ with
  | nil =>
    cases l₁ with
    | nil => rfl
    | cons a l => exact absurd (h a mem_cons_self) (by simp)
  | cons b l => cases l₁ <;> rfl

/-- two keys that identify the same elements of a list give the same NUMBER of distinct values -/
theorem length_uniq_map_congr {α β γ} [BEq β] [LawfulBEq β] [BEq γ] [LawfulBEq γ] (f : α → β) (g : α → γ) :
    ∀ (l : List α), (∀ a ∈ l, ∀ b ∈ l, f a = f b ↔ g a = g b) →
      (uniq (l.map f)).length = (uniq (l.map g)).length := by
  intro l
  induction l with
  | nil => intro _; rfl
  | cons a l ih =>
    intro h
    have ih' := ih (fun x hx y hy => h x (mem_cons_of_mem _ hx) y (mem_cons_of_mem _ hy))
    have hc : (l.map f).contains (f a) = (l.map g).contains (g a) := by
      rw [Bool.eq_iff_iff, contains_iff_mem, contains_iff_mem, mem_map, mem_map]
      constructor
      · rintro ⟨b, hb, hfb⟩
        exact ⟨b, hb, (h b (mem_cons_of_mem _ hb) a mem_cons_self).1 hfb⟩
      · rintro ⟨b, hb, hgb⟩
        exact ⟨b, hb, (h b (mem_cons_of_mem _ hb) a mem_cons_self).2 hgb⟩
    rw [map_cons, map_cons, uniq, uniq, hc]
    split
    · exact ih'
    · rw [length_cons, length_cons, ih']

theorem length_eq_of_nodup_of_mem_iff {α} [DecidableEq α] {l₁ l₂ : List α} (h₁ : l₁.Nodup) (h₂ : l₂.Nodup)
    (h : ∀ a, a ∈ l₁ ↔ a ∈ l₂) : l₁.length = l₂.length :=
  ((perm_ext_iff_of_nodup h₁ h₂).2 h).length_eq

/-! ### every OTLP value kind is accepted -/

theorem attrVal_isSome (v : AVal) : ∃ j, attrVal v = some j := by
  cases v <;> exact ⟨_, rfl⟩

theorem attrFold_isSome : ∀ (attrs : List (String × AVal)) (m : List (String × JVal)),
    ∃ d, attrs.foldlM (fun m kv => (attrVal kv.2).map (setKV m kv.1)) m = some d := by
  intro attrs
  induction attrs with
  | nil => intro m; exact ⟨m, rfl⟩
  | cons kv attrs ih =>
    intro m
    obtain ⟨j, hj⟩ := attrVal_isSome kv.2
    obtain ⟨d, hd⟩ := ih (setKV m kv.1 j)
    refine ⟨d, ?_⟩
    rw [foldlM_cons, hj]
    simpa using hd

theorem spanToJson_isSome (sp : OSpan) (service : String) : ∃ d, spanToJson sp service = some d := by
  obtain ⟨m, hm⟩ := attrFold_isSome sp.attrs []
  refine ⟨setAll m (baseDoc sp service), ?_⟩
  unfold spanToJson attrDoc
  rw [hm]
  rfl

theorem length_filterMap_total {α β} (f : α → Option β) (hf : ∀ a, ∃ b, f a = some b) :
    ∀ l : List α, (l.filterMap f).length = l.length := by
  intro l
  induction l with
  | nil => rfl
  | cons a l ih =>
    obtain ⟨b, hb⟩ := hf a
    rw [filterMap_cons_some hb, length_cons, length_cons, ih]

theorem length_docsOfRes (r : ResSpans) : (docsOfRes r).length = (r.scopes.flatMap id).length := by
  unfold docsOfRes
  exact length_filterMap_total _ (fun sp => spanToJson_isSome sp _) _

theorem length_flatMap_docsOfRes : ∀ rs : List ResSpans,
    (rs.flatMap docsOfRes).length = (rs.flatMap (fun r => r.scopes.flatMap id)).length := by
  intro rs
  induction rs with
  | nil => rfl
  | cons r rs ih => rw [flatMap_cons, flatMap_cons, length_append, length_append, ih, length_docsOfRes]

end SigModel.Lemmas.C12
