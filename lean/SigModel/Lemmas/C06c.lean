/-
Helper lemmas for C06: reading a REWOUND DataProcessor again (what a two-pass command downstream causes).
Core Lean only.
-/
import SigModel.Model.Pipe
import SigModel.Lemmas.C06
import SigModel.Lemmas.C06b

namespace SigModel.Lemmas.C06
open SigModel.Pipe

/-- a processor that has a final result answers with it, whatever the upstream holds -/
theorem pass_final (p : Proc σ) (e : Bool) (s : σ) (o : Option Table) (h : p.final s = some o) (parts : List Table) :
    pass p e s parts = (s, otl o) := by
  cases parts <;> simp [pass, h]

/-- state of tail after a complete read -/
theorem tail_pass_state (n : Nat) (parts : List Table) : ∀ (f : Option Table),
    ∃ g, (pass (tailProc n) false { fin := f, eof := false } parts) = ({ fin := g, eof := true }, otl g) := by
  induction parts with
  | nil =>
    intro f
    rw [pass_nil _ _ _ (by simp [tailProc])]
    cases f with
    | none => exact ⟨none, by simp [tailProc]⟩
    | some f => exact ⟨some f.reverse, by simp [tailProc]⟩
  | cons b bs ih =>
    intro f
    rw [pass_cons _ _ _ _ _ (by simp [tailProc]), tail_process]
    obtain ⟨g, hg⟩ := ih (tailAcc n f b)
    exact ⟨g, by simp [hg]⟩

theorem tail_reread (n : Nat) (e : Bool) (parts parts' : List Table) :
    (pass (tailProc n) e ((tailProc n).rewind (pass (tailProc n) false (tailProc n).init parts).1) parts').2
      = (pass (tailProc n) false (tailProc n).init parts).2 := by
  obtain ⟨g, hg⟩ := tail_pass_state n parts none
  rw [show (tailProc n).init = { fin := none, eof := false } from rfl, hg]
  rw [show (tailProc n).rewind { fin := g, eof := true } = { fin := g, eof := true } from rfl]
  rw [pass_final (tailProc n) e { fin := g, eof := true } g (by simp [tailProc])]

end SigModel.Lemmas.C06
