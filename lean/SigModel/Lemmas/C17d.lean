import SigModel.Lemmas.C17c
/-!
C17 lifecycle, part 3: provenance of running-table entries across one operation (same object with a longer
message history, a freshly created object, or an object taken from the queue), stability of the terminal
state, the effect of a timeout, and the effect of `RestartQuery`.
-/
namespace SigModel.Lemmas.C17
open SigModel.QTable

/-! ### provenance of an entry after one operation -/

/-- where the object stored under `q` after an operation comes from -/
def Prov (s : St) (q : Nat) (r' : RQ) : Prop :=
  (∃ r, lookup q s.running = some r ∧ r'.obj = r.obj ∧ r.sent <+: r'.sent) ∨
  r'.obj = s.next ∨ (∃ w ∈ s.waiting, r'.obj = w.obj)

theorem prov_same {s : St} {q : Nat} {r' : RQ} (h : lookup q s.running = some r') : Prov s q r' :=
  Or.inl ⟨r', h, rfl, List.prefix_refl _⟩

/-- an entry `q0` is replaced by a later version `v` of the same object -/
theorem prov_put_modified {s : St} {q q0 : Nat} {r0 v r' : RQ} (hl : lookup q0 s.running = some r0)
    (ho : v.obj = r0.obj) (hp : r0.sent <+: v.sent)
    (h : lookup q (put q0 v s.running) = some r') : Prov s q r' := by
  by_cases e : q = q0
  · subst e
    rw [lookup_put_self] at h
    simp only [Option.some.injEq] at h
    subst h
    exact Or.inl ⟨r0, hl, ho, hp⟩
  · rw [lookup_put_ne e] at h
    exact prov_same h

theorem lookup_of_lookup_erase {q q0 : Nat} {m : List (Nat × RQ)} {r' : RQ}
    (h : lookup q (erase q0 m) = some r') : lookup q m = some r' := by
  by_cases e : q = q0
  · subst e; rw [lookup_erase_self] at h; simp at h
  · rw [lookup_erase_ne e] at h; exact h

theorem lookup_runQuery {s : St} {a : RQ} {q : Nat} {r' : RQ}
    (h : lookup q (runQuery s a).running = some r') : lookup q s.running = some r' ∨ r'.obj = a.obj := by
  rw [runQuery_running] at h
  split at h
  · exact Or.inl h
  · by_cases e : q = a.qid
    · subst e
      rw [lookup_put_self] at h
      simp only [Option.some.injEq] at h
      subst h
      exact Or.inr (admitted_fields a).2.1
    · rw [lookup_put_ne e] at h
      exact Or.inl h

theorem startQuery_prov {s : St} {q q0 : Nat} {force coord : Bool} {r' : RQ}
    (h : lookup q (startQuery s q0 force coord).1.running = some r') : Prov s q r' := by
  simp only [startQuery] at h
  split at h
  · exact prov_same h
  · split at h
    · rcases lookup_runQuery h with h | h
      · exact prov_same h
      · exact Or.inr (Or.inl h)
    · split at h <;> exact prov_same h

theorem cancelQuery_prov {s : St} {q q0 : Nat} {r' : RQ}
    (h : lookup q (cancelQuery s q0).1.running = some r') : Prov s q r' := by
  cases hl : lookup q0 s.running with
  | none => rw [cancelQuery_running_none hl] at h; exact prov_same h
  | some r0 =>
    rw [cancelQuery_running_some hl] at h
    exact prov_put_modified (v := (send { r0 with cancelled := true } 5).1) hl (by simp)
      (send_sent_prefix { r0 with cancelled := true } 5) h

theorem timedOut_prefix (r : RQ) : r.sent <+: (timedOut r).sent := by
  have h1 : r.sent <+: (send { r with timerLive := false } 6).1.sent :=
    send_sent_prefix { r with timerLive := false } 6
  have h2 : (send { r with timerLive := false } 6).1.sent <+: (timedOut r).sent :=
    send_sent_prefix { (send { r with timerLive := false } 6).1 with cancelled := true } 5
  exact h1.trans h2

theorem fireTimeout_prov {s : St} {q q0 : Nat} {r' : RQ}
    (h : lookup q (fireTimeout s q0).1.running = some r') : Prov s q r' := by
  rw [fireTimeout_running] at h
  cases hl : lookup q0 s.running with
  | none => simp only [hl] at h; exact prov_same h
  | some r0 =>
    simp only [hl] at h
    split at h
    · exact prov_put_modified hl (by simp [timedOut]) (timedOut_prefix r0) h
    · exact prov_same h

theorem selfSend_prov {s : St} {q q0 msg : Nat} {r' : RQ}
    (h : lookup q (selfSend s q0 msg).1.running = some r') : Prov s q r' := by
  rw [selfSend_running] at h
  cases hl : lookup q0 s.running with
  | none => simp only [hl] at h; exact prov_same h
  | some r0 =>
    simp only [hl] at h
    split at h
    · exact prov_put_modified hl (by simp) (send_sent_prefix _ msg) h
    · exact prov_same h

theorem restartQuery_prov {s : St} {q q0 nq : Nat} {force : Bool} {r' : RQ}
    (h : lookup q (restartQuery s q0 nq force).1.running = some r') : Prov s q r' := by
  simp only [restartQuery] at h
  split at h
  · exact prov_same h
  · split at h
    · exact prov_same h
    · split at h
      · exact prov_same (lookup_of_lookup_erase h)
      · split at h
        · exact prov_same (lookup_of_lookup_erase h)
        · split at h
          · rcases lookup_runQuery h with h | h
            · exact prov_same (lookup_of_lookup_erase h)
            · exact Or.inr (Or.inl h)
          · split at h <;> exact prov_same (lookup_of_lookup_erase h)

theorem step_prov {s : St} {op : Op} {q : Nat} {r' : RQ}
    (h : lookup q (step s op).1.running = some r') : Prov s q r' := by
  cases op with
  | start q0 force => exact startQuery_prov h
  | startc q0 force => exact startQuery_prov h
  | pull =>
    simp only [step] at h
    split at h
    · split at h
      · exact prov_same h
      · rename_i a rs e
        rcases lookup_runQuery h with h | h
        · exact prov_same h
        · exact Or.inr (Or.inr ⟨a, by rw [e]; exact List.mem_cons_self .., h⟩)
    · exact prov_same h
  | cancel q0 => exact cancelQuery_prov h
  | delete q0 =>
    simp only [step] at h
    split at h
    · exact prov_same h
    · exact prov_same (lookup_of_lookup_erase h)
  | drain q0 =>
    simp only [step] at h
    split at h
    · exact prov_same h
    · rename_i r0 hl
      exact prov_put_modified (v := { r0 with chanLen := 0 }) hl rfl (List.prefix_refl _) h
  | timeout q0 => exact fireTimeout_prov h
  | restart q0 nq force => exact restartQuery_prov h
  | complete q0 => exact selfSend_prov h
  | error q0 => exact selfSend_prov h

/-! ### the creation counter only grows; new queue members are fresh objects -/

theorem step_next_le (s : St) (op : Op) : s.next ≤ (step s op).1.next := by
  cases op with
  | start q force =>
    simp only [step, startQuery]
    split
    · exact Nat.le_refl _
    · split
      · rw [runQuery_next]; exact Nat.le_succ _
      · split <;> exact Nat.le_succ _
  | startc q force =>
    simp only [step, startQuery]
    split
    · exact Nat.le_refl _
    · split
      · rw [runQuery_next]; exact Nat.le_succ _
      · split <;> exact Nat.le_succ _
  | pull =>
    simp only [step]
    split
    · split
      · exact Nat.le_refl _
      · rw [runQuery_next]; exact Nat.le_refl _
    · exact Nat.le_refl _
  | cancel q => simp only [step]; rw [cancelQuery_next]; exact Nat.le_refl _
  | delete q => simp only [step]; split <;> exact Nat.le_refl _
  | drain q => simp only [step]; split <;> exact Nat.le_refl _
  | timeout q => simp only [step]; rw [fireTimeout_next]; exact Nat.le_refl _
  | restart q nq force =>
    simp only [step, restartQuery]
    split
    · exact Nat.le_refl _
    · split
      · exact Nat.le_refl _
      · split
        · exact Nat.le_refl _
        · split
          · exact Nat.le_refl _
          · split
            · rw [runQuery_next]; exact Nat.le_succ _
            · split <;> exact Nat.le_succ _
  | complete q => simp only [step]; rw [selfSend_next]; exact Nat.le_refl _
  | error q => simp only [step]; rw [selfSend_next]; exact Nat.le_refl _

theorem mem_startQuery_waiting {s : St} {q : Nat} {force coord : Bool} {w : RQ}
    (h : w ∈ (startQuery s q force coord).1.waiting) : w ∈ s.waiting ∨ w.obj = s.next := by
  simp only [startQuery] at h
  split at h
  · exact Or.inl h
  · split at h
    · rw [runQuery_waiting] at h; exact Or.inl h
    · split at h
      · exact Or.inl h
      · simp only [List.mem_append, List.mem_singleton] at h
        rcases h with h | h
        · exact Or.inl h
        · subst h; exact Or.inr rfl

theorem mem_restartQuery_waiting {s : St} {q nq : Nat} {force : Bool} {w : RQ}
    (h : w ∈ (restartQuery s q nq force).1.waiting) : w ∈ s.waiting ∨ w.obj = s.next := by
  simp only [restartQuery] at h
  split at h
  · exact Or.inl h
  · split at h
    · exact Or.inl h
    · split at h
      · exact Or.inl h
      · split at h
        · exact Or.inl h
        · split at h
          · rw [runQuery_waiting] at h; exact Or.inl h
          · split at h
            · exact Or.inl h
            · simp only [List.mem_append, List.mem_singleton] at h
              rcases h with h | h
              · exact Or.inl h
              · subst h; exact Or.inr rfl

theorem mem_step_waiting {s : St} {op : Op} {w : RQ} (h : w ∈ (step s op).1.waiting) :
    w ∈ s.waiting ∨ w.obj = s.next := by
  cases op with
  | start q force => exact mem_startQuery_waiting h
  | startc q force => exact mem_startQuery_waiting h
  | pull =>
    simp only [step] at h
    split at h
    · split at h
      · exact Or.inl h
      · rename_i a rs e
        rw [runQuery_waiting] at h
        exact Or.inl (by rw [e]; exact List.mem_cons_of_mem _ h)
    · exact Or.inl h
  | cancel q => exact Or.inl (mem_cancelQuery_waiting h)
  | delete q => simp only [step] at h; split at h <;> exact Or.inl h
  | drain q => simp only [step] at h; split at h <;> exact Or.inl h
  | timeout q => exact Or.inl (mem_fireTimeout_waiting h)
  | restart q nq force => exact mem_restartQuery_waiting h
  | complete q => simp only [step] at h; rw [selfSend_waiting] at h; exact Or.inl h
  | error q => simp only [step] at h; rw [selfSend_waiting] at h; exact Or.inl h

/-! ### the terminal state of an object never changes -/

theorem terminalOf_prefix {r r' : RQ} {t : Nat} (hp : r.sent <+: r'.sent) (h : terminalOf r = some t) :
    terminalOf r' = some t := by
  obtain ⟨e, he⟩ := hp
  unfold terminalOf at h ⊢
  rw [← he, List.find?_append, h]
  rfl

/-- "object `o`, stored under `q`, has terminal state `t`" as a property of the tables -/
def TermAt (o q t : Nat) (s : St) : Prop :=
  o < s.next ∧ (∀ w ∈ s.waiting, w.obj ≠ o) ∧
  (∀ r, lookup q s.running = some r → r.obj = o → terminalOf r = some t)

theorem step_termAt {o q t : Nat} (s : St) (op : Op) (h : TermAt o q t s) : TermAt o q t (step s op).1 := by
  obtain ⟨h1, h2, h3⟩ := h
  refine ⟨Nat.lt_of_lt_of_le h1 (step_next_le s op), ?_, ?_⟩
  · intro w hw
    rcases mem_step_waiting hw with hw | hw
    · exact h2 w hw
    · omega
  · intro r' hl ho
    rcases step_prov hl with ⟨r, hl0, hobj, hp⟩ | hnew | ⟨w, hw, hobj⟩
    · exact terminalOf_prefix hp (h3 r hl0 (by rw [← hobj]; exact ho))
    · omega
    · exact absurd (by rw [← hobj]; exact ho) (h2 w hw)

theorem run_termAt {o q t : Nat} : ∀ (ops : List Op) (s : St), TermAt o q t s → TermAt o q t (run s ops) := by
  intro ops
  induction ops with
  | nil => intro s h; exact h
  | cons op ops ih => intro s h; exact ih _ (step_termAt s op h)

theorem termAt_of_inv {s : St} {q t : Nat} {r : RQ} (hinv : Inv s) (hl : lookup q s.running = some r)
    (ht : terminalOf r = some t) : TermAt r.obj q t s := by
  have hrk := hinv.1 _ (lookup_mem hl)
  refine ⟨hrk.2.2.2.1, fun w hw e => hrk.2.2.2.2 w hw e.symm, ?_⟩
  intro r2 hl2 _
  rw [hl] at hl2
  simp only [Option.some.injEq] at hl2
  subst hl2
  exact ht

theorem run_append (s : St) (a b : List Op) : run s (a ++ b) = run (run s a) b := by
  induction a generalizing s with
  | nil => rfl
  | cons op a ih => simp only [List.cons_append, run]; exact ih _

theorem run_inv' : ∀ (ops : List Op) (s : St), Inv s → Inv (run s ops) :=
  run_inv Inv step_inv

/-! ### which terminal state: the first terminal event decides -/

theorem terminalOf_append {l : List Nat} (h : l.find? isTerminal = none) (x : Nat) (hx : isTerminal x = true) :
    (l ++ [x]).find? isTerminal = some x := by
  rw [List.find?_append, h]
  simp [List.find?, hx]

theorem terminalOf_append2 {l : List Nat} (h : l.find? isTerminal = none) (x y : Nat) (hx : isTerminal x = true) :
    (l ++ [x] ++ [y]).find? isTerminal = some x := by
  rw [List.find?_append, terminalOf_append h x hx]
  rfl

/-! ### a timeout stops the query -/

theorem timedOut_spec (r : RQ) (hroom : r.chanLen + 2 ≤ chanCap) :
    (timedOut r).cancelled = true ∧ (timedOut r).sent = r.sent ++ [6] ++ [5] ∧ (timedOut r).obj = r.obj ∧
    (timedOut r).qid = r.qid ∧ (timedOut r).chanLen = r.chanLen + 2 := by
  have h1 : ({ r with timerLive := false } : RQ).chanLen < chanCap := by show r.chanLen < chanCap; omega
  have e1 : (send { r with timerLive := false } 6).1.sent = r.sent ++ [6] := send_sent _ 6 h1
  have c1 : (send { r with timerLive := false } 6).1.chanLen = r.chanLen + 1 := send_chanLen _ 6 h1
  have h2 : ({ (send { r with timerLive := false } 6).1 with cancelled := true } : RQ).chanLen < chanCap := by
    show (send { r with timerLive := false } 6).1.chanLen < chanCap
    rw [c1]; omega
  refine ⟨by simp [timedOut], ?_, by simp [timedOut], by simp [timedOut], ?_⟩
  · unfold timedOut
    rw [send_sent _ 5 h2]
    show (send { r with timerLive := false } 6).1.sent ++ [5] = _
    rw [e1]
  · unfold timedOut
    rw [send_chanLen _ 5 h2]
    show (send { r with timerLive := false } 6).1.chanLen + 1 = _
    rw [c1]

theorem fireTimeout_stops {s : St} {q : Nat} {r : RQ} (hinv : Inv s) (hl : lookup q s.running = some r)
    (hnc : r.cancelled = false) (hroom : r.chanLen + 2 ≤ chanCap) :
    lookup q (fireTimeout s q).1.running = some (timedOut r) := by
  have hrk := hinv.1 _ (lookup_mem hl)
  have hlive : r.timerLive = true := by
    rcases hrk.2.2.1 with h | h
    · exact h
    · rw [hnc] at h; simp at h
  have hlt : r.chanLen < chanCap := by omega
  rw [fireTimeout_running]
  simp only [hl, hlive, hlt, and_self, if_true, lookup_put_self]

/-! ### RestartQuery -/

theorem count_keys_of_lookup_none {q : Nat} {m : List (Nat × RQ)} (h : lookup q m = none) :
    (m.map Prod.fst).count q = 0 := by
  induction m with
  | nil => rfl
  | cons a t ih =>
    obtain ⟨k, v⟩ := a
    simp only [lookup] at h
    split at h
    · simp at h
    · rename_i hne
      simp only [List.map_cons, List.count_cons, ih h]
      simp [hne]

theorem lookup_erase_none {q q0 : Nat} {m : List (Nat × RQ)} (h : lookup q m = none) :
    lookup q (erase q0 m) = none := by
  by_cases e : q = q0
  · subst e; exact lookup_erase_self q m
  · rw [lookup_erase_ne e]; exact h

theorem count_keys_put (q : Nat) (v : RQ) (m : List (Nat × RQ)) : ((put q v m).map Prod.fst).count q = 1 := by
  simp only [put, List.map_cons, List.count_cons, count_keys_of_lookup_none (lookup_erase_self q m)]
  simp

theorem count_qid_zero {q : Nat} {W : List RQ} (h : ∀ w ∈ W, w.qid ≠ q) : (W.map (·.qid)).count q = 0 := by
  rw [List.count_eq_zero]
  intro hm
  simp only [List.mem_map] at hm
  obtain ⟨w, hw, e⟩ := hm
  exact h w hw e

/-- `RestartQuery` of a running, un-cancelled coordinator query with a fresh new qid -/
theorem restartQuery_spec {s : St} {q nq : Nat} {force : Bool} {r : RQ}
    (hl : lookup q s.running = some r) (hnc : r.cancelled = false) (hco : r.coord = true)
    (hfresh : lookup nq s.running = none) (hfreshW : ∀ w ∈ s.waiting, w.qid ≠ nq)
    (hroom : s.waiting.length < maxWaiting) :
    (restartQuery s q nq force).2 = Out.ok ∧
    lookup q (restartQuery s q nq force).1.running = none ∧
    ((restartQuery s q nq force).1.running.map Prod.fst).count nq +
      ((restartQuery s q nq force).1.waiting.map (·.qid)).count nq = 1 ∧
    (if force then
      ∃ n, lookup nq (restartQuery s q nq force).1.running = some n ∧ n.obj = s.next ∧ n.cancelled = false ∧
        n.coord = true ∧ n.timeoutArmed = true ∧ n.timerLive = true
     else lookup nq (restartQuery s q nq force).1.running = none ∧
        ∃ n, (restartQuery s q nq force).1.waiting = s.waiting ++ [n] ∧ n.qid = nq ∧ n.obj = s.next ∧ n.coord = true) := by
  have hne : q ≠ nq := by
    intro e; subst e; rw [hl] at hfresh; simp at hfresh
  have hfe : lookup nq (erase q s.running) = none := lookup_erase_none hfresh
  have hroom' : ¬ s.waiting.length ≥ maxWaiting := by omega
  cases force with
  | true =>
    have e : restartQuery s q nq true =
        (runQuery { s with running := erase q s.running, next := s.next + 1 }
          { obj := s.next, qid := nq, coord := true, chanLen := r.chanLen }, Out.ok) := by
      simp only [restartQuery, hl, hnc, hco, hfe, Bool.false_eq_true, if_false, if_true, Bool.not_true]
    have hr : (runQuery { s with running := erase q s.running, next := s.next + 1 }
        { obj := s.next, qid := nq, coord := true, chanLen := r.chanLen }).running =
        put nq (admitted { obj := s.next, qid := nq, coord := true, chanLen := r.chanLen }) (erase q s.running) := by
      rw [runQuery_running]; rfl
    rw [e]
    refine ⟨rfl, ?_, ?_, ?_⟩
    · show lookup q (runQuery _ _).running = none
      rw [hr, lookup_put_ne hne]; exact lookup_erase_self q _
    · show ((runQuery _ _).running.map Prod.fst).count nq + ((runQuery _ _).waiting.map (·.qid)).count nq = 1
      rw [hr, count_keys_put, runQuery_waiting]
      show 1 + (s.waiting.map (·.qid)).count nq = 1
      rw [count_qid_zero hfreshW]
    · simp only [if_true]
      refine ⟨admitted { obj := s.next, qid := nq, coord := true, chanLen := r.chanLen }, ?_, ?_⟩
      · show lookup nq (runQuery _ _).running = _
        rw [hr, lookup_put_self]
      · obtain ⟨_, a2, a3, a4, a5, a6⟩ := admitted_fields { obj := s.next, qid := nq, coord := true, chanLen := r.chanLen }
        exact ⟨a2, a5, a6, a3, a4⟩
  | false =>
    have e : restartQuery s q nq false =
        ({ s with running := erase q s.running, next := s.next + 1,
                  waiting := s.waiting ++ [{ obj := s.next, qid := nq, coord := true, chanLen := r.chanLen }] }, Out.ok) := by
      simp only [restartQuery, hl, hnc, hco, hfe, hroom', Bool.false_eq_true, if_false, Bool.not_true]
    rw [e]
    refine ⟨rfl, lookup_erase_self q _, ?_, ?_⟩
    · show ((erase q s.running).map Prod.fst).count nq +
        ((s.waiting ++ [({ obj := s.next, qid := nq, coord := true, chanLen := r.chanLen } : RQ)]).map (·.qid)).count nq = 1
      rw [count_keys_of_lookup_none hfe, List.map_append, List.count_append, count_qid_zero hfreshW]
      simp
    · simp only [Bool.false_eq_true, if_false]
      exact ⟨hfe, ⟨_, rfl, rfl, rfl, rfl⟩⟩

end SigModel.Lemmas.C17
