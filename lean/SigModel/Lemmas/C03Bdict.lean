/-
Lemmas for the dictionary search path (Model/Bloom.lean `dictSearch` vs `perRecordSearch`).  Core Lean only.
-/
import SigModel.Model.Bloom

namespace SigModel.Bloom
open SigModel.Tlv (Bytes DictRd)

/-- does some word of `ws` (indices from `wi`) satisfy `f` and own record `j` -/
def hit (f : Bytes → Bool) (d : DictRd) : List Bytes → Nat → Nat → Bool
  | [], _, _ => false
  | w :: r, wi, j => (f w && d.recToWord[j]? == some wi) || hit f d r (wi + 1) j

/-- position-wise update of a bitset whose head is record `i` -/
def mapIdxFrom (g : Nat → Bool → Bool) : Nat → List Bool → List Bool
  | _, [] => []
  | i, b :: r => g i b :: mapIdxFrom g (i + 1) r

theorem mapIdxFrom_fuse (g h : Nat → Bool → Bool) (i : Nat) (bits : List Bool) :
    mapIdxFrom g i (mapIdxFrom h i bits) = mapIdxFrom (fun j b => g j (h j b)) i bits := by
  induction bits generalizing i with
  | nil => rfl
  | cons b r ih => simp [mapIdxFrom, ih]

theorem mapIdxFrom_congr (g h : Nat → Bool → Bool) (e : ∀ j b, g j b = h j b) (i : Nat) (bits : List Bool) :
    mapIdxFrom g i bits = mapIdxFrom h i bits := by
  induction bits generalizing i with
  | nil => rfl
  | cons b r ih => simp [mapIdxFrom, ih, e]

theorem mapIdxFrom_id (i : Nat) (bits : List Bool) : mapIdxFrom (fun _ b => b) i bits = bits := by
  induction bits generalizing i with
  | nil => rfl
  | cons b r ih => simp [mapIdxFrom, ih]

theorem addRecNums_eq (d : DictRd) (wi i : Nat) (bits : List Bool) :
    addRecNums d wi i bits = mapIdxFrom (fun j b => b || d.recToWord[j]? == some wi) i bits := by
  induction bits generalizing i with
  | nil => rfl
  | cons b r ih => simp [addRecNums, mapIdxFrom, ih]

theorem dictLoop_eq (f : Bytes → Bool) (d : DictRd) (ws : List Bytes) (wi : Nat) (bits : List Bool) :
    dictLoop f d ws wi bits = mapIdxFrom (fun j b => b || hit f d ws wi j) 0 bits := by
  induction ws generalizing wi bits with
  | nil =>
    simp only [dictLoop, hit, Bool.or_false]
    exact (mapIdxFrom_id 0 bits).symm
  | cons w r ih =>
    simp only [dictLoop]
    rw [ih]
    cases hf : f w
    · simp only [Bool.false_eq_true, if_false]
      apply mapIdxFrom_congr
      intro j b; simp [hit, hf]
    · simp only [if_true]
      rw [addRecNums_eq, mapIdxFrom_fuse]
      apply mapIdxFrom_congr
      intro j b; simp [hit, hf, Bool.or_assoc]

/-- the words of `ws` (indices from `wi`) that own record `j`: at most the one the record points to -/
theorem hit_eq (f : Bytes → Bool) (d : DictRd) (ws : List Bytes) (wi j : Nat) :
    hit f d ws wi j =
      match d.recToWord[j]? with
      | none => false
      | some x => if x < wi then false else match ws[x - wi]? with
        | some t => f t
        | none => false := by
  induction ws generalizing wi with
  | nil => cases d.recToWord[j]? <;> simp [hit]
  | cons w r ih =>
    simp only [hit]
    rw [ih (wi + 1)]
    cases hx : d.recToWord[j]? with
    | none => simp
    | some x =>
      simp only
      by_cases h1 : x < wi
      · have : x < wi + 1 := by omega
        have h2 : x ≠ wi := by omega
        simp [h1, this, h2]
      · by_cases h2 : x = wi
        · subst h2
          simp
        · have h3 : ¬ x < wi + 1 := by omega
          have h4 : x - wi = (x - (wi + 1)) + 1 := by omega
          simp only [h1, h3, if_false]
          rw [h4, List.getElem?_cons_succ]
          simp [h2]

theorem perRecFrom_eq (f : Bytes → Bool) (d : DictRd) (i n : Nat) :
    perRecFrom f d i n = mapIdxFrom (fun j _ => hit f d d.words 0 j) i (List.replicate n false) := by
  induction n generalizing i with
  | zero => rfl
  | succ n ih =>
    simp only [perRecFrom, List.replicate_succ, mapIdxFrom, ih]
    congr 1
    rw [hit_eq]
    unfold DictRd.getRec
    cases d.recToWord[i]? with
    | none => rfl
    | some x =>
      simp only [Nat.not_lt_zero, if_false, Nat.sub_zero]
      cases d.words[x]? <;> rfl

theorem mapIdxFrom_replicate_congr (g h : Nat → Bool → Bool) (e : ∀ j, g j false = h j false) (i n : Nat) :
    mapIdxFrom g i (List.replicate n false) = mapIdxFrom h i (List.replicate n false) := by
  induction n generalizing i with
  | zero => rfl
  | succ n ih => simp [List.replicate_succ, mapIdxFrom, ih, e]

end SigModel.Bloom
