/-
C05 helper lemmas, part g: `compareValues` is the exact key comparison (for every value: numbers incl. ±Inf and
NaN, strings, bool, null; every sort option; both directions), hence `sortProcessor.less` is a strict weak
order on records of the right length.  Core Lean only.
-/
import SigModel.Model.SortCmp
import SigModel.Lemmas.C05f
set_option linter.unusedSimpArgs false
set_option linter.unusedVariables false

namespace SigModel.Lemmas.C05
open SigModel.SortCmp

/-- the exact key of a value under a sort option -/
def keyOf (rnd : Rat → Rat) (op : SortOp) (v : Val) : K :=
  match getRank v op with
  | .other => .other
  | .string => .str (strOf v)
  | .numeric =>
    match floatOf rnd v with
    | some f => .num f
    | none => .other

/-- a numerically ranked value always has a float value (the early returns of compareValues are dead) -/
theorem numeric_floatOf (rnd : Rat → Rat) (op : SortOp) (v : Val) (h : getRank v op = .numeric) :
    ∃ f, floatOf rnd v = some f := by
  cases v with
  | int i => exact ⟨_, rfl⟩
  | float f t => exact ⟨_, rfl⟩
  | str b pf =>
    cases op <;> simp [getRank] at h
    rcases h with ⟨hm, hp⟩
    cases pf with
    | none => simp at hp
    | some f => exact ⟨f, by simp [floatOf, hm]⟩
  | bool b => simp [getRank] at h
  | null => simp [getRank] at h

theorem cv_eq_kcmp (rnd : Rat → Rat) (op : SortOp) (asc : Bool) (a b : Val) :
    compareValues rnd a b asc op = kcmp asc (keyOf rnd op a) (keyOf rnd op b) := by
  unfold compareValues compareValuesWith keyOf
  cases hra : getRank a op <;> cases hrb : getRank b op
  · -- numeric / numeric
    rcases numeric_floatOf rnd op a hra with ⟨fa, hfa⟩
    rcases numeric_floatOf rnd op b hrb with ⟨fb, hfb⟩
    simp only [hfa, hfb, Rank.toNat, kcmp]
    simp only [Nat.lt_irrefl, if_false, reduceCtorEq, Bool.false_and, Bool.and_false, decide_false, Bool.false_eq_true,
      decide_eq_true_eq]
    rw [compareFloat_eq_c3]
    cases asc <;> simp [flipIf]
  · rcases numeric_floatOf rnd op a hra with ⟨fa, hfa⟩
    cases asc <;> simp [hfa, Rank.toNat, kcmp, flipIf]
  · rcases numeric_floatOf rnd op a hra with ⟨fa, hfa⟩
    simp [hfa, kcmp]
  · rcases numeric_floatOf rnd op b hrb with ⟨fb, hfb⟩
    cases asc <;> simp [hfb, Rank.toNat, kcmp, flipIf]
  · cases asc <;> simp [Rank.toNat, kcmp, flipIf, compareString, c3]
  · simp [kcmp]
  · rcases numeric_floatOf rnd op b hrb with ⟨fb, hfb⟩
    simp [hfb, kcmp]
  · simp [kcmp]
  · simp [kcmp]

def keysOf (rnd : Rat → Rat) : List (Bool × SortOp) → List Val → List K
  | k :: ks, x :: xs => keyOf rnd k.2 x :: keysOf rnd ks xs
  | _, _ => []

theorem keysOf_length (rnd : Rat → Rat) : ∀ (ks : List (Bool × SortOp)) (r : List Val), r.length = ks.length →
    (keysOf rnd ks r).length = (ks.map (·.1)).length
  | [], [], _ => rfl
  | [], _ :: _, h => by simp at h
  | _ :: _, [], h => by simp at h
  | k :: ks, x :: xs, h => by
    simp only [keysOf, List.length_cons, List.map_cons] at h ⊢
    rw [keysOf_length rnd ks xs (by omega)]

theorem less_eq_klex (rnd : Rat → Rat) : ∀ (ks : List (Bool × SortOp)) (a b : List Val),
    a.length = ks.length → b.length = ks.length →
    less rnd ks a b = (klex (ks.map (·.1)) (keysOf rnd ks a) (keysOf rnd ks b) == .less)
  | [], _, _, _, _ => by simp [less, lessWith, klex]
  | _ :: _, [], _, h, _ => by simp at h
  | _ :: _, _ :: _, [], _, h => by simp at h
  | (asc, op) :: ks, x :: xs, y :: ys, hx, hy => by
    have hcv := cv_eq_kcmp rnd op asc x y
    unfold compareValues at hcv
    simp only [less, lessWith, keysOf, List.map_cons, klex]
    rw [hcv]
    simp only [List.length_cons, Nat.add_right_cancel_iff] at hx hy
    cases h : kcmp asc (keyOf rnd op x) (keyOf rnd op y) with
    | equal => simp only []; exact less_eq_klex rnd ks xs ys hx hy
    | less => simp
    | greater => simp

/-- strict-weak-order axioms for `less` on any three records of the right length -/
theorem less_swo (rnd : Rat → Rat) (ks : List (Bool × SortOp)) (a b c : List Val)
    (ha : a.length = ks.length) (hb : b.length = ks.length) (hc : c.length = ks.length) :
    less rnd ks a a = false ∧
    (less rnd ks a b = true → less rnd ks b c = true → less rnd ks a c = true) ∧
    (less rnd ks a b = false → less rnd ks b a = false → less rnd ks b c = false → less rnd ks c b = false →
      less rnd ks a c = false ∧ less rnd ks c a = false) := by
  have kswo := klex_swo (ks.map (·.1)) (keysOf rnd ks a) (keysOf rnd ks b) (keysOf rnd ks c)
    (keysOf_length rnd ks a ha) (keysOf_length rnd ks b hb) (keysOf_length rnd ks c hc)
  rw [less_eq_klex rnd ks a a ha ha, less_eq_klex rnd ks a b ha hb, less_eq_klex rnd ks b c hb hc,
    less_eq_klex rnd ks a c ha hc, less_eq_klex rnd ks b a hb ha, less_eq_klex rnd ks c b hc hb,
    less_eq_klex rnd ks c a hc ha]
  simp only [beq_iff_eq, beq_eq_false_iff_ne, ne_eq]
  exact ⟨kswo.1, kswo.2.1, kswo.2.2⟩

end SigModel.Lemmas.C05
