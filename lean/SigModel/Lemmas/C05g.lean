/-
C05 helper lemmas, part g: under the separation guard `compareValues` is the exact key comparison, hence
`sortProcessor.less` is a strict weak order.  Core Lean only.
-/
import SigModel.Model.SortCmp
import SigModel.Lemmas.C05f
set_option linter.unusedSimpArgs false
set_option linter.unusedVariables false

namespace SigModel.Lemmas.C05
open SigModel.SortCmp

/-- what is assumed of the float64 rounding: 0 is exact and the tolerance literal rounds to something positive -/
def RndOK (rnd : Rat → Rat) : Prop := rnd 0 = 0 ∧ 0 < rnd tolerance

/-- the exact key of a value under a sort option -/
def keyOf (rnd : Rat → Rat) (op : SortOp) (v : Val) : K :=
  match getRank v op with
  | .other => .other
  | .string => .str (strOf v)
  | .numeric =>
    match floatOf rnd v with
    | some (.fin q) => .num q
    | _ => .other

/-- a numerically ranked value is finite (no NaN, no ±Inf) -/
def FinV (rnd : Rat → Rat) (op : SortOp) (v : Val) : Prop :=
  getRank v op = .numeric → ∃ q, floatOf rnd v = some (.fin q)

/-- two numerically ranked values that AlmostEquals identifies are equal -/
def Sep (rnd : Rat → Rat) (op : SortOp) (a b : Val) : Prop :=
  ∀ qa qb, floatOf rnd a = some (.fin qa) → floatOf rnd b = some (.fin qb) →
    getRank a op = .numeric → getRank b op = .numeric →
    almostEq rnd (.fin qa) (.fin qb) = true → qa = qb

theorem almostEq_refl (rnd : Rat → Rat) (h : RndOK rnd) (q : Rat) : almostEq rnd (.fin q) (.fin q) = true := by
  have hz : q - q = 0 := by grind
  simp [almostEq, hz, h.1, absR, h.2]

theorem cv_eq_kcmp (rnd : Rat → Rat) (hr : RndOK rnd) (op : SortOp) (asc : Bool) (a b : Val)
    (ha : FinV rnd op a) (hb : FinV rnd op b) (hs : Sep rnd op a b) :
    compareValues rnd a b asc op = kcmp asc (keyOf rnd op a) (keyOf rnd op b) := by
  unfold compareValues keyOf
  cases hra : getRank a op <;> cases hrb : getRank b op
  · -- numeric / numeric
    rcases ha hra with ⟨qa, hqa⟩
    rcases hb hrb with ⟨qb, hqb⟩
    have hsep := hs qa qb hqa hqb hra hrb
    simp only [hqa, hqb, Rank.toNat, kcmp]
    simp only [Nat.lt_irrefl, if_false, reduceCtorEq, Bool.false_and, Bool.and_false, decide_false, Bool.false_eq_true,
      decide_eq_true_eq]
    unfold compareFloat c3
    by_cases hae : almostEq rnd (.fin qa) (.fin qb) = true
    · have := hsep hae
      subst this
      cases asc <;> simp [hae, flipIf]
    · have hne : qa ≠ qb := by
        intro e; subst e; exact hae (almostEq_refl rnd hr qa)
      cases asc <;> simp [hae, hne, flipIf, Flt.lt]
  · -- numeric / string
    rcases ha hra with ⟨qa, hqa⟩
    cases asc <;> simp [hqa, Rank.toNat, kcmp, flipIf]
  · rcases ha hra with ⟨qa, hqa⟩
    simp [hqa, kcmp]
  · rcases hb hrb with ⟨qb, hqb⟩
    cases asc <;> simp [hqb, Rank.toNat, kcmp, flipIf]
  · cases asc <;> simp [Rank.toNat, kcmp, flipIf, compareString, c3]
  · simp [kcmp]
  · rcases hb hrb with ⟨qb, hqb⟩
    simp [hqb, kcmp]
  · simp [kcmp]
  · simp [kcmp]

/-- the guard, position by position -/
def PosSep (rnd : Rat → Rat) : List (Bool × SortOp) → List Val → List Val → Prop
  | k :: ks, x :: xs, y :: ys => FinV rnd k.2 x ∧ FinV rnd k.2 y ∧ Sep rnd k.2 x y ∧ PosSep rnd ks xs ys
  | _, _, _ => True

def keysOf (rnd : Rat → Rat) : List (Bool × SortOp) → List Val → List K
  | k :: ks, x :: xs => keyOf rnd k.2 x :: keysOf rnd ks xs
  | _, _ => []

theorem keysOf_length (rnd : Rat → Rat) : ∀ (ks : List (Bool × SortOp)) (r : List Val), r.length = ks.length →
    (keysOf rnd ks r).length = (ks.map (·.1)).length
  | [], [], _ => rfl
  | [], _ :: _, h => by simp at h
  | _ :: _, [], h => by simp at h
  | k :: ks, x :: xs, h => by
    simp only [keysOf, List.length_cons, List.map_cons] at h ⊢
    rw [keysOf_length rnd ks xs (by omega)]

theorem less_eq_klex (rnd : Rat → Rat) (hr : RndOK rnd) : ∀ (ks : List (Bool × SortOp)) (a b : List Val),
    a.length = ks.length → b.length = ks.length → PosSep rnd ks a b →
    less rnd ks a b = (klex (ks.map (·.1)) (keysOf rnd ks a) (keysOf rnd ks b) == .less)
  | [], _, _, _, _, _ => by simp [less, klex]
  | _ :: _, [], _, h, _, _ => by simp at h
  | _ :: _, _ :: _, [], _, h, _ => by simp at h
  | (asc, op) :: ks, x :: xs, y :: ys, hx, hy, hp => by
    simp only [PosSep] at hp
    simp only [less, keysOf, List.map_cons, klex]
    rw [cv_eq_kcmp rnd hr op asc x y hp.1 hp.2.1 hp.2.2.1]
    simp only [List.length_cons, Nat.add_right_cancel_iff] at hx hy
    cases h : kcmp asc (keyOf rnd op x) (keyOf rnd op y) with
    | equal => simp only []; exact less_eq_klex rnd hr ks xs ys hx hy hp.2.2.2
    | less => simp
    | greater => simp

/-- strict-weak-order axioms for `less` on three records that satisfy the guard pairwise -/
theorem less_swo (rnd : Rat → Rat) (hr : RndOK rnd) (ks : List (Bool × SortOp)) (a b c : List Val)
    (ha : a.length = ks.length) (hb : b.length = ks.length) (hc : c.length = ks.length)
    (hg : ∀ x y, (x = a ∨ x = b ∨ x = c) → (y = a ∨ y = b ∨ y = c) → PosSep rnd ks x y) :
    less rnd ks a a = false ∧
    (less rnd ks a b = true → less rnd ks b c = true → less rnd ks a c = true) ∧
    (less rnd ks a b = false → less rnd ks b a = false → less rnd ks b c = false → less rnd ks c b = false →
      less rnd ks a c = false ∧ less rnd ks c a = false) := by
  have A : a = a ∨ a = b ∨ a = c := Or.inl rfl
  have B : b = a ∨ b = b ∨ b = c := Or.inr (Or.inl rfl)
  have C : c = a ∨ c = b ∨ c = c := Or.inr (Or.inr rfl)
  have kswo := klex_swo (ks.map (·.1)) (keysOf rnd ks a) (keysOf rnd ks b) (keysOf rnd ks c)
    (keysOf_length rnd ks a ha) (keysOf_length rnd ks b hb) (keysOf_length rnd ks c hc)
  rw [less_eq_klex rnd hr ks a a ha ha (hg a a A A), less_eq_klex rnd hr ks a b ha hb (hg a b A B),
    less_eq_klex rnd hr ks b c hb hc (hg b c B C), less_eq_klex rnd hr ks a c ha hc (hg a c A C),
    less_eq_klex rnd hr ks b a hb ha (hg b a B A), less_eq_klex rnd hr ks c b hc hb (hg c b C B),
    less_eq_klex rnd hr ks c a hc ha (hg c a C A)]
  simp only [beq_iff_eq, beq_eq_false_iff_ne, ne_eq]
  exact ⟨kswo.1, kswo.2.1, kswo.2.2⟩

end SigModel.Lemmas.C05
