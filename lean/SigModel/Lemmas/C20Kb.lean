/-
C20 (keyed-store half) — helper lemmas for the index-alias store (Alias): the in-memory inverse map
`aliasToIndexNames` against the per-index alias files.
-/
import SigModel.Lemmas.C20K

namespace SigModel.Lemmas.C20K.Alias
open SigModel.KV SigModel.KV.Alias

abbrev M := AL (Nat × Key) (List Key)

/-- memory view: index `i` is listed under alias `a` of tenant `t` -/
def mv (m : M) (t : Nat) (a i : Key) : Prop := i ∈ (m.get (t, a)).getD []

/-- file view: alias `a` is in the alias file of (t, i) -/
def fv (f : M) (t : Nat) (i a : Key) : Prop := a ∈ (f.get (t, i)).getD []

theorem mem_insSet {A : Type} [DecidableEq A] (l : List A) (x y : A) : y ∈ insSet l x ↔ y ∈ l ∨ y = x := by
  unfold insSet; split
  · constructor
    · exact Or.inl
    · rintro (h | h)
      · exact h
      · subst h; assumption
  · simp

theorem insSet_ne_nil {A : Type} [DecidableEq A] (l : List A) (x : A) : insSet l x ≠ [] := by
  intro h
  have : x ∈ insSet l x := (mem_insSet l x x).2 (Or.inr rfl)
  rw [h] at this; cases this

theorem mem_delSet {A : Type} [DecidableEq A] (l : List A) (x y : A) : y ∈ delSet l x ↔ y ∈ l ∧ y ≠ x := by
  unfold delSet; simp

theorem validIndex_ne_nil {i : Key} (h : validIndex i = true) : i ≠ [] := by
  intro h0; subst h0; simp [validIndex] at h

/-- `putAliasToIndexInMem` in the memory view -/
theorem mv_putMem (m : M) (t : Nat) (a i : Key) (t' : Nat) (a' i' : Key) :
    mv (putMem m t a i) t' a' i' ↔ mv m t' a' i' ∨ (a ≠ [] ∧ i ≠ [] ∧ t' = t ∧ a' = a ∧ i' = i) := by
  unfold putMem mv
  by_cases h : a = [] ∨ i = []
  · simp only [h, if_true]
    constructor
    · exact Or.inl
    · rintro (h1 | ⟨ha, hi, _⟩)
      · exact h1
      · rcases h with h | h
        · exact absurd h ha
        · exact absurd h hi
  · simp only [h, if_false, get_put]
    have ha : a ≠ [] := fun e => h (Or.inl e)
    have hi : i ≠ [] := fun e => h (Or.inr e)
    by_cases hk : (t', a') = (t, a)
    · simp only [hk, if_true, Option.getD_some, mem_insSet]
      obtain ⟨rfl, rfl⟩ := Prod.mk.inj hk
      constructor
      · rintro (h1 | h1)
        · exact Or.inl h1
        · exact Or.inr ⟨ha, hi, rfl, rfl, h1⟩
      · rintro (h1 | ⟨_, _, _, _, h1⟩)
        · exact Or.inl h1
        · exact Or.inr h1
    · simp only [hk, if_false]
      constructor
      · exact Or.inl
      · rintro (h1 | ⟨_, _, h2, h3, _⟩)
        · exact h1
        · exact absurd (by rw [h2, h3]) hk

theorem ne_putMem (m : M) (t : Nat) (a i : Key) (h : ∀ t' a', m.get (t', a') ≠ some []) :
    ∀ t' a', (putMem m t a i).get (t', a') ≠ some [] := by
  intro t' a'
  unfold putMem
  by_cases hc : a = [] ∨ i = []
  · simp only [hc, if_true]; exact h t' a'
  · simp only [hc, if_false, get_put]
    by_cases hk : (t', a') = (t, a)
    · simp only [hk, if_true]; intro he; exact insSet_ne_nil _ _ (Option.some.inj he)
    · simp only [hk, if_false]; exact h t' a'

theorem keys_putMem (m : M) (t : Nat) (a i : Key) (h : m.keys.Nodup) : (putMem m t a i).keys.Nodup := by
  unfold putMem; split
  · exact h
  · exact keys_put_nodup _ _ _ h

/-- the loop of `AddAliases` over the index' aliases -/
theorem fold_putMem (cur : List Key) (t : Nat) (i : Key) :
    ∀ (m : M), (∀ t' a', m.get (t', a') ≠ some []) → m.keys.Nodup →
      (∀ t' a' i', mv (cur.foldl (fun m key => putMem m t key i) m) t' a' i' ↔
          mv m t' a' i' ∨ (a' ∈ cur ∧ a' ≠ [] ∧ i ≠ [] ∧ t' = t ∧ i' = i)) ∧
      (∀ t' a', (cur.foldl (fun m key => putMem m t key i) m).get (t', a') ≠ some []) ∧
      (cur.foldl (fun m key => putMem m t key i) m).keys.Nodup := by
  induction cur with
  | nil => intro m h1 h2; exact ⟨fun _ _ _ => by simp, h1, h2⟩
  | cons key r ih =>
    intro m h1 h2
    obtain ⟨g1, g2, g3⟩ := ih (putMem m t key i) (ne_putMem m t key i h1) (keys_putMem m t key i h2)
    refine ⟨?_, g2, g3⟩
    intro t' a' i'
    simp only [List.foldl_cons]
    rw [g1, mv_putMem]
    constructor
    · rintro ((h | ⟨ha, hi, ht, hk, hi'⟩) | ⟨hm, ha, hi, ht, hi'⟩)
      · exact Or.inl h
      · exact Or.inr ⟨by rw [hk]; exact List.mem_cons_self, by rw [hk]; exact ha, hi, ht, hi'⟩
      · exact Or.inr ⟨List.mem_cons_of_mem _ hm, ha, hi, ht, hi'⟩
    · rintro (h | ⟨hm, ha, hi, ht, hi'⟩)
      · exact Or.inl (Or.inl h)
      · rcases List.mem_cons.1 hm with hk | hm
        · exact Or.inl (Or.inr ⟨by rw [← hk]; exact ha, hi, ht, hk, hi'⟩)
        · exact Or.inr ⟨hm, ha, hi, ht, hi'⟩

/-- `initializeAliasToIndexMap` over a list of alias files -/
theorem fold_rebuild (es : M) :
    ∀ (m : M), (∀ t' a', m.get (t', a') ≠ some []) → m.keys.Nodup →
      (∀ t a i, mv (es.foldl (fun m e => e.2.foldl (fun m a => putMem m e.1.1 a e.1.2) m) m) t a i ↔
          mv m t a i ∨ ∃ e ∈ es, e.1.2 ≠ [] ∧ e.1 = (t, i) ∧ a ∈ e.2 ∧ a ≠ []) ∧
      (∀ t' a', (es.foldl (fun m e => e.2.foldl (fun m a => putMem m e.1.1 a e.1.2) m) m).get (t', a') ≠ some []) ∧
      (es.foldl (fun m e => e.2.foldl (fun m a => putMem m e.1.1 a e.1.2) m) m).keys.Nodup := by
  induction es with
  | nil => intro m h1 h2; exact ⟨fun _ _ _ => by simp, h1, h2⟩
  | cons e r ih =>
    intro m h1 h2
    simp only [List.foldl_cons]
    obtain ⟨f1, f2, f3⟩ := fold_putMem e.2 e.1.1 e.1.2 m h1 h2
    obtain ⟨g1, g2, g3⟩ := ih _ f2 f3
    refine ⟨?_, g2, g3⟩
    intro t a i
    rw [g1, f1]
    constructor
    · rintro ((h | ⟨hm, ha, hi, ht, hi'⟩) | ⟨e', hm, hh⟩)
      · exact Or.inl h
      · refine Or.inr ⟨e, List.mem_cons_self, hi, ?_, hm, ha⟩
        rw [ht, hi']
      · exact Or.inr ⟨e', List.mem_cons_of_mem _ hm, hh⟩
    · rintro (h | ⟨e', hm, hh⟩)
      · exact Or.inl (Or.inl h)
      · rcases List.mem_cons.1 hm with rfl | hm
        · obtain ⟨hi, he, ha, hne⟩ := hh
          have ht : t = e'.1.1 := by rw [he]
          have hi' : i = e'.1.2 := by rw [he]
          exact Or.inl (Or.inr ⟨ha, hne, hi, ht, hi'⟩)
        · exact Or.inr ⟨e', hm, hh⟩

/-- consistency of the two images -/
structure MemOk (st : St) : Prop where
  memNodup : st.mem.keys.Nodup
  fileNodup : st.files.keys.Nodup
  valid : ∀ t i l, st.files.get (t, i) = some l → validIndex i = true
  /-- the memory map is the inverse of the files (the empty alias name is never in memory) -/
  inverse : ∀ t a i, mv st.mem t a i ↔ (a ≠ [] ∧ fv st.files t i a)
  /-- no alias is listed with an empty index set -/
  nonempty : ∀ t a, st.mem.get (t, a) ≠ some []
  /-- (since patch c20-14) every stored alias name is a valid name -/
  aliasValid : ∀ t i a, fv st.files t i a → validIndex a = true

theorem memOk_init : MemOk init :=
  ⟨by simp [init, AL.keys], by simp [init, AL.keys], by simp [init, AL.get], by simp [init, mv, fv, AL.get],
   by simp [init, AL.get], by simp [init, fv, AL.get]⟩

theorem mem_of_get {m : M} (k : Nat × Key) (l : List Key) (h : m.get k = some l) : (k, l) ∈ m := by
  induction m with
  | nil => simp [AL.get] at h
  | cons p r ih =>
    obtain ⟨a, b⟩ := p
    simp only [AL.get] at h
    by_cases hk : a = k
    · simp only [hk, if_true, Option.some.injEq] at h; subst h; subst hk; exact List.mem_cons_self
    · simp only [hk, if_false] at h; exact List.mem_cons_of_mem _ (ih h)

theorem get_removeFile (f : M) (t : Nat) (i a : Key) (k' : Nat × Key) :
    (removeFile f t i a).1.get k' =
      if k' = (t, i) then (if delSet ((f.get (t, i)).getD []) a = [] then none else some (delSet ((f.get (t, i)).getD []) a))
      else f.get k' := by
  unfold removeFile
  by_cases hc : delSet ((f.get (t, i)).getD []) a = []
  · simp only [hc, if_true]
    cases hf : f.get (t, i) with
    | none => by_cases hk : k' = (t, i) <;> simp [hk, hf]
    | some l => simp [get_del]
  · simp only [hc, if_false, get_put]

theorem res_removeFile (f : M) (t : Nat) (i a : Key) :
    (removeFile f t i a).2 = if delSet ((f.get (t, i)).getD []) a = [] ∧ f.get (t, i) = none then .notFound else .ok := by
  unfold removeFile
  by_cases hc : delSet ((f.get (t, i)).getD []) a = []
  · simp only [hc, if_true, true_and]; cases hf : f.get (t, i) <;> simp
  · simp [hc]

theorem keys_removeFile (f : M) (t : Nat) (i a : Key) (h : f.keys.Nodup) : (removeFile f t i a).1.keys.Nodup := by
  unfold removeFile
  by_cases hc : delSet ((f.get (t, i)).getD []) a = []
  · simp only [hc, if_true]
    cases hf : f.get (t, i) with
    | none => exact h
    | some l => exact keys_del_nodup _ _ h
  · simp only [hc, if_false]; exact keys_put_nodup _ _ _ h

/-- `abs` commutes with every step — no invariant needed: the alias files ARE the keyed store -/
theorem abs_step_files (st : St) (op : Op) (hg : op ≠ .graceful) : abs (step st op).1 = specStep (abs st) op := by
  cases op with
  | add t i a =>
    by_cases hv : validIndex i = true
    · by_cases ha : validIndex a = true
      · funext t' i'
        simp only [step, addAlias, hv, ha, Bool.not_true, Bool.false_eq_true, if_false, specStep, abs, get_put, Spec.set,
          Bool.or_self]
        by_cases hk : (t', i') = (t, i)
        · obtain ⟨rfl, rfl⟩ := Prod.mk.inj hk; simp
        · have : ¬ (t' = t ∧ i' = i) := fun ⟨h1, h2⟩ => hk (by rw [h1, h2])
          simp [hk, this]
      · simp [step, hv, ha, specStep]
    · simp [step, hv, specStep]
  | remove t i a =>
    by_cases hv : validIndex i = true
    · funext t' i'
      simp only [step, hv, Bool.not_true, Bool.false_eq_true, if_false, specStep]
      show (removeFile st.files t i a).1.get (t', i') = _
      rw [get_removeFile]
      have hks : (t', i') = (t, i) ↔ (t' = t ∧ i' = i) := by simp
      show _ = (if delSet ((st.files.get (t, i)).getD []) a = [] then (abs st).set t i none
                else (abs st).set t i (some (delSet ((st.files.get (t, i)).getD []) a))) t' i'
      by_cases hc : delSet ((st.files.get (t, i)).getD []) a = []
      · simp only [hc, if_true, Spec.set, hks]; rfl
      · simp only [hc, if_false, Spec.set, hks]; rfl
    · simp [step, hv, specStep]
  | get t i => by_cases hv : validIndex i = true <;> simp [step, hv, specStep]
  | list t => simp [step, specStep]
  | resolve t a => simp [step, specStep]
  | restart => rfl
  | graceful => exact absurd rfl hg

/-- the answers of add / remove / get / restart are the documented ones — no invariant needed -/
theorem out_ok_files (st : St) (op : Op) (h : ∀ t, op ≠ .list t) (h2 : ∀ t a, op ≠ .resolve t a) :
    OutOk (abs st) op (step st op).2 := by
  cases op with
  | add t i a =>
    by_cases hv : validIndex i = true <;> by_cases ha : validIndex a = true <;> simp [step, addAlias, hv, ha, OutOk]
  | remove t i a =>
    by_cases hv : validIndex i = true
    · simp only [step, hv, Bool.not_true, Bool.false_eq_true, if_false, OutOk, res_removeFile]; rfl
    · simp [step, hv, OutOk]
  | get t i => by_cases hv : validIndex i = true <;> simp [step, hv, OutOk, abs]
  | list t => exact absurd rfl (h t)
  | resolve t a => exact absurd rfl (h2 t a)
  | restart => simp [step, OutOk]
  | graceful => simp [step, OutOk]


theorem mv_removeMem (m : M) (t : Nat) (i a : Key) (t' : Nat) (a' i' : Key) :
    mv (removeMem m t i a) t' a' i' ↔ mv m t' a' i' ∧ ¬ ((t', a') = (t, a) ∧ i' = i) := by
  unfold removeMem mv
  cases hg : m.get (t, a) with
  | none =>
    simp only []
    constructor
    · intro h; refine ⟨h, ?_⟩
      rintro ⟨hk, _⟩; rw [hk, hg] at h; simp at h
    · exact fun h => h.1
  | some is =>
    simp only []
    by_cases hd : delSet is i = []
    · simp only [hd, if_true, get_del]
      by_cases hk : (t', a') = (t, a)
      · simp only [hk, if_true, Option.getD_none, List.not_mem_nil, hg, Option.getD_some, true_and, false_iff, not_and,
          Classical.not_not]
        intro h1
        have : i' ∉ delSet is i := by rw [hd]; simp
        rw [mem_delSet] at this
        by_cases e : i' = i
        · exact e
        · exact absurd ⟨h1, e⟩ this
      · simp [hk]
    · simp only [hd, if_false, get_put]
      by_cases hk : (t', a') = (t, a)
      · simp only [hk, if_true, Option.getD_some, mem_delSet, hg, true_and]
      · simp [hk]

theorem ne_removeMem (m : M) (t : Nat) (i a : Key) (h : ∀ t' a', m.get (t', a') ≠ some []) :
    ∀ t' a', (removeMem m t i a).get (t', a') ≠ some [] := by
  intro t' a'
  unfold removeMem
  cases hg : m.get (t, a) with
  | none => exact h t' a'
  | some is =>
    simp only []
    by_cases hd : delSet is i = []
    · simp only [hd, if_true, get_del]
      by_cases hk : (t', a') = (t, a)
      · simp [hk]
      · simp only [hk, if_false]; exact h t' a'
    · simp only [hd, if_false, get_put]
      by_cases hk : (t', a') = (t, a)
      · simp only [hk, if_true]; intro he; exact hd (Option.some.inj he)
      · simp only [hk, if_false]; exact h t' a'

theorem keys_removeMem (m : M) (t : Nat) (i a : Key) (h : m.keys.Nodup) : (removeMem m t i a).keys.Nodup := by
  unfold removeMem
  split
  · split
    · exact keys_del_nodup _ _ h
    · exact keys_put_nodup _ _ _ h
  · exact h

theorem fv_of_get {f : M} {t : Nat} {i a : Key} (h : fv f t i a) : ∃ l, f.get (t, i) = some l := by
  unfold fv at h
  cases hf : f.get (t, i) with
  | none => rw [hf] at h; simp at h
  | some l => exact ⟨l, rfl⟩

theorem fv_put (f : M) (t : Nat) (i : Key) (l : List Key) (t' : Nat) (i' a' : Key) :
    fv (f.put (t, i) l) t' i' a' ↔ if (t', i') = (t, i) then a' ∈ l else fv f t' i' a' := by
  unfold fv; rw [get_put]; split <;> simp

theorem fv_removeFile (f : M) (t : Nat) (i a : Key) (t' : Nat) (i' a' : Key) :
    fv (removeFile f t i a).1 t' i' a' ↔
      if (t', i') = (t, i) then a' ∈ delSet ((f.get (t, i)).getD []) a else fv f t' i' a' := by
  unfold fv; rw [get_removeFile]
  by_cases hk : (t', i') = (t, i)
  · simp only [hk, if_true]
    by_cases hc : delSet ((f.get (t, i)).getD []) a = []
    · simp [hc]
    · simp [hc]
  · simp only [hk, if_false]

theorem nodup_list_keys (m : M) (t : Nat) (h : m.keys.Nodup) :
    (((m.filter (fun e => decide (e.1.1 = t))).map (fun e => (e.1.2, e.2))).map Prod.fst).Nodup := by
  induction m with
  | nil => simp
  | cons e r ih =>
    simp only [AL.keys, List.map_cons, List.nodup_cons] at h
    simp only [List.filter]
    by_cases ht : e.1.1 = t
    · simp only [ht, decide_true, List.map_cons, List.nodup_cons]
      refine ⟨?_, ih h.2⟩
      intro hm
      simp only [List.mem_map, List.mem_filter, decide_eq_true_eq] at hm
      obtain ⟨p, ⟨e', ⟨hm', ht'⟩, rfl⟩, hp⟩ := hm
      simp only at hp
      apply h.1
      have : e'.1 = e.1 := Prod.ext (by rw [ht', ht]) hp
      rw [← this]; exact List.mem_map_of_mem hm'
    · simp only [ht, decide_false]; exact ih h.2

theorem memOk_restart {st : St} (h : MemOk st) : MemOk ({ files := st.files, mem := rebuild st.files } : St) := by
  obtain ⟨g1, g2, g3⟩ := fold_rebuild st.files [] (by simp [AL.get]) (by simp [AL.keys])
  refine ⟨g3, h.fileNodup, h.valid, ?_, g2, h.aliasValid⟩
  intro t a i
  show mv (rebuild st.files) t a i ↔ _
  unfold rebuild
  rw [g1]
  constructor
  · rintro (h0 | ⟨e, hm, _, he, ha, hne⟩)
    · simp [mv, AL.get] at h0
    · refine ⟨hne, ?_⟩
      have hm2 : (e.1, e.2) ∈ st.files := hm
      rw [mem_iff_get _ h.fileNodup, he] at hm2
      unfold fv; rw [hm2]; exact ha
  · rintro ⟨hne, hf⟩
    obtain ⟨l, hl⟩ := fv_of_get hf
    have hm : ((t, i), l) ∈ st.files := (mem_iff_get _ h.fileNodup _ _).2 hl
    refine Or.inr ⟨((t, i), l), hm, validIndex_ne_nil (h.valid t i l hl), rfl, ?_, hne⟩
    unfold fv at hf; rw [hl] at hf; exact hf

/-- `FlushAliasMapToFile` writes nothing when the files already are the image of the memory map -/
theorem flush_id {st : St} (h : MemOk st) : flush st.files st.mem = st.files := by
  have inner : ∀ (is : List Key) (f : M) (t : Nat) (a : Key), (∀ i ∈ is, a ∈ (f.get (t, i)).getD []) →
      is.foldl (fun f i => flushOne f t a i) f = f := by
    intro is
    induction is with
    | nil => intro f t a _; rfl
    | cons i r ih =>
      intro f t a hall
      simp only [List.foldl_cons]
      have h1 : flushOne f t a i = f := by simp [flushOne, hall i List.mem_cons_self]
      rw [h1]; exact ih f t a (fun j hj => hall j (List.mem_cons_of_mem _ hj))
  have outer : ∀ (es : M) (f : M), (∀ e ∈ es, ∀ i ∈ e.2, e.1.2 ∈ (f.get (e.1.1, i)).getD []) →
      es.foldl (fun f e => e.2.foldl (fun f i => flushOne f e.1.1 e.1.2 i) f) f = f := by
    intro es
    induction es with
    | nil => intro f _; rfl
    | cons e r ih =>
      intro f hall
      simp only [List.foldl_cons]
      rw [inner e.2 f e.1.1 e.1.2 (hall e List.mem_cons_self)]
      exact ih f (fun e' he' => hall e' (List.mem_cons_of_mem _ he'))
  unfold flush
  apply outer
  intro e he i hi
  have hg : st.mem.get e.1 = some e.2 := (mem_iff_get _ h.memNodup e.1 e.2).1 he
  have hmv : mv st.mem e.1.1 e.1.2 i := by
    unfold mv
    show i ∈ (st.mem.get (e.1.1, e.1.2)).getD []
    rw [show (e.1.1, e.1.2) = e.1 from rfl, hg]; exact hi
  exact ((h.inverse e.1.1 e.1.2 i).1 hmv).2

/-- every step keeps the two images consistent -/
theorem step_memOk {st : St} (h : MemOk st) (op : Op) : MemOk (step st op).1 := by
  cases op with
  | add t i a =>
    by_cases hv : validIndex i = true
    · by_cases ha0 : validIndex a = false
      · simpa [step, hv, ha0] using h
      have ha : validIndex a = true := by simpa using ha0
      simp only [step, addAlias, hv, ha, Bool.not_true, Bool.false_eq_true, if_false]
      have hi : i ≠ [] := validIndex_ne_nil hv
      obtain ⟨g1, g2, g3⟩ := fold_putMem (insSet ((st.files.get (t, i)).getD []) a) t i st.mem h.nonempty h.memNodup
      refine ⟨g3, keys_put_nodup _ _ _ h.fileNodup, ?_, ?_, g2, ?_⟩
      rotate_left 2
      · intro t' i' a' hf
        rw [fv_put] at hf
        by_cases hk : (t', i') = (t, i)
        · rw [if_pos hk] at hf
          rcases (mem_insSet _ _ _).1 hf with h1 | h1
          · exact h.aliasValid t i a' h1
          · rw [h1]; exact ha
        · rw [if_neg hk] at hf; exact h.aliasValid t' i' a' hf
      · intro t' i' l hl
        simp only [get_put] at hl
        by_cases hk : (t', i') = (t, i)
        · rw [(Prod.mk.inj hk).2]; exact hv
        · simp only [hk, if_false] at hl; exact h.valid t' i' l hl
      · intro t' a' i'
        show mv (List.foldl _ st.mem _) t' a' i' ↔ a' ≠ [] ∧ fv (st.files.put (t, i) _) t' i' a'
        rw [g1, h.inverse, fv_put]
        by_cases hk : (t', i') = (t, i)
        · rw [if_pos hk]
          have e : fv st.files t' i' a' ↔ a' ∈ (st.files.get (t, i)).getD [] := by unfold fv; rw [hk]
          constructor
          · rintro (⟨h1, h2⟩ | ⟨h1, h2, _⟩)
            · exact ⟨h1, (mem_insSet _ _ _).2 (Or.inl (e.1 h2))⟩
            · exact ⟨h2, h1⟩
          · rintro ⟨h1, h2⟩
            exact Or.inr ⟨h2, h1, hi, (Prod.mk.inj hk).1, (Prod.mk.inj hk).2⟩
        · rw [if_neg hk]
          constructor
          · rintro (h1 | ⟨_, _, _, h2, h3⟩)
            · exact h1
            · exact absurd (by rw [h2, h3]) hk
          · exact Or.inl
    · simpa [step, hv] using h
  | remove t i a =>
    by_cases hv : validIndex i = true
    · simp only [step, hv, Bool.not_true, Bool.false_eq_true, if_false]
      refine ⟨?_, keys_removeFile _ _ _ _ h.fileNodup, ?_, ?_, ?_, ?_⟩
      rotate_left 4
      · intro t' i' a' hf
        rw [fv_removeFile] at hf
        by_cases hk : (t', i') = (t, i)
        · rw [if_pos hk] at hf; exact h.aliasValid t i a' ((mem_delSet _ _ _).1 hf).1
        · rw [if_neg hk] at hf; exact h.aliasValid t' i' a' hf
      · exact keys_removeMem _ _ _ _ h.memNodup
      · intro t' i' l hl
        simp only [get_removeFile] at hl
        by_cases hk : (t', i') = (t, i)
        · rw [(Prod.mk.inj hk).2]; exact hv
        · simp only [hk, if_false] at hl; exact h.valid t' i' l hl
      · intro t' a' i'
        show mv (removeMem st.mem t i a) t' a' i' ↔ a' ≠ [] ∧ fv (removeFile st.files t i a).1 t' i' a'
        rw [mv_removeMem, h.inverse, fv_removeFile]
        by_cases hk : (t', i') = (t, i)
        · rw [if_pos hk]
          have e : fv st.files t' i' a' ↔ a' ∈ (st.files.get (t, i)).getD [] := by unfold fv; rw [hk]
          constructor
          · rintro ⟨⟨h1, h2⟩, h3⟩
            exact ⟨h1, (mem_delSet _ _ _).2 ⟨e.1 h2, fun ea => h3 ⟨by rw [(Prod.mk.inj hk).1, ea], (Prod.mk.inj hk).2⟩⟩⟩
          · rintro ⟨h1, h2⟩
            have h3 := (mem_delSet _ _ _).1 h2
            exact ⟨⟨h1, e.2 h3.1⟩, fun ⟨e1, _⟩ => h3.2 (Prod.mk.inj e1).2⟩
        · rw [if_neg hk]
          constructor
          · exact fun hh => hh.1
          · intro hh
            exact ⟨hh, fun ⟨e1, e2⟩ => hk (by rw [(Prod.mk.inj e1).1, e2])⟩
      · exact ne_removeMem _ _ _ _ h.nonempty
    · simpa [step, hv] using h
  | get t i => by_cases hv : validIndex i = true <;> simpa [step, hv] using h
  | list t => simpa [step] using h
  | resolve t a => simpa [step] using h
  | restart => exact memOk_restart h
  | graceful =>
    simp only [step, flush_id h]
    exact memOk_restart h

/-- with consistent images the answers of list / resolve (read from memory) are the documented ones -/
theorem out_ok_mem {st : St} (h : MemOk st) (op : Op) : OutOk (abs st) op (step st op).2 := by
  cases op with
  | list t =>
    simp only [step, OutOk]
    have hmem : ∀ a is, (a, is) ∈ (st.mem.filter (fun e => decide (e.1.1 = t))).map (fun e => (e.1.2, e.2)) ↔
        st.mem.get (t, a) = some is := by
      intro a is
      rw [← mem_iff_get _ h.memNodup]
      simp only [List.mem_map, List.mem_filter, decide_eq_true_eq, Prod.mk.injEq]
      constructor
      · rintro ⟨⟨⟨t', a'⟩, is'⟩, ⟨hm, ht⟩, ha, his⟩
        simp only at ht ha his; subst ht; subst ha; subst his; exact hm
      · intro hm; exact ⟨((t, a), is), ⟨hm, rfl⟩, rfl, rfl⟩
    refine ⟨nodup_list_keys _ _ h.memNodup, ?_, ?_⟩
    · intro a is hm
      rw [hmem] at hm
      have hne : is ≠ [] := fun e => h.nonempty t a (by rw [hm, e])
      refine ⟨hne, ?_⟩
      intro i
      have hinv := h.inverse t a i
      simp only [mv, hm, Option.getD_some] at hinv
      rw [hinv]
      constructor
      · exact fun hh => hh.2
      · intro hh
        refine ⟨?_, hh⟩
        obtain ⟨i0, hi0⟩ := List.exists_mem_of_ne_nil _ hne
        have h0 := (h.inverse t a i0)
        simp only [mv, hm, Option.getD_some] at h0
        exact (h0.1 hi0).1
    · intro a i hne hf
      have hmv := (h.inverse t a i).2 ⟨hne, hf⟩
      unfold mv at hmv
      cases hg : st.mem.get (t, a) with
      | none => rw [hg] at hmv; simp at hmv
      | some is => exact ⟨is, (hmem a is).2 hg⟩
  | resolve t a =>
    simp only [step, OutOk]
    intro i; exact h.inverse t a i
  | add t i a => exact out_ok_files st _ (fun _ => by simp) (fun _ _ => by simp)
  | remove t i a => exact out_ok_files st _ (fun _ => by simp) (fun _ _ => by simp)
  | get t i => exact out_ok_files st _ (fun _ => by simp) (fun _ _ => by simp)
  | restart => exact out_ok_files st _ (fun _ => by simp) (fun _ _ => by simp)
  | graceful => exact out_ok_files st _ (fun _ => by simp) (fun _ _ => by simp)


/-- memory view without any premise: the loop of `AddAliases` -/
theorem mv_fold_putMem (cur : List Key) (t : Nat) (i : Key) :
    ∀ (m : M) t' a' i', mv (cur.foldl (fun m key => putMem m t key i) m) t' a' i' ↔
        mv m t' a' i' ∨ (a' ∈ cur ∧ a' ≠ [] ∧ i ≠ [] ∧ t' = t ∧ i' = i) := by
  induction cur with
  | nil => intro m t' a' i'; simp
  | cons key r ih =>
    intro m t' a' i'
    simp only [List.foldl_cons]
    rw [ih, mv_putMem]
    constructor
    · rintro ((h | ⟨ha, hi, ht, hk, hi'⟩) | ⟨hm, ha, hi, ht, hi'⟩)
      · exact Or.inl h
      · exact Or.inr ⟨by rw [hk]; exact List.mem_cons_self, by rw [hk]; exact ha, hi, ht, hi'⟩
      · exact Or.inr ⟨List.mem_cons_of_mem _ hm, ha, hi, ht, hi'⟩
    · rintro (h | ⟨hm, ha, hi, ht, hi'⟩)
      · exact Or.inl (Or.inl h)
      · rcases List.mem_cons.1 hm with hk | hm
        · exact Or.inl (Or.inr ⟨by rw [← hk]; exact ha, hi, ht, hk, hi'⟩)
        · exact Or.inr ⟨hm, ha, hi, ht, hi'⟩

/-- `abs` commutes with every step of a consistent state (the graceful shutdown writes nothing there) -/
theorem abs_step {st : St} (h : MemOk st) (op : Op) : abs (step st op).1 = specStep (abs st) op := by
  by_cases hg : op = .graceful
  · subst hg
    funext t i
    simp only [step, flush_id h, specStep, abs]
  · exact abs_step_files st op hg

theorem refines_of_memOk (ops : List Op) : ∀ (st : St), MemOk st → Refines (abs st) st ops := by
  induction ops with
  | nil => intro _ _; trivial
  | cons op r ih =>
    intro st h
    refine ⟨out_ok_mem h op, abs_step h op, ?_⟩
    rw [← abs_step h]
    exact ih _ (step_memOk h op)

theorem memOk_run (ops : List Op) : ∀ (st : St), MemOk st → MemOk (run st ops).1 := by
  induction ops with
  | nil => intro st h; exact h
  | cons op r ih =>
    intro st h
    simp only [run]
    exact ih _ (step_memOk h op)

theorem abs_init : abs init = Spec.empty := by
  funext t i; simp [abs, init, AL.get, Spec.empty]

/-- an operation of tenant `t` changes neither image of another tenant — in ANY state -/
theorem frame (st : St) (op : Op) (t : Nat) (ht : op.tenant = some t) (t' : Nat) (hne : t' ≠ t) :
    (∀ i, abs (step st op).1 t' i = abs st t' i) ∧ (∀ a i, mv (step st op).1.mem t' a i ↔ mv st.mem t' a i) := by
  cases op with
  | add t0 i a =>
    simp only [Op.tenant, Option.some.injEq] at ht; subst ht
    by_cases hv : validIndex i = true
    · by_cases ha0 : validIndex a = false
      · simp [step, hv, ha0]
      have ha : validIndex a = true := by simpa using ha0
      simp only [step, addAlias, hv, ha, Bool.not_true, Bool.false_eq_true, if_false]
      constructor
      · intro i'
        simp only [abs, get_put]
        have : ¬ (t', i') = (t0, i) := fun e => hne (Prod.mk.inj e).1
        rw [if_neg this]
      · intro a' i'
        show mv (List.foldl _ st.mem _) t' a' i' ↔ _
        rw [mv_fold_putMem]
        constructor
        · rintro (h | ⟨_, _, _, h, _⟩)
          · exact h
          · exact absurd h hne
        · exact Or.inl
    · simp [step, hv]
  | remove t0 i a =>
    simp only [Op.tenant, Option.some.injEq] at ht; subst ht
    by_cases hv : validIndex i = true
    · simp only [step, hv, Bool.not_true, Bool.false_eq_true, if_false]
      constructor
      · intro i'
        show (removeFile st.files t0 i a).1.get (t', i') = _
        rw [get_removeFile]
        have : ¬ (t', i') = (t0, i) := fun e => hne (Prod.mk.inj e).1
        rw [if_neg this]; rfl
      · intro a' i'
        show mv (removeMem st.mem t0 i a) t' a' i' ↔ _
        rw [mv_removeMem]
        constructor
        · exact fun h => h.1
        · exact fun h => ⟨h, fun ⟨e, _⟩ => hne (Prod.mk.inj e).1⟩
    · simp [step, hv]
  | get t0 i => by_cases hv : validIndex i = true <;> simp [step, hv]
  | list t0 => simp [step]
  | resolve t0 a => simp [step]
  | restart => simp [Op.tenant] at ht
  | graceful => simp [Op.tenant] at ht

/-! ### the `_aliases` request -/

theorem post_is_run (l : List (Option Op)) : ∀ (st : St), (postRun st l).1 = (run st (executed st l)).1 := by
  induction l with
  | nil => intro st; rfl
  | cons x r ih =>
    intro st
    cases x with
    | none => rfl
    | some op =>
      simp only [postRun, executed]
      by_cases h : (step st op).2 = .res .ok
      · simp only [h, if_true, run]; exact ih _
      · simp only [h, if_false, run]

theorem post_ack (l : List (Option Op)) : ∀ (st : St), (postRun st l).2 = true →
    none ∉ l ∧ executed st l = l.filterMap id := by
  induction l with
  | nil => intro st _; exact ⟨by simp, rfl⟩
  | cons x r ih =>
    intro st h
    cases x with
    | none => simp [postRun] at h
    | some op =>
      simp only [postRun] at h
      by_cases hk : (step st op).2 = .res .ok
      · simp only [hk, if_true] at h
        obtain ⟨h1, h2⟩ := ih _ h
        refine ⟨by simp [h1], ?_⟩
        simp only [executed, hk, if_true, List.filterMap_cons, id, h2]
      · simp [hk] at h

theorem run_append (a b : List Op) : ∀ (st : St), (run st (a ++ b)).1 = (run (run st a).1 b).1 := by
  induction a with
  | nil => intro st; rfl
  | cons op r ih => intro st; simp only [List.cons_append, run]; exact ih _

end SigModel.Lemmas.C20K.Alias
