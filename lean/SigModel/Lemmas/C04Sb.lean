/-
C04 statistics slice, lemmas part b: closed form of the folded statistics under exact arithmetic.
`build parse vs` is what the adders leave after the value list `vs` (parse = the path's "is this string a number"):
presence count, numeric values in order, min / max cells as folds of `cvMin` / `cvMax`, the sum as a fold of `addSum`.
`foldQWith parse exact vs = build parse vs` and `foldIWith parse exact vs = build parse vs` for EVERY list and string rule
(no overflow guard: the sum is still the code's own fold).  Core Lean only.
-/
import SigModel.Lemmas.C04Sa

namespace SigModel.Stats

/-- the numeric reading of a value on a path whose string rule is `parse` -/
def numOf (parse : Str → Option Rat) : Val → Option Num
  | .absent => none
  | .int i => some (.int i)
  | .flt q => some (.flt q)
  | .str s => (parse s).map Num.flt

/-- the cell a value contributes to min / max -/
def cellOf (parse : Str → Option Rat) : Val → CV
  | .absent => .invalid
  | .int i => .int i
  | .flt q => .flt q
  | .str s => match parse s with
    | some q => .flt q
    | none => .str s

def isPresent : Val → Bool
  | .absent => false
  | _ => true

/-- number of events that have the field -/
def present (vs : List Val) : Nat := (vs.filter isPresent).length

/-- the numeric values, in order -/
def nums (parse : Str → Option Rat) (vs : List Val) : List Num := vs.filterMap (numOf parse)

def minCell (parse : Str → Option Rat) (vs : List Val) : CV := vs.foldl (fun a v => cvMin a (cellOf parse v)) .invalid
def maxCell (parse : Str → Option Rat) (vs : List Val) : CV := vs.foldl (fun a v => cvMax a (cellOf parse v)) .invalid

/-- the code's own running sum over the numeric values -/
def sumCell (ns : List Num) : Num := ns.foldl (addSum exact) (.int 0)

def build (parse : Str → Option Rat) (vs : List Val) : Option SegStats :=
  if present vs = 0 then none else
  some { isNumeric := !(nums parse vs).isEmpty
         count := present vs
         min := minCell parse vs
         max := maxCell parse vs
         num := if (nums parse vs).isEmpty then none else some ⟨(nums parse vs).length, sumCell (nums parse vs)⟩ }

/-- induction from the right end (the adders consume the list left to right) -/
@[elab_as_elim] theorem snocInd {α : Type} {motive : List α → Prop} (nil : motive [])
    (append_singleton : ∀ (l : List α) (a : α), motive l → motive (l ++ [a])) (l : List α) : motive l := by
  rw [← List.reverse_reverse l]
  induction l.reverse with
  | nil => exact nil
  | cons a r ih => rw [List.reverse_cons]; exact append_singleton _ _ ih

/-! ### snoc rules -/

@[simp] theorem present_nil : present [] = 0 := rfl
@[simp] theorem present_snoc (vs : List Val) (v : Val) :
    present (vs ++ [v]) = present vs + (if isPresent v then 1 else 0) := by
  unfold present; cases h : isPresent v <;> simp [List.filter_append, h]
theorem present_append (xs ys : List Val) : present (xs ++ ys) = present xs + present ys := by
  unfold present; simp [List.filter_append]

@[simp] theorem nums_nil (parse : Str → Option Rat) : nums parse [] = [] := rfl
theorem nums_append (parse : Str → Option Rat) (xs ys : List Val) : nums parse (xs ++ ys) = nums parse xs ++ nums parse ys := by
  unfold nums; simp [List.filterMap_append]
@[simp] theorem nums_snoc (parse : Str → Option Rat) (vs : List Val) (v : Val) :
    nums parse (vs ++ [v]) = nums parse vs ++ (numOf parse v).toList := by
  rw [nums_append]; unfold nums; cases h : numOf parse v <;> simp [List.filterMap, h]

@[simp] theorem minCell_nil (parse : Str → Option Rat) : minCell parse [] = .invalid := rfl
@[simp] theorem maxCell_nil (parse : Str → Option Rat) : maxCell parse [] = .invalid := rfl
@[simp] theorem minCell_snoc (parse : Str → Option Rat) (vs : List Val) (v : Val) :
    minCell parse (vs ++ [v]) = cvMin (minCell parse vs) (cellOf parse v) := by
  unfold minCell; simp [List.foldl_append]
@[simp] theorem maxCell_snoc (parse : Str → Option Rat) (vs : List Val) (v : Val) :
    maxCell parse (vs ++ [v]) = cvMax (maxCell parse vs) (cellOf parse v) := by
  unfold maxCell; simp [List.foldl_append]

@[simp] theorem sumCell_nil : sumCell [] = .int 0 := rfl
@[simp] theorem sumCell_snoc (ns : List Num) (x : Num) : sumCell (ns ++ [x]) = addSum exact (sumCell ns) x := by
  unfold sumCell; simp [List.foldl_append]

theorem cellOf_notBackfill (parse : Str → Option Rat) (v : Val) : (cellOf parse v).notBackfill := by
  cases v with
  | absent => simp [cellOf, CV.notBackfill]
  | int i => simp [cellOf, CV.notBackfill]
  | flt q => simp [cellOf, CV.notBackfill]
  | str s => cases h : parse s <;> simp [cellOf, h, CV.notBackfill]

theorem minCell_notBackfill (parse : Str → Option Rat) (vs : List Val) : (minCell parse vs).notBackfill := by
  induction vs using snocInd with
  | nil => simp [CV.notBackfill]
  | append_singleton vs v ih => rw [minCell_snoc]; exact cvMin_notBackfill ih (cellOf_notBackfill parse v)

theorem maxCell_notBackfill (parse : Str → Option Rat) (vs : List Val) : (maxCell parse vs).notBackfill := by
  induction vs using snocInd with
  | nil => simp [CV.notBackfill]
  | append_singleton vs v ih => rw [maxCell_snoc]; exact cvMax_notBackfill ih (cellOf_notBackfill parse v)

/-- nothing present: nothing numeric, empty cells -/
theorem of_present_zero (parse : Str → Option Rat) (vs : List Val) (h : present vs = 0) :
    nums parse vs = [] ∧ minCell parse vs = .invalid ∧ maxCell parse vs = .invalid := by
  induction vs using snocInd with
  | nil => simp
  | append_singleton vs v ih =>
    rw [present_snoc] at h
    cases v with
    | absent =>
      have h0 : present vs = 0 := by simpa [isPresent] using h
      obtain ⟨h1, h2, h3⟩ := ih h0
      simp [h1, h2, h3, numOf, cellOf, cvMin, cvMax, reduceMinMax]
    | int i => simp [isPresent] at h
    | flt q => simp [isPresent] at h
    | str s => simp [isPresent] at h

theorem numOf_none_of_absent (parse : Str → Option Rat) : numOf parse .absent = none := rfl

theorem nums_length_le_present (parse : Str → Option Rat) (vs : List Val) : (nums parse vs).length ≤ present vs := by
  induction vs using snocInd with
  | nil => simp
  | append_singleton vs v ih =>
    rw [present_snoc, nums_snoc]
    cases v with
    | absent => simp [numOf, isPresent]; exact ih
    | int i => simp [numOf, isPresent]; exact ih
    | flt q => simp [numOf, isPresent]; exact ih
    | str s => cases h : parse s <;> simp [numOf, isPresent, h] <;> omega

/-! ### one adder step keeps the closed form -/

theorem build_of_present_zero (parse : Str → Option Rat) (vs : List Val) (h : present vs = 0) : build parse vs = none := by
  simp [build, h]

theorem build_of_present_pos (parse : Str → Option Rat) (vs : List Val) (h : present vs ≠ 0) :
    build parse vs = some { isNumeric := !(nums parse vs).isEmpty
                            count := present vs
                            min := minCell parse vs
                            max := maxCell parse vs
                            num := if (nums parse vs).isEmpty then none else some ⟨(nums parse vs).length, sumCell (nums parse vs)⟩ } := by
  simp [build, h]

/-- a numeric value `x` (cell `x.toCV`) arriving through AddSegStatsNums -/
theorem addNumQ_build (parse : Str → Option Rat) (vs : List Val) (v : Val) (x : Num)
    (hn : numOf parse v = some x) (hc : cellOf parse v = x.toCV) (hp : isPresent v = true) :
    addNumQ exact (build parse vs) x = build parse (vs ++ [v]) := by
  by_cases h0 : present vs = 0
  · obtain ⟨h1, h2, h3⟩ := of_present_zero parse vs h0
    rw [build_of_present_zero parse vs h0, build_of_present_pos parse (vs ++ [v]) (by simp [hp])]
    simp [addNumQ, newNumeric, procNum, defaultNum, h0, h1, h2, h3, hn, hc, hp, cvMin, cvMax, sumCell]
  · rw [build_of_present_pos parse vs h0, build_of_present_pos parse (vs ++ [v]) (by simp [hp])]
    by_cases hne : (nums parse vs).isEmpty
    · have hnil : nums parse vs = [] := List.isEmpty_iff.mp hne
      simp [addNumQ, procNum, defaultNum, hnil, hn, hc, hp, cvMin, cvMax, sumCell]
    · simp [addNumQ, procNum, hne, hn, hc, hp, cvMin, cvMax]

/-- … through writer.addSegStatsNums -/
theorem addNumI_build (parse : Str → Option Rat) (vs : List Val) (v : Val) (x : Num)
    (hn : numOf parse v = some x) (hc : cellOf parse v = x.toCV) (hp : isPresent v = true) :
    addNumI exact (build parse vs) x = build parse (vs ++ [v]) := by
  by_cases h0 : present vs = 0
  · obtain ⟨h1, h2, h3⟩ := of_present_zero parse vs h0
    rw [build_of_present_zero parse vs h0, build_of_present_pos parse (vs ++ [v]) (by simp [hp])]
    simp [addNumI, newNumeric, procNum, defaultNum, h0, h1, h2, h3, hn, hc, hp, cvMin, cvMax, sumCell]
  · rw [build_of_present_pos parse vs h0, build_of_present_pos parse (vs ++ [v]) (by simp [hp])]
    by_cases hne : (nums parse vs).isEmpty
    · have hnil : nums parse vs = [] := List.isEmpty_iff.mp hne
      simp [addNumI, procNum, defaultNum, hnil, hn, hc, hp, cvMin, cvMax, sumCell]
    · simp [addNumI, procNum, hne, hn, hc, hp, cvMin, cvMax]

theorem stepQWith_build (parse : Str → Option Rat) (vs : List Val) (v : Val) :
    stepQWith parse exact (build parse vs) v = build parse (vs ++ [v]) := by
  cases v with
  | absent =>
    by_cases h0 : present vs = 0
    · simp [stepQWith, build, h0, isPresent]
    · simp [stepQWith, build, h0, isPresent, numOf, cellOf, cvMin_invalid_right _ (minCell_notBackfill _ vs),
        cvMax_invalid_right _ (maxCell_notBackfill _ vs)]
  | int i => exact addNumQ_build _ vs (.int i) (.int i) rfl rfl rfl
  | flt q => exact addNumQ_build _ vs (.flt q) (.flt q) rfl rfl rfl
  | str s =>
    cases hps : parse s with
    | some f =>
      have hn : numOf parse (.str s) = some (.flt f) := by simp [numOf, hps]
      have hc : cellOf parse (.str s) = (Num.flt f).toCV := by simp [cellOf, hps, Num.toCV]
      rw [← addNumQ_build _ vs (.str s) (.flt f) hn hc rfl]
      by_cases h0 : present vs = 0
      · simp [stepQWith, addStrQWith, hps, build, h0, addNumQ, newText, newNumeric, procNum]
      · simp [stepQWith, addStrQWith, hps, build, h0]
    | none =>
      have hn : numOf parse (.str s) = none := by simp [numOf, hps]
      have hc : cellOf parse (.str s) = .str s := by simp [cellOf, hps]
      by_cases h0 : present vs = 0
      · obtain ⟨h1, h2, h3⟩ := of_present_zero parse vs h0
        simp [stepQWith, addStrQWith, hps, build, h0, newText, procStr, isPresent, hn, hc, h1, h2, h3, cvMin, cvMax]
      · simp [stepQWith, addStrQWith, hps, build, h0, procStr, isPresent, hn, hc, cvMin, cvMax]

theorem stepIWith_build (parse : Str → Option Rat) (vs : List Val) (v : Val) :
    stepIWith parse exact (build parse vs) v = build parse (vs ++ [v]) := by
  cases v with
  | absent =>
    by_cases h0 : present vs = 0
    · simp [stepIWith, build, h0, isPresent]
    · simp [stepIWith, build, h0, isPresent, numOf, cellOf, cvMin_invalid_right _ (minCell_notBackfill _ vs),
        cvMax_invalid_right _ (maxCell_notBackfill _ vs)]
  | int i => exact addNumI_build _ vs (.int i) (.int i) rfl rfl rfl
  | flt q => exact addNumI_build _ vs (.flt q) (.flt q) rfl rfl rfl
  | str s =>
    cases hps : parse s with
    | some f =>
      have hn : numOf parse (.str s) = some (.flt f) := by simp [numOf, hps]
      have hc : cellOf parse (.str s) = (Num.flt f).toCV := by simp [cellOf, hps, Num.toCV]
      rw [← addNumI_build _ vs (.str s) (.flt f) hn hc rfl]
      by_cases h0 : present vs = 0
      · simp [stepIWith, addStrIWith, hps, build, h0, addNumI, newText, newNumeric, procNum]
      · by_cases hne : (nums parse vs).isEmpty
        · simp [stepIWith, addStrIWith, hps, build, h0, addNumI, hne]
        · simp [stepIWith, addStrIWith, hps, build, h0, addNumI, hne]
    | none =>
      have hn : numOf parse (.str s) = none := by simp [numOf, hps]
      have hc : cellOf parse (.str s) = .str s := by simp [cellOf, hps]
      by_cases h0 : present vs = 0
      · obtain ⟨h1, h2, h3⟩ := of_present_zero parse vs h0
        simp [stepIWith, addStrIWith, hps, build, h0, newText, procStr, isPresent, hn, hc, h1, h2, h3, cvMin, cvMax]
      · simp [stepIWith, addStrIWith, hps, build, h0, procStr, isPresent, hn, hc, cvMin, cvMax]

/-- closed form of the query-time adders with any string rule, every list -/
theorem foldQWith_eq_build (parse : Str → Option Rat) (vs : List Val) : foldQWith parse exact vs = build parse vs := by
  induction vs using snocInd with
  | nil => simp [foldQWith, build]
  | append_singleton vs v ih =>
    have : foldQWith parse exact (vs ++ [v]) = stepQWith parse exact (foldQWith parse exact vs) v := by
      simp [foldQWith, List.foldl_append]
    rw [this, ih, stepQWith_build]

/-- closed form of the ingest-time adders with any string rule, every list -/
theorem foldIWith_eq_build (parse : Str → Option Rat) (vs : List Val) : foldIWith parse exact vs = build parse vs := by
  induction vs using snocInd with
  | nil => simp [foldIWith, build]
  | append_singleton vs v ih =>
    have : foldIWith parse exact (vs ++ [v]) = stepIWith parse exact (foldIWith parse exact vs) v := by
      simp [foldIWith, List.foldl_append]
    rw [this, ih, stepIWith_build]

/-- the fixed code: both paths use FastParseFloat -/
theorem foldQ_eq_build (vs : List Val) : foldQ exact vs = build (parseFast exact) vs := foldQWith_eq_build _ vs
theorem foldI_eq_build (vs : List Val) : foldI exact vs = build (parseFast exact) vs := foldIWith_eq_build _ vs
/-- before the fixes -/
theorem foldQOld_eq_build (vs : List Val) : foldQOld exact vs = build (parseStd exact) vs := foldQWith_eq_build _ vs
theorem foldIOld_eq_build (vs : List Val) : foldIOld exact vs = build (parseFastOld exact) vs := foldIWith_eq_build _ vs

end SigModel.Stats
