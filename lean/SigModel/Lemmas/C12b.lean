/- C12 helper lemmas, part b: quick-select returns the k-th smallest element; percentile. Core Lean only. -/
import SigModel.Lemmas.C12a

namespace SigModel.Lemmas.C12
open SigModel.Trace List

/-- what the recursive selector is assumed to do on every list shorter than `n` -/
def SelOK (sel : List Nat → Nat → Option Nat) (n : Nat) : Prop :=
  ∀ (l : List Nat) (k : Nat), l.length < n → k < l.length → sel l k = (sortN l)[k]?

theorem getD_sorted_mem {s : List Nat} {i : Nat} (h : i < s.length) : s.getD i 0 = s[i] := by
  rw [getD_eq_getElem?_getD, getElem?_eq_getElem h]; rfl

/-- `nLogNMedian` lies between two elements of the array -/
theorem medianSmall_between (arr : List Nat) (h : 2 ≤ arr.length) :
    (∃ a ∈ arr, a ≤ medianSmall (sortN arr)) ∧ (∃ b ∈ arr, medianSmall (sortN arr) ≤ b) := by
  have hl := sortN_length arr
  have hs := sortN_sorted arr
  unfold medianSmall
  split
  · have hi : (sortN arr).length / 2 < (sortN arr).length := by omega
    rw [getD_sorted_mem hi]
    exact ⟨⟨_, mem_sortN.1 (getElem_mem hi), Nat.le_refl _⟩, ⟨_, mem_sortN.1 (getElem_mem hi), Nat.le_refl _⟩⟩
  · have hi : (sortN arr).length / 2 - 1 < (sortN arr).length := by omega
    have hj : (sortN arr).length / 2 < (sortN arr).length := by omega
    rw [getD_sorted_mem hi, getD_sorted_mem hj]
    have hle := sorted_getElem_le hs (i := (sortN arr).length / 2 - 1) (j := (sortN arr).length / 2) (by omega) hj
    exact ⟨⟨_, mem_sortN.1 (getElem_mem hi), by omega⟩, ⟨_, mem_sortN.1 (getElem_mem hj), by omega⟩⟩

/-- the pivot exists and lies between two elements of the array -/
theorem pivotOf_ok (sel : List Nat → Nat → Option Nat) (arr : List Nat) (hsel : SelOK sel arr.length)
    (hlen : 2 ≤ arr.length) :
    ∃ pv, pivotOf sel arr = some pv ∧ (∃ a ∈ arr, a ≤ pv) ∧ (∃ b ∈ arr, pv ≤ b) := by
  unfold pivotOf
  split
  · exact ⟨_, rfl, medianSmall_between arr hlen⟩
  · rename_i h5
    have hml := medians5_length arr
    have hmm := medians5_mem arr
    have hn1 : 1 ≤ (medians5 arr).length := by rw [hml]; omega
    have hnlt : (medians5 arr).length < arr.length := by rw [hml]; omega
    simp only []
    split
    · have hk : (medians5 arr).length / 2 < (medians5 arr).length := by omega
      rw [hsel _ _ hnlt hk]
      have hk' : (medians5 arr).length / 2 < (sortN (medians5 arr)).length := by rw [sortN_length]; exact hk
      rw [getElem?_eq_getElem hk']
      have hm := hmm _ (mem_sortN.1 (getElem_mem hk'))
      exact ⟨_, rfl, ⟨_, hm, Nat.le_refl _⟩, ⟨_, hm, Nat.le_refl _⟩⟩
    · rename_i hodd
      have heven : (medians5 arr).length % 2 = 0 := by
        have : ¬ ((medians5 arr).length % 2 = 1) := by simpa using hodd
        omega
      have hi : (medians5 arr).length / 2 - 1 < (medians5 arr).length := by omega
      have hj : (medians5 arr).length / 2 < (medians5 arr).length := by omega
      have hmp := mutate_perm (medians5 arr)
      rw [hsel _ _ hnlt hi, hsel (mutate (medians5 arr)) _ (by rw [hmp.length_eq]; exact hnlt) (by rw [hmp.length_eq]; exact hj),
        sortN_congr hmp]
      have hi' : (medians5 arr).length / 2 - 1 < (sortN (medians5 arr)).length := by rw [sortN_length]; exact hi
      have hj' : (medians5 arr).length / 2 < (sortN (medians5 arr)).length := by rw [sortN_length]; exact hj
      rw [getElem?_eq_getElem hi', getElem?_eq_getElem hj']
      have hle := sorted_getElem_le (sortN_sorted (medians5 arr)) (i := (medians5 arr).length / 2 - 1)
        (j := (medians5 arr).length / 2) (by omega) hj'
      have hma := hmm _ (mem_sortN.1 (getElem_mem hi'))
      have hmb := hmm _ (mem_sortN.1 (getElem_mem hj'))
      exact ⟨_, rfl, ⟨_, hma, by omega⟩, ⟨_, hmb, by omega⟩⟩

/-- the partition step returns the k-th smallest element, provided the pivot lies between two elements -/
theorem partStep_ok (sel : List Nat → Nat → Option Nat) (arr' : List Nat) (k pv : Nat)
    (hsel : SelOK sel arr'.length) (ha : ∃ a ∈ arr', a ≤ pv) (hb : ∃ b ∈ arr', pv ≤ b) (hk : k < arr'.length) :
    partStep sel arr' k pv = (sortN arr')[k]? := by
  unfold partStep
  simp only []
  have hpart := sortN_partition arr' pv
  have hlenp := (partition_perm arr' pv).length_eq
  simp only [length_append] at hlenp
  have hlows : (arr'.filter (fun el => decide (el < pv))).length < arr'.length := by
    rw [length_filter_lt_length_iff_exists]
    obtain ⟨b, hbm, hbp⟩ := hb
    exact ⟨b, hbm, by simp; omega⟩
  have hhighs : (arr'.filter (fun el => decide (pv < el))).length < arr'.length := by
    rw [length_filter_lt_length_iff_exists]
    obtain ⟨a, ham, hap⟩ := ha
    exact ⟨a, ham, by simp; omega⟩
  rw [hpart]
  split
  · rename_i h1
    rw [hsel _ _ hlows h1, getElem?_append_left (by rw [sortN_length]; exact h1)]
  · rename_i h1
    split
    · rename_i h2
      rw [getElem?_append_right (by rw [sortN_length]; omega), sortN_length,
        getElem?_append_left (by omega)]
      have hidx : k - (arr'.filter (fun el => decide (el < pv))).length <
          (arr'.filter (fun el => !(decide (el < pv)) && !(decide (pv < el)))).length := by omega
      rw [getElem?_eq_getElem hidx]
      have hall : ∀ x ∈ arr'.filter (fun el => !(decide (el < pv)) && !(decide (pv < el))), x = pv := by
        intro x hx
        have := (mem_filter.1 hx).2
        simp only [Bool.and_eq_true, Bool.not_eq_true', decide_eq_false_iff_not] at this
        omega
      rw [hall _ (getElem_mem hidx)]
      match hp : arr'.filter (fun el => !(decide (el < pv)) && !(decide (pv < el))) with
      | [] => rw [hp] at hidx; simp at hidx
      | x :: _ =>
        have : x = pv := hall x (by rw [hp]; exact mem_cons_self)
        simp [this]
    · rename_i h2
      have hk3 : k - (arr'.filter (fun el => decide (el < pv))).length -
          (arr'.filter (fun el => !(decide (el < pv)) && !(decide (pv < el)))).length <
          (arr'.filter (fun el => decide (pv < el))).length := by omega
      rw [hsel _ _ hhighs hk3]
      rw [getElem?_append_right (by rw [sortN_length]; omega), sortN_length,
        getElem?_append_right (by omega)]

/-- quick-select as coded terminates (fuel = length suffices) and returns the k-th smallest element -/
theorem qsel_spec : ∀ (f : Nat) (arr : List Nat) (k : Nat), arr.length ≤ f → k < arr.length →
    qsel f arr k = (sortN arr)[k]? := by
  intro f
  induction f with
  | zero => intro arr k h1 h2; omega
  | succ f ih =>
    intro arr k h1 h2
    match arr, h1, h2 with
    | [], _, h2 => simp at h2
    | [x], _, h2 =>
      have : k = 0 := by simpa using h2
      subst this
      simp [qsel, sortN, isort, insertBy]
    | x :: y :: rest, h1, h2 =>
      have hselA : SelOK (qsel f) (x :: y :: rest).length := by
        intro l k' hl hk'
        exact ih l k' (by omega) hk'
      obtain ⟨pv, hpv, ha, hb⟩ := pivotOf_ok (qsel f) (x :: y :: rest) hselA (by simp)
      have hmp := mutate_perm (x :: y :: rest)
      have hselB : SelOK (qsel f) (mutate (x :: y :: rest)).length := by rw [hmp.length_eq]; exact hselA
      obtain ⟨a, ham, hap⟩ := ha
      obtain ⟨b, hbm, hbp⟩ := hb
      rw [qsel, hpv]
      simp only []
      rw [partStep_ok (qsel f) _ k pv hselB ⟨a, hmp.mem_iff.2 ham, hap⟩ ⟨b, hmp.mem_iff.2 hbm, hbp⟩
        (by rw [hmp.length_eq]; exact h2), sortN_congr hmp]

theorem quickSelect_spec (arr : List Nat) (k : Nat) (hk : k < arr.length) :
    quickSelect arr k = (sortN arr)[k]? := qsel_spec _ arr k (Nat.le_refl _) hk

/-! ### percentile -/

theorem Dy.floor_le_ceil (a : Dy) : a.floor ≤ a.ceil := by
  unfold Dy.floor Dy.ceil
  split
  · exact Nat.le_refl _
  · apply Nat.div_le_div_right
    have : 0 < Dy.pow2 (-a.e).toNat := by unfold Dy.pow2; exact Nat.two_pow_pos _
    omega

/-- the value `FindPercentileData` denotes on the sorted array `s`, for the index `k` (float64) -/
def lerp (s : List Nat) (k : Dy) : Option Dy :=
  if k.floor == k.ceil then s[k.floor]?.map Dy.ofNat
  else match s[k.floor]?, s[k.ceil]? with
    | some lo, some hi =>
      some (Dy.add (Dy.ofNat lo) (Dy.mul (Dy.sub (Dy.ofNat hi) (Dy.ofNat lo)) (Dy.sub k (Dy.ofNat k.floor))))
    | _, _ => none

theorem pct_snd_perm (arr : List Nat) (p : Nat) : (pct arr p).2 ~ arr := by
  unfold pct
  split
  · exact Perm.refl _
  · split
    · exact Perm.refl _
    · simp only []
      split
      · exact afterSelect_perm arr
      · split
        · exact (afterSelect_perm _).trans (afterSelect_perm arr)
        · exact (afterSelect_perm _).trans (afterSelect_perm arr)

theorem pct_spec (arr : List Nat) (p : Nat) (hne : arr ≠ []) (hp : p ≤ 100)
    (hck : (Dy.div (Dy.ofNat (p * (arr.length - 1))) (Dy.ofNat 100)).ceil < arr.length) :
    (pct arr p).1 = lerp (sortN arr) (Dy.div (Dy.ofNat (p * (arr.length - 1))) (Dy.ofNat 100)) := by
  have hfc := Dy.floor_le_ceil (Dy.div (Dy.ofNat (p * (arr.length - 1))) (Dy.ofNat 100))
  have hap := afterSelect_perm arr
  unfold pct lerp
  have h1 : arr.isEmpty = false := by cases arr with | nil => exact absurd rfl hne | cons _ _ => rfl
  have h2 : ¬ p > 100 := by omega
  simp only [h1, Bool.false_eq_true, if_false, h2]
  split
  · rw [quickSelect_spec arr _ (by omega)]
  · rw [quickSelect_spec arr _ (by omega), quickSelect_spec (afterSelect arr) _ (by rw [hap.length_eq]; exact hck),
      sortN_congr hap]
    have hf' : (Dy.div (Dy.ofNat (p * (arr.length - 1))) (Dy.ofNat 100)).floor < (sortN arr).length := by
      rw [sortN_length]; omega
    have hc' : (Dy.div (Dy.ofNat (p * (arr.length - 1))) (Dy.ofNat 100)).ceil < (sortN arr).length := by
      rw [sortN_length]; omega
    rw [getElem?_eq_getElem hf', getElem?_eq_getElem hc']

end SigModel.Lemmas.C12
