/-
C02 kernel slice, lemmas part c: soundness of the block range-index check and the where-stage comparison.
Core Lean only.
-/
import SigModel.Lemmas.C02Kb

namespace SigModel.Lemmas.C02K
open SigModel.Tlv SigModel.Cmp SigModel.Lemmas.C01 SigModel.Gen

/-! ### the three regenerated range kernels never skip a range that holds a satisfying value -/

theorem floatPass_sound (op : Op) (L a mn mx : Rat) (h1 : mn ≤ a) (h2 : a ≤ mx) (hs : cmpQ op a L = true) :
    doesFloatPassRangeFilter op.code L mn mx = true := by
  cases op <;>
    simp [cmpQ] at hs <;>
    simp [doesFloatPassRangeFilter, Op.code, FilterOperator_Equals, FilterOperator_NotEquals, FilterOperator_LessThan,
      FilterOperator_LessThanOrEqualTo, FilterOperator_GreaterThan, FilterOperator_GreaterThanOrEqualTo] <;>
    grind

theorem intPass_sound (op : Op) (L a mn mx : Int) (h1 : mn ≤ a) (h2 : a ≤ mx) (hs : cmpZ op a L = true) :
    doesIntPassRangeFilter op.code L mn mx = true := by
  cases op <;>
    simp [cmpZ] at hs <;>
    simp [doesIntPassRangeFilter, Op.code, FilterOperator_Equals, FilterOperator_NotEquals, FilterOperator_LessThan,
      FilterOperator_LessThanOrEqualTo, FilterOperator_GreaterThan, FilterOperator_GreaterThanOrEqualTo] <;>
    omega

theorem uintPass_sound (op : Op) (L a mn mx : Int) (h1 : mn ≤ a) (h2 : a ≤ mx) (hs : cmpZ op a L = true) :
    doesUintPassRangeFilter op.code L mn mx = true := by
  cases op <;>
    simp [cmpZ] at hs <;>
    simp [doesUintPassRangeFilter, Op.code, FilterOperator_Equals, FilterOperator_NotEquals, FilterOperator_LessThan,
      FilterOperator_LessThanOrEqualTo, FilterOperator_GreaterThan, FilterOperator_GreaterThanOrEqualTo] <;>
    omega

/-- The guard of `range_check_sound_partial`: every integer that the float fallback (or a float-typed range)
pushes through `float64(·)` is represented exactly — the range bounds, the stored integer, and an integer
literal that is re-read with ParseFloat. -/
def rangeGuard (rnd : Rat → Rat) (ri : Range) (v : SVal) (t : NumText) : Bool :=
  match ri, v with
  | .s mn mx, .int _ =>
    match t.intOk with
    | some k => decide (litVal rnd t = (k : Rat))
    | none => decide (rnd (mn : Rat) = (mn : Rat)) && decide (rnd (mx : Rat) = (mx : Rat)) &&
        decide (litVal rnd t = rnd t.val)
  | .u mn mx, .uint _ =>
    match t.uintOk with
    | some _ => true
    | none => decide (rnd (mn : Rat) = (mn : Rat)) && decide (rnd (mx : Rat) = (mx : Rat)) &&
        decide (litVal rnd t = rnd t.val)
  | .f _ _, .int i => decide (rnd (i : Rat) = (i : Rat)) && decide (litVal rnd t = rnd t.val)
  | .f _ _, .uint n => decide (rnd (n : Rat) = (n : Rat)) && decide (litVal rnd t = rnd t.val)
  | .f _ _, .float _ => decide (litVal rnd t = rnd t.val)
  | _, _ => true

theorem specCmp_num (rnd : Rat → Rat) (v : SVal) (op : Op) (t : NumText) (ht : t.wf) (a : Rat)
    (ha : v.num? rnd = some a) : specCmp rnd v op (mkLit rnd t) = cmpQ op a (litVal rnd t) := by
  simp [specCmp, ha, mkLit_num rnd t ht]

theorem range_sound (rnd : Rat → Rat) (ri : Range) (v : SVal) (op : Op) (t : NumText) (ht : t.wf)
    (hc : ri.contains rnd v) (hs : specCmp rnd v op (mkLit rnd t) = true) (hg : rangeGuard rnd ri v t = true) :
    rangeCheck rnd ri op t = true := by
  cases ri with
  | s mn mx =>
    cases v <;> simp [Range.contains] at hc
    rename_i i
    rw [specCmp_num rnd _ op t ht (i : Rat) rfl] at hs
    unfold rangeCheck
    cases hi : t.intOk with
    | some k =>
      simp [rangeGuard, hi] at hg
      rw [hg, cmpQ_int] at hs
      simpa using intPass_sound op k i mn mx hc.1 hc.2 hs
    | none =>
      simp [rangeGuard, hi] at hg
      rw [hg.2] at hs
      simp only [hg.1.1, hg.1.2]
      exact floatPass_sound op _ (i : Rat) _ _ (Rat.intCast_le_intCast.mpr hc.1) (Rat.intCast_le_intCast.mpr hc.2) hs
  | u mn mx =>
    cases v <;> simp [Range.contains] at hc
    rename_i n
    rw [specCmp_num rnd _ op t ht (n : Rat) rfl] at hs
    unfold rangeCheck
    cases hu : t.uintOk with
    | some u =>
      have hw := wf_uint t ht u hu
      have hl : litVal rnd t = ((u : Int) : Rat) := by simp [litVal, hw.2.2, hu, hw.1, natCast_rat]
      rw [hl, ← natCast_rat n, cmpQ_int] at hs
      simpa using uintPass_sound op (u : Int) (n : Int) (mn : Int) (mx : Int) (by omega) (by omega) hs
    | none =>
      simp [rangeGuard, hu] at hg
      rw [hg.2] at hs
      simp only [hg.1.1, hg.1.2]
      have h1 : (mn : Rat) ≤ (n : Rat) := by rw [← natCast_rat, ← natCast_rat]; exact Rat.intCast_le_intCast.mpr (by omega)
      have h2 : (n : Rat) ≤ (mx : Rat) := by rw [← natCast_rat, ← natCast_rat]; exact Rat.intCast_le_intCast.mpr (by omega)
      exact floatPass_sound op _ (n : Rat) _ _ h1 h2 hs
  | f mn mx =>
    unfold rangeCheck
    cases v <;> simp [Range.contains] at hc
    · rename_i i
      rw [specCmp_num rnd _ op t ht (i : Rat) rfl] at hs
      simp [rangeGuard] at hg
      rw [hg.2] at hs; rw [hg.1] at hc
      exact floatPass_sound op _ (i : Rat) _ _ hc.1 hc.2 hs
    · rename_i n
      rw [specCmp_num rnd _ op t ht (n : Rat) rfl] at hs
      simp [rangeGuard] at hg
      rw [hg.2] at hs; rw [hg.1] at hc
      exact floatPass_sound op _ (n : Rat) _ _ hc.1 hc.2 hs
    · rename_i b
      rw [specCmp_num rnd _ op t ht (f64val b) rfl] at hs
      simp [rangeGuard] at hg
      rw [hg] at hs
      exact floatPass_sound op _ (f64val b) _ _ hc.1 hc.2 hs

/-! ### the where stage -/

/-- the test of `EvaluateToNumber`: the float is an int64 -/
def isI64b (x : Rat) : Bool := decide (x = (x.floor : Rat)) && decide (-two63 ≤ x.floor) && decide (x.floor < two63)

theorem toNumber_eq (x : Rat) : toNumber x = if isI64b x then .i64 x.floor else .f64 x := by
  unfold toNumber isI64b
  simp only [Bool.and_eq_true, decide_eq_true_eq, and_assoc]

theorem toNumber_toF (rnd : Rat → Rat) (x : Rat) (hx : rnd x = x) : (toNumber x).toF rnd = x := by
  rw [toNumber_eq]
  by_cases h : isI64b x = true
  · simp [h, WNum.toF]
    simp [isI64b] at h
    rw [← h.1.1, hx]
  · simp [h, WNum.toF]

theorem whereEq_toNumber (rnd : Rat → Rat) (x y : Rat) (hx : rnd x = x) :
    whereEq rnd (toNumber x) (toNumber y) = decide (x = y) := by
  rw [toNumber_eq x, toNumber_eq y]
  by_cases h1 : isI64b x = true <;> by_cases h2 : isI64b y = true
  · simp [h1, h2, whereEq]
    simp [isI64b] at h1 h2
    constructor
    · intro h; rw [h1.1.1, h2.1.1, h]
    · intro h; rw [h] ;
  · simp [h1, h2, whereEq]
    simp [isI64b] at h1
    rw [← h1.1.1, hx]
  · simp [h1, h2, whereEq]
    simp at h1
    simp [isI64b] at h2
    intro h
    -- x = y would make x an int64
    have : isI64b x = true := by
      simp [isI64b]; rw [h]; exact ⟨⟨h2.1.1, h2.1.2⟩, h2.2⟩
    simp [h1] at this
  · simp [h1, h2, whereEq]

/-- The guard under which the where stage computes the comparison by value: the field integer and an integer
literal survive `float64(·)` unchanged (true for |n| ≤ 2^53). -/
def whereGuard (rnd : Rat → Rat) (v : SVal) (_op : Op) (t : NumText) : Bool :=
  decide (litVal rnd t = rnd t.val) &&
  (match v with
    | .int i => decide (rnd (i : Rat) = (i : Rat))
    | .uint n => decide (rnd (n : Rat) = (n : Rat))
    | _ => true)

theorem where_eq_spec (rnd : Rat → Rat) (hr : RndOk rnd) (v : SVal) (hv : v.wf) (op : Op) (t : NumText) (ht : t.wf)
    (a : Rat) (hf : fieldFloat rnd v = some a) (hg : whereGuard rnd v op t = true) :
    whereCmp rnd v op t = some (specCmp rnd v op (mkLit rnd t)) := by
  -- the field float is the value, and a fixed point of rnd
  have hval : v.num? rnd = some a ∧ rnd a = a := by
    unfold SVal.wf SVal.wfb at hv
    cases v <;> simp [fieldFloat] at hf <;> simp [whereGuard] at hg
    · rename_i i; subst hf; simp [SVal.num?, hg.2]
    · rename_i n; subst hf; simp [SVal.num?, hg.2]
    · rename_i b; subst hf; simp [SVal.num?]; exact hr.fix64 b hv
  have hl : litVal rnd t = rnd t.val := by
    simp [whereGuard] at hg; exact hg.1
  rw [specCmp_num rnd v op t ht a hval.1, hl]
  have hy : rnd (rnd t.val) = rnd t.val := hr.idem _
  unfold whereCmp whereCmpWith
  simp only [hf]
  cases op <;> simp [cmpQ, toNumber_toF rnd a hval.2, toNumber_toF rnd _ hy]
  · exact whereEq_toNumber rnd a _ hval.2
  · rw [whereEq_toNumber rnd a _ hval.2]

/-! ### strings -/

theorem ciEqual_length_ne (a b : Bytes) (h : a.length ≠ b.length) : ciEqual a b = false := by
  induction a generalizing b with
  | nil => cases b <;> simp_all [ciEqual]
  | cons x xs ih =>
    cases b with
    | nil => simp [ciEqual]
    | cons y ys =>
      have := ih ys (by simpa using h)
      simp [ciEqual, this]

end SigModel.Lemmas.C02K
