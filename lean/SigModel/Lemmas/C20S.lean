/-
Helper lemmas for C20, the set of alerts and their cron jobs (Model/AlertSet.lean).  Core Lean only.
-/
import SigModel.Model.AlertSet

namespace SigModel.Lemmas.C20S
open SigModel.AlertSet

/-- alert numbers are distinct and below the next number -/
structure Inv (s : St) : Prop where
  nodup : (s.rows.map (·.idx)).Nodup
  below : ∀ r ∈ s.rows, r.idx < s.next

theorem setRow_idx (rows : List Row) (k : Nat) (f : Row → Row) (hf : ∀ r, (f r).idx = r.idx) :
    (setRow rows k f).map (·.idx) = rows.map (·.idx) := by
  induction rows with
  | nil => rfl
  | cons r rs ih =>
    simp only [setRow, List.map_cons] at ih ⊢
    rw [ih]
    by_cases h : (r.idx == k) = true <;> simp [h, hf]

theorem mem_setRow {rows : List Row} {k : Nat} {f : Row → Row} {x : Row} (h : x ∈ setRow rows k f) :
    ∃ r ∈ rows, x = r ∨ x = f r := by
  simp only [setRow, List.mem_map] at h
  obtain ⟨r, hr, he⟩ := h
  refine ⟨r, hr, ?_⟩
  by_cases hk : (r.idx == k) = true
  · simp [hk] at he; exact Or.inr he.symm
  · simp [hk] at he; exact Or.inl he.symm

theorem inv_setRow (s : St) (k : Nat) (f : Row → Row) (hf : ∀ r, (f r).idx = r.idx) (h : Inv s) (jobs : List Nat) :
    Inv { s with rows := setRow s.rows k f, jobs := jobs } := by
  refine ⟨?_, ?_⟩
  · show ((setRow s.rows k f).map (·.idx)).Nodup
    rw [setRow_idx _ _ _ hf]; exact h.nodup
  · intro x hx
    obtain ⟨r, hr, he⟩ := mem_setRow hx
    have := h.below r hr
    rcases he with rfl | rfl
    · exact this
    · show (f r).idx < s.next
      rw [hf]; exact this

theorem inv_createRow (s : St) (w i t : Nat) (h : Inv s) : Inv (createRow s w i t).1 := by
  unfold createRow
  by_cases ha : accepted w i t = true
  · simp only [ha, if_true]
    refine ⟨?_, ?_⟩
    · show ((s.rows ++ [({ idx := s.next, window := w, interval := i, type := t } : Row)]).map (fun r => r.idx)).Nodup
      rw [List.map_append, List.nodup_append]
      refine ⟨h.nodup, by simp, ?_⟩
      intro a ha b hb
      simp only [List.map_cons, List.map_nil, List.mem_singleton] at hb
      obtain ⟨r, hr, rfl⟩ := List.mem_map.1 ha
      have := h.below r hr
      omega
    · intro r hr
      show r.idx < s.next + 1
      rcases List.mem_append.1 hr with hr | hr
      · have := h.below r hr; omega
      · simp only [List.mem_singleton] at hr; subst hr; exact Nat.lt_succ_self _
  · simp only [ha]
    exact ⟨h.nodup, fun r hr => Nat.lt_succ_of_lt (h.below r hr)⟩

theorem inv_step (s : St) (op : Op) (h : Inv s) : Inv (step s op).1 := by
  cases op with
  | create w i => exact inv_createRow s w i 1 h
  | createMetrics w i => exact inv_createRow s w i 2 h
  | createTyped t => exact inv_createRow s 1 1 t h
  | edit k w i =>
    by_cases hc : (hasRow s k && accepted w i 1) = true
    · simp only [step, hc, if_true]
      exact inv_setRow s k (fun r => { r with window := w, interval := i, type := 1 }) (fun _ => rfl) h _
    · simp only [step, hc]; exact h
  | delete k =>
    by_cases hc : hasRow s k = true
    · simp only [step, hc, if_true]
      refine ⟨?_, fun r hr => h.below r (List.mem_filter.1 hr).1⟩
      exact h.nodup.sublist ((List.filter_sublist).map _)
    · simp only [step, hc]; exact h
  | legacyInterval k => exact inv_setRow s k (fun r => { r with window := 0, interval := 0 }) (fun _ => rfl) h _
  | legacyType k => exact inv_setRow s k (fun r => { r with type := 0 }) (fun _ => rfl) h _
  | restart => exact ⟨h.nodup, h.below⟩

theorem inv_init : Inv init := ⟨by simp [init], by intro r hr; cases hr⟩

theorem inv_run (ops : List Op) (s : St) (h : Inv s) : Inv (run s ops).1 := by
  induction ops generalizing s with
  | nil => exact h
  | cons op ops ih => exact ih _ (inv_step s op h)

/-! ### requests can only store schedulable alerts -/

def isLegacy : Op → Bool
  | .legacyInterval _ => true
  | .legacyType _ => true
  | _ => false

def AllSched (s : St) : Prop := ∀ r ∈ s.rows, schedulable r = true

theorem accepted_schedulable {w i t : Nat} (h : accepted w i t = true) :
    schedulable { idx := k, window := w, interval := i, type := t } = true := by
  simp only [accepted, Bool.and_eq_true] at h
  simp [schedulable, h.1.1.1, h.1.2]

theorem allSched_createRow (s : St) (w i t : Nat) (h : AllSched s) : AllSched (createRow s w i t).1 := by
  unfold createRow
  by_cases ha : accepted w i t = true
  · simp only [ha, if_true]
    intro r hr
    rcases List.mem_append.1 hr with hr | hr
    · exact h r hr
    · simp only [List.mem_singleton] at hr; subst hr; exact accepted_schedulable ha
  · simp only [ha]; exact h

theorem allSched_step (s : St) (op : Op) (hl : isLegacy op = false) (h : AllSched s) : AllSched (step s op).1 := by
  cases op with
  | create w i => exact allSched_createRow s w i 1 h
  | createMetrics w i => exact allSched_createRow s w i 2 h
  | createTyped t => exact allSched_createRow s 1 1 t h
  | edit k w i =>
    by_cases hc : (hasRow s k && accepted w i 1) = true
    · simp only [step, hc, if_true]
      have ha : accepted w i 1 = true := by
        simp only [Bool.and_eq_true] at hc; exact hc.2
      intro x hx
      obtain ⟨r, hr, he⟩ := mem_setRow hx
      rcases he with rfl | rfl
      · exact h _ hr
      · exact accepted_schedulable ha
    · simp only [step, hc]; exact h
  | delete k =>
    by_cases hc : hasRow s k = true
    · simp only [step, hc, if_true]
      intro r hr; exact h r (List.mem_filter.1 hr).1
    · simp only [step, hc]; exact h
  | legacyInterval k => simp [isLegacy] at hl
  | legacyType k => simp [isLegacy] at hl
  | restart => exact h

theorem allSched_run (ops : List Op) (s : St) (hl : ∀ op ∈ ops, isLegacy op = false) (h : AllSched s) :
    AllSched (run s ops).1 := by
  induction ops generalizing s with
  | nil => exact h
  | cons op ops ih =>
    exact ih _ (fun o ho => hl o (List.mem_cons_of_mem _ ho)) (allSched_step s op (hl op (List.mem_cons_self ..)) h)

/-- the jobs a restart creates -/
theorem restart_jobs (s : St) : (step s .restart).1.jobs = (s.rows.filter schedulable).map (·.idx) := rfl

theorem restart_jobs_nodup (s : St) (h : Inv s) : (step s .restart).1.jobs.Nodup := by
  rw [restart_jobs]
  exact h.nodup.sublist ((List.filter_sublist).map _)

theorem mem_restart_jobs (s : St) (k : Nat) :
    k ∈ (step s .restart).1.jobs ↔ ∃ r ∈ s.rows, r.idx = k ∧ schedulable r = true := by
  rw [restart_jobs]
  simp only [List.mem_map, List.mem_filter]
  constructor
  · rintro ⟨r, ⟨hr, hs⟩, rfl⟩; exact ⟨r, hr, rfl, hs⟩
  · rintro ⟨r, hr, rfl, hs⟩; exact ⟨r, ⟨hr, hs⟩, rfl⟩

end SigModel.Lemmas.C20S
