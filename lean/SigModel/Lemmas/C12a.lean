/- C12 helper lemmas, part a: insertion sort, `uniq`, quick-select. Core Lean only. -/
import SigModel.Model.Trace

namespace SigModel.Lemmas.C12
open SigModel.Trace List

/-! ### insertion sort -/

theorem insertBy_perm {α} (le : α → α → Bool) (a : α) (l : List α) : insertBy le a l ~ a :: l := by
  induction l with
  | nil => simp [insertBy]
  | cons b l ih =>
    simp only [insertBy]
    split
    · exact Perm.refl _
    · exact (Perm.cons b ih).trans (Perm.swap a b l)

theorem isort_perm {α} (le : α → α → Bool) (l : List α) : isort le l ~ l := by
  induction l with
  | nil => simp [isort]
  | cons a l ih => exact (insertBy_perm le a _).trans (Perm.cons a ih)

theorem mem_isort {α} {le : α → α → Bool} {l : List α} {a : α} : a ∈ isort le l ↔ a ∈ l :=
  (isort_perm le l).mem_iff

theorem length_isort {α} (le : α → α → Bool) (l : List α) : (isort le l).length = l.length :=
  (isort_perm le l).length_eq

theorem insertBy_pairwise {α} (le : α → α → Bool)
    (trans : ∀ a b c, le a b → le b c → le a c) (total : ∀ a b, le a b || le b a)
    (a : α) (l : List α) (h : l.Pairwise (fun x y => le x y)) : (insertBy le a l).Pairwise (fun x y => le x y) := by
  induction l with
  | nil => simp [insertBy]
  | cons b l ih =>
    simp only [insertBy]
    have hb : ∀ c ∈ l, le b c = true := fun c hc => rel_of_pairwise_cons h hc
    split
    · rename_i hab
      refine Pairwise.cons ?_ h
      intro c hc
      rcases mem_cons.1 hc with rfl | hc
      · exact hab
      · exact trans _ _ _ hab (hb _ hc)
    · rename_i hab
      have hba : le b a = true := by
        have := total a b
        simp only [Bool.or_eq_true] at this
        rcases this with h1 | h1
        · exact absurd h1 hab
        · exact h1
      refine Pairwise.cons ?_ (ih h.tail)
      intro c hc
      rcases mem_cons.1 ((insertBy_perm le a l).mem_iff.1 hc) with rfl | hc
      · exact hba
      · exact hb _ hc

theorem isort_pairwise {α} (le : α → α → Bool)
    (trans : ∀ a b c, le a b → le b c → le a c) (total : ∀ a b, le a b || le b a)
    (l : List α) : (isort le l).Pairwise (fun x y => le x y) := by
  induction l with
  | nil => simp [isort]
  | cons a l ih => exact insertBy_pairwise le trans total a _ ih

/-! ### `sortN` -/

theorem sortN_perm (l : List Nat) : sortN l ~ l := isort_perm _ l

theorem sortN_length (l : List Nat) : (sortN l).length = l.length := (sortN_perm l).length_eq

theorem mem_sortN {l : List Nat} {a : Nat} : a ∈ sortN l ↔ a ∈ l := (sortN_perm l).mem_iff

theorem sortN_sorted (l : List Nat) : (sortN l).Pairwise (· ≤ ·) := by
  have h := isort_pairwise (fun a b : Nat => decide (a ≤ b))
    (by intro a b c; simp only [decide_eq_true_eq]; omega)
    (by intro a b; simp only [Bool.or_eq_true, decide_eq_true_eq]; omega) l
  exact h.imp (by intro a b; simp)

theorem sorted_unique {l₁ l₂ : List Nat} (h₁ : l₁.Pairwise (· ≤ ·)) (h₂ : l₂.Pairwise (· ≤ ·))
    (p : l₁ ~ l₂) : l₁ = l₂ :=
  Perm.eq_of_pairwise (le := (· ≤ ·)) (fun _ _ _ _ hab hba => Nat.le_antisymm hab hba) h₁ h₂ p

theorem sortN_congr {l₁ l₂ : List Nat} (p : l₁ ~ l₂) : sortN l₁ = sortN l₂ :=
  sorted_unique (sortN_sorted _) (sortN_sorted _) ((sortN_perm l₁).trans (p.trans (sortN_perm l₂).symm))

theorem sortN_of_sorted {l : List Nat} (h : l.Pairwise (· ≤ ·)) : sortN l = l :=
  sorted_unique (sortN_sorted _) h (sortN_perm l)

theorem sortN_idem (l : List Nat) : sortN (sortN l) = sortN l := sortN_of_sorted (sortN_sorted l)

/-- sorted lists are monotone in the index -/
theorem sorted_getElem_le {s : List Nat} (h : s.Pairwise (· ≤ ·)) {i j : Nat} (hij : i ≤ j) (hj : j < s.length) :
    s[i]'(by omega) ≤ s[j] := by
  rcases Nat.lt_or_eq_of_le hij with hlt | rfl
  · exact (pairwise_iff_getElem.1 h) i j (by omega) hj hlt
  · exact Nat.le_refl _

/-! ### `uniq` -/

theorem mem_uniq {α} [BEq α] [LawfulBEq α] {l : List α} {a : α} : a ∈ uniq l ↔ a ∈ l := by
  induction l with
  | nil => simp [uniq]
  | cons b l ih =>
    simp only [uniq]
    split
    · rename_i hc
      rw [ih, mem_cons]
      constructor
      · exact Or.inr
      · rintro (rfl | h)
        · simpa using hc
        · exact h
    · simp [mem_cons, ih]

theorem uniq_nodup {α} [BEq α] [LawfulBEq α] (l : List α) : (uniq l).Nodup := by
  induction l with
  | nil => simp [uniq]
  | cons b l ih =>
    simp only [uniq]
    split
    · exact ih
    · rename_i hc
      refine nodup_cons.2 ⟨?_, ih⟩
      rw [mem_uniq]
      simpa using hc

/-! ### the three-way partition -/

theorem count_filter_ite (p : Nat → Bool) (l : List Nat) (a : Nat) :
    count a (l.filter p) = if p a then count a l else 0 := by
  split
  · rename_i h; exact count_filter h
  · rename_i h
    apply count_eq_zero.2
    intro hm
    exact h (mem_filter.1 hm).2

theorem partition_perm (l : List Nat) (pv : Nat) :
    l.filter (fun el => decide (el < pv)) ++
      (l.filter (fun el => !(decide (el < pv)) && !(decide (pv < el))) ++
       l.filter (fun el => decide (pv < el))) ~ l := by
  rw [perm_iff_count]
  intro a
  simp only [count_append, count_filter_ite]
  by_cases h1 : a < pv
  · have h2 : ¬ pv < a := by omega
    simp [h1, h2]
  · by_cases h2 : pv < a
    · simp [h1, h2]
    · simp [h1, h2]

theorem sortN_partition (l : List Nat) (pv : Nat) :
    sortN l = sortN (l.filter (fun el => decide (el < pv))) ++
      (l.filter (fun el => !(decide (el < pv)) && !(decide (pv < el))) ++
       sortN (l.filter (fun el => decide (pv < el)))) := by
  apply sorted_unique (sortN_sorted l)
  · rw [pairwise_append]
    refine ⟨sortN_sorted _, ?_, ?_⟩
    · rw [pairwise_append]
      refine ⟨?_, sortN_sorted _, ?_⟩
      · apply pairwise_of_forall_mem_list
        intro a ha b hb
        have ha := (mem_filter.1 ha).2
        have hb := (mem_filter.1 hb).2
        simp only [Bool.and_eq_true, Bool.not_eq_true', decide_eq_false_iff_not] at ha hb
        omega
      · intro a ha b hb
        have ha := (mem_filter.1 ha).2
        have hb := (mem_filter.1 (mem_sortN.1 hb)).2
        simp only [Bool.and_eq_true, Bool.not_eq_true', decide_eq_false_iff_not, decide_eq_true_eq] at ha hb
        omega
    · intro a ha b hb
      have ha := (mem_filter.1 (mem_sortN.1 ha)).2
      simp only [decide_eq_true_eq] at ha
      rcases mem_append.1 hb with hb | hb
      · have hb := (mem_filter.1 hb).2
        simp only [Bool.and_eq_true, Bool.not_eq_true', decide_eq_false_iff_not] at hb
        omega
      · have hb := (mem_filter.1 (mem_sortN.1 hb)).2
        simp only [decide_eq_true_eq] at hb
        omega
  · refine (sortN_perm l).trans ((partition_perm l pv).symm.trans ?_)
    exact Perm.append (sortN_perm _).symm (Perm.append (Perm.refl _) (sortN_perm _).symm)

/-! ### in-place effects -/

theorem chunkSort_perm : ∀ l : List Nat, chunkSort l ~ l := by
  intro l
  induction l using chunkSort.induct with
  | case1 a b c d e rest ih =>
    simp only [chunkSort]
    exact Perm.append (sortN_perm [a, b, c, d, e]) ih
  | case2 l h =>
    unfold chunkSort
    split
    · rename_i a b c d e rest
      exact absurd rfl (h a b c d e rest)
    · exact Perm.refl _

theorem mutate_perm (l : List Nat) : mutate l ~ l := by
  unfold mutate
  split
  · exact sortN_perm l
  · exact chunkSort_perm l

theorem afterSelect_perm (l : List Nat) : afterSelect l ~ l := by
  unfold afterSelect
  split
  · exact Perm.refl _
  · exact mutate_perm l

theorem medians5_mem : ∀ (l : List Nat) (x : Nat), x ∈ medians5 l → x ∈ l := by
  intro l
  induction l using medians5.induct with
  | case1 a b c d e rest ih =>
    intro x hx
    simp only [medians5, mem_cons] at hx
    rcases hx with rfl | hx
    · have hlen : (sortN [a, b, c, d, e]).length = 5 := by rw [sortN_length]; rfl
      have hm : (sortN [a, b, c, d, e]).getD 2 0 ∈ sortN [a, b, c, d, e] := by
        rw [getD_eq_getElem?_getD, getElem?_eq_getElem (by omega)]
        exact getElem_mem _
      have := mem_sortN.1 hm
      exact (mem_append_left rest this : _ ∈ [a, b, c, d, e] ++ rest)
    · have := ih x hx
      simp only [mem_cons]
      exact Or.inr (Or.inr (Or.inr (Or.inr (Or.inr this))))
  | case2 l h =>
    intro x hx
    unfold medians5 at hx
    split at hx
    · rename_i a b c d e rest
      exact absurd rfl (h a b c d e rest)
    · simp at hx

theorem medians5_length : ∀ l : List Nat, (medians5 l).length = l.length / 5 := by
  intro l
  induction l using medians5.induct with
  | case1 a b c d e rest ih =>
    simp only [medians5, length_cons, ih]
    omega
  | case2 l h =>
    unfold medians5
    split
    · rename_i a b c d e rest
      exact absurd rfl (h a b c d e rest)
    · have : l.length < 5 := by
        match l, h with
        | [], _ => simp
        | [_], _ => simp
        | [_, _], _ => simp
        | [_, _, _], _ => simp
        | [_, _, _, _], _ => simp
        | a :: b :: c :: d :: e :: rest, h => exact absurd rfl (h a b c d e rest)
      simp only [length_nil]
      omega

end SigModel.Lemmas.C12
