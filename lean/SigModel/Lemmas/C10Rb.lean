/-
C10 recovery slice: the Oracle's shortcut for generated bulk loads is the model.
`ingestMany name ds st` = folding `step cap` over `ds.map (Op.ingest name · roll)` whenever the WAL buffer has
room for all of `ds` (so that no append is triggered on the way).
-/
import SigModel.Model.WalRecover

namespace SigModel.Lemmas.C10R
open SigModel.Wal (Dp)
open SigModel.WalRecover

theorem step_ingest_room (cap name : Nat) (roll : Bool) (d : Dp) (st : WState) (h : st.buf.length + 1 ≤ cap) :
    step cap st (.ingest name d roll) = ingestMany name [d] st := by
  have hlt : ¬ cap ≤ st.buf.length := by omega
  unfold step ingestMany
  by_cases hc : st.mNames.contains name = true
  · simp only [hc, if_true, hlt, if_false, List.length_cons, List.length_nil]
  · simp only [hc, if_false, hlt, List.length_cons, List.length_nil, Bool.false_eq_true]

theorem ingestMany_cons (name : Nat) (d : Dp) (ds : List Dp) (st : WState) :
    ingestMany name ds (ingestMany name [d] st) = ingestMany name (d :: ds) st := by
  unfold ingestMany
  by_cases hc : st.mNames.contains name = true
  · simp only [hc, if_true, List.append_assoc, List.cons_append, List.nil_append, List.length_cons, List.length_nil,
      Nat.add_assoc, Nat.add_comm 1]
  · have h2 : (st.mNames ++ [name]).contains name = true := by simp
    simp only [hc, if_false, h2, if_true, List.append_assoc, List.cons_append, List.nil_append, List.length_cons,
      List.length_nil, Bool.false_eq_true, Nat.add_assoc, Nat.add_comm 1]

theorem ingestMany_buf_length (name : Nat) (ds : List Dp) (st : WState) :
    (ingestMany name ds st).buf.length = st.buf.length + ds.length := by
  unfold ingestMany
  by_cases hc : st.mNames.contains name = true
  · simp only [hc, if_true, List.length_append]
  · simp only [hc, if_false, List.length_append, Bool.false_eq_true]

/-- the bulk shortcut used by the Oracle equals the step-by-step model -/
theorem ingestMany_eq_foldl (cap name : Nat) (roll : Bool) (ds : List Dp) (st : WState)
    (hne : ds ≠ []) (hroom : st.buf.length + ds.length ≤ cap) :
    (ds.map (fun d => Op.ingest name d roll)).foldl (step cap) st = ingestMany name ds st := by
  induction ds generalizing st with
  | nil => exact absurd rfl hne
  | cons d ds ih =>
    simp only [List.map_cons, List.foldl_cons]
    have h1 : st.buf.length + 1 ≤ cap := by simp only [List.length_cons] at hroom; omega
    rw [step_ingest_room cap name roll d st h1]
    cases ds with
    | nil => simp
    | cons d' ds' =>
      rw [ih (ingestMany name [d] st) (by simp)
        (by rw [ingestMany_buf_length]; simp only [List.length_cons, List.length_nil] at hroom ⊢; omega)]
      exact ingestMany_cons name d (d' :: ds') st

end SigModel.Lemmas.C10R
