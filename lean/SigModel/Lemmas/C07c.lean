/-
C07 helper lemmas, part 3: every cut of `resetSegStore`, of a buffer flush and of a rotation.
-/
import SigModel.Lemmas.C07b

namespace SigModel.Lemmas.C07
open SigModel.Crash

/-! ### opening a segment (`resetSegStore`) -/

/-- a change that leaves segmeta.json, the directories and all segment files alone and does not lower the suffix -/
theorem Frame.of_same {sl cur fs fs'} (F : Frame sl cur fs) (h1 : fs'.segmeta = fs.segmeta) (h2 : fs'.dirs = fs.dirs)
    (h3 : fs'.seg = fs.seg) (h4 : nextSuffix fs ≤ nextSuffix fs') : Frame sl cur fs' := by
  refine ⟨h1.trans F.segmeta_eq, h2 ▸ F.dirs_nodup, ?_, F.sealed_lt, ?_, ?_, ?_⟩
  · intro s hs; rw [h2] at hs; exact F.dirs_mem s hs
  · intro p hp; rw [h3]; exact F.sealed_ok p hp
  · intro s hs; rw [h2] at hs; rw [h3]; exact F.untouched s hs
  · intro s hs; rw [h2] at hs; exact Nat.lt_of_lt_of_le (F.suffix_ok s hs) h4

theorem good_preopen {sl n nf fs extra} (P : PreOpen sl n nf fs) : Good nf extra fs := by
  have ids : flat sl ++ [] = List.range nf := by simpa using P.ids
  exact good_a P.frame (fun h => P.not_in h.1) ids rfl

theorem preopen_1 {sl n nf fs} (P : PreOpen sl n nf fs) : PreOpen sl n nf (apply fs (.suffixTmp (n + 1))) := by
  refine ⟨P.frame.of_same rfl rfl rfl (Nat.le_refl _), P.not_in, P.next, P.ids⟩

/-- after the rename the suffix file already says n+1 while directory n does not exist yet -/
theorem frame_open_2 {sl n nf fs} (P : PreOpen sl n nf fs) :
    let fs2 := run fs [.suffixTmp (n + 1), .suffixRename]
    Frame sl n fs2 ∧ n ∉ fs2.dirs ∧ fs2.suffix = some (n + 1) := by
  have hn : nextSuffix fs = n := P.next
  refine ⟨?_, P.not_in, rfl⟩
  refine P.frame.of_same rfl rfl rfl ?_
  show nextSuffix fs ≤ n + 1
  omega

theorem inv_open {sl n nf fs} (P : PreOpen sl n nf fs) :
    Inv sl { cur := n, fls := [], nf := nf } (run fs (openSteps n)) := by
  have hrun : run fs (openSteps n) = { fs with suffix := some (n + 1), suffixTmp := none, dirs := n :: fs.dirs } := by
    simp [openSteps, run, apply, P.not_in]
  have F := P.frame
  have hlt : ∀ s ∈ fs.dirs, s < n := fun s hs => P.next ▸ F.suffix_ok s hs
  rw [hrun]
  refine ⟨⟨F.segmeta_eq, ?_, ?_, F.sealed_lt, F.sealed_ok, ?_, ?_⟩, List.mem_cons_self .., ?_, ?_, rfl, ?_⟩
  · exact List.nodup_cons.2 ⟨P.not_in, F.dirs_nodup⟩
  · intro s hs
    rcases List.mem_cons.1 hs with e | e
    · exact Or.inr e
    · exact F.dirs_mem s e
  · intro s hs
    exact F.untouched s (fun h => hs (List.mem_cons_of_mem _ h))
  · intro s hs
    show s < n + 1
    rcases List.mem_cons.1 hs with e | e
    · omega
    · have := hlt s e; omega
  · show SegOK (fs.seg n) []
    rw [F.untouched n P.not_in]; exact segOK_default
  · show (fs.seg n).sfm = _
    rw [F.untouched n P.not_in]; rfl
  · show flat sl ++ [] = List.range nf
    simpa using P.ids

/-- every proper cut of `openSteps n` -/
theorem open_prefix {sl n nf fs extra} (P : PreOpen sl n nf fs) (j : Nat) (hj : j < 3) :
    Good nf extra (run fs ((openSteps n).take j)) := by
  match j, hj with
  | 0, _ => exact good_preopen P
  | 1, _ => exact good_preopen (preopen_1 P)
  | 2, _ =>
    have ⟨F, hn, _⟩ := frame_open_2 P
    have ids : flat sl ++ [] = List.range nf := by simpa using P.ids
    exact good_a F (fun h => hn h.1) ids rfl

/-! ### a buffer flush -/

theorem flushSteps_onSeg (w : W) (ws : List Nat) : ∀ s ∈ flushSteps w ws, onSeg w.cur s = true := by
  intro s hs
  unfold flushSteps at hs
  rcases List.mem_append.1 hs with h | h
  · rcases List.mem_map.1 h with ⟨c, _, rfl⟩; simp [onSeg]
  · simp at h
    rcases h with rfl | rfl | rfl | rfl | rfl <;> simp [onSeg]

theorem flushSteps_length (w : W) (ws : List Nat) : (flushSteps w ws).length = ws.length + 5 := by
  simp [flushSteps]

theorem mem_take {α} {l : List α} {k : Nat} {x : α} (h : x ∈ l.take k) : x ∈ l :=
  List.mem_of_mem_take h

theorem inv_flush {sl w fs} (I : Inv sl w fs) (ws : List Nat) :
    Inv sl (next w (.fl ws)) (run fs (flushSteps w ws)) := by
  have S := sameBut_run (cur := w.cur) (flushSteps w ws) fs (flushSteps_onSeg w ws)
  have F := I.frame.sameBut S I.cur_in
  have hseg := run_seg (cur := w.cur) (flushSteps w ws) fs (flushSteps_onSeg w ws)
  have hst : (run fs (flushSteps w ws)).seg w.cur =
      { (fs.seg w.cur) with
          chunks := (fs.seg w.cur).chunks ++ ws.map (fun c => (w.nf, c)),
          bsu := (fs.seg w.cur).bsu ++ [(w.nf, ws)],
          sstTmp := none, sst := some (w.fls ++ [w.nf]), sfmTmp := none, sfm := .json (w.fls ++ [w.nf]) } := by
    rw [hseg]
    simp [flushSteps, List.foldl_append, chunks_fold, applySeg]
  refine ⟨F, S.dirs ▸ I.cur_in, ?_, ?_, S.suffix.trans I.suffix, ?_⟩
  · show SegOK ((run fs (flushSteps w ws)).seg w.cur) (w.fls ++ [w.nf])
    rw [hst]
    exact segOK_congr (segOK_bsu I.cur_ok w.nf ws) rfl rfl
  · show ((run fs (flushSteps w ws)).seg w.cur).sfm = _
    rw [hst]
    simp [next]
  · show flat sl ++ (w.fls ++ [w.nf]) = List.range (w.nf + 1)
    rw [← List.append_assoc, I.ids, List.range_succ]

/-- the running .sfm of the open segment parses iff the segment already has a block -/
theorem inv_parsable {sl w fs} (I : Inv sl w fs) : (fs.seg w.cur).sfm.parsable = true ↔ w.fls ≠ [] := by
  rw [I.cur_sfm]
  by_cases h : w.fls = [] <;> simp [h, Sfm.parsable]

/-- a restart right at a command boundary serves exactly the completed flushes -/
theorem good_inv {sl w fs extra} (I : Inv sl w fs) : Good w.nf extra fs := by
  by_cases h : w.fls = []
  · refine good_a I.frame (fun hh => ?_) I.ids h
    exact ((inv_parsable I).1 hh.2) h
  · exact good_b I.frame I.cur_in ((inv_parsable I).2 h) I.cur_ok I.ids (Or.inl rfl)
      ⟨w.fls, by rw [I.cur_sfm, if_neg h], fun _ hf => hf⟩

/-- every proper cut of a buffer flush -/
theorem flush_prefix {sl w fs} (I : Inv sl w fs) (ws : List Nat) (k : Nat) (hk : k < (flushSteps w ws).length) :
    Good w.nf (if 0 < k then some w.nf else none) (run fs ((flushSteps w ws).take k)) := by
  rw [flushSteps_length] at hk
  have hon : ∀ s ∈ (flushSteps w ws).take k, onSeg w.cur s = true :=
    fun s hs => flushSteps_onSeg w ws s (mem_take hs)
  have S := sameBut_run (cur := w.cur) _ fs hon
  have F := I.frame.sameBut S I.cur_in
  have hin : w.cur ∈ (run fs ((flushSteps w ws).take k)).dirs := S.dirs ▸ I.cur_in
  have hseg := run_seg (cur := w.cur) _ fs hon
  by_cases hkw : k ≤ ws.length
  · -- only column chunks of the new block so far
    have htake : (flushSteps w ws).take k = (ws.take k).map (fun c => Step.chunk w.cur w.nf c) := by
      unfold flushSteps
      rw [List.take_append, List.length_map, Nat.sub_eq_zero_of_le hkw, List.take_zero, List.append_nil, List.map_take]
    have hst : (run fs ((flushSteps w ws).take k)).seg w.cur =
        { (fs.seg w.cur) with chunks := (fs.seg w.cur).chunks ++ (ws.take k).map (fun c => (w.nf, c)) } := by
      rw [hseg, htake, chunks_fold]
    have hok : SegOK ((run fs ((flushSteps w ws).take k)).seg w.cur) w.fls := by
      rw [hst]; exact segOK_chunks I.cur_ok _
    have hsfm : ((run fs ((flushSteps w ws).take k)).seg w.cur).sfm = (fs.seg w.cur).sfm := by rw [hst]
    by_cases h : w.fls = []
    · refine good_a F (fun hh => ?_) I.ids h
      rw [hsfm] at hh
      exact ((inv_parsable I).1 hh.2) h
    · refine good_b F hin ?_ hok I.ids (Or.inl rfl) ⟨w.fls, by rw [hsfm, I.cur_sfm, if_neg h], fun _ hf => hf⟩
      rw [hsfm]; exact (inv_parsable I).2 h
  · -- all chunks written, j ∈ {1,2,3,4} of the five meta steps done: the block summary is there, the running
    -- .sfm still is the previous one (the new one exists at most as .sfm.tmp)
    have hj : ∃ j, k = ws.length + j ∧ 1 ≤ j ∧ j ≤ 4 := ⟨k - ws.length, by omega, by omega, by omega⟩
    rcases hj with ⟨j, rfl, hj1, hj4⟩
    have hpos : 0 < ws.length + j := by omega
    rw [if_pos hpos]
    have htake : (flushSteps w ws).take (ws.length + j) =
        ws.map (fun c => Step.chunk w.cur w.nf c) ++
          ([Step.bsu w.cur w.nf ws, .sstTmp w.cur (w.fls ++ [w.nf]), .sstRename w.cur, .sfmTmp w.cur (w.fls ++ [w.nf]),
            .sfmRename w.cur].take j) := by
      unfold flushSteps
      rw [List.take_append, List.length_map, List.take_of_length_le (by simp), Nat.add_sub_cancel_left]
    generalize hfs' : run fs ((flushSteps w ws).take (ws.length + j)) = fs' at F hin hseg ⊢
    have hst : SegOK (fs'.seg w.cur) (w.fls ++ [w.nf]) ∧ (fs'.seg w.cur).sfm = (fs.seg w.cur).sfm := by
      have hcases : j = 1 ∨ j = 2 ∨ j = 3 ∨ j = 4 := by omega
      rcases hcases with rfl | rfl | rfl | rfl
      all_goals
        simp only [List.take] at htake
        rw [htake] at hseg
        simp only [List.foldl_append, chunks_fold, List.foldl, applySeg] at hseg
        rw [hseg]
        exact ⟨segOK_congr (segOK_bsu I.cur_ok w.nf ws) rfl rfl, rfl⟩
    by_cases h : w.fls = []
    · refine good_a F (fun hh => ?_) I.ids h
      rw [hst.2] at hh
      exact ((inv_parsable I).1 hh.2) h
    · refine good_b F hin ?_ hst.1 I.ids (Or.inr ⟨rfl, rfl⟩) ⟨w.fls, by rw [hst.2, I.cur_sfm, if_neg h], fun _ hf => hf⟩
      rw [hst.2]; exact (inv_parsable I).2 h

end SigModel.Lemmas.C07
