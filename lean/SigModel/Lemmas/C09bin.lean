/-
Helper lemmas for C09 (binary operators between result vectors, Model/PromqlBin.lean).
-/
import SigModel.Model.PromqlBin

namespace SigModel.Lemmas.C09bin
open SigModel.PromqlBin
abbrev Str := SigModel.Promql.Str

theorem cutLabel_append (n p : Str) : cutLabel n (n ++ p) = p := by
  simp [cutLabel]

/-- labelPartOfGroupID (repair c09-25) returns the label part of an id that is the metric name followed by a label
part (empty, or beginning with '{'), whatever bytes the name and the rest of the part contain -/
theorem cutLabel?_append (n p : Str) (hp : partOK p) : cutLabel? n (n ++ p) = some p := by
  have hpre : n.isPrefixOf (n ++ p) = true := by
    rw [List.isPrefixOf_iff_prefix]; exact List.prefix_append n p
  have hdrop : (n ++ p).drop n.length = p := by simp
  unfold cutLabel?
  rw [hpre, hdrop]
  rcases hp with rfl | hp
  · simp
  · simp [hp]

theorem labelSetOf_append (n p : Str) (hp : partOK p) : labelSetOf n (n ++ p) = canonLabel p := by
  simp [labelSetOf, cutLabel?_append n p hp]

theorem hasId_iff (v : Vec) (id : Str) : hasId v id = true ↔ id ∈ v.map (·.1) := by
  simp only [hasId, lookupPts, Option.isSome_map, List.find?_isSome, List.mem_map]
  constructor
  · rintro ⟨e, he, h⟩
    exact ⟨e, he, by simpa using h⟩
  · rintro ⟨e, he, h⟩
    exact ⟨e, he, by simpa using h⟩

theorem map_fst_filterMap {α β : Type} (l : List (Str × α)) (c : Str → Bool) (g : Str × α → β) :
    (l.filterMap (fun e => if c e.1 then some (e.1, g e) else none)).map (·.1) = (l.map (·.1)).filter c := by
  induction l with
  | nil => rfl
  | cons e t ih =>
    cases h : c e.1 <;> simp [h, ih]

/-- the ids the left pass keeps -/
theorem outIds_leftPass (op : Op) (b : Bool) (l r : Res) :
    outIds (leftPass op b l r) =
      (vecIds l).filter (fun lid => hasId r.series (partnerId l.name (rKey r) lid) || op == .or || op == .unless) := by
  simp only [outIds, leftPass, vecIds]
  exact map_fst_filterMap l.series
    (fun lid => hasId r.series (partnerId l.name (rKey r) lid) || op == .or || op == .unless)
    (fun e => leftPts op b e.2 (lookupPts r.series (partnerId l.name (rKey r) e.1)))

/-- picking the smallest element of a list: some element of the list, `none` only for the empty list -/
theorem foldl_min_mem (xs : List Str) (acc : Option Str) :
    let res := xs.foldl (fun (acc : Option Str) rid => match acc with
      | none => some rid
      | some p => if strLe p rid then some p else some rid) acc
    (∀ y, res = some y → y ∈ xs ∨ acc = some y) ∧ (res = none → xs = [] ∧ acc = none) := by
  induction xs generalizing acc with
  | nil => simp
  | cons x t ih =>
    simp only [List.foldl_cons]
    cases acc with
    | none =>
      have := ih (some x)
      constructor
      · intro y hy
        rcases this.1 y hy with h | h
        · exact Or.inl (List.mem_cons_of_mem _ h)
        · exact Or.inl (by simp [Option.some.inj h])
      · intro hn
        have := this.2 hn
        simp at this
    | some p =>
      by_cases hp : strLe p x = true
      · simp only [hp, if_true]
        have := ih (some p)
        constructor
        · intro y hy
          rcases this.1 y hy with h | h
          · exact Or.inl (List.mem_cons_of_mem _ h)
          · exact Or.inr h
        · intro hn
          have := this.2 hn
          simp at this
      · simp only [hp]
        have := ih (some x)
        constructor
        · intro y hy
          rcases this.1 y hy with h | h
          · exact Or.inl (List.mem_cons_of_mem _ h)
          · exact Or.inl (by simp [Option.some.inj h])
        · intro hn
          have := this.2 hn
          simp at this

/-- a partner is a right id whose label part has the canonical form asked for -/
theorem partnerOf_some (r : Str × List Str) (c rid : Str) (h : partnerOf r c = some rid) :
    rid ∈ r.2 ∧ (cutLabel? r.1 rid).map canonLabel = some c := by
  unfold partnerOf at h
  have := (foldl_min_mem _ none).1 rid h
  rcases this with hm | hm
  · simp only [List.mem_filter, beq_iff_eq] at hm
    exact ⟨hm.1, hm.2⟩
  · cases hm

/-- … and there is one whenever some right id qualifies -/
theorem partnerOf_isSome (r : Str × List Str) (c rid : Str) (hm : rid ∈ r.2)
    (hc : (cutLabel? r.1 rid).map canonLabel = some c) : (partnerOf r c).isSome = true := by
  cases h : partnerOf r c with
  | some _ => rfl
  | none =>
    unfold partnerOf at h
    have := ((foldl_min_mem _ none).2 h).1
    have hmem : rid ∈ r.2.filter (fun rid => (cutLabel? r.1 rid).map canonLabel == some c) := by
      simp [List.mem_filter, hm, hc]
    rw [this] at hmem
    cases hmem

/-- arithmetic, comparison and `and` (no right id is the empty string): an id is in the answer iff it is a left id
with a label part and some right id has a label part with the same canonical form -/
theorem mem_binop_match (op : Op) (b : Bool) (l r : Res) (hop : op ≠ .or ∧ op ≠ .unless)
    (hne : ([] : Str) ∉ vecIds r) (id : Str) :
    id ∈ outIds (binop op b l r) ↔
      id ∈ vecIds l ∧ ∃ p, cutLabel? l.name id = some p ∧
        ∃ rid ∈ vecIds r, (cutLabel? r.name rid).map canonLabel = some (canonLabel p) := by
  have e : binop op b l r = leftPass op b l r := by
    cases op <;> simp_all [binop]
  rw [e, outIds_leftPass]
  simp only [List.mem_filter, Bool.or_eq_true, beq_iff_eq, hop.1, hop.2, or_false, hasId_iff]
  constructor
  · rintro ⟨hid, hp⟩
    refine ⟨hid, ?_⟩
    unfold partnerId at hp
    cases hc : cutLabel? l.name id with
    | none =>
      rw [hc] at hp
      exact absurd hp hne
    | some p =>
      rw [hc] at hp
      simp only at hp
      cases hpo : partnerOf (rKey r) (canonLabel p) with
      | none =>
        rw [hpo] at hp
        exact absurd hp hne
      | some rid =>
        have := partnerOf_some (rKey r) _ rid hpo
        exact ⟨p, rfl, rid, this.1, this.2⟩
  · rintro ⟨hid, p, hc, rid, hrm, hrc⟩
    refine ⟨hid, ?_⟩
    unfold partnerId
    rw [hc]
    simp only
    have hs := partnerOf_isSome (rKey r) _ rid hrm hrc
    cases hpo : partnerOf (rKey r) (canonLabel p) with
    | none => rw [hpo] at hs; cases hs
    | some rid' => exact (partnerOf_some (rKey r) _ rid' hpo).1

/-! ### per timestamp (repair c09-19) -/

theorem filterMap_if {α β : Type} (l : List α) (c : α → Bool) (g : α → β) :
    l.filterMap (fun a => if c a then some (g a) else none) = (l.filter c).map g := by
  induction l with
  | nil => rfl
  | cons a t ih => cases h : c a <;> simp [h, ih]

/-- `and` between a left series and its partner series: the left samples at the timestamps the partner has too -/
theorem leftPts_and (b : Bool) (pl rp : Pts) :
    leftPts .and b pl (some rp) =
      (pl.filter (fun p => (ptAt? rp p.1).isSome)).map (fun p => (p.1, Val.num (p.2 : Rat))) := by
  rw [← filterMap_if]
  simp only [leftPts, Option.bind_some]
  congr 1
  funext p
  cases h : ptAt? rp p.1 <;> simp [setFinal]

/-- `unless`: the left samples at the timestamps the partner does not have … -/
theorem leftPts_unless_some (b : Bool) (pl rp : Pts) :
    leftPts .unless b pl (some rp) =
      (pl.filter (fun p => (ptAt? rp p.1).isNone)).map (fun p => (p.1, Val.num (p.2 : Rat))) := by
  rw [← filterMap_if]
  simp only [leftPts, Option.bind_some]
  congr 1
  funext p
  cases h : ptAt? rp p.1 <;> simp [setFinal]

/-- … all of them when there is no partner series -/
theorem leftPts_unless_none (b : Bool) (pl : Pts) :
    leftPts .unless b pl none = pl.map (fun p => (p.1, Val.num (p.2 : Rat))) := by
  simp only [leftPts, Option.bind_none]
  induction pl with
  | nil => rfl
  | cons p t _ => simp [setFinal]

/-- arithmetic: a sample is written only at a timestamp that BOTH series have (never from a right value read as 0) -/
theorem leftPts_needs_both (op : Op) (b : Bool) (pl : Pts) (rp : Option Pts) (hop : op ≠ .or ∧ op ≠ .unless)
    (t : Nat) (v : Val) (h : (t, v) ∈ leftPts op b pl rp) :
    (∃ x, (t, x) ∈ pl) ∧ ∃ q, rp = some q ∧ (ptAt? q t).isSome := by
  simp only [leftPts, List.mem_filterMap] at h
  obtain ⟨⟨t', x⟩, hp, hf⟩ := h
  have h1 : (op == Op.or) = false := by simp [hop.1]
  have h2 : (op == Op.unless) = false := by simp [hop.2]
  simp only at hf
  cases hb : rp.bind (ptAt? · t') with
  | none => simp [hb, h1, h2] at hf
  | some y =>
    simp only [hb, h2, Bool.false_eq_true, if_false, Option.map_eq_some_iff] at hf
    obtain ⟨w, _, hw⟩ := hf
    have ht : t' = t := by simpa using congrArg Prod.fst hw
    subst ht
    refine ⟨⟨x, hp⟩, ?_⟩
    cases rp with
    | none => simp at hb
    | some q => exact ⟨q, rfl, by simp only [Option.bind_some] at hb; simp [hb]⟩

/-- `unless`: the entries of the answer are the left series with the samples that `leftPts` keeps, without those that keep none -/
theorem binop_unless_eq (b : Bool) (l r : Res) :
    binop .unless b l r = (leftPass .unless b l r).filter (fun e => !e.2.isEmpty) := rfl

/-- under well-formed right ids, the canonical label sets of the right vector are those of its label parts -/
theorem mem_rightLabelSets (r : Res) (hr : wellFormed r) (c : Str) :
    c ∈ rightLabelSets r ↔ ∃ q, r.name ++ q ∈ vecIds r ∧ partOK q ∧ canonLabel q = c := by
  simp only [rightLabelSets, List.mem_map, vecIds]
  constructor
  · rintro ⟨e, he, h⟩
    obtain ⟨q, hq, hok⟩ := hr e.1 (by simp only [vecIds, List.mem_map]; exact ⟨e, he, rfl⟩)
    exact ⟨q, ⟨e, he, hq⟩, hok, by rw [← h, hq, labelSetOf_append _ _ hok]⟩
  · rintro ⟨q, ⟨e, he, h⟩, hok, hc⟩
    exact ⟨e, he, by rw [h, labelSetOf_append _ _ hok, hc]⟩

end SigModel.Lemmas.C09bin
