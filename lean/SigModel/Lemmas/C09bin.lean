/-
Helper lemmas for C09 (binary operators between result vectors, Model/PromqlBin.lean).
-/
import SigModel.Model.PromqlBin

namespace SigModel.Lemmas.C09bin
open SigModel.PromqlBin
abbrev Str := SigModel.Promql.Str

theorem cutLabel_append (n p : Str) : cutLabel n (n ++ p) = p := by
  simp [cutLabel]

theorem partnerId_append (ln rn p : Str) : partnerId ln rn (ln ++ p) = rn ++ p := by
  simp [partnerId, cutLabel]

theorem hasId_iff (v : Vec) (id : Str) : hasId v id = true ↔ id ∈ v.map (·.1) := by
  simp only [hasId, lookupPts, Option.isSome_map, List.find?_isSome, List.mem_map]
  constructor
  · rintro ⟨e, he, h⟩
    exact ⟨e, he, by simpa using h⟩
  · rintro ⟨e, he, h⟩
    exact ⟨e, he, by simpa using h⟩

theorem map_fst_filterMap {α β : Type} (l : List (Str × α)) (c : Str → Bool) (g : Str × α → β) :
    (l.filterMap (fun e => if c e.1 then some (e.1, g e) else none)).map (·.1) = (l.map (·.1)).filter c := by
  induction l with
  | nil => rfl
  | cons e t ih =>
    cases h : c e.1 <;> simp [h, ih]

/-- the ids the left pass keeps -/
theorem outIds_leftPass (op : Op) (b : Bool) (l r : Res) :
    outIds (leftPass op b l r) =
      (vecIds l).filter (fun lid => hasId r.series (partnerId l.name r.name lid) || op == .or || op == .unless) := by
  simp only [outIds, leftPass, vecIds]
  exact map_fst_filterMap l.series
    (fun lid => hasId r.series (partnerId l.name r.name lid) || op == .or || op == .unless) _

/-- arithmetic, comparison and `and`: an id is in the answer iff it is a left id whose partner id is a right id -/
theorem mem_binop_match (op : Op) (b : Bool) (l r : Res) (hop : op ≠ .or ∧ op ≠ .unless) (id : Str) :
    id ∈ outIds (binop op b l r) ↔ id ∈ vecIds l ∧ partnerId l.name r.name id ∈ vecIds r := by
  have e : binop op b l r = leftPass op b l r := by
    cases op <;> simp_all [binop]
  rw [e, outIds_leftPass]
  simp only [List.mem_filter, Bool.or_eq_true, beq_iff_eq, hop.1, hop.2, or_false, hasId_iff, vecIds]

/-- `unless`: the left ids that the right pass does not delete -/
theorem mem_binop_unless (b : Bool) (l r : Res) (id : Str) :
    id ∈ outIds (binop .unless b l r) ↔ id ∈ vecIds l ∧ id ∉ unlessDeleted l r := by
  have e : outIds (binop .unless b l r) =
      (outIds (leftPass .unless b l r)).filter (fun i => !(unlessDeleted l r).contains i) := by
    simp only [binop, outIds, List.filter_map]
    rfl
  rw [e, outIds_leftPass]
  simp [List.mem_filter]

/-- under well-formed ids, `unless` deletes exactly the left ids whose partner exists -/
theorem mem_unlessDeleted (l r : Res) (hr : wellFormed r) (p : Str) :
    l.name ++ p ∈ unlessDeleted l r ↔ r.name ++ p ∈ vecIds r := by
  simp only [unlessDeleted, List.mem_map, vecIds]
  constructor
  · rintro ⟨e, he, h⟩
    have h' := List.append_cancel_left h
    obtain ⟨q, hq⟩ := hr e.1 (by simp only [vecIds, List.mem_map]; exact ⟨e, he, rfl⟩)
    rw [hq, cutLabel_append] at h'
    exact ⟨e, he, by rw [hq, h']⟩
  · rintro ⟨e, he, h⟩
    exact ⟨e, he, by rw [h, cutLabel_append]⟩

end SigModel.Lemmas.C09bin
