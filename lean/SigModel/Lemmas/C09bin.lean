/-
Helper lemmas for C09 (binary operators between result vectors, Model/PromqlBin.lean).
-/
import SigModel.Model.PromqlBin

namespace SigModel.Lemmas.C09bin
open SigModel.PromqlBin
abbrev Str := SigModel.Promql.Str

theorem cutLabel_append (n p : Str) : cutLabel n (n ++ p) = p := by
  simp [cutLabel]

theorem labelSetOf_append (n p : Str) : labelSetOf n (n ++ p) = canonLabel p := by
  simp [labelSetOf, cutLabel]

theorem hasId_iff (v : Vec) (id : Str) : hasId v id = true ↔ id ∈ v.map (·.1) := by
  simp only [hasId, lookupPts, Option.isSome_map, List.find?_isSome, List.mem_map]
  constructor
  · rintro ⟨e, he, h⟩
    exact ⟨e, he, by simpa using h⟩
  · rintro ⟨e, he, h⟩
    exact ⟨e, he, by simpa using h⟩

theorem map_fst_filterMap {α β : Type} (l : List (Str × α)) (c : Str → Bool) (g : Str × α → β) :
    (l.filterMap (fun e => if c e.1 then some (e.1, g e) else none)).map (·.1) = (l.map (·.1)).filter c := by
  induction l with
  | nil => rfl
  | cons e t ih =>
    cases h : c e.1 <;> simp [h, ih]

/-- the ids the left pass keeps -/
theorem outIds_leftPass (op : Op) (b : Bool) (l r : Res) :
    outIds (leftPass op b l r) =
      (vecIds l).filter (fun lid => hasId r.series (partnerId l.name (rKey r) lid) || op == .or || op == .unless) := by
  simp only [outIds, leftPass, vecIds]
  exact map_fst_filterMap l.series
    (fun lid => hasId r.series (partnerId l.name (rKey r) lid) || op == .or || op == .unless) _

/-- picking the smallest element of a list: some element of the list, `none` only for the empty list -/
theorem foldl_min_mem (xs : List Str) (acc : Option Str) :
    let res := xs.foldl (fun (acc : Option Str) rid => match acc with
      | none => some rid
      | some p => if strLe p rid then some p else some rid) acc
    (∀ y, res = some y → y ∈ xs ∨ acc = some y) ∧ (res = none → xs = [] ∧ acc = none) := by
  induction xs generalizing acc with
  | nil => simp
  | cons x t ih =>
    simp only [List.foldl_cons]
    cases acc with
    | none =>
      have := ih (some x)
      constructor
      · intro y hy
        rcases this.1 y hy with h | h
        · exact Or.inl (List.mem_cons_of_mem _ h)
        · exact Or.inl (by simp [Option.some.inj h])
      · intro hn
        have := this.2 hn
        simp at this
    | some p =>
      by_cases hp : strLe p x = true
      · simp only [hp, if_true]
        have := ih (some p)
        constructor
        · intro y hy
          rcases this.1 y hy with h | h
          · exact Or.inl (List.mem_cons_of_mem _ h)
          · exact Or.inr h
        · intro hn
          have := this.2 hn
          simp at this
      · simp only [hp]
        have := ih (some x)
        constructor
        · intro y hy
          rcases this.1 y hy with h | h
          · exact Or.inl (List.mem_cons_of_mem _ h)
          · exact Or.inl (by simp [Option.some.inj h])
        · intro hn
          have := this.2 hn
          simp at this

/-- a partner is a right id, long enough, whose label part has the canonical form asked for -/
theorem partnerOf_some (r : Str × List Str) (c rid : Str) (h : partnerOf r c = some rid) :
    rid ∈ r.2 ∧ rid.length ≥ r.1.length ∧ canonLabel (cutLabel r.1 rid) = c := by
  unfold partnerOf at h
  have := (foldl_min_mem _ none).1 rid h
  rcases this with hm | hm
  · simp only [List.mem_filter, Bool.and_eq_true, decide_eq_true_eq, beq_iff_eq] at hm
    exact ⟨hm.1, hm.2.1, hm.2.2⟩
  · cases hm

/-- … and there is one whenever some right id qualifies -/
theorem partnerOf_isSome (r : Str × List Str) (c rid : Str) (hm : rid ∈ r.2) (hl : rid.length ≥ r.1.length)
    (hc : canonLabel (cutLabel r.1 rid) = c) : (partnerOf r c).isSome = true := by
  cases h : partnerOf r c with
  | some _ => rfl
  | none =>
    unfold partnerOf at h
    have := ((foldl_min_mem _ none).2 h).1
    have hmem : rid ∈ r.2.filter (fun rid => decide (rid.length ≥ r.1.length) && canonLabel (cutLabel r.1 rid) == c) := by
      simp [List.mem_filter, hm, hl, hc]
    rw [this] at hmem
    cases hmem

/-- arithmetic, comparison and `and` (no right id is the empty string): an id is in the answer iff it is a left id,
long enough, and some right id (long enough) has a label part with the same canonical form -/
theorem mem_binop_match (op : Op) (b : Bool) (l r : Res) (hop : op ≠ .or ∧ op ≠ .unless)
    (hne : ([] : Str) ∉ vecIds r) (id : Str) :
    id ∈ outIds (binop op b l r) ↔
      id ∈ vecIds l ∧ id.length ≥ l.name.length ∧
        ∃ rid ∈ vecIds r, rid.length ≥ r.name.length ∧ canonLabel (cutLabel r.name rid) = canonLabel (cutLabel l.name id) := by
  have e : binop op b l r = leftPass op b l r := by
    cases op <;> simp_all [binop]
  rw [e, outIds_leftPass]
  simp only [List.mem_filter, Bool.or_eq_true, beq_iff_eq, hop.1, hop.2, or_false, hasId_iff]
  constructor
  · rintro ⟨hid, hp⟩
    refine ⟨hid, ?_⟩
    unfold partnerId at hp
    by_cases hl : id.length ≥ l.name.length
    · simp only [hl, if_true] at hp
      cases hpo : partnerOf (rKey r) (canonLabel (cutLabel l.name id)) with
      | none =>
        rw [hpo] at hp
        exact absurd hp hne
      | some rid =>
        have := partnerOf_some (rKey r) _ rid hpo
        exact ⟨hl, rid, this.1, this.2.1, this.2.2⟩
    · simp only [hl, if_false] at hp
      exact absurd hp hne
  · rintro ⟨hid, hl, rid, hrm, hrl, hc⟩
    refine ⟨hid, ?_⟩
    unfold partnerId
    simp only [hl, if_true]
    have hs := partnerOf_isSome (rKey r) _ rid hrm hrl hc
    cases hpo : partnerOf (rKey r) (canonLabel (cutLabel l.name id)) with
    | none => rw [hpo] at hs; cases hs
    | some rid' => exact (partnerOf_some (rKey r) _ rid' hpo).1

/-- `unless`: the left ids whose canonical label set no right id has -/
theorem mem_binop_unless (b : Bool) (l r : Res) (id : Str) :
    id ∈ outIds (binop .unless b l r) ↔ id ∈ vecIds l ∧ labelSetOf l.name id ∉ rightLabelSets r := by
  have e : outIds (binop .unless b l r) =
      (outIds (leftPass .unless b l r)).filter (fun i => !(rightLabelSets r).contains (labelSetOf l.name i)) := by
    simp only [binop, outIds, List.filter_map]
    rfl
  rw [e, outIds_leftPass]
  simp [List.mem_filter]

/-- under well-formed right ids, the canonical label sets of the right vector are those of its label parts -/
theorem mem_rightLabelSets (r : Res) (hr : wellFormed r) (c : Str) :
    c ∈ rightLabelSets r ↔ ∃ q, r.name ++ q ∈ vecIds r ∧ canonLabel q = c := by
  simp only [rightLabelSets, List.mem_map, vecIds]
  constructor
  · rintro ⟨e, he, h⟩
    obtain ⟨q, hq⟩ := hr e.1 (by simp only [vecIds, List.mem_map]; exact ⟨e, he, rfl⟩)
    exact ⟨q, ⟨e, he, hq⟩, by rw [← h, hq, labelSetOf_append]⟩
  · rintro ⟨q, ⟨e, he, h⟩, hc⟩
    exact ⟨e, he, by rw [h, labelSetOf_append, hc]⟩

end SigModel.Lemmas.C09bin
