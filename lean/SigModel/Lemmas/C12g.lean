/- C12 helper lemmas, part g: the end-to-end model (ingest loop, result paging, collected span map). Core Lean only. -/
import SigModel.Model.TraceE2E
import SigModel.Lemmas.C12a

namespace SigModel.Lemmas.C12
open SigModel.Trace SigModel.TraceE2E List

/-! ### ProcessTraceIngest -/

theorem ingestSpan_service (svc : String) (st : IngState) (sp : OSpan) : (ingestSpan svc st sp).service = st.service := by
  unfold ingestSpan; split <;> rfl

theorem ingestSpan_docs (svc : String) (st : IngState) (sp : OSpan) :
    (ingestSpan svc st sp).docs = st.docs ++ (spanToJson sp svc).toList := by
  unfold ingestSpan
  split <;> rename_i h <;> simp [h]

theorem ingestSpan_counts (svc : String) (st : IngState) (sp : OSpan) :
    (ingestSpan svc st sp).numSpans = st.numSpans ∧
    (ingestSpan svc st sp).numFailed + (ingestSpan svc st sp).docs.length = st.numFailed + st.docs.length + 1 := by
  unfold ingestSpan
  split <;> simp <;> omega

theorem foldl_ingestSpan (svc : String) : ∀ (sc : List OSpan) (st : IngState),
    (sc.foldl (ingestSpan svc) st).docs = st.docs ++ sc.filterMap (fun sp => spanToJson sp svc) ∧
    (sc.foldl (ingestSpan svc) st).service = st.service ∧
    (sc.foldl (ingestSpan svc) st).numSpans = st.numSpans ∧
    (sc.foldl (ingestSpan svc) st).numFailed + (sc.foldl (ingestSpan svc) st).docs.length
      = st.numFailed + st.docs.length + sc.length := by
  intro sc
  induction sc with
  | nil => intro st; simp
  | cons sp sc ih =>
    intro st
    obtain ⟨h1, h2, h3, h4⟩ := ih (ingestSpan svc st sp)
    obtain ⟨c1, c2⟩ := ingestSpan_counts svc st sp
    refine ⟨?_, ?_, ?_, ?_⟩
    · rw [foldl_cons, h1, ingestSpan_docs, filterMap_cons]
      cases spanToJson sp svc <;> simp
    · rw [foldl_cons, h2, ingestSpan_service]
    · rw [foldl_cons, h3, c1]
    · rw [foldl_cons, h4, c2, length_cons]; omega

theorem ingestScope_facts (st : IngState) (sc : List OSpan) :
    (ingestScope st sc).docs = st.docs ++ sc.filterMap (fun sp => spanToJson sp st.service) ∧
    (ingestScope st sc).service = st.service ∧
    (ingestScope st sc).numSpans = st.numSpans + sc.length ∧
    (ingestScope st sc).numFailed + (ingestScope st sc).docs.length = st.numFailed + st.docs.length + sc.length := by
  unfold ingestScope
  obtain ⟨h1, h2, h3, h4⟩ := foldl_ingestSpan st.service sc { st with numSpans := st.numSpans + sc.length }
  exact ⟨h1, h2, h3, h4⟩

theorem foldl_ingestScope : ∀ (scs : List (List OSpan)) (st : IngState),
    (scs.foldl ingestScope st).docs = st.docs ++ (scs.flatMap id).filterMap (fun sp => spanToJson sp st.service) ∧
    (scs.foldl ingestScope st).service = st.service ∧
    (scs.foldl ingestScope st).numSpans = st.numSpans + (scs.flatMap id).length ∧
    (scs.foldl ingestScope st).numFailed + (scs.foldl ingestScope st).docs.length
      = st.numFailed + st.docs.length + (scs.flatMap id).length := by
  intro scs
  induction scs with
  | nil => intro st; simp
  | cons sc scs ih =>
    intro st
    obtain ⟨h1, h2, h3, h4⟩ := ih (ingestScope st sc)
    obtain ⟨s1, s2, s3, s4⟩ := ingestScope_facts st sc
    refine ⟨?_, ?_, ?_, ?_⟩
    · rw [foldl_cons, h1, s1, s2, flatMap_cons, filterMap_append, append_assoc]; rfl
    · rw [foldl_cons, h2, s2]
    · rw [foldl_cons, h3, s3, flatMap_cons, length_append]; simp only [id]; omega
    · rw [foldl_cons, h4, s4, flatMap_cons, length_append]; simp only [id]; omega

/-- the state with which the spans of resource `r` are ingested has `service = serviceOfRes r`, whatever the
incoming value of the variable was -/
theorem ingestRes_facts (st : IngState) (r : ResSpans) :
    (ingestRes st r).docs = st.docs ++ docsOfRes r ∧
    (ingestRes st r).numSpans = st.numSpans + (r.scopes.flatMap id).length ∧
    (ingestRes st r).numFailed + (ingestRes st r).docs.length = st.numFailed + st.docs.length + (r.scopes.flatMap id).length := by
  unfold ingestRes docsOfRes serviceOfRes
  cases hres : r.res with
  | none =>
    obtain ⟨h1, _, h3, h4⟩ := foldl_ingestScope r.scopes { st with service := "" }
    exact ⟨h1, h3, h4⟩
  | some attrs =>
    obtain ⟨h1, _, h3, h4⟩ := foldl_ingestScope r.scopes { { st with service := "" } with service := findService attrs "" }
    exact ⟨h1, h3, h4⟩

theorem foldl_ingestRes : ∀ (rs : List ResSpans) (st : IngState),
    (rs.foldl ingestRes st).docs = st.docs ++ rs.flatMap docsOfRes ∧
    (rs.foldl ingestRes st).numSpans = st.numSpans + (rs.flatMap (fun r => r.scopes.flatMap id)).length ∧
    (rs.foldl ingestRes st).numFailed + (rs.foldl ingestRes st).docs.length
      = st.numFailed + st.docs.length + (rs.flatMap (fun r => r.scopes.flatMap id)).length := by
  intro rs
  induction rs with
  | nil => intro st; simp
  | cons r rs ih =>
    intro st
    obtain ⟨h1, h2, h3⟩ := ih (ingestRes st r)
    obtain ⟨r1, r2, r3⟩ := ingestRes_facts st r
    refine ⟨?_, ?_, ?_⟩
    · rw [foldl_cons, h1, r1, flatMap_cons, append_assoc]
    · rw [foldl_cons, h2, r2, flatMap_cons, length_append]; omega
    · rw [foldl_cons, h3, r3, flatMap_cons, length_append]; omega

/-! ### spanToJson: which documents keep the fixed fields -/

theorem getKV_setKV_ne {β : Type} (m : List (String × β)) (k k' : String) (v : β) (h : k' ≠ k) :
    getKV (setKV m k' v) k = getKV m k := by
  induction m with
  | nil => simp [setKV, getKV, h]
  | cons kv m ih =>
    obtain ⟨a, b⟩ := kv
    simp only [setKV]
    split
    · rename_i hak
      have : a = k' := by simpa using hak
      subst this
      simp [getKV, h]
    · simp only [getKV]
      split
      · rfl
      · exact ih

/-- attributes whose keys differ from `k` leave field `k` of the document alone -/
theorem foldlM_setKV_keeps (k : String) : ∀ (attrs : List (String × AVal)) (m d : List (String × JVal)),
    (∀ kv ∈ attrs, kv.1 ≠ k) →
    attrs.foldlM (fun m kv => (attrVal kv.2).map (setKV m kv.1)) m = some d → getKV d k = getKV m k := by
  intro attrs
  induction attrs with
  | nil =>
    intro m d _ h
    simp only [foldlM_nil] at h
    cases h
    rfl
  | cons kv attrs ih =>
    intro m d hk h
    rw [foldlM_cons] at h
    cases hv : attrVal kv.2 with
    | none => simp [hv] at h
    | some j =>
      simp only [hv, Option.map_some, Option.bind_eq_bind, Option.bind_some] at h
      rw [ih (setKV m kv.1 j) d (fun x hx => hk x (mem_cons_of_mem _ hx)) h]
      exact getKV_setKV_ne m k kv.1 j (hk kv mem_cons_self)

/-! ### result paging -/

/-- both paging loops, run with stride = size = P > 0 and enough fuel, fold the step function over ALL records
of the result list, whatever the page size and whether or not a short page ends the loop -/
theorem pageLoop_from {σ ρ : Type} (step : σ → ρ → σ) (P : Nat) (hP : 0 < P) (stopShort : Bool) (recs : List ρ) :
    ∀ (fuel from_ : Nat) (st : σ), recs.length - from_ < fuel →
      pageLoop step P P stopShort recs fuel from_ st = (recs.drop from_).foldl step st := by
  intro fuel
  induction fuel with
  | zero => intro from_ st h; omega
  | succ fuel ih =>
    intro from_ st h
    unfold pageLoop
    simp only []
    by_cases hemp : ((recs.drop from_).take P).isEmpty = true
    · rw [if_pos hemp]
      have : recs.drop from_ = [] := by
        cases hd : recs.drop from_ with
        | nil => rfl
        | cons a l =>
          rw [hd] at hemp
          cases P with
          | zero => omega
          | succ n => simp at hemp
      rw [this]; rfl
    · rw [if_neg hemp]
      have hne : recs.drop from_ ≠ [] := by
        intro h0; rw [h0] at hemp; simp at hemp
      have hlen : 0 < (recs.drop from_).length := length_pos_iff.2 hne
      rw [length_drop] at hlen
      by_cases hshort : (stopShort && decide (((recs.drop from_).take P).length < P)) = true
      · rw [if_pos hshort]
        have h2 : ((recs.drop from_).take P).length < P := by
          have := Bool.and_eq_true_iff.1 hshort
          exact of_decide_eq_true this.2
        rw [length_take] at h2
        have h3 : (recs.drop from_).length ≤ P := by omega
        rw [take_of_length_le h3]
      · rw [if_neg hshort]
        rw [ih (from_ + P) _ (by omega)]
        rw [← foldl_append]
        congr 1
        rw [← drop_drop]
        exact take_append_drop P (recs.drop from_)

theorem pageLoop_all {σ ρ : Type} (step : σ → ρ → σ) (P : Nat) (hP : 0 < P) (stopShort : Bool) (recs : List ρ) (st : σ) :
    pageLoop step P P stopShort recs (recs.length + 1) 0 st = recs.foldl step st := by
  rw [pageLoop_from step P hP stopShort recs (recs.length + 1) 0 st (by omega)]
  rfl

theorem foldl_snoc {ρ : Type} : ∀ (recs init : List ρ), recs.foldl (fun acc r => acc ++ [r]) init = init ++ recs := by
  intro recs
  induction recs with
  | nil => intro init; simp
  | cons r recs ih => intro init; rw [foldl_cons, ih]; simp

/-! ### the span map ProcessGanttChartRequest collects -/

/-- a record that passes every check of the loop body -/
def complete (r : Rec) : Bool :=
  !poison r && r.svc.isSome && r.name.isSome && r.pid.isSome && r.status.isSome

theorem mem_keys_setKV {β : Type} (m : List (String × β)) (k : String) (v : β) (x : String) :
    x ∈ (setKV m k v).map (·.1) ↔ x = k ∨ x ∈ m.map (·.1) := by
  induction m with
  | nil => simp [setKV]
  | cons kv m ih =>
    obtain ⟨a, b⟩ := kv
    simp only [setKV]
    split
    · rename_i hak
      have : a = k := by simpa using hak
      subst this
      simp
    · simp only [map_cons, mem_cons, ih]
      constructor
      · rintro (h | h | h)
        · exact Or.inr (Or.inl h)
        · exact Or.inl h
        · exact Or.inr (Or.inr h)
      · rintro (h | h | h)
        · exact Or.inr (Or.inl h)
        · exact Or.inl h
        · exact Or.inr (Or.inr h)

theorem nodup_keys_setKV {β : Type} (m : List (String × β)) (k : String) (v : β) (h : (m.map (·.1)).Nodup) :
    ((setKV m k v).map (·.1)).Nodup := by
  induction m with
  | nil => simp [setKV]
  | cons kv m ih =>
    obtain ⟨a, b⟩ := kv
    simp only [map_cons, nodup_cons] at h
    simp only [setKV]
    split
    · rename_i hak
      have : a = k := by simpa using hak
      subst this
      simp only [map_cons, nodup_cons]
      exact h
    · rename_i hak
      have hne : a ≠ k := by simpa using hak
      simp only [map_cons, nodup_cons]
      refine ⟨?_, ih h.2⟩
      rw [mem_keys_setKV]
      rintro (h1 | h1)
      · exact hne h1
      · exact h.1 h1

theorem gStep_spans_keys (st : GState) (r : Rec) (x : String) :
    x ∈ (gStep st r).spans.map (·.1) ↔ (complete r = true ∧ x = r.sid) ∨ x ∈ st.spans.map (·.1) := by
  unfold gStep complete
  by_cases hp : poison r = true
  · simp [hp]
  · simp only [hp, Bool.false_eq_true, if_false]
    cases hs : r.svc <;> cases hn : r.name <;> cases hpi : r.pid <;> cases hst : r.status <;>
      simp [mem_keys_setKV]

theorem gStep_spans_nodup (st : GState) (r : Rec) (h : (st.spans.map (·.1)).Nodup) :
    ((gStep st r).spans.map (·.1)).Nodup := by
  unfold gStep
  split
  · exact h
  · split
    · split
      · exact h
      · exact nodup_keys_setKV _ _ _ h
    · exact h

theorem foldl_gStep_keys : ∀ (recs : List Rec) (st : GState) (x : String),
    x ∈ (recs.foldl gStep st).spans.map (·.1) ↔ (∃ r ∈ recs, complete r = true ∧ r.sid = x) ∨ x ∈ st.spans.map (·.1) := by
  intro recs
  induction recs with
  | nil => intro st x; simp
  | cons r recs ih =>
    intro st x
    rw [foldl_cons, ih, gStep_spans_keys]
    constructor
    · rintro (⟨q, hq, hc, hx⟩ | ⟨hc, hx⟩ | h)
      · exact Or.inl ⟨q, mem_cons_of_mem _ hq, hc, hx⟩
      · exact Or.inl ⟨r, mem_cons_self, hc, hx.symm⟩
      · exact Or.inr h
    · rintro (⟨q, hq, hc, hx⟩ | h)
      · rcases mem_cons.1 hq with rfl | hq
        · exact Or.inr (Or.inl ⟨hc, hx.symm⟩)
        · exact Or.inl ⟨q, hq, hc, hx⟩
      · exact Or.inr (Or.inr h)

theorem foldl_gStep_nodup : ∀ (recs : List Rec) (st : GState), (st.spans.map (·.1)).Nodup →
    ((recs.foldl gStep st).spans.map (·.1)).Nodup := by
  intro recs
  induction recs with
  | nil => intro st h; exact h
  | cons r recs ih => intro st h; rw [foldl_cons]; exact ih _ (gStep_spans_nodup st r h)

/-! ### the trace listing -/

theorem searchRowOld_trace {recs : List Rec} {t : String} {row : TraceRow} (h : searchRowOld recs t = .ok (some row)) :
    row.trace = t := by
  unfold searchRowOld at h
  simp only [] at h
  split at h
  · cases h
  · split at h
    · split at h
      · cases h
      · split at h
        · simp only [Except.ok.injEq, Option.some.injEq] at h
          rw [← h]
        · cases h
    · cases h

theorem searchRow_trace {recs : List Rec} {t : String} {row : TraceRow} (h : searchRow recs t = some row) :
    row.trace = t := by
  unfold searchRow at h
  split at h
  · rename_i r hr
    subst h
    exact searchRowOld_trace hr
  · cases h

theorem filterMap_searchRow_sound (recs : List Rec) : ∀ (ids : List String),
    ((ids.filterMap (searchRow recs)).map (·.trace)) <+ ids ∧
    ∀ row ∈ ids.filterMap (searchRow recs), searchRow recs row.trace = some row := by
  intro ids
  induction ids with
  | nil => simp
  | cons t ts ih =>
    obtain ⟨h1, h2⟩ := ih
    cases hrow : searchRow recs t with
    | none =>
      rw [filterMap_cons_none hrow]
      exact ⟨Sublist.cons _ h1, h2⟩
    | some row =>
      rw [filterMap_cons_some hrow]
      have ht := searchRow_trace hrow
      refine ⟨?_, ?_⟩
      · rw [map_cons, ht]; exact Sublist.cons_cons _ h1
      · intro r hr
        rcases mem_cons.1 hr with rfl | hr
        · rw [ht]; exact hrow
        · exact h2 r hr

theorem traceIds_nodup (recs : List Rec) : (traceIds recs).Nodup := uniq_nodup _

theorem mem_traceIds {recs : List Rec} {t : String} : t ∈ traceIds recs ↔ ∃ r ∈ recs, r.trace = t := by
  unfold traceIds sortedDistinct
  rw [mem_uniq, mem_isort, mem_map]

/-- consecutive pieces of `n` elements, `k` of them, are the whole list when `n * k` reaches its length -/
theorem chunks_flatten {α : Type} (n : Nat) : ∀ (k : Nat) (l : List α), l.length ≤ n * k →
    (List.range k).flatMap (fun i => (l.drop (i * n)).take n) = l := by
  intro k
  induction k with
  | zero =>
    intro l h
    have : l = [] := by
      cases l with
      | nil => rfl
      | cons a t => simp at h
    subst this
    simp
  | succ k ih =>
    intro l h
    rw [range_succ_eq_map, flatMap_cons, flatMap_map]
    have e : (fun i => (l.drop ((i + 1) * n)).take n) = (fun i => ((l.drop n).drop (i * n)).take n) := by
      funext i
      rw [drop_drop]
      congr 2
      rw [Nat.add_mul]; omega
    simp only [Nat.zero_mul, drop_zero]
    rw [e, ih (l.drop n) (by rw [length_drop]; rw [Nat.mul_succ] at h; omega)]
    exact take_append_drop n l

/-! ### setKV / getKV -/

theorem getKV_setKV_self {β : Type} (m : List (String × β)) (k : String) (v : β) : getKV (setKV m k v) k = some v := by
  induction m with
  | nil => simp [setKV, getKV]
  | cons kv m ih =>
    obtain ⟨a, b⟩ := kv
    simp only [setKV]
    split
    · simp [getKV]
    · rename_i h
      simp only [getKV, h]
      exact ih

/-- writing the fields of `d` (distinct keys) over `m`: a key of `d` reads the value `d` gives it -/
theorem getKV_setAll (d : List (String × JVal)) : ∀ (m : List (String × JVal)) (k : String),
    (d.map (·.1)).Nodup → k ∈ d.map (·.1) → getKV (setAll m d) k = getKV d k := by
  induction d with
  | nil => intro m k _ hk; cases hk
  | cons kv d ih =>
    intro m k hnd hk
    obtain ⟨a, b⟩ := kv
    simp only [map_cons, nodup_cons] at hnd
    simp only [setAll, foldl_cons] at ih ⊢
    by_cases hak : a = k
    · subst hak
      -- the later fields do not touch key a
      have keep : ∀ (d' : List (String × JVal)) (m' : List (String × JVal)), a ∉ d'.map (·.1) →
          getKV (d'.foldl (fun m kv => setKV m kv.1 kv.2) m') a = getKV m' a := by
        intro d'
        induction d' with
        | nil => intro m' _; rfl
        | cons kv' d' ih' =>
          intro m' hna
          simp only [map_cons, mem_cons, not_or] at hna
          rw [foldl_cons, ih' _ hna.2]
          exact getKV_setKV_ne m' a kv'.1 kv'.2 (fun h => hna.1 h.symm)
      rw [keep d _ hnd.1, getKV_setKV_self]
      simp [getKV]
    · have hk' : k ∈ d.map (·.1) := by
        rcases mem_cons.1 hk with h | h
        · exact absurd h.symm hak
        · exact h
      rw [ih (setKV m a b) k hnd.2 hk']
      simp [getKV, hak]

/-! ### the rank encoding of id strings -/

theorem mem_sortedDistinct {l : List String} {x : String} : x ∈ sortedDistinct l ↔ x ∈ l := by
  unfold sortedDistinct
  rw [mem_uniq, mem_isort]

theorem sortedDistinct_nodup (l : List String) : (sortedDistinct l).Nodup := uniq_nodup _

/-- `decode` is a left inverse of `code` on "" and on the members of a table that does not contain "" -/
theorem decode_code (tbl : List String) (_h0 : "" ∉ tbl) (s : String) (hs : s = "" ∨ s ∈ tbl) :
    decode tbl (code tbl s) = s := by
  unfold code decode
  by_cases he : s = ""
  · subst he; simp
  · have hm : s ∈ tbl := hs.resolve_left he
    have hlt : tbl.idxOf s < tbl.length := idxOf_lt_length_iff.2 hm
    simp only [beq_iff_eq, he, if_false, Nat.add_one_ne_zero, Nat.add_sub_cancel]
    rw [getD_eq_getElem?_getD, getElem?_eq_getElem hlt]
    simp

theorem code_injective (tbl : List String) (h0 : "" ∉ tbl) (a b : String) (ha : a = "" ∨ a ∈ tbl) (hb : b = "" ∨ b ∈ tbl)
    (h : code tbl a = code tbl b) : a = b := by
  rw [← decode_code tbl h0 a ha, ← decode_code tbl h0 b hb, h]

theorem gTable_no_empty (st : GState) : "" ∉ gTable st := by
  unfold gTable
  rw [mem_sortedDistinct, mem_filter]
  simp

theorem key_in_gTable (st : GState) (kv : String × Rec) (h : kv ∈ st.spans) : kv.1 = "" ∨ kv.1 ∈ gTable st := by
  by_cases he : kv.1 = ""
  · exact Or.inl he
  · refine Or.inr ?_
    unfold gTable
    rw [mem_sortedDistinct, mem_filter]
    refine ⟨mem_append_left _ (mem_map.2 ⟨kv, h, rfl⟩), ?_⟩
    simpa using he

theorem nodup_map_inj_on {α β : Type} (f : α → β) : ∀ (l : List α), l.Nodup →
    (∀ a ∈ l, ∀ b ∈ l, f a = f b → a = b) → (l.map f).Nodup
  | [], _, _ => by simp
  | x :: l, h, hinj => by
    simp only [map_cons, nodup_cons] at h ⊢
    refine ⟨?_, nodup_map_inj_on f l h.2 (fun a ha b hb => hinj a (mem_cons_of_mem _ ha) b (mem_cons_of_mem _ hb))⟩
    intro hm
    obtain ⟨y, hy, hc⟩ := mem_map.1 hm
    have := hinj y (mem_cons_of_mem _ hy) x mem_cons_self hc
    exact h.1 (this ▸ hy)

/-- distinct keys of `idToSpanMap` stay distinct span ids of the kernel span list -/
theorem gSpans_ids_nodup (st : GState) (h : (st.spans.map (·.1)).Nodup) : ((gSpans st).map (·.id)).Nodup := by
  have e : (gSpans st).map (·.id) = (st.spans.map (·.1)).map (code (gTable st)) := by
    unfold gSpans
    simp only [map_map]
    apply map_congr_left; intro kv _; rfl
  rw [e]
  apply nodup_map_inj_on _ _ h
  intro a ha b hb hc
  obtain ⟨ka, hka, rfl⟩ := mem_map.1 ha
  obtain ⟨kb, hkb, rfl⟩ := mem_map.1 hb
  exact code_injective _ (gTable_no_empty st) _ _ (key_in_gTable st ka hka) (key_in_gTable st kb hkb) hc

end SigModel.Lemmas.C12
