/-
C07 helper lemmas, part 4: every cut of a rotation; induction over the history; the crash at step k.
-/
import SigModel.Lemmas.C07c

namespace SigModel.Lemmas.C07
open SigModel.Crash

/-! ### a rotation -/

theorem rotateSteps_eq {w : W} (hne : w.fls ≠ []) :
    rotateSteps w = [Step.sfmTmp w.cur w.fls, .sfmRename w.cur, .segmetaAppend w.cur w.fls] ++ openSteps (w.cur + 1) := by
  simp [rotateSteps, hne]

/-- the segment is sealed: its line is in segmeta.json, the next directory does not exist yet -/
theorem preopen_rotate {sl w fs} (I : Inv sl w fs) :
    PreOpen (sl ++ [(w.cur, w.fls)]) (w.cur + 1) w.nf
      (run fs [Step.sfmTmp w.cur w.fls, .sfmRename w.cur, .segmetaAppend w.cur w.fls]) := by
  have hon : ∀ s ∈ [Step.sfmTmp w.cur w.fls, .sfmRename w.cur], onSeg w.cur s = true := by
    intro s hs; simp at hs; rcases hs with rfl | rfl <;> simp [onSeg]
  have S := sameBut_run (cur := w.cur) _ fs hon
  have hseg := run_seg (cur := w.cur) _ fs hon
  simp only [List.foldl, applySeg] at hseg
  have e3 : run fs [Step.sfmTmp w.cur w.fls, .sfmRename w.cur, .segmetaAppend w.cur w.fls]
      = { run fs [Step.sfmTmp w.cur w.fls, .sfmRename w.cur] with
          segmeta := (run fs [Step.sfmTmp w.cur w.fls, .sfmRename w.cur]).segmeta ++ [(w.cur, w.fls)] } := rfl
  rw [e3]
  generalize run fs [Step.sfmTmp w.cur w.fls, .sfmRename w.cur] = fs2 at S hseg
  have F := I.frame
  have hle := F.dirs_le
  refine ⟨⟨?_, ?_, ?_, ?_, ?_, ?_, ?_⟩, ?_, ?_, ?_⟩
  · show fs2.segmeta ++ [(w.cur, w.fls)] = sl ++ [(w.cur, w.fls)]
    rw [S.segmeta, F.segmeta_eq]
  · show fs2.dirs.Nodup
    rw [S.dirs]; exact F.dirs_nodup
  · intro s hs
    have hs' : s ∈ fs.dirs := S.dirs ▸ hs
    left
    rw [List.map_append]
    rcases F.dirs_mem s hs' with h | h
    · exact List.mem_append_left _ h
    · exact List.mem_append_right _ (by simp [h])
  · intro p hp
    rcases List.mem_append.1 hp with h | h
    · have := F.sealed_lt p h; omega
    · have : p = (w.cur, w.fls) := by simpa using h
      subst this; show w.cur < w.cur + 1; omega
  · intro p hp
    show SegOK (fs2.seg p.1) p.2
    rcases List.mem_append.1 hp with h | h
    · have : p.1 ≠ w.cur := Nat.ne_of_lt (F.sealed_lt p h)
      rw [S.seg _ this]; exact F.sealed_ok p h
    · have : p = (w.cur, w.fls) := by simpa using h
      subst this
      show SegOK (fs2.seg w.cur) w.fls
      rw [hseg]; exact segOK_congr I.cur_ok rfl rfl
  · intro s hs
    show fs2.seg s = {}
    have hs' : s ∉ fs.dirs := S.dirs ▸ hs
    have : s ≠ w.cur := fun e => hs' (e ▸ I.cur_in)
    rw [S.seg _ this]; exact F.untouched s hs'
  · intro s hs
    have hs' : s ∈ fs.dirs := S.dirs ▸ hs
    have := F.suffix_ok s hs'
    show s < fs2.suffix.getD 0
    rw [S.suffix]; exact this
  · intro h
    have h' : w.cur + 1 ∈ fs.dirs := S.dirs ▸ h
    have := hle _ h'; omega
  · show fs2.suffix.getD 0 = w.cur + 1
    rw [S.suffix, I.suffix]; rfl
  · rw [flat_append, ← I.ids]; simp [flat]

theorem inv_rotate {sl w fs} (I : Inv sl w fs) (hne : w.fls ≠ []) :
    Inv (sl ++ [(w.cur, w.fls)]) { cur := w.cur + 1, fls := [], nf := w.nf } (run fs (rotateSteps w)) := by
  rw [rotateSteps_eq hne, run_append]
  exact inv_open (preopen_rotate I)

/-- every proper cut of a rotation -/
theorem rotate_prefix {sl w fs} (I : Inv sl w fs) (k : Nat) (hk : k < (rotateSteps w).length) :
    Good w.nf none (run fs ((rotateSteps w).take k)) := by
  by_cases hne : w.fls = []
  · simp [rotateSteps, hne] at hk
  rw [rotateSteps_eq hne] at hk ⊢
  simp [openSteps] at hk
  have hcases : k = 0 ∨ k = 1 ∨ k = 2 ∨ ∃ j, k = 3 + j ∧ j < 3 := by
    by_cases h : k < 3
    · omega
    · exact Or.inr (Or.inr (Or.inr ⟨k - 3, by omega, by omega⟩))
  rcases hcases with rfl | rfl | rfl | ⟨j, rfl, hj⟩
  · exact good_inv I
  · -- .sfm.tmp written: the .sfm itself is untouched
    have hon : ∀ s ∈ [Step.sfmTmp w.cur w.fls], onSeg w.cur s = true := by
      intro s hs; simp at hs; subst hs; simp [onSeg]
    have S := sameBut_run (cur := w.cur) _ fs hon
    have hseg := run_seg (cur := w.cur) _ fs hon
    simp only [List.foldl, applySeg] at hseg
    have F := I.frame.sameBut S I.cur_in
    show Good w.nf none (run fs [Step.sfmTmp w.cur w.fls])
    refine good_b F (S.dirs ▸ I.cur_in) ?_ ?_ I.ids (Or.inl rfl) ⟨w.fls, ?_, fun _ hf => hf⟩
    · rw [hseg]; exact (inv_parsable I).2 hne
    · rw [hseg]; exact segOK_congr I.cur_ok rfl rfl
    · rw [hseg]; show (fs.seg w.cur).sfm = _; rw [I.cur_sfm, if_neg hne]
  · -- .sfm replaced by the same record
    have hon : ∀ s ∈ [Step.sfmTmp w.cur w.fls, .sfmRename w.cur], onSeg w.cur s = true := by
      intro s hs; simp at hs; rcases hs with rfl | rfl <;> simp [onSeg]
    have S := sameBut_run (cur := w.cur) _ fs hon
    have hseg := run_seg (cur := w.cur) _ fs hon
    simp only [List.foldl, applySeg] at hseg
    have F := I.frame.sameBut S I.cur_in
    show Good w.nf none (run fs [Step.sfmTmp w.cur w.fls, .sfmRename w.cur])
    refine good_b F (S.dirs ▸ I.cur_in) ?_ ?_ I.ids (Or.inl rfl) ⟨w.fls, ?_, fun _ hf => hf⟩
    · rw [hseg]; rfl
    · rw [hseg]; exact segOK_congr I.cur_ok rfl rfl
    · rw [hseg]; rfl
  · -- sealed; somewhere inside resetSegStore
    have P := preopen_rotate I
    have ht : ([Step.sfmTmp w.cur w.fls, .sfmRename w.cur, .segmetaAppend w.cur w.fls] ++ openSteps (w.cur + 1)).take (3 + j)
        = [Step.sfmTmp w.cur w.fls, .sfmRename w.cur, .segmetaAppend w.cur w.fls] ++ (openSteps (w.cur + 1)).take j := by
      rw [List.take_append, List.take_of_length_le (by simp)]
      simp
    rw [ht, run_append]
    exact open_prefix P j hj

/-! ### induction over the history -/

def sealedNext (sl : List (Nat × List Nat)) (w : W) : Cmd → List (Nat × List Nat)
  | .fl _ => sl
  | .ro => if w.fls = [] then sl else sl ++ [(w.cur, w.fls)]

theorem inv_cmd {sl w fs} (I : Inv sl w fs) (c : Cmd) :
    Inv (sealedNext sl w c) (next w c) (run fs (cmdSteps w c)) := by
  cases c with
  | fl ws => exact inv_flush I ws
  | ro =>
    by_cases hne : w.fls = []
    · simp [sealedNext, next, cmdSteps, rotateSteps, hne, run]
      exact I
    · simp only [sealedNext, next, cmdSteps, if_neg hne]
      exact inv_rotate I hne

/-- the directory after the first `k` steps of `stepsFrom w h`, computed command by command -/
def crashFrom (w : W) (fs : FS) : Hist → Nat → FS
  | [], _ => fs
  | c :: h, k =>
    if (cmdSteps w c).length ≤ k then crashFrom (next w c) (run fs (cmdSteps w c)) h (k - (cmdSteps w c).length)
    else run fs ((cmdSteps w c).take k)

theorem run_take_stepsFrom : ∀ (h : Hist) (w : W) (fs : FS) (k : Nat),
    run fs ((stepsFrom w h).take k) = crashFrom w fs h k := by
  intro h
  induction h with
  | nil => intro w fs k; simp [stepsFrom, crashFrom, run]
  | cons c h ih =>
    intro w fs k
    simp only [stepsFrom, crashFrom]
    rw [List.take_append, run_append]
    by_cases hk : (cmdSteps w c).length ≤ k
    · rw [if_pos hk, List.take_of_length_le hk, ih]
    · rw [if_neg hk]
      have : k - (cmdSteps w c).length = 0 := by omega
      rw [this, List.take_zero, run_nil]

/-- the conclusions of the four theorems for the cut `k` of `stepsFrom w h`, relative to the writer state `w` -/
structure GoodH (w : W) (h : Hist) (k : Nat) (fs : FS) : Prop where
  nodup : (visible fs).Nodup
  torn : torn fs = []
  sound : ∀ f ∈ visible fs, f < w.nf ∨ f ∈ completedFrom w h k ∨ inflightFrom w h k = some f
  complete : ∀ f, (f < w.nf ∨ f ∈ completedFrom w h k) → f ∈ visible fs
  fresh : ∀ s ∈ fs.dirs, s < nextSuffix fs
  untouched : ∀ s, s ∉ fs.dirs → fs.seg s = {}
  prov : ∀ f, (f < w.nf ∨ f ∈ completedFrom w h k) → ∃ p ∈ metas fs, f ∈ p.2 ∧ f ∈ segVisible (fs.seg p.1)
  provAll : ∀ p ∈ metas fs, ∀ f ∈ segVisible (fs.seg p.1), f ∈ p.2

theorem crashFrom_good : ∀ (h : Hist) (sl : List (Nat × List Nat)) (w : W) (fs : FS) (k : Nat),
    Inv sl w fs → GoodH w h k (crashFrom w fs h k) := by
  intro h
  induction h with
  | nil =>
    intro sl w fs k I
    have G : Good w.nf none fs := good_inv I
    refine ⟨G.nodup, G.torn, ?_, ?_, G.fresh, G.untouched, ?_, G.provAll⟩
    · intro f hf
      rcases G.sound f hf with h | h
      · exact Or.inl h
      · cases h
    · intro f hf
      rcases hf with h | h
      · exact G.complete f h
      · simp [completedFrom] at h
    · intro f hf
      rcases hf with h | h
      · exact G.prov f h
      · simp [completedFrom] at h
  | cons c h ih =>
    intro sl w fs k I
    by_cases hk : (cmdSteps w c).length ≤ k
    · -- the command completed
      have G := ih (sealedNext sl w c) (next w c) (run fs (cmdSteps w c)) (k - (cmdSteps w c).length) (inv_cmd I c)
      have hcf : crashFrom w fs (c :: h) k = crashFrom (next w c) (run fs (cmdSteps w c)) h (k - (cmdSteps w c).length) := by
        simp only [crashFrom, if_pos hk]
      have hcomp : completedFrom w (c :: h) k =
          cmdFlush w c ++ completedFrom (next w c) h (k - (cmdSteps w c).length) := by
        simp only [completedFrom, if_pos hk]
      have hinf : inflightFrom w (c :: h) k = inflightFrom (next w c) h (k - (cmdSteps w c).length) := by
        simp only [inflightFrom, if_pos hk]
      rw [hcf]
      have hstep : ∀ f, (f < w.nf ∨ f ∈ completedFrom w (c :: h) k) →
          (f < (next w c).nf ∨ f ∈ completedFrom (next w c) h (k - (cmdSteps w c).length)) := by
        intro f hf
        rw [hcomp] at hf
        rcases hf with h1 | h1
        · left
          cases c with
          | fl ws => show f < w.nf + 1; omega
          | ro => by_cases hne : w.fls = [] <;> simpa [next, hne] using h1
        · rcases List.mem_append.1 h1 with h2 | h2
          · cases c with
            | fl ws =>
              have : f = w.nf := by simpa [cmdFlush] using h2
              left; show f < w.nf + 1; omega
            | ro => cases h2
          · right; exact h2
      refine ⟨G.nodup, G.torn, ?_, ?_, G.fresh, G.untouched, fun f hf => G.prov f (hstep f hf), G.provAll⟩
      · intro f hf
        rw [hcomp, hinf]
        rcases G.sound f hf with h1 | h1 | h1
        · cases c with
          | fl ws =>
            have : f < w.nf + 1 := h1
            by_cases e : f = w.nf
            · right; left; simp [e, cmdFlush]
            · left; omega
          | ro =>
            left
            by_cases hne : w.fls = [] <;> simpa [next, hne] using h1
        · right; left; exact List.mem_append_right _ h1
        · right; right; exact h1
      · intro f hf
        rw [hcomp] at hf
        apply G.complete
        rcases hf with h1 | h1
        · left
          cases c with
          | fl ws => show f < w.nf + 1; omega
          | ro => by_cases hne : w.fls = [] <;> simpa [next, hne] using h1
        · rcases List.mem_append.1 h1 with h2 | h2
          · cases c with
            | fl ws =>
              have : f = w.nf := by simpa [cmdFlush] using h2
              left; show f < w.nf + 1; omega
            | ro => cases h2
          · right; exact h2
    · -- the command was cut
      have hk' : k < (cmdSteps w c).length := by omega
      have hcf : crashFrom w fs (c :: h) k = run fs ((cmdSteps w c).take k) := by
        simp only [crashFrom, if_neg hk]
      have hcomp : completedFrom w (c :: h) k = [] := by
        simp only [completedFrom, if_neg hk]
      rw [hcf]
      cases c with
      | fl ws =>
        have hinf : inflightFrom w (Cmd.fl ws :: h) k = if 0 < k then some w.nf else none := by
          simp only [inflightFrom, if_neg hk]
        have G := flush_prefix I ws k hk'
        refine ⟨G.nodup, G.torn, ?_, ?_, G.fresh, G.untouched, ?_, G.provAll⟩
        · intro f hf
          rcases G.sound f hf with h1 | h1
          · exact Or.inl h1
          · right; right; rw [hinf]; exact h1
        · intro f hf
          rw [hcomp] at hf
          rcases hf with h1 | h1
          · exact G.complete f h1
          · cases h1
        · intro f hf
          rw [hcomp] at hf
          rcases hf with h1 | h1
          · exact G.prov f h1
          · cases h1
      | ro =>
        have hinf : inflightFrom w (Cmd.ro :: h) k = none := by
          simp only [inflightFrom, if_neg hk]
        have G := rotate_prefix I k hk'
        refine ⟨G.nodup, G.torn, ?_, ?_, G.fresh, G.untouched, ?_, G.provAll⟩
        · intro f hf
          rcases G.sound f hf with h1 | h1
          · exact Or.inl h1
          · cases h1
        · intro f hf
          rw [hcomp] at hf
          rcases hf with h1 | h1
          · exact G.complete f h1
          · cases h1
        · intro f hf
          rw [hcomp] at hf
          rcases hf with h1 | h1
          · exact G.prov f h1
          · cases h1

/-! ### the crash at step `k` of a whole history -/

theorem preopen_empty : PreOpen [] 0 0 ({} : FS) := by
  refine ⟨⟨rfl, List.nodup_nil, ?_, ?_, ?_, fun _ _ => rfl, ?_⟩, ?_, rfl, rfl⟩
  · intro s hs; cases hs
  · intro p hp; cases hp
  · intro p hp; cases hp
  · intro s hs; cases hs
  · intro h; cases h

theorem completedFrom_zero : ∀ (h : Hist) (w : W), completedFrom w h 0 = [] := by
  intro h
  induction h with
  | nil => intro w; rfl
  | cons c h ih =>
    intro w
    cases c with
    | fl ws => simp [completedFrom, cmdSteps, flushSteps]
    | ro =>
      by_cases hne : w.fls = []
      · simp [completedFrom, cmdSteps, rotateSteps, hne, ih, cmdFlush]
      · simp [completedFrom, cmdSteps, rotateSteps, hne, openSteps]

theorem inflightFrom_zero : ∀ (h : Hist) (w : W), inflightFrom w h 0 = none := by
  intro h
  induction h with
  | nil => intro w; rfl
  | cons c h ih =>
    intro w
    cases c with
    | fl ws => simp [inflightFrom, cmdSteps, flushSteps]
    | ro =>
      by_cases hne : w.fls = []
      · simp [inflightFrom, cmdSteps, rotateSteps, hne, ih]
      · simp [inflightFrom, cmdSteps, rotateSteps, hne, openSteps]

/-- the four conclusions at every cut `k` of every history -/
theorem crashAfter_good (h : Hist) (k : Nat) :
    let fs := crashAfter h k
    (visible fs).Nodup ∧ torn fs = [] ∧
    (∀ f ∈ visible fs, f ∈ completed h k ∨ inflight h k = some f) ∧
    (∀ f ∈ completed h k, f ∈ visible fs) ∧
    (∀ s ∈ fs.dirs, s < nextSuffix fs) ∧ (∀ s, s ∉ fs.dirs → fs.seg s = {}) := by
  intro fs
  by_cases hk : k < 3
  · -- inside the very first resetSegStore: nothing to serve, nothing completed
    have hfs : fs = run {} ((openSteps 0).take k) := by
      show run {} ((openSteps 0 ++ stepsFrom {} h).take k) = _
      rw [List.take_append]
      have : k - (openSteps 0).length = 0 := by simp [openSteps]; omega
      rw [this, List.take_zero, List.append_nil]
    have G : Good 0 none fs := hfs ▸ open_prefix preopen_empty k hk
    have h0 : k - 3 = 0 := by omega
    refine ⟨G.nodup, G.torn, ?_, ?_, G.fresh, G.untouched⟩
    · intro f hf
      rcases G.sound f hf with h1 | h1
      · omega
      · cases h1
    · intro f hf
      simp [completed, h0, completedFrom_zero] at hf
  · have hfs : fs = crashFrom {} (run {} (openSteps 0)) h (k - 3) := by
      show run {} ((openSteps 0 ++ stepsFrom {} h).take k) = _
      rw [List.take_append, run_append, List.take_of_length_le (by simp [openSteps]; omega)]
      exact run_take_stepsFrom h {} _ _
    have I : Inv [] ({} : W) (run {} (openSteps 0)) := inv_open preopen_empty
    have G := crashFrom_good h [] {} _ (k - 3) I
    rw [← hfs] at G
    refine ⟨G.nodup, G.torn, ?_, ?_, G.fresh, G.untouched⟩
    · intro f hf
      rcases G.sound f hf with h1 | h1 | h1
      · exact absurd h1 (Nat.not_lt_zero f)
      · exact Or.inl h1
      · exact Or.inr h1
    · intro f hf
      exact G.complete f (Or.inr hf)

/-- metadata provenance at every cut `k` of every history: every completed flush is served from an adopted segment
whose metadata record (segmeta.json line or running .sfm) was built from that flush -/
theorem crashAfter_meta (h : Hist) (k : Nat) :
    ∀ f ∈ completed h k, ∃ p ∈ metas (crashAfter h k), f ∈ p.2 ∧ f ∈ segVisible ((crashAfter h k).seg p.1) := by
  by_cases hk : k < 3
  · intro f hf
    have h0 : k - 3 = 0 := by omega
    simp [completed, h0, completedFrom_zero] at hf
  · have hfs : crashAfter h k = crashFrom {} (run {} (openSteps 0)) h (k - 3) := by
      show run {} ((openSteps 0 ++ stepsFrom {} h).take k) = _
      rw [List.take_append, run_append, List.take_of_length_le (by simp [openSteps]; omega)]
      exact run_take_stepsFrom h {} _ _
    have I : Inv [] ({} : W) (run {} (openSteps 0)) := inv_open preopen_empty
    have G := crashFrom_good h [] {} _ (k - 3) I
    rw [← hfs] at G
    intro f hf
    exact G.prov f (Or.inr hf)

/-- … and EVERY block a restart serves, at every cut `k` of every history, is one its segment's record was built from -/
theorem crashAfter_provAll (h : Hist) (k : Nat) :
    ∀ p ∈ metas (crashAfter h k), ∀ f ∈ segVisible ((crashAfter h k).seg p.1), f ∈ p.2 := by
  by_cases hk : k < 3
  · have hfs : crashAfter h k = run {} ((openSteps 0).take k) := by
      show run {} ((openSteps 0 ++ stepsFrom {} h).take k) = _
      rw [List.take_append]
      have : k - (openSteps 0).length = 0 := by simp [openSteps]; omega
      rw [this, List.take_zero, List.append_nil]
    have G : Good 0 none (crashAfter h k) := hfs ▸ open_prefix preopen_empty k hk
    exact G.provAll
  · have hfs : crashAfter h k = crashFrom {} (run {} (openSteps 0)) h (k - 3) := by
      show run {} ((openSteps 0 ++ stepsFrom {} h).take k) = _
      rw [List.take_append, run_append, List.take_of_length_le (by simp [openSteps]; omega)]
      exact run_take_stepsFrom h {} _ _
    have I : Inv [] ({} : W) (run {} (openSteps 0)) := inv_open preopen_empty
    have G := crashFrom_good h [] {} _ (k - 3) I
    rw [← hfs] at G
    exact G.provAll

end SigModel.Lemmas.C07
