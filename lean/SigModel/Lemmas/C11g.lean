/-
Lemmas for C11, concurrent flushes of different segstores (Model/ConcFlush.lean): the per-thread invariant of the
real configuration (the work buffer belongs to the call) and the completion of a round.
-/
import SigModel.Model.ConcFlush

namespace SigModel.Lemmas.C11g
open SigModel.ConcFlush

/-- what the flush of one store looks like at each program point when it flushes block `x` onto the file `f0` -/
def Ok (x : Sum) (f0 : List Sum) (t : Th) : Prop :=
  match t.pc with
  | .idle => t.file = f0
  | .atEnc => t.file = f0
  | .atWr => t.file = f0 ∧ t.buf = some x
  | .done => t.file = f0 ++ [x]

theorem set_self (s : St) (j : Nat) (t : Th) : (s.set j t).th j = t := by
  simp [St.set]

theorem set_other (s : St) (j k : Nat) (t : Th) (h : k ≠ j) : (s.set j t).th k = s.th k := by
  simp [St.set, h]

/-- a step of store `j` does not touch the thread of another store (any configuration) -/
theorem step_other (c : Cfg) (cur : Nat → Sum) (s : St) (j k : Nat) (h : k ≠ j) :
    (step c cur s j).th k = s.th k := by
  unfold step
  split
  · exact set_other _ _ _ _ h
  · split
    · show (s.set j _).th k = s.th k
      exact set_other _ _ _ _ h
    · exact set_other _ _ _ _ h
  · exact set_other _ _ _ _ h
  · rfl

/-- the invariant is kept by every step (real configuration) -/
theorem step_ok (cur : Nat → Sum) (f0 : Nat → List Sum) (s : St) (j : Nat)
    (h : ∀ k, Ok (cur k) (f0 k) (s.th k)) : ∀ k, Ok (cur k) (f0 k) ((step Cfg.real cur s j).th k) := by
  intro k
  by_cases hk : k = j
  · subst hk
    have hj := h k
    unfold step
    split
    next hp => rw [set_self]; unfold Ok at hj ⊢; rw [hp] at hj; simpa using hj
    next hp =>
      simp only [Cfg.real, Bool.false_eq_true, if_false]
      rw [set_self]; unfold Ok at hj ⊢; rw [hp] at hj; simpa using hj
    next hp =>
      simp only [Cfg.real, Bool.false_eq_true, if_false]
      rw [set_self]; unfold Ok at hj ⊢; rw [hp] at hj
      simp only
      rw [hj.1, hj.2]; rfl
    next hp => exact hj
  · rw [step_other _ _ _ _ _ hk]; exact h k

theorem run_ok (cur : Nat → Sum) (f0 : Nat → List Sum) (sched : List Nat) :
    ∀ s : St, (∀ k, Ok (cur k) (f0 k) (s.th k)) → ∀ k, Ok (cur k) (f0 k) ((run Cfg.real cur s sched).th k) := by
  induction sched with
  | nil => intro s h; exact h
  | cons j rest ih => intro s h; exact ih _ (step_ok cur f0 s j h)

/-- a finished flush stays finished whatever any store does -/
theorem step_done (c : Cfg) (cur : Nat → Sum) (s : St) (j k : Nat) (h : (s.th k).pc = .done) :
    ((step c cur s j).th k).pc = .done := by
  by_cases hk : k = j
  · subst hk
    unfold step
    rw [h]
    exact h
  · rw [step_other _ _ _ _ _ hk]; exact h

theorem finish_ok (cur : Nat → Sum) (f0 : Nat → List Sum) (s : St) (j : Nat)
    (h : ∀ k, Ok (cur k) (f0 k) (s.th k)) : ∀ k, Ok (cur k) (f0 k) ((finish Cfg.real cur s j).th k) :=
  step_ok cur f0 _ j (step_ok cur f0 _ j (step_ok cur f0 s j h))

theorem finish_keeps_done (c : Cfg) (cur : Nat → Sum) (s : St) (j k : Nat) (h : (s.th k).pc = .done) :
    ((finish c cur s j).th k).pc = .done :=
  step_done c cur _ j k (step_done c cur _ j k (step_done c cur s j k h))

/-- one step moves the program counter of its store one point forward -/
theorem step_pc (c : Cfg) (cur : Nat → Sum) (s : St) (j : Nat) :
    ((step c cur s j).th j).pc =
      match (s.th j).pc with
      | .idle => .atEnc | .atEnc => .atWr | .atWr => .done | .done => .done := by
  unfold step
  split
  next hp => rw [set_self]; simp [hp]
  next hp =>
    split
    · show ((s.set j _).th j).pc = _
      rw [set_self]; simp [hp]
    · rw [set_self]; simp [hp]
  next hp => rw [set_self]; simp [hp]
  next hp => simp [hp]

/-- three steps complete a flush from any program point -/
theorem finish_done (c : Cfg) (cur : Nat → Sum) (s : St) (j : Nat) :
    ((finish c cur s j).th j).pc = .done := by
  unfold finish
  rw [step_pc, step_pc, step_pc]
  cases (s.th j).pc <;> rfl

/-- completing the flushes of a list of stores one after the other -/
theorem drain_list (cur : Nat → Sum) (f0 : Nat → List Sum) (l : List Nat) :
    ∀ s : St, (∀ k, Ok (cur k) (f0 k) (s.th k)) →
      (∀ k, Ok (cur k) (f0 k) ((l.foldl (finish Cfg.real cur) s).th k)) ∧
      (∀ k, (k ∈ l ∨ (s.th k).pc = .done) → ((l.foldl (finish Cfg.real cur) s).th k).pc = .done) := by
  induction l with
  | nil =>
    intro s h
    refine ⟨h, ?_⟩
    intro k hk
    rcases hk with hk | hk
    · cases hk
    · exact hk
  | cons j rest ih =>
    intro s h
    have h1 := finish_ok cur f0 s j h
    obtain ⟨a, b⟩ := ih (finish Cfg.real cur s j) h1
    refine ⟨a, ?_⟩
    intro k hk
    apply b
    rcases hk with hk | hk
    · rcases List.mem_cons.mp hk with e | e
      · right; subst e; exact finish_done _ _ _ _
      · left; exact e
    · right; exact finish_keeps_done _ _ _ _ _ hk

/-- after a round (any schedule, then the completion) every store j < n has appended exactly its own block -/
theorem round_file (cur : Nat → Sum) (n : Nat) (s : St) (sched : List Nat) (j : Nat) (hj : j < n) :
    ((round Cfg.real cur n s sched).th j).file = (s.th j).file ++ [cur j] := by
  have h0 : ∀ k, Ok (cur k) ((fun k => (s.th k).file) k) ((newRound s).th k) := by
    intro k; simp [Ok, newRound]
  have h1 := run_ok cur (fun k => (s.th k).file) sched (newRound s) h0
  obtain ⟨a, b⟩ := drain_list cur (fun k => (s.th k).file) (List.range n) _ h1
  have hd := b j (Or.inl (List.mem_range.mpr hj))
  have ha := a j
  unfold round drain
  unfold Ok at ha
  rw [hd] at ha
  exact ha

end SigModel.Lemmas.C11g
