/-
Helper lemmas for C11 (part 2): what a query knows — invariants of one query of the interleaving machine
with the extracted orders (`(Cfg.of d)`): no loss (snapshots and result), the shape of its result, keys of
each snapshot pairwise distinct.
-/
import SigModel.Lemmas.C11
set_option linter.unusedSimpArgs false
namespace SigModel.Lemmas.C11
open SigModel.Conc

variable {d : Bool}

/-! ### lists -/

theorem mem_dedup {α : Type} [DecidableEq α] (a : α) (l : List α) : a ∈ dedup l ↔ a ∈ l := by
  induction l with
  | nil => simp [dedup]
  | cons b l ih =>
    simp only [dedup]
    by_cases hb : b ∈ dedup l
    · simp only [hb, if_true, List.mem_cons, ih]
      constructor
      · intro h; exact Or.inr h
      · intro h
        rcases h with h | h
        · subst h; exact ih.mp hb
        · exact h
    · simp [hb, ih]

theorem nodup_dedup {α : Type} [DecidableEq α] (l : List α) : (dedup l).Nodup := by
  induction l with
  | nil => simp [dedup]
  | cons b l ih =>
    simp only [dedup]
    by_cases hb : b ∈ dedup l
    · simp [hb, ih]
    · simp [hb, ih]

theorem mem_blocksOf (g g' : Seg) (n k : Nat) : (g', k) ∈ blocksOf g n ↔ g' = g ∧ k < n := by
  simp only [blocksOf, List.mem_map, List.mem_range, Prod.mk.injEq]
  constructor
  · rintro ⟨a, ha, h1, h2⟩; subst h1; subst h2; exact ⟨rfl, ha⟩
  · rintro ⟨h1, h2⟩; exact ⟨k, h2, h1.symm, rfl⟩

theorem nodup_blocksOf (g : Seg) (n : Nat) : (blocksOf g n).Nodup := by
  unfold blocksOf
  rw [List.nodup_iff_pairwise_ne, List.pairwise_map]
  have := @List.nodup_range n
  rw [List.nodup_iff_pairwise_ne] at this
  exact this.imp (fun hab h => hab (by simpa using h))

theorem mem_snapOf (s : St) (f : Seg → Nat) (g : Seg) (n : Nat) :
    (g, n) ∈ snapOf s f ↔ g ∈ s.segs ∧ f g ≠ 0 ∧ n = f g := by
  simp [snapOf]
  constructor
  · rintro ⟨a, ⟨h1, h2⟩, h3, h4⟩; subst h3; exact ⟨h1, h2, h4.symm⟩
  · rintro ⟨h1, h2, h3⟩; exact ⟨g, ⟨h1, h2⟩, rfl, h3.symm⟩

theorem snapOf_keys (s : St) (f : Seg → Nat) :
    (snapOf s f).map Prod.fst = s.segs.filter (fun g => f g ≠ 0) := by
  simp [snapOf, List.map_map, Function.comp_def]

theorem nodup_snapOf_keys (s : St) (f : Seg → Nat) (h : s.segs.Nodup) :
    ((snapOf s f).map Prod.fst).Nodup := by
  rw [snapOf_keys]
  exact List.Nodup.sublist List.filter_sublist h

/-- requests with pairwise distinct keys read pairwise distinct blocks -/
theorem nodup_flatMap_blocksOf (l : List (Seg × Nat)) (h : (l.map Prod.fst).Nodup) :
    (l.flatMap (fun r => blocksOf r.1 r.2)).Nodup := by
  induction l with
  | nil => simp
  | cons r l ih =>
    simp only [List.map_cons, List.nodup_cons] at h
    rw [List.flatMap_cons, List.nodup_append]
    refine ⟨nodup_blocksOf _ _, ih h.2, ?_⟩
    intro a ha b hb hab
    subst hab
    obtain ⟨g, k⟩ := a
    rw [mem_blocksOf] at ha
    rw [List.mem_flatMap] at hb
    obtain ⟨r', hr', hb'⟩ := hb
    rw [mem_blocksOf] at hb'
    apply h.1
    rw [List.mem_map]
    exact ⟨r', hr', by rw [← hb'.1, ha.1]⟩

theorem mem_of_mem_dedupKey (l : List (Seg × Nat)) (r : Seg × Nat) (h : r ∈ dedupKey l) : r ∈ l := by
  induction l with
  | nil => simp [dedupKey] at h
  | cons a l ih =>
    simp only [dedupKey] at h
    by_cases ha : (dedupKey l).any (fun r' => r'.1 = a.1)
    · simp only [ha, if_true] at h; exact List.mem_cons_of_mem _ (ih h)
    · simp only [ha] at h
      rcases List.mem_cons.mp h with h1 | h1
      · subst h1; exact List.mem_cons_self
      · exact List.mem_cons_of_mem _ (ih h1)

/-- every key of the list survives the de-duplication -/
theorem key_mem_dedupKey (l : List (Seg × Nat)) (g : Seg) (h : ∃ r ∈ l, r.1 = g) :
    ∃ r ∈ dedupKey l, r.1 = g := by
  induction l with
  | nil => simp at h
  | cons a l ih =>
    simp only [dedupKey]
    by_cases ha : (dedupKey l).any (fun r' => r'.1 = a.1)
    · simp only [ha, if_true]
      obtain ⟨r, hr, hg⟩ := h
      rcases List.mem_cons.mp hr with h1 | h1
      · subst h1
        rw [List.any_eq_true] at ha
        obtain ⟨x, hx, hxa⟩ := ha
        exact ⟨x, hx, by rw [← hg]; simpa using hxa⟩
      · exact ih ⟨r, h1, hg⟩
    · simp only [ha]
      obtain ⟨r, hr, hg⟩ := h
      rcases List.mem_cons.mp hr with h1 | h1
      · subst h1; exact ⟨r, List.mem_cons_self, hg⟩
      · obtain ⟨x, hx, hxg⟩ := ih ⟨r, h1, hg⟩
        exact ⟨x, List.mem_cons_of_mem _ hx, hxg⟩

/-- the LAST request of a key survives: an element with no later element of the same key -/
theorem mem_dedupKey_of_last (l1 l2 : List (Seg × Nat)) (r : Seg × Nat) (h : ∀ r' ∈ l2, r'.1 ≠ r.1) :
    r ∈ dedupKey (l1 ++ r :: l2) := by
  induction l1 with
  | nil =>
    simp only [List.nil_append, dedupKey]
    have : ¬ (dedupKey l2).any (fun r' => r'.1 = r.1) = true := by
      rw [List.any_eq_true]
      rintro ⟨x, hx, hxr⟩
      exact h x (mem_of_mem_dedupKey l2 x hx) (by simpa using hxr)
    simp [this]
  | cons a l1 ih =>
    simp only [List.cons_append, dedupKey]
    by_cases ha : (dedupKey (l1 ++ r :: l2)).any (fun r' => r'.1 = a.1)
    · simp only [ha, if_true]; exact ih
    · simp only [ha]; exact List.mem_cons_of_mem _ ih

theorem nodup_dedupKey_keys (l : List (Seg × Nat)) : ((dedupKey l).map Prod.fst).Nodup := by
  induction l with
  | nil => simp [dedupKey]
  | cons a l ih =>
    simp only [dedupKey]
    by_cases ha : (dedupKey l).any (fun r' => r'.1 = a.1)
    · rw [if_pos ha]; exact ih
    · rw [if_neg ha, List.map_cons, List.nodup_cons]
      refine ⟨?_, ih⟩
      intro hm
      apply ha
      rw [List.mem_map] at hm
      obtain ⟨x, hx, hxa⟩ := hm
      rw [List.any_eq_true]
      exact ⟨x, hx, by simpa using hxa⟩

/-- the request list a query reads from -/
def qsrsOf (d : Bool) (q : Query) : List (Seg × Nat) :=
  if d then dedupKey (q.snapU ++ q.snapR) else q.snapU ++ q.snapR

/-! ### one query -/

structure QInv (d : Bool) (s : St) (j : Nat) : Prop where
  todoOk : (s.query j).started = true → (s.query j).todo = [.snapR] ∨ (s.query j).todo = []
  finOk : (s.query j).finished = true → (s.query j).started = true ∧ (s.query j).todo = []
  pre_le : (s.query j).started = true → ∀ g, (s.query j).pre g ≤ s.total g
  seenU : (s.query j).started = true → ∀ g k, k < (s.query j).pre g →
      (∃ n, (g, n) ∈ (s.query j).snapU ∧ k < n) ∨ k < s.rot g
  /-- after both snapshots: the rotated snapshot's request for `g` (if there is one) covers the block;
  otherwise the unrotated snapshot's request does -/
  seenR : (s.query j).started = true → (s.query j).todo = [] → ∀ g k, k < (s.query j).pre g →
      (∃ n, (g, n) ∈ (s.query j).snapR ∧ k < n) ∨
      ((∃ n, (g, n) ∈ (s.query j).snapU ∧ k < n) ∧ ∀ r ∈ (s.query j).snapR, r.1 ≠ g)
  res : (s.query j).finished = true → ∀ g k, k < (s.query j).pre g → (g, k) ∈ (s.query j).result
  keysU : ((s.query j).snapU.map Prod.fst).Nodup
  keysR : ((s.query j).snapR.map Prod.fst).Nodup
  posU : ∀ r ∈ (s.query j).snapU, r.2 ≠ 0
  posR : ∀ r ∈ (s.query j).snapR, r.2 ≠ 0
  resRrc : (s.query j).finished = true → (s.query j).kind = .rrc → (s.query j).result.Nodup
  resStats : (s.query j).finished = true → (s.query j).kind = .stats →
      (s.query j).result = (qsrsOf d (s.query j)).flatMap (fun r => blocksOf r.1 r.2)

theorem qinv_init (j : Nat) : QInv d init j := by
  constructor <;> simp [init]

/-- a label of another thread leaves query `j` alone -/
theorem query_frame (s : St) (l : Label) (j : Nat) (h : ∀ k, l ≠ .q j k) :
    (step (Cfg.of d) s l).query j = s.query j := by
  cases l with
  | flush i =>
    simp only [step, flush]
    cases (s.store i).todo <;> simp
  | rot i =>
    simp only [step, rotStep]
    cases h0 : (s.store i).todo with
    | nil =>
      by_cases hn : (s.store i).nblocks = 0
      · simp [hn]
      · simp [hn, Cfg.of, applyRot]
    | cons a r => cases a <;> simp [applyRot]
  | q j' k =>
    have hj : j' ≠ j := by
      intro e; subst e; exact h k rfl
    have hj' : ¬ j = j' := fun e => hj e.symm
    simp only [step, qStep]
    by_cases h1 : (s.query j').finished
    · simp [h1]
    · by_cases h2 : (s.query j').started
      · cases h3 : (s.query j').todo <;> simp [h1, h2, h3, upd, hj']
      · simp [h1, h2, Cfg.of, upd, hj']

theorem qinv_other (s : St) (hs : Inv s) (l : Label) (j : Nat) (h : ∀ k, l ≠ .q j k)
    (hq : QInv d s j) : QInv d (step (Cfg.of d) s l) j := by
  have hf := query_frame (d := d) s l j h
  have htm := total_mono (d := d) s l
  have hrm := rot_mono (d := d) s hs l
  constructor
  · rw [hf]; exact hq.todoOk
  · rw [hf]; exact hq.finOk
  · rw [hf]; intro h1 g; exact Nat.le_trans (hq.pre_le h1 g) (htm g)
  · rw [hf]; intro h1 g k hk
    rcases hq.seenU h1 g k hk with h2 | h2
    · exact Or.inl h2
    · exact Or.inr (Nat.lt_of_lt_of_le h2 (hrm g))
  · rw [hf]; exact hq.seenR
  · rw [hf]; exact hq.res
  · rw [hf]; exact hq.keysU
  · rw [hf]; exact hq.keysR
  · rw [hf]; exact hq.posU
  · rw [hf]; exact hq.posR
  · rw [hf]; exact hq.resRrc
  · rw [hf]; exact hq.resStats

/-- after a flush-visible block count `k < total g`, the block is in the unrotated map or in the rotated map -/
theorem visible (s : St) (hs : Inv s) (g : Seg) (k : Nat) (hk : k < s.total g) :
    (s.unrot g ≠ 0 ∧ k < s.unrot g) ∨ k < s.rot g := by
  have := nowCount_eq_total s hs g
  unfold nowCount at this
  by_cases hu : s.unrot g ≠ 0
  · simp [hu] at this; left; exact ⟨hu, by omega⟩
  · simp [hu] at this; right; omega

theorem segs_of_pos (s : St) (hs : Inv s) (g : Seg) (k : Nat) (hk : k < s.total g) : g ∈ s.segs :=
  (hs.segs_mem g).mpr (by omega)

theorem rot_le_total (s : St) (hs : Inv s) (g : Seg) : s.rot g ≤ s.total g := by
  obtain ⟨i, k⟩ := g
  have hr := hs.rot_eq i k
  by_cases h1 : k < (s.store i).seq
  · simp [h1] at hr; omega
  · by_cases h2 : k = (s.store i).seq ∧ added (s.store i)
    · simp [h1, h2] at hr
      have := hs.tot_eq i
      rw [h2.1]; omega
    · simp [h1, h2] at hr; omega

theorem rot_eq_total_of_ne_zero (s : St) (hs : Inv s) (g : Seg) (h : s.rot g ≠ 0) : s.rot g = s.total g := by
  obtain ⟨i, k⟩ := g
  have hr := hs.rot_eq i k
  by_cases h1 : k < (s.store i).seq
  · simp [h1] at hr; exact hr
  · by_cases h2 : k = (s.store i).seq ∧ added (s.store i)
    · simp [h1, h2] at hr
      have := hs.tot_eq i
      rw [h2.1]; omega
    · simp [h1, h2] at hr; exact absurd hr h

theorem last_of_nodup (l : List (Seg × Nat)) (hn : (l.map Prod.fst).Nodup) (r : Seg × Nat) (hr : r ∈ l) :
    ∃ l1 l2, l = l1 ++ r :: l2 ∧ ∀ r' ∈ l2, r'.1 ≠ r.1 := by
  obtain ⟨l1, l2, rfl⟩ := List.append_of_mem hr
  refine ⟨l1, l2, rfl, ?_⟩
  intro r' hr' he
  rw [List.map_append, List.map_cons, List.nodup_append] at hn
  have := (List.nodup_cons.mp hn.2.1).1
  apply this
  rw [List.mem_map]
  exact ⟨r', hr', he⟩

/-- the request that covers a block (see `QInv.seenR`) is in the request list the query reads from -/
theorem covering_mem_qsrs (d : Bool) (q : Query) (hU : (q.snapU.map Prod.fst).Nodup)
    (hR : (q.snapR.map Prod.fst).Nodup) (g : Seg) (k : Nat)
    (h : (∃ n, (g, n) ∈ q.snapR ∧ k < n) ∨ ((∃ n, (g, n) ∈ q.snapU ∧ k < n) ∧ ∀ r ∈ q.snapR, r.1 ≠ g)) :
    ∃ n, (g, n) ∈ qsrsOf d q ∧ k < n := by
  cases d with
  | false =>
    simp only [qsrsOf, Bool.false_eq_true, if_false]
    rcases h with ⟨n, hn, hk⟩ | ⟨⟨n, hn, hk⟩, _⟩
    · exact ⟨n, List.mem_append_right _ hn, hk⟩
    · exact ⟨n, List.mem_append_left _ hn, hk⟩
  | true =>
    simp only [qsrsOf, if_true]
    rcases h with ⟨n, hn, hk⟩ | ⟨⟨n, hn, hk⟩, hno⟩
    · obtain ⟨l1, l2, he, hl⟩ := last_of_nodup q.snapR hR (g, n) hn
      refine ⟨n, ?_, hk⟩
      rw [he, ← List.append_assoc]
      exact mem_dedupKey_of_last _ _ _ hl
    · obtain ⟨l1, l2, he, hl⟩ := last_of_nodup q.snapU hU (g, n) hn
      refine ⟨n, ?_, hk⟩
      rw [he, List.append_assoc, List.cons_append]
      apply mem_dedupKey_of_last
      intro r' hr'
      rcases List.mem_append.mp hr' with h1 | h1
      · exact hl r' h1
      · exact hno r' h1

theorem readResult_eq (d : Bool) (s : St) (q : Query) :
    readResult (Cfg.of d) s q =
      match q.kind with
      | .rrc => dedup ((qsrsOf d q).flatMap (fun r => blocksOf r.1 (nowCount s r.1)))
      | .stats => (qsrsOf d q).flatMap (fun r => blocksOf r.1 r.2) := by
  simp only [readResult, Cfg.of, qsrsOf]
  cases q.kind <;> rfl

theorem qinv_own (s : St) (hs : Inv s) (j : Nat) (k : Bool) (hq : QInv d s j) :
    QInv d (step (Cfg.of d) s (.q j k)) j := by
  simp only [step, qStep]
  by_cases h1 : (s.query j).finished
  · simp [h1]; exact hq
  · by_cases h2 : (s.query j).started
    · rcases hq.todoOk h2 with h3 | h3
      · -- second snapshot: rotated list
        simp only [h1, h2, h3, if_true, if_false, applySnap, Bool.false_eq_true]
        constructor <;> simp only [upd, if_true]
        · intro _; right; trivial
        · intro h; exact absurd h (by simp)
        · intro _; exact hq.pre_le h2
        · intro _; exact hq.seenU h2
        · intro _ _ g n hn
          by_cases hr0 : s.rot g = 0
          · right
            rcases hq.seenU h2 g n hn with h4 | h4
            · refine ⟨h4, ?_⟩
              intro r hr hg
              obtain ⟨g', m⟩ := r
              rw [mem_snapOf] at hr
              simp only at hg
              subst hg
              exact hr.2.1 hr0
            · omega
          · left
            have hrt := rot_eq_total_of_ne_zero s hs g hr0
            have hple := hq.pre_le h2 g
            refine ⟨s.rot g, ?_, by omega⟩
            rw [mem_snapOf]
            exact ⟨segs_of_pos s hs g n (by omega), hr0, rfl⟩
        · intro h; exact absurd h (by simp)
        · exact hq.keysU
        · exact nodup_snapOf_keys s s.rot hs.segs_nodup
        · exact hq.posU
        · intro r hr
          obtain ⟨g, n⟩ := r
          rw [mem_snapOf] at hr
          simp only [ne_eq]; omega
        · intro h; exact absurd h (by simp)
        · intro h; exact absurd h (by simp)
      · -- the read
        simp only [h1, h2, h3, if_true, if_false, Bool.false_eq_true]
        constructor <;> simp only [upd, if_true]
        · intro _; right; trivial
        · intro _; exact ⟨trivial, trivial⟩
        · intro _; exact hq.pre_le h2
        · intro _; exact hq.seenU h2
        · intro _ _; exact hq.seenR h2 h3
        · intro _ g n hn
          have h4 := hq.seenR h2 h3 g n hn
          obtain ⟨m, hm, hlt⟩ := covering_mem_qsrs d (s.query j) hq.keysU hq.keysR g n h4
          rw [readResult_eq]
          cases hk : (s.query j).kind with
          | rrc =>
            simp only
            rw [mem_dedup, List.mem_flatMap]
            have hvis : n < nowCount s g := by
              rw [nowCount_eq_total s hs g]
              exact Nat.lt_of_lt_of_le hn (hq.pre_le h2 g)
            exact ⟨(g, m), hm, (mem_blocksOf _ _ _ _).mpr ⟨rfl, hvis⟩⟩
          | stats =>
            simp only
            rw [List.mem_flatMap]
            exact ⟨(g, m), hm, (mem_blocksOf _ _ _ _).mpr ⟨rfl, hlt⟩⟩
        · exact hq.keysU
        · exact hq.keysR
        · exact hq.posU
        · exact hq.posR
        · intro _ hk
          rw [readResult_eq]
          simp only [hk]
          exact nodup_dedup _
        · intro _ hk
          rw [readResult_eq]
          simp only [hk]
          rfl
    · -- first step: start + unrotated snapshot
      simp only [h1, h2, if_false, Cfg.of, applySnap, Bool.false_eq_true]
      constructor <;> simp only [upd, if_true]
      · intro _; left; trivial
      · intro h; exact absurd h (by simp)
      · intro _ g; exact Nat.le_refl _
      · intro _ g n hn
        rcases visible s hs g n hn with ⟨h4, h5⟩ | h4
        · left
          refine ⟨s.unrot g, ?_, h5⟩
          rw [mem_snapOf]
          exact ⟨segs_of_pos s hs g n hn, h4, rfl⟩
        · exact Or.inr h4
      · intro _ h; exact absurd h (by simp)
      · intro h; exact absurd h (by simp)
      · exact nodup_snapOf_keys s s.unrot hs.segs_nodup
      · exact hq.keysR
      · intro r hr
        obtain ⟨g, n⟩ := r
        rw [mem_snapOf] at hr
        simp only [ne_eq]; omega
      · exact hq.posR
      · intro h; exact absurd h (by simp)
      · intro h; exact absurd h (by simp)

theorem qinv_step (s : St) (hs : Inv s) (l : Label) (j : Nat) (hq : QInv d s j) :
    QInv d (step (Cfg.of d) s l) j := by
  by_cases h : ∃ k, l = .q j k
  · obtain ⟨k, hk⟩ := h
    subst hk
    exact qinv_own s hs j k hq
  · exact qinv_other s hs l j (fun k hk => h ⟨k, hk⟩) hq

theorem qinv_run (ls : List Label) (j : Nat) : QInv d (run (Cfg.of d) init ls) j :=
  run_induction (fun s => QInv d s j) init ls inv_init (qinv_init j)
    (fun s l hs hq => qinv_step s hs l j hq)

end SigModel.Lemmas.C11
