import SigModel.Lemmas.C17d
/-!
C17 lifecycle, part 4: the first terminal event on a query's channel fixes its terminal state
(cancel → CANCELLED 5, timer → TIMEOUT 6, SendQueryStateComplete → COMPLETE 4, error report → ERROR 7).
-/
namespace SigModel.Lemmas.C17
open SigModel.QTable

theorem cancel_terminal {s : St} {q : Nat} {r : RQ} (hl : lookup q s.running = some r)
    (hnone : terminalOf r = none) (hroom : r.chanLen < chanCap) :
    ∃ r', lookup q (step s (Op.cancel q)).1.running = some r' ∧ r'.obj = r.obj ∧ r'.cancelled = true ∧
      terminalOf r' = some 5 := by
  refine ⟨(send { r with cancelled := true } 5).1, ?_, by simp, by simp, ?_⟩
  · simp only [step]
    rw [cancelQuery_running_some hl, lookup_put_self]
  · unfold terminalOf
    rw [send_sent { r with cancelled := true } 5 hroom]
    exact terminalOf_append hnone 5 rfl

theorem selfSend_terminal {s : St} {q msg : Nat} {r : RQ} (hl : lookup q s.running = some r)
    (hnone : terminalOf r = none) (hroom : r.chanLen < chanCap) (hmsg : isTerminal msg = true) :
    ∃ r', lookup q (selfSend s q msg).1.running = some r' ∧ r'.obj = r.obj ∧ terminalOf r' = some msg := by
  refine ⟨(send r msg).1, ?_, by simp, ?_⟩
  · rw [selfSend_running]
    simp only [hl, hroom, if_true, lookup_put_self]
  · unfold terminalOf
    rw [send_sent r msg hroom]
    exact terminalOf_append hnone msg hmsg

theorem timeout_terminal {s : St} {q : Nat} {r : RQ} (hinv : Inv s) (hl : lookup q s.running = some r)
    (hnc : r.cancelled = false) (hnone : terminalOf r = none) (hroom : r.chanLen + 2 ≤ chanCap) :
    ∃ r', lookup q (step s (Op.timeout q)).1.running = some r' ∧ r'.obj = r.obj ∧ r'.cancelled = true ∧
      terminalOf r' = some 6 := by
  obtain ⟨t1, t2, t3, _, _⟩ := timedOut_spec r hroom
  refine ⟨timedOut r, fireTimeout_stops hinv hl hnc hroom, t3, t1, ?_⟩
  unfold terminalOf
  rw [t2]
  exact terminalOf_append2 hnone 6 5 rfl

end SigModel.Lemmas.C17
