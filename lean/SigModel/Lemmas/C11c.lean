/-
Helper lemmas for C11 (part 3): the sequential schedule `seqOf` of a concurrent schedule (every effective
flush, every rotation as one uninterrupted run of its steps placed where its last step happened) leads to
the same flush history and the same stores; hence, at quiescence, to the same contents.
-/
import SigModel.Lemmas.C11b
set_option linter.unusedSimpArgs false
namespace SigModel.Lemmas.C11
open SigModel.Conc

variable {d : Bool}

/-- concurrent state `c` and sequential state `a` agree on the flush history and on the stores' counters;
`a` is between rotations -/
structure Rel (c a : St) : Prop where
  total : ∀ g, c.total g = a.total g
  segs : c.segs = a.segs
  seq : ∀ i, (c.store i).seq = (a.store i).seq
  nblocks : ∀ i, (c.store i).nblocks = (a.store i).nblocks
  idle : ∀ i, (a.store i).todo = []

theorem rel_refl_init : Rel init init := by
  constructor <;> simp [init]

/-- four uninterrupted `rot i` labels from an idle store with blocks: the whole rotation -/
theorem rot4 (a : St) (i : Nat) (h0 : (a.store i).todo = []) (hn : (a.store i).nblocks ≠ 0) :
    let a4 := run (Cfg.of d) a (List.replicate 4 (Label.rot i))
    a4.total = a.total ∧ a4.segs = a.segs ∧
    (∀ j, (a4.store j).seq = if j = i then (a.store i).seq + 1 else (a.store j).seq) ∧
    (∀ j, (a4.store j).nblocks = if j = i then 0 else (a.store j).nblocks) ∧
    (∀ j, (a4.store j).todo = if j = i then [] else (a.store j).todo) := by
  simp only [run, List.replicate, List.foldl_cons, List.foldl_nil, step]
  refine ⟨?_, ?_, ?_, ?_, ?_⟩
  · simp [rotStep, h0, hn, Cfg.of, applyRot, upd]
  · simp [rotStep, h0, hn, Cfg.of, applyRot, upd]
  · intro j
    by_cases hj : j = i
    · subst hj; simp [rotStep, h0, hn, Cfg.of, applyRot, upd]
    · simp [rotStep, h0, hn, Cfg.of, applyRot, upd, hj]
  · intro j
    by_cases hj : j = i
    · subst hj; simp [rotStep, h0, hn, Cfg.of, applyRot, upd]
    · simp [rotStep, h0, hn, Cfg.of, applyRot, upd, hj]
  · intro j
    by_cases hj : j = i
    · subst hj; simp [rotStep, h0, hn, Cfg.of, applyRot, upd]
    · simp [rotStep, h0, hn, Cfg.of, applyRot, upd, hj]

theorem rel_step (c a : St) (hc : Inv c) (l : Label) (h : Rel c a) :
    Rel (step (Cfg.of d) c l) (run (Cfg.of d) a (seqOf (Cfg.of d) c [l])) := by
  cases l with
  | flush i =>
    simp only [seqOf, List.append_nil, step]
    cases h0 : (c.store i).todo with
    | nil =>
      have ha := h.idle i
      simp only [if_true, run, List.foldl_cons, List.foldl_nil, step, flush, h0, ha]
      have hs := h.seq i
      have hn := h.nblocks i
      constructor
      · intro g; simp only [updS, hs, h.total]
      · simp only [hs, h.total, h.segs]
      · intro j
        by_cases hj : j = i
        · subst hj; simp [upd, hs]
        · simp [upd, hj, h.seq j]
      · intro j
        by_cases hj : j = i
        · subst hj; simp [upd, hn]
        · simp [upd, hj, h.nblocks j]
      · intro j
        by_cases hj : j = i
        · subst hj; simp [upd, ha]
        · simp [upd, hj, h.idle j]
    | cons x r =>
      simp only [flush, h0, run, List.foldl_nil]
      simp
      exact h
  | rot i =>
    simp only [seqOf, List.append_nil, step]
    rcases hc.todoOk i with h0 | h0 | h0 | h0
    · -- idle: nothing or the start of a rotation
      simp only [h0, List.length_nil, run, rotStep]
      by_cases hn : (c.store i).nblocks = 0
      · simp [hn]; exact h
      · simp only [hn, if_false, Cfg.of, applyRot]
        simp
        constructor
        · exact h.total
        · exact h.segs
        · intro j
          by_cases hj : j = i
          · subst hj; simp [upd]; exact h.seq j
          · simp [upd, hj]; exact h.seq j
        · intro j
          by_cases hj : j = i
          · subst hj; simp [upd]; exact h.nblocks j
          · simp [upd, hj]; exact h.nblocks j
        · exact h.idle
    · simp only [h0, List.length_cons, List.length_nil, run, rotStep, applyRot]
      simp
      constructor
      · exact h.total
      · exact h.segs
      · intro j
        by_cases hj : j = i
        · subst hj; simp [upd]; exact h.seq j
        · simp [upd, hj]; exact h.seq j
      · intro j
        by_cases hj : j = i
        · subst hj; simp [upd]; exact h.nblocks j
        · simp [upd, hj]; exact h.nblocks j
      · exact h.idle
    · simp only [h0, List.length_cons, List.length_nil, run, rotStep, applyRot]
      simp
      constructor
      · exact h.total
      · exact h.segs
      · intro j
        by_cases hj : j = i
        · subst hj; simp [upd]; exact h.seq j
        · simp [upd, hj]; exact h.seq j
      · intro j
        by_cases hj : j = i
        · subst hj; simp [upd]; exact h.nblocks j
        · simp [upd, hj]; exact h.nblocks j
      · exact h.idle
    · -- last step: the sequential schedule runs the whole rotation here
      have hcap := hc.cap i (by simp [h0])
      have hn : (a.store i).nblocks ≠ 0 := by rw [← h.nblocks i]; exact hcap.2.2
      obtain ⟨r1, r2, r3, r4, r5⟩ := rot4 (d := d) a i (h.idle i) hn
      have hlen : (Cfg.of d).rotOrder.length = 4 := rfl
      simp only [h0, List.length_cons, List.length_nil, Nat.zero_add, if_true, hlen]
      simp only [rotStep, h0, applyRot]
      constructor
      · intro g; simp only [r1]; exact h.total g
      · simp only [r2]; exact h.segs
      · intro j
        rw [r3 j]
        by_cases hj : j = i
        · subst hj; simp [upd]; exact h.seq j
        · simp [upd, hj]; exact h.seq j
      · intro j
        rw [r4 j]
        by_cases hj : j = i
        · subst hj; simp [upd]
        · simp [upd, hj]; exact h.nblocks j
      · intro j
        rw [r5 j]
        by_cases hj : j = i
        · simp [hj]
        · simp [hj]; exact h.idle j
  | q j k =>
    obtain ⟨qf, hq⟩ := qStep_frame (Cfg.of d) c j k
    simp only [seqOf, List.append_nil, step, hq, run, List.foldl_nil]
    exact ⟨h.total, h.segs, h.seq, h.nblocks, h.idle⟩

theorem seqOf_cons (c : St) (l : Label) (ls : List Label) :
    seqOf (Cfg.of d) c (l :: ls) = seqOf (Cfg.of d) c [l] ++ seqOf (Cfg.of d) (step (Cfg.of d) c l) ls := by
  simp [seqOf]

theorem rel_run (ls : List Label) (c a : St) (hc : Inv c) (ha : Inv a) (h : Rel c a) :
    Rel (run (Cfg.of d) c ls) (run (Cfg.of d) a (seqOf (Cfg.of d) c ls)) := by
  induction ls generalizing c a with
  | nil => simpa [run, seqOf] using h
  | cons l ls ih =>
    rw [seqOf_cons, run_append, run_cons]
    exact ih _ _ (inv_step c l hc) (inv_run a _ ha) (rel_step c a hc l h)

/-- two reachable, quiescent states that agree on the flush history and on the stores' counters have
the same unrotated and rotated maps -/
theorem contents_eq (c a : St) (hc : Inv c) (ha : Inv a) (h : Rel c a) (hq : Quiescent c) :
    ∀ g, c.unrot g = a.unrot g ∧ c.rot g = a.rot g := by
  intro g
  obtain ⟨i, k⟩ := g
  have hcq := hq i
  have haq := h.idle i
  constructor
  · rw [hc.unrot_eq i k, ha.unrot_eq i k]
    simp [removed, hcq, haq, h.seq i, h.nblocks i]
  · rw [hc.rot_eq i k, ha.rot_eq i k]
    simp [added, hcq, haq, h.seq i, h.total]

end SigModel.Lemmas.C11
