/- C12 helper lemmas, part c: the span tree. Core Lean only. -/
import SigModel.Lemmas.C12a

namespace SigModel.Lemmas.C12
open SigModel.Trace List

/-! ### specification-level notions used in the theorem statements -/

/-- the parent link `BuildSpanTree` follows for the span with id `x`: defined iff `x` is in the map, has
an `idToParentId` entry, a non-empty parent id, and that parent is in the map -/
def par (m : List Span) (x : Nat) : Option Nat :=
  match m.find? (fun s => s.id == x) with
  | some s => if !s.noEntry && s.parent != 0 && m.any (fun p => p.id == s.parent) then some s.parent else none
  | none => none

/-- the `k`-th ancestor of `x` along `par` -/
def up (m : List Span) : Nat → Nat → Option Nat
  | 0, x => some x
  | k + 1, x => (up m k x).bind (par m)

/-- following parents from `s` reaches a span with empty parent within `f` steps -/
def reaches (m : List Span) : Nat → Span → Bool
  | 0, s => s.parent == 0
  | f + 1, s => s.parent == 0 || (match m.find? (fun p => p.id == s.parent) with
      | some p => reaches m f p
      | none => false)

/-- a well-formed trace: unique non-empty span ids, every span has a parent entry, exactly one span
without parent, and from every span the parent chain leads to it (so every parent is present and there
is no parent cycle) -/
def wellFormed (spans : List Span) : Bool :=
  decide ((spans.map (·.id)).Nodup) && spans.all (fun s => !s.noEntry && s.id != 0)
  && (spans.filter (fun s => s.parent == 0)).length == 1
  && spans.all (fun s => reaches spans spans.length s)

/-- ids only, same walk as `render` -/
def rids (kids : Nat → List Nat) : Nat → Nat → List Nat
  | 0, _ => []
  | f + 1, x => x :: (kids x).flatMap (rids kids f)

theorem render_snd (kids : Nat → List Nat) : ∀ (f p x : Nat), (render kids f p x).map Prod.snd = rids kids f x := by
  intro f
  induction f with
  | zero => intro p x; rfl
  | succ f ih =>
    intro p x
    simp only [render, rids, map_cons, map_flatMap, ih]

/-! ### the map -/

theorem mem_toMap_sub : ∀ {l : List Span} {x : Span}, x ∈ toMap l → x ∈ l := by
  intro l
  induction l with
  | nil => intro x h; simp [toMap] at h
  | cons s r ih =>
    intro x h
    simp only [toMap] at h
    split at h
    · exact mem_cons_of_mem _ (ih h)
    · rcases mem_cons.1 h with rfl | h
      · exact mem_cons_self
      · exact mem_cons_of_mem _ (ih h)

theorem toMap_nodup (l : List Span) : ((toMap l).map (·.id)).Nodup := by
  induction l with
  | nil => simp [toMap]
  | cons s r ih =>
    simp only [toMap]
    split
    · exact ih
    · rename_i hany
      simp only [map_cons]
      refine nodup_cons.2 ⟨?_, ih⟩
      intro hm
      obtain ⟨t, ht, hid⟩ := mem_map.1 hm
      apply hany
      exact any_eq_true.2 ⟨t, mem_toMap_sub ht, by simp [hid]⟩

theorem toMap_of_nodup : ∀ {l : List Span}, (l.map (·.id)).Nodup → toMap l = l := by
  intro l
  induction l with
  | nil => intro _; rfl
  | cons s r ih =>
    intro h
    simp only [map_cons] at h
    have ⟨h1, h2⟩ := nodup_cons.1 h
    simp only [toMap]
    split
    · rename_i hany
      obtain ⟨t, ht, hid⟩ := any_eq_true.1 hany
      exact absurd (mem_map.2 ⟨t, ht, by simpa using hid⟩) h1
    · rw [ih h2]

/-- ids are keys: two spans of the map with the same id are the same span -/
theorem eq_of_id_eq : ∀ {m : List Span}, (m.map (·.id)).Nodup → ∀ {s t : Span}, s ∈ m → t ∈ m → s.id = t.id → s = t := by
  intro m
  induction m with
  | nil => intro _ s t hs; simp at hs
  | cons a m ih =>
    intro hnd s t hs ht hid
    simp only [map_cons] at hnd
    have ⟨h1, h2⟩ := nodup_cons.1 hnd
    rcases mem_cons.1 hs with hsa | hs'
    · rcases mem_cons.1 ht with hta | ht'
      · rw [hsa, hta]
      · exact absurd (mem_map.2 ⟨t, ht', by rw [← hid, hsa]⟩) h1
    · rcases mem_cons.1 ht with hta | ht'
      · exact absurd (mem_map.2 ⟨s, hs', by rw [hid, hta]⟩) h1
      · exact ih h2 hs' ht' hid

theorem find_id {m : List Span} (hnd : (m.map (·.id)).Nodup) {s : Span} (hs : s ∈ m) :
    m.find? (fun t => t.id == s.id) = some s := by
  match h : m.find? (fun t => t.id == s.id) with
  | none =>
    have := find?_eq_none.1 h s hs
    simp at this
  | some t =>
    have ht := mem_of_find?_eq_some h
    have hid := find?_some h
    simp only [beq_iff_eq] at hid
    have := eq_of_id_eq hnd ht hs hid
    subst this
    exact h

/-! ### children = inverse of `par` -/

theorem sortSpans_perm (m : List Span) : sortSpans m ~ m := isort_perm _ m

theorem mem_kids {m : List Span} (hnd : (m.map (·.id)).Nodup) (pid c : Nat) :
    c ∈ kidsOfS (sortSpans m) m pid ↔ par m c = some pid := by
  unfold kidsOfS
  constructor
  · intro h
    obtain ⟨s, hs, hid⟩ := mem_map.1 h
    obtain ⟨hsm, hatt⟩ := mem_filter.1 hs
    have hsm := (sortSpans_perm m).mem_iff.1 hsm
    subst hid
    unfold par
    rw [find_id hnd hsm]
    unfold attachedTo at hatt
    simp only [Bool.and_eq_true, beq_iff_eq, Bool.not_eq_true', bne_iff_ne, ne_eq] at hatt
    obtain ⟨⟨⟨h1, h2⟩, h3⟩, h4⟩ := hatt
    subst h1
    simp [h2, h3, h4]
  · intro h
    unfold par at h
    split at h
    · rename_i s hf
      have hsm := mem_of_find?_eq_some hf
      have hid := find?_some hf
      simp only [beq_iff_eq] at hid
      split at h
      · rename_i hc
        simp only [Option.some.injEq] at h
        simp only [Bool.and_eq_true, Bool.not_eq_true', bne_iff_ne, ne_eq] at hc
        refine mem_map.2 ⟨s, mem_filter.2 ⟨(sortSpans_perm m).mem_iff.2 hsm, ?_⟩, hid⟩
        unfold attachedTo
        simp only [Bool.and_eq_true, beq_iff_eq, Bool.not_eq_true', bne_iff_ne, ne_eq]
        exact ⟨⟨⟨h, hc.1.1⟩, hc.1.2⟩, h ▸ hc.2⟩
      · simp at h
    · simp at h

theorem kids_nodup {m : List Span} (hnd : (m.map (·.id)).Nodup) (pid : Nat) :
    (kidsOfS (sortSpans m) m pid).Nodup := by
  unfold kidsOfS
  have h1 : ((sortSpans m).map (·.id)).Nodup := ((sortSpans_perm m).map _).nodup_iff.2 hnd
  exact Nodup.sublist (filter_sublist.map _) h1

/-! ### ancestor chains -/

theorem up_add (m : List Span) (a : Nat) : ∀ (b x : Nat), up m (a + b) x = (up m a x).bind (up m b) := by
  intro b
  induction b with
  | zero => intro x; simp [up]
  | succ b ih =>
    intro x
    show up m (a + b + 1) x = _
    simp only [up, ih]
    cases up m a x <;> simp

theorem up_one (m : List Span) (x : Nat) : up m 1 x = par m x := by simp [up]

theorem up_succ_left (m : List Span) (k x : Nat) : up m (k + 1) x = (par m x).bind (up m k) := by
  rw [Nat.add_comm, up_add, up_one]

/-- `r` is not its own proper ancestor -/
def Acyc (m : List Span) (r : Nat) : Prop := ∀ j, up m (j + 1) r ≠ some r

theorem acyc_of_par_none {m : List Span} {r : Nat} (h : par m r = none) : Acyc m r := by
  intro j
  rw [up_succ_left, h]
  simp

theorem no_loop_below {m : List Span} {r c c' : Nat} (hA : Acyc m r) (hc : par m c = some r)
    (hc' : par m c' = some r) (d : Nat) (h : up m (d + 1) c = some c') : False := by
  have h1 : up m (d + 1 + 1) c = some r := by
    show (up m (d + 1) c).bind (par m) = some r
    rw [h]; exact hc'
  rw [up_succ_left, hc] at h1
  exact hA d h1

theorem acyc_child {m : List Span} {r c : Nat} (hA : Acyc m r) (hc : par m c = some r) : Acyc m c := by
  intro j h
  exact no_loop_below hA hc hc j h

theorem up_split {m : List Span} {x c c' : Nat} {k k' : Nat} (hk : up m k x = some c) (hk' : up m k' x = some c')
    (hlt : k < k') : up m (k' - k - 1 + 1) c = some c' := by
  have : k' = k + (k' - k - 1 + 1) := by omega
  rw [this, up_add, hk] at hk'
  exact hk'

theorem chain_unique {m : List Span} {r c c' x : Nat} (hA : Acyc m r) (hc : par m c = some r)
    (hc' : par m c' = some r) {k k' : Nat} (hk : up m k x = some c) (hk' : up m k' x = some c') : c = c' := by
  rcases Nat.lt_trichotomy k k' with hlt | heq | hgt
  · exact (no_loop_below hA hc hc' _ (up_split hk hk' hlt)).elim
  · subst heq; rw [hk] at hk'; exact Option.some.inj hk'
  · exact (no_loop_below hA hc' hc _ (up_split hk' hk hgt)).elim

/-! ### the walk -/

theorem mem_rids {m : List Span} (hnd : (m.map (·.id)).Nodup) : ∀ (f r x : Nat),
    x ∈ rids (kidsOfS (sortSpans m) m) f r ↔ ∃ k, k < f ∧ up m k x = some r := by
  intro f
  induction f with
  | zero => intro r x; simp [rids]
  | succ f ih =>
    intro r x
    simp only [rids, mem_cons, mem_flatMap]
    constructor
    · rintro (rfl | ⟨c, hc, hx⟩)
      · exact ⟨0, by omega, rfl⟩
      · obtain ⟨k, hk, hup⟩ := (ih c x).1 hx
        refine ⟨k + 1, by omega, ?_⟩
        show (up m k x).bind (par m) = some r
        rw [hup]; exact (mem_kids hnd r c).1 hc
    · rintro ⟨k, hk, hup⟩
      cases k with
      | zero => left; simpa [up] using hup
      | succ k =>
        right
        have : (up m k x).bind (par m) = some r := hup
        match hk' : up m k x, this with
        | some c, this =>
          exact ⟨c, (mem_kids hnd r c).2 this, (ih c x).2 ⟨k, by omega, hk'⟩⟩

theorem nodup_rids {m : List Span} (hnd : (m.map (·.id)).Nodup) : ∀ (f r : Nat), Acyc m r →
    (rids (kidsOfS (sortSpans m) m) f r).Nodup := by
  intro f
  induction f with
  | zero => intro r _; simp [rids]
  | succ f ih =>
    intro r hA
    simp only [rids]
    refine nodup_cons.2 ⟨?_, ?_⟩
    · intro hm
      obtain ⟨c, hc, hr⟩ := mem_flatMap.1 hm
      obtain ⟨k, _, hup⟩ := (mem_rids hnd f c r).1 hr
      have hpc := (mem_kids hnd r c).1 hc
      apply hA k
      show (up m k r).bind (par m) = some r
      rw [hup]; exact hpc
    · unfold Nodup
      rw [pairwise_flatMap]
      refine ⟨fun c hc => ih c (acyc_child hA ((mem_kids hnd r c).1 hc)), ?_⟩
      refine Pairwise.imp_of_mem ?_ (kids_nodup hnd r)
      intro c c' hc hc' hne x hx y hy hxy
      subst hxy
      obtain ⟨k, _, hk⟩ := (mem_rids hnd f c x).1 hx
      obtain ⟨k', _, hk'⟩ := (mem_rids hnd f c' x).1 hy
      exact hne (chain_unique hA ((mem_kids hnd r c).1 hc) ((mem_kids hnd r c').1 hc') hk hk')

/-- every pair the walk emits is a real parent link (or the start pair) -/
theorem render_edges {m : List Span} (hnd : (m.map (·.id)).Nodup) : ∀ (f p0 r p x : Nat),
    (p, x) ∈ render (kidsOfS (sortSpans m) m) f p0 r → (x = r ∧ p = p0) ∨ par m x = some p := by
  intro f
  induction f with
  | zero => intro p0 r p x h; simp [render] at h
  | succ f ih =>
    intro p0 r p x h
    simp only [render, mem_cons, mem_flatMap] at h
    rcases h with h | ⟨c, hc, hx⟩
    · left; simp only [Prod.mk.injEq] at h; exact ⟨h.2, h.1⟩
    · right
      rcases ih r c p x hx with ⟨rfl, rfl⟩ | h
      · exact (mem_kids hnd _ _).1 hc
      · exact h

theorem par_some_mem {m : List Span} {x p : Nat} (h : par m x = some p) :
    ∃ s ∈ m, s.id = x ∧ s.parent = p ∧ s.noEntry = false ∧ p ≠ 0 ∧ ∃ q ∈ m, q.id = p := by
  unfold par at h
  split at h
  · rename_i s hf
    split at h
    · rename_i hc
      simp only [Bool.and_eq_true, Bool.not_eq_true', bne_iff_ne, ne_eq, any_eq_true, beq_iff_eq] at hc
      simp only [Option.some.injEq] at h
      have hid := find?_some hf
      simp only [beq_iff_eq] at hid
      obtain ⟨⟨h1, h2⟩, q, hq, hqid⟩ := hc
      exact ⟨s, mem_of_find?_eq_some hf, hid, h, h1, h ▸ h2, q, hq, h ▸ hqid⟩
    · simp at h
  · simp at h

theorem par_root {m : List Span} (hnd : (m.map (·.id)).Nodup) {r : Span} (hr : r ∈ m) (hp : r.parent = 0) :
    par m r.id = none := by
  unfold par
  rw [find_id hnd hr]
  simp [hp]

theorem par_noEntry {m : List Span} (hnd : (m.map (·.id)).Nodup) {r : Span} (hr : r ∈ m) (hp : r.noEntry = true) :
    par m r.id = none := by
  unfold par
  rw [find_id hnd hr]
  simp [hp]

theorem par_missing {m : List Span} (hnd : (m.map (·.id)).Nodup) {s : Span} (hs : s ∈ m)
    (hmiss : ∀ q ∈ m, q.id ≠ s.parent) : par m s.id = none := by
  unfold par
  rw [find_id hnd hs]
  have : m.any (fun p => p.id == s.parent) = false := by
    rw [any_eq_false]
    intro q hq
    simpa using hmiss q hq
  simp [this]

theorem par_attached {m : List Span} (hnd : (m.map (·.id)).Nodup) {s p : Span} (hs : s ∈ m) (hp : p ∈ m)
    (he : s.noEntry = false) (h0 : s.parent ≠ 0) (hpp : p.id = s.parent) : par m s.id = some p.id := by
  unfold par
  rw [find_id hnd hs]
  have : m.any (fun q => q.id == s.parent) = true := any_eq_true.2 ⟨p, hp, by simp [hpp]⟩
  simp [he, h0, this, hpp]

theorem up_mem_ids {m : List Span} {k x y : Nat} (h : up m k x = some y) (hy : y ∈ m.map (·.id)) :
    x ∈ m.map (·.id) := by
  cases k with
  | zero => simp [up] at h; subst h; exact hy
  | succ k =>
    rw [up_succ_left] at h
    match hp : par m x, h with
    | some p, _ =>
      obtain ⟨s, hs, hid, _⟩ := par_some_mem hp
      exact mem_map.2 ⟨s, hs, hid⟩

/-- in a map where every span has an entry, `reaches` gives an ancestor chain to a span without parent -/
theorem reaches_up {m : List Span} (hnd : (m.map (·.id)).Nodup) (hall : ∀ s ∈ m, s.noEntry = false) :
    ∀ (f : Nat) (s : Span), s ∈ m → reaches m f s = true →
      ∃ k, k ≤ f ∧ ∃ r ∈ m, r.parent = 0 ∧ up m k s.id = some r.id := by
  intro f
  induction f with
  | zero =>
    intro s hs h
    simp only [reaches, beq_iff_eq] at h
    exact ⟨0, Nat.le_refl _, s, hs, h, rfl⟩
  | succ f ih =>
    intro s hs h
    by_cases h0 : s.parent = 0
    · exact ⟨0, by omega, s, hs, h0, rfl⟩
    · simp only [reaches, Bool.or_eq_true, beq_iff_eq, h0, false_or] at h
      split at h
      · rename_i p hf
        have hpm := mem_of_find?_eq_some hf
        have hpid := find?_some hf
        simp only [beq_iff_eq] at hpid
        obtain ⟨k, hk, r, hr, hr0, hup⟩ := ih p hpm h
        refine ⟨k + 1, by omega, r, hr, hr0, ?_⟩
        rw [up_succ_left, par_attached hnd hs hpm (hall s hs) h0 hpid]
        exact hup
      · simp at h

/-! ### the root -/

theorem cands_perm (m : List Span) : cands m ~ m.filter isCand := (sortSpans_perm m).filter _

theorem pickRoot_mem {m : List Span} {pick : Nat} {r : Span} (h : pickRoot m pick = some r) :
    r ∈ m ∧ r.noEntry = false ∧ r.parent = 0 := by
  unfold pickRoot at h
  simp only [] at h
  split at h
  · simp at h
  · have hm := mem_of_getElem? h
    have := (cands_perm m).mem_iff.1 hm
    obtain ⟨h1, h2⟩ := mem_filter.1 this
    unfold isCand at h2
    simp only [Bool.and_eq_true, Bool.not_eq_true', beq_iff_eq] at h2
    exact ⟨h1, h2.1, h2.2⟩

theorem treeView_some {spans : List Span} {pick : Nat} {view : List (Nat × Nat)}
    (h : treeView spans pick = some view) :
    ∃ r, pickRoot (toMap spans) pick = some r ∧ r.id ≠ 0 ∧
      view = render (kidsOfS (sortSpans (toMap spans)) (toMap spans)) ((toMap spans).length + 1) 0 r.id := by
  unfold treeView buildTree at h
  simp only [] at h
  match hp : pickRoot (toMap spans) pick with
  | none => rw [hp] at h; simp at h
  | some r =>
    rw [hp] at h
    simp only [] at h
    by_cases hid : r.id = 0
    · simp [hid] at h
    · have : (r.id == 0) = false := by simpa using hid
      simp only [this, Bool.false_eq_true, if_false, Option.some.injEq] at h
      exact ⟨r, rfl, hid, h.symm⟩

end SigModel.Lemmas.C12
