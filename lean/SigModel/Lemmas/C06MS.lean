/-
C06, a DataProcessor with SEVERAL input streams (Model/PipePlan.lean section 6): what `msRun` (getStreamInput, default
branch) hands to the processor is the merge of all streams by the comparator, cut at the limit, whatever the batch
boundaries of the streams are; and the fast path `anyRun` delivers every row exactly once, whatever the schedule.
Core Lean only.
-/
import SigModel.Lemmas.C06P

namespace SigModel.Lemmas.C06MS
open List SigModel.Pipe SigModel.PipePlan SigModel.Lemmas.C06P

/-! ### the fast path (fetchFromAnyStream) -/

theorem modify_tail_eq {α : Type} : ∀ (qs : List (List α)) (i : Nat), qs.modify i List.tail = dropHeadAt qs i
  | [], i => by simp [dropHeadAt]
  | q :: qs, 0 => by simp [dropHeadAt]
  | q :: qs, i + 1 => by simp [dropHeadAt, modify_tail_eq qs i]

/-- whatever the schedule, the fast path delivers every row of every batch exactly once -/
theorem anyRun_perm : ∀ (fuel : Nat) (sched : List Nat) (ss : List (List Table)), (ss.map List.length).sum < fuel →
    (anyRun fuel sched ss).flatten ~ ss.flatten.flatten
  | 0, _, _, h => by omega
  | fuel + 1, sched, ss, hf => by
    have hfl := flatten_filter_nonempty ss
    by_cases hemp : (ss.filter (fun s => !s.isEmpty)).isEmpty = true
    · have h0 : ss.filter (fun s => !s.isEmpty) = [] := by simpa using hemp
      have : ss.flatten = [] := by rw [← hfl, h0]; rfl
      simp [anyRun, hemp, this]
    · have hlne : ss.filter (fun s => !s.isEmpty) ≠ [] := by simpa using hemp
      have hall : ∀ q, q ∈ ss.filter (fun s => !s.isEmpty) → q ≠ [] := by
        intro q hq e
        have := (mem_filter.mp hq).2
        simp [e] at this
      simp only [anyRun, hemp, Bool.false_eq_true, ↓reduceIte]
      rw [← hfl]
      have hlen : totalLen (ss.filter (fun s => !s.isEmpty)) = totalLen ss := by
        rw [totalLen_eq, totalLen_eq, hfl]
      generalize ss.filter (fun s => !s.isEmpty) = live at hlne hall hlen ⊢
      have hi : sched.headD 0 % live.length < live.length := Nat.mod_lt _ (length_pos_iff.mpr hlne)
      generalize sched.headD 0 % live.length = i at hi ⊢
      have hget : live[i]? = some live[i] := getElem?_eq_getElem hi
      cases hq : live[i] with
      | nil => exact absurd hq (hall _ (getElem_mem hi))
      | cons b t =>
        rw [hq] at hget
        rw [hget]
        simp only [flatten_cons]
        have hp := dropHeadAt_perm live i b t hget
        rw [modify_tail_eq]
        have hl2 : totalLen live = totalLen (dropHeadAt live i) + 1 := by
          rw [totalLen_eq, totalLen_eq, hp.length_eq]; simp
        have ih := anyRun_perm fuel sched.tail (dropHeadAt live i) (by
          unfold totalLen at hl2 hlen; omega)
        have := hp.flatten
        simp only [flatten_cons] at this
        exact (ih.append_left b).trans this.symm

/-! ### the record-level merge over cached streams (getStreamInput, default branch) -/

/-- a stream whose current batch lost its head -/
def dropS : List MStream → Nat → List MStream
  | [], _ => []
  | s :: ss, 0 => { s with cur := s.cur.tail } :: ss
  | s :: ss, i + 1 => s :: dropS ss i

/-- what is left of a batch goes back to its stream -/
abbrev setCur (s : MStream) (q : Table) : MStream := { s with cur := q }

/-- the batches not yet fetched, per stream: the part of the termination measure that is not rows -/
def wt (ss : List MStream) : Nat := ((ss.map (·.rest)).map (fun r => r.length + 1)).sum

theorem dropHeadAt_map : ∀ (ss : List MStream) (i : Nat), dropHeadAt (ss.map (·.cur)) i = (dropS ss i).map (·.cur)
  | [], i => by simp [dropHeadAt, dropS]
  | s :: ss, 0 => by simp [dropHeadAt, dropS]
  | s :: ss, i + 1 => by simp [dropHeadAt, dropS, dropHeadAt_map ss i]

theorem zipWith_dropS : ∀ (ss : List MStream) (i : Nat) (qs : List Table),
    zipWith setCur (dropS ss i) qs = zipWith setCur ss qs
  | [], i, qs => by simp [dropS]
  | s :: ss, i, [] => by cases i <;> simp [dropS]
  | s :: ss, 0, q :: qs => by simp [dropS, setCur]
  | s :: ss, i + 1, q :: qs => by simp [dropS, zipWith_dropS ss i qs]

theorem zipWith_self : ∀ (ss : List MStream), zipWith setCur ss (ss.map (·.cur)) = ss
  | [] => rfl
  | s :: ss => by simp [setCur, zipWith_self ss]

theorem dropS_rest : ∀ (ss : List MStream) (i : Nat), (dropS ss i).map (·.rest) = ss.map (·.rest)
  | [], i => by simp [dropS]
  | s :: ss, 0 => by simp [dropS]
  | s :: ss, i + 1 => by simp [dropS, dropS_rest ss i]

theorem dropS_perm : ∀ (ss : List MStream) (i : Nat) (h : Row) (t : Table), (ss.map (·.cur))[i]? = some (h :: t) →
    ss.flatMap MStream.rows ~ h :: (dropS ss i).flatMap MStream.rows
  | [], i, h, t, e => by simp at e
  | s :: ss, 0, h, t, e => by
    simp only [map_cons, getElem?_cons_zero, Option.some.injEq] at e
    simp [dropS, MStream.rows, e]
  | s :: ss, i + 1, h, t, e => by
    simp only [map_cons, getElem?_cons_succ] at e
    have ih := dropS_perm ss i h t e
    simp only [dropS, flatMap_cons]
    exact ((Perm.refl _).append ih).trans perm_middle

theorem dropS_sorted {R : Row → Row → Prop} : ∀ (ss : List MStream) (i : Nat), (∀ s, s ∈ ss → s.rows.Pairwise R) →
    ∀ s, s ∈ dropS ss i → s.rows.Pairwise R
  | [], i, _, s, hs => by simp [dropS] at hs
  | p :: ss, 0, hs, s, hm => by
    simp only [dropS, mem_cons] at hm
    rcases hm with rfl | hm
    · have := hs p mem_cons_self
      simp only [MStream.rows] at this ⊢
      exact this.sublist ((tail_sublist p.cur).append (Sublist.refl _))
    · exact hs s (mem_cons_of_mem _ hm)
  | p :: ss, i + 1, hs, s, hm => by
    simp only [dropS, mem_cons] at hm
    rcases hm with rfl | hm
    · exact hs s mem_cons_self
    · exact dropS_sorted ss i (fun s hs' => hs s (mem_cons_of_mem _ hs')) s hm

section round
variable {le less : Row → Row → Bool}
variable (htr : ∀ a b c : Row, le a b = true → le b c = true → le a c = true) (htot : ∀ a b : Row, (le a b || le b a) = true)
variable (hl : ∀ a b : Row, less a b = !le b a)
include htr htot hl

/-- one round of MergeIQRs over the current batches of streams that are sorted as a whole: what is merged is sorted and is
not after any row that stays in a stream (in what is left of its batch or in the batches it has not delivered yet), no row is
lost, every stream stays sorted, and the batches not yet delivered are untouched -/
theorem msRound_spec : ∀ (fuel : Nat) (live : List MStream), (∀ s, s ∈ live → s.rows.Pairwise (fun a b => le a b = true)) →
    ((mergeRound less fuel (live.map (·.cur))).1 ++
        (zipWith setCur live (mergeRound less fuel (live.map (·.cur))).2).flatMap MStream.rows ~ live.flatMap MStream.rows) ∧
    (∀ s, s ∈ zipWith setCur live (mergeRound less fuel (live.map (·.cur))).2 → s.rows.Pairwise (fun a b => le a b = true)) ∧
    (∀ x y, x ∈ (mergeRound less fuel (live.map (·.cur))).1 →
        y ∈ (zipWith setCur live (mergeRound less fuel (live.map (·.cur))).2).flatMap MStream.rows → le x y = true) ∧
    ((zipWith setCur live (mergeRound less fuel (live.map (·.cur))).2).map (·.rest) = live.map (·.rest)) ∧
    (mergeRound less fuel (live.map (·.cur))).1.Pairwise (fun a b => le a b = true)
  | 0, live, hs => by
    simp only [mergeRound, zipWith_self, nil_append]
    exact ⟨Perm.refl _, hs, by simp, trivial, Pairwise.nil⟩
  | fuel + 1, live, hs => by
    by_cases hany : (live.map (·.cur)).any List.isEmpty = true
    · simp only [mergeRound, hany, ↓reduceIte, zipWith_self, nil_append]
      exact ⟨Perm.refl _, hs, by simp, trivial, Pairwise.nil⟩
    · have hne : ∀ q, q ∈ live.map (·.cur) → q ≠ [] := by
        intro q hq e
        apply hany
        simp only [any_eq_true]
        exact ⟨q, hq, by simp [e]⟩
      cases hmin : indexOfMin less ((live.map (·.cur)).filterMap List.head?) with
      | none =>
        simp only [mergeRound, hany, Bool.false_eq_true, ↓reduceIte, hmin, zipWith_self, nil_append]
        exact ⟨Perm.refl _, hs, by simp, trivial, Pairwise.nil⟩
      | some r =>
        obtain ⟨i, h⟩ := r
        have sp := indexOfMin_spec htr htot hl hmin
        have hget := heads_get (live.map (·.cur)) i hne
        rw [sp.1] at hget
        obtain ⟨qi, hqi, hhead⟩ : ∃ qi, (live.map (·.cur))[i]? = some qi ∧ qi.head? = some h := by
          cases e : (live.map (·.cur))[i]? with
          | none => simp [e] at hget
          | some qi => exact ⟨qi, rfl, by simpa [e] using hget.symm⟩
        obtain ⟨t, rfl⟩ : ∃ t, qi = h :: t := by
          cases qi with
          | nil => simp at hhead
          | cons a t => simp at hhead; exact ⟨t, by rw [hhead]⟩
        have hperm := dropS_perm live i h t hqi
        -- h is not after any row of any stream
        have hmin' : ∀ y, y ∈ live.flatMap MStream.rows → le h y = true := by
          intro y hy
          rcases mem_flatMap.mp hy with ⟨s, hsl, hys⟩
          have hsr := hs s hsl
          have hcne := hne s.cur (mem_map.mpr ⟨s, hsl, rfl⟩)
          simp only [MStream.rows] at hys hsr
          cases hc : s.cur with
          | nil => exact absurd hc hcne
          | cons a tq =>
            rw [hc] at hys hsr
            have ha : le h a = true := sp.2 a (by
              apply mem_filterMap.mpr
              exact ⟨a :: tq, mem_map.mpr ⟨s, hsl, hc⟩, rfl⟩)
            simp only [cons_append] at hys hsr
            rcases mem_cons.mp hys with rfl | hyt
            · exact ha
            · exact htr _ _ _ ha (rel_of_pairwise_cons hsr hyt)
        have ih := msRound_spec fuel (dropS live i) (dropS_sorted live i hs)
        simp only [mergeRound, hany, Bool.false_eq_true, ↓reduceIte, hmin]
        rw [dropHeadAt_map]
        rw [zipWith_dropS] at ih
        have hsub : ∀ y, y ∈ (mergeRound less fuel ((dropS live i).map (·.cur))).1 ++
              (zipWith setCur live (mergeRound less fuel ((dropS live i).map (·.cur))).2).flatMap MStream.rows →
            y ∈ live.flatMap MStream.rows := fun y hy =>
          hperm.symm.subset (mem_cons_of_mem _ (ih.1.subset hy))
        refine ⟨?_, ih.2.1, ?_, ?_, ?_⟩
        · simp only [cons_append]
          exact ((Perm.cons h ih.1).trans hperm.symm)
        · intro x y hx hy
          rcases mem_cons.mp hx with rfl | hx
          · exact hmin' y (hsub y (mem_append_right _ hy))
          · exact ih.2.2.1 x y hx hy
        · rw [ih.2.2.2.1, dropS_rest]
        · exact pairwise_cons.mpr ⟨fun x hx => hmin' x (hsub x (mem_append_left _ hx)), ih.2.2.2.2⟩

end round

/-! ### CachedStream.Fetch keeps the rows -/

theorem refill_some {s s' : MStream} (h : refill s = some s') :
    s'.rows = s.rows ∧ s'.rest.length ≤ s.rest.length ∧ (s'.rest.length < s.rest.length ∨ s'.cur ≠ []) := by
  obtain ⟨cur, rest⟩ := s
  cases cur with
  | nil =>
    cases rest with
    | nil => simp [refill] at h
    | cons b bs =>
      simp [refill] at h
      subst h
      simp [MStream.rows]
  | cons a t =>
    simp [refill] at h
    subst h
    simp

theorem refill_none {s : MStream} (h : refill s = none) : s.rows = [] := by
  obtain ⟨cur, rest⟩ := s
  cases cur with
  | nil =>
    cases rest with
    | nil => rfl
    | cons b bs => simp [refill] at h
  | cons a t => simp [refill] at h

theorem wt_cons (s : MStream) (ss : List MStream) : wt (s :: ss) = s.rest.length + 1 + wt ss := by
  simp [wt]

theorem refill_all : ∀ ss : List MStream,
    (ss.filterMap refill).flatMap MStream.rows = ss.flatMap MStream.rows ∧ wt (ss.filterMap refill) ≤ wt ss ∧
      (wt (ss.filterMap refill) < wt ss ∨ ∀ s, s ∈ ss.filterMap refill → s.cur ≠ [])
  | [] => by simp [wt]
  | s :: ss => by
    obtain ⟨h1, h2, h3⟩ := refill_all ss
    cases hr : refill s with
    | none =>
      simp only [filterMap_cons, hr, flatMap_cons, refill_none hr, nil_append, wt_cons]
      exact ⟨h1, by omega, Or.inl (by omega)⟩
    | some s' =>
      obtain ⟨e1, e2, e3⟩ := refill_some hr
      simp only [filterMap_cons, hr, flatMap_cons, wt_cons, e1, h1]
      refine ⟨trivial, by omega, ?_⟩
      rcases e3 with e3 | e3
      · exact Or.inl (by omega)
      · rcases h3 with h3 | h3
        · exact Or.inl (by omega)
        · right
          intro x hx
          rcases mem_cons.mp hx with rfl | hx
          · exact e3
          · exact h3 x hx

theorem takeOpt_nil {α : Type} (o : Option Nat) : takeOpt o ([] : List α) = [] := by
  cases o <;> simp [takeOpt]

theorem meas_eq : ∀ ss : List MStream,
    (ss.map (fun s => s.rows.length + s.rest.length + 1)).sum = (ss.flatMap MStream.rows).length + wt ss
  | [] => by simp [wt]
  | s :: ss => by
    simp only [map_cons, sum_cons, flatMap_cons, length_append, wt_cons, meas_eq ss]
    omega

section msRun
variable {le less : Row → Row → Bool}
variable (htr : ∀ a b c : Row, le a b = true → le b c = true → le a c = true) (htot : ∀ a b : Row, (le a b || le b a) = true)
variable (hl : ∀ a b : Row, less a b = !le b a)
include htr htot hl

theorem msRun_spec_aux (limit : Option Nat) : ∀ (fuel : Nat) (ss : List MStream) (numReturned : Nat),
    (∀ s, s ∈ ss → s.rows.Pairwise (fun a b => le a b = true)) →
    AS le (ss.flatMap MStream.rows) →
    (ss.flatMap MStream.rows).length + wt ss < fuel →
    (msRun less limit fuel ss numReturned).flatten
      = takeOpt (limit.map (· - numReturned)) ((ss.flatMap MStream.rows).mergeSort le)
  | 0, _, _, _, _, hf => by omega
  | fuel + 1, ss, n, hs, as, hf => by
    obtain ⟨hrows, hwle, hwor⟩ := refill_all ss
    have hls : ∀ s, s ∈ ss.filterMap refill → s.rows.Pairwise (fun a b => le a b = true) := by
      intro s hm
      rcases mem_filterMap.mp hm with ⟨s0, hs0, hr0⟩
      rw [(refill_some hr0).1]
      exact hs s0 hs0
    by_cases hemp : (ss.filterMap refill).isEmpty = true
    · have h0 : ss.filterMap refill = [] := by simpa using hemp
      have : ss.flatMap MStream.rows = [] := by rw [← hrows, h0]; rfl
      simp [msRun, hemp, this, takeOpt_nil]
    · have hlne : ss.filterMap refill ≠ [] := by simpa using hemp
      have sp := msRound_spec htr htot hl (totalLen ((ss.filterMap refill).map (·.cur)) + 1) _ hls
      rw [hrows] at sp
      have hprog : wt (ss.filterMap refill) < wt ss ∨
          (mergeRound less (totalLen ((ss.filterMap refill).map (·.cur)) + 1) ((ss.filterMap refill).map (·.cur))).1 ≠ [] := by
        rcases hwor with h | h
        · exact Or.inl h
        · right
          apply mergeRound_progress
          · simpa using hlne
          · intro q hq
            rcases mem_map.mp hq with ⟨s, hsm, rfl⟩
            exact h s hsm
      have hwt : wt (zipWith setCur (ss.filterMap refill)
          (mergeRound less (totalLen ((ss.filterMap refill).map (·.cur)) + 1) ((ss.filterMap refill).map (·.cur))).2)
            = wt (ss.filterMap refill) := by
        unfold wt
        rw [sp.2.2.2.1]
      simp only [msRun, hemp, Bool.false_eq_true, ↓reduceIte]
      generalize ss.filterMap refill = live at sp hprog hwt hwle ⊢
      generalize mergeRound less (totalLen (live.map (·.cur)) + 1) (live.map (·.cur)) = r at sp hprog hwt ⊢
      change (if limit.map (· - n) = some 0 then [] else
        takeOpt (limit.map (· - n)) r.1 ::
          msRun less limit fuel (zipWith setCur live r.2) (n + (takeOpt (limit.map (· - n)) r.1).length)).flatten = _
      generalize zipWith setCur live r.2 = next at sp hwt ⊢
      obtain ⟨sp1, sp2, sp3, -, sp5⟩ := sp
      -- the sorted union starts with what this round merged
      have hsplit : (ss.flatMap MStream.rows).mergeSort le = r.1 ++ (next.flatMap MStream.rows).mergeSort le := by
        apply sorted_perm_eq (le := le)
        · exact as.mono (fun x hx => mem_mergeSort.mp hx)
        · exact (mergeSort_perm _ le).trans (sp1.symm.trans ((Perm.refl r.1).append (mergeSort_perm _ le).symm))
        · exact pairwise_mergeSort htr htot _
        · apply pairwise_append.mpr
          refine ⟨sp5, pairwise_mergeSort htr htot _, ?_⟩
          intro x hx y hy
          exact sp3 x y hx (mem_mergeSort.mp hy)
      have hlen : r.1.length + (next.flatMap MStream.rows).length = (ss.flatMap MStream.rows).length := by
        rw [← length_append]
        exact sp1.length_eq
      have hpos : wt live < wt ss ∨ r.1.length ≥ 1 := by
        rcases hprog with h | h
        · exact Or.inl h
        · right
          cases h' : r.1 with
          | nil => exact absurd h' h
          | cons a t => simp
      have as2 : AS le (next.flatMap MStream.rows) := as.mono (fun x hx => sp1.subset (mem_append_right _ hx))
      by_cases hz : limit.map (· - n) = some 0
      · simp [hz, takeOpt]
      · simp only [hz, ↓reduceIte, flatten_cons]
        rw [msRun_spec_aux limit fuel next _ sp2 as2 (by omega)]
        rw [hsplit]
        cases limit with
        | none => simp [takeOpt]
        | some l =>
          simp only [Option.map_some, takeOpt, take_append, length_take]
          congr 2
          omega

/-- getStreamInput over several sorted streams hands the processor, in total, the merge of all their rows by the comparator,
cut at the limit — whatever the batch boundaries of the streams -/
theorem msRun_spec (limit : Option Nat) (fuel : Nat) (ss : List MStream) (numReturned : Nat)
    (hs : ∀ s, s ∈ ss → s.rows.Pairwise (fun a b => le a b = true))
    (as : AS le (ss.flatMap MStream.rows))
    (hf : (ss.map (fun s => s.rows.length + s.rest.length + 1)).sum < fuel) :
    (msRun less limit fuel ss numReturned).flatten
      = takeOpt (limit.map (· - numReturned)) ((ss.flatMap MStream.rows).mergeSort le) :=
  msRun_spec_aux htr htot hl limit fuel ss numReturned hs as (by rw [← meas_eq]; exact hf)

omit htr htot hl in
theorem fresh_rows : ∀ (sa : List (List Table)),
    (sa.map (fun s => ({ rest := s } : MStream))).flatMap MStream.rows = (sa.map List.flatten).flatten
  | [] => rfl
  | s :: sa => by simp [MStream.rows, fresh_rows sa]

/-- the merge branch of streamInput: how the streams are cut into batches (and how the rows are dealt to sorted streams)
does not matter -/
theorem msRun_batches_irrelevant (limit : Option Nat) (sa sb : List (List Table))
    (hp : (sa.map List.flatten).flatten ~ (sb.map List.flatten).flatten)
    (hsa : ∀ s, s ∈ sa → s.flatten.Pairwise (fun a b => le a b = true))
    (hsb : ∀ s, s ∈ sb → s.flatten.Pairwise (fun a b => le a b = true))
    (as : AS le (sa.map List.flatten).flatten) :
    (msRun less limit (msFuel (sa.map (fun s => { rest := s }))) (sa.map (fun s => { rest := s })) 0).flatten
      = (msRun less limit (msFuel (sb.map (fun s => { rest := s }))) (sb.map (fun s => { rest := s })) 0).flatten := by
  have asb : AS le (sb.map List.flatten).flatten := as.mono (fun x hx => hp.symm.subset hx)
  have srt : ∀ (sx : List (List Table)), (∀ s, s ∈ sx → s.flatten.Pairwise (fun a b => le a b = true)) →
      ∀ s, s ∈ sx.map (fun s => ({ rest := s } : MStream)) → s.rows.Pairwise (fun a b => le a b = true) := by
    intro sx h s hm
    rcases mem_map.mp hm with ⟨s0, hs0, rfl⟩
    simpa [MStream.rows] using h s0 hs0
  rw [msRun_spec htr htot hl limit _ _ 0 (srt sa hsa) (by rw [fresh_rows]; exact as) (by unfold msFuel; omega)]
  rw [msRun_spec htr htot hl limit _ _ 0 (srt sb hsb) (by rw [fresh_rows]; exact asb) (by unfold msFuel; omega)]
  rw [fresh_rows, fresh_rows, mergeSort_perm_eq htr htot as hp]

end msRun

end SigModel.Lemmas.C06MS
