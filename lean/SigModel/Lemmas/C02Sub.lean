/-
C02, free-text matcher `utils.IsSubWordPresent` (model `Bloom.subWord`): the loop over start offsets as an existential
over one offset.  Core Lean only.
-/
import SigModel.Model.Bloom

namespace SigModel.Bloom
open SigModel.Tlv (Bytes)

theorem subWord_iff_index (ci : Bool) (hay needle : Bytes) :
    subWord ci hay needle = true ↔
      ∃ i, i + needle.length ≤ hay.length ∧ bytesEq ci ((hay.drop i).take needle.length) needle = true ∧
        (i = 0 ∨ hay[i - 1]? = some 32) ∧ (i + needle.length = hay.length ∨ hay[i + needle.length]? = some 32) := by
  unfold subWord
  by_cases hn : needle.length > hay.length
  · simp only [hn, if_true]
    constructor
    · intro h; exact absurd h (by simp)
    · rintro ⟨i, hi, _⟩; omega
  · simp only [hn, if_false, List.any_eq_true, List.mem_range, Bool.and_eq_true, Bool.or_eq_true, beq_iff_eq]
    constructor
    · rintro ⟨i, hi, ⟨⟨he, hb⟩, ha⟩⟩
      exact ⟨i, by omega, he, hb, ha⟩
    · rintro ⟨i, hi, he, hb, ha⟩
      exact ⟨i, by omega, ⟨⟨he, hb⟩, ha⟩⟩

end SigModel.Bloom
