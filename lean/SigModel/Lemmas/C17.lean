import SigModel.Model.QTable
/-!
Helper lemmas for C17 (running / waiting query tables).
All lemmas are about arbitrary states satisfying an invariant; the property file instantiates them
at the initial state.
-/
namespace SigModel.Lemmas.C17
open SigModel.QTable

/-! ### assoc-list facts -/

theorem lookup_erase_self (q : Nat) (m : List (Nat × RQ)) : lookup q (erase q m) = none := by
  induction m with
  | nil => rfl
  | cons a r ih =>
    obtain ⟨k, v⟩ := a
    simp only [erase]
    split
    · exact ih
    · simp [lookup, *]

theorem lookup_put_self (q : Nat) (v : RQ) (m : List (Nat × RQ)) : lookup q (put q v m) = some v := by
  simp [put, lookup]

theorem mem_keys_erase {q k : Nat} {m : List (Nat × RQ)} (h : k ∈ (erase q m).map Prod.fst) :
    k ∈ m.map Prod.fst ∧ k ≠ q := by
  induction m with
  | nil => simp [erase] at h
  | cons a r ih =>
    obtain ⟨k', v⟩ := a
    simp only [erase] at h
    split at h
    · have := ih h
      simp [this]
    · rename_i hne
      simp only [List.map_cons, List.mem_cons] at h ⊢
      rcases h with h | h
      · subst h; exact ⟨Or.inl rfl, hne⟩
      · have := ih h; exact ⟨Or.inr this.1, this.2⟩

theorem nodup_keys_erase (q : Nat) (m : List (Nat × RQ)) (h : (m.map Prod.fst).Nodup) :
    ((erase q m).map Prod.fst).Nodup := by
  induction m with
  | nil => simp [erase]
  | cons a r ih =>
    obtain ⟨k, v⟩ := a
    simp only [List.map_cons, List.nodup_cons] at h
    simp only [erase]
    split
    · exact ih h.2
    · simp only [List.map_cons, List.nodup_cons]
      exact ⟨fun hk => h.1 (mem_keys_erase hk).1, ih h.2⟩

theorem nodup_keys_put (q : Nat) (v : RQ) (m : List (Nat × RQ)) (h : (m.map Prod.fst).Nodup) :
    ((put q v m).map Prod.fst).Nodup := by
  simp only [put, List.map_cons, List.nodup_cons]
  exact ⟨fun hk => (mem_keys_erase hk).2 rfl, nodup_keys_erase q m h⟩

theorem length_erase_le (q : Nat) (m : List (Nat × RQ)) : (erase q m).length ≤ m.length := by
  induction m with
  | nil => simp [erase]
  | cons a r ih =>
    obtain ⟨k, v⟩ := a
    simp only [erase]
    split
    · simp only [List.length_cons]; omega
    · simp only [List.length_cons]; omega

theorem length_put_le (q : Nat) (v : RQ) (m : List (Nat × RQ)) : (put q v m).length ≤ m.length + 1 := by
  have := length_erase_le q m
  simp only [put, List.length_cons]; omega

/-! ### waiting-queue facts -/

theorem length_removeFirstWaiting_le (q : Nat) (l : List RQ) :
    (removeFirstWaiting q l).length ≤ l.length := by
  induction l with
  | nil => simp [removeFirstWaiting]
  | cons a r ih =>
    simp only [removeFirstWaiting]
    split
    · simp only [List.length_cons]; omega
    · simp only [List.length_cons]; omega

theorem mem_of_mem_removeFirstWaiting {q : Nat} {l : List RQ} {x : RQ}
    (h : x ∈ removeFirstWaiting q l) : x ∈ l := by
  induction l with
  | nil => simp [removeFirstWaiting] at h
  | cons a r ih =>
    simp only [removeFirstWaiting] at h
    split at h
    · exact List.mem_cons_of_mem _ h
    · simp only [List.mem_cons] at h ⊢
      rcases h with h | h
      · exact Or.inl h
      · exact Or.inr (ih h)

/-- if `q` is queued at most once, removing its first occurrence leaves none -/
theorem removeFirstWaiting_clears (q : Nat) (l : List RQ)
    (h : (l.filter (fun r => r.qid == q)).length ≤ 1) :
    ∀ r ∈ removeFirstWaiting q l, r.qid ≠ q := by
  induction l with
  | nil => intro r hr; simp [removeFirstWaiting] at hr
  | cons a t ih =>
    intro r hr
    simp only [removeFirstWaiting] at hr
    split at hr
    · rename_i ha
      -- a.qid = q, so the tail has no q
      have hf : (t.filter (fun r => r.qid == q)).length = 0 := by
        simp only [List.filter_cons, ha, beq_self_eq_true, if_true, List.length_cons] at h
        omega
      have hnil : t.filter (fun r => r.qid == q) = [] := List.eq_nil_of_length_eq_zero hf
      intro hq
      have : r ∈ t.filter (fun r => r.qid == q) := by
        simp [List.mem_filter, hr, hq]
      rw [hnil] at this
      simp at this
    · rename_i ha
      have h' : (t.filter (fun r => r.qid == q)).length ≤ 1 := by
        have hb : (a.qid == q) = false := by simp [ha]
        simpa only [List.filter_cons, hb, Bool.false_eq_true, if_false] using h
      simp only [List.mem_cons] at hr
      rcases hr with hr | hr
      · subst hr; exact ha
      · exact ih h' r hr

theorem find?_none_no_qid (q : Nat) (l : List RQ)
    (h : l.find? (fun r => r.qid == q) = none) : ∀ r ∈ l, r.qid ≠ q := by
  intro r hr hq
  have := List.find?_eq_none.mp h r hr
  simp [hq] at this

/-! ### `send` / `runQuery` -/

theorem send_cancelled (r : RQ) (msg : Nat) : (send r msg).1.cancelled = r.cancelled := by
  unfold send; split <;> rfl

theorem send_not_blocked (r : RQ) (msg : Nat) (h : r.chanLen < chanCap) : (send r msg).2 = false := by
  unfold send; simp [h]

theorem send_chanLen (r : RQ) (msg : Nat) (h : r.chanLen < chanCap) :
    (send r msg).1.chanLen = r.chanLen + 1 := by
  unfold send; simp [h]

/-- `runQuery` without the pattern-matching lets -/
theorem runQuery_eq (s : St) (r : RQ) :
    runQuery s r =
      if r.cancelled then s
      else { s with running := put r.qid (send (send (arm r) 1).1 2).1 s.running,
                    blocked := s.blocked || (send (arm r) 1).2 || (send (send (arm r) 1).1 2).2 } := by
  unfold runQuery; split <;> rfl

theorem runQuery_cancelled (s : St) (r : RQ) (h : r.cancelled = true) : runQuery s r = s := by
  simp [runQuery_eq, h]

theorem runQuery_waiting (s : St) (r : RQ) : (runQuery s r).waiting = s.waiting := by
  rw [runQuery_eq]; split <;> rfl

theorem runQuery_maxRunning (s : St) (r : RQ) : (runQuery s r).maxRunning = s.maxRunning := by
  rw [runQuery_eq]; split <;> rfl

theorem runQuery_running_length (s : St) (r : RQ) :
    (runQuery s r).running.length ≤ s.running.length + 1 := by
  rw [runQuery_eq]; split
  · omega
  · exact length_put_le _ _ _

theorem runQuery_nodup (s : St) (r : RQ) (h : (s.running.map Prod.fst).Nodup) :
    ((runQuery s r).running.map Prod.fst).Nodup := by
  rw [runQuery_eq]; split
  · exact h
  · exact nodup_keys_put _ _ _ h

/-- an object whose channel has room for two messages enters the running table without blocking -/
theorem runQuery_blocked (s : St) (r : RQ) (hb : s.blocked = false) (hr : r.chanLen + 2 ≤ chanCap) :
    (runQuery s r).blocked = false := by
  rw [runQuery_eq]; split
  · exact hb
  · have ha : (arm r).chanLen = r.chanLen := rfl
    have h1 : (send (arm r) 1).2 = false := send_not_blocked (arm r) 1 (by omega)
    have h2 : (send (send (arm r) 1).1 2).2 = false := by
      apply send_not_blocked
      rw [send_chanLen (arm r) 1 (by omega)]; omega
    simp [hb, h1, h2]

/-! ### the operations factored out of `step` -/

theorem startQuery_waiting_bounded (s : St) (q : Nat) (force coord : Bool)
    (h : s.waiting.length ≤ maxWaiting) : (startQuery s q force coord).1.waiting.length ≤ maxWaiting := by
  simp only [startQuery]
  split
  · exact h
  · split
    · rw [runQuery_waiting]; exact h
    · split
      · exact h
      · rename_i hlt
        simp only [List.length_append, List.length_cons, List.length_nil]
        simp only [ge_iff_le, Nat.not_le] at hlt
        omega

theorem startQuery_nodup (s : St) (q : Nat) (force coord : Bool) (h : (s.running.map Prod.fst).Nodup) :
    ((startQuery s q force coord).1.running.map Prod.fst).Nodup := by
  simp only [startQuery]
  split
  · exact h
  · split
    · exact runQuery_nodup _ _ h
    · split <;> exact h

theorem cancelQuery_waiting_le (s : St) (q : Nat) :
    (cancelQuery s q).1.waiting.length ≤ s.waiting.length := by
  have hle := length_removeFirstWaiting_le q s.waiting
  simp only [cancelQuery]
  split
  · split
    · exact Nat.le_refl _
    · exact hle
  · exact hle

theorem cancelQuery_nodup (s : St) (q : Nat) (h : (s.running.map Prod.fst).Nodup) :
    ((cancelQuery s q).1.running.map Prod.fst).Nodup := by
  simp only [cancelQuery]
  split
  · split <;> exact h
  · exact nodup_keys_put _ _ _ h

theorem selfSend_waiting (s : St) (q msg : Nat) : (selfSend s q msg).1.waiting = s.waiting := by
  simp only [selfSend]
  split
  · rfl
  · split <;> rfl

theorem selfSend_nodup (s : St) (q msg : Nat) (h : (s.running.map Prod.fst).Nodup) :
    ((selfSend s q msg).1.running.map Prod.fst).Nodup := by
  simp only [selfSend]
  split
  · exact h
  · split
    · exact nodup_keys_put _ _ _ h
    · exact h

theorem fireTimeout_waiting_le (s : St) (q : Nat) :
    (fireTimeout s q).1.waiting.length ≤ s.waiting.length := by
  simp only [fireTimeout]
  split
  · exact Nat.le_refl _
  · split
    · exact Nat.le_refl _
    · split
      · exact cancelQuery_waiting_le _ q
      · exact Nat.le_refl _

theorem fireTimeout_nodup (s : St) (q : Nat) (h : (s.running.map Prod.fst).Nodup) :
    ((fireTimeout s q).1.running.map Prod.fst).Nodup := by
  simp only [fireTimeout]
  split
  · exact h
  · split
    · exact h
    · split
      · exact cancelQuery_nodup _ q (nodup_keys_put _ _ _ h)
      · exact h

theorem restartQuery_waiting_bounded (s : St) (q nq : Nat) (force : Bool)
    (h : s.waiting.length ≤ maxWaiting) : (restartQuery s q nq force).1.waiting.length ≤ maxWaiting := by
  simp only [restartQuery]
  split
  · exact h
  · split
    · exact h
    · split
      · exact h
      · split
        · exact h
        · split
          · rw [runQuery_waiting]; exact h
          · split
            · exact h
            · rename_i hlt
              simp only [List.length_append, List.length_cons, List.length_nil]
              simp only [ge_iff_le, Nat.not_le] at hlt
              omega

theorem restartQuery_nodup (s : St) (q nq : Nat) (force : Bool) (h : (s.running.map Prod.fst).Nodup) :
    ((restartQuery s q nq force).1.running.map Prod.fst).Nodup := by
  have he := nodup_keys_erase q s.running h
  simp only [restartQuery]
  split
  · exact h
  · split
    · exact h
    · split
      · exact he
      · split
        · exact he
        · split
          · exact runQuery_nodup _ _ he
          · split <;> exact he

/-! ### lifting step invariants over `run` -/

theorem run_inv (P : St → Prop) (hstep : ∀ s op, P s → P (step s op).1) :
    ∀ (ops : List Op) (s : St), P s → P (run s ops) := by
  intro ops
  induction ops with
  | nil => intro s h; exact h
  | cons op ops ih => intro s h; exact ih _ (hstep s op h)

theorem run_inv_of (P : St → Prop) (Q : Op → Prop)
    (hstep : ∀ s op, Q op → P s → P (step s op).1) :
    ∀ (ops : List Op) (s : St), (∀ op ∈ ops, Q op) → P s → P (run s ops) := by
  intro ops
  induction ops with
  | nil => intro s _ h; exact h
  | cons op ops ih =>
    intro s hq h
    exact ih _ (fun o ho => hq o (List.mem_cons_of_mem _ ho))
      (hstep s op (hq op (List.mem_cons_self ..)) h)

/-! ### step invariants -/

/-- C17.1: the waiting queue stays within `maxWaiting` -/
theorem step_waiting_bounded (s : St) (op : Op) (h : s.waiting.length ≤ maxWaiting) :
    (step s op).1.waiting.length ≤ maxWaiting := by
  cases op with
  | start q force => exact startQuery_waiting_bounded s q force false h
  | startc q force => exact startQuery_waiting_bounded s q force true h
  | timeout q => exact Nat.le_trans (fireTimeout_waiting_le s q) h
  | restart q nq force => exact restartQuery_waiting_bounded s q nq force h
  | complete q => simp only [step]; rw [selfSend_waiting]; exact h
  | error q => simp only [step]; rw [selfSend_waiting]; exact h
  | pull =>
    simp only [step]
    split
    · split
      · exact h
      · rename_i r rs heq
        rw [runQuery_waiting]
        rw [heq] at h
        simp only [List.length_cons] at h
        show rs.length ≤ maxWaiting
        omega
    · exact h
  | cancel q => exact Nat.le_trans (cancelQuery_waiting_le s q) h
  | delete q =>
    simp only [step]
    split <;> exact h
  | drain q =>
    simp only [step]
    split <;> exact h

/-- the running table keeps at most one entry per qid -/
theorem step_nodup (s : St) (op : Op) (h : (s.running.map Prod.fst).Nodup) :
    ((step s op).1.running.map Prod.fst).Nodup := by
  cases op with
  | start q force => exact startQuery_nodup s q force false h
  | startc q force => exact startQuery_nodup s q force true h
  | timeout q => exact fireTimeout_nodup s q h
  | restart q nq force => exact restartQuery_nodup s q nq force h
  | complete q => exact selfSend_nodup s q 4 h
  | error q => exact selfSend_nodup s q 7 h
  | pull =>
    simp only [step]
    split
    · split
      · exact h
      · exact runQuery_nodup _ _ h
    · exact h
  | cancel q => exact cancelQuery_nodup s q h
  | delete q =>
    simp only [step]
    split
    · exact h
    · exact nodup_keys_erase _ _ h
  | drain q =>
    simp only [step]
    split
    · exact h
    · exact nodup_keys_put _ _ _ h

/-- invariant for C17.5: nothing blocked so far and every queued object has an empty channel -/
def NoBlock (s : St) : Prop := s.blocked = false ∧ ∀ r ∈ s.waiting, r.chanLen = 0

def NotCancel (op : Op) : Prop := op.admissionOnly = true

theorem startQuery_noBlock (s : St) (q : Nat) (force coord : Bool) (h : NoBlock s) :
    NoBlock (startQuery s q force coord).1 := by
  obtain ⟨hb, hw⟩ := h
  simp only [startQuery]
  split
  · exact ⟨hb, hw⟩
  · split
    · refine ⟨runQuery_blocked _ _ hb (by simp [chanCap]), ?_⟩
      rw [runQuery_waiting]; exact hw
    · split
      · exact ⟨hb, hw⟩
      · refine ⟨hb, ?_⟩
        intro r hr
        simp only [List.mem_append, List.mem_singleton] at hr
        rcases hr with hr | hr
        · exact hw r hr
        · subst hr; rfl

theorem step_noBlock (s : St) (op : Op) (hop : NotCancel op) (h : NoBlock s) :
    NoBlock (step s op).1 := by
  cases op with
  | start q force => exact startQuery_noBlock s q force false h
  | startc q force => exact startQuery_noBlock s q force true h
  | timeout q => simp [NotCancel, Op.admissionOnly] at hop
  | restart q nq force => simp [NotCancel, Op.admissionOnly] at hop
  | complete q => simp [NotCancel, Op.admissionOnly] at hop
  | error q => simp [NotCancel, Op.admissionOnly] at hop
  | cancel q => simp [NotCancel, Op.admissionOnly] at hop
  | pull =>
    obtain ⟨hb, hw⟩ := h
    simp only [step]
    split
    · split
      · exact ⟨hb, hw⟩
      · rename_i r rs heq
        have hr0 : r.chanLen = 0 := hw r (by rw [heq]; exact List.mem_cons_self ..)
        refine ⟨runQuery_blocked _ _ hb (by rw [hr0]; simp [chanCap]), ?_⟩
        rw [runQuery_waiting]
        intro x hx
        exact hw x (by rw [heq]; exact List.mem_cons_of_mem _ hx)
    · exact ⟨hb, hw⟩
  | delete q =>
    obtain ⟨hb, hw⟩ := h
    simp only [step]
    split <;> exact ⟨hb, hw⟩
  | drain q =>
    obtain ⟨hb, hw⟩ := h
    simp only [step]
    split <;> exact ⟨hb, hw⟩

/-! ### single-step facts -/

theorem step_pull_running_length (s : St) (h : s.running.length ≤ s.maxRunning) :
    (step s Op.pull).1.running.length ≤ s.maxRunning := by
  simp only [step]
  split
  · rename_i hlt
    split
    · exact h
    · rename_i r rs _
      have := runQuery_running_length { s with waiting := rs } r
      show (runQuery { s with waiting := rs } r).running.length ≤ s.maxRunning
      simp only at this
      omega
  · exact h

theorem step_delete_lookup (s : St) (q : Nat) :
    lookup q (step s (Op.delete q)).1.running = none := by
  simp only [step]
  split
  · assumption
  · exact lookup_erase_self q s.running

theorem step_start_blocked (s : St) (q : Nat) (force : Bool) (h : s.blocked = false) :
    (step s (Op.start q force)).1.blocked = false := by
  simp only [step, startQuery]
  split
  · exact h
  · split
    · exact runQuery_blocked _ _ h (by simp [chanCap])
    · split <;> exact h

theorem step_cancel_effective (s : St) (q : Nat)
    (huniq : (s.waiting.filter (fun r => r.qid == q)).length ≤ 1) :
    (∀ r ∈ (step s (Op.cancel q)).1.waiting, r.qid ≠ q) ∧
    (∀ r, lookup q (step s (Op.cancel q)).1.running = some r → r.cancelled = true) := by
  simp only [step, cancelQuery]
  split
  · rename_i hl
    split
    · rename_i hf
      refine ⟨find?_none_no_qid q _ hf, ?_⟩
      intro r hr
      simp only [hl] at hr
      exact absurd hr (by simp)
    · refine ⟨removeFirstWaiting_clears q _ huniq, ?_⟩
      intro r hr
      simp only [hl] at hr
      exact absurd hr (by simp)
  · rename_i r0 hl
    refine ⟨removeFirstWaiting_clears q _ huniq, ?_⟩
    intro r hr
    simp only [lookup_put_self, Option.some.injEq] at hr
    subst hr
    rw [send_cancelled]

end SigModel.Lemmas.C17
