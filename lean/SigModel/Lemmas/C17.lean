import SigModel.Model.QTable
namespace SigModel.Lemmas.C17
end SigModel.Lemmas.C17
