/-
Lemmas for Props/C19, second part: Join against a base, and the shape shared by all path builders
(fixed directories, then ONE client-controlled element, then fixed elements).  Core Lean only.
-/
import SigModel.Lemmas.C19
namespace SigModel.Lemmas.C19
open SigModel.Path

/-- an absolute, cleaned base directory -/
def AbsBase (b : NPath) : Prop := b.rooted = true ∧ ∀ s ∈ b.segs, Plain s

theorem absBase_normal {b : NPath} (h : AbsBase b) : Normal b :=
  ⟨b.segs, 0, by simp, fun _ => rfl, h.2⟩

theorem render_abs_append (segs : List Seg) (name : Str) :
    render ⟨true, segs⟩ ++ '/' :: name = dataPath segs ++ name := by
  simp [render, dataPath]

theorem render_abs_ne_nil (segs : List Seg) : render ⟨true, segs⟩ ≠ [] := by simp [render]

/-- filepath.Join(base, name) for an absolute cleaned base, in normal form -/
theorem cleanN_join_base {b : NPath} (hb : AbsBase b) (name : Str) :
    cleanN (join (render b) name) = cleanN (dataPath b.segs ++ name) := by
  obtain ⟨rooted, segs⟩ := b
  obtain ⟨hr, hp⟩ := hb
  simp only at hr hp
  subst hr
  unfold join
  rw [if_neg (render_abs_ne_nil segs)]
  by_cases hn : name = []
  · subst hn
    rw [if_pos rfl]
    have hN : Normal (⟨true, segs⟩ : NPath) := absBase_normal ⟨rfl, hp⟩
    have h1 : clean (render ⟨true, segs⟩) = render ⟨true, segs⟩ := by
      unfold clean; rw [cleanN_render hN]
    rw [h1, cleanN_render hN, cleanN_dataPath segs hp []]
    simp [splitSlash, step]
  · rw [if_neg hn]
    unfold clean
    rw [cleanN_render (cleanN_normal _), render_abs_append]

theorem join_within_of_depthOK' {b : NPath} (hb : AbsBase b) (name : Str) (h : depthOK name) :
    within b (cleanN (join (render b) name)) := by
  rw [cleanN_join_base hb]
  unfold depthOK at h
  cases hw : walk 0 (splitSlash name) with
  | none => simp [hw] at h
  | some m =>
    have := within_dataPath b.segs hb.2 name m hw
    obtain ⟨rooted, segs⟩ := b
    obtain ⟨hr, _⟩ := hb
    simp only at hr
    subst hr
    exact this

theorem join_not_within_of_not_depthOK' {b : NPath} (hb : AbsBase b) (hne : b.segs ≠ []) (name : Str)
    (hfresh : ∀ s ∈ splitSlash name, s ∉ b.segs) (h : ¬ depthOK name) :
    ¬ within b (cleanN (join (render b) name)) := by
  rw [cleanN_join_base hb, cleanN_dataPath b.segs hb.2 name]
  have hw : walk 0 (splitSlash name) = none := by
    unfold depthOK at h
    cases hw : walk 0 (splitSlash name) with
    | none => rfl
    | some m => simp [hw] at h
  have hbr := foldl_walk_none hb.2 hne (splitSlash name) [] (mem_splitSlash_noSlash name) hfresh (by simp) hw
  simp only [List.nil_append] at hbr
  intro hin
  exact broken_not_within hbr hin.2

/-! ### the shape of every builder -/

theorem walk_post : ∀ (post : List Seg) (n : Nat), (∀ s ∈ post, Plain s ∨ s = []) → ∃ m, walk n post = some m
  | [], n, _ => ⟨n, rfl⟩
  | s :: t, n, h => by
    have ht : ∀ x ∈ t, Plain x ∨ x = [] := fun x hx => h x (by simp [hx])
    rcases h s (by simp) with hs | hs
    · rw [walk_plain hs]; exact walk_post t (n + 1) ht
    · rw [walk_skip (Or.inl hs)]; exact walk_post t n ht

theorem noSlash_of_plain_or_nil {s : Seg} (h : Plain s ∨ s = []) : '/' ∉ s := by
  rcases h with h | h
  · exact h.2.2.2
  · simp [h]

/-- data path ++ (fixed elements `pre`, at least one real directory deep) ++ ONE '/'-free client element ++ fixed elements:
    the result is inside the data dir -/
theorem confined_core (d : List Seg) (hd : ∀ s ∈ d, Plain s) (pre post : List Seg) (v : Str)
    (hv : '/' ∉ v) (hpre : ∀ s ∈ pre, '/' ∉ s) (hpost : ∀ s ∈ post, Plain s ∨ s = [])
    (k : Nat) (hk : walk 0 pre = some (k + 1)) :
    within (dataDir d) (cleanN (dataPath d ++ joinSegs (pre ++ v :: post))) := by
  have hall : ∀ s ∈ pre ++ v :: post, '/' ∉ s := by
    intro s hs
    simp at hs
    rcases hs with hs | hs | hs
    · exact hpre s hs
    · exact hs ▸ hv
    · exact noSlash_of_plain_or_nil (hpost s hs)
  have hsplit := splitSlash_joinSegs_plain (pre ++ v :: post) (by simp) hall
  obtain ⟨m1, hm1, _⟩ := walk_single v k
  obtain ⟨m2, hm2⟩ := walk_post post m1 hpost
  have hw : walk 0 (splitSlash (joinSegs (pre ++ v :: post))) = some m2 := by
    rw [hsplit, walk_append, hk]
    simp only [Option.bind_some]
    have : v :: post = [v] ++ post := rfl
    rw [this, walk_append, hm1]
    simpa using hm2
  exact within_dataPath d hd _ m2 hw

theorem noSlash_append {a b : Str} (ha : '/' ∉ a) (hb : '/' ∉ b) : '/' ∉ a ++ b := by
  simp [ha, hb]

theorem uploadName_noSlash {v : Str} (h : '/' ∉ v) : '/' ∉ uploadName v := by
  unfold uploadName
  simp only
  split
  · exact h
  · exact noSlash_append h (by decide)

theorem routeParamOK_noSlash {v : Str} (h : routeParamOK v = true) : '/' ∉ v := by
  unfold routeParamOK at h
  simp at h
  exact h.2

/-! ### `within` on the printed strings -/

theorem joinSegs_append : ∀ (a b : List Seg), a ≠ [] → b ≠ [] → joinSegs (a ++ b) = joinSegs a ++ '/' :: joinSegs b
  | [], _, h, _ => absurd rfl h
  | [s], [], _, h => absurd rfl h
  | [s], t :: r, _, _ => by simp [joinSegs]
  | s :: s2 :: a, b, _, hb => by
    have ih := joinSegs_append (s2 :: a) b (by simp) hb
    simp only [List.cons_append] at ih ⊢
    simp [joinSegs, ih]

theorem splitSlash_render_abs {segs : List Seg} (hne : segs ≠ []) (hp : ∀ s ∈ segs, Plain s) :
    splitSlash (render ⟨true, segs⟩) = [] :: segs := by
  simp only [render, if_true]
  rw [splitSlash]
  simp [splitSlash_joinSegs_plain segs hne (fun x hx => (hp x hx).2.2.2)]

/-- for absolute cleaned paths, `within` is the usual test on the printed strings: equal, or prefix followed by '/' -/
theorem within_string_form' {b p : NPath} (hb : AbsBase b) (hne : b.segs ≠ []) (hp : AbsBase p) :
    within b p ↔ (render p = render b ∨ (render b ++ ['/']) <+: render p) := by
  obtain ⟨br, bs⟩ := b
  obtain ⟨pr, ps⟩ := p
  obtain ⟨hbr, hbp⟩ := hb
  obtain ⟨hpr, hpp⟩ := hp
  simp only at hbr hbp hpr hpp hne
  subst hbr; subst hpr
  constructor
  · rintro ⟨_, r, hr⟩
    simp only at hr
    cases r with
    | nil => left; simp at hr; rw [hr]
    | cons x r' =>
      right
      refine ⟨joinSegs (x :: r'), ?_⟩
      rw [← hr]
      simp [render, joinSegs_append bs (x :: r') hne (by simp)]
  · rintro (h | ⟨t, ht⟩)
    · have h1 := cleanN_render (absBase_normal (b := ⟨true, ps⟩) ⟨rfl, hpp⟩)
      have h2 := cleanN_render (absBase_normal (b := ⟨true, bs⟩) ⟨rfl, hbp⟩)
      rw [h] at h1
      rw [h1] at h2
      rw [h2]
      exact ⟨rfl, List.prefix_refl _⟩
    · refine ⟨rfl, ?_⟩
      simp only
      have hs := congrArg splitSlash ht
      have : render ⟨true, bs⟩ ++ ['/'] ++ t = render ⟨true, bs⟩ ++ '/' :: t := by simp
      rw [this, splitSlash_append_slash, splitSlash_render_abs hne hbp] at hs
      cases ps with
      | nil =>
        have hl := congrArg List.length hs
        have hbl : 0 < bs.length := List.length_pos_iff.mpr hne
        have htl : 0 < (splitSlash t).length := List.length_pos_iff.mpr (splitSlash_ne_nil t)
        simp [render, joinSegs, splitSlash] at hl
        omega
      | cons y ps' =>
        rw [splitSlash_render_abs (by simp) hpp] at hs
        simp at hs
        exact ⟨splitSlash t, hs⟩

end SigModel.Lemmas.C19
