import SigModel.Model.Gorilla
namespace SigModel.Lemmas.C08
end SigModel.Lemmas.C08
