/-
Helper lemmas for C08 (Gorilla codec round trip), part 1: bit IO and byte packing.
Core Lean only.
-/
import SigModel.Model.Gorilla

namespace SigModel.Lemmas.C08
open SigModel SigModel.Gorilla

/-! ### writeBits / readBits -/

theorem writeBits_length (u n : Nat) : (writeBits u n).length = n := by
  induction n with
  | zero => rfl
  | succ n ih => simp [writeBits, ih]

theorem readBitsAux_writeBits (u : Nat) (n : Nat) : ∀ (acc : Nat) (r : Bits),
    readBitsAux n acc (writeBits u n ++ r) = some (acc * 2 ^ n + u % 2 ^ n, r) := by
  induction n with
  | zero => intro acc r; simp [writeBits, readBitsAux, Nat.mod_one]
  | succ n ih =>
    intro acc r
    simp only [writeBits, List.cons_append, readBitsAux]
    rw [ih, Nat.toNat_testBit, @Nat.mod_pow_succ u 2 n, Nat.pow_succ]
    congr 2
    generalize 2 ^ n = p
    generalize u / p % 2 = q
    generalize u % p = m
    rw [Nat.add_mul, Nat.mul_comm p q, Nat.mul_comm 2 acc, Nat.mul_assoc, Nat.mul_comm 2 p]
    omega

theorem readBits_writeBits (u n : Nat) (r : Bits) :
    readBits n (writeBits u n ++ r) = some (u % 2 ^ n, r) := by
  simp [readBits, readBitsAux_writeBits]

/-- reading back a value that fits. -/
theorem readBits_writeBits_lt (u n : Nat) (r : Bits) (h : u < 2 ^ n) :
    readBits n (writeBits u n ++ r) = some (u, r) := by
  rw [readBits_writeBits, Nat.mod_eq_of_lt h]

/-! ### pack / unpack -/

theorem writeBits_byteOfBits8 : ∀ b0 b1 b2 b3 b4 b5 b6 b7 : Bool,
    writeBits (byteOfBits [b0, b1, b2, b3, b4, b5, b6, b7]) 8 = [b0, b1, b2, b3, b4, b5, b6, b7] := by
  decide

/-- `byteOfBits` only looks at the first eight positions (zero padded). -/
theorem byteOfBits_pad (bs : Bits) :
    byteOfBits bs = byteOfBits [bs.getD 0 false, bs.getD 1 false, bs.getD 2 false, bs.getD 3 false,
      bs.getD 4 false, bs.getD 5 false, bs.getD 6 false, bs.getD 7 false] := by
  rfl

theorem writeBits_byteOfBits (bs : Bits) :
    writeBits (byteOfBits bs) 8 = bs.take 8 ++ List.replicate (8 - (bs.take 8).length) false := by
  rw [byteOfBits_pad, writeBits_byteOfBits8]
  rcases bs with _ | ⟨b0, _ | ⟨b1, _ | ⟨b2, _ | ⟨b3, _ | ⟨b4, _ | ⟨b5, _ | ⟨b6, _ | ⟨b7, bs⟩⟩⟩⟩⟩⟩⟩⟩ <;>
    simp [List.replicate]

theorem unpack_cons (x : Nat) (xs : List Nat) : unpack (x :: xs) = writeBits x 8 ++ unpack xs := by
  simp [unpack]

theorem unpack_pack_aux (n : Nat) : ∀ bs : Bits, bs.length ≤ n →
    ∃ k, k < 8 ∧ unpack (pack bs) = bs ++ List.replicate k false := by
  induction n with
  | zero =>
    intro bs h
    have : bs = [] := List.length_eq_zero_iff.mp (by omega)
    subst this
    exact ⟨0, by omega, by simp [pack, unpack]⟩
  | succ n ih =>
    intro bs h
    cases bs with
    | nil => exact ⟨0, by omega, by simp [pack, unpack]⟩
    | cons b bs =>
      rw [pack.eq_2, unpack_cons, writeBits_byteOfBits]
      by_cases hl : (b :: bs).length ≤ 8
      · have hd : List.drop 8 (b :: bs) = [] := List.drop_eq_nil_iff.mpr hl
        have ht : List.take 8 (b :: bs) = b :: bs := List.take_of_length_le hl
        rw [hd, ht]
        refine ⟨8 - (b :: bs).length, ?_, ?_⟩
        · simp only [List.length_cons]; omega
        · simp [pack, unpack]
      · have hlen : (List.drop 8 (b :: bs)).length ≤ n := by
          simp only [List.length_drop, List.length_cons] at h ⊢; omega
        obtain ⟨k, hk, ihk⟩ := ih _ hlen
        have htl : (List.take 8 (b :: bs)).length = 8 := by
          rw [List.length_take]; omega
        refine ⟨k, hk, ?_⟩
        rw [ihk, htl]
        simp only [Nat.sub_self, List.replicate_zero, List.append_nil]
        rw [← List.append_assoc, List.take_append_drop]

theorem unpack_pack (bs : Bits) :
    ∃ k, k < 8 ∧ unpack (pack bs) = bs ++ List.replicate k false :=
  unpack_pack_aux bs.length bs (Nat.le_refl _)

end SigModel.Lemmas.C08
