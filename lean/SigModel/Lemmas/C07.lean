/-
C07 helper lemmas, part 1: file-system frame reasoning for the crash model (SigModel/Model/Crash.lean).
-/
import SigModel.Model.Crash

namespace SigModel.Lemmas.C07
open SigModel.Crash

/-! ### running steps -/

theorem run_nil (fs : FS) : run fs [] = fs := rfl
theorem run_cons (fs : FS) (s : Step) (l : List Step) : run fs (s :: l) = run (apply fs s) l := rfl
theorem run_append (fs : FS) (a b : List Step) : run fs (a ++ b) = run (run fs a) b := by
  simp [run, List.foldl_append]

/-- the flushes a well-formed segment serves: every block summary has its chunks -/
def SegOK (st : SegSt) (fl : List Nat) : Prop :=
  (∀ b ∈ st.bsu, whole st b = true) ∧ st.bsu.map (·.1) = fl

theorem segOK_visible {st : SegSt} {fl : List Nat} (h : SegOK st fl) : segVisible st = fl := by
  unfold segVisible
  rw [List.filter_eq_self.2 h.1, h.2]

theorem segOK_torn {st : SegSt} {fl : List Nat} (h : SegOK st fl) : segTorn st = [] := by
  unfold segTorn
  have : st.bsu.filter (fun b => !whole st b) = [] := by
    apply List.filter_eq_nil_iff.2
    intro b hb
    simp [h.1 b hb]
  rw [this]; rfl

theorem segOK_default : SegOK ({} : SegSt) [] := by
  constructor
  · intro b hb; cases hb
  · rfl

/-- more chunks never break a block -/
theorem whole_mono {st st' : SegSt} (hc : ∀ c ∈ st.chunks, c ∈ st'.chunks) (b : Nat × List Nat)
    (h : whole st b = true) : whole st' b = true := by
  unfold whole at *
  rw [List.all_eq_true] at *
  intro w hw
  have := h w hw
  rw [List.contains_iff_mem] at *
  exact hc _ this

/-! ### the frame: everything except the open segment -/

/-- `fs'` differs from `fs` at most in the files of segment `cur` -/
structure SameBut (cur : Nat) (fs fs' : FS) : Prop where
  segmeta : fs'.segmeta = fs.segmeta
  dirs : fs'.dirs = fs.dirs
  suffix : fs'.suffix = fs.suffix
  suffixTmp : fs'.suffixTmp = fs.suffixTmp
  seg : ∀ s, s ≠ cur → fs'.seg s = fs.seg s

theorem SameBut.refl (cur : Nat) (fs : FS) : SameBut cur fs fs := ⟨rfl, rfl, rfl, rfl, fun _ _ => rfl⟩

theorem SameBut.trans {cur : Nat} {a b c : FS} (h1 : SameBut cur a b) (h2 : SameBut cur b c) : SameBut cur a c :=
  ⟨h2.segmeta.trans h1.segmeta, h2.dirs.trans h1.dirs, h2.suffix.trans h1.suffix, h2.suffixTmp.trans h1.suffixTmp,
   fun s hs => (h2.seg s hs).trans (h1.seg s hs)⟩

theorem sameBut_setSeg (cur : Nat) (fs : FS) (f : SegSt → SegSt) : SameBut cur fs (fs.setSeg cur f) := by
  refine ⟨rfl, rfl, rfl, rfl, ?_⟩
  intro s hs
  simp [FS.setSeg, hs]

/-- steps that only touch files inside segment directory `cur` -/
def onSeg (cur : Nat) : Step → Bool
  | .chunk s _ _ => s == cur
  | .bsu s _ _ => s == cur
  | .sstTmp s _ => s == cur
  | .sstRename s => s == cur
  | .sfmTmp s _ => s == cur
  | .sfmRename s => s == cur
  | .sfmTrunc s => s == cur
  | .sfmWrite s _ => s == cur
  | _ => false

theorem sameBut_apply {cur : Nat} (fs : FS) (s : Step) (h : onSeg cur s = true) : SameBut cur fs (apply fs s) := by
  cases s <;> simp [onSeg] at h <;> subst h <;> simp only [apply] <;> exact sameBut_setSeg _ _ _

theorem sameBut_run {cur : Nat} (l : List Step) : ∀ (fs : FS), (∀ s ∈ l, onSeg cur s = true) → SameBut cur fs (run fs l) := by
  induction l with
  | nil => intro fs _; exact SameBut.refl _ _
  | cons a l ih =>
    intro fs h
    rw [run_cons]
    exact (sameBut_apply fs a (h a (List.mem_cons_self ..))).trans (ih _ (fun s hs => h s (List.mem_cons_of_mem _ hs)))

/-- sealed segments `sl` (rotated: listed in segmeta.json with their flushes), open segment `cur` -/
structure Frame (sl : List (Nat × List Nat)) (cur : Nat) (fs : FS) : Prop where
  segmeta_eq : fs.segmeta = sl
  dirs_nodup : fs.dirs.Nodup
  dirs_mem : ∀ s ∈ fs.dirs, s ∈ sl.map (·.1) ∨ s = cur
  sealed_lt : ∀ p ∈ sl, p.1 < cur
  sealed_ok : ∀ p ∈ sl, SegOK (fs.seg p.1) p.2
  untouched : ∀ s, s ∉ fs.dirs → fs.seg s = {}
  suffix_ok : ∀ s ∈ fs.dirs, s < nextSuffix fs

theorem Frame.dirs_le {sl cur fs} (F : Frame sl cur fs) : ∀ s ∈ fs.dirs, s ≤ cur := by
  intro s hs
  rcases F.dirs_mem s hs with h | h
  · rcases List.mem_map.1 h with ⟨p, hp, rfl⟩
    exact Nat.le_of_lt (F.sealed_lt p hp)
  · exact Nat.le_of_eq h

theorem Frame.cur_not_sealed {sl cur fs} (F : Frame sl cur fs) : cur ∉ sl.map (·.1) := by
  intro h
  rcases List.mem_map.1 h with ⟨p, hp, he⟩
  have := F.sealed_lt p hp
  omega

/-- changing only files of the open segment keeps the frame, provided the open segment's directory exists -/
theorem Frame.sameBut {sl cur fs fs'} (F : Frame sl cur fs) (S : SameBut cur fs fs') (hc : cur ∈ fs.dirs) :
    Frame sl cur fs' := by
  refine ⟨S.segmeta.trans F.segmeta_eq, S.dirs ▸ F.dirs_nodup, ?_, F.sealed_lt, ?_, ?_, ?_⟩
  · intro s hs; rw [S.dirs] at hs; exact F.dirs_mem s hs
  · intro p hp
    have : p.1 ≠ cur := Nat.ne_of_lt (F.sealed_lt p hp)
    rw [S.seg _ this]; exact F.sealed_ok p hp
  · intro s hs
    rw [S.dirs] at hs
    have : s ≠ cur := fun e => hs (e ▸ hc)
    rw [S.seg _ this]; exact F.untouched s hs
  · intro s hs
    rw [S.dirs] at hs
    have := F.suffix_ok s hs
    simpa [nextSuffix, S.suffix] using this

theorem filter_singleton {α : Type} [DecidableEq α] (p : α → Bool) (a : α) :
    ∀ (l : List α), l.Nodup → (∀ x ∈ l, p x = true → x = a) →
      l.filter p = if a ∈ l ∧ p a = true then [a] else [] := by
  intro l
  induction l with
  | nil => intro _ _; simp
  | cons x l ih =>
    intro hn hp
    rw [List.nodup_cons] at hn
    have ih' := ih hn.2 (fun y hy => hp y (List.mem_cons_of_mem _ hy))
    by_cases hx : p x = true
    · have hxa : x = a := hp x (List.mem_cons_self ..) hx
      subst hxa
      have h1 : ¬ (x ∈ l ∧ p x = true) := fun h => hn.1 h.1
      have h2 : (x ∈ x :: l ∧ p x = true) := ⟨List.mem_cons_self .., hx⟩
      rw [List.filter_cons, if_pos hx, ih', if_neg h1, if_pos h2]
    · rw [List.filter_cons, if_neg hx, ih']
      by_cases hal : a ∈ l ∧ p a = true
      · have : a ∈ x :: l ∧ p a = true := ⟨List.mem_cons_of_mem _ hal.1, hal.2⟩
        rw [if_pos hal, if_pos this]
      · have : ¬ (a ∈ x :: l ∧ p a = true) := by
          intro h
          rcases List.mem_cons.1 h.1 with e | e
          · exact hx (e ▸ h.2)
          · exact hal ⟨e, h.2⟩
        rw [if_neg hal, if_neg this]

theorem sfmAdopted_frame {sl cur fs} (F : Frame sl cur fs) :
    sfmAdopted fs = if cur ∈ fs.dirs ∧ (fs.seg cur).sfm.parsable = true then [cur] else [] := by
  unfold sfmAdopted
  have hseg : segIds fs = sl.map (·.1) := by simp [segIds, F.segmeta_eq]
  have hcur : (sl.map (·.1)).contains cur = false := by
    have := F.cur_not_sealed
    simpa using this
  rw [filter_singleton _ cur fs.dirs F.dirs_nodup]
  · rw [hseg, hcur]; simp
  · intro x hx hp
    rcases F.dirs_mem x hx with h | h
    · have : (sl.map (·.1)).contains x = true := List.contains_iff_mem.2 h
      rw [hseg, this] at hp
      simp at hp
    · exact h

theorem flatMap_sealed {sl : List (Nat × List Nat)} {fs : FS} (g : SegSt → List Nat)
    (h : ∀ p ∈ sl, g (fs.seg p.1) = p.2) :
    (sl.map (·.1)).flatMap (fun s => g (fs.seg s)) = sl.flatMap (·.2) := by
  induction sl with
  | nil => rfl
  | cons p sl ih =>
    simp only [List.map_cons, List.flatMap_cons]
    rw [h p (List.mem_cons_self ..), ih (fun q hq => h q (List.mem_cons_of_mem _ hq))]

theorem flatMap_sealed_nil {sl : List (Nat × List Nat)} {fs : FS} (g : SegSt → List Nat)
    (h : ∀ p ∈ sl, g (fs.seg p.1) = []) :
    (sl.map (·.1)).flatMap (fun s => g (fs.seg s)) = [] := by
  induction sl with
  | nil => rfl
  | cons p sl ih =>
    simp only [List.map_cons, List.flatMap_cons]
    rw [h p (List.mem_cons_self ..), ih (fun q hq => h q (List.mem_cons_of_mem _ hq))]; rfl

/-- what a restart serves, given the frame: the sealed segments, plus the open one iff its .sfm parses -/
theorem visible_frame {sl cur fs} (F : Frame sl cur fs) :
    visible fs = sl.flatMap (·.2) ++
      (if cur ∈ fs.dirs ∧ (fs.seg cur).sfm.parsable = true then segVisible (fs.seg cur) else []) := by
  unfold visible adopted
  have hseg : segIds fs = sl.map (·.1) := by simp [segIds, F.segmeta_eq]
  rw [List.flatMap_append, hseg, sfmAdopted_frame F,
    flatMap_sealed segVisible (fun p hp => segOK_visible (F.sealed_ok p hp))]
  split <;> simp

theorem torn_frame {sl cur fs} (F : Frame sl cur fs) :
    torn fs = (if cur ∈ fs.dirs ∧ (fs.seg cur).sfm.parsable = true then segTorn (fs.seg cur) else []) := by
  unfold torn adopted
  have hseg : segIds fs = sl.map (·.1) := by simp [segIds, F.segmeta_eq]
  rw [List.flatMap_append, hseg, sfmAdopted_frame F,
    flatMap_sealed_nil segTorn (fun p hp => segOK_torn (F.sealed_ok p hp))]
  split <;> simp

end SigModel.Lemmas.C07
