/-
Helper lemmas for C20 (alert state machine).  Core Lean only.
-/
import SigModel.Model.Alert

namespace SigModel.Lemmas.C20
open SigModel.Alert

/-! ### leading run of a list -/

/-- number of leading elements satisfying `p` -/
def leading {α : Type} (p : α → Bool) : List α → Nat
  | [] => 0
  | x :: r => if p x then leading p r + 1 else 0

theorem take_all_iff {α : Type} (p : α → Bool) (l : List α) (m : Nat) :
    (m ≤ l.length ∧ (l.take m).all p = true) ↔ m ≤ leading p l := by
  induction l generalizing m with
  | nil => cases m <;> simp [leading]
  | cons x r ih =>
    cases m with
    | zero => simp
    | succ k =>
      have := ih k
      by_cases hx : p x = true
      · simp [leading, hx, List.take_succ_cons] at this ⊢
        exact this
      · simp [leading, hx, List.take_succ_cons]

theorem take_length_all_iff {α : Type} (p : α → Bool) (l : List α) (m : Nat) :
    (¬ (l.take m).length < m ∧ (l.take m).all p = true) ↔ m ≤ leading p l := by
  rw [← take_all_iff]
  have : (l.take m).length = min m l.length := List.length_take
  constructor
  · rintro ⟨h1, h2⟩; exact ⟨by omega, h2⟩
  · rintro ⟨h1, h2⟩; exact ⟨by omega, h2⟩

/-! ### the regenerated predicate on the four states -/

theorem pof_firing : pof .firing = true := by decide
theorem pof_pending : pof .pending = true := by decide
theorem pof_normal : pof .normal = false := by decide
theorem pof_inactive : pof .inactive = false := by decide

/-- `shouldUpdateAlertStateToFiring` in terms of the leading Pending/Firing run of the history -/
theorem shouldFire_iff (n : Nat) (hist : List AState) :
    shouldFire n hist = true ↔ 1 ≤ n ∧ n - 1 ≤ leading pof hist := by
  unfold shouldFire
  by_cases h0 : n = 0
  · simp [h0]
  by_cases h1 : n = 1
  · simp [h1]
  simp only [h0, h1, if_false]
  have := take_length_all_iff pof hist (n - 1)
  by_cases hl : (hist.take (n - 1)).length < n - 1
  · simp only [hl, if_true]
    constructor
    · intro h; cases h
    · rintro ⟨_, h⟩
      have := this.2 h
      exact absurd hl this.1
  · simp only [hl, if_false]
    constructor
    · intro h; exact ⟨by omega, this.1 ⟨hl, h⟩⟩
    · rintro ⟨_, h⟩; exact (this.2 h).2

/-! ### the window function -/

/-- the specification: state as a function of the outcomes (newest first) -/
def windowState (n : Nat) : List Bool → AState
  | [] => .inactive
  | false :: _ => .normal
  | true :: r => if 1 ≤ n ∧ n ≤ leading id (true :: r) then .firing else .pending

/-- outcome contributed by one operation -/
def opOutcome : Op → List Bool
  | .eval m _ => [m]
  | _ => []

/-- outcomes of the evaluations of an operation list, newest first -/
def outcomes (ops : List Op) : List Bool :=
  (ops.filterMap (fun op => match op with | .eval m _ => some m | _ => none)).reverse

theorem outcomes_nil : outcomes [] = [] := rfl

theorem outcomes_cons (op : Op) (ops : List Op) : outcomes (op :: ops) = outcomes ops ++ opOutcome op := by
  cases op <;> simp [outcomes, opOutcome]

/-- history barrier: the newest row (if any) is neither Pending nor Firing -/
def Barrier (h : List AState) : Prop := leading pof h = 0

theorem barrier_nil : Barrier [] := rfl
theorem barrier_inactive (h : List AState) : Barrier (.inactive :: h) := by
  simp [Barrier, leading, pof_inactive]

/-- invariant tying the stored state to the outcomes seen since the barrier -/
structure Inv (n : Nat) (s : Sys) (w : List Bool) : Prop where
  lead : leading pof s.st.hist = leading id w
  state : w ≠ [] → s.st.state = windowState n w

theorem inv_eval (cfg : Cfg) (s : Sys) (w : List Bool) (m ok : Bool) (h : Inv cfg.n s w) :
    Inv cfg.n (stepOp cfg s (.eval m ok)).1 (m :: w) := by
  have hs := shouldFire_iff cfg.n s.st.hist
  cases m with
  | false =>
    constructor
    · simp [stepOp, evalStep, leading, pof_normal]
    · intro _; simp [stepOp, evalStep, windowState]
  | true =>
    by_cases hf : shouldFire cfg.n s.st.hist = true
    · have hh := hs.1 hf
      constructor
      · simp [stepOp, evalStep, hf, leading, pof_firing, h.lead]
      · intro _
        have : 1 ≤ cfg.n ∧ cfg.n ≤ leading id (true :: w) := by
          refine ⟨hh.1, ?_⟩
          simp only [leading, id, if_true]
          have := h.lead
          omega
        simp [stepOp, evalStep, hf, windowState, this]
    · have hh : ¬ (1 ≤ cfg.n ∧ cfg.n - 1 ≤ leading pof s.st.hist) := fun c => hf (hs.2 c)
      have hf' : shouldFire cfg.n s.st.hist = false := by
        cases hx : shouldFire cfg.n s.st.hist
        · rfl
        · exact absurd hx hf
      constructor
      · simp [stepOp, evalStep, hf', leading, pof_pending, h.lead]
      · intro _
        have : ¬ (1 ≤ cfg.n ∧ cfg.n ≤ leading id (true :: w)) := by
          rintro ⟨c1, c2⟩
          apply hh
          refine ⟨c1, ?_⟩
          simp only [leading, id, if_true] at c2
          have := h.lead
          omega
        simp [stepOp, evalStep, hf', windowState, this]

theorem inv_run (cfg : Cfg) (ops : List Op) (s : Sys) (w : List Bool)
    (hno : ∀ op ∈ ops, op ≠ Op.cfgChange) (h : Inv cfg.n s w) :
    Inv cfg.n (runOps cfg s ops).1 (outcomes ops ++ w) := by
  induction ops generalizing s w with
  | nil => simpa [runOps, outcomes_nil] using h
  | cons op ops ih =>
    have hno' : ∀ o ∈ ops, o ≠ Op.cfgChange := fun o ho => hno o (List.mem_cons_of_mem _ ho)
    rw [outcomes_cons, List.append_assoc]
    cases op with
    | eval m ok =>
      have := ih (stepOp cfg s (.eval m ok)).1 (m :: w) hno' (inv_eval cfg s w m ok h)
      simpa [runOps, opOutcome] using this
    | tick k =>
      have h' : Inv cfg.n (stepOp cfg s (.tick k)).1 w := ⟨h.lead, h.state⟩
      have := ih (stepOp cfg s (.tick k)).1 w hno' h'
      simpa [runOps, opOutcome] using this
    | cfgChange => exact absurd rfl (hno _ (List.mem_cons_self ..))

/-- start of a window: any system whose history has a barrier on top -/
theorem inv_start (n : Nat) (s : Sys) (hb : Barrier s.st.hist) : Inv n s [] :=
  ⟨by simpa [Barrier, leading] using hb, fun h => absurd rfl h⟩

theorem state_after_run (cfg : Cfg) (s : Sys) (ops : List Op) (hb : Barrier s.st.hist)
    (hno : ∀ op ∈ ops, op ≠ Op.cfgChange) (hne : outcomes ops ≠ []) :
    (runOps cfg s ops).1.st.state = windowState cfg.n (outcomes ops) := by
  have := inv_run cfg ops s [] hno (inv_start cfg.n s hb)
  simp only [List.append_nil] at this
  exact this.state hne

/-! ### notifications: times -/

/-- the relation between two delivered notifications, earlier first -/
def Spaced (cfg : Cfg) (a b : Out) : Prop :=
  a.notified = true → b.notified = true → a.time + cfg.cooldown ≤ b.time ∧ a.time + cfg.silence ≤ b.time

theorem minutesOver_some {m t now : Nat} (h : minutesOver m (some t) now = true) : t + m ≤ now := by
  simpa [minutesOver] using h

theorem shouldSend_spaced {cfg : Cfg} {st : St} {cur : AState} {now t : Nat}
    (h : shouldSend cfg st cur now = true) (ht : st.lastSentTime = some t) :
    t + cfg.cooldown ≤ now ∧ t + cfg.silence ≤ now := by
  unfold shouldSend at h
  split at h
  · cases h
  split at h
  · cases h
  split at h
  · cases h
  split at h
  · cases h
  rename_i _ _ h1 h2
  rw [ht] at h1 h2
  simp only [Bool.not_eq_true', Bool.not_eq_false] at h1 h2
  exact ⟨minutesOver_some (by simpa using h1), minutesOver_some (by simpa using h2)⟩

theorem evalStep_notified {cfg : Cfg} {st : St} {now : Nat} {m ok : Bool}
    (h : (evalStep cfg st now m ok).2.notified = true) :
    shouldSend cfg st (evalStep cfg st now m ok).2.state now = true ∧ ok = true ∧
    ((evalStep cfg st now m ok).2.state = .firing ∨ (evalStep cfg st now m ok).2.state = .normal) := by
  cases m with
  | false =>
    simp only [evalStep, notify, Bool.false_eq_true, if_false, Bool.and_eq_true] at h ⊢
    exact ⟨h.1, h.2, Or.inr trivial⟩
  | true =>
    by_cases hf : shouldFire cfg.n st.hist = true
    · simp only [evalStep, notify, hf, if_true, Bool.and_eq_true] at h ⊢
      exact ⟨h.1, h.2, Or.inl trivial⟩
    · simp [evalStep, hf] at h

theorem evalStep_time (cfg : Cfg) (st : St) (now : Nat) (m ok : Bool) :
    (evalStep cfg st now m ok).2.time = now := rfl

theorem evalStep_lastSentTime (cfg : Cfg) (st : St) (now : Nat) (m ok : Bool) :
    (evalStep cfg st now m ok).1.lastSentTime =
      if (evalStep cfg st now m ok).2.notified then some now else st.lastSentTime := rfl

theorem evalStep_lastSentState (cfg : Cfg) (st : St) (now : Nat) (m ok : Bool) :
    (evalStep cfg st now m ok).1.lastSentState =
      if (evalStep cfg st now m ok).2.notified then (evalStep cfg st now m ok).2.state else st.lastSentState := rfl

/-- generalised spacing lemma over a run from any consistent start -/
theorem spaced_run (cfg : Cfg) (ops : List Op) (s : Sys)
    (hle : ∀ t, s.st.lastSentTime = some t → t ≤ s.now) :
    (∀ o ∈ (runOps cfg s ops).2, s.now ≤ o.time ∧
        (o.notified = true → ∀ t, s.st.lastSentTime = some t →
          t + cfg.cooldown ≤ o.time ∧ t + cfg.silence ≤ o.time)) ∧
    (runOps cfg s ops).2.Pairwise (Spaced cfg) := by
  induction ops generalizing s with
  | nil => simp [runOps]
  | cons op ops ih =>
    cases op with
    | tick k =>
      have hle' : ∀ t, (stepOp cfg s (.tick k)).1.st.lastSentTime = some t → t ≤ (stepOp cfg s (.tick k)).1.now := by
        intro t ht
        have := hle t ht
        show t ≤ s.now + k
        omega
      obtain ⟨ha, hb⟩ := ih (stepOp cfg s (.tick k)).1 hle'
      refine ⟨?_, by simpa [runOps, stepOp] using hb⟩
      intro o ho
      have ho' : o ∈ (runOps cfg (stepOp cfg s (.tick k)).1 ops).2 := by simpa [runOps, stepOp] using ho
      obtain ⟨h1, h2⟩ := ha o ho'
      have h1' : s.now + k ≤ o.time := h1
      exact ⟨by omega, fun hn t ht => h2 hn t ht⟩
    | cfgChange =>
      obtain ⟨ha, hb⟩ := ih (stepOp cfg s .cfgChange).1 hle
      refine ⟨?_, by simpa [runOps, stepOp] using hb⟩
      intro o ho
      have ho' : o ∈ (runOps cfg (stepOp cfg s .cfgChange).1 ops).2 := by simpa [runOps, stepOp] using ho
      exact ha o ho'
    | eval m ok =>
      let r := evalStep cfg s.st s.now m ok
      have hr : (stepOp cfg s (.eval m ok)).1 = { s with st := r.1 } := rfl
      have hnow : (stepOp cfg s (.eval m ok)).1.now = s.now := rfl
      have hlst : (stepOp cfg s (.eval m ok)).1.st.lastSentTime =
          if r.2.notified then some s.now else s.st.lastSentTime := rfl
      have hle' : ∀ t, (stepOp cfg s (.eval m ok)).1.st.lastSentTime = some t → t ≤ (stepOp cfg s (.eval m ok)).1.now := by
        intro t ht
        rw [hlst] at ht
        rw [hnow]
        by_cases hn : r.2.notified = true
        · simp [hn] at ht; omega
        · simp [hn] at ht; exact hle t ht
      obtain ⟨ha, hb⟩ := ih (stepOp cfg s (.eval m ok)).1 hle'
      have hout : (runOps cfg s (.eval m ok :: ops)).2 = r.2 :: (runOps cfg (stepOp cfg s (.eval m ok)).1 ops).2 := by
        simp [runOps, stepOp, r]
      rw [hout]
      -- facts about the head output
      have hspace : r.2.notified = true → ∀ t, s.st.lastSentTime = some t →
          t + cfg.cooldown ≤ s.now ∧ t + cfg.silence ≤ s.now := by
        intro hn t ht
        exact shouldSend_spaced (evalStep_notified hn).1 ht
      constructor
      · intro o ho
        rcases List.mem_cons.1 ho with rfl | ho
        · exact ⟨Nat.le_refl _, fun hn t ht => hspace hn t ht⟩
        · obtain ⟨h1, h2⟩ := ha o ho
          rw [hnow] at h1
          refine ⟨h1, ?_⟩
          intro hn t ht
          by_cases hh : r.2.notified = true
          · have := h2 hn s.now (by rw [hlst]; simp [hh])
            have := hle t ht
            omega
          · exact h2 hn t (by rw [hlst]; simp [hh]; exact ht)
      · refine List.pairwise_cons.2 ⟨?_, hb⟩
        intro b hb' hn hbn
        have h2 := (ha b hb').2 hbn s.now (by rw [hlst]; simp [hn])
        exact h2

/-! ### notifications: which state follows which -/

/-- delivered notifications of an output list -/
def sends (outs : List Out) : List Out := outs.filter (fun o => o.notified)

/-- every delivered notification is Firing, or Normal directly after a Firing one -/
def chainOk : AState → List Out → Prop
  | _, [] => True
  | last, o :: r => (o.state = .firing ∨ (o.state = .normal ∧ last = .firing)) ∧ chainOk o.state r

theorem shouldSend_normal {cfg : Cfg} {st : St} {now : Nat}
    (h : shouldSend cfg st .normal now = true) (hp : st.lastSentState ≠ .pending) :
    st.lastSentState = .firing := by
  unfold shouldSend at h
  split at h
  · cases h
  split at h
  · cases h
  rename_i h1 h2
  cases hl : st.lastSentState with
  | inactive => exact absurd ⟨rfl, hl⟩ h1
  | normal => exact absurd ⟨rfl, hl⟩ h2
  | pending => exact absurd hl hp
  | firing => rfl

theorem chain_run (cfg : Cfg) (ops : List Op) (s : Sys) (hp : s.st.lastSentState ≠ .pending) :
    chainOk s.st.lastSentState (sends (runOps cfg s ops).2) := by
  induction ops generalizing s with
  | nil => simp [runOps, sends, chainOk]
  | cons op ops ih =>
    cases op with
    | tick k => simpa [runOps, stepOp, sends] using ih (stepOp cfg s (.tick k)).1 hp
    | cfgChange => simpa [runOps, stepOp, sends, configChange] using ih (stepOp cfg s .cfgChange).1 hp
    | eval m ok =>
      let r := evalStep cfg s.st s.now m ok
      have hout : (runOps cfg s (.eval m ok :: ops)).2 = r.2 :: (runOps cfg (stepOp cfg s (.eval m ok)).1 ops).2 := by
        simp [runOps, stepOp, r]
      have hls : (stepOp cfg s (.eval m ok)).1.st.lastSentState =
          if r.2.notified then r.2.state else s.st.lastSentState := rfl
      rw [hout]
      by_cases hn : r.2.notified = true
      · obtain ⟨hs, _, hst⟩ := evalStep_notified hn
        have hp' : (stepOp cfg s (.eval m ok)).1.st.lastSentState ≠ .pending := by
          rw [hls]; simp only [hn, if_true]
          rcases hst with h | h <;> (rw [h]; decide)
        have := ih (stepOp cfg s (.eval m ok)).1 hp'
        rw [hls] at this
        simp only [hn, if_true] at this
        simp only [sends, List.filter_cons, hn, if_true, chainOk]
        refine ⟨?_, this⟩
        rcases hst with h | h
        · exact Or.inl h
        · right
          refine ⟨h, ?_⟩
          have hs' : shouldSend cfg s.st .normal s.now = true := by
            have : r.2.state = .normal := h
            rw [← this]; exact hs
          exact shouldSend_normal hs' hp
      · have hp' : (stepOp cfg s (.eval m ok)).1.st.lastSentState ≠ .pending := by
          rw [hls]; simp only [hn]; exact hp
        have := ih (stepOp cfg s (.eval m ok)).1 hp'
        rw [hls] at this
        simp only [hn] at this
        simpa [sends, List.filter_cons, hn] using this

theorem chain_head {last : AState} {o : Out} {r : List Out} (h : chainOk last (o :: r)) :
    o.state = .firing ∨ (o.state = .normal ∧ last = .firing) := h.1

theorem chain_all {last : AState} {l : List Out} (h : chainOk last l) :
    ∀ o ∈ l, o.state = .firing ∨ o.state = .normal := by
  induction l generalizing last with
  | nil => intro o ho; cases ho
  | cons x r ih =>
    intro o ho
    rcases List.mem_cons.1 ho with rfl | ho
    · rcases h.1 with h1 | h1
      · exact Or.inl h1
      · exact Or.inr h1.1
    · exact ih h.2 o ho

theorem chain_adjacent {last : AState} (pre : List Out) (a b : Out) (post : List Out)
    (h : chainOk last (pre ++ a :: b :: post)) :
    b.state = .firing ∨ (b.state = .normal ∧ a.state = .firing) := by
  induction pre generalizing last with
  | nil => exact h.2.1
  | cons x r ih => exact ih h.2

/-! ### nothing delivered ⇒ notification row untouched -/

theorem quiet_run (cfg : Cfg) (ops : List Op) (s : Sys)
    (hq : ∀ o ∈ (runOps cfg s ops).2, o.notified = false) :
    (runOps cfg s ops).1.st.lastSentTime = s.st.lastSentTime ∧
    (runOps cfg s ops).1.st.lastSentState = s.st.lastSentState := by
  induction ops generalizing s with
  | nil => simp [runOps]
  | cons op ops ih =>
    cases op with
    | tick k =>
      have := ih (stepOp cfg s (.tick k)).1 (by intro o ho; exact hq o (by simpa [runOps, stepOp] using ho))
      simpa [runOps, stepOp] using this
    | cfgChange =>
      have := ih (stepOp cfg s .cfgChange).1 (by intro o ho; exact hq o (by simpa [runOps, stepOp] using ho))
      simpa [runOps, stepOp, configChange] using this
    | eval m ok =>
      let r := evalStep cfg s.st s.now m ok
      have hout : (runOps cfg s (.eval m ok :: ops)).2 = r.2 :: (runOps cfg (stepOp cfg s (.eval m ok)).1 ops).2 := by
        simp [runOps, stepOp, r]
      have hfin : (runOps cfg s (.eval m ok :: ops)).1 = (runOps cfg (stepOp cfg s (.eval m ok)).1 ops).1 := by
        simp [runOps]
      have hn : r.2.notified = false := hq r.2 (by rw [hout]; exact List.mem_cons_self ..)
      have := ih (stepOp cfg s (.eval m ok)).1 (by intro o ho; exact hq o (by rw [hout]; exact List.mem_cons_of_mem _ ho))
      rw [hfin, this.1, this.2]
      have h1 : (stepOp cfg s (.eval m ok)).1.st.lastSentTime = if r.2.notified then some s.now else s.st.lastSentTime := rfl
      have h2 : (stepOp cfg s (.eval m ok)).1.st.lastSentState = if r.2.notified then r.2.state else s.st.lastSentState := rfl
      rw [h1, h2, hn]; simp

/-! ### the window function in take/all form -/

theorem windowState_spec (n : Nat) (w : List Bool) (hne : w ≠ []) :
    (windowState n w = .firing ↔ (1 ≤ n ∧ n ≤ w.length ∧ (w.take n).all id = true)) ∧
    (windowState n w = .pending ↔ w.head? = some true ∧ ¬ (1 ≤ n ∧ n ≤ w.length ∧ (w.take n).all id = true)) ∧
    (windowState n w = .normal ↔ w.head? = some false) := by
  have hw : ∀ w : List Bool, (1 ≤ n ∧ n ≤ w.length ∧ (w.take n).all id = true) ↔ (1 ≤ n ∧ n ≤ leading id w) := by
    intro w; rw [take_all_iff id w n]
  cases w with
  | nil => exact absurd rfl hne
  | cons b r =>
    rw [hw (b :: r)]
    cases b with
    | false =>
      have hnot : ¬ (1 ≤ n ∧ n ≤ leading id (false :: r)) := by
        simp [leading]; omega
      simp [windowState, hnot]
    | true =>
      by_cases hf : 1 ≤ n ∧ n ≤ leading id (true :: r)
      · simp [windowState, hf]
      · simp [windowState, hf]

theorem runOps_append (cfg : Cfg) (s : Sys) (a b : List Op) :
    runOps cfg s (a ++ b) =
      ((runOps cfg (runOps cfg s a).1 b).1, (runOps cfg s a).2 ++ (runOps cfg (runOps cfg s a).1 b).2) := by
  induction a generalizing s with
  | nil => simp [runOps]
  | cons op a ih => simp [runOps, ih, List.append_assoc]

end SigModel.Lemmas.C20
