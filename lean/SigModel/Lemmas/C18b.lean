/-
Main lemmas for Props/C18: the property theorems with `wfChunks` / `crcAccident` unfolded.
-/
import SigModel.Lemmas.C18
namespace SigModel.Lemmas.C18
open SigModel.Wal (Bytes le32 rd32)
open SigModel.Checksum

/-- `wfChunks` unfolded -/
abbrev Wf (crc : Bytes → Nat) (chunks : List Bytes) : Prop :=
  ∀ c ∈ chunks, c ≠ [] ∧ c.length < 4294967296 ∧ crc c < 4294967296 ∧ (∀ b ∈ c, b < 256)

/-- `crcAccident` unfolded -/
abbrev Acc (crc : Bytes → Nat) (f : Bytes) (off : Nat) (orig : Bytes) : Prop :=
  ∃ sum len, readU32At f (off + 4) = some sum ∧ readU32At f (off + 8) = some len ∧
    crc ((f.drop (off + dataOffset)).take len) = sum ∧ (f.drop (off + dataOffset)).take len ≠ orig

/-! ### C18.2 -/

/-- If the magic at offset 0 cannot be anything but `magic`, a read either fails, returns `orig`,
or is a checksum accident. -/
theorem readChunkAt_trichotomy (crc : Bytes → Nat) (f orig : Bytes) (off : Nat)
    (h0 : ∀ m0, readU32At f 0 = some m0 → m0 = magic) (r : Rd)
    (hr : r = readChunkAt crc f orig.length off) :
    r = Rd.fail ∨ r = Rd.ok orig ∨ Acc crc f off orig := by
  unfold readChunkAt at hr
  cases hm : readU32At f off with
  | none => left; simp [hr, hm]
  | some m =>
    by_cases hmm : m = magic
    · subst hmm
      cases hs : readU32At f (off + 4) with
      | none => left; simp [hr, hm, hs]
      | some sum =>
        cases hl : readU32At f (off + 8) with
        | none => left; simp [hr, hm, hs, hl]
        | some len =>
          simp only [hm, hs, hl, ne_eq, not_true_eq_false, if_false] at hr
          by_cases hlen : len > orig.length
          · left; simp [hr, hlen]
          · by_cases hc : crc ((f.drop (off + dataOffset)).take len) = sum
            · by_cases hd : (f.drop (off + dataOffset)).take len = orig
              · right; left
                have hlt : ¬ ((f.drop (off + dataOffset)).take len).length < len := by
                  rw [hd]; omega
                simp only [hlen, hc, hlt, if_false, not_true_eq_false] at hr
                rw [hr, hd]
              · right; right
                exact ⟨sum, len, hs, hl, hc, hd⟩
            · left; simp [hr, hlen, hc]
    · cases h00 : readU32At f 0 with
      | none => left; simp [hr, hm, hmm, h00]
      | some m0 =>
        have := h0 m0 h00
        left; simp [hr, hm, hmm, h00, this]

/-- a well-formed non-empty file starts with the magic -/
theorem fileOf_starts_magic (crc : Bytes → Nat) (chunks : List Bytes) (hwf : Wf crc chunks)
    (hne : chunks ≠ []) : ∃ R, fileOf crc chunks = le32 magic ++ R := by
  cases chunks with
  | nil => exact absurd rfl hne
  | cons c cs =>
    have hc := (hwf c (by simp)).1
    refine ⟨le32 (crc c) ++ (le32 c.length ++ (c ++ fileOf crc cs)), ?_⟩
    rw [fileOf_cons, chunkBytes_of_ne crc c hc]; simp

theorem readChunk_corrupt_partial' (crc : Bytes → Nat) (chunks : List Bytes) (k i b : Nat)
    (hwf : Wf crc chunks) (hk : k < chunks.length) (hguard : 4 ≤ i) (r : Rd)
    (hr : r = readChunkAt crc ((fileOf crc chunks).set i b) (chunks[k]!).length (chunkStart chunks k)) :
    r = Rd.fail ∨ r = Rd.ok (chunks[k]!) ∨
      Acc crc ((fileOf crc chunks).set i b) (chunkStart chunks k) (chunks[k]!) := by
  refine readChunkAt_trichotomy crc _ _ _ ?_ r hr
  intro m0 hm0
  obtain ⟨R, hR⟩ := fileOf_starts_magic crc chunks hwf (by intro h; simp [h] at hk)
  rw [hR, set_append_right _ _ _ _ (by simpa using hguard)] at hm0
  rw [readU32At_eq _ [] _ magic 0 (by simp; rfl) rfl magic_lt] at hm0
  exact (Option.some.inj hm0).symm

/-! ### C18.4 -/

theorem other_chunks_unaffected' (crc : Bytes → Nat) (chunks : List Bytes) (k j i b : Nat)
    (hwf : Wf crc chunks) (hk : k < chunks.length) (hj : j < k)
    (hi : chunkStart chunks k ≤ i) :
    readChunkAt crc ((fileOf crc chunks).set i b) (chunks[j]!).length (chunkStart chunks j)
      = Rd.ok (chunks[j]!) := by
  have hjl : j < chunks.length := by omega
  rw [getElem!_pos chunks j hjl]
  have hc := hwf chunks[j] (List.getElem_mem hjl)
  have hsplit := fileOf_split crc chunks j hjl
  have hmono := chunkStart_mono chunks (j + 1) (k - (j + 1)) (by omega)
  have e : j + 1 + (k - (j + 1)) = k := by omega
  rw [e] at hmono
  have hsucc := chunkStart_succ chunks j hjl
  have hlen := fileOf_take_length crc chunks j
  rw [hsplit, ← List.append_assoc,
    set_append_right _ _ _ _ (by simp [hlen, chunkBytes_length]; omega), List.append_assoc, ← hlen]
  exact readChunkAt_chunk crc _ _ _ _ hc.1 hc.2.1 hc.2.2.1 (Nat.le_refl _)

/-! ### C18.3 -/

theorem take_append_ge (P Q : Bytes) (n : Nat) (h : P.length ≤ n) :
    (P ++ Q).take n = P ++ Q.take (n - P.length) := by
  rw [List.take_append, List.take_of_length_le h]

theorem readChunkAt_fail_of_short (crc : Bytes → Nat) (f : Bytes) (n off : Nat)
    (h : f.length < off + 12) (hm : ∀ m, readU32At f off = some m → m = magic) :
    readChunkAt crc f n off = Rd.fail := by
  have h8 : readU32At f (off + 8) = none := readU32At_short f (off + 8) (by omega)
  unfold readChunkAt
  cases hm0 : readU32At f off with
  | none => rfl
  | some m =>
    have := hm m hm0
    subst this
    cases h4 : readU32At f (off + 4) with
    | none => simp
    | some s => simp [h8]

theorem readChunk_truncated' (crc : Bytes → Nat) (chunks : List Bytes) (k n : Nat)
    (hwf : Wf crc chunks) (hk : k < chunks.length) (hn : n < chunkStart chunks (k + 1)) (r : Rd)
    (hr : r = readChunkAt crc ((fileOf crc chunks).take n) (chunks[k]!).length (chunkStart chunks k)) :
    r = Rd.fail ∨ (∃ d, r = Rd.okEof d ∧
      Acc crc ((fileOf crc chunks).take n) (chunkStart chunks k) (chunks[k]!)) := by
  rw [getElem!_pos chunks k hk] at hr ⊢
  have hc := hwf chunks[k] (List.getElem_mem hk)
  have hsplit := fileOf_split crc chunks k hk
  have hsucc := chunkStart_succ chunks k hk
  have hlen := fileOf_take_length crc chunks k
  rw [width_of_ne _ hc.1] at hsucc
  rw [chunkBytes_of_ne crc _ hc.1] at hsplit
  simp only [List.append_assoc] at hsplit
  generalize hP : fileOf crc (chunks.take k) = P at hsplit hlen
  generalize hpost : fileOf crc (chunks.drop (k + 1)) = post at hsplit
  generalize hcdef : chunks[k] = c at *
  generalize hs : chunkStart chunks k = s at *
  generalize hf : fileOf crc chunks = f at *
  by_cases h12 : n < s + 12
  · -- header incomplete
    left
    rw [hr]
    apply readChunkAt_fail_of_short
    · simp [List.length_take]; omega
    · intro m hm
      by_cases h4 : n < s + 4
      · rw [readU32At_short _ _ (by simp [List.length_take]; omega)] at hm
        cases hm
      · rw [hsplit, take_append_ge _ _ _ (by omega), take_append_ge _ _ _ (by simp; omega),
          readU32At_eq _ P _ magic s rfl hlen magic_lt] at hm
        exact (Option.some.inj hm).symm
  · -- header complete, data cut short
    have hf' : f.take n = P ++ (le32 magic ++ (le32 (crc c) ++ (le32 c.length ++ c.take (n - s - 12)))) := by
      rw [hsplit, take_append_ge _ _ _ (by omega), take_append_ge _ _ _ (by simp; omega),
        take_append_ge _ _ _ (by simp; omega), take_append_ge _ _ _ (by simp; omega),
        List.take_append_of_le_length (by simp; omega)]
      simp only [le32_length, hlen]
      congr 5
    obtain ⟨-, h4, h8, hd, hread⟩ := readChunkAt_hdr crc (f.take n) P (c.take (n - s - 12)) (crc c)
      c.length c.length s hf' hlen hc.2.2.1 hc.2.1
    have htt : (c.take (n - s - 12)).take c.length = c.take (n - s - 12) := by
      rw [List.take_take]; congr 1; omega
    have hlt : (c.take (n - s - 12)).length < c.length := by
      simp [List.length_take]; omega
    rw [htt] at hread
    rw [hread] at hr
    by_cases hcrc : crc (c.take (n - s - 12)) = crc c
    · right
      refine ⟨c.take (n - s - 12), ?_, crc c, c.length, h4, h8, ?_, ?_⟩
      · rw [hr, if_neg (by omega), if_neg (by simp [hcrc]), if_pos hlt]
      · rw [hd, htt, hcrc]
      · rw [hd, htt]
        intro he
        rw [he] at hlt
        omega
    · left
      simp [hr, hcrc]

/-! ### C18.1 -/

theorem fileOf_length_wf (crc : Bytes → Nat) (D : List Bytes) (h : ∀ c ∈ D, c ≠ []) :
    (fileOf crc D).length = D.flatten.length + D.length * dataOffset := by
  induction D with
  | nil => rfl
  | cons c cs ih =>
    have hc := h c (by simp)
    have ih' := ih (fun c hc => h c (by simp [hc]))
    simp only [fileOf_cons, List.length_append, chunkBytes_length, width_of_ne c hc, ih',
      List.flatten_cons, List.length_cons, dataOffset]
    omega

theorem read_step (crc : Bytes → Nat) (chunks A D W : List Bytes) (c : Bytes) (hwf : Wf crc chunks)
    (hch : chunks = A ++ (D ++ (c :: W))) (n : Nat) (hn : c.length ≤ n) :
    readChunkAt crc (fileOf crc chunks) n
      ((fileOf crc A).length + D.flatten.length + D.length * dataOffset) = Rd.ok c := by
  have hc := hwf c (by simp [hch])
  have hD : ∀ d ∈ D, d ≠ [] := fun d hd => (hwf d (by simp [hch, hd])).1
  have hoff : (fileOf crc A).length + D.flatten.length + D.length * dataOffset
      = (fileOf crc A ++ fileOf crc D).length := by
    rw [List.length_append, fileOf_length_wf crc D hD]; omega
  have hfile : fileOf crc chunks
      = (fileOf crc A ++ fileOf crc D) ++ (chunkBytes crc c ++ fileOf crc W) := by
    rw [hch, fileOf_append, fileOf_append, fileOf_cons, List.append_assoc]
  rw [hoff, hfile]
  exact readChunkAt_chunk crc _ _ c n hc.1 hc.2.1 hc.2.2.1 hn

theorem readAtLoop_chunks (crc : Bytes → Nat) (chunks A Z : List Bytes) (hwf : Wf crc chunks)
    (N : Nat) (R : Bytes) :
    ∀ (T D : List Bytes) (c : Bytes) (fuel : Nat),
      chunks = A ++ (D ++ (c :: (T ++ Z))) → R = (D ++ c :: T).flatten → N = R.length →
      T.length + 1 ≤ fuel →
      readAtLoop crc (fileOf crc chunks) N (fileOf crc A).length fuel D.length D.flatten
        = (R, false) := by
  intro T
  induction T with
  | nil =>
    intro D c fuel hch hR hN hfuel
    cases fuel with
    | zero => omega
    | succ fuel =>
      have hread := read_step crc chunks A D ([] ++ Z) c hwf hch (N - D.flatten.length)
        (by simp [hN, hR])
      rw [readAtLoop]
      simp only [hread]
      have hacc : D.flatten ++ c = R := by simp [hR]
      rw [hacc, if_pos (by omega)]
  | cons c' T ih =>
    intro D c fuel hch hR hN hfuel
    cases fuel with
    | zero => omega
    | succ fuel =>
      have hread := read_step crc chunks A D ((c' :: T) ++ Z) c hwf hch (N - D.flatten.length)
        (by simp [hN, hR])
      have hc' := (hwf c' (by simp [hch])).1
      have hc'len : 0 < c'.length := List.length_pos_iff.mpr hc'
      rw [readAtLoop]
      simp only [hread]
      rw [if_neg (by simp [hN, hR]; omega)]
      have := ih (D ++ [c]) c' fuel (by simp [hch]) (by simp [hR]) hN (by simp at hfuel; omega)
      simpa using this

theorem readAt_intact' (crc : Bytes → Nat) (chunks : List Bytes) (a n : Nat)
    (hwf : Wf crc chunks) (hn : 1 ≤ n) (ha : a + n ≤ chunks.length) :
    readAt crc (fileOf crc chunks) (((chunks.drop a).take n).flatten.length) (chunkStart chunks a)
      = (((chunks.drop a).take n).flatten, false) := by
  have hL : ((chunks.drop a).take n).length = n := by simp; omega
  have hsplit : chunks = chunks.take a ++ ((chunks.drop a).take n ++ (chunks.drop a).drop n) := by
    rw [List.take_append_drop, List.take_append_drop]
  generalize hLdef : (chunks.drop a).take n = L at *
  cases L with
  | nil => simp at hL; omega
  | cons c T =>
    have hflen : chunks.length ≤ (fileOf crc chunks).length := by
      rw [fileOf_length_wf crc chunks (fun c hc => (hwf c hc).1), dataOffset]; omega
    have := readAtLoop_chunks crc chunks (chunks.take a) ((chunks.drop a).drop n) hwf
      ((c :: T).flatten.length) (c :: T).flatten T [] c ((fileOf crc chunks).length + 2)
      (by simpa using hsplit) (by simp) rfl (by simp at hL; omega)
    rw [fileOf_take_length] at this
    exact this

end SigModel.Lemmas.C18
