/-
C05 helper lemmas, part e: the newest-first run reaches EOF (nothing stays in unsentRRCs), with an explicit
bound on the number of Fetch calls.  Core Lean only.
-/
import SigModel.Model.Sched
import SigModel.Lemmas.C05a
import SigModel.Lemmas.C05b
import SigModel.Lemmas.C05c
import SigModel.Lemmas.C05d
set_option linter.unusedSimpArgs false
set_option linter.unusedVariables false

namespace SigModel.Lemmas.C05
open SigModel.Sched

theorem takeWhile_all {α : Type} (p : α → Bool) : ∀ (l : List α), (∀ x ∈ l, p x = true) → l.takeWhile p = l
  | [], _ => rfl
  | x :: xs, h => by
    have hx := h x List.mem_cons_self
    simp only [List.takeWhile_cons, hx, if_true]
    rw [takeWhile_all p xs (fun y hy => h y (List.mem_cons_of_mem _ hy))]

/-- progress measure of the newest-first run -/
def mu (st : St) : Nat :=
  2 * (st.unproc.length + st.remaining.length + (pending st).length) + (if st.unsent.isEmpty then 0 else 1)

/-- every record already read lies at or above the cut-off, or above the start of a still-listed request -/
def Low (st : St) : Prop :=
  ∀ r, (r ∈ st.unsent ∨ ∃ b ∈ st.remaining, r ∈ b.recs) →
    st.cutoff ≤ r.2 ∨ ∃ s ∈ st.unproc, s.start ≤ r.2

/-- the cut-off lies below … every still-listed request starts below the cut-off -/
def Mono2 (st : St) : Prop := ∀ s ∈ st.unproc, s.start < st.cutoff

/-- invariant behind termination (newest first), between two Fetch calls -/
structure InvT (st : St) : Prop where
  gb_rem : st.gotBlocks = true → st.remaining ≠ []
  low : Low st
  mono : (st.gotBlocks = false ∧ st.unsent = [] ∧ st.remaining = []) ∨ Mono2 st

theorem invT_init (segs : List Seg) : InvT (init .recentFirst segs) where
  gb_rem := by simp [init]
  low := by intro r hr; simp [init] at hr
  mono := by left; simp [init]

theorem refill_T (segs : List Seg) (hwf : WF segs) (st : St) (hp : InvP segs st) (h : InvT st) :
    Low (refill .recentFirst st) ∧ Mono2 (refill .recentFirst st) ∧
    mu (refill .recentFirst st) ≤ mu st ∧
    (st.gotBlocks = false → st.unproc ≠ [] → mu (refill .recentFirst st) + 2 ≤ mu st) ∧
    (st.gotBlocks = false → st.unproc = [] →
        (refill .recentFirst st).gotAll = true ∧ (refill .recentFirst st).unproc = []) ∧
    (st.gotBlocks = true → refill .recentFirst st = st) := by
  rw [refill_eq]
  split
  · rename_i hgb
    have hm2 : Mono2 st := by
      rcases h.mono with ⟨hg, _, _⟩ | hm
      · rw [hg] at hgb; cases hgb
      · exact hm
    refine ⟨h.low, hm2, Nat.le_refl _, ?_, ?_, fun _ => rfl⟩ <;> intro hg <;> rw [hg] at hgb <;> cases hgb
  · rename_i hgb
    split
    · rename_i hun
      have hlen : (sortBlocks .recentFirst st.remaining).length = st.remaining.length :=
        (sortBy_perm _ _ _).length_eq
      refine ⟨?_, ?_, ?_, ?_, ?_, ?_⟩
      · intro r hr
        apply h.low r
        rcases hr with hr | ⟨b, hb, hrb⟩
        · exact Or.inl hr
        · exact Or.inr ⟨b, (mem_sortBy _ _ _ b).mp hb, hrb⟩
      · intro s hs
        have : s ∈ st.unproc := hs
        rw [hun] at this; cases this
      · have : mu (refillNil .recentFirst st) = mu st := by
          unfold mu
          show 2 * (st.unproc.length + (sortBlocks .recentFirst st.remaining).length + (pending st).length) + _ = _
          rw [hlen]; rfl
        omega
      · intro _ hne; exact absurd hun hne
      · intro _ _; exact ⟨rfl, hun⟩
      · intro hg; exact absurd hg hgb
    · rename_i front tl hun
      have hsplit := (pending_split .recentFirst segs hwf st hp front).length_eq
      rw [List.length_append] at hsplit
      have hlen : (sortBlocks .recentFirst ((newBlocks .recentFirst st front).1 ++ st.remaining)).length =
          (newBlocks .recentFirst st front).1.length + st.remaining.length := by
        unfold sortBlocks
        rw [(sortBy_perm _ _ _).length_eq, List.length_append]
      have hfront : front ∈ st.unproc := by rw [hun]; exact List.mem_cons_self
      have hunlen : (st.unproc.filter (fun s => !willProcessQSRCompletely .recentFirst (segLast .recentFirst front) s)).length
          + 1 ≤ st.unproc.length := by
        have : (st.unproc.filter (fun s => !willProcessQSRCompletely .recentFirst (segLast .recentFirst front) s)).length
            < st.unproc.length := by
          apply List.length_filter_lt_length_iff_exists.mpr
          refine ⟨front, hfront, ?_⟩
          simp [willProcessQSRCompletely, before_irrefl]
        omega
      have hcut : ∀ r, (r ∈ st.unsent ∨ ∃ b ∈ st.remaining, r ∈ b.recs) → st.cutoff ≤ r.2 → front.start ≤ r.2 := by
        intro r hr hc
        rcases h.mono with ⟨_, hu, hrm⟩ | hm
        · rcases hr with hr | ⟨b, hb, _⟩
          · rw [hu] at hr; cases hr
          · rw [hrm] at hb; cases hb
        · have := hm front hfront
          omega
      -- a record known to lie above the start of a listed request
      have hseg : ∀ (r : Rec) (s : Seg), s ∈ st.unproc → s.start ≤ r.2 →
          front.start ≤ r.2 ∨ ∃ s' ∈ st.unproc.filter (fun s => !willProcessQSRCompletely .recentFirst (segLast .recentFirst front) s),
            s'.start ≤ r.2 := by
        intro r s hs hsr
        cases hw : willProcessQSRCompletely .recentFirst (segLast .recentFirst front) s with
        | false => exact Or.inr ⟨s, List.mem_filter.mpr ⟨hs, by simp [hw]⟩, hsr⟩
        | true =>
          left
          have : front.start ≤ s.start := by
            simpa [willProcessQSRCompletely, segLast] using hw
          omega
      refine ⟨?_, ?_, ?_, ?_, ?_, ?_⟩
      · intro r hr
        show front.start ≤ r.2 ∨ ∃ s ∈ st.unproc.filter _, s.start ≤ r.2
        have hold : ∀ r, (r ∈ st.unsent ∨ ∃ b ∈ st.remaining, r ∈ b.recs) →
            front.start ≤ r.2 ∨ ∃ s ∈ st.unproc.filter (fun s => !willProcessQSRCompletely .recentFirst (segLast .recentFirst front) s), s.start ≤ r.2 := by
          intro r hr
          rcases h.low r hr with hc | ⟨s, hs, hsr⟩
          · exact Or.inl (hcut r hr hc)
          · exact hseg r s hs hsr
        rcases hr with hr | ⟨b, hb, hrb⟩
        · exact hold r (Or.inl hr)
        · have hb' := (mem_sortBy _ _ _ b).mp hb
          rcases List.mem_append.mp hb' with hb' | hb'
          · rcases (new_spec .recentFirst st front b hb').1 with ⟨s, hs, hbs⟩
            have hsok := hwf s (hp.unproc_sub s hs) b hbs
            have := hsok.2.2.2 r hrb
            exact hseg r s hs (by omega)
          · exact hold r (Or.inr ⟨b, hb', hrb⟩)
      · intro s hs
        have := (List.mem_filter.mp hs).2
        show s.start < front.start
        have h2 : ¬ (front.start ≤ s.start) := by
          simpa [willProcessQSRCompletely, segLast] using this
        omega
      · unfold mu
        show 2 * ((st.unproc.filter _).length + (sortBlocks .recentFirst _).length + (pending (refillCons .recentFirst st front)).length) + _ ≤ _
        rw [hlen]
        have : (refillCons .recentFirst st front).unsent = st.unsent := rfl
        rw [this]
        omega
      · intro _ _
        unfold mu
        show 2 * ((st.unproc.filter _).length + (sortBlocks .recentFirst _).length + (pending (refillCons .recentFirst st front)).length) + _ + 2 ≤ _
        rw [hlen]
        have : (refillCons .recentFirst st front).unsent = st.unsent := rfl
        rw [this]
        omega
      · intro _ hnil; rw [hun] at hnil; cases hnil
      · intro hg; exact absurd hg hgb

theorem fNext_T (mb : Nat) (st : St) (hl : Low st) (hm : Mono2 st) (hgb : st.gotBlocks = true) :
    InvT (fNext .recentFirst mb st) ∧
    (st.remaining ≠ [] → mu (fNext .recentFirst mb st) + 1 ≤ mu st) ∧
    mu (fNext .recentFirst mb st) ≤ mu st + 1 ∧
    (st.remaining = [] → st.unproc = [] → st.unsent ≠ [] → mu (fNext .recentFirst mb st) + 1 ≤ mu st) := by
  have hsplit := fOut_unsent .recentFirst mb st
  have hlen_take : (getNextBlocks .recentFirst st.remaining mb).1.length ≤ st.remaining.length := by
    have := congrArg List.length (nb_take .recentFirst st.remaining mb)
    rw [List.length_take] at this
    omega
  have hrem_len : (fNext .recentFirst mb st).remaining.length =
      st.remaining.length - (getNextBlocks .recentFirst st.remaining mb).1.length := by
    show (st.remaining.drop _).length = _
    rw [List.length_drop]
  have hflag : ∀ (l : List Rec), (if l.isEmpty then 0 else 1) ≤ 1 := by
    intro l; split <;> omega
  refine ⟨⟨?_, ?_, Or.inr hm⟩, ?_, ?_, ?_⟩
  · intro hg hnil
    have hg' : (if (st.remaining.drop (getNextBlocks .recentFirst st.remaining mb).1.length).isEmpty
        || fEnd .recentFirst mb st == st.cutoff then false else st.gotBlocks) = true := hg
    have hnil' : st.remaining.drop (getNextBlocks .recentFirst st.remaining mb).1.length = [] := hnil
    simp [hnil'] at hg'
  · intro r hr
    show st.cutoff ≤ r.2 ∨ ∃ s ∈ st.unproc, s.start ≤ r.2
    apply hl r
    rcases hr with hr | ⟨b, hb, hrb⟩
    · have : r ∈ fMerged .recentFirst mb st := by rw [← hsplit]; exact List.mem_append_right _ hr
      rcases (mem_fMerged .recentFirst mb st r).mp this with ⟨b, hb, hrb⟩ | hu
      · exact Or.inr ⟨b, mem_next_blocks .recentFirst mb st b hb, hrb⟩
      · exact Or.inl hu
    · exact Or.inr ⟨b, List.mem_of_mem_drop hb, hrb⟩
  · intro hne
    have hpos := nb_pos .recentFirst st.remaining mb hne
    unfold mu
    rw [pending_fNext, hrem_len]
    show 2 * (st.unproc.length + _ + _) + _ + 1 ≤ _
    have := hflag (fNext .recentFirst mb st).unsent
    have := hflag st.unsent
    omega
  · unfold mu
    rw [pending_fNext, hrem_len]
    show 2 * (st.unproc.length + _ + _) + _ ≤ _
    have := hflag (fNext .recentFirst mb st).unsent
    omega
  · intro hrem hun hus
    -- nothing is read, the end time is the cut-off and every unsent record lies at or above it
    have hnb : getNextBlocks .recentFirst st.remaining mb = ([], 0) := by rw [hrem]; rfl
    have hmerged : fMerged .recentFirst mb st = st.unsent := by
      unfold fMerged
      rw [hnb]
      simp [sortRRCs, sortBy]
    have hend : fEnd .recentFirst mb st = st.cutoff := by
      unfold fEnd; rw [hnb]; simp [clampEnd]
    have hout : fOut .recentFirst mb st = st.unsent := by
      unfold fOut getValidRRCs
      rw [hmerged, hend]
      apply takeWhile_all
      intro x hx
      rcases hl x (Or.inl hx) with hc | ⟨s, hs, _⟩
      · simp [Mode.before]; omega
      · rw [hun] at hs; cases hs
    have huns : (fNext .recentFirst mb st).unsent = [] := by
      show (fMerged .recentFirst mb st).drop (fOut .recentFirst mb st).length = []
      rw [hmerged, hout]; simp
    unfold mu
    rw [pending_fNext, hrem_len, huns]
    have : (if st.unsent.isEmpty then 0 else 1) = 1 := by
      cases hu : st.unsent with
      | nil => exact absurd hu hus
      | cons _ _ => rfl
    rw [this]
    show 2 * (st.unproc.length + _ + _) + 0 + 1 ≤ _
    omega

/-- every successful newest-first Fetch strictly decreases the measure and keeps the invariants -/
theorem fetch_T (segs : List Seg) (hwf : WF segs) (mb : Nat) (st : St) (hp : InvP segs st) (h : InvT st)
    (out : List Rec) (st' : St) (hf : fetch .recentFirst mb st = some (out, st')) :
    InvP segs st' ∧ InvT st' ∧ mu st' < mu st := by
  have hr := refill_T segs hwf st hp h
  have hrp := (refill_perm .recentFirst segs hwf st hp).1
  unfold fetch at hf
  rw [fetchRRCs_eq] at hf
  split at hf
  · cases hf
  · rename_i hne
    injection hf with hf
    injection hf with h1 h2
    subst h1; subst h2
    have hn := fNext_T mb (refill .recentFirst st) hr.1 hr.2.1 (refill_gotBlocks _ st)
    refine ⟨fNext_invP _ mb segs _ hrp, hn.1, ?_⟩
    cases hgb : st.gotBlocks with
    | true =>
      have heq := hr.2.2.2.2.2 hgb
      have hrem : (refill .recentFirst st).remaining ≠ [] := by rw [heq]; exact h.gb_rem hgb
      have := hn.2.1 hrem
      have := hr.2.2.1
      omega
    | false =>
      by_cases hun : st.unproc = []
      · have hga := hr.2.2.2.2.1 hgb hun
        by_cases hrem : (refill .recentFirst st).remaining = []
        · have hus : (refill .recentFirst st).unsent ≠ [] := by
            intro hus
            apply hne
            simp [hrem, hus, hga.1]
          have := hn.2.2.2 hrem hga.2 hus
          have := hr.2.2.1
          omega
        · have := hn.2.1 hrem
          have := hr.2.2.1
          omega
      · have := hr.2.2.2.1 hgb hun
        have := hn.2.2.1
        omega

theorem run_eof (segs : List Seg) (hwf : WF segs) (mb : Nat) :
    ∀ (fuel : Nat) (st : St), InvP segs st → InvT st → mu st < fuel →
      (runFetch .recentFirst mb fuel st).2 = true
  | 0, _, _, _, hlt => by omega
  | fuel + 1, st, hp, h, hlt => by
    simp only [runFetch]
    cases hf : fetch .recentFirst mb st with
    | none => rfl
    | some p =>
      rcases p with ⟨out, st'⟩
      have hs := fetch_T segs hwf mb st hp h out st' hf
      exact run_eof segs hwf mb fuel st' hs.1 hs.2.1 (by omega)

theorem mu_init (segs : List Seg) : mu (init .recentFirst segs) = 2 * (segs.length + (allBlocks segs).length) := by
  have hp : pending (init .recentFirst segs) = (sortSegs .recentFirst segs).flatMap (·.blocks) := by
    simp [pending, init]
  have h1 : (sortSegs .recentFirst segs).length = segs.length := (sortBy_perm _ _ segs).length_eq
  have h2 : ((sortSegs .recentFirst segs).flatMap (·.blocks)).length = (allBlocks segs).length :=
    (List.Perm.flatMap_right _ (sortBy_perm _ _ segs)).length_eq
  unfold mu
  rw [hp, h2]
  show 2 * ((sortSegs .recentFirst segs).length + 0 + _) + 0 = _
  rw [h1]
  omega

end SigModel.Lemmas.C05
