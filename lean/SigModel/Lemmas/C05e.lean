/-
C05 helper lemmas, part e: every run reaches EOF (nothing stays in unsentRRCs), in BOTH modes and for EVERY
input (no well-formedness, no unique block ids), with an explicit bound on the number of Fetch calls.  Holds
of `fetchRRCs` after the repair (`lastBlocks`: the last round hands out everything that was kept back); the
only input condition left is the one the Go types give: timestamps are uint64 (needed in oldest-first mode
only, where the last round's end time is math.MaxUint64).  Core Lean only.
-/
import SigModel.Model.Sched
import SigModel.Lemmas.C05a
import SigModel.Lemmas.C05b
import SigModel.Lemmas.C05c
import SigModel.Lemmas.C05d
set_option linter.unusedSimpArgs false
set_option linter.unusedVariables false

namespace SigModel.Lemmas.C05
open SigModel.Sched

theorem takeWhile_all {α : Type} (p : α → Bool) : ∀ (l : List α), (∀ x ∈ l, p x = true) → l.takeWhile p = l
  | [], _ => rfl
  | x :: xs, h => by
    have hx := h x List.mem_cons_self
    simp only [List.takeWhile_cons, hx, if_true]
    rw [takeWhile_all p xs (fun y hy => h y (List.mem_cons_of_mem _ hy))]

/-- two disjoint sub-predicates of `q` select together no more than `q` -/
theorem filter_split_le {α : Type} (q q1 q2 : α → Bool) (h1 : ∀ x, q1 x = true → q x = true)
    (h2 : ∀ x, q2 x = true → q x = true) (hd : ∀ x, q1 x = true → q2 x = true → False) :
    ∀ (l : List α), (l.filter q1).length + (l.filter q2).length ≤ (l.filter q).length
  | [] => by simp
  | x :: xs => by
    have ih := filter_split_le q q1 q2 h1 h2 hd xs
    have c1 := h1 x
    have c2 := h2 x
    have c3 := hd x
    simp only [List.filter_cons]
    cases e1 : q1 x <;> cases e2 : q2 x <;> cases e : q x <;>
      simp only [e1, e2, e, if_true, if_false, Bool.false_eq_true, List.length_cons, forall_const,
        not_true_eq_false, not_false_eq_true, false_implies, implies_true, imp_false] at c1 c2 c3 ⊢ <;>
      omega

/-- progress measure of a run -/
def mu (st : St) : Nat :=
  2 * (st.unproc.length + st.remaining.length + (pending st).length) + (if st.unsent.isEmpty then 0 else 1)

/-- a refill hands out and leaves pending no more blocks than were pending (for ANY input: with repeated block
ids or blocks outside their segment's range some are lost — never gained) -/
theorem pending_refillCons_le (m : Mode) (st : St) (front : Seg) :
    (newBlocks m st front).1.length + (pending (refillCons m st front)).length ≤ (pending st).length := by
  have hsubL : (newBlocks m st front).1.Sublist (st.unproc.flatMap (·.blocks)) :=
    (gf_sublist m _ _ _).trans (filter_flatMap_sublist _ _ _)
  have hall : ∀ b ∈ (newBlocks m st front).1,
      (fun (b : Block) => !st.processed.contains b.id && (newBlocks m st front).2.contains b.id) b = true := by
    intro b hb
    have h1 := (gf_mem m _ _ _ b hb).2.1
    have h2 := gf_ids m _ _ _ b hb
    have h2' : b.id ∈ (newBlocks m st front).2 := h2
    simp [h1, h2']
  have h1 : (newBlocks m st front).1.length ≤
      ((st.unproc.flatMap (·.blocks)).filter
        (fun (b : Block) => !st.processed.contains b.id && (newBlocks m st front).2.contains b.id)).length := by
    have := hsubL.filter (fun (b : Block) => !st.processed.contains b.id && (newBlocks m st front).2.contains b.id)
    rw [List.filter_eq_self.mpr hall] at this
    exact this.length_le
  have h2 : (pending (refillCons m st front)).length ≤
      ((st.unproc.flatMap (·.blocks)).filter (fun (b : Block) => !(newBlocks m st front).2.contains b.id)).length := by
    have hs : ((st.unproc.filter (fun s => !willProcessQSRCompletely m (segLast m front) s)).flatMap (·.blocks)).Sublist
        (st.unproc.flatMap (·.blocks)) := filter_flatMap_sublist _ _ _
    exact (hs.filter (fun (b : Block) => !(newBlocks m st front).2.contains b.id)).length_le
  have h3 := filter_split_le (fun (b : Block) => !st.processed.contains b.id)
    (fun (b : Block) => !st.processed.contains b.id && (newBlocks m st front).2.contains b.id)
    (fun (b : Block) => !(newBlocks m st front).2.contains b.id)
    (by intro b hb; simp only [Bool.and_eq_true] at hb; exact hb.1)
    (by
      intro b hb
      have hn : b.id ∉ (newBlocks m st front).2 := by simpa using hb
      have : b.id ∉ st.processed := fun hp => hn (gf_mono m _ _ _ _ hp)
      simpa using this)
    (by
      intro b hb1 hb2
      simp only [Bool.and_eq_true] at hb1
      rw [hb1.2] at hb2
      cases hb2)
    (st.unproc.flatMap (·.blocks))
  have h4 : (pending st).length =
      ((st.unproc.flatMap (·.blocks)).filter (fun (b : Block) => !st.processed.contains b.id)).length := rfl
  omega

/-- what the searcher holds comes from the input (no well-formedness needed) -/
structure InvE (segs : List Seg) (st : St) : Prop where
  unproc_sub : ∀ s ∈ st.unproc, s ∈ segs
  rem_sub : ∀ b ∈ st.remaining, b ∈ allBlocks segs
  unsent_sub : ∀ r ∈ st.unsent, r ∈ allRecs segs
  gotAll_unproc : st.gotAll = true → st.unproc = []

/-- between two Fetch calls: blocks were obtained only if some are left -/
def GbRem (st : St) : Prop := st.gotBlocks = true → st.remaining ≠ []

theorem invE_init (m : Mode) (segs : List Seg) : InvE segs (init m segs) where
  unproc_sub := by
    intro s hs
    exact (mem_sortBy m (segFirst m) segs s).mp hs
  rem_sub := by simp [init]
  unsent_sub := by simp [init]
  gotAll_unproc := by simp [init]

theorem gbRem_init (m : Mode) (segs : List Seg) : GbRem (init m segs) := by
  intro h; simp [init] at h

theorem mem_allRecs {segs : List Seg} {b : Block} {r : Rec} (hb : b ∈ allBlocks segs) (hr : r ∈ b.recs) :
    r ∈ allRecs segs := by
  unfold allRecs
  exact List.mem_flatMap.mpr ⟨b, hb, hr⟩

theorem refill_E (m : Mode) (segs : List Seg) (st : St) (h : InvE segs st) :
    InvE segs (refill m st) ∧
    mu (refill m st) ≤ mu st ∧
    (st.gotBlocks = false → st.unproc ≠ [] → mu (refill m st) + 2 ≤ mu st) ∧
    (st.gotBlocks = false → st.unproc = [] → (refill m st).gotAll = true) ∧
    (st.gotBlocks = true → refill m st = st) := by
  rw [refill_eq]
  split
  · rename_i hgb
    refine ⟨h, Nat.le_refl _, ?_, ?_, fun _ => rfl⟩ <;> intro hg <;> rw [hg] at hgb <;> cases hgb
  · rename_i hgb
    split
    · rename_i hun
      have hlen : (sortBlocks m st.remaining).length = st.remaining.length :=
        (sortBy_perm _ _ _).length_eq
      refine ⟨⟨?_, ?_, h.unsent_sub, fun _ => hun⟩, ?_, ?_, ?_, ?_⟩
      · simpa [refillNil] using h.unproc_sub
      · intro b hb
        exact h.rem_sub b ((mem_sortBy m _ _ b).mp hb)
      · have : mu (refillNil m st) = mu st := by
          unfold mu
          show 2 * (st.unproc.length + (sortBlocks m st.remaining).length + (pending st).length) + _ = _
          rw [hlen]; rfl
        omega
      · intro _ hne; exact absurd hun hne
      · intro _ _; rfl
      · intro hg; exact absurd hg hgb
    · rename_i front tl hun
      have hle := pending_refillCons_le m st front
      have hlen : (sortBlocks m ((newBlocks m st front).1 ++ st.remaining)).length =
          (newBlocks m st front).1.length + st.remaining.length := by
        unfold sortBlocks
        rw [(sortBy_perm _ _ _).length_eq, List.length_append]
      have hfront : front ∈ st.unproc := by rw [hun]; exact List.mem_cons_self
      have hunlen : (st.unproc.filter (fun s => !willProcessQSRCompletely m (segLast m front) s)).length
          + 1 ≤ st.unproc.length := by
        have : (st.unproc.filter (fun s => !willProcessQSRCompletely m (segLast m front) s)).length
            < st.unproc.length := by
          apply List.length_filter_lt_length_iff_exists.mpr
          refine ⟨front, hfront, ?_⟩
          simp [willProcessQSRCompletely, before_irrefl]
        omega
      refine ⟨⟨?_, ?_, h.unsent_sub, ?_⟩, ?_, ?_, ?_, ?_⟩
      · intro s hs
        exact h.unproc_sub s (List.mem_filter.mp hs).1
      · intro b hb
        have hb' := (mem_sortBy m _ _ b).mp hb
        rcases List.mem_append.mp hb' with hb' | hb'
        · rcases (new_spec m st front b hb').1 with ⟨s, hs, hbs⟩
          exact mem_allBlocks.mpr ⟨s, h.unproc_sub s hs, hbs⟩
        · exact h.rem_sub b hb'
      · intro hg
        have hg' : st.gotAll = true := hg
        have := h.gotAll_unproc hg'
        rw [hun] at this
        cases this
      · unfold mu
        show 2 * ((st.unproc.filter _).length + (sortBlocks m _).length + (pending (refillCons m st front)).length) + _ ≤ _
        rw [hlen]
        have : (refillCons m st front).unsent = st.unsent := rfl
        rw [this]
        omega
      · intro _ _
        unfold mu
        show 2 * ((st.unproc.filter _).length + (sortBlocks m _).length + (pending (refillCons m st front)).length) + _ + 2 ≤ _
        rw [hlen]
        have : (refillCons m st front).unsent = st.unsent := rfl
        rw [this]
        omega
      · intro _ hnil; rw [hun] at hnil; cases hnil
      · intro hg; exact absurd hg hgb

/-- the last round's end time lets every uint64 timestamp through -/
theorem flush_keeps (m : Mode) (x : Rec) (hfit : m = .recentLast → x.2 ≤ maxU64) :
    (!m.before (flushEnd m) x.2) = true := by
  cases m with
  | recentFirst => simp [flushEnd, Mode.before]
  | recentLast =>
    have := hfit rfl
    simp only [flushEnd, Mode.before, Bool.not_eq_true']
    exact decide_eq_false (Nat.not_lt.mpr this)

theorem fNext_E (m : Mode) (mb : Nat) (segs : List Seg) (st : St) (h : InvE segs st) :
    InvE segs (fNext m mb st) ∧ GbRem (fNext m mb st) ∧
    (st.remaining ≠ [] → mu (fNext m mb st) + 1 ≤ mu st) ∧
    mu (fNext m mb st) ≤ mu st + 1 ∧
    (st.remaining = [] → st.gotAll = true → st.unsent ≠ [] →
      (m = .recentLast → ∀ r ∈ st.unsent, r.2 ≤ maxU64) → mu (fNext m mb st) + 1 ≤ mu st) := by
  have hsplit := fOut_unsent m mb st
  have hlen_take : (getNextBlocks m st.remaining mb).1.length ≤ st.remaining.length := by
    have := congrArg List.length (nb_take m st.remaining mb)
    rw [List.length_take] at this
    omega
  have hrem_len : (fNext m mb st).remaining.length =
      st.remaining.length - (getNextBlocks m st.remaining mb).1.length := by
    show (st.remaining.drop _).length = _
    rw [List.length_drop]
  have hflag : ∀ (l : List Rec), (if l.isEmpty then 0 else 1) ≤ 1 := by
    intro l; split <;> omega
  refine ⟨⟨h.unproc_sub, ?_, ?_, h.gotAll_unproc⟩, ?_, ?_, ?_, ?_⟩
  · intro b hb
    exact h.rem_sub b (List.mem_of_mem_drop hb)
  · intro r hr
    have : r ∈ fMerged m mb st := by rw [← hsplit]; exact List.mem_append_right _ hr
    rcases (mem_fMerged m mb st r).mp this with ⟨b, hb, hrb⟩ | hu
    · exact mem_allRecs (h.rem_sub b (mem_next_blocks m mb st b hb)) hrb
    · exact h.unsent_sub r hu
  · intro hg hnil
    have hg' : (if (st.remaining.drop (getNextBlocks m st.remaining mb).1.length).isEmpty
        || fEnd m mb st == st.cutoff then false else st.gotBlocks) = true := hg
    have hnil' : st.remaining.drop (getNextBlocks m st.remaining mb).1.length = [] := hnil
    simp [hnil'] at hg'
  · intro hne
    have hpos := nb_pos m st.remaining mb hne
    unfold mu
    rw [pending_fNext, hrem_len]
    show 2 * (st.unproc.length + _ + _) + _ + 1 ≤ _
    have := hflag (fNext m mb st).unsent
    have := hflag st.unsent
    omega
  · unfold mu
    rw [pending_fNext, hrem_len]
    show 2 * (st.unproc.length + _ + _) + _ ≤ _
    have := hflag (fNext m mb st).unsent
    omega
  · intro hrem hga hus hfit
    -- the last round with nothing left to read: everything kept back is handed out
    have hnb : getNextBlocks m st.remaining mb = ([], 0) := by rw [hrem]; rfl
    have hmerged : fMerged m mb st = st.unsent := by
      unfold fMerged
      rw [hnb]
      simp [sortRRCs, sortBy]
    have hend : fEnd m mb st = flushEnd m := fEnd_last m mb st (fLast_of_nil m mb st hrem hga)
    have hout : fOut m mb st = st.unsent := by
      unfold fOut getValidRRCs
      rw [hmerged, hend]
      apply takeWhile_all
      intro x hx
      exact flush_keeps m x (fun hm => hfit hm x hx)
    have huns : (fNext m mb st).unsent = [] := by
      show (fMerged m mb st).drop (fOut m mb st).length = []
      rw [hmerged, hout]; simp
    unfold mu
    rw [pending_fNext, hrem_len, huns]
    have : (if st.unsent.isEmpty then 0 else 1) = 1 := by
      cases hu : st.unsent with
      | nil => exact absurd hu hus
      | cons _ _ => rfl
    rw [this]
    show 2 * (st.unproc.length + _ + _) + 0 + 1 ≤ _
    omega

/-- every successful Fetch strictly decreases the measure and keeps the invariants -/
theorem fetch_E (m : Mode) (segs : List Seg) (hfit : m = .recentLast → ∀ r ∈ allRecs segs, r.2 ≤ maxU64)
    (mb : Nat) (st : St) (h : InvE segs st) (hg : GbRem st)
    (out : List Rec) (st' : St) (hf : fetch m mb st = some (out, st')) :
    InvE segs st' ∧ GbRem st' ∧ mu st' < mu st := by
  have hr := refill_E m segs st h
  unfold fetch at hf
  rw [fetchRRCs_eq] at hf
  split at hf
  · cases hf
  · rename_i hne
    injection hf with hf
    injection hf with h1 h2
    subst h1; subst h2
    have hn := fNext_E m mb segs (refill m st) hr.1
    refine ⟨hn.1, hn.2.1, ?_⟩
    cases hgb : st.gotBlocks with
    | true =>
      have heq := hr.2.2.2.2 hgb
      have hrem : (refill m st).remaining ≠ [] := by rw [heq]; exact hg hgb
      have := hn.2.2.1 hrem
      have := hr.2.1
      omega
    | false =>
      by_cases hun : st.unproc = []
      · have hga := hr.2.2.2.1 hgb hun
        by_cases hrem : (refill m st).remaining = []
        · have hus : (refill m st).unsent ≠ [] := by
            intro hus
            apply hne
            simp [hrem, hus, hga]
          have := hn.2.2.2.2 hrem hga hus
            (fun hm r hr' => hfit hm r (hr.1.unsent_sub r hr'))
          have := hr.2.1
          omega
        · have := hn.2.2.1 hrem
          have := hr.2.1
          omega
      · have := hr.2.2.1 hgb hun
        have := hn.2.2.2.1
        omega

theorem run_eof (m : Mode) (segs : List Seg) (hfit : m = .recentLast → ∀ r ∈ allRecs segs, r.2 ≤ maxU64)
    (mb : Nat) :
    ∀ (fuel : Nat) (st : St), InvE segs st → GbRem st → mu st < fuel →
      (runFetch m mb fuel st).2 = true
  | 0, _, _, _, hlt => by omega
  | fuel + 1, st, h, hg, hlt => by
    simp only [runFetch]
    cases hf : fetch m mb st with
    | none => rfl
    | some p =>
      rcases p with ⟨out, st'⟩
      have hs := fetch_E m segs hfit mb st h hg out st' hf
      exact run_eof m segs hfit mb fuel st' hs.1 hs.2.1 (by omega)

theorem mu_init (m : Mode) (segs : List Seg) : mu (init m segs) = 2 * (segs.length + (allBlocks segs).length) := by
  have hp : pending (init m segs) = (sortSegs m segs).flatMap (·.blocks) := by
    simp [pending, init]
  have h1 : (sortSegs m segs).length = segs.length := (sortBy_perm _ _ segs).length_eq
  have h2 : ((sortSegs m segs).flatMap (·.blocks)).length = (allBlocks segs).length :=
    (List.Perm.flatMap_right _ (sortBy_perm _ _ segs)).length_eq
  unfold mu
  rw [hp, h2]
  show 2 * ((sortSegs m segs).length + 0 + _) + 0 = _
  rw [h1]
  omega

end SigModel.Lemmas.C05
