/-
C05 helper lemmas, part d: nothing is lost or released twice (permutation), for both modes.  Core Lean only.
-/
import SigModel.Model.Sched
import SigModel.Lemmas.C05a
import SigModel.Lemmas.C05b
import SigModel.Lemmas.C05c
set_option linter.unusedSimpArgs false
set_option linter.unusedVariables false

namespace SigModel.Lemmas.C05
open SigModel.Sched

/-! ### list helpers -/

theorem nodup_of_map {α β : Type} (f : α → β) {l : List α} (h : (l.map f).Nodup) : l.Nodup := by
  rw [List.nodup_iff_pairwise_ne] at h ⊢
  rw [List.pairwise_map] at h
  exact h.imp (fun hne heq => hne (by rw [heq]))

theorem inj_of_nodup_map {α β : Type} (f : α → β) : ∀ {l : List α}, (l.map f).Nodup →
    ∀ {a b : α}, a ∈ l → b ∈ l → f a = f b → a = b
  | [], _, a, b, ha, _, _ => by simp at ha
  | x :: xs, h, a, b, ha, hb, hab => by
    rw [List.map_cons, List.nodup_cons] at h
    rcases List.mem_cons.mp ha with rfl | ha'
    · rcases List.mem_cons.mp hb with rfl | hb'
      · rfl
      · exfalso; apply h.1; rw [hab]; exact List.mem_map_of_mem hb'
    · rcases List.mem_cons.mp hb with rfl | hb'
      · exfalso; apply h.1; rw [← hab]; exact List.mem_map_of_mem ha'
      · exact inj_of_nodup_map f h.2 ha' hb' hab

theorem filter_flatMap_sublist {α β : Type} (p : α → Bool) (f : α → List β) :
    ∀ (l : List α), ((l.filter p).flatMap f).Sublist (l.flatMap f)
  | [] => by simp
  | x :: xs => by
    by_cases h : p x
    · simp only [List.filter_cons, h, if_true, List.flatMap_cons]
      exact List.Sublist.append (List.Sublist.refl _) (filter_flatMap_sublist p f xs)
    · simp only [List.filter_cons, h, List.flatMap_cons]
      exact (filter_flatMap_sublist p f xs).trans (List.sublist_append_right _ _)

theorem sublist_flatMap {α β : Type} (f : α → List β) : ∀ {l₁ l₂ : List α}, l₁.Sublist l₂ →
    (l₁.flatMap f).Sublist (l₂.flatMap f) := by
  intro l₁ l₂ h
  induction h with
  | slnil => simp
  | cons a _ ih => simp only [List.flatMap_cons]; exact ih.trans (List.sublist_append_right _ _)
  | cons_cons a _ ih => simp only [List.flatMap_cons]; exact List.Sublist.append (List.Sublist.refl _) ih

theorem recsOf_append (a b : List Block) : recsOf (a ++ b) = recsOf a ++ recsOf b := by
  simp [recsOf, List.flatMap_append]

theorem recsOf_perm {a b : List Block} (h : a.Perm b) : (recsOf a).Perm (recsOf b) :=
  List.Perm.flatMap_right _ h

/-! ### the invariant for "exactly once" -/

structure InvP (segs : List Seg) (st : St) : Prop where
  unproc_sub : ∀ s ∈ st.unproc, s ∈ segs
  ids_nodup : ((st.unproc.flatMap (·.blocks)).map (·.id)).Nodup
  gotAll_unproc : st.gotAll = true → st.unproc = []

def NodupIds (segs : List Seg) : Prop := ((allBlocks segs).map (·.id)).Nodup

theorem invP_init (m : Mode) (segs : List Seg) (hid : NodupIds segs) : InvP segs (init m segs) where
  unproc_sub := by
    intro s hs
    exact (mem_sortBy m (segFirst m) segs s).mp hs
  ids_nodup := by
    have hp : ((sortSegs m segs).flatMap (·.blocks)).Perm (segs.flatMap (·.blocks)) :=
      List.Perm.flatMap_right _ (sortBy_perm m _ segs)
    exact (List.Perm.nodup_iff (hp.map _)).mpr hid
  gotAll_unproc := by simp [init]

/-- the block-level split performed by a refill: not handed out before = handed out now + still pending -/
theorem pending_split (m : Mode) (segs : List Seg) (hwf : WF segs) (st : St) (h : InvP segs st) (front : Seg) :
    (pending st).Perm ((newBlocks m st front).1 ++ pending (refillCons m st front)) := by
  have hall : (st.unproc.flatMap (·.blocks)).Nodup := nodup_of_map _ h.ids_nodup
  have hsub1 : ((st.unproc.filter (shouldProcessQSR m (segLast m front))).flatMap (·.blocks)).Sublist
      (st.unproc.flatMap (·.blocks)) := filter_flatMap_sublist _ _ _
  have hsub2 : ((st.unproc.filter (fun s => !willProcessQSRCompletely m (segLast m front) s)).flatMap (·.blocks)).Sublist
      (st.unproc.flatMap (·.blocks)) := filter_flatMap_sublist _ _ _
  apply (List.perm_ext_iff_of_nodup ?_ ?_).mpr
  · intro b
    constructor
    · intro hb
      rcases mem_pending.mp hb with ⟨⟨s, hs, hbs⟩, hid⟩
      by_cases hp' : b.id ∈ (newBlocks m st front).2
      · -- handed out now
        rcases gf_proc m _ _ _ _ hp' with hold | ⟨b', hb', hbid⟩
        · exact absurd hold hid
        · have hb'in : b' ∈ st.unproc.flatMap (·.blocks) := by
            rcases (new_spec m st front b' hb').1 with ⟨s', hs', hbs'⟩
            exact List.mem_flatMap.mpr ⟨s', hs', hbs'⟩
          have hbin : b ∈ st.unproc.flatMap (·.blocks) := List.mem_flatMap.mpr ⟨s, hs, hbs⟩
          have : b' = b := inj_of_nodup_map (·.id) h.ids_nodup hb'in hbin hbid
          rw [← this]
          exact List.mem_append_left _ hb'
      · -- still pending: its segment request cannot have left the list
        apply List.mem_append_right
        refine mem_pending.mpr ⟨⟨s, List.mem_filter.mpr ⟨hs, ?_⟩, hbs⟩, hp'⟩
        have hsok : SegOK s := hwf s (h.unproc_sub s hs)
        have hbok : BlockOK b := (hsok b hbs).2.2
        cases hw : willProcessQSRCompletely m (segLast m front) s with
        | false => rfl
        | true =>
          exfalso
          have h1 : m.before (segLast m front) (segLast m s) = false := by
            simpa [willProcessQSRCompletely] using hw
          have h2 := segLast_nb_end m hsok hbs
          have h3 := end_nb_start m hbok
          have h4 := start_nb_segFirst m hsok hbs
          have hsp : shouldProcessQSR m (segLast m front) s = true := by
            simp [shouldProcessQSR, nb_trans m (nb_trans m (nb_trans m h1 h2) h3) h4]
          have hbin : b ∈ (st.unproc.filter (shouldProcessQSR m (segLast m front))).flatMap (·.blocks) :=
            List.mem_flatMap.mpr ⟨s, List.mem_filter.mpr ⟨hs, hsp⟩, hbs⟩
          have hnp := gf_notproc m _ _ st.processed b hbin hp'
          have h5 : m.before (segLast m front) (startOf m b) = true := by
            simpa [shouldProcessBlock] using hnp
          rw [nb_trans m (nb_trans m h1 h2) h3] at h5
          cases h5
    · intro hb
      rcases List.mem_append.mp hb with hb | hb
      · exact mem_pending.mpr (new_spec m st front b hb)
      · exact pending_refillCons_sub m st front b hb
  · exact List.Nodup.sublist List.filter_sublist hall
  · refine List.nodup_append.mpr ⟨?_, ?_, ?_⟩
    · exact List.Nodup.sublist ((gf_sublist m _ _ _).trans hsub1) hall
    · exact List.Nodup.sublist (List.filter_sublist.trans hsub2) hall
    · intro a ha b hb hab
      subst hab
      have := (mem_pending.mp hb).2
      exact this (gf_ids m _ _ _ a ha)

theorem refill_perm (m : Mode) (segs : List Seg) (hwf : WF segs) (st : St) (h : InvP segs st) :
    InvP segs (refill m st) ∧ (future (refill m st)).Perm (future st) := by
  rw [refill_eq]
  split
  · exact ⟨h, List.Perm.refl _⟩
  · split
    · rename_i hun
      refine ⟨⟨h.unproc_sub, h.ids_nodup, fun _ => hun⟩, ?_⟩
      have hp : pending (refillNil m st) = pending st := rfl
      unfold future
      rw [hp]
      show (st.unsent ++ recsOf (sortBlocks m st.remaining) ++ recsOf (pending st)).Perm _
      exact List.Perm.append_right _ (List.Perm.append_left _ (recsOf_perm (sortBy_perm m _ _)))
    · rename_i front tl hun
      refine ⟨⟨?_, ?_, ?_⟩, ?_⟩
      · intro s hs; exact h.unproc_sub s (List.mem_filter.mp hs).1
      · exact List.Nodup.sublist ((filter_flatMap_sublist _ _ _).map _) h.ids_nodup
      · intro hg
        have hg' : st.gotAll = true := hg
        have := h.gotAll_unproc hg'
        rw [hun] at this
        cases this
      · have hsplit := pending_split m segs hwf st h front
        unfold future
        show (st.unsent ++ recsOf (sortBlocks m ((newBlocks m st front).1 ++ st.remaining)) ++
              recsOf (pending (refillCons m st front))).Perm _
        have h1 : (recsOf (sortBlocks m ((newBlocks m st front).1 ++ st.remaining))).Perm
            (recsOf (newBlocks m st front).1 ++ recsOf st.remaining) := by
          rw [← recsOf_append]; exact recsOf_perm (sortBy_perm m _ _)
        have h2 : (recsOf (pending st)).Perm (recsOf (newBlocks m st front).1 ++ recsOf (pending (refillCons m st front))) := by
          rw [← recsOf_append]; exact recsOf_perm hsplit
        rw [List.append_assoc, List.append_assoc]
        apply List.Perm.append_left
        -- recsOf sorted ++ P1  ~  recsOf rem ++ recsOf (pending st)
        refine (List.Perm.append_right _ h1).trans ?_
        refine List.Perm.trans ?_ (List.Perm.append_left _ h2.symm)
        rw [List.append_assoc]
        exact List.perm_append_comm_assoc _ _ _

theorem fetchRRCs_perm (m : Mode) (mb : Nat) (st : St) :
    (future st).Perm (fOut m mb st ++ future (fNext m mb st)) := by
  have hsplit := fOut_unsent m mb st
  have hmerged : (fMerged m mb st).Perm (recsOf (getNextBlocks m st.remaining mb).1 ++ st.unsent) := by
    unfold fMerged
    exact (merge_perm m _ _).trans (List.Perm.append_right _ (sortBy_perm m _ _))
  have hrem : recsOf st.remaining =
      recsOf (getNextBlocks m st.remaining mb).1 ++ recsOf (fNext m mb st).remaining := by
    rw [← recsOf_append]
    show recsOf st.remaining = recsOf ((getNextBlocks m st.remaining mb).1 ++
      st.remaining.drop (getNextBlocks m st.remaining mb).1.length)
    conv => rhs; rw [nb_take]
    rw [List.length_take, Nat.min_eq_left]
    · rw [List.take_append_drop]
    · have := congrArg List.length (nb_take m st.remaining mb)
      rw [List.length_take] at this
      omega
  unfold future
  rw [pending_fNext, hrem]
  have e1 : st.unsent ++ (recsOf (getNextBlocks m st.remaining mb).1 ++ recsOf (fNext m mb st).remaining) ++
        recsOf (pending st) =
      (st.unsent ++ recsOf (getNextBlocks m st.remaining mb).1) ++ (recsOf (fNext m mb st).remaining ++ recsOf (pending st)) := by
    simp only [List.append_assoc]
  have e2 : fOut m mb st ++ ((fNext m mb st).unsent ++ recsOf (fNext m mb st).remaining ++ recsOf (pending st)) =
      (fOut m mb st ++ (fNext m mb st).unsent) ++ (recsOf (fNext m mb st).remaining ++ recsOf (pending st)) := by
    simp only [List.append_assoc]
  rw [e1, e2, hsplit]
  exact List.Perm.append_right _ (List.perm_append_comm.trans hmerged.symm)

theorem fNext_invP (m : Mode) (mb : Nat) (segs : List Seg) (st : St) (h : InvP segs st) : InvP segs (fNext m mb st) :=
  ⟨h.unproc_sub, h.ids_nodup, h.gotAll_unproc⟩

/-- when the run reaches EOF, exactly the records that could still be released were released -/
theorem run_perm (m : Mode) (segs : List Seg) (hwf : WF segs) (mb : Nat) :
    ∀ (fuel : Nat) (st : St), InvP segs st → (runFetch m mb fuel st).2 = true →
      (runFetch m mb fuel st).1.flatten.Perm (future st)
  | 0, st, _, he => by simp [runFetch] at he
  | fuel + 1, st, h, he => by
    simp only [runFetch] at he ⊢
    have hr := refill_perm m segs hwf st h
    cases hf : fetch m mb st with
    | none =>
      simp only [List.flatten_nil]
      unfold fetch at hf
      rw [fetchRRCs_eq] at hf
      split at hf
      · rename_i hc
        simp only [Bool.and_eq_true, List.isEmpty_iff] at hc
        have hun := hr.1.gotAll_unproc hc.2
        have hfut : future (refill m st) = [] := by
          simp [future, hc.1.1, hc.1.2, pending, hun, recsOf]
        have := hr.2
        rw [hfut] at this
        exact this
      · cases hf
    | some p =>
      rcases p with ⟨out, st'⟩
      rw [hf] at he
      unfold fetch at hf
      rw [fetchRRCs_eq] at hf
      split at hf
      · cases hf
      · injection hf with hf
        injection hf with h1 h2
        subst h1; subst h2
        have ih := run_perm m segs hwf mb fuel _ (fNext_invP m mb segs _ hr.1) he
        simp only [List.flatten_cons]
        exact (List.Perm.append_left _ ih).trans ((fetchRRCs_perm m mb (refill m st)).symm.trans hr.2)

theorem future_init (m : Mode) (segs : List Seg) : (future (init m segs)).Perm (allRecs segs) := by
  have hp : pending (init m segs) = (sortSegs m segs).flatMap (·.blocks) := by
    simp [pending, init]
  have hf : future (init m segs) = List.flatMap (·.recs) (pending (init m segs)) := by
    simp [future, init, recsOf]
  rw [hf, hp]
  exact List.Perm.flatMap_right _ (List.Perm.flatMap_right _ (sortBy_perm m _ segs))

end SigModel.Lemmas.C05
