/-
C01 lemmas, part b: a column block and the record reader (forward scan, restart on going backwards,
consistent-length shortcut), for every column and every sequence of seeks.  Core Lean only.
-/
import SigModel.Model.Tlv
import SigModel.Lemmas.C01

namespace SigModel.Lemmas.C01
open SigModel.Tlv

instance : Inhabited Val := ⟨.backfill⟩

/-- offset of record `k` in the block -/
def offs (vs : List Val) (k : Nat) : Nat := (encCol (vs.take k)).length

theorem encCol_append (a b : List Val) : encCol (a ++ b) = encCol a ++ encCol b := by
  simp [encCol]

theorem encCol_cons (v : Val) (vs : List Val) : encCol (v :: vs) = encTLV v ++ encCol vs := by
  simp [encCol]

theorem encCol_split (vs : List Val) (k : Nat) : encCol vs = encCol (vs.take k) ++ encCol (vs.drop k) := by
  rw [← encCol_append, List.take_append_drop]

theorem offs_zero (vs : List Val) : offs vs 0 = 0 := by simp [offs, encCol]

theorem offs_le (vs : List Val) (k : Nat) : offs vs k ≤ (encCol vs).length := by
  have := congrArg List.length (encCol_split vs k)
  simp at this
  unfold offs; omega

theorem offs_succ (vs : List Val) (k : Nat) (h : k < vs.length) :
    offs vs (k + 1) = offs vs k + (encTLV vs[k]).length := by
  unfold offs
  rw [← List.take_append_getElem h, encCol_append]
  simp [encCol]

/-- the bytes from record `k` on: record `k`, then the rest of the column -/
theorem drop_offs (vs : List Val) (k : Nat) (h : k < vs.length) :
    (encCol vs).drop (offs vs k) = encTLV vs[k] ++ encCol (vs.drop (k + 1)) := by
  have h1 : encCol vs = encCol (vs.take k) ++ encCol (vs.drop k) := encCol_split vs k
  rw [h1]
  unfold offs
  rw [List.drop_left, List.drop_eq_getElem_cons h, encCol_cons]

theorem offs_lt_of_lt (vs : List Val) (k : Nat) (h : k < vs.length) : offs vs k < (encCol vs).length := by
  have h1 := offs_succ vs k h
  have h2 := offs_le vs (k + 1)
  have h3 := encTLV_length_pos vs[k]
  omega

/-- `getCurrentRecordLength` is right at every record boundary (what the reader relies on) -/
def LenOk (vs : List Val) (c : Nat) : Prop :=
  ∀ k (h : k < vs.length), curRecLen (encCol vs) c (offs vs k) = .ok (encTLV vs[k]).length

/-- scan mode: no usable consistent length; every record well-formed -/
theorem lenOk_scan (vs : List Val) (c : Nat) (hc : ¬ (c > 0 ∧ c ≠ inconsistent)) (hwf : ∀ v ∈ vs, wf v) : LenOk vs c := by
  intro k h
  unfold curRecLen
  rw [if_neg hc, drop_offs vs k h]
  exact recLen_encTLV _ _ (hwf _ (List.getElem_mem h))

/-- shortcut mode: a consistent length that is the length of every record -/
theorem lenOk_const (vs : List Val) (c : Nat) (hc : c > 0 ∧ c ≠ inconsistent) (hall : ∀ v ∈ vs, (encTLV v).length = c) :
    LenOk vs c := by
  intro k h
  unfold curRecLen
  rw [if_pos hc, hall _ (List.getElem_mem h)]

/-- reader state positioned on record `recNum` of the block `encCol vs` -/
structure Good (vs : List Val) (c : Nat) (st : Rd) : Prop where
  buf : st.buf = encCol vs
  cl : st.constLen = c
  rn : st.recNum < vs.length
  off : st.off = offs vs st.recNum
  len : st.recLen = (encTLV (vs[st.recNum]!)).length

theorem cur_good {vs : List Val} {c : Nat} {st : Rd} (g : Good vs c st) : st.cur = .ok (encTLV (vs[st.recNum]!)) := by
  have hk := g.rn
  have h1 := offs_succ vs st.recNum hk
  have h2 := offs_le vs (st.recNum + 1)
  have hget : vs[st.recNum]! = vs[st.recNum] := by simp [hk]
  unfold Rd.cur
  rw [g.buf, g.off, g.len, hget]
  rw [if_pos (by omega), drop_offs vs _ hk, List.take_left]

theorem next_good {vs : List Val} {c : Nat} {st : Rd} (g : Good vs c st) (hl : LenOk vs c)
    (hn : st.recNum + 1 < vs.length) :
    ∃ st', st.next = .ok st' ∧ Good vs c st' ∧ st'.recNum = st.recNum + 1 := by
  have hk := g.rn
  have hget : vs[st.recNum]! = vs[st.recNum] := by simp [hk]
  have h1 := offs_succ vs st.recNum hk
  have h3 := offs_lt_of_lt vs (st.recNum + 1) hn
  have hoff : st.off + st.recLen = offs vs (st.recNum + 1) := by rw [g.off, g.len, hget, h1]
  have hlen := hl (st.recNum + 1) hn
  unfold Rd.next
  simp only [hoff, g.buf, g.cl]
  rw [if_neg (by omega), hlen]
  refine ⟨_, rfl, ⟨rfl, rfl, hn, rfl, ?_⟩, rfl⟩
  simp [hn]

theorem scan_good {vs : List Val} {c : Nat} (hl : LenOk vs c) (n : Nat) (hn : n < vs.length) :
    ∀ (fuel : Nat) (st : Rd), Good vs c st → st.recNum ≤ n → n - st.recNum + 1 ≤ fuel →
      ∃ st', Rd.scan fuel st n = (st', .ok (encTLV (vs[n]!))) ∧ Good vs c st' ∧ st'.recNum = n := by
  intro fuel
  induction fuel with
  | zero => intro st _ _ h; omega
  | succ fuel ih =>
    intro st g hle hf
    unfold Rd.scan
    by_cases heq : st.recNum = n
    · rw [if_pos heq, cur_good g, heq]
      exact ⟨st, rfl, g, heq⟩
    · rw [if_neg heq, if_neg (by omega)]
      obtain ⟨st', hnx, g', hrn⟩ := next_good g hl (by omega)
      rw [hnx]
      exact ih st' g' (by omega) (by omega)

/-- `ReadRecord(n)` from ANY well-positioned state (forward, backward or the same record) returns record `n`
and leaves the reader well-positioned on it -/
theorem readRecord_good {vs : List Val} {c : Nat} (hl : LenOk vs c) {st : Rd} (g : Good vs c st)
    (n : Nat) (hn : n < vs.length) :
    ∃ st', st.readRecord n = (st', .ok (encTLV (vs[n]!))) ∧ Good vs c st' ∧ st'.recNum = n := by
  unfold Rd.readRecord
  by_cases hb : st.recNum > n
  · rw [if_pos hb]
    have h0 : 0 < vs.length := by omega
    have hlen := hl 0 h0
    rw [offs_zero] at hlen
    rw [g.buf, g.cl, hlen]
    have g0 : Good vs c { st with off := 0, recLen := (encTLV vs[0]).length, recNum := 0 } :=
      ⟨g.buf, g.cl, h0, by simp [offs_zero], by simp [h0]⟩
    have := scan_good hl n hn (n + 2) _ g0 (by simp) (by simp)
    simpa [g.buf, g.cl] using this
  · rw [if_neg hb]
    exact scan_good hl n hn _ st g (by omega) (by omega)

/-- the check of `unpackRawCsg` on a written column: the first record's own length is its encoded length -/
theorem recLen_encCol (vs : List Val) (h0 : 0 < vs.length) : recLen (encCol vs) = .ok (encTLV vs[0]).length := by
  cases vs with
  | nil => simp at h0
  | cons v r =>
    rw [encCol_cons]
    simpa using recLen_encTLV_any v (encCol r)

/-- a hint that does not enable the shortcut is kept as it is -/
theorem checkedLen_of_not_usable (buf : Bytes) (c : Nat) (hc : ¬ (c > 0 ∧ c ≠ inconsistent)) : checkedLen buf c = c := by
  unfold checkedLen; rw [if_neg hc]

/-- a usable hint that is the length of the first record passes the check -/
theorem checkedLen_of_first_eq (vs : List Val) (c : Nat) (h0 : 0 < vs.length) (h : (encTLV vs[0]).length = c) :
    checkedLen (encCol vs) c = c := by
  unfold checkedLen
  by_cases hc : c > 0 ∧ c ≠ inconsistent
  · rw [if_pos hc, recLen_encCol vs h0]; simp [h]
  · rw [if_neg hc]

/-- a usable hint that is NOT the length of the first record is dropped: the reader falls back to the scan -/
theorem checkedLen_of_first_ne (vs : List Val) (c : Nat) (hc : c > 0 ∧ c ≠ inconsistent) (h0 : 0 < vs.length)
    (h : (encTLV vs[0]).length ≠ c) : checkedLen (encCol vs) c = inconsistent := by
  unfold checkedLen
  rw [if_pos hc, recLen_encCol vs h0]; simp [h]

/-- what the callers know: the shortcut is off, or every record has the hinted length -/
theorem checkedLen_ok (vs : List Val) (c : Nat) (h0 : 0 < vs.length)
    (h : ¬ (c > 0 ∧ c ≠ inconsistent) ∨ ∀ v ∈ vs, (encTLV v).length = c) : checkedLen (encCol vs) c = c := by
  rcases h with h | h
  · exact checkedLen_of_not_usable _ _ h
  · exact checkedLen_of_first_eq vs c h0 (h _ (List.getElem_mem h0))

/-- a hint for which `getCurrentRecordLength` is right at every record passes the check of `unpackRawCsg` -/
theorem checkedLen_of_lenOk {vs : List Val} {c : Nat} (hl : LenOk vs c) (h0 : 0 < vs.length) :
    checkedLen (encCol vs) c = c := by
  by_cases hc : c > 0 ∧ c ≠ inconsistent
  · have hlen := hl 0 h0
    unfold curRecLen at hlen
    rw [if_pos hc] at hlen
    exact checkedLen_of_first_eq vs c h0 (by cases hlen; rfl)
  · exact checkedLen_of_not_usable _ _ hc

theorem init_good {vs : List Val} {c : Nat} (hl : LenOk vs c) (h0 : 0 < vs.length) :
    ∃ st, Rd.init (encCol vs) c = .ok st ∧ Good vs c st := by
  have hck := checkedLen_of_lenOk hl h0
  have hlen := hl 0 h0
  rw [offs_zero] at hlen
  unfold Rd.init
  simp only [hck]
  rw [hlen]
  exact ⟨_, rfl, ⟨rfl, rfl, h0, by simp [offs_zero], by simp [h0]⟩⟩

/-- a usable hint that disagrees with the first record: the reader starts in scan mode -/
theorem init_good_fallback {vs : List Val} {c : Nat} (hc : c > 0 ∧ c ≠ inconsistent) (hwf : ∀ v ∈ vs, wf v)
    (h0 : 0 < vs.length) (h : (encTLV vs[0]).length ≠ c) :
    ∃ st, Rd.init (encCol vs) c = .ok st ∧ Good vs inconsistent st := by
  have hl : LenOk vs inconsistent := lenOk_scan vs inconsistent (by simp) hwf
  have hlen := hl 0 h0
  rw [offs_zero] at hlen
  unfold Rd.init
  simp only [checkedLen_of_first_ne vs c hc h0 h]
  rw [hlen]
  exact ⟨_, rfl, ⟨rfl, rfl, h0, by simp [offs_zero], by simp [h0]⟩⟩

/-- every sequence of seeks (any order, repeats) returns exactly the requested records -/
theorem readMany_good {vs : List Val} {c : Nat} (hl : LenOk vs c) :
    ∀ (ns : List Nat) (st : Rd), Good vs c st → (∀ n ∈ ns, n < vs.length) →
      st.readMany ns = ns.map (fun n => .ok (encTLV (vs[n]!))) := by
  intro ns
  induction ns with
  | nil => intro st _ _; rfl
  | cons n ns ih =>
    intro st g hall
    obtain ⟨st', hr, g', _⟩ := readRecord_good hl g n (hall n (by simp))
    unfold Rd.readMany
    rw [hr]
    simp only [List.map_cons]
    rw [ih st' g' (fun m hm => hall m (by simp [hm]))]

/-! ### `updateColValueSizeInAllSeenColumns` -/

theorem seenSize_fold_inconsistent (l : List Nat) :
    l.foldl (fun cur sz => if cur = inconsistent then cur else if cur ≠ sz then inconsistent else cur) inconsistent = inconsistent := by
  induction l with
  | nil => rfl
  | cons a l ih => rw [List.foldl_cons, if_pos rfl]; exact ih

theorem seenSize_fold (l : List Nat) (s c : Nat) (hc : c ≠ inconsistent)
    (h : l.foldl (fun cur sz => if cur = inconsistent then cur else if cur ≠ sz then inconsistent else cur) s = c) :
    s = c ∧ ∀ x ∈ l, x = c := by
  induction l generalizing s with
  | nil => simp at h; exact ⟨h, by simp⟩
  | cons a l ih =>
    simp only [List.foldl_cons] at h
    by_cases h1 : s = inconsistent
    · rw [if_pos h1, h1, seenSize_fold_inconsistent] at h
      exact absurd h.symm hc
    · rw [if_neg h1] at h
      by_cases h2 : s ≠ a
      · rw [if_pos h2, seenSize_fold_inconsistent] at h
        exact absurd h.symm hc
      · rw [if_neg h2] at h
        have := ih s h
        have hsa : s = a := by simpa using h2
        refine ⟨this.1, ?_⟩
        intro x hx
        simp at hx
        rcases hx with rfl | hx
        · rw [← hsa]; exact this.1
        · exact this.2 x hx

/-- a consistent size in the segment metadata means: the column was there from the segment's first record
and every reported size equals it -/
theorem seenSize_consistent (firstRec : Nat) (sizes : List Nat) (c : Nat) (hc : c ≠ inconsistent)
    (h : seenSize firstRec sizes = some c) : firstRec = 0 ∧ ∀ s ∈ sizes, s = c := by
  cases sizes with
  | nil => simp [seenSize] at h
  | cons s rest =>
    simp only [seenSize, Option.some.injEq] at h
    by_cases hf : firstRec > 0
    · rw [if_pos hf, seenSize_fold_inconsistent] at h
      exact absurd h.symm hc
    · rw [if_neg hf] at h
      have := seenSize_fold rest s c hc h
      refine ⟨by omega, ?_⟩
      intro x hx
      simp at hx
      rcases hx with rfl | hx
      · exact this.1
      · exact this.2 x hx

end SigModel.Lemmas.C01
