/-
Helper lemmas for C11 (part 4): at-most-once.  With the request list de-duplicated by segment key (the code as
it is) a finished query's result never has duplicates.  Without it (the code before the repair, `Cfg.of false`)
it has none when the keys of its two snapshots are disjoint (for count queries: exactly then); the snapshots are
disjoint when no segment was in its hand-over window at the first snapshot and no rotation step ran between
the two snapshots.
-/
import SigModel.Lemmas.C11c
set_option linter.unusedSimpArgs false
namespace SigModel.Lemmas.C11
open SigModel.Conc

variable {d : Bool}

/-- no segment key is in both snapshots -/
def Disj (q : Query) : Prop := ∀ r ∈ q.snapU, ∀ r' ∈ q.snapR, r.1 ≠ r'.1

theorem nodup_of_disj (s : St) (j : Nat) (hq : QInv false s j) (hf : (s.query j).finished = true)
    (hd : Disj (s.query j)) : (s.query j).result.Nodup := by
  cases hk : (s.query j).kind with
  | rrc => exact hq.resRrc hf hk
  | stats =>
    rw [hq.resStats hf hk]
    simp only [qsrsOf, Bool.false_eq_true, if_false]
    apply nodup_flatMap_blocksOf
    rw [List.map_append, List.nodup_append]
    refine ⟨hq.keysU, hq.keysR, ?_⟩
    intro a ha b hb hab
    rw [List.mem_map] at ha hb
    obtain ⟨r, hr, h1⟩ := ha
    obtain ⟨r', hr', h2⟩ := hb
    exact hd r hr r' hr' (by rw [h1, h2, hab])

theorem not_nodup_of_overlap (s : St) (j : Nat) (hq : QInv false s j) (hf : (s.query j).finished = true)
    (hk : (s.query j).kind = .stats) (hd : ¬ Disj (s.query j)) : ¬ (s.query j).result.Nodup := by
  rw [hq.resStats hf hk]
  simp only [qsrsOf, Bool.false_eq_true, if_false]
  rw [List.flatMap_append, List.nodup_append]
  intro ⟨_, _, h3⟩
  apply hd
  intro r hr r' hr' hg
  have h0 : r.2 ≠ 0 := hq.posU r hr
  have h0' : r'.2 ≠ 0 := hq.posR r' hr'
  refine h3 (r.1, 0) ?_ (r.1, 0) ?_ rfl
  · rw [List.mem_flatMap]; exact ⟨r, hr, (mem_blocksOf _ _ _ _).mpr ⟨rfl, by omega⟩⟩
  · rw [List.mem_flatMap]; exact ⟨r', hr', (mem_blocksOf _ _ _ _).mpr ⟨hg, by omega⟩⟩

/-- with the request list de-duplicated by segment key, every finished query reads every block at most once -/
theorem nodup_of_dedup (s : St) (j : Nat) (hq : QInv true s j) (hf : (s.query j).finished = true) :
    (s.query j).result.Nodup := by
  cases hk : (s.query j).kind with
  | rrc => exact hq.resRrc hf hk
  | stats =>
    rw [hq.resStats hf hk]
    simp only [qsrsOf, if_true]
    exact nodup_flatMap_blocksOf _ (nodup_dedupKey_keys _)

/-- once both snapshots are taken they do not change any more -/
theorem snaps_frozen (s : St) (l : Label) (j : Nat) (h1 : (s.query j).started = true)
    (h2 : (s.query j).todo = []) :
    ((step (Cfg.of d) s l).query j).started = true ∧ ((step (Cfg.of d) s l).query j).todo = [] ∧
    ((step (Cfg.of d) s l).query j).snapU = (s.query j).snapU ∧
    ((step (Cfg.of d) s l).query j).snapR = (s.query j).snapR := by
  by_cases h : ∃ k, l = .q j k
  · obtain ⟨k, hk⟩ := h
    subst hk
    simp only [step, qStep]
    by_cases h3 : (s.query j).finished
    · simp [h3, h1, h2]
    · simp [h3, h1, h2, upd]
  · rw [query_frame s l j (fun k hk => h ⟨k, hk⟩)]
    exact ⟨h1, h2, rfl, rfl⟩

theorem frozen_run (ls : List Label) (s : St) (j : Nat) (h1 : (s.query j).started = true)
    (h2 : (s.query j).todo = []) (hd : Disj (s.query j)) : Disj ((run (Cfg.of d) s ls).query j) := by
  induction ls generalizing s with
  | nil => exact hd
  | cons l ls ih =>
    obtain ⟨a, b, c, d⟩ := snaps_frozen s l j h1 h2
    rw [run_cons]
    apply ih _ a b
    unfold Disj
    rw [c, d]
    exact hd

/-- labels that are neither rotation steps nor steps of query `j` change neither the rotated map nor query `j` -/
theorem quiet_run (m : List Label) (s : St) (j : Nat)
    (hm : ∀ l ∈ m, (∀ i, l ≠ .rot i) ∧ (∀ b, l ≠ .q j b)) :
    (run (Cfg.of d) s m).rot = s.rot ∧ (run (Cfg.of d) s m).query j = s.query j := by
  induction m generalizing s with
  | nil => exact ⟨rfl, rfl⟩
  | cons l m ih =>
    rw [run_cons]
    have hl := hm l (by simp)
    obtain ⟨r1, r2⟩ := ih (step (Cfg.of d) s l) (fun l' hl' => hm l' (by simp [hl']))
    rw [r1, r2, query_frame s l j hl.2]
    refine ⟨?_, rfl⟩
    cases l with
    | flush i =>
      simp only [step, flush]
      cases (s.store i).todo <;> simp
    | rot i => exact absurd rfl (hl.1 i)
    | q j' k =>
      obtain ⟨qf, hq⟩ := qStep_frame (Cfg.of d) s j' k
      simp [step, hq]

theorem quiet_nodup (p m rest : List Label) (j : Nat) (k k' : Bool)
    (hns : ((run (Cfg.of false) init p).query j).started = false)
    (hw : ∀ g ∈ (run (Cfg.of false) init p).segs, (run (Cfg.of false) init p).unrot g ≠ 0 → (run (Cfg.of false) init p).rot g = 0)
    (hm : ∀ l ∈ m, (∀ i, l ≠ .rot i) ∧ (∀ b, l ≠ .q j b))
    (hf : ((run (Cfg.of false) init (p ++ .q j k :: (m ++ .q j k' :: rest))).query j).finished = true) :
    ((run (Cfg.of false) init (p ++ .q j k :: (m ++ .q j k' :: rest))).query j).result.Nodup := by
  have hQ := qinv_run (d := false) (p ++ .q j k :: (m ++ .q j k' :: rest)) j
  apply nodup_of_disj _ j hQ hf
  rw [run_append, run_cons, run_append, run_cons]
  -- names
  generalize hs0 : run (Cfg.of false) init p = s0 at hns hw
  have hq0 : QInv false s0 j := by rw [← hs0]; exact qinv_run p j
  have hnf : (s0.query j).finished = false := by
    cases hfin : (s0.query j).finished with
    | false => rfl
    | true => have := (hq0.finOk hfin).1; rw [hns] at this; exact absurd this (by simp)
  -- first step of the query
  have e1 : (step (Cfg.of false) s0 (.q j k)).rot = s0.rot := by
    obtain ⟨qf, hq⟩ := qStep_frame (Cfg.of false) s0 j k
    simp [step, hq]
  have e1q : ((step (Cfg.of false) s0 (.q j k)).query j).started = true ∧
      ((step (Cfg.of false) s0 (.q j k)).query j).todo = [.snapR] ∧
      ((step (Cfg.of false) s0 (.q j k)).query j).finished = false ∧
      ((step (Cfg.of false) s0 (.q j k)).query j).snapU = snapOf s0 s0.unrot := by
    simp [step, qStep, hns, hnf, Cfg.of, applySnap, upd]
  generalize hs1 : step (Cfg.of false) s0 (.q j k) = s1 at e1 e1q
  -- the quiet stretch
  obtain ⟨e2, e2q⟩ := quiet_run m s1 j hm
  generalize hs2 : run (Cfg.of false) s1 m = s2 at e2 e2q
  -- second step of the query
  have e3 : ((step (Cfg.of false) s2 (.q j k')).query j).started = true ∧
      ((step (Cfg.of false) s2 (.q j k')).query j).todo = [] ∧
      ((step (Cfg.of false) s2 (.q j k')).query j).snapU = snapOf s0 s0.unrot ∧
      ((step (Cfg.of false) s2 (.q j k')).query j).snapR = snapOf s2 s2.rot := by
    simp [step, qStep, e2q, e1q.1, e1q.2.1, e1q.2.2.1, e1q.2.2.2, applySnap, upd]
  apply frozen_run rest _ j e3.1 e3.2.1
  intro r hr r' hr' hg
  rw [e3.2.2.1] at hr
  rw [e3.2.2.2] at hr'
  obtain ⟨g, n⟩ := r
  obtain ⟨g', n'⟩ := r'
  simp only at hg
  subst hg
  rw [mem_snapOf] at hr hr'
  have := hw g hr.1 hr.2.1
  rw [e2, e1] at hr'
  exact hr'.2.1 this

end SigModel.Lemmas.C11
