/-
C02 kernel slice, lemmas part d: the guards hold whenever every integer involved is within ±2^53 (where float64 is
exact) — what remains excluded after the C02 repairs is exactly the magnitude classes and the latent unsigned-vs-negative
class (numeric strings are compared by value since repair c02-4).  Core Lean only.
-/
import SigModel.Lemmas.C02Kc

namespace SigModel.Lemmas.C02K
open SigModel.Tlv SigModel.Cmp

def two53 : Int := 9007199254740992

/-- `float64(n)` is exact for |n| ≤ 2^53 -/
def Exact53 (rnd : Rat → Rat) : Prop := ∀ n : Int, -two53 ≤ n → n ≤ two53 → rnd (n : Rat) = (n : Rat)

/-- every integer in the comparison is within ±2^53: the stored integer, and the literal's value if it is an integer -/
def Within53 (v : SVal) (t : NumText) : Prop :=
  (match v with
    | .int i => -two53 ≤ i ∧ i ≤ two53
    | .uint n => (n : Int) ≤ two53
    | _ => True) ∧
  (∀ k : Int, t.val = (k : Rat) → -two53 ≤ k ∧ k ≤ two53)

theorem mkLit_signed_val (rnd : Rat → Rat) (t : NumText) (ht : t.wf) (h : (mkLit rnd t).dtype = .signed) :
    t.val = ((mkLit rnd t).signed : Rat) := by
  unfold mkLit at h ⊢
  by_cases hn : t.neg = true
  · cases hi : t.intOk with
    | none =>
      simp [hn, hi, floatLit] at h
      by_cases h0 : rnd t.val = 0 <;> simp [h0] at h
    | some i =>
      by_cases h0 : i = 0
      · simp [hn, hi, h0] at h
      · simp [hn, h0, (wf_int t ht i hi).1]
  · have hn' : t.neg = false := by simpa using hn
    cases hu : t.uintOk with
    | none =>
      simp [hn', hu, floatLit] at h
      by_cases h0 : rnd t.val = 0 <;> simp [h0] at h
    | some u => simp [hn', hu] at h

theorem mkLit_unsigned_val (rnd : Rat → Rat) (t : NumText) (ht : t.wf) (h : (mkLit rnd t).dtype = .unsigned) :
    (mkLit rnd t).unsigned = 0 ∨ t.val = ((mkLit rnd t).unsigned : Rat) := by
  unfold mkLit at h ⊢
  by_cases hn : t.neg = true
  · cases hi : t.intOk with
    | none =>
      simp [hn, floatLit]
      by_cases h0 : rnd t.val = 0 <;> simp [h0]
      simp [hn, hi, floatLit, h0] at h
    | some i =>
      by_cases h0 : i = 0
      · simp [hn, h0]
      · simp [hn, hi, h0] at h
  · have hn' : t.neg = false := by simpa using hn
    cases hu : t.uintOk with
    | none =>
      simp [hn', floatLit]
      by_cases h0 : rnd t.val = 0 <;> simp [h0]
      simp [hn', hu, floatLit, h0] at h
    | some u => simp [hn', (wf_uint t ht u hu).1]

theorem litVal_exact (rnd : Rat → Rat) (hex : Exact53 rnd) (t : NumText) (ht : t.wf)
    (hl : ∀ k : Int, t.val = (k : Rat) → -two53 ≤ k ∧ k ≤ two53) : litVal rnd t = rnd t.val := by
  unfold litVal
  by_cases hc : ((t.neg && t.intOk.isSome) || (!t.neg && t.uintOk.isSome)) = true
  · simp only [hc, if_true]
    have hk : ∃ k : Int, t.val = (k : Rat) := by
      simp at hc
      rcases hc with ⟨_, hi⟩ | ⟨_, hu⟩
      · obtain ⟨i, hi⟩ := Option.isSome_iff_exists.mp hi
        exact ⟨i, (wf_int t ht i hi).1⟩
      · obtain ⟨u, hu⟩ := Option.isSome_iff_exists.mp hu
        exact ⟨(u : Int), by rw [(wf_uint t ht u hu).1, natCast_rat]⟩
    obtain ⟨k, hk⟩ := hk
    have hb := hl k hk
    rw [hk, hex k hb.1 hb.2]
  · simp [hc]

/-- within ±2^53 both guards hold, for a numeric field that is not an unsigned record against a negative integer
literal -/
theorem guards_within_2_53 (rnd : Rat → Rat) (hr : RndOk rnd) (hex : Exact53 rnd) (v : SVal) (op : Op) (t : NumText)
    (ht : t.wf) (hw : Within53 v t) (hnum : (fieldFloat rnd v).isSome = true)
    (hD : ∀ n, v = .uint n → (mkLit rnd t).dtype ≠ .signed) :
    cmpGuardQ rnd v op (mkLit rnd t) = true ∧ whereGuard rnd v op t = true := by
  have hlv := litVal_exact rnd hex t ht hw.2
  have hsig : (mkLit rnd t).dtype = .signed →
      rnd (((mkLit rnd t).signed : Int) : Rat) = (((mkLit rnd t).signed : Int) : Rat) := by
    intro h
    have hv := mkLit_signed_val rnd t ht h
    have hb := hw.2 _ hv
    exact hex _ hb.1 hb.2
  have huns : (mkLit rnd t).dtype = .unsigned →
      rnd (((mkLit rnd t).unsigned : Nat) : Rat) = (((mkLit rnd t).unsigned : Nat) : Rat) := by
    intro h
    rcases mkLit_unsigned_val rnd t ht h with h0 | hv
    · rw [h0]; simpa using hr.zero
    · have hb := hw.2 ((mkLit rnd t).unsigned : Int) (by rw [hv, natCast_rat])
      rw [← natCast_rat]; exact hex _ hb.1 hb.2
  cases v with
  | str s => simp [fieldFloat] at hnum
  | bool b => simp [fieldFloat] at hnum
  | backfill => simp [fieldFloat] at hnum
  | int i =>
    have hi : rnd (i : Rat) = (i : Rat) := hex i hw.1.1 hw.1.2
    refine ⟨?_, by simp [whereGuard, hlv, hi]⟩
    cases hd : (mkLit rnd t).dtype <;> simp [cmpGuardQ, hd, hi]
  | uint n =>
    have hn : rnd (n : Rat) = (n : Rat) := by
      rw [← natCast_rat]; exact hex _ (by unfold two53; omega) hw.1
    refine ⟨?_, by simp [whereGuard, hlv, hn]⟩
    cases hd : (mkLit rnd t).dtype <;> simp [cmpGuardQ, hd, hn]
    exact hD n rfl hd
  | float b =>
    refine ⟨?_, by simp [whereGuard, hlv]⟩
    cases hd : (mkLit rnd t).dtype <;> simp [cmpGuardQ, hd]
    · exact hsig hd
    · exact huns hd

end SigModel.Lemmas.C02K
