import SigModel.Model.Retention
/-! Lemmas about `SigModel.Retention.SegDir` (utils.GetSegBaseDirFromFilename): first occurrence of a pattern behind a
prefix that does not hold it, path components.  For §9 of Props/C14.lean. -/
namespace SigModel.Lemmas.C14Dir
open SigModel.Retention.SegDir

theorem isPrefixOf_append_self (pat rest : List Char) : pat.isPrefixOf (pat ++ rest) = true := by
  induction pat with
  | nil => simp [List.isPrefixOf]
  | cons c p ih => simp [ih]

/-- a pattern no longer than `x`: whether it is a prefix of `x ++ y` is decided inside `x` -/
theorem isPrefixOf_append_long (pat : List Char) : ∀ (x y : List Char), pat.length ≤ x.length →
    pat.isPrefixOf (x ++ y) = pat.isPrefixOf x := by
  induction pat with
  | nil => intro x y _; simp [List.isPrefixOf]
  | cons c p ih =>
    intro x y h
    cases x with
    | nil => simp at h
    | cons d r =>
      have hl : p.length ≤ r.length := by simpa using h
      simp [List.isPrefixOf, ih r y hl]

theorem findSub_self (pat rest : List Char) (h : pat ≠ []) : findSub pat (pat ++ rest) = some 0 := by
  cases pat with
  | nil => exact absurd rfl h
  | cons c p =>
    have := isPrefixOf_append_self (c :: p) rest
    simp only [List.cons_append] at this ⊢
    simp [findSub, this]

/-- the first occurrence of `pat = body ++ [e]` in `pre ++ pat ++ rest` is the one behind `pre`, if `pre ++ body` holds none -/
theorem findSub_behind (body : List Char) (e : Char) (rest : List Char) : ∀ pre : List Char,
    findSub (body ++ [e]) (pre ++ body) = none →
    findSub (body ++ [e]) (pre ++ (body ++ [e]) ++ rest) = some pre.length := by
  intro pre
  induction pre with
  | nil =>
    intro _
    have := findSub_self (body ++ [e]) rest (by simp)
    simpa using this
  | cons c p ih =>
    intro h
    simp only [List.cons_append, findSub] at h
    split at h
    · cases h
    · rename_i hnp
      have hrest : findSub (body ++ [e]) (p ++ body) = none := by
        cases hf : findSub (body ++ [e]) (p ++ body) with
        | none => rfl
        | some v => rw [hf] at h; cases h
      have hlen : (body ++ [e]).length ≤ (c :: (p ++ body)).length := by simp
      have hnp' : (body ++ [e]).isPrefixOf (c :: (p ++ body) ++ ([e] ++ rest)) = false := by
        rw [isPrefixOf_append_long _ _ _ hlen]
        cases hb : (body ++ [e]).isPrefixOf (c :: (p ++ body)) with
        | false => rfl
        | true => exact absurd hb hnp
      have heq : c :: p ++ (body ++ [e]) ++ rest = c :: (p ++ body) ++ ([e] ++ rest) := by simp
      rw [heq]
      have heq2 : c :: (p ++ body) ++ ([e] ++ rest) = c :: ((p ++ body) ++ ([e] ++ rest)) := rfl
      rw [heq2, findSub]
      rw [← heq2, hnp']
      have := ih hrest
      have heq3 : p ++ body ++ ([e] ++ rest) = p ++ (body ++ [e]) ++ rest := by simp
      simp only [Bool.false_eq_true, if_false]
      rw [heq3, this]
      simp

theorem takeParts_component (k : Nat) (rest : List Char) : ∀ w : List Char, '/' ∉ w →
    takeParts (k + 1) (w ++ '/' :: rest) = (takeParts k rest).map (fun t => w ++ '/' :: t) := by
  intro w
  induction w with
  | nil => intro _; simp [takeParts]
  | cons c r ih =>
    intro h
    have hc : c ≠ '/' := by
      intro hc
      exact h (by simp [hc])
    have hr : '/' ∉ r := fun hm => h (by simp [hm])
    simp only [List.cons_append, takeParts, hc, if_false]
    rw [ih hr]
    cases takeParts k rest <;> simp

end SigModel.Lemmas.C14Dir
