/-
Helper lemmas for Props/C19 (lexical path model).  Core Lean only.
-/
import SigModel.Model.Path
namespace SigModel.Lemmas.C19
open SigModel.Path

/-! ### splitSlash -/

theorem splitSlash_ne_nil : ∀ s : Str, splitSlash s ≠ []
  | [] => by simp [splitSlash]
  | c :: cs => by
    unfold splitSlash
    by_cases h : c = '/'
    · simp [h]
    · simp only [h, if_false]
      cases hs : splitSlash cs <;> simp

theorem splitSlash_cons_ne {c : Char} (h : c ≠ '/') (cs : Str) :
    ∃ s r, splitSlash cs = s :: r ∧ splitSlash (c :: cs) = (c :: s) :: r := by
  cases hs : splitSlash cs with
  | nil => exact absurd hs (splitSlash_ne_nil cs)
  | cons s r => exact ⟨s, r, rfl, by rw [splitSlash]; simp [h, hs]⟩

theorem splitSlash_append_slash : ∀ (a b : Str), splitSlash (a ++ '/' :: b) = splitSlash a ++ splitSlash b
  | [], b => by simp [splitSlash]
  | c :: a, b => by
    by_cases h : c = '/'
    · subst h
      have ih := splitSlash_append_slash a b
      simp [splitSlash, ih]
    · obtain ⟨s, r, hs, hc⟩ := splitSlash_cons_ne h a
      have ih := splitSlash_append_slash a b
      have : splitSlash (c :: (a ++ '/' :: b)) = (c :: s) :: (r ++ splitSlash b) := by
        rw [splitSlash]; simp [h, ih, hs]
      simp only [List.cons_append]
      rw [this, hc]; simp

theorem splitSlash_noSlash : ∀ (s : Str), '/' ∉ s → splitSlash s = [s]
  | [], _ => rfl
  | c :: cs, h => by
    have hc : c ≠ '/' := fun e => h (by simp [e])
    have hcs : '/' ∉ cs := fun e => h (by simp [e])
    rw [splitSlash]; simp [hc, splitSlash_noSlash cs hcs]

theorem mem_splitSlash_noSlash : ∀ (s : Str) (seg : Seg), seg ∈ splitSlash s → '/' ∉ seg
  | [], seg, h => by simp [splitSlash] at h; simp [h]
  | c :: cs, seg, h => by
    by_cases hc : c = '/'
    · subst hc
      simp [splitSlash] at h
      rcases h with h | h
      · simp [h]
      · exact mem_splitSlash_noSlash cs seg h
    · obtain ⟨s, r, hs, hcs⟩ := splitSlash_cons_ne hc cs
      rw [hcs] at h
      simp at h
      rcases h with h | h
      · subst h
        have : '/' ∉ s := mem_splitSlash_noSlash cs s (by simp [hs])
        intro hm
        simp at hm
        rcases hm with hm | hm
        · exact hc hm.symm
        · exact this hm
      · exact mem_splitSlash_noSlash cs seg (by simp [hs, h])

/-- splitting a '/'-joined list = concatenation of the splits of its elements -/
theorem splitSlash_joinSegs : ∀ (l : List Str), l ≠ [] → splitSlash (joinSegs l) = (l.map splitSlash).flatten
  | [], h => absurd rfl h
  | [s], _ => by simp [joinSegs]
  | s :: t :: r, _ => by
    have ih := splitSlash_joinSegs (t :: r) (by simp)
    simp only [joinSegs]
    rw [splitSlash_append_slash, ih]; simp

theorem splitSlash_joinSegs_plain (l : List Seg) (hl : l ≠ []) (h : ∀ s ∈ l, '/' ∉ s) :
    splitSlash (joinSegs l) = l := by
  rw [splitSlash_joinSegs l hl]
  induction l with
  | nil => exact absurd rfl hl
  | cons s r ih =>
    have hs : '/' ∉ s := h s (by simp)
    cases r with
    | nil => simp [splitSlash_noSlash s hs]
    | cons t r' =>
      have := ih (by simp) (fun x hx => h x (by simp [hx]))
      simp only [List.map_cons, List.flatten_cons] at this ⊢
      rw [this, splitSlash_noSlash s hs]; rfl

/-! ### the Clean loop -/

theorem dd_ne_nil : dd ≠ [] := by decide
theorem dd_ne_dot : dd ≠ dot := by decide

theorem step_skip {r : Bool} {st : List Seg} {s : Seg} (h : s = [] ∨ s = dot) : step r st s = st := by
  simp [step, h]

theorem step_plain {r : Bool} {st : List Seg} {s : Seg} (h : Plain s) : step r st s = s :: st := by
  obtain ⟨h1, h2, h3, _⟩ := h
  simp [step, h1, h2, h3]

theorem step_dd_cons {r : Bool} {t : Seg} {st : List Seg} (h : t ≠ dd) : step r (t :: st) dd = st := by
  simp [step, dd_ne_nil, dd_ne_dot, h]

theorem step_dd_nil_rooted : step true [] dd = [] := by decide

/-- stack (top first) of a partially cleaned path: real elements above a block of ".." that is empty when rooted -/
def NormalSt (rooted : Bool) (st : List Seg) : Prop :=
  ∃ rest k, st = rest ++ List.replicate k dd ∧ (rooted = true → k = 0) ∧ ∀ s ∈ rest, Plain s

theorem step_normalSt {r : Bool} {st : List Seg} {s : Seg} (hs : '/' ∉ s) (h : NormalSt r st) :
    NormalSt r (step r st s) := by
  obtain ⟨rest, k, hst, hk, hp⟩ := h
  by_cases h1 : s = [] ∨ s = dot
  · rw [step_skip h1]; exact ⟨rest, k, hst, hk, hp⟩
  · by_cases h2 : s = dd
    · subst h2
      cases rest with
      | nil =>
        cases k with
        | zero =>
          subst hst
          cases r with
          | true => exact ⟨[], 0, by decide, fun _ => rfl, by simp⟩
          | false => exact ⟨[], 1, by decide, by simp, by simp⟩
        | succ k =>
          have hr : r = false := by cases r <;> simp_all
          subst hr
          refine ⟨[], k + 2, ?_, by simp, by simp⟩
          subst hst
          simp [step, dd_ne_nil, dd_ne_dot, List.replicate_succ]
      | cons t rest' =>
        have ht : Plain t := hp t (by simp)
        subst hst
        simp only [List.cons_append]
        rw [step_dd_cons ht.2.2.1]
        exact ⟨rest', k, rfl, hk, fun x hx => hp x (by simp [hx])⟩
    · have hpl : Plain s := ⟨fun e => h1 (Or.inl e), fun e => h1 (Or.inr e), h2, hs⟩
      rw [step_plain hpl]
      exact ⟨s :: rest, k, by simp [hst], hk, by
        intro x hx; simp at hx; rcases hx with hx | hx
        · exact hx ▸ hpl
        · exact hp x hx⟩

theorem foldl_normalSt {r : Bool} : ∀ (segs : List Seg) (st : List Seg), (∀ s ∈ segs, '/' ∉ s) → NormalSt r st →
    NormalSt r (segs.foldl (step r) st)
  | [], _, _, h => h
  | s :: t, st, hs, h => by
    simp only [List.foldl_cons]
    exact foldl_normalSt t _ (fun x hx => hs x (by simp [hx])) (step_normalSt (hs s (by simp)) h)

/-- a cleaned path: k times ".." (none when rooted) followed by plain segments; no ".", no empty segment -/
def Normal (p : NPath) : Prop :=
  ∃ rest k, p.segs = List.replicate k dd ++ rest ∧ (p.rooted = true → k = 0) ∧ ∀ s ∈ rest, Plain s

theorem cleanN_normal (s : Str) : Normal (cleanN s) := by
  have h := foldl_normalSt (r := isRooted s) (splitSlash s) [] (mem_splitSlash_noSlash s) ⟨[], 0, rfl, fun _ => rfl, by simp⟩
  obtain ⟨rest, k, hst, hk, hp⟩ := h
  refine ⟨rest.reverse, k, ?_, hk, by simpa using hp⟩
  simp [cleanN, normSegs, hst]

theorem foldl_plain {r : Bool} : ∀ (l st : List Seg), (∀ s ∈ l, Plain s) → l.foldl (step r) st = l.reverse ++ st
  | [], st, _ => by simp
  | s :: t, st, h => by
    simp only [List.foldl_cons]
    rw [step_plain (h s (by simp)), foldl_plain t _ (fun x hx => h x (by simp [hx]))]
    simp

theorem foldl_dds : ∀ (k : Nat) (j : Nat), (List.replicate k dd).foldl (step false) (List.replicate j dd) = List.replicate (j + k) dd
  | 0, j => by simp
  | k + 1, j => by
    have h1 : step false (List.replicate j dd) dd = List.replicate (j + 1) dd := by
      cases j with
      | zero => decide
      | succ j => simp [step, dd_ne_nil, dd_ne_dot, List.replicate_succ]
    rw [List.replicate_succ, List.foldl_cons, h1, foldl_dds k (j + 1)]
    congr 1; omega

theorem normSegs_of_normal {p : NPath} (h : Normal p) : normSegs p.rooted p.segs = p.segs := by
  obtain ⟨rest, k, hs, hk, hp⟩ := h
  rw [hs]
  unfold normSegs
  rw [List.foldl_append]
  cases hr : p.rooted with
  | true =>
    have : k = 0 := hk hr
    subst this
    simp [foldl_plain rest [] hp]
  | false =>
    have := foldl_dds k 0
    simp only [List.replicate_zero] at this
    rw [this, foldl_plain rest _ hp]
    simp

theorem isRooted_joinSegs_cons {s : Seg} {r : List Seg} (h1 : s ≠ []) (h2 : '/' ∉ s) : isRooted (joinSegs (s :: r)) = false := by
  cases s with
  | nil => exact absurd rfl h1
  | cons c cs =>
    have hc : c ≠ '/' := fun e => h2 (by simp [e])
    cases r with
    | nil =>
      simp only [joinSegs]
      unfold isRooted
      split
      · rename_i heq; simp at heq; exact absurd heq.1 hc
      · rfl
    | cons t r' =>
      simp only [joinSegs, List.cons_append]
      unfold isRooted
      split
      · rename_i heq; simp at heq; exact absurd heq.1 hc
      · rfl

theorem normal_segs_noSlash {p : NPath} (h : Normal p) : ∀ s ∈ p.segs, s ≠ [] ∧ '/' ∉ s := by
  obtain ⟨rest, k, hs, _, hp⟩ := h
  intro s hm
  rw [hs] at hm
  simp at hm
  rcases hm with ⟨_, hm⟩ | hm
  · subst hm; decide
  · exact ⟨(hp s hm).1, (hp s hm).2.2.2⟩

/-- parsing the printed form of a cleaned path gives it back -/
theorem cleanN_render {p : NPath} (h : Normal p) : cleanN (render p) = p := by
  have hns := normal_segs_noSlash h
  have hn := normSegs_of_normal h
  obtain ⟨rooted, segs⟩ := p
  simp only at hns hn
  cases rooted with
  | true =>
    simp only [render, if_true]
    have hr : isRooted ('/' :: joinSegs segs) = true := rfl
    simp only [cleanN, hr]
    congr 1
    cases segs with
    | nil => decide
    | cons s r =>
      have : splitSlash ('/' :: joinSegs (s :: r)) = [] :: (s :: r) := by
        rw [splitSlash]; simp [splitSlash_joinSegs_plain (s :: r) (by simp) (fun x hx => (hns x hx).2)]
      rw [this]
      unfold normSegs at hn ⊢
      simp only [List.foldl_cons] at hn ⊢
      rw [step_skip (Or.inl rfl)]
      exact hn
  | false =>
    cases segs with
    | nil => decide
    | cons s r =>
      have hrender : render ⟨false, s :: r⟩ = joinSegs (s :: r) := by simp [render]
      rw [hrender]
      have hr : isRooted (joinSegs (s :: r)) = false :=
        isRooted_joinSegs_cons (hns s (by simp)).1 (hns s (by simp)).2
      simp only [cleanN, hr]
      congr 1
      rw [splitSlash_joinSegs_plain (s :: r) (by simp) (fun x hx => (hns x hx).2)]
      exact hn

theorem clean_idempotent' (s : Str) : clean (clean s) = clean s := by
  unfold clean
  rw [cleanN_render (cleanN_normal s)]

/-! ### depth walk -/

theorem walk_skip {n : Nat} {s : Seg} {r : List Seg} (h : s = [] ∨ s = dot) : walk n (s :: r) = walk n r := by
  simp [walk, h]

theorem walk_plain {n : Nat} {s : Seg} {r : List Seg} (h : Plain s) : walk n (s :: r) = walk (n + 1) r := by
  obtain ⟨h1, h2, h3, _⟩ := h
  simp [walk, h1, h2, h3]

theorem walk_dd_succ {n : Nat} {r : List Seg} : walk (n + 1) (dd :: r) = walk n r := by
  simp [walk, dd_ne_nil, dd_ne_dot]

theorem walk_dd_zero {r : List Seg} : walk 0 (dd :: r) = none := by
  simp [walk, dd_ne_nil, dd_ne_dot]

theorem seg_cases (s : Seg) (hs : '/' ∉ s) : (s = [] ∨ s = dot) ∨ s = dd ∨ Plain s := by
  by_cases h1 : s = [] ∨ s = dot
  · exact Or.inl h1
  · by_cases h2 : s = dd
    · exact Or.inr (Or.inl h2)
    · exact Or.inr (Or.inr ⟨fun e => h1 (Or.inl e), fun e => h1 (Or.inr e), h2, hs⟩)

/-- the Clean loop never touches what lies below the start of a walk that stays at or above its start -/
theorem foldl_walk {r : Bool} : ∀ (segs : List Seg) (top base : List Seg) (m : Nat),
    (∀ s ∈ segs, '/' ∉ s) → (∀ x ∈ top, x ≠ dd) → walk top.length segs = some m →
    ∃ top', segs.foldl (step r) (top ++ base) = top' ++ base ∧ top'.length = m ∧ (∀ x ∈ top', x ≠ dd)
  | [], top, base, m, _, ht, hw => by
    simp [walk] at hw
    exact ⟨top, rfl, hw, ht⟩
  | s :: t, top, base, m, hs, ht, hw => by
    have hst : ∀ x ∈ t, '/' ∉ x := fun x hx => hs x (by simp [hx])
    simp only [List.foldl_cons]
    rcases seg_cases s (hs s (by simp)) with h | h | h
    · rw [walk_skip h] at hw
      rw [step_skip h]
      exact foldl_walk t top base m hst ht hw
    · subst h
      cases top with
      | nil => simp [walk_dd_zero] at hw
      | cons x top' =>
        simp only [List.length_cons] at hw
        rw [walk_dd_succ] at hw
        simp only [List.cons_append]
        rw [step_dd_cons (ht x (by simp))]
        exact foldl_walk t top' base m hst (fun y hy => ht y (by simp [hy])) hw
    · rw [walk_plain h] at hw
      rw [step_plain h]
      have : s :: (top ++ base) = (s :: top) ++ base := rfl
      rw [this]
      exact foldl_walk t (s :: top) base m hst (by
        intro y hy; simp at hy; rcases hy with hy | hy
        · exact hy ▸ h.2.2.1
        · exact ht y hy) (by simpa using hw)

theorem walk_append : ∀ (a b : List Seg) (n : Nat), walk n (a ++ b) = (walk n a).bind (fun m => walk m b)
  | [], b, n => by simp [walk]
  | s :: a, b, n => by
    simp only [List.cons_append]
    by_cases h1 : s = [] ∨ s = dot
    · rw [walk_skip h1, walk_skip h1]; exact walk_append a b n
    · by_cases h2 : s = dd
      · subst h2
        cases n with
        | zero => simp [walk_dd_zero]
        | succ n => rw [walk_dd_succ, walk_dd_succ]; exact walk_append a b n
      · have : walk n (s :: (a ++ b)) = walk (n + 1) (a ++ b) := by simp [walk, h1, h2]
        rw [this]
        have : walk n (s :: a) = walk (n + 1) a := by simp [walk, h1, h2]
        rw [this]
        exact walk_append a b (n + 1)

/-- a single '/'-free element moves the depth by at most one, and cannot fail from depth ≥ 1 -/
theorem walk_single (v : Seg) (n : Nat) : ∃ m, walk (n + 1) [v] = some m ∧ n ≤ m := by
  by_cases h1 : v = [] ∨ v = dot
  · exact ⟨n + 1, by simp [walk, h1], by omega⟩
  · by_cases h2 : v = dd
    · subst h2; exact ⟨n, by simp [walk, dd_ne_nil, dd_ne_dot], by omega⟩
    · exact ⟨n + 2, by simp [walk, h1, h2], by omega⟩

/-! ### the data path -/

theorem foldl_dataPath (d : List Seg) (hd : ∀ s ∈ d, Plain s) :
    (splitSlash ('/' :: joinSegs d)).foldl (step true) [] = d.reverse := by
  cases d with
  | nil => decide
  | cons s r =>
    have : splitSlash ('/' :: joinSegs (s :: r)) = [] :: (s :: r) := by
      rw [splitSlash]; simp [splitSlash_joinSegs_plain (s :: r) (by simp) (fun x hx => (hd x hx).2.2.2)]
    rw [this, List.foldl_cons, step_skip (Or.inl rfl), foldl_plain (s :: r) [] hd]
    simp

/-- Clean of anything appended to the data path: the data-dir segments, then the Clean loop over the rest -/
theorem cleanN_dataPath (d : List Seg) (hd : ∀ s ∈ d, Plain s) (rest : Str) :
    cleanN (dataPath d ++ rest) = ⟨true, ((splitSlash rest).foldl (step true) d.reverse).reverse⟩ := by
  have h1 : dataPath d ++ rest = ('/' :: joinSegs d) ++ '/' :: rest := by simp [dataPath]
  have hr : isRooted (dataPath d ++ rest) = true := by simp [dataPath, isRooted]
  unfold cleanN
  rw [hr]
  congr 1
  unfold normSegs
  rw [h1, splitSlash_append_slash, List.foldl_append, foldl_dataPath d hd]

/-- the basic confinement lemma: whatever is appended to the data path stays below it if its depth walk does -/
theorem within_dataPath (d : List Seg) (hd : ∀ s ∈ d, Plain s) (rest : Str) (m : Nat)
    (hw : walk 0 (splitSlash rest) = some m) : within (dataDir d) (cleanN (dataPath d ++ rest)) := by
  rw [cleanN_dataPath d hd rest]
  obtain ⟨top', hf, _, _⟩ := foldl_walk (r := true) (splitSlash rest) [] d.reverse m (mem_splitSlash_noSlash rest) (by simp) hw
  simp only [List.nil_append] at hf
  refine ⟨rfl, ?_⟩
  simp only [dataDir, hf, List.reverse_append, List.reverse_reverse]
  exact List.prefix_append _ _

/-! ### leaving the base for good (converse direction, fresh names) -/

/-- the stack has lost part of `b` (top first): `restRev` on top of a proper suffix `t` of `b.reverse` -/
def Broken (b : List Seg) (st : List Seg) : Prop :=
  ∃ restRev t, st = restRev ++ t ∧ t <:+ b.reverse ∧ t.length < b.length ∧
    (∀ x ∈ restRev, Plain x ∧ x ∉ b)

theorem broken_step {b : List Seg} (hb : ∀ s ∈ b, Plain s) {st : List Seg} {s : Seg}
    (hs : '/' ∉ s) (hfresh : s ∉ b) (h : Broken b st) : Broken b (step true st s) := by
  obtain ⟨restRev, t, hst, hsuf, hlen, hrest⟩ := h
  rcases seg_cases s hs with h1 | h1 | h1
  · rw [step_skip h1]; exact ⟨restRev, t, hst, hsuf, hlen, hrest⟩
  · subst h1
    cases restRev with
    | cons x rr =>
      subst hst
      simp only [List.cons_append]
      rw [step_dd_cons (hrest x (by simp)).1.2.2.1]
      exact ⟨rr, t, rfl, hsuf, hlen, fun y hy => hrest y (by simp [hy])⟩
    | nil =>
      simp only [List.nil_append] at hst
      rw [hst]
      cases t with
      | nil => rw [step_dd_nil_rooted]; exact ⟨[], [], rfl, hsuf, hlen, by simp⟩
      | cons x t' =>
        have hx : x ∈ b := by
          have : x ∈ b.reverse := hsuf.subset (by simp)
          simpa using this
        rw [step_dd_cons (hb x hx).2.2.1]
        refine ⟨[], t', rfl, ?_, ?_, by simp⟩
        · exact List.IsSuffix.trans (List.suffix_cons x t') hsuf
        · simp at hlen; omega
  · rw [step_plain h1]
    refine ⟨s :: restRev, t, by simp [hst], hsuf, hlen, ?_⟩
    intro y hy; simp at hy; rcases hy with hy | hy
    · subst hy; exact ⟨h1, hfresh⟩
    · exact hrest y hy

theorem broken_foldl {b : List Seg} (hb : ∀ s ∈ b, Plain s) : ∀ (segs st : List Seg),
    (∀ s ∈ segs, '/' ∉ s) → (∀ s ∈ segs, s ∉ b) → Broken b st → Broken b (segs.foldl (step true) st)
  | [], _, _, _, h => h
  | s :: t, st, hs, hf, h => by
    simp only [List.foldl_cons]
    exact broken_foldl hb t _ (fun x hx => hs x (by simp [hx])) (fun x hx => hf x (by simp [hx]))
      (broken_step hb (hs s (by simp)) (hf s (by simp)) h)

theorem broken_not_within {b st : List Seg} (h : Broken b st) : ¬ (b <+: st.reverse) := by
  obtain ⟨restRev, t, hst, hsuf, hlen, hrest⟩ := h
  intro hp
  have hs : b.reverse <:+ st := by
    have := List.reverse_suffix.mpr hp
    simpa using this
  obtain ⟨u, hu⟩ := hs
  rw [hst] at hu
  rcases List.append_eq_append_iff.mp hu with ⟨a', h1, h2⟩ | ⟨c', h1, h2⟩
  · -- restRev = u ++ a', b.reverse = a' ++ t
    have hl : a'.length + t.length = b.length := by
      have := congrArg List.length h2
      simp at this; omega
    cases a' with
    | nil => simp at hl; omega
    | cons x a'' =>
      have hx1 : x ∈ restRev := by rw [h1]; simp
      have hx2 : x ∈ b := by
        have : x ∈ b.reverse := by rw [h2]; simp
        simpa using this
      exact (hrest x hx1).2 hx2
  · -- u = restRev ++ c', t = c' ++ b.reverse
    have := congrArg List.length h2
    simp at this; omega

/-- from the intact state: once the walk fails, the base is lost for good -/
theorem foldl_walk_none {b : List Seg} (hb : ∀ s ∈ b, Plain s) (hne : b ≠ []) : ∀ (segs top : List Seg),
    (∀ s ∈ segs, '/' ∉ s) → (∀ s ∈ segs, s ∉ b) → (∀ x ∈ top, x ≠ dd) → walk top.length segs = none →
    Broken b (segs.foldl (step true) (top ++ b.reverse))
  | [], top, _, _, _, hw => by simp [walk] at hw
  | s :: t, top, hs, hf, ht, hw => by
    have hst : ∀ x ∈ t, '/' ∉ x := fun x hx => hs x (by simp [hx])
    have hft : ∀ x ∈ t, x ∉ b := fun x hx => hf x (by simp [hx])
    simp only [List.foldl_cons]
    rcases seg_cases s (hs s (by simp)) with h | h | h
    · rw [walk_skip h] at hw
      rw [step_skip h]
      exact foldl_walk_none hb hne t top hst hft ht hw
    · subst h
      cases top with
      | cons x top' =>
        simp only [List.length_cons] at hw
        rw [walk_dd_succ] at hw
        simp only [List.cons_append]
        rw [step_dd_cons (ht x (by simp))]
        exact foldl_walk_none hb hne t top' hst hft (fun y hy => ht y (by simp [hy])) hw
      | nil =>
        simp only [List.nil_append]
        apply broken_foldl hb t _ hst hft
        cases hbr : b.reverse with
        | nil => simp at hbr; exact absurd hbr hne
        | cons x t' =>
          have hx : x ∈ b := by
            have : x ∈ b.reverse := by rw [hbr]; simp
            simpa using this
          rw [step_dd_cons (hb x hx).2.2.1]
          refine ⟨[], t', rfl, ?_, ?_, by simp⟩
          · rw [hbr]; exact List.suffix_cons x t'
          · have := congrArg List.length hbr
            simp at this; omega
    · rw [walk_plain h] at hw
      rw [step_plain h]
      have : s :: (top ++ b.reverse) = (s :: top) ++ b.reverse := rfl
      rw [this]
      exact foldl_walk_none hb hne t (s :: top) hst hft (by
        intro y hy; simp at hy; rcases hy with hy | hy
        · exact hy ▸ h.2.2.1
        · exact ht y hy) (by simpa using hw)

end SigModel.Lemmas.C19
