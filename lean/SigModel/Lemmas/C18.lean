/-
Helper lemmas for Props/C18 (checksummed chunk file).  Core Lean only.
-/
import SigModel.Model.Checksum
namespace SigModel.Lemmas.C18
open SigModel.Wal (Bytes le32 rd32)
open SigModel.Checksum

/-! ### le32 / rd32 -/

@[simp] theorem le32_length (n : Nat) : (le32 n).length = 4 := rfl

theorem rd32_le32 (n : Nat) (r : Bytes) (h : n < 4294967296) :
    rd32 (le32 n ++ r) = some (n, r) := by
  simp [le32, rd32]; omega

theorem rd32_short : ∀ (l : Bytes), l.length < 4 → rd32 l = none
  | [], _ => rfl
  | [_], _ => rfl
  | [_, _], _ => rfl
  | [_, _, _], _ => rfl
  | _ :: _ :: _ :: _ :: _, h => by simp at h; omega

theorem magic_lt : magic < 4294967296 := by decide

/-! ### readU32At -/

theorem readU32At_eq (f P R : Bytes) (v off : Nat) (hf : f = P ++ (le32 v ++ R))
    (hP : P.length = off) (hv : v < 4294967296) : readU32At f off = some v := by
  subst hf hP
  simp [readU32At, rd32_le32 _ _ hv]

theorem readU32At_short (f : Bytes) (off : Nat) (h : f.length < off + 4) :
    readU32At f off = none := by
  unfold readU32At
  rw [rd32_short]
  simp; omega

theorem set_append_right (P Q : Bytes) (i b : Nat) (h : P.length ≤ i) :
    (P ++ Q).set i b = P ++ Q.set (i - P.length) b := by
  rw [List.set_append, if_neg (by omega)]

/-! ### file layout -/

def chunkBytes (crc : Bytes → Nat) (c : Bytes) : Bytes :=
  if c.isEmpty then [] else le32 magic ++ (le32 (crc c) ++ (le32 c.length ++ c))

/-- width of a chunk in the file -/
def width (c : Bytes) : Nat := if c.isEmpty then 0 else dataOffset + c.length

theorem chunkBytes_of_ne (crc : Bytes → Nat) (c : Bytes) (h : c ≠ []) :
    chunkBytes crc c = le32 magic ++ (le32 (crc c) ++ (le32 c.length ++ c)) := by
  unfold chunkBytes
  rw [if_neg]; simpa using h

theorem width_of_ne (c : Bytes) (h : c ≠ []) : width c = 12 + c.length := by
  unfold width dataOffset
  rw [if_neg]; simpa using h

theorem chunkBytes_length (crc : Bytes → Nat) (c : Bytes) :
    (chunkBytes crc c).length = width c := by
  unfold chunkBytes width dataOffset
  split <;> simp <;> omega

theorem appendChunk_eq (crc : Bytes → Nat) (f c : Bytes) :
    appendChunk crc f c = f ++ chunkBytes crc c := by
  unfold appendChunk chunkBytes
  split <;> simp

theorem foldl_appendChunk (crc : Bytes → Nat) (cs : List Bytes) (init : Bytes) :
    cs.foldl (appendChunk crc) init = init ++ (cs.map (chunkBytes crc)).flatten := by
  induction cs generalizing init with
  | nil => simp
  | cons c cs ih => simp [ih, appendChunk_eq]

theorem fileOf_eq (crc : Bytes → Nat) (cs : List Bytes) :
    fileOf crc cs = (cs.map (chunkBytes crc)).flatten := by
  simp [fileOf, foldl_appendChunk]

theorem fileOf_snoc (crc : Bytes → Nat) (cs : List Bytes) (c : Bytes) :
    fileOf crc (cs ++ [c]) = appendChunk crc (fileOf crc cs) c := by
  simp [fileOf]

theorem fileOf_nil (crc : Bytes → Nat) : fileOf crc [] = [] := rfl

theorem fileOf_cons (crc : Bytes → Nat) (c : Bytes) (cs : List Bytes) :
    fileOf crc (c :: cs) = chunkBytes crc c ++ fileOf crc cs := by
  simp [fileOf_eq]

theorem fileOf_append (crc : Bytes → Nat) (A B : List Bytes) :
    fileOf crc (A ++ B) = fileOf crc A ++ fileOf crc B := by
  simp [fileOf_eq]

theorem fileOf_length (crc : Bytes → Nat) (L : List Bytes) :
    (fileOf crc L).length = (L.map width).sum := by
  induction L with
  | nil => rfl
  | cons c cs ih => simp [fileOf_cons, chunkBytes_length, ih]

theorem chunkStart_eq (chunks : List Bytes) (k : Nat) :
    chunkStart chunks k = ((chunks.take k).map width).sum := rfl

theorem fileOf_take_length (crc : Bytes → Nat) (chunks : List Bytes) (k : Nat) :
    (fileOf crc (chunks.take k)).length = chunkStart chunks k := by
  rw [fileOf_length, chunkStart_eq]

theorem chunkStart_succ (chunks : List Bytes) (k : Nat) (hk : k < chunks.length) :
    chunkStart chunks (k + 1) = chunkStart chunks k + width chunks[k] := by
  rw [chunkStart_eq, chunkStart_eq, List.take_succ_eq_append_getElem hk, List.map_append,
    List.sum_append]
  rfl

theorem chunkStart_mono (chunks : List Bytes) (j : Nat) :
    ∀ d, j + d ≤ chunks.length → chunkStart chunks j ≤ chunkStart chunks (j + d)
  | 0, _ => Nat.le_refl _
  | d + 1, h => by
    have h1 := chunkStart_mono chunks j d (by omega)
    have h2 := chunkStart_succ chunks (j + d) (by omega)
    rw [← Nat.add_assoc, h2]; omega

/-- the file split around chunk `k` -/
theorem fileOf_split (crc : Bytes → Nat) (chunks : List Bytes) (k : Nat) (hk : k < chunks.length) :
    fileOf crc chunks
      = fileOf crc (chunks.take k) ++ (chunkBytes crc chunks[k] ++ fileOf crc (chunks.drop (k + 1))) := by
  have h : chunks = chunks.take k ++ chunks[k] :: chunks.drop (k + 1) := by
    rw [← List.drop_eq_getElem_cons hk, List.take_append_drop]
  conv => lhs; rw [h]
  rw [fileOf_append, fileOf_cons]

/-! ### reading a chunk whose 12 header bytes are present -/

theorem readChunkAt_hdr (crc : Bytes → Nat) (f P R : Bytes) (sum len n off : Nat)
    (hf : f = P ++ (le32 magic ++ (le32 sum ++ (le32 len ++ R)))) (hP : P.length = off)
    (hs : sum < 4294967296) (hl : len < 4294967296) :
    readU32At f off = some magic ∧ readU32At f (off + 4) = some sum ∧
    readU32At f (off + 8) = some len ∧ f.drop (off + dataOffset) = R ∧
    readChunkAt crc f n off =
      if len > n then Rd.fail
      else if crc (R.take len) ≠ sum then Rd.fail
      else if (R.take len).length < len then Rd.okEof (R.take len) else Rd.ok (R.take len) := by
  have h0 : readU32At f off = some magic := readU32At_eq f P _ magic off hf hP magic_lt
  have h4 : readU32At f (off + 4) = some sum :=
    readU32At_eq f (P ++ le32 magic) (le32 len ++ R) sum (off + 4) (by simp [hf]) (by simp [hP]) hs
  have h8 : readU32At f (off + 8) = some len :=
    readU32At_eq f (P ++ (le32 magic ++ le32 sum)) R len (off + 8) (by simp [hf]) (by simp [hP]) hl
  have hd : f.drop (off + dataOffset) = R := by
    have : off + dataOffset = (P ++ (le32 magic ++ (le32 sum ++ le32 len))).length := by
      simp [hP, dataOffset]
    rw [this, hf]
    have : P ++ (le32 magic ++ (le32 sum ++ (le32 len ++ R)))
        = (P ++ (le32 magic ++ (le32 sum ++ le32 len))) ++ R := by simp
    rw [this, List.drop_left]
  refine ⟨h0, h4, h8, hd, ?_⟩
  unfold readChunkAt
  simp only [h0, h4, h8, hd]
  simp

/-- an intact chunk at position `P.length` is read back exactly, whatever follows it -/
theorem readChunkAt_chunk (crc : Bytes → Nat) (P post c : Bytes) (n : Nat) (hc : c ≠ [])
    (hl : c.length < 4294967296) (hs : crc c < 4294967296) (hn : c.length ≤ n) :
    readChunkAt crc (P ++ (chunkBytes crc c ++ post)) n P.length = Rd.ok c := by
  have h := (readChunkAt_hdr crc (P ++ (chunkBytes crc c ++ post)) P (c ++ post) (crc c) c.length n
    P.length (by rw [chunkBytes_of_ne crc c hc]; simp) rfl hs hl).2.2.2.2
  rw [h]
  have ht : (c ++ post).take c.length = c := by simp
  rw [ht]
  simp; omega

end SigModel.Lemmas.C18
