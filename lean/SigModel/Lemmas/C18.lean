import SigModel.Model.Checksum
namespace SigModel.Lemmas.C18
end SigModel.Lemmas.C18
