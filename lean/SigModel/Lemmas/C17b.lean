import SigModel.Lemmas.C17
/-!
Helper lemmas for the lifecycle extension of C17 (timeout / restart / complete / error, admission bound):
assoc-list facts, `send` facts, explicit forms of the running table after each operation,
`maxRunning` is constant, the running table grows only by forced starts or below the limit.
-/
namespace SigModel.Lemmas.C17
open SigModel.QTable

/-! ### assoc-list facts (2) -/

theorem erase_of_lookup_none {q : Nat} {m : List (Nat × RQ)} (h : lookup q m = none) : erase q m = m := by
  induction m with
  | nil => rfl
  | cons a r ih =>
    obtain ⟨k, v⟩ := a
    simp only [lookup] at h
    split at h
    · simp at h
    · rename_i hne
      simp only [erase, hne, if_false, ih h]

theorem length_erase_lt {q : Nat} {m : List (Nat × RQ)} {r : RQ} (h : lookup q m = some r) :
    (erase q m).length + 1 ≤ m.length := by
  induction m with
  | nil => simp [lookup] at h
  | cons a t ih =>
    obtain ⟨k, v⟩ := a
    simp only [lookup] at h
    split at h
    · rename_i hk
      have := length_erase_le q t
      simp only [erase, hk, if_true, List.length_cons]
      omega
    · rename_i hne
      have := ih h
      simp only [erase, hne, if_false, List.length_cons]
      omega

theorem length_put_of_lookup {q : Nat} {v : RQ} {m : List (Nat × RQ)} {r : RQ} (h : lookup q m = some r) :
    (put q v m).length ≤ m.length := by
  have := length_erase_lt h
  simp only [put, List.length_cons]; omega

theorem mem_erase {x : Nat × RQ} {q : Nat} {m : List (Nat × RQ)} (h : x ∈ erase q m) : x.1 ≠ q ∧ x ∈ m := by
  induction m with
  | nil => simp [erase] at h
  | cons a t ih =>
    obtain ⟨k, v⟩ := a
    simp only [erase] at h
    split at h
    · have := ih h
      exact ⟨this.1, List.mem_cons_of_mem _ this.2⟩
    · rename_i hne
      simp only [List.mem_cons] at h
      rcases h with h | h
      · subst h; exact ⟨hne, List.mem_cons_self ..⟩
      · have := ih h
        exact ⟨this.1, List.mem_cons_of_mem _ this.2⟩

theorem mem_put {x : Nat × RQ} {q : Nat} {v : RQ} {m : List (Nat × RQ)} (h : x ∈ put q v m) :
    x = (q, v) ∨ (x.1 ≠ q ∧ x ∈ m) := by
  simp only [put, List.mem_cons] at h
  rcases h with h | h
  · exact Or.inl h
  · exact Or.inr (mem_erase h)

theorem forall_put {P : Nat × RQ → Prop} {q : Nat} {v : RQ} {m : List (Nat × RQ)}
    (hv : P (q, v)) (hm : ∀ x ∈ m, P x) : ∀ x ∈ put q v m, P x := by
  intro x hx
  rcases mem_put hx with h | h
  · subst h; exact hv
  · exact hm x h.2

theorem forall_erase {P : Nat × RQ → Prop} {q : Nat} {m : List (Nat × RQ)}
    (hm : ∀ x ∈ m, P x) : ∀ x ∈ erase q m, P x :=
  fun x hx => hm x (mem_erase hx).2

theorem lookup_mem {q : Nat} {m : List (Nat × RQ)} {r : RQ} (h : lookup q m = some r) : (q, r) ∈ m := by
  induction m with
  | nil => simp [lookup] at h
  | cons a t ih =>
    obtain ⟨k, v⟩ := a
    simp only [lookup] at h
    split at h
    · rename_i hk
      simp only [Option.some.injEq] at h
      subst h; subst hk
      exact List.mem_cons_self ..
    · exact List.mem_cons_of_mem _ (ih h)

theorem lookup_erase_ne {q q' : Nat} {m : List (Nat × RQ)} (h : q' ≠ q) :
    lookup q' (erase q m) = lookup q' m := by
  induction m with
  | nil => rfl
  | cons a t ih =>
    obtain ⟨k, v⟩ := a
    simp only [erase]
    split
    · rename_i hk
      have : ¬ k = q' := by omega
      simp only [lookup, this, if_false, ih]
    · simp only [lookup, ih]

theorem lookup_put_ne {q q' : Nat} {v : RQ} {m : List (Nat × RQ)} (h : q' ≠ q) :
    lookup q' (put q v m) = lookup q' m := by
  have : ¬ q = q' := fun e => h e.symm
  simp only [put, lookup, this, if_false, lookup_erase_ne h]

theorem erase_erase (q : Nat) (m : List (Nat × RQ)) : erase q (erase q m) = erase q m :=
  erase_of_lookup_none (lookup_erase_self q m)

theorem put_put (q : Nat) (v w : RQ) (m : List (Nat × RQ)) : put q v (put q w m) = put q v m := by
  simp only [put, erase, if_true, erase_erase]

theorem lookup_none_of_not_mem_keys {q : Nat} {m : List (Nat × RQ)} (h : q ∉ m.map Prod.fst) :
    lookup q m = none := by
  induction m with
  | nil => rfl
  | cons a t ih =>
    obtain ⟨k, v⟩ := a
    simp only [List.map_cons, List.mem_cons, not_or] at h
    have : ¬ k = q := fun e => h.1 e.symm
    simp only [lookup, this, if_false]
    exact ih h.2

theorem lookup_isSome_of_mem {x : Nat × RQ} {m : List (Nat × RQ)} (h : x ∈ m) :
    ∃ r, lookup x.1 m = some r := by
  induction m with
  | nil => simp at h
  | cons a t ih =>
    obtain ⟨k, v⟩ := a
    simp only [List.mem_cons] at h
    simp only [lookup]
    split
    · exact ⟨v, rfl⟩
    · rename_i hne
      rcases h with h | h
      · subst h; exact absurd rfl hne
      · exact ih h

/-! ### `send` keeps everything but the channel -/

@[simp] theorem send_qid (r : RQ) (msg : Nat) : (send r msg).1.qid = r.qid := by unfold send; split <;> rfl
@[simp] theorem send_obj (r : RQ) (msg : Nat) : (send r msg).1.obj = r.obj := by unfold send; split <;> rfl
@[simp] theorem send_coord (r : RQ) (msg : Nat) : (send r msg).1.coord = r.coord := by unfold send; split <;> rfl
@[simp] theorem send_timeoutArmed (r : RQ) (msg : Nat) : (send r msg).1.timeoutArmed = r.timeoutArmed := by
  unfold send; split <;> rfl
@[simp] theorem send_timerLive (r : RQ) (msg : Nat) : (send r msg).1.timerLive = r.timerLive := by
  unfold send; split <;> rfl
@[simp] theorem send_cancelled' (r : RQ) (msg : Nat) : (send r msg).1.cancelled = r.cancelled := send_cancelled r msg

theorem send_sent (r : RQ) (msg : Nat) (h : r.chanLen < chanCap) : (send r msg).1.sent = r.sent ++ [msg] := by
  unfold send; simp [h]

theorem send_sent_prefix (r : RQ) (msg : Nat) : r.sent <+: (send r msg).1.sent := by
  unfold send; split
  · exact List.prefix_append _ _
  · exact List.prefix_refl _

/-! ### the running table after each operation, explicitly -/

theorem cancelQuery_running_none {s : St} {q : Nat} (h : lookup q s.running = none) :
    (cancelQuery s q).1.running = s.running := by
  simp only [cancelQuery, h]
  split <;> rfl

theorem cancelQuery_running_some {s : St} {q : Nat} {r : RQ} (h : lookup q s.running = some r) :
    (cancelQuery s q).1.running = put q (send { r with cancelled := true } 5).1 s.running := by
  simp only [cancelQuery, h]

theorem cancelQuery_next (s : St) (q : Nat) : (cancelQuery s q).1.next = s.next := by
  simp only [cancelQuery]
  split
  · split <;> rfl
  · rfl

theorem cancelQuery_maxRunning (s : St) (q : Nat) : (cancelQuery s q).1.maxRunning = s.maxRunning := by
  simp only [cancelQuery]
  split
  · split <;> rfl
  · rfl

/-- the waiting queue after `CancelQuery`: unchanged or its first `q` removed -/
theorem cancelQuery_waiting (s : St) (q : Nat) :
    (cancelQuery s q).1.waiting = s.waiting ∨ (cancelQuery s q).1.waiting = removeFirstWaiting q s.waiting := by
  simp only [cancelQuery]
  split
  · split
    · exact Or.inl rfl
    · exact Or.inr rfl
  · exact Or.inr rfl

theorem mem_cancelQuery_waiting {s : St} {q : Nat} {w : RQ} (h : w ∈ (cancelQuery s q).1.waiting) :
    w ∈ s.waiting := by
  rcases cancelQuery_waiting s q with e | e
  · rw [e] at h; exact h
  · rw [e] at h; exact mem_of_mem_removeFirstWaiting h

/-- the object the timer leaves behind: TIMEOUT sent, then CancelQuery -/
def timedOut (r : RQ) : RQ :=
  (send { (send { r with timerLive := false } 6).1 with cancelled := true } 5).1

theorem fireTimeout_running (s : St) (q : Nat) :
    (fireTimeout s q).1.running =
      match lookup q s.running with
      | none => s.running
      | some r => if r.timerLive = true ∧ r.chanLen < chanCap then put q (timedOut r) s.running else s.running := by
  cases hl : lookup q s.running with
  | none => simp only [fireTimeout, hl]
  | some r =>
    simp only [fireTimeout, hl]
    by_cases hlive : r.timerLive = true
    · by_cases hroom : r.chanLen < chanCap
      · simp only [hlive, hroom, Bool.not_true, Bool.false_eq_true, if_false, if_true, and_self]
        rw [cancelQuery_running_some (r := (send { r with timerLive := false } 6).1) (by simp [lookup_put_self])]
        simp only [put_put, timedOut]
      · simp [hlive, hroom]
    · simp [hlive]

theorem fireTimeout_next (s : St) (q : Nat) : (fireTimeout s q).1.next = s.next := by
  simp only [fireTimeout]
  split
  · rfl
  · split
    · rfl
    · split
      · rw [cancelQuery_next]
      · rfl

theorem fireTimeout_maxRunning (s : St) (q : Nat) : (fireTimeout s q).1.maxRunning = s.maxRunning := by
  simp only [fireTimeout]
  split
  · rfl
  · split
    · rfl
    · split
      · rw [cancelQuery_maxRunning]
      · rfl

theorem mem_fireTimeout_waiting {s : St} {q : Nat} {w : RQ} (h : w ∈ (fireTimeout s q).1.waiting) :
    w ∈ s.waiting := by
  simp only [fireTimeout] at h
  split at h
  · exact h
  · split at h
    · exact h
    · split at h
      · have := mem_cancelQuery_waiting h
        exact this
      · exact h

theorem fireTimeout_waiting (s : St) (q : Nat) :
    (fireTimeout s q).1.waiting = s.waiting ∨ (fireTimeout s q).1.waiting = removeFirstWaiting q s.waiting := by
  simp only [fireTimeout]
  split
  · exact Or.inl rfl
  · split
    · exact Or.inl rfl
    · split
      · exact cancelQuery_waiting _ q
      · exact Or.inl rfl

theorem selfSend_running (s : St) (q msg : Nat) :
    (selfSend s q msg).1.running =
      match lookup q s.running with
      | none => s.running
      | some r => if r.chanLen < chanCap then put q (send r msg).1 s.running else s.running := by
  cases hl : lookup q s.running with
  | none => simp only [selfSend, hl]
  | some r =>
    simp only [selfSend, hl]
    split <;> rfl

theorem selfSend_next (s : St) (q msg : Nat) : (selfSend s q msg).1.next = s.next := by
  cases hl : lookup q s.running with
  | none => simp only [selfSend, hl]
  | some r =>
    simp only [selfSend, hl]
    split <;> rfl

theorem selfSend_maxRunning (s : St) (q msg : Nat) : (selfSend s q msg).1.maxRunning = s.maxRunning := by
  cases hl : lookup q s.running with
  | none => simp only [selfSend, hl]
  | some r =>
    simp only [selfSend, hl]
    split <;> rfl

theorem runQuery_next (s : St) (r : RQ) : (runQuery s r).next = s.next := by
  rw [runQuery_eq]; split <;> rfl

/-- the object that `withLockRunQuery` stores -/
def admitted (r : RQ) : RQ := (send (send (arm r) 1).1 2).1

theorem runQuery_running (s : St) (r : RQ) :
    (runQuery s r).running = if r.cancelled then s.running else put r.qid (admitted r) s.running := by
  rw [runQuery_eq]; split <;> rfl

theorem startQuery_maxRunning (s : St) (q : Nat) (force coord : Bool) :
    (startQuery s q force coord).1.maxRunning = s.maxRunning := by
  simp only [startQuery]
  split
  · rfl
  · split
    · rw [runQuery_maxRunning]
    · split <;> rfl

theorem restartQuery_maxRunning (s : St) (q nq : Nat) (force : Bool) :
    (restartQuery s q nq force).1.maxRunning = s.maxRunning := by
  simp only [restartQuery]
  split
  · rfl
  · split
    · rfl
    · split
      · rfl
      · split
        · rfl
        · split
          · rw [runQuery_maxRunning]
          · split <;> rfl

/-- `MAX_RUNNING_QUERIES` is a constant of the run -/
theorem step_maxRunning (s : St) (op : Op) : (step s op).1.maxRunning = s.maxRunning := by
  cases op with
  | start q force => exact startQuery_maxRunning ..
  | startc q force => exact startQuery_maxRunning ..
  | pull =>
    simp only [step]
    split
    · split
      · rfl
      · rw [runQuery_maxRunning]
    · rfl
  | cancel q => exact cancelQuery_maxRunning ..
  | delete q => simp only [step]; split <;> rfl
  | drain q => simp only [step]; split <;> rfl
  | timeout q => exact fireTimeout_maxRunning ..
  | restart q nq force => exact restartQuery_maxRunning ..
  | complete q => exact selfSend_maxRunning ..
  | error q => exact selfSend_maxRunning ..

theorem run_maxRunning : ∀ (ops : List Op) (s : St), (run s ops).maxRunning = s.maxRunning := by
  intro ops
  induction ops with
  | nil => intro s; rfl
  | cons op ops ih => intro s; simp only [run]; rw [ih, step_maxRunning]

/-! ### the running table grows only through a forced start, or while below the limit -/

theorem cancelQuery_running_length (s : St) (q : Nat) :
    (cancelQuery s q).1.running.length ≤ s.running.length := by
  cases h : lookup q s.running with
  | none => rw [cancelQuery_running_none h]; exact Nat.le_refl _
  | some r => rw [cancelQuery_running_some h]; exact length_put_of_lookup h

theorem fireTimeout_running_length (s : St) (q : Nat) :
    (fireTimeout s q).1.running.length ≤ s.running.length := by
  rw [fireTimeout_running]
  split
  · exact Nat.le_refl _
  · rename_i r h
    split
    · exact length_put_of_lookup h
    · exact Nat.le_refl _

theorem selfSend_running_length (s : St) (q msg : Nat) :
    (selfSend s q msg).1.running.length ≤ s.running.length := by
  rw [selfSend_running]
  split
  · exact Nat.le_refl _
  · rename_i r h
    split
    · exact length_put_of_lookup h
    · exact Nat.le_refl _

theorem startQuery_running_length (s : St) (q : Nat) (force coord : Bool) :
    (startQuery s q force coord).1.running.length ≤ s.running.length + (if force then 1 else 0) := by
  simp only [startQuery]
  split
  · show s.running.length ≤ _; omega
  · split
    · rename_i hf
      have := runQuery_running_length { s with next := s.next + 1 } { obj := s.next, qid := q, coord := coord }
      exact this
    · split
      · show s.running.length ≤ _; omega
      · show s.running.length ≤ _; omega

/-- `RestartQuery` replaces an entry: even a forced restart does not enlarge the running table -/
theorem restartQuery_running_length (s : St) (q nq : Nat) (force : Bool) :
    (restartQuery s q nq force).1.running.length ≤ s.running.length := by
  simp only [restartQuery]
  split
  · exact Nat.le_refl _
  · rename_i r hl
    have he := length_erase_lt hl
    split
    · exact Nat.le_refl _
    · split
      · show (erase q s.running).length ≤ _; omega
      · split
        · show (erase q s.running).length ≤ _; omega
        · split
          · have := runQuery_running_length { s with running := erase q s.running, next := s.next + 1 }
              { obj := s.next, qid := nq, coord := true, chanLen := r.chanLen }
            simp only at this
            show (runQuery _ _).running.length ≤ _
            omega
          · split
            · show (erase q s.running).length ≤ _; omega
            · show (erase q s.running).length ≤ _; omega

theorem step_running_length (s : St) (op : Op) :
    (step s op).1.running.length ≤
      if op.forced then s.running.length + 1 else max s.running.length s.maxRunning := by
  cases op with
  | start q force =>
    have := startQuery_running_length s q force false
    simp only [step, Op.forced]
    cases force <;> simp at this ⊢ <;> omega
  | startc q force =>
    have := startQuery_running_length s q force true
    simp only [step, Op.forced]
    cases force <;> simp at this ⊢ <;> omega
  | pull =>
    simp only [Op.forced, Bool.false_eq_true, if_false, step]
    split
    · split
      · show s.running.length ≤ _; omega
      · rename_i r rs _
        have := runQuery_running_length { s with waiting := rs } r
        simp only at this
        show (runQuery _ r).running.length ≤ _
        omega
    · show s.running.length ≤ _; omega
  | cancel q =>
    have := cancelQuery_running_length s q
    simp only [Op.forced, Bool.false_eq_true, if_false, step]; omega
  | delete q =>
    have := length_erase_le q s.running
    simp only [Op.forced, Bool.false_eq_true, if_false, step]
    split
    · show s.running.length ≤ _; omega
    · show (erase q s.running).length ≤ _; omega
  | drain q =>
    simp only [Op.forced, Bool.false_eq_true, if_false, step]
    split
    · show s.running.length ≤ _; omega
    · rename_i r h
      have := length_put_of_lookup (v := { r with chanLen := 0 }) h
      show (put q _ s.running).length ≤ _; omega
  | timeout q =>
    have := fireTimeout_running_length s q
    simp only [Op.forced, Bool.false_eq_true, if_false, step]; omega
  | restart q nq force =>
    have := restartQuery_running_length s q nq force
    simp only [Op.forced, Bool.false_eq_true, if_false, step]; omega
  | complete q =>
    have := selfSend_running_length s q 4
    simp only [Op.forced, Bool.false_eq_true, if_false, step]; omega
  | error q =>
    have := selfSend_running_length s q 7
    simp only [Op.forced, Bool.false_eq_true, if_false, step]; omega

/-- admission bound over whole runs: the limit plus the number of forced starts -/
theorem run_running_bounded : ∀ (ops : List Op) (s : St) (k : Nat),
    s.running.length ≤ s.maxRunning + k →
    (run s ops).running.length ≤ s.maxRunning + k + (ops.filter Op.forced).length := by
  intro ops
  induction ops with
  | nil => intro s k h; simpa [run] using h
  | cons op ops ih =>
    intro s k h
    have hs := step_running_length s op
    have hm := step_maxRunning s op
    simp only [run]
    by_cases hf : op.forced = true
    · simp only [hf, if_true] at hs
      have := ih (step s op).1 (k + 1) (by rw [hm]; omega)
      rw [hm] at this
      simp only [List.filter_cons, hf, if_true, List.length_cons]
      omega
    · simp only [hf, Bool.false_eq_true, if_false] at hs
      have := ih (step s op).1 k (by rw [hm]; omega)
      rw [hm] at this
      simp only [List.filter_cons, hf, Bool.false_eq_true, if_false]
      omega

end SigModel.Lemmas.C17
