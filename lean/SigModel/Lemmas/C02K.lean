/-
C02 kernel slice, lemmas part a: record decoding of the writer's kinds, exact comparison facts, the float branch
under the tolerance guard, the shape of the literal enclosure.  Core Lean only.
-/
import SigModel.Model.Cmp
import SigModel.Lemmas.C01

namespace SigModel.Lemmas.C02K
open SigModel.Tlv SigModel.Cmp SigModel.Lemmas.C01

/-- what the theorems assume about the float64 rounding `rnd` (see the model header) -/
structure RndOk (rnd : Rat → Rat) : Prop where
  zero : rnd 0 = 0
  idem : ∀ x, rnd (rnd x) = rnd x
  fix64 : ∀ b, finiteBits b = true → rnd (f64val b) = f64val b

/-! ### exact comparisons -/

theorem natCast_rat (n : Nat) : ((n : Int) : Rat) = (n : Rat) := by norm_cast

theorem cmpQ_int (op : Op) (a b : Int) : cmpQ op (a : Rat) (b : Rat) = cmpZ op a b := by
  cases op <;> simp [cmpQ, cmpZ, Rat.intCast_lt_intCast, Rat.intCast_le_intCast, Rat.intCast_inj]

/-! ### records of the writer's kinds -/

theorem pow256_8 : (256 : Nat) ^ 8 = 18446744073709551616 := by decide

theorem wrapU64_lt (i : Int) : wrapU64 i < 256 ^ 8 := by
  rw [pow256_8]; unfold wrapU64 two64; omega

theorem sext_wrapU64 (i : Int) (h1 : -two63 ≤ i) (h2 : i < two63) : sext 8 (wrapU64 i) = i := by
  unfold sext; rw [pow256_8]; unfold wrapU64 two64; unfold two63 at h1 h2
  split <;> omega

theorem rdN8 (n : Nat) (h : n < 256 ^ 8) : rdN 8 (leN 8 n) = some (n, []) := by
  have := rdN_leN 8 n [] h
  simpa using this

theorem getNum_int (i : Int) (h1 : -two63 ≤ i) (h2 : i < two63) :
    getNumberRecDte (SVal.int i).enc = .ok (some (.signed i)) := by
  simp [SVal.enc, SVal.toTlv, encTLV, NumKind.tag, NumKind.width, getNumberRecDte, tags, rdN8 _ (wrapU64_lt i),
    sext_wrapU64 i h1 h2]

theorem getNum_uint (n : Nat) (h : (n : Int) < two64) :
    getNumberRecDte (SVal.uint n).enc = .ok (some (.unsigned n)) := by
  have hn : n < 256 ^ 8 := by rw [pow256_8]; unfold two64 at h; omega
  simp [SVal.enc, SVal.toTlv, encTLV, NumKind.tag, NumKind.width, getNumberRecDte, tags, rdN8 _ hn]

theorem getNum_float (b : Nat) (h : finiteBits b = true) :
    getNumberRecDte (SVal.float b).enc = .ok (some (.float (f64val b))) := by
  have hn : b < 256 ^ 8 := by
    rw [pow256_8]; simp [finiteBits] at h; omega
  simp [SVal.enc, SVal.toTlv, encTLV, NumKind.tag, NumKind.width, getNumberRecDte, tags, rdN8 _ hn]

theorem getNum_str (s : Bytes) : getNumberRecDte (SVal.str s).enc = .ok none := by
  simp [SVal.enc, SVal.toTlv, encTLV, getNumberRecDte, tags]

theorem numOfStr_nil : numOfStr? [] = none := by decide

/-- the string branch of `fopOnNumber` on a record the writer produced for the string `s` -/
theorem strRecNum_str (rnd : Rat → Rat) (s : Bytes) (hs : s.length < 65536) :
    strRecNum? rnd (SVal.str s).enc = (numOfStr? s).map (fun a => RecNum.float (rnd a)) := by
  have hl : s.length % 65536 = s.length := Nat.mod_eq_of_lt hs
  cases s with
  | nil => simp [SVal.enc, SVal.toTlv, encTLV, leN, strRecNum?, numOfStr_nil]
  | cons c rest =>
    simp only [SVal.enc, SVal.toTlv, encTLV, hl, List.take_length, leN]
    simp [strRecNum?]

theorem strRecNum_bool (rnd : Rat → Rat) (b : Bool) : strRecNum? rnd (SVal.bool b).enc = none := by
  simp [SVal.enc, SVal.toTlv, encTLV, strRecNum?]

theorem strRecNum_backfill (rnd : Rat → Rat) : strRecNum? rnd SVal.backfill.enc = none := by
  simp [SVal.enc, SVal.toTlv, encTLV, strRecNum?]

theorem getNum_bool (b : Bool) : getNumberRecDte (SVal.bool b).enc = .ok none := by
  simp [SVal.enc, SVal.toTlv, encTLV, getNumberRecDte, tags]

theorem getNum_backfill : getNumberRecDte SVal.backfill.enc = .ok none := by
  simp [SVal.enc, SVal.toTlv, encTLV, getNumberRecDte, tags]

/-! ### the literal enclosure -/

/-- what the comparison relies on in a numeric literal enclosure -/
def LitOk (rnd : Rat → Rat) (q : Lit) : Prop :=
  match q.dtype with
  | .signed => q.flt = rnd (q.signed : Rat) ∧ q.unsigned = wrapU64 q.signed ∧ q.signed < 0 ∧ -two63 ≤ q.signed
  | .unsigned => q.flt = rnd (q.unsigned : Rat) ∧ q.signed = wrapS64 (q.unsigned : Int) ∧ (q.unsigned : Int) < two64
  | .float => True
  | _ => False

theorem floatLit_ok (rnd : Rat → Rat) (hr : RndOk rnd) (t : NumText) : LitOk rnd (floatLit rnd t) := by
  unfold floatLit
  by_cases h : rnd t.val = 0
  · simp [h, LitOk, hr.zero, wrapS64, two63, two64]
  · simp [h, LitOk]

theorem wf_int (t : NumText) (ht : t.wf) (i : Int) (hi : t.intOk = some i) :
    t.val = (i : Rat) ∧ -two63 ≤ i ∧ i < two63 := by
  simp only [NumText.wf, NumText.wfb, hi, Bool.and_eq_true, decide_eq_true_eq] at ht
  exact ⟨ht.1.2.1.1, ht.1.2.1.2, ht.1.2.2⟩

theorem wf_uint (t : NumText) (ht : t.wf) (u : Nat) (hu : t.uintOk = some u) :
    t.val = (u : Rat) ∧ (u : Int) < two64 ∧ t.neg = false := by
  simp only [NumText.wf, NumText.wfb, hu, Bool.and_eq_true, decide_eq_true_eq, Bool.not_eq_true'] at ht
  exact ⟨ht.1.1.1.1, ht.1.1.1.2, ht.1.1.2⟩

theorem wf_neg (t : NumText) (ht : t.wf) (hn : t.neg = true) : t.val ≤ 0 := by
  simp only [NumText.wf, NumText.wfb, hn, Bool.and_eq_true, Bool.not_true, Bool.false_or, decide_eq_true_eq] at ht
  exact ht.2

theorem mkLit_ok (rnd : Rat → Rat) (hr : RndOk rnd) (t : NumText) (ht : t.wf) : LitOk rnd (mkLit rnd t) := by
  unfold mkLit
  by_cases hn : t.neg = true
  · simp only [hn, if_true]
    cases hi : t.intOk with
    | none => simpa using floatLit_ok rnd hr t
    | some i =>
      have hw := wf_int t ht i hi
      have hle : (i : Rat) ≤ 0 := by rw [← hw.1]; exact wf_neg t ht hn
      have hle' : i ≤ 0 := by exact_mod_cast hle
      by_cases h0 : i = 0
      · simp [h0, LitOk, hr.zero, wrapS64, two63, two64]
      · simp [h0, LitOk]
        exact ⟨by omega, hw.2.1⟩
  · have hn' : t.neg = false := by simpa using hn
    simp only [hn', Bool.false_eq_true, if_false]
    cases hu : t.uintOk with
    | none => simpa using floatLit_ok rnd hr t
    | some u =>
      have hw := wf_uint t ht u hu
      simp [LitOk]
      exact hw.2.1

theorem mkLit_num (rnd : Rat → Rat) (t : NumText) (ht : t.wf) :
    (mkLit rnd t).num? = some (litVal rnd t) := by
  unfold mkLit litVal
  by_cases hn : t.neg = true
  · cases hi : t.intOk with
    | none =>
      simp [hn, floatLit]
      by_cases h : rnd t.val = 0 <;> simp [h, Lit.num?]
    | some i =>
      have hw := wf_int t ht i hi
      by_cases h0 : i = 0
      · simp [hn, h0, Lit.num?, hw.1]
      · simp [hn, h0, Lit.num?, hw.1]
  · have hn' : t.neg = false := by simpa using hn
    cases hu : t.uintOk with
    | none =>
      simp [hn', floatLit]
      by_cases h : rnd t.val = 0 <;> simp [h, Lit.num?]
    | some u =>
      have hw := wf_uint t ht u hu
      simp [hn', Lit.num?, hw.1]

end SigModel.Lemmas.C02K
