/-
Helper lemmas for C11 (part 1): the state invariant of the interleaving machine with the orders extracted
from the source (`Cfg.of d`: with or without de-duplication of the request list), its preservation by every step, and its first consequences
(what a read of a segment sees now = everything ever flushed to it; the rotated map only grows).
-/
import SigModel.Model.Conc
set_option linter.unusedSimpArgs false
namespace SigModel.Lemmas.C11
open SigModel.Conc

variable {d : Bool}

def added (st : Store) : Prop := st.todo = [.removeUnrot, .reset] ∨ st.todo = [.reset]
def removed (st : Store) : Prop := st.todo = [.reset]
instance (st : Store) : Decidable (added st) := by unfold added; infer_instance
instance (st : Store) : Decidable (removed st) := by unfold removed; infer_instance

structure Inv (s : St) : Prop where
  todoOk : ∀ i, (s.store i).todo = [] ∨ (s.store i).todo = [.addMeta, .removeUnrot, .reset] ∨
                (s.store i).todo = [.removeUnrot, .reset] ∨ (s.store i).todo = [.reset]
  cap : ∀ i, (s.store i).todo ≠ [] →
        (s.store i).rotSeg = ⟨i, (s.store i).seq⟩ ∧ (s.store i).rotN = (s.store i).nblocks ∧ (s.store i).nblocks ≠ 0
  tot_gt : ∀ i k, (s.store i).seq < k → s.total ⟨i, k⟩ = 0
  tot_eq : ∀ i, s.total ⟨i, (s.store i).seq⟩ = (s.store i).nblocks
  tot_lt : ∀ i k, k < (s.store i).seq → s.total ⟨i, k⟩ ≠ 0
  unrot_eq : ∀ i k, s.unrot ⟨i, k⟩ =
        if k = (s.store i).seq ∧ ¬ removed (s.store i) then (s.store i).nblocks else 0
  rot_eq : ∀ i k, s.rot ⟨i, k⟩ =
        if k < (s.store i).seq then s.total ⟨i, k⟩
        else if k = (s.store i).seq ∧ added (s.store i) then (s.store i).nblocks else 0
  segs_mem : ∀ g, g ∈ s.segs ↔ s.total g ≠ 0
  segs_nodup : s.segs.Nodup

theorem inv_init : Inv init := by
  constructor <;> simp [init, removed, added]

theorem inv_flush (s : St) (i : Nat) (h : Inv s) : Inv (flush s i) := by
  unfold flush
  rcases h.todoOk i with h0 | h0 | h0 | h0 <;> simp only [h0] <;> try exact h
  have hte := h.tot_eq i
  constructor
  · intro j
    by_cases hj : j = i
    · subst hj; simp [upd, h0]
    · simp [upd, hj]; exact h.todoOk j
  · intro j
    by_cases hj : j = i
    · subst hj; simp [upd, h0]
    · simp [upd, hj]; exact h.cap j
  · intro j k
    by_cases hj : j = i
    · subst hj; simp [upd, updS]; intro hk; have := h.tot_gt j k hk; simp [this]; omega
    · simp [upd, updS, hj]; exact h.tot_gt j k
  · intro j
    by_cases hj : j = i
    · subst hj; simp [upd, updS]; omega
    · simp [upd, updS, hj]; exact h.tot_eq j
  · intro j k
    by_cases hj : j = i
    · subst hj; simp [upd, updS]; intro hk; have := h.tot_lt j k hk; split <;> omega
    · simp [upd, updS, hj]; exact h.tot_lt j k
  · intro j k
    by_cases hj : j = i
    · subst hj
      have := h.unrot_eq j k
      simp [upd, updS, removed, h0] at this ⊢
      split <;> simp_all
    · simp [upd, updS, hj]; exact h.unrot_eq j k
  · intro j k
    by_cases hj : j = i
    · subst hj
      have := h.rot_eq j k
      simp [upd, updS, added, h0] at this ⊢
      rw [this]
      by_cases h1 : k < (s.store j).seq <;> simp [h1]
      intro h2; omega
    · simp [upd, updS, hj]; exact h.rot_eq j k
  · intro g
    have hm := h.segs_mem g
    have hm0 := h.segs_mem ⟨i, (s.store i).seq⟩
    by_cases hg : g = ⟨i, (s.store i).seq⟩
    · subst hg
      by_cases ht : s.total ⟨i, (s.store i).seq⟩ = 0 <;> simp [updS, ht]
      exact hm0.mpr ht
    · by_cases ht : s.total ⟨i, (s.store i).seq⟩ = 0 <;> simp [updS, ht, hg, hm]
  · have hm0 := h.segs_mem ⟨i, (s.store i).seq⟩
    by_cases ht : s.total ⟨i, (s.store i).seq⟩ = 0 <;> simp only [ht, if_true, if_false]
    · rw [List.nodup_append]
      refine ⟨h.segs_nodup, by simp, ?_⟩
      intro a ha b hb
      simp at hb; subst hb
      intro hab; subst hab
      exact (hm0.mp ha) ht
    · exact h.segs_nodup

theorem inv_rot (s : St) (i : Nat) (h : Inv s) : Inv (rotStep (Cfg.of d) s i) := by
  unfold rotStep
  rcases h.todoOk i with h0 | h0 | h0 | h0 <;> simp only [h0]
  · -- idle
    by_cases hn : (s.store i).nblocks = 0
    · simp [hn]; exact h
    · simp only [hn, if_false, Cfg.of, applyRot]
      constructor
      · intro j
        by_cases hj : j = i
        · subst hj; simp [upd]
        · simp [upd, hj]; exact h.todoOk j
      · intro j
        by_cases hj : j = i
        · subst hj; simp [upd]; exact hn
        · simp [upd, hj]; exact h.cap j
      · intro j k
        by_cases hj : j = i
        · subst hj; simp [upd]; exact h.tot_gt j k
        · simp [upd, hj]; exact h.tot_gt j k
      · intro j
        by_cases hj : j = i
        · subst hj; simp [upd]; exact h.tot_eq j
        · simp [upd, hj]; exact h.tot_eq j
      · intro j k
        by_cases hj : j = i
        · subst hj; simp [upd]; exact h.tot_lt j k
        · simp [upd, hj]; exact h.tot_lt j k
      · intro j k
        by_cases hj : j = i
        · subst hj
          have := h.unrot_eq j k
          simp [upd, removed, h0] at this ⊢
          exact this
        · simp [upd, hj]; exact h.unrot_eq j k
      · intro j k
        by_cases hj : j = i
        · subst hj
          have := h.rot_eq j k
          simp [upd, added, h0] at this ⊢
          exact this
        · simp [upd, hj]; exact h.rot_eq j k
      · exact h.segs_mem
      · exact h.segs_nodup
  · -- addMeta
    have hc := h.cap i (by simp [h0])
    simp only [applyRot]
    constructor
    · intro j
      by_cases hj : j = i
      · subst hj; simp [upd]
      · simp [upd, hj]; exact h.todoOk j
    · intro j
      by_cases hj : j = i
      · subst hj; simp [upd]; exact hc
      · simp [upd, hj]; exact h.cap j
    · intro j k
      by_cases hj : j = i
      · subst hj; simp [upd]; exact h.tot_gt j k
      · simp [upd, hj]; exact h.tot_gt j k
    · intro j
      by_cases hj : j = i
      · subst hj; simp [upd]; exact h.tot_eq j
      · simp [upd, hj]; exact h.tot_eq j
    · intro j k
      by_cases hj : j = i
      · subst hj; simp [upd]; exact h.tot_lt j k
      · simp [upd, hj]; exact h.tot_lt j k
    · intro j k
      by_cases hj : j = i
      · subst hj
        have := h.unrot_eq j k
        simp [upd, removed, h0] at this ⊢
        exact this
      · simp [upd, hj]; exact h.unrot_eq j k
    · intro j k
      by_cases hj : j = i
      · subst hj
        have := h.rot_eq j k
        simp [upd, updS, added, h0, hc.1, hc.2.1] at this ⊢
        by_cases hk : k = (s.store j).seq
        · simp [hk]
        · simp [hk, this]
      · have := h.rot_eq j k
        simp [upd, updS, hj, hc.1]; exact this
    · exact h.segs_mem
    · exact h.segs_nodup
  · -- removeUnrot
    have hc := h.cap i (by simp [h0])
    simp only [applyRot]
    constructor
    · intro j
      by_cases hj : j = i
      · subst hj; simp [upd]
      · simp [upd, hj]; exact h.todoOk j
    · intro j
      by_cases hj : j = i
      · subst hj; simp [upd]; exact hc
      · simp [upd, hj]; exact h.cap j
    · intro j k
      by_cases hj : j = i
      · subst hj; simp [upd]; exact h.tot_gt j k
      · simp [upd, hj]; exact h.tot_gt j k
    · intro j
      by_cases hj : j = i
      · subst hj; simp [upd]; exact h.tot_eq j
      · simp [upd, hj]; exact h.tot_eq j
    · intro j k
      by_cases hj : j = i
      · subst hj; simp [upd]; exact h.tot_lt j k
      · simp [upd, hj]; exact h.tot_lt j k
    · intro j k
      by_cases hj : j = i
      · subst hj
        have := h.unrot_eq j k
        simp [upd, updS, removed, h0, hc.1] at this ⊢
        by_cases hk : k = (s.store j).seq
        · simp [hk]
        · simp [hk, this]
      · have := h.unrot_eq j k
        simp [upd, updS, hj, hc.1]; exact this
    · intro j k
      by_cases hj : j = i
      · subst hj
        have := h.rot_eq j k
        simp [upd, added, h0] at this ⊢
        exact this
      · simp [upd, hj]; exact h.rot_eq j k
    · exact h.segs_mem
    · exact h.segs_nodup
  · -- reset
    have hc := h.cap i (by simp [h0])
    have hte := h.tot_eq i
    simp only [applyRot]
    constructor
    · intro j
      by_cases hj : j = i
      · subst hj; simp [upd]
      · simp [upd, hj]; exact h.todoOk j
    · intro j
      by_cases hj : j = i
      · subst hj; simp [upd]
      · simp [upd, hj]; exact h.cap j
    · intro j k
      by_cases hj : j = i
      · subst hj; simp [upd]; intro hk; exact h.tot_gt j k (by omega)
      · simp [upd, hj]; exact h.tot_gt j k
    · intro j
      by_cases hj : j = i
      · subst hj; simp [upd]; exact h.tot_gt j _ (by omega)
      · simp [upd, hj]; exact h.tot_eq j
    · intro j k
      by_cases hj : j = i
      · subst hj; simp [upd]; intro hk
        by_cases hk2 : k = (s.store j).seq
        · subst hk2; rw [hte]; exact hc.2.2
        · exact h.tot_lt j k (by omega)
      · simp [upd, hj]; exact h.tot_lt j k
    · intro j k
      by_cases hj : j = i
      · subst hj
        have := h.unrot_eq j k
        simp [upd, removed, h0] at this ⊢
        exact this
      · simp [upd, hj]; exact h.unrot_eq j k
    · intro j k
      by_cases hj : j = i
      · subst hj
        have := h.rot_eq j k
        simp [upd, added, h0] at this ⊢
        rw [this]
        by_cases h1 : k < (s.store j).seq
        · simp [h1]; omega
        · by_cases h2 : k = (s.store j).seq
          · subst h2; simp [hte]
          · simp [h1, h2]; omega
      · simp [upd, hj]; exact h.rot_eq j k
    · exact h.segs_mem
    · exact h.segs_nodup

/-- a query step changes nothing but the query table -/
theorem qStep_frame (cfg : Cfg) (s : St) (j : Nat) (k : Bool) :
    ∃ qf, qStep cfg s j k = { s with query := qf } := by
  unfold qStep
  by_cases h1 : (s.query j).finished
  · exact ⟨s.query, by simp [h1]⟩
  · by_cases h2 : (s.query j).started
    · cases h3 : (s.query j).todo with
      | nil => exact ⟨_, by simp [h1, h2, h3]; rfl⟩
      | cons a r => exact ⟨_, by simp [h1, h2, h3]; rfl⟩
    · cases h3 : cfg.qOrder with
      | nil => exact ⟨_, by simp [h1, h2, h3]; rfl⟩
      | cons a r => exact ⟨_, by simp [h1, h2, h3]; rfl⟩

theorem inv_frame (s : St) (qf : Nat → Query) (h : Inv s) : Inv { s with query := qf } :=
  ⟨h.todoOk, h.cap, h.tot_gt, h.tot_eq, h.tot_lt, h.unrot_eq, h.rot_eq, h.segs_mem, h.segs_nodup⟩

theorem inv_q (cfg : Cfg) (s : St) (j : Nat) (k : Bool) (h : Inv s) : Inv (qStep cfg s j k) := by
  obtain ⟨qf, hq⟩ := qStep_frame cfg s j k
  rw [hq]; exact inv_frame s qf h

theorem inv_step (s : St) (l : Label) (h : Inv s) : Inv (step (Cfg.of d) s l) := by
  cases l with
  | flush i => exact inv_flush s i h
  | rot i => exact inv_rot (d := d) s i h
  | q j k => exact inv_q _ s j k h

theorem run_append (cfg : Cfg) (s : St) (l1 l2 : List Label) :
    run cfg s (l1 ++ l2) = run cfg (run cfg s l1) l2 := by
  simp [run, List.foldl_append]

theorem run_cons (cfg : Cfg) (s : St) (l : Label) (ls : List Label) :
    run cfg s (l :: ls) = run cfg (step cfg s l) ls := rfl

theorem inv_run (s : St) (ls : List Label) (h : Inv s) : Inv (run (Cfg.of d) s ls) := by
  induction ls generalizing s with
  | nil => exact h
  | cons l ls ih => exact ih _ (inv_step s l h)

/-- a generic induction principle: a property of states that holds initially and is preserved by every
step from a state satisfying the invariant holds after every schedule -/
theorem run_induction (P : St → Prop) (s : St) (ls : List Label) (hs : Inv s) (h0 : P s)
    (hstep : ∀ s l, Inv s → P s → P (step (Cfg.of d) s l)) : P (run (Cfg.of d) s ls) := by
  induction ls generalizing s with
  | nil => exact h0
  | cons l ls ih => exact ih _ (inv_step s l hs) (hstep s l hs h0)

/-- what a request for segment `g` reads now is exactly everything that was ever flushed to `g` -/
theorem nowCount_eq_total (s : St) (h : Inv s) (g : Seg) : nowCount s g = s.total g := by
  obtain ⟨i, k⟩ := g
  unfold nowCount
  have hu := h.unrot_eq i k
  have hr := h.rot_eq i k
  by_cases h1 : k < (s.store i).seq
  · have : ¬ k = (s.store i).seq := by omega
    simp [this] at hu
    simp [h1] at hr
    simp [hu, hr]
  · by_cases h2 : k = (s.store i).seq
    · subst h2
      have hte := h.tot_eq i
      by_cases h3 : removed (s.store i)
      · have ha : added (s.store i) := Or.inr h3
        simp [h3] at hu
        simp [ha] at hr
        simp [hu, hr, hte]
      · simp [h3] at hu
        by_cases h4 : (s.store i).nblocks = 0
        · by_cases ha : added (s.store i)
          · have hne : (s.store i).todo ≠ [] := by
              rcases ha with ha | ha <;> simp [ha]
            exact absurd h4 (h.cap i hne).2.2
          · simp [ha] at hr
            simp [hu, hr, hte, h4]
        · simp [hu, h4, hte]
    · have h3 : (s.store i).seq < k := by omega
      simp [h2] at hu
      simp [h1, h2] at hr
      simp [hu, hr, h.tot_gt i k h3]

theorem total_mono (s : St) (l : Label) (g : Seg) : s.total g ≤ (step (Cfg.of d) s l).total g := by
  cases l with
  | flush i =>
    simp only [step, flush]
    cases h0 : (s.store i).todo with
    | nil =>
      simp only [updS]
      by_cases hg : g = ⟨i, (s.store i).seq⟩
      · subst hg; simp
      · simp [hg]
    | cons a r => simp
  | rot i =>
    simp only [step, rotStep]
    cases h0 : (s.store i).todo with
    | nil =>
      by_cases hn : (s.store i).nblocks = 0
      · simp [hn]
      · simp [hn, Cfg.of, applyRot]
    | cons a r => cases a <;> simp [applyRot]
  | q j k =>
    obtain ⟨qf, hq⟩ := qStep_frame (Cfg.of d) s j k
    simp [step, hq]

theorem rot_mono (s : St) (h : Inv s) (l : Label) (g : Seg) : s.rot g ≤ (step (Cfg.of d) s l).rot g := by
  cases l with
  | flush i =>
    simp only [step, flush]
    cases h0 : (s.store i).todo with
    | nil => simp
    | cons a r => simp
  | rot i =>
    simp only [step, rotStep]
    rcases h.todoOk i with h0 | h0 | h0 | h0 <;> simp only [h0]
    · by_cases hn : (s.store i).nblocks = 0
      · simp [hn]
      · simp [hn, Cfg.of, applyRot]
    · have hc := h.cap i (by simp [h0])
      have hr := h.rot_eq i (s.store i).seq
      simp [added, h0] at hr
      simp only [applyRot, upd, if_true, updS]
      by_cases hg : g = (s.store i).rotSeg
      · subst hg; simp; rw [hc.1, hr]; omega
      · simp [hg]
    · simp [applyRot]
    · simp [applyRot]
  | q j k =>
    obtain ⟨qf, hq⟩ := qStep_frame (Cfg.of d) s j k
    simp [step, hq]

end SigModel.Lemmas.C11
