/- C12 helper lemmas, part f: the float64 percentile index `float64(p·(n−1))/100` never exceeds `n−1`
   (so ⌈k⌉ is a valid index), for arrays of fewer than 2^52/100 elements. Core Lean only. -/
import SigModel.Lemmas.C12d

namespace SigModel.Lemmas.C12
open SigModel.Trace

theorem lg2_spec : ∀ (f n : Nat), 0 < n → n < 2 ^ f → 2 ^ (lg2 f n) ≤ n ∧ n < 2 ^ (lg2 f n + 1) := by
  intro f
  induction f with
  | zero => intro n h1 h2; simp at h2; omega
  | succ f ih =>
    intro n h1 h2
    unfold lg2
    split
    · rename_i hge
      have h3 : n / 2 < 2 ^ f := by rw [Nat.pow_succ] at h2; omega
      obtain ⟨a, b⟩ := ih (n / 2) (by omega) h3
      rw [Nat.pow_succ] at b
      rw [Nat.pow_succ, Nat.pow_succ, Nat.pow_succ]
      constructor <;> omega
    · simp; omega

theorem lg2_lt_of_lt_pow {n k : Nat} (h0 : 0 < n) (h : n < 2 ^ k) (hk : k ≤ 4096) : lg2 4096 n < k := by
  have hb : n < 2 ^ 4096 := Nat.lt_of_lt_of_le h (Nat.pow_le_pow_right (by decide) hk)
  have := (lg2_spec 4096 n h0 hb).1
  have h2 : 2 ^ (lg2 4096 n) < 2 ^ k := Nat.lt_of_le_of_lt this h
  exact (Nat.pow_lt_pow_iff_right (by decide)).1 h2

theorem le_lg2_of_pow_le {n k : Nat} (h : 2 ^ k ≤ n) (hb : n < 2 ^ 4096) : k ≤ lg2 4096 n := by
  have h0 : 0 < n := Nat.lt_of_lt_of_le (Nat.two_pow_pos k) h
  have := (lg2_spec 4096 n h0 hb).2
  have h2 : 2 ^ k < 2 ^ (lg2 4096 n + 1) := Nat.lt_of_le_of_lt h this
  have := (Nat.pow_lt_pow_iff_right (by decide)).1 h2
  omega

/-- round-to-nearest-even of n/d -/
def roundDiv (n d : Nat) : Nat :=
  if 2 * (n % d) > d || (2 * (n % d) == d && (n / d) % 2 == 1) then n / d + 1 else n / d

theorem roundDiv_le {n d M : Nat} (hd : 0 < d) (h : n ≤ M * d) : roundDiv n d ≤ M := by
  have hq : n / d ≤ M := by
    apply Nat.div_le_of_le_mul
    rw [Nat.mul_comm]; exact h
  unfold roundDiv
  split
  · rename_i hr
    have hpos : 0 < n % d := by
      simp only [Bool.or_eq_true, decide_eq_true_eq, Bool.and_eq_true, beq_iff_eq] at hr
      omega
    have hdm := Nat.div_add_mod n d
    have hlt : d * (n / d) < M * d := by omega
    rw [Nat.mul_comm d] at hlt
    have := Nat.lt_of_mul_lt_mul_right hlt
    omega
  · exact hq

theorem roundDiv_one (n : Nat) : roundDiv n 1 = n := by
  unfold roundDiv
  simp [Nat.mod_one]

theorem rnd_eq (num den : Nat) (e : Int) (hn : num ≠ 0) (hd : den ≠ 0) :
    ∃ s : Int, 51 - (lg2 4096 num : Int) + (lg2 4096 den : Int) ≤ s ∧
      s ≤ 53 - (lg2 4096 num : Int) + (lg2 4096 den : Int) ∧
      Dy.rnd num den e = ⟨roundDiv (num * 2 ^ s.toNat) (den * 2 ^ (-s).toNat), e - s⟩ := by
  have h1 : (num == 0 || den == 0) = false := by simp [hn, hd]
  unfold Dy.rnd
  simp only [h1, Bool.false_eq_true, if_false]
  refine ⟨_, ?_, ?_, rfl⟩
  · split
    · omega
    · split <;> omega
  · split
    · omega
    · split <;> omega

theorem lg2_one : lg2 4096 1 = 0 := by
  show lg2 (4095 + 1) 1 = 0
  unfold lg2
  simp

theorem ofNat_exact (x : Nat) (h0 : 0 < x) (hx : x < 2 ^ 52) :
    ∃ s : Nat, s ≤ 53 ∧ Dy.ofNat x = ⟨x * 2 ^ s, -(s : Int)⟩ := by
  obtain ⟨s, hs1, hs2, heq⟩ := rnd_eq x 1 0 (by omega) (by omega)
  rw [lg2_one] at hs1 hs2
  have hl := lg2_lt_of_lt_pow h0 hx (by decide)
  have hs0 : 0 ≤ s := by omega
  refine ⟨s.toNat, by omega, ?_⟩
  unfold Dy.ofNat
  rw [heq]
  have h1 : (-s).toNat = 0 := by omega
  rw [h1]
  simp only [Nat.pow_zero, Nat.mul_one, roundDiv_one]
  congr 1
  omega

theorem ofNat_zero : Dy.ofNat 0 = Dy.zero := by
  unfold Dy.ofNat Dy.rnd
  simp

theorem div_zero_left (b : Dy) : Dy.div Dy.zero b = Dy.zero := by
  unfold Dy.div Dy.rnd Dy.zero
  simp

/-- the float64 quotient `x/100` is at most `N` whenever `x ≤ 100·N` (x < 2^52) -/
theorem div100_ceil_le (x N : Nat) (hx : x < 2 ^ 52) (hle : x ≤ 100 * N) :
    (Dy.div (Dy.ofNat x) (Dy.ofNat 100)).ceil ≤ N := by
  by_cases h0 : x = 0
  · subst h0
    rw [ofNat_zero, div_zero_left]
    unfold Dy.ceil Dy.zero
    simp
  · obtain ⟨s, hs, ha⟩ := ofNat_exact x (by omega) hx
    obtain ⟨t, ht, hb⟩ := ofNat_exact 100 (by decide) (by decide)
    rw [ha, hb]
    unfold Dy.div
    simp only []
    have hnum0 : x * 2 ^ s ≠ 0 := Nat.ne_of_gt (Nat.mul_pos (by omega) (Nat.two_pow_pos s))
    have hden0 : 100 * 2 ^ t ≠ 0 := Nat.ne_of_gt (Nat.mul_pos (by decide) (Nat.two_pow_pos t))
    obtain ⟨s2, hl, _, heq⟩ := rnd_eq (x * 2 ^ s) (100 * 2 ^ t) (-(s : Int) - -(t : Int)) hnum0 hden0
    rw [heq]
    -- size of the operands
    have hnumlt : x * 2 ^ s < 2 ^ (52 + s) := by
      rw [Nat.pow_add]; exact Nat.mul_lt_mul_of_pos_right hx (Nat.two_pow_pos s)
    have hlgnum : lg2 4096 (x * 2 ^ s) < 52 + s :=
      lg2_lt_of_lt_pow (Nat.pos_of_ne_zero hnum0) hnumlt (by omega)
    have hdenlt : 100 * 2 ^ t < 2 ^ 4096 := by
      have h1 : 100 * 2 ^ t < 2 ^ (7 + t) := by
        rw [Nat.pow_add]; exact Nat.mul_lt_mul_of_pos_right (by decide) (Nat.two_pow_pos t)
      exact Nat.lt_of_lt_of_le h1 (Nat.pow_le_pow_right (by decide) (by omega))
    have hlgden : 6 + t ≤ lg2 4096 (100 * 2 ^ t) := by
      apply le_lg2_of_pow_le _ hdenlt
      rw [Nat.pow_add]; exact Nat.mul_le_mul_right _ (by decide)
    -- the result exponent is negative
    have hE : (-(s : Int) - -(t : Int)) - s2 < 0 := by omega
    unfold Dy.ceil
    simp only []
    have hnot : ¬ ((-(s : Int) - -(t : Int)) - s2 ≥ 0) := by omega
    simp only [hnot, if_false]
    have hk : (-((-(s : Int) - -(t : Int)) - s2)).toNat = (s2 + s - t).toNat := by congr 1; omega
    rw [hk]
    unfold Dy.pow2
    have hpos : 0 < 2 ^ (s2 + s - t).toNat := Nat.two_pow_pos _
    -- q ≤ N · 2^k
    have hq : roundDiv (x * 2 ^ s * 2 ^ s2.toNat) (100 * 2 ^ t * 2 ^ (-s2).toNat) ≤ N * 2 ^ (s2 + s - t).toNat := by
      apply roundDiv_le (Nat.mul_pos (Nat.pos_of_ne_zero hden0) (Nat.two_pow_pos _))
      have e1 : x * 2 ^ s * 2 ^ s2.toNat = x * 2 ^ (s + s2.toNat) := by rw [Nat.mul_assoc, ← Nat.pow_add]
      have e2 : N * 2 ^ (s2 + s - t).toNat * (100 * 2 ^ t * 2 ^ (-s2).toNat) =
          (100 * N) * 2 ^ ((s2 + s - t).toNat + t + (-s2).toNat) := by
        rw [Nat.pow_add, Nat.pow_add]
        simp only [Nat.mul_assoc, Nat.mul_comm, Nat.mul_left_comm]
      have e3 : (s2 + s - t).toNat + t + (-s2).toNat = s + s2.toNat := by omega
      rw [e1, e2, e3]
      exact Nat.mul_le_mul_right _ hle
    by_cases hN : N = 0
    · subst hN
      simp only [Nat.zero_mul, Nat.le_zero] at hq
      rw [hq]
      simp only [Nat.zero_add, Nat.le_zero]
      exact Nat.div_eq_of_lt (by omega)
    · have : roundDiv (x * 2 ^ s * 2 ^ s2.toNat) (100 * 2 ^ t * 2 ^ (-s2).toNat) + 2 ^ (s2 + s - t).toNat - 1 <
          (N + 1) * 2 ^ (s2 + s - t).toNat := by
        rw [Nat.add_mul]; omega
      have := Nat.div_lt_of_lt_mul (by rw [Nat.mul_comm]; exact this)
      omega

theorem pctIndex_ceil_lt (p n : Nat) (hp : p ≤ 100) (hn : 0 < n) (hbig : 100 * n < 2 ^ 52) :
    (pctIndex p n).ceil < n := by
  unfold pctIndex
  have h1 : p * (n - 1) ≤ 100 * (n - 1) := Nat.mul_le_mul_right _ hp
  have h2 : p * (n - 1) < 2 ^ 52 := by omega
  have := div100_ceil_le (p * (n - 1)) (n - 1) h2 h1
  omega

end SigModel.Lemmas.C12
