/- C12 helper lemmas, part e: facts about every view `treeView` returns; the well-formed case. Core Lean only. -/
import SigModel.Lemmas.C12c

namespace SigModel.Lemmas.C12
open SigModel.Trace List

/-- everything the theorems need about a returned view, for ANY span list -/
theorem view_facts {spans : List Span} {pick : Nat} {view : List (Nat × Nat)}
    (h : treeView spans pick = some view) :
    ∃ r, r ∈ toMap spans ∧ r.noEntry = false ∧ r.parent = 0 ∧ r.id ≠ 0 ∧
      pickRoot (toMap spans) pick = some r ∧
      view.head? = some (0, r.id) ∧
      (view.map Prod.snd).Nodup ∧
      (∀ x, x ∈ view.map Prod.snd ↔ ∃ k, k ≤ (toMap spans).length ∧ up (toMap spans) k x = some r.id) ∧
      (∀ e ∈ view, e = (0, r.id) ∨ par (toMap spans) e.2 = some e.1) := by
  obtain ⟨r, hp, hid, hv⟩ := treeView_some h
  have hnd := toMap_nodup spans
  obtain ⟨hrm, hre, hr0⟩ := pickRoot_mem hp
  have hpar := par_root hnd hrm hr0
  refine ⟨r, hrm, hre, hr0, hid, hp, ?_, ?_, ?_, ?_⟩
  · rw [hv]; rfl
  · rw [hv, render_snd]
    exact nodup_rids hnd _ _ (acyc_of_par_none hpar)
  · intro x
    rw [hv, render_snd, mem_rids hnd]
    constructor
    · rintro ⟨k, hk, hu⟩; exact ⟨k, by omega, hu⟩
    · rintro ⟨k, hk, hu⟩; exact ⟨k, by omega, hu⟩
  · intro e he
    rw [hv] at he
    rcases render_edges hnd _ _ _ e.1 e.2 he with ⟨h1, h2⟩ | h1
    · left; exact Prod.ext h2 h1
    · right; exact h1

theorem up_root_none {m : List Span} {r : Nat} (h : par m r = none) (j : Nat) : up m (j + 1) r = none := by
  rw [up_succ_left, h]; rfl

/-- a span that is its own proper ancestor has no ancestor without parent -/
theorem cycle_never_reaches {m : List Span} {x r : Nat} {j k : Nat} (hc : up m (j + 1) x = some x)
    (hr : par m r = none) (hk : up m k x = some r) : False := by
  have h1 : up m (j + 1 + k) x = some r := by rw [up_add, hc]; exact hk
  have h2 : up m (k + (j + 1)) x = none := by rw [up_add, hk]; exact up_root_none hr j
  rw [Nat.add_comm] at h2
  rw [h1] at h2
  simp at h2

/-! ### well-formed traces -/

theorem wellFormed_parts {spans : List Span} (h : wellFormed spans = true) :
    (spans.map (·.id)).Nodup ∧ (∀ s ∈ spans, s.noEntry = false ∧ s.id ≠ 0) ∧
    (spans.filter (fun s => s.parent == 0)).length = 1 ∧ (∀ s ∈ spans, reaches spans spans.length s = true) := by
  unfold wellFormed at h
  simp only [Bool.and_eq_true, decide_eq_true_eq, all_eq_true, Bool.not_eq_true', bne_iff_ne, ne_eq,
    beq_iff_eq] at h
  obtain ⟨⟨⟨h1, h2⟩, h3⟩, h4⟩ := h
  exact ⟨h1, h2, h3, h4⟩

theorem wellFormed_view {spans : List Span} (h : wellFormed spans = true) (pick : Nat) :
    ∃ view r, treeView spans pick = some view ∧ r ∈ spans ∧ r.parent = 0 ∧
      (∀ r' ∈ spans, r'.parent = 0 → r' = r) ∧
      (∀ s ∈ spans, ∃ k, k ≤ spans.length ∧ up spans k s.id = some r.id) ∧
      pickRoot spans pick = some r := by
  obtain ⟨hnd, hall, hone, hreach⟩ := wellFormed_parts h
  have hm : toMap spans = spans := toMap_of_nodup hnd
  -- the single candidate
  have hfe : spans.filter isCand = spans.filter (fun s => s.parent == 0) := by
    apply filter_congr
    intro s hs
    unfold isCand
    simp [(hall s hs).1]
  have hcl : (cands spans).length = 1 := by rw [(cands_perm spans).length_eq, hfe, hone]
  obtain ⟨r, hc⟩ := length_eq_one_iff.1 hcl
  · have hrc : r ∈ spans.filter (fun s => s.parent == 0) := by
      rw [← hfe]; exact (cands_perm spans).mem_iff.1 (by rw [hc]; exact mem_cons_self)
    obtain ⟨hrm, hr0⟩ := mem_filter.1 hrc
    have hr0 : r.parent = 0 := by simpa using hr0
    have huniq : ∀ r' ∈ spans, r'.parent = 0 → r' = r := by
      intro r' hr' h0
      have hm' : r' ∈ spans.filter (fun s => s.parent == 0) := mem_filter.2 ⟨hr', by simpa using h0⟩
      obtain ⟨y, hf⟩ := length_eq_one_iff.1 hone
      rw [hf] at hm' hrc
      rw [mem_singleton.1 hm', mem_singleton.1 hrc]
    have hpick : pickRoot spans pick = some r := by
      unfold pickRoot
      simp [hc, Nat.mod_one]
    have hrid : r.id ≠ 0 := (hall r hrm).2
    refine ⟨render (kidsOfS (sortSpans spans) spans) (spans.length + 1) 0 r.id, r, ?_, hrm, hr0, huniq, ?_, hpick⟩
    · unfold treeView buildTree
      simp only [hm, hpick]
      have : (r.id == 0) = false := by simpa using hrid
      simp [this]
    · intro s hs
      obtain ⟨k, hk, r', hr', hr'0, hup⟩ := reaches_up hnd (fun s hs => (hall s hs).1) _ s hs (hreach s hs)
      rw [huniq r' hr' hr'0] at hup
      exact ⟨k, hk, hup⟩

end SigModel.Lemmas.C12
