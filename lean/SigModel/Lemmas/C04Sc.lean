/-
C04 statistics slice, lemmas part c: what the closed form MEANS and how it merges.
  * the running sum equals the mathematical sum as long as the integer part cannot wrap (`absIntSum < 2^63`);
    for all-integer lists it is always `wrapS64` of the mathematical sum;
  * the min / max cells hold the least / greatest numeric value (attained, bounding);
  * `mergeO (build xs) (build ys) = build (xs ++ ys)` under the no-wrap guard (SegStats.Merge as fixed: IsNumeric is OR-ed).
Core Lean only.
-/
import SigModel.Lemmas.C04Sb

namespace SigModel.Stats
open SigModel.MachInt

/-! ### sums -/

def Num.toRat : Num → Rat
  | .int i => (i : Rat)
  | .flt q => q

def Num.isFlt : Num → Bool
  | .int _ => false
  | .flt _ => true

def Num.intPart : Num → Int
  | .int i => i
  | .flt _ => 0

/-- the mathematical sum of the numeric values -/
def ratSum : List Num → Rat
  | [] => 0
  | x :: r => x.toRat + ratSum r

/-- the sum of the integer-typed values -/
def intSum : List Num → Int
  | [] => 0
  | x :: r => x.intPart + intSum r

/-- Σ |i| over the integer-typed values: no sub-sum, in any order, can leave int64 while this is below 2^63 -/
def absIntSum : List Num → Nat
  | [] => 0
  | x :: r => x.intPart.natAbs + absIntSum r

def anyFlt : List Num → Bool
  | [] => false
  | x :: r => x.isFlt || anyFlt r

theorem ratSum_append (xs ys : List Num) : ratSum (xs ++ ys) = ratSum xs + ratSum ys := by
  induction xs with
  | nil => simp [ratSum, Rat.zero_add]
  | cons x r ih => simp [ratSum, ih]; grind
theorem intSum_append (xs ys : List Num) : intSum (xs ++ ys) = intSum xs + intSum ys := by
  induction xs with
  | nil => simp [intSum]
  | cons x r ih => simp [intSum, ih]; omega
theorem absIntSum_append (xs ys : List Num) : absIntSum (xs ++ ys) = absIntSum xs + absIntSum ys := by
  induction xs with
  | nil => simp [absIntSum]
  | cons x r ih => simp [absIntSum, ih]; omega
theorem anyFlt_append (xs ys : List Num) : anyFlt (xs ++ ys) = (anyFlt xs || anyFlt ys) := by
  induction xs with
  | nil => simp [anyFlt]
  | cons x r ih => simp [anyFlt, ih, Bool.or_assoc]

theorem natAbs_intSum_le (ns : List Num) : (intSum ns).natAbs ≤ absIntSum ns := by
  induction ns with
  | nil => simp [intSum, absIntSum]
  | cons x r ih => simp only [intSum, absIntSum]; omega

/-- without floats the mathematical sum is the integer sum -/
theorem ratSum_of_noFlt (ns : List Num) (h : anyFlt ns = false) : ratSum ns = ((intSum ns : Int) : Rat) := by
  induction ns with
  | nil => simp [ratSum, intSum]
  | cons x r ih =>
    cases x with
    | int i =>
      have hr : anyFlt r = false := by simpa [anyFlt, Num.isFlt] using h
      simp [ratSum, intSum, Num.toRat, Num.intPart, ih hr, Rat.intCast_add]
    | flt q => simp [anyFlt, Num.isFlt] at h

theorem wrapS64_of_inRange (x : Int) (h : x.natAbs < 9223372036854775808) : wrapS64 x = x := by
  unfold wrapS64; omega

theorem wrapS64_add_wrapS64 (a i : Int) : wrapS64 (wrapS64 a + i) = wrapS64 (a + i) := by
  unfold wrapS64; omega

theorem addInt_of_inRange (a i : Int) (h : (a + i).natAbs < 9223372036854775808) : addInt exact a i = .int (a + i) := by
  have : fitsI64 (a + i) = true := by unfold fitsI64; simp; omega
  simp [addInt, this]

/-- c04-15: whatever the types and the size, the sum cell's VALUE is the sum of the two values (exact arithmetic) -/
theorem addSum_toRat (s v : Num) : (addSum exact s v).toRat = s.toRat + v.toRat := by
  cases s <;> cases v <;> simp [addSum, Num.toRat]
  rename_i a i
  unfold addInt
  by_cases h : fitsI64 (a + i) <;> simp [h, Rat.intCast_add]

theorem foldl_addSum_toRat (ns : List Num) : ∀ acc : Num, (ns.foldl (addSum exact) acc).toRat = acc.toRat + ratSum ns := by
  induction ns with
  | nil => intro acc; simp [ratSum, Rat.add_zero]
  | cons x r ih => intro acc; rw [List.foldl_cons, ih, addSum_toRat]; simp [ratSum]; grind

/-- the running sum IS the mathematical sum of the numeric values — every list, no guard (patch c04-15) -/
theorem sumCell_toRat (ns : List Num) : (sumCell ns).toRat = ratSum ns := by
  unfold sumCell; rw [foldl_addSum_toRat]; simp [Num.toRat, Rat.zero_add]

/-- the value the running sum is SUPPOSED to hold -/
def sumSpec (ns : List Num) : Num := if anyFlt ns then .flt (ratSum ns) else .int (intSum ns)

/-- running sum from an arbitrary accumulator -/
theorem foldl_addSum (ns : List Num) : ∀ (acc : Num),
    (acc.isFlt = false → acc.intPart.natAbs + absIntSum ns < 9223372036854775808) →
    ns.foldl (addSum exact) acc =
      if acc.isFlt || anyFlt ns then .flt (acc.toRat + ratSum ns) else .int (acc.intPart + intSum ns) := by
  induction ns with
  | nil =>
    intro acc _
    cases acc <;> simp [Num.isFlt, anyFlt, ratSum, intSum, Num.toRat, Num.intPart, Rat.add_zero]
  | cons x r ih =>
    intro acc hg
    rw [List.foldl_cons]
    cases acc with
    | int a =>
      have hg' := hg rfl
      cases x with
      | int i =>
        simp only [absIntSum, Num.intPart] at hg'
        rw [show addSum exact (.int a) (.int i) = .int (a + i) by simp [addSum, addInt_of_inRange a i (by omega)]]
        rw [ih (.int (a + i)) (by intro _; simp only [Num.intPart]; omega)]
        by_cases hf : anyFlt r
        · simp [Num.isFlt, anyFlt, hf, Num.toRat, ratSum, Rat.intCast_add]; grind
        · simp [Num.isFlt, anyFlt, hf, Num.intPart, intSum]; omega
      | flt f =>
        rw [show addSum exact (.int a) (.flt f) = .flt ((a : Rat) + f) by simp [addSum]]
        rw [ih (.flt ((a : Rat) + f)) (by intro h; simp [Num.isFlt] at h)]
        simp [Num.isFlt, anyFlt, Num.toRat, ratSum]; grind
    | flt q =>
      cases x with
      | int i =>
        rw [show addSum exact (.flt q) (.int i) = .flt (q + (i : Rat)) by simp [addSum]]
        rw [ih (.flt (q + (i : Rat))) (by intro h; simp [Num.isFlt] at h)]
        simp [Num.isFlt, Num.toRat, ratSum]; grind
      | flt f =>
        rw [show addSum exact (.flt q) (.flt f) = .flt (q + f) by simp [addSum]]
        rw [ih (.flt (q + f)) (by intro h; simp [Num.isFlt] at h)]
        simp [Num.isFlt, Num.toRat, ratSum]; grind

/-- S1: while the integer part cannot wrap, the running sum IS the mathematical sum (int64 until the first float, float64 after) -/
theorem sumCell_eq_spec (ns : List Num) (h : absIntSum ns < 9223372036854775808) : sumCell ns = sumSpec ns := by
  unfold sumCell sumSpec
  rw [foldl_addSum ns (.int 0) (by intro _; simpa [Num.intPart] using h)]
  simp [Num.isFlt, Num.toRat, Num.intPart, Rat.zero_add]

/-- the running sum as it was computed BEFORE patch c04-15 -/
def sumCellOld (ns : List Num) : Num := ns.foldl (addSumOld exact) (.int 0)

/-- the old overflow branch, all-integer lists: the running sum was ALWAYS the mathematical sum wrapped to int64 -/
theorem foldl_addSumOld_ints (ns : List Num) (h : anyFlt ns = false) : ∀ a : Int,
    ns.foldl (addSumOld exact) (.int (wrapS64 a)) = .int (wrapS64 (a + intSum ns)) := by
  induction ns with
  | nil => intro a; simp [intSum]
  | cons x r ih =>
    intro a
    cases x with
    | int i =>
      have hr : anyFlt r = false := by simpa [anyFlt, Num.isFlt] using h
      rw [List.foldl_cons, show addSumOld exact (.int (wrapS64 a)) (.int i) = .int (wrapS64 (a + i)) by
        simp [addSumOld, wrapS64_add_wrapS64]]
      rw [ih hr (a + i)]
      simp only [intSum, Num.intPart]
      congr 2; omega
    | flt q => simp [anyFlt, Num.isFlt] at h

theorem sumCellOld_of_ints (ns : List Num) (h : anyFlt ns = false) : sumCellOld ns = .int (wrapS64 (intSum ns)) := by
  have := foldl_addSumOld_ints ns h 0
  simpa [sumCellOld, wrapS64] using this

/-- S2: merging two correct running sums gives the correct running sum of the concatenation -/
theorem addSum_sumSpec (xs ys : List Num) (h : absIntSum (xs ++ ys) < 9223372036854775808) :
    addSum exact (sumSpec xs) (sumSpec ys) = sumSpec (xs ++ ys) := by
  rw [absIntSum_append] at h
  have hx := natAbs_intSum_le xs
  have hy := natAbs_intSum_le ys
  unfold sumSpec
  rw [anyFlt_append, ratSum_append, intSum_append]
  by_cases fx : anyFlt xs <;> by_cases fy : anyFlt ys
  · simp [fx, fy, addSum]
  · have := ratSum_of_noFlt ys (by simpa using fy)
    simp [fx, fy, addSum, this]
  · have := ratSum_of_noFlt xs (by simpa using fx)
    simp [fx, fy, addSum, this]
  · simp [fx, fy, addSum, addInt_of_inRange _ _ (show (intSum xs + intSum ys).natAbs < 9223372036854775808 by omega)]

theorem sumSpec_toRat (ns : List Num) : (sumSpec ns).toRat = ratSum ns := by
  unfold sumSpec
  by_cases h : anyFlt ns
  · simp [h, Num.toRat]
  · simp [h, Num.toRat, ratSum_of_noFlt ns (by simpa using h)]

/-! ### min / max cells -/

/-- numeric value of a cell -/
def CV.rat? : CV → Option Rat
  | .int i => some (i : Rat)
  | .flt q => some q
  | _ => none

def ratVals (ns : List Num) : List Rat := ns.map Num.toRat

/-- `c` is the min cell of numeric values `xs`: not numeric when there are none, else their least element -/
def IsMinOf (c : CV) (xs : List Rat) : Prop :=
  (xs = [] ∧ c.isNumeric = false) ∨ (∃ m, c.rat? = some m ∧ m ∈ xs ∧ ∀ x ∈ xs, m ≤ x)

def IsMaxOf (c : CV) (xs : List Rat) : Prop :=
  (xs = [] ∧ c.isNumeric = false) ∨ (∃ m, c.rat? = some m ∧ m ∈ xs ∧ ∀ x ∈ xs, x ≤ m)

theorem min_attained (m b : Rat) (xs : List Rat) (hmem : m ∈ xs) (hlb : ∀ x ∈ xs, m ≤ x) :
    min m b ∈ xs ++ [b] ∧ ∀ x ∈ xs ++ [b], min m b ≤ x := by
  by_cases hle : m ≤ b
  · have e : min m b = m := by grind
    rw [e]
    refine ⟨by simp [hmem], ?_⟩
    intro y hy
    rcases List.mem_append.mp hy with hy | hy
    · exact hlb y hy
    · simp at hy; subst hy; exact hle
  · have e : min m b = b := by grind
    rw [e]
    refine ⟨by simp, ?_⟩
    intro y hy
    rcases List.mem_append.mp hy with hy | hy
    · have := hlb y hy; grind
    · simp at hy; subst hy; grind

theorem max_attained (m b : Rat) (xs : List Rat) (hmem : m ∈ xs) (hub : ∀ x ∈ xs, x ≤ m) :
    max m b ∈ xs ++ [b] ∧ ∀ x ∈ xs ++ [b], x ≤ max m b := by
  by_cases hle : b ≤ m
  · have e : max m b = m := by grind
    rw [e]
    refine ⟨by simp [hmem], ?_⟩
    intro y hy
    rcases List.mem_append.mp hy with hy | hy
    · exact hub y hy
    · simp at hy; subst hy; exact hle
  · have e : max m b = b := by grind
    rw [e]
    refine ⟨by simp, ?_⟩
    intro y hy
    rcases List.mem_append.mp hy with hy | hy
    · have := hub y hy; grind
    · simp at hy; subst hy; grind

theorem cvMin_rat_num (c : CV) (m : Rat) (x : Num) (h : c.rat? = some m) :
    (cvMin c x.toCV).rat? = some (min m x.toRat) := by
  cases c <;> cases x <;> simp_all [cvMin, reduceMinMax, Num.toCV, CV.rat?, Num.toRat, pickI, pickQ, castMin]
  all_goals (subst h; rfl)

theorem cvMax_rat_num (c : CV) (m : Rat) (x : Num) (h : c.rat? = some m) :
    (cvMax c x.toCV).rat? = some (max m x.toRat) := by
  cases c <;> cases x <;> simp_all [cvMax, reduceMinMax, Num.toCV, CV.rat?, Num.toRat, pickI, pickQ, castMax]
  all_goals (subst h; rfl)

theorem cvMin_nonnum_num (c : CV) (x : Num) (h : c.isNumeric = false) (hc : c.notBackfill) :
    (cvMin c x.toCV).rat? = some x.toRat := by
  cases c <;> cases x <;> simp_all [cvMin, reduceMinMax, Num.toCV, CV.rat?, Num.toRat, CV.isNumeric, CV.notBackfill]

theorem cvMax_nonnum_num (c : CV) (x : Num) (h : c.isNumeric = false) (hc : c.notBackfill) :
    (cvMax c x.toCV).rat? = some x.toRat := by
  cases c <;> cases x <;> simp_all [cvMax, reduceMinMax, Num.toCV, CV.rat?, Num.toRat, CV.isNumeric, CV.notBackfill]

/-- a numeric value arrives -/
theorem isMinOf_step_num (c : CV) (xs : List Rat) (x : Num) (h : IsMinOf c xs) (hc : c.notBackfill) :
    IsMinOf (cvMin c x.toCV) (xs ++ [x.toRat]) := by
  right
  rcases h with ⟨hnil, hnn⟩ | ⟨m, hm, hmem, hlb⟩
  · subst hnil
    exact ⟨x.toRat, cvMin_nonnum_num c x hnn hc, by simp, by simp⟩
  · obtain ⟨h1, h2⟩ := min_attained m x.toRat xs hmem hlb
    exact ⟨min m x.toRat, cvMin_rat_num c m x hm, h1, h2⟩

theorem isMaxOf_step_num (c : CV) (xs : List Rat) (x : Num) (h : IsMaxOf c xs) (hc : c.notBackfill) :
    IsMaxOf (cvMax c x.toCV) (xs ++ [x.toRat]) := by
  right
  rcases h with ⟨hnil, hnn⟩ | ⟨m, hm, hmem, hub⟩
  · subst hnil
    exact ⟨x.toRat, cvMax_nonnum_num c x hnn hc, by simp, by simp⟩
  · obtain ⟨h1, h2⟩ := max_attained m x.toRat xs hmem hub
    exact ⟨max m x.toRat, cvMax_rat_num c m x hm, h1, h2⟩

/-- a non-numeric cell (absent value, text) arrives: numbers beat it -/
theorem isMinOf_step_nonnum (c d : CV) (xs : List Rat) (h : IsMinOf c xs) (hc : c.notBackfill)
    (hd : d.isNumeric = false) (hdb : d.notBackfill) : IsMinOf (cvMin c d) xs := by
  rcases h with ⟨hnil, hnn⟩ | ⟨m, hm, hmem, hlb⟩
  · left
    refine ⟨hnil, ?_⟩
    cases c <;> cases d <;> simp_all [cvMin, reduceMinMax, CV.isNumeric, CV.notBackfill]
  · right
    refine ⟨m, ?_, hmem, hlb⟩
    cases c <;> cases d <;> simp_all [cvMin, reduceMinMax, CV.isNumeric, CV.notBackfill, CV.rat?]

theorem isMaxOf_step_nonnum (c d : CV) (xs : List Rat) (h : IsMaxOf c xs) (hc : c.notBackfill)
    (hd : d.isNumeric = false) (hdb : d.notBackfill) : IsMaxOf (cvMax c d) xs := by
  rcases h with ⟨hnil, hnn⟩ | ⟨m, hm, hmem, hub⟩
  · left
    refine ⟨hnil, ?_⟩
    cases c <;> cases d <;> simp_all [cvMax, reduceMinMax, CV.isNumeric, CV.notBackfill]
  · right
    refine ⟨m, ?_, hmem, hub⟩
    cases c <;> cases d <;> simp_all [cvMax, reduceMinMax, CV.isNumeric, CV.notBackfill, CV.rat?]

/-- every value is either numeric on the path (cell = its number) or contributes a non-numeric cell -/
theorem cell_cases (parse : Str → Option Rat) (v : Val) :
    (∃ x, numOf parse v = some x ∧ cellOf parse v = x.toCV) ∨
    (numOf parse v = none ∧ (cellOf parse v).isNumeric = false) := by
  cases v with
  | absent => right; simp [numOf, cellOf, CV.isNumeric]
  | int i => left; exact ⟨.int i, rfl, rfl⟩
  | flt q => left; exact ⟨.flt q, rfl, rfl⟩
  | str s =>
    cases h : parse s with
    | some f => left; exact ⟨.flt f, by simp [numOf, h], by simp [cellOf, h, Num.toCV]⟩
    | none => right; simp [numOf, cellOf, h, CV.isNumeric]

/-- the min cell of the folded statistics is the least numeric value -/
theorem minCell_isMin (parse : Str → Option Rat) (vs : List Val) :
    IsMinOf (minCell parse vs) (ratVals (nums parse vs)) := by
  induction vs using snocInd with
  | nil => left; simp [ratVals, CV.isNumeric]
  | append_singleton vs v ih =>
    rw [minCell_snoc, nums_snoc]
    rcases cell_cases parse v with ⟨x, hn, hc⟩ | ⟨hn, hc⟩
    · rw [hn, hc]
      have := isMinOf_step_num _ _ x ih (minCell_notBackfill parse vs)
      simpa [ratVals] using this
    · rw [hn]
      have := isMinOf_step_nonnum _ (cellOf parse v) _ ih (minCell_notBackfill parse vs) hc (cellOf_notBackfill parse v)
      simpa [ratVals] using this

theorem maxCell_isMax (parse : Str → Option Rat) (vs : List Val) :
    IsMaxOf (maxCell parse vs) (ratVals (nums parse vs)) := by
  induction vs using snocInd with
  | nil => left; simp [ratVals, CV.isNumeric]
  | append_singleton vs v ih =>
    rw [maxCell_snoc, nums_snoc]
    rcases cell_cases parse v with ⟨x, hn, hc⟩ | ⟨hn, hc⟩
    · rw [hn, hc]
      have := isMaxOf_step_num _ _ x ih (maxCell_notBackfill parse vs)
      simpa [ratVals] using this
    · rw [hn]
      have := isMaxOf_step_nonnum _ (cellOf parse v) _ ih (maxCell_notBackfill parse vs) hc (cellOf_notBackfill parse v)
      simpa [ratVals] using this

/-! ### cells of a concatenation, compatibility of the (min, max) pair -/

theorem minCell_append (parse : Str → Option Rat) (xs ys : List Val) :
    minCell parse (xs ++ ys) = cvMin (minCell parse xs) (minCell parse ys) := by
  induction ys using snocInd with
  | nil => simp [cvMin_invalid_right _ (minCell_notBackfill parse xs)]
  | append_singleton ys v ih =>
    rw [← List.append_assoc, minCell_snoc, minCell_snoc, ih]
    exact cvMin_assoc _ _ _ (minCell_notBackfill parse xs) (minCell_notBackfill parse ys) (cellOf_notBackfill parse v)

theorem maxCell_append (parse : Str → Option Rat) (xs ys : List Val) :
    maxCell parse (xs ++ ys) = cvMax (maxCell parse xs) (maxCell parse ys) := by
  induction ys using snocInd with
  | nil => simp [cvMax_invalid_right _ (maxCell_notBackfill parse xs)]
  | append_singleton ys v ih =>
    rw [← List.append_assoc, maxCell_snoc, maxCell_snoc, ih]
    exact cvMax_assoc _ _ _ (maxCell_notBackfill parse xs) (maxCell_notBackfill parse ys) (cellOf_notBackfill parse v)

theorem compat_cells (parse : Str → Option Rat) (vs : List Val) : Compat (minCell parse vs) (maxCell parse vs) := by
  induction vs using snocInd with
  | nil => exact compat_init
  | append_singleton vs v ih =>
    rw [minCell_snoc, maxCell_snoc]
    exact compat_step _ _ _ (minCell_notBackfill parse vs) (maxCell_notBackfill parse vs) (cellOf_notBackfill parse v) ih

/-! ### the merge of two closed forms -/

theorem mergeO_build (parse : Str → Option Rat) (xs ys : List Val)
    (hov : absIntSum (nums parse (xs ++ ys)) < 9223372036854775808) :
    mergeO exact (build parse xs) (build parse ys) = build parse (xs ++ ys) := by
  by_cases hx : present xs = 0
  · obtain ⟨h1, h2, h3⟩ := of_present_zero parse xs hx
    rw [build_of_present_zero parse xs hx]
    simp [mergeO, build, present_append, hx, nums_append, h1, minCell_append, maxCell_append, h2, h3,
      cvMin_invalid_left, cvMax_invalid_left]
  · by_cases hy : present ys = 0
    · obtain ⟨h1, h2, h3⟩ := of_present_zero parse ys hy
      rw [build_of_present_zero parse ys hy, build_of_present_pos parse xs hx]
      simp [mergeO, build, present_append, hx, hy, nums_append, h1, minCell_append, maxCell_append, h2, h3,
        cvMin_invalid_right _ (minCell_notBackfill parse xs), cvMax_invalid_right _ (maxCell_notBackfill parse xs)]
    · rw [build_of_present_pos parse xs hx, build_of_present_pos parse ys hy,
        build_of_present_pos parse (xs ++ ys) (by rw [present_append]; omega)]
      obtain ⟨c1, c2⟩ := compat_cells parse ys
      have hmin : cvMin (cvMin (minCell parse xs) (minCell parse ys)) (maxCell parse ys)
          = cvMin (minCell parse xs) (minCell parse ys) := by
        rw [cvMin_assoc _ _ _ (minCell_notBackfill parse xs) (minCell_notBackfill parse ys) (maxCell_notBackfill parse ys), c1]
      have hmax : cvMax (cvMax (maxCell parse xs) (minCell parse ys)) (maxCell parse ys)
          = cvMax (maxCell parse xs) (maxCell parse ys) := by
        rw [cvMax_assoc _ _ _ (maxCell_notBackfill parse xs) (minCell_notBackfill parse ys) (maxCell_notBackfill parse ys), c2]
      rw [nums_append] at hov
      have hovx : absIntSum (nums parse xs) < 9223372036854775808 := by rw [absIntSum_append] at hov; omega
      have hovy : absIntSum (nums parse ys) < 9223372036854775808 := by rw [absIntSum_append] at hov; omega
      have hsum : addSum exact (sumCell (nums parse xs)) (sumCell (nums parse ys)) = sumCell (nums parse xs ++ nums parse ys) := by
        rw [sumCell_eq_spec _ hovx, sumCell_eq_spec _ hovy, sumCell_eq_spec _ hov]
        exact addSum_sumSpec _ _ hov
      simp only [mergeO, SegStats.merge]
      rw [show reduceMinMax exact true (reduceMinMax exact true (minCell parse xs) (minCell parse ys)) (maxCell parse ys)
            = cvMin (minCell parse xs) (minCell parse ys) from hmin,
          show reduceMinMax exact false (reduceMinMax exact false (maxCell parse xs) (minCell parse ys)) (maxCell parse ys)
            = cvMax (maxCell parse xs) (maxCell parse ys) from hmax]
      rw [present_append, nums_append, minCell_append, maxCell_append]
      by_cases ex : (nums parse xs).isEmpty
      · have exn : nums parse xs = [] := List.isEmpty_iff.mp ex
        by_cases ey : (nums parse ys).isEmpty
        · have eyn : nums parse ys = [] := List.isEmpty_iff.mp ey
          simp [exn, eyn, mergeNum]
        · simp [exn, ey, mergeNum]
      · by_cases ey : (nums parse ys).isEmpty
        · have eyn : nums parse ys = [] := List.isEmpty_iff.mp ey
          simp [eyn, ex, mergeNum]
        · have e3 : (nums parse xs ++ nums parse ys).isEmpty = false := by
            cases hx' : nums parse xs with
            | nil => simp [hx'] at ex
            | cons a r => rfl
          simp [ex, ey, e3, mergeNum, hsum]

/-! ### the same, read as numbers: since patch c04-15 an integer sum that left int64 is a float64 cell, so two ways of
computing one sum may differ in the TYPE of the cell (int64 4611686018427387904 vs float64 4.611686018427388e18) while
they denote the same number.  `view` reads the sum cell as its rational value. -/

def NumStats.view (n : NumStats) : Nat × Rat := (n.ncount, n.sum.toRat)

def SegStats.view (s : SegStats) : Bool × Nat × CV × CV × Option (Nat × Rat) :=
  (s.isNumeric, s.count, s.min, s.max, s.num.map NumStats.view)

def oview (o : Option SegStats) : Option (Bool × Nat × CV × CV × Option (Nat × Rat)) := o.map SegStats.view

theorem mergeO_build_view (parse : Str → Option Rat) (xs ys : List Val) :
    oview (mergeO exact (build parse xs) (build parse ys)) = oview (build parse (xs ++ ys)) := by
  by_cases hx : present xs = 0
  · obtain ⟨h1, h2, h3⟩ := of_present_zero parse xs hx
    rw [build_of_present_zero parse xs hx]
    simp [oview, mergeO, build, present_append, hx, nums_append, h1, minCell_append, maxCell_append, h2, h3,
      cvMin_invalid_left, cvMax_invalid_left]
  · by_cases hy : present ys = 0
    · obtain ⟨h1, h2, h3⟩ := of_present_zero parse ys hy
      rw [build_of_present_zero parse ys hy, build_of_present_pos parse xs hx]
      simp [oview, mergeO, build, present_append, hx, hy, nums_append, h1, minCell_append, maxCell_append, h2, h3,
        cvMin_invalid_right _ (minCell_notBackfill parse xs), cvMax_invalid_right _ (maxCell_notBackfill parse xs)]
    · rw [build_of_present_pos parse xs hx, build_of_present_pos parse ys hy,
        build_of_present_pos parse (xs ++ ys) (by rw [present_append]; omega)]
      obtain ⟨c1, c2⟩ := compat_cells parse ys
      have hmin : cvMin (cvMin (minCell parse xs) (minCell parse ys)) (maxCell parse ys)
          = cvMin (minCell parse xs) (minCell parse ys) := by
        rw [cvMin_assoc _ _ _ (minCell_notBackfill parse xs) (minCell_notBackfill parse ys) (maxCell_notBackfill parse ys), c1]
      have hmax : cvMax (cvMax (maxCell parse xs) (minCell parse ys)) (maxCell parse ys)
          = cvMax (maxCell parse xs) (maxCell parse ys) := by
        rw [cvMax_assoc _ _ _ (maxCell_notBackfill parse xs) (minCell_notBackfill parse ys) (maxCell_notBackfill parse ys), c2]
      have hsum : (addSum exact (sumCell (nums parse xs)) (sumCell (nums parse ys))).toRat
          = (sumCell (nums parse xs ++ nums parse ys)).toRat := by
        rw [addSum_toRat, sumCell_toRat, sumCell_toRat, sumCell_toRat, ratSum_append]
      simp only [oview, mergeO, SegStats.merge]
      rw [show reduceMinMax exact true (reduceMinMax exact true (minCell parse xs) (minCell parse ys)) (maxCell parse ys)
            = cvMin (minCell parse xs) (minCell parse ys) from hmin,
          show reduceMinMax exact false (reduceMinMax exact false (maxCell parse xs) (minCell parse ys)) (maxCell parse ys)
            = cvMax (maxCell parse xs) (maxCell parse ys) from hmax]
      rw [present_append, nums_append, minCell_append, maxCell_append]
      by_cases ex : (nums parse xs).isEmpty
      · have exn : nums parse xs = [] := List.isEmpty_iff.mp ex
        by_cases ey : (nums parse ys).isEmpty
        · have eyn : nums parse ys = [] := List.isEmpty_iff.mp ey
          simp [exn, eyn, mergeNum, SegStats.view]
        · simp [exn, ey, mergeNum, SegStats.view]
      · by_cases ey : (nums parse ys).isEmpty
        · have eyn : nums parse ys = [] := List.isEmpty_iff.mp ey
          simp [eyn, ex, mergeNum, SegStats.view]
        · have e3 : (nums parse xs ++ nums parse ys).isEmpty = false := by
            cases hx' : nums parse xs with
            | nil => simp [hx'] at ex
            | cons a r => rfl
          simp [ex, ey, e3, mergeNum, SegStats.view, NumStats.view, hsum]


/-- merging respects the reading as numbers, on either side -/
theorem mergeO_view_congr (a a' c c' : Option SegStats) (h1 : oview a = oview a') (h2 : oview c = oview c') :
    oview (mergeO exact a c) = oview (mergeO exact a' c') := by
  cases a <;> cases a' <;> cases c <;> cases c' <;> simp_all [oview, mergeO]
  rename_i a a' c c'
  obtain ⟨an, ac, ami, ama, anum⟩ := a
  obtain ⟨an', ac', ami', ama', anum'⟩ := a'
  obtain ⟨cn, cc, cmi, cma, cnum⟩ := c
  obtain ⟨cn', cc', cmi', cma', cnum'⟩ := c'
  simp only [SegStats.view, Prod.mk.injEq] at h1 h2
  obtain ⟨rfl, rfl, rfl, rfl, hn⟩ := h1
  obtain ⟨rfl, rfl, rfl, rfl, hm⟩ := h2
  simp only [SegStats.view, SegStats.merge, Prod.mk.injEq, true_and]
  cases anum <;> cases anum' <;> cases cnum <;> cases cnum' <;> simp_all [mergeNum, NumStats.view, addSum_toRat]

end SigModel.Stats
