import SigModel.Model.Retention
namespace SigModel.Lemmas.C14
open SigModel.Retention

theorem smScanWith_allShorter (limit : Nat) (ls : List SmLine) (h : AllShorter limit ls) :
    smScanWith limit ls = (ls, false) := by
  induction ls with
  | nil => rfl
  | cons l r ih =>
    have hl : ¬ limit ≤ l.len := by
      have := h l (by simp)
      omega
    have := ih (fun x hx => h x (by simp [hx]))
    simp [smScanWith, hl, this]

theorem smScanWith_tooLong (limit : Nat) (ls : List SmLine) (h : ∃ l ∈ ls, limit ≤ l.len) :
    (smScanWith limit ls).2 = true := by
  induction ls with
  | nil => simp at h
  | cons l r ih =>
    by_cases hl : limit ≤ l.len
    · simp [smScanWith, hl]
    · have : ∃ x ∈ r, limit ≤ x.len := by
        obtain ⟨x, hx, ht⟩ := h
        simp at hx
        rcases hx with rfl | hx
        · exact absurd ht hl
        · exact ⟨x, hx, ht⟩
      simp [smScanWith, hl, ih this]

theorem smScanWith_prefix (limit : Nat) (pre post : List SmLine) (long : SmLine)
    (hp : AllShorter limit pre) (hl : limit ≤ long.len) :
    smScanWith limit (pre ++ long :: post) = (pre, true) := by
  induction pre with
  | nil => simp [smScanWith, hl]
  | cons a r ih =>
    have ha : ¬ limit ≤ a.len := by have := hp a (by simp); omega
    have := ih (fun x hx => hp x (by simp [hx]))
    simp [smScanWith, ha, this]

/-- a scan that ends without an error has delivered every line -/
theorem smScanWith_noErr (limit : Nat) (ls : List SmLine) (h : (smScanWith limit ls).2 = false) :
    (smScanWith limit ls).1 = ls := by
  induction ls with
  | nil => rfl
  | cons l r ih =>
    by_cases hl : limit ≤ l.len
    · simp [smScanWith, hl] at h
    · simp only [smScanWith, hl, if_false] at h ⊢
      simp [ih h]

theorem smScan_allShort (ls : List SmLine) (h : AllShort ls) : smScan ls = (ls, false) :=
  smScanWith_allShorter smScanLimit ls h

theorem smScan_tooLong (ls : List SmLine) (h : ∃ l ∈ ls, l.tooLong = true) : (smScan ls).2 = true := by
  apply smScanWith_tooLong
  obtain ⟨l, hl, ht⟩ := h
  exact ⟨l, hl, by simpa [SmLine.tooLong] using ht⟩

theorem allShort_filter (p : SmLine → Bool) (ls : List SmLine) (h : AllShort ls) : AllShort (ls.filter p) :=
  fun l hl => h l (List.mem_filter.mp hl).1

theorem smPreserved_eq (a : SmArgs) (ls : List SmLine) :
    smPreserved a ls = (ls.filter (·.isEntry)).filter (fun l => !a.removes l) := by
  simp [smPreserved, List.filter_filter, Bool.and_comm]

theorem smPreserved_isEntry (a : SmArgs) (ls : List SmLine) : (smPreserved a ls).filter (·.isEntry) = smPreserved a ls := by
  apply List.filter_eq_self.mpr
  intro l hl
  have := (List.mem_filter.mp hl).2
  simp at this
  exact this.1

/-- the entries listed by a file of short lines -/
theorem smEntries_short (ls : List SmLine) (h : AllShort ls) : smEntries (.lines ls) = ls.filter (·.isEntry) := by
  simp [smEntries, smScan_allShort ls h]


/-- `len(segbaseDirs) != 0` when the loop is over: a key of the map was well-formed, or (index mode) a line matched -/
def smHasDirs (a : SmArgs) (ls : List SmLine) : Bool :=
  a.anyValid || (a.index.isSome && ls.any (fun l => l.isEntry && a.removes l))

/-- what a rewrite with at least one segbase directory does to a file of short lines: exactly the
preserved lines remain (no file at all when nothing is preserved) -/
theorem smRemove_short (a : SmArgs) (ls : List SmLine) (h : AllShort ls)
    (hn : (a.nilMap && a.index.isNone) = false) (hd : smHasDirs a ls = true) :
    smEntries (smRemove a (.lines ls)).1 = smPreserved a ls := by
  unfold smRemove
  unfold smHasDirs at hd
  simp only [hn, smScan_allShort ls h, hd]
  simp only [Bool.false_eq_true, if_false, Bool.not_true]
  by_cases he : (smPreserved a ls).isEmpty = true
  · simp only [he, if_true, smEntries]
    exact (List.isEmpty_iff.mp he).symm
  · simp only [he]
    simp only [Bool.false_eq_true, if_false]
    have hs : AllShort (smPreserved a ls) := allShort_filter _ ls h
    rw [smEntries_short _ hs]
    exact smPreserved_isEntry a ls

/-- … and without one (`len(segbaseDirs) == 0`): the file is left as it is -/
theorem smRemove_noDirs (a : SmArgs) (ls : List SmLine) (h : AllShort ls) (hd : smHasDirs a ls = false) :
    (smRemove a (.lines ls)).1 = .lines ls := by
  unfold smRemove
  unfold smHasDirs at hd
  split
  · rfl
  · simp only [smScan_allShort ls h, hd]
    simp

theorem smRemove_fileShort (a : SmArgs) (f : SmFile) (h : FileShort f) : FileShort (smRemove a f).1 := by
  unfold smRemove
  split
  · exact h
  · cases f with
    | missing => exact h
    | lines ls =>
      simp only
      split
      · exact h
      · split
        · exact h
        · split
          · trivial
          · have hs : AllShort ls := h
            rw [smScan_allShort ls hs]
            exact allShort_filter _ ls hs

/-- a file with a line the scanner cannot deliver is left as it is, whatever was to be removed -/
theorem smRemove_tooLong (a : SmArgs) (ls : List SmLine) (h : ∃ l ∈ ls, l.tooLong = true) :
    (smRemove a (.lines ls)).1 = .lines ls := by
  unfold smRemove
  split
  · rfl
  · simp [smScan_tooLong ls h]

theorem smSplitAux_line (l rest acc : List Nat) (h : 10 ∉ l) :
    smSplitAux (l ++ 10 :: rest) acc = smDropCR (acc.reverse ++ l) :: smSplitAux rest [] := by
  induction l generalizing acc with
  | nil => simp [smSplitAux]
  | cons b r ih =>
    have hb : b ≠ 10 := fun e => h (by simp [e])
    have hr : 10 ∉ r := fun e => h (by simp [e])
    simp only [List.cons_append, smSplitAux, hb, if_false]
    rw [ih (b :: acc) hr]
    simp

theorem filter_union (v1 v2 : Nat → Bool) (L : List SmLine) :
    (L.filter (fun l => !v1 l.key)).filter (fun l => !v2 l.key) = L.filter (fun l => !(v1 l.key || v2 l.key)) := by
  rw [List.filter_filter]
  apply List.filter_congr
  intro l _
  simp [Bool.and_comm]

end SigModel.Lemmas.C14
