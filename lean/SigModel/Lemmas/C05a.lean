/-
C05 helper lemmas, part a: the output order `Mode.before`, the stable insertion sort `sortBy`, the two-way
`merge`, prefix/suffix splitting.  Core Lean only.
-/
import SigModel.Model.Sched
set_option linter.unusedSimpArgs false

namespace SigModel.Lemmas.C05
open SigModel.Sched

/-! ### the order -/

@[simp] theorem rf_false (a b : Nat) : (Mode.recentFirst.before a b = false) ↔ a ≤ b := by
  simp [Mode.before]
@[simp] theorem rl_false (a b : Nat) : (Mode.recentLast.before a b = false) ↔ b ≤ a := by
  simp [Mode.before]
@[simp] theorem rf_true (a b : Nat) : (Mode.recentFirst.before a b = true) ↔ b < a := by
  simp [Mode.before]
@[simp] theorem rl_true (a b : Nat) : (Mode.recentLast.before a b = true) ↔ a < b := by
  simp [Mode.before]

theorem before_irrefl (m : Mode) (a : Nat) : m.before a a = false := by
  cases m <;> simp [Mode.before]

/-- negative transitivity: "not after" composes -/
theorem nb_trans (m : Mode) {x y z : Nat} (h1 : m.before x y = false) (h2 : m.before y z = false) :
    m.before x z = false := by
  cases m <;> simp [Mode.before] at * <;> omega

theorem before_trans (m : Mode) {x y z : Nat} (h1 : m.before x y = true) (h2 : m.before y z = true) :
    m.before x z = true := by
  cases m <;> simp [Mode.before] at * <;> omega

/-- a before b, c not before b  ⟹  c not before a … the other way round: a is before b and c is not before b
does not put c before a only if …; the form used: `before a b → ¬ before c b → ¬ before c a` -/
theorem before_nb (m : Mode) {a b c : Nat} (h1 : m.before a b = true) (h2 : m.before c b = false) :
    m.before c a = false := by
  cases m <;> simp [Mode.before] at * <;> omega

theorem before_asymm (m : Mode) {a b : Nat} (h : m.before a b = true) : m.before b a = false := by
  cases m <;> simp [Mode.before] at * <;> omega

theorem nb_total (m : Mode) (a b : Nat) : m.before a b = false ∨ m.before b a = false := by
  cases m <;> simp [Mode.before] <;> omega

/-- sortedness under the mode, by a key -/
def SortedBy {α : Type} (m : Mode) (key : α → Nat) (l : List α) : Prop :=
  l.Pairwise (fun a b => m.before (key b) (key a) = false)

/-! ### insertion sort -/

theorem insertBy_perm {α : Type} (m : Mode) (key : α → Nat) (x : α) (l : List α) :
    (insertBy m key x l).Perm (x :: l) := by
  induction l with
  | nil => simp [insertBy]
  | cons y ys ih =>
    simp only [insertBy]
    split
    · exact (List.Perm.cons y ih).trans (List.Perm.swap x y ys)
    · exact List.Perm.refl _

theorem sortBy_perm {α : Type} (m : Mode) (key : α → Nat) (l : List α) : (sortBy m key l).Perm l := by
  induction l with
  | nil => simp [sortBy]
  | cons x xs ih =>
    simp only [sortBy]
    exact (insertBy_perm m key x _).trans (List.Perm.cons x ih)

theorem insertBy_sorted {α : Type} (m : Mode) (key : α → Nat) (x : α) (l : List α)
    (h : SortedBy m key l) : SortedBy m key (insertBy m key x l) := by
  induction l with
  | nil => simp [insertBy, SortedBy]
  | cons y ys ih =>
    simp only [insertBy]
    have hy := List.pairwise_cons.mp h
    split
    · rename_i hb
      refine List.pairwise_cons.mpr ⟨?_, ih hy.2⟩
      intro z hz
      have hz' := (insertBy_perm m key x ys).mem_iff.mp hz
      rcases List.mem_cons.mp hz' with rfl | hz''
      · exact before_asymm m hb
      · exact hy.1 z hz''
    · rename_i hb
      have hb' : m.before (key y) (key x) = false := by simpa using hb
      refine List.pairwise_cons.mpr ⟨?_, h⟩
      intro z hz
      rcases List.mem_cons.mp hz with rfl | hz'
      · exact hb'
      · exact nb_trans m (hy.1 z hz') hb'

theorem sortBy_sorted {α : Type} (m : Mode) (key : α → Nat) (l : List α) : SortedBy m key (sortBy m key l) := by
  induction l with
  | nil => simp [sortBy, SortedBy]
  | cons x xs ih => exact insertBy_sorted m key x _ ih

theorem mem_sortBy {α : Type} (m : Mode) (key : α → Nat) (l : List α) (x : α) : x ∈ sortBy m key l ↔ x ∈ l :=
  (sortBy_perm m key l).mem_iff

/-! ### merge -/

@[simp] theorem merge_nil_left (m : Mode) (r : List Rec) : merge m [] r = r := rfl

@[simp] theorem merge_nil_right (m : Mode) : ∀ (l : List Rec), merge m l [] = l
  | [] => rfl
  | a :: l => by
    show mergeInto m a (merge m l) [] = a :: l
    simp [mergeInto, merge_nil_right m l]

theorem merge_cons_cons (m : Mode) (a b : Rec) (l r : List Rec) :
    merge m (a :: l) (b :: r) =
      if m.before b.2 a.2 then b :: merge m (a :: l) r else a :: merge m l (b :: r) := rfl

theorem merge_perm (m : Mode) : ∀ (l r : List Rec), (merge m l r).Perm (l ++ r)
  | [], r => by simp
  | a :: l, [] => by simp
  | a :: l, b :: r => by
    rw [merge_cons_cons]
    split
    · have ih := merge_perm m (a :: l) r
      exact (List.Perm.cons b ih).trans (List.perm_middle.symm)
    · have ih := merge_perm m l (b :: r)
      exact List.Perm.cons a ih
termination_by l r => l.length + r.length

theorem mem_merge (m : Mode) (l r : List Rec) (x : Rec) : x ∈ merge m l r ↔ x ∈ l ∨ x ∈ r := by
  rw [(merge_perm m l r).mem_iff, List.mem_append]

theorem merge_sorted (m : Mode) : ∀ (l r : List Rec), SortedBy m (·.2) l → SortedBy m (·.2) r →
    SortedBy m (·.2) (merge m l r)
  | [], r, _, hr => by simpa using hr
  | a :: l, [], hl, _ => by simpa using hl
  | a :: l, b :: r, hl, hr => by
    rw [merge_cons_cons]
    have hl' := List.pairwise_cons.mp hl
    have hr' := List.pairwise_cons.mp hr
    split
    · rename_i hb
      refine List.pairwise_cons.mpr ⟨?_, merge_sorted m (a :: l) r hl hr'.2⟩
      intro z hz
      rcases (mem_merge m _ _ z).mp hz with hz | hz
      · rcases List.mem_cons.mp hz with rfl | hz
        · exact before_asymm m hb
        · exact before_nb m hb (hl'.1 z hz)
      · exact hr'.1 z hz
    · rename_i hb
      have hb' : m.before b.2 a.2 = false := by simpa using hb
      refine List.pairwise_cons.mpr ⟨?_, merge_sorted m l (b :: r) hl'.2 hr⟩
      intro z hz
      rcases (mem_merge m _ _ z).mp hz with hz | hz
      · exact hl'.1 z hz
      · rcases List.mem_cons.mp hz with rfl | hz
        · exact hb'
        · exact nb_trans m (hr'.1 z hz) hb'
termination_by l r _ _ => l.length + r.length

/-! ### prefix / suffix -/

theorem drop_takeWhile_length {α : Type} (p : α → Bool) (l : List α) :
    l.drop (l.takeWhile p).length = l.dropWhile p := by
  induction l with
  | nil => simp
  | cons x xs ih =>
    by_cases h : p x
    · simp [List.takeWhile_cons, List.dropWhile_cons, h, ih]
    · simp [List.takeWhile_cons, List.dropWhile_cons, h]

theorem mem_takeWhile_imp {α : Type} {p : α → Bool} {l : List α} {x : α} (h : x ∈ l.takeWhile p) : p x = true := by
  induction l with
  | nil => simp at h
  | cons y ys ih =>
    by_cases hy : p y
    · simp [List.takeWhile_cons, hy] at h
      rcases h with rfl | h
      · exact hy
      · exact ih h
    · simp [List.takeWhile_cons, hy] at h

/-- in a sorted list everything `dropWhile (not beyond e)` leaves is not before e -/
theorem dropWhile_bound (m : Mode) (e : Nat) (l : List Rec) (hs : SortedBy m (·.2) l) :
    ∀ x ∈ l.dropWhile (fun r => !m.before e r.2), m.before x.2 e = false := by
  induction l with
  | nil => simp
  | cons y ys ih =>
    have hy := List.pairwise_cons.mp hs
    by_cases h : m.before e y.2 = true
    · intro x hx
      have : (y :: ys).dropWhile (fun r => !m.before e r.2) = y :: ys := by
        simp [List.dropWhile_cons, h]
      rw [this] at hx
      rcases List.mem_cons.mp hx with rfl | hx
      · exact before_asymm m h
      · exact before_nb m h (hy.1 x hx)
    · have h' : m.before e y.2 = false := by simpa using h
      intro x hx
      have : (y :: ys).dropWhile (fun r => !m.before e r.2) = ys.dropWhile (fun r => !m.before e r.2) := by
        simp [List.dropWhile_cons, h']
      rw [this] at hx
      exact ih hy.2 x hx

end SigModel.Lemmas.C05
