/-
C04 statistics slice, lemmas part d:
  * the closed form depends on the string rule only through the strings that occur (`build_congr`);
  * FastParseFloat and strconv.ParseFloat compute the SAME value on every scanned numeral under exact arithmetic
    (`valFast_exact`); the fixed FastParseFloat accepts the same strings (`parseFast_eq_parseStd`), the old one also
    accepted the digit-less forms (`parse_differ_of_no_digit`);
  * the group-by bucket: number of records and the Sum cell in closed form, for every list (`foldRB_sum`).
Core Lean only.
-/
import SigModel.Lemmas.C04Sc

namespace SigModel.Stats
open SigModel.MachInt

/-! ### the string rule matters only on the strings that occur -/

def AgreeOn (p1 p2 : Str → Option Rat) (vs : List Val) : Prop := ∀ s, Val.str s ∈ vs → p1 s = p2 s

theorem numOf_congr (p1 p2 : Str → Option Rat) (v : Val) (h : ∀ s, v = .str s → p1 s = p2 s) :
    numOf p1 v = numOf p2 v ∧ cellOf p1 v = cellOf p2 v := by
  cases v with
  | absent => exact ⟨rfl, rfl⟩
  | int i => exact ⟨rfl, rfl⟩
  | flt q => exact ⟨rfl, rfl⟩
  | str s => have := h s rfl; simp [numOf, cellOf, this]

theorem build_congr (p1 p2 : Str → Option Rat) (vs : List Val) (h : AgreeOn p1 p2 vs) : build p1 vs = build p2 vs := by
  have key : nums p1 vs = nums p2 vs ∧ minCell p1 vs = minCell p2 vs ∧ maxCell p1 vs = maxCell p2 vs := by
    induction vs using snocInd with
    | nil => simp
    | append_singleton vs v ih =>
      have hv : AgreeOn p1 p2 vs := fun s hs => h s (List.mem_append_left _ hs)
      obtain ⟨i1, i2, i3⟩ := ih hv
      obtain ⟨e1, e2⟩ := numOf_congr p1 p2 v (fun s hs => h s (by simp [hs]))
      simp [i1, i2, i3, e1, e2]
  obtain ⟨k1, k2, k3⟩ := key
  simp [build, k1, k2, k3]

/-! ### the two parsers -/

theorem natCast_ne_zero_pow10 (n : Nat) : ((10 ^ n : Nat) : Rat) ≠ 0 := by
  have h0 : (10 ^ n : Nat) ≠ 0 := Nat.ne_of_gt (Nat.pow_pos (by decide))
  intro h
  have : ((10 ^ n : Nat) : Rat) = ((0 : Nat) : Rat) := by simpa using h
  exact h0 (Rat.natCast_inj.mp this)

theorem acc_cast (ds : List Nat) : ∀ a : Nat,
    ds.foldl (fun (a : Rat) (x : Nat) => exact (exact (a * 10) + (x : Rat))) (a : Rat) =
      ((ds.foldl (fun a d => a * 10 + d) a : Nat) : Rat) := by
  induction ds with
  | nil => intro a; rfl
  | cons d r ih =>
    intro a
    rw [List.foldl_cons, List.foldl_cons, ← ih (a * 10 + d)]
    simp [Rat.natCast_add, Rat.natCast_mul]

theorem divisor_cast (ds : List Nat) : ∀ k : Nat,
    ds.foldl (fun (a : Rat) (_ : Nat) => exact (a * 10)) ((10 ^ k : Nat) : Rat) = ((10 ^ (k + ds.length) : Nat) : Rat) := by
  induction ds with
  | nil => intro k; rfl
  | cons d r ih =>
    intro k
    rw [List.foldl_cons]
    have : exact (((10 ^ k : Nat) : Rat) * 10) = ((10 ^ (k + 1) : Nat) : Rat) := by
      simp [Nat.pow_succ, Rat.natCast_mul]
    rw [this, ih (k + 1)]
    congr 2
    simp [List.length_cons]; omega

theorem digits_append (fp : List Nat) : ∀ a : Nat,
    fp.foldl (fun a d => a * 10 + d) a = a * 10 ^ fp.length + digitsNat fp := by
  induction fp with
  | nil => intro a; simp [digitsNat]
  | cons d r ih =>
    intro a
    rw [List.foldl_cons, ih (a * 10 + d)]
    unfold digitsNat
    rw [List.foldl_cons, ih (0 * 10 + d)]
    simp [List.length_cons, Nat.pow_succ]
    rw [Nat.add_mul, Nat.add_assoc]
    congr 1
    rw [Nat.mul_assoc, Nat.mul_comm 10]

/-- under exact arithmetic FastParseFloat computes the exact value of every numeral it scans -/
theorem valFast_exact (d : Dec) : valFast exact d = valExact d := by
  unfold valFast valExact
  have hI : d.ip.foldl (fun (a : Rat) (x : Nat) => exact (exact (a * 10) + (x : Rat))) (0 : Rat) = ((digitsNat d.ip : Nat) : Rat) := by
    have := acc_cast d.ip 0; simpa [digitsNat] using this
  have hF : d.fp.foldl (fun (a : Rat) (x : Nat) => exact (exact (a * 10) + (x : Rat))) (0 : Rat) = ((digitsNat d.fp : Nat) : Rat) := by
    have := acc_cast d.fp 0; simpa [digitsNat] using this
  have hD : d.fp.foldl (fun (a : Rat) (_ : Nat) => exact (a * 10)) (1 : Rat) = ((10 ^ d.fp.length : Nat) : Rat) := by
    have := divisor_cast d.fp 0; simpa using this
  have hcat : digitsNat (d.ip ++ d.fp) = digitsNat d.ip * 10 ^ d.fp.length + digitsNat d.fp := by
    unfold digitsNat; rw [List.foldl_append]; exact digits_append d.fp _
  have hT := natCast_ne_zero_pow10 d.fp.length
  have hm : exact (((digitsNat d.ip : Nat) : Rat) + exact (((digitsNat d.fp : Nat) : Rat) / ((10 ^ d.fp.length : Nat) : Rat)))
      = ((digitsNat (d.ip ++ d.fp) : Nat) : Rat) / ((10 ^ d.fp.length : Nat) : Rat) := by
    rw [hcat]
    simp only [exact_apply, Rat.natCast_add, Rat.natCast_mul]
    grind
  simp only [hI, hF, hD, hm]
  cases hexp : d.exp with
  | none => rfl
  | some p =>
    obtain ⟨eneg, ed⟩ := p
    simp only
    cases eneg with
    | false =>
      simp only [Bool.false_eq_true, if_false]
      have : (0 : Int) ≤ ((digitsNat ed : Nat) : Int) := Int.natCast_nonneg _
      simp [pow10f, this]
    | true =>
      simp only [if_true]
      by_cases hz : digitsNat ed = 0
      · simp [pow10f, hz]
        grind
      · have hneg : ¬ (0 : Int) ≤ -((digitsNat ed : Nat) : Int) := by omega
        simp only [pow10f, hneg, if_false, exact_apply, Int.neg_neg, Int.toNat_natCast]
        grind

theorem parseFastOld_exact (s : Str) : parseFastOld exact s = (scanDec s).map valExact := by
  unfold parseFastOld
  cases scanDec s with
  | none => rfl
  | some d => simp [valFast_exact]

/-- the FIXED FastParseFloat and strconv.ParseFloat (decimal alphabet) agree on EVERY string under exact arithmetic -/
theorem parseFast_eq_parseStd (s : Str) : parseFast exact s = parseStd exact s := by
  unfold parseFast parseStd
  cases scanDec s with
  | none => rfl
  | some d => simp [valFast_exact]

/-- the numerals proper: at least one mantissa digit -/
def HasMantissaDigit (s : Str) : Prop := ∀ d, scanDec s = some d → ¬ (d.ip = [] ∧ d.fp = [])

/-- before the fix the two rules agreed on a string exactly when it was not a digit-less form ("-", "+", ".", "e5", …) -/
theorem parseFastOld_eq_parseStd (s : Str) (h : HasMantissaDigit s) : parseFastOld exact s = parseStd exact s := by
  rw [parseFastOld_exact]
  unfold parseStd
  cases hs : scanDec s with
  | none => rfl
  | some d =>
    have := h d hs
    simp [this]

/-- … and on a digit-less scanned form the old FastParseFloat said "number" where strconv.ParseFloat (and the fixed
FastParseFloat) says "not a number" -/
theorem parse_differ_of_no_digit (s : Str) (d : Dec) (hs : scanDec s = some d) (h0 : d.ip = [] ∧ d.fp = []) :
    (parseFastOld exact s).isSome = true ∧ parseStd exact s = none ∧ parseFast exact s = none := by
  simp [parseFastOld, parseFast, parseStd, hs, h0]

/-! ### group-by bucket: records and Sum cell in closed form -/

def rbSum (ns : List Num) : CV := if ns.isEmpty then .backfill else (sumSpec ns).toCV

theorem absIntSum_snoc_lt (ns : List Num) (x : Option Num) (h : absIntSum (ns ++ x.toList) < 9223372036854775808) :
    absIntSum ns < 9223372036854775808 := by
  rw [absIntSum_append] at h; omega

theorem sumSpec_snoc_int (ns : List Num) (i : Int) (h : absIntSum (ns ++ [.int i]) < 9223372036854775808) :
    sumStep exact (rbSum ns) (.int i) = rbSum (ns ++ [.int i]) := by
  have hlen : (ns ++ [Num.int i]).isEmpty = false := by cases ns <;> rfl
  rw [absIntSum_append] at h
  simp only [absIntSum, Num.intPart] at h
  have hb := natAbs_intSum_le ns
  unfold rbSum
  rw [hlen]
  by_cases he : ns.isEmpty
  · have : ns = [] := List.isEmpty_iff.mp he
    subst this
    simp [sumStep, sumSpec, anyFlt, Num.isFlt, intSum, Num.intPart, Num.toCV]
  · simp only [he]
    unfold sumSpec
    rw [anyFlt_append, ratSum_append, intSum_append]
    by_cases hf : anyFlt ns
    · simp [hf, sumStep, Num.toCV, anyFlt, Num.isFlt, ratSum, Num.toRat, Rat.add_zero]
    · have hw := addInt_of_inRange (intSum ns) i (by omega)
      simp [hf, sumStep, Num.toCV, anyFlt, Num.isFlt, intSum, Num.intPart, hw]

theorem sumSpec_snoc_flt (ns : List Num) (f : Rat) (h : absIntSum ns < 9223372036854775808) :
    sumStep exact (rbSum ns) (.flt f) = rbSum (ns ++ [.flt f]) := by
  have hlen : (ns ++ [Num.flt f]).isEmpty = false := by cases ns <;> rfl
  unfold rbSum
  rw [hlen]
  by_cases he : ns.isEmpty
  · have : ns = [] := List.isEmpty_iff.mp he
    subst this
    simp [sumStep, sumSpec, anyFlt, Num.isFlt, ratSum, Num.toRat, Num.toCV, Rat.add_zero]
  · simp only [he]
    unfold sumSpec
    rw [anyFlt_append, ratSum_append]
    by_cases hf : anyFlt ns
    · simp [hf, sumStep, Num.toCV, anyFlt, Num.isFlt, ratSum, Num.toRat, Rat.add_zero]
    · simp [hf, sumStep, Num.toCV, anyFlt, Num.isFlt, ratSum, Num.toRat, Rat.add_zero,
        ratSum_of_noFlt ns (by simpa using hf)]

theorem rbSum_ne_invalid (ns : List Num) : rbSum ns ≠ .invalid := by
  unfold rbSum
  by_cases he : ns.isEmpty
  · simp [he]
  · simp only [he]; cases sumSpec ns <;> simp [Num.toCV]

theorem sumStep_nonnum (ns : List Num) (e : CV) (he : e = .backfill ∨ ∃ s, e = .str s) :
    sumStep exact (rbSum ns) e = rbSum ns := by
  have := rbSum_ne_invalid ns
  rcases he with rfl | ⟨s, rfl⟩ <;> cases h : rbSum ns <;> simp_all [sumStep]

/-- the bucket after any list, for EVERY string rule `parse`: all records counted, Sum cell = the mathematical sum of the
values that are numbers under the rule (while the integer part cannot wrap), numeric count = how many there are, Count cell
= the records that have a value -/
theorem foldRBWith_sum (parse : Str → Option Rat) (vs : List Val) (h : absIntSum (nums parse vs) < 9223372036854775808) :
    (vs = [] ∧ foldRBWith parse exact vs = none) ∨
    (∃ b, foldRBWith parse exact vs = some b ∧ b.n = vs.length ∧ vs ≠ [] ∧ b.sum = rbSum (nums parse vs) ∧
      b.nc = (nums parse vs).length ∧ b.cx = present vs) := by
  induction vs using snocInd with
  | nil => left; exact ⟨rfl, rfl⟩
  | append_singleton vs v ih =>
    right
    have hstep : foldRBWith parse exact (vs ++ [v]) = stepRBWith parse exact (foldRBWith parse exact vs) v := by
      simp [foldRBWith, List.foldl_append]
    rw [nums_snoc] at h
    have hprev := absIntSum_snoc_lt _ _ h
    rw [hstep]
    have hsum : ∀ s0 : CV, s0 = rbSum (nums parse vs) → sumStep exact s0 (v.toCVWith parse) = rbSum (nums parse (vs ++ [v])) := by
      intro s0 hs0
      subst hs0
      rw [nums_snoc]
      cases v with
      | absent => simpa [numOf, Val.toCVWith] using sumStep_nonnum _ .backfill (Or.inl rfl)
      | int i => simpa [numOf, Val.toCVWith] using sumSpec_snoc_int _ i (by simpa [numOf] using h)
      | flt f => simpa [numOf, Val.toCVWith] using sumSpec_snoc_flt _ f hprev
      | str s =>
        cases hp : parse s with
        | none => simpa [numOf, Val.toCVWith, hp] using sumStep_nonnum _ (.str s) (Or.inr ⟨s, rfl⟩)
        | some q => simpa [numOf, Val.toCVWith, hp] using sumSpec_snoc_flt _ q hprev
    have hnc : ∀ k : Nat, k = (nums parse vs).length →
        k + (if (v.toCVWith parse).isNumeric then 1 else 0) = (nums parse (vs ++ [v])).length := by
      intro k hk
      subst hk
      rw [nums_snoc]
      cases v with
      | str s => cases hp : parse s <;> simp [numOf, Val.toCVWith, CV.isNumeric, hp]
      | _ => simp [numOf, Val.toCVWith, CV.isNumeric]
    have hcx : ∀ k : Nat, k = present vs → k + (if v.isAbsent then 0 else 1) = present (vs ++ [v]) := by
      intro k hk
      subst hk
      rw [present_snoc]
      cases v <;> simp [Val.isAbsent, isPresent]
    rcases ih hprev with ⟨hnil, hnone⟩ | ⟨b, hb, hn, _, hs, hc, hx⟩
    · subst hnil
      rw [hnone]
      refine ⟨_, rfl, by simp [newRB], by simp, ?_, ?_, ?_⟩
      · have := hsum .backfill (by simp [rbSum])
        simp only [Option.getD, newRB]
        rw [← this]
        cases v with
        | str s => cases hp : parse s <;> simp [sumStep, Val.toCVWith, hp]
        | _ => simp [sumStep, Val.toCVWith]
      · simp only [Option.getD, newRB]
        exact hnc 0 (by simp)
      · simp only [Option.getD, newRB]
        exact hcx 0 (by simp)
    · rw [hb]
      refine ⟨_, rfl, by simp [hn], by simp, ?_, ?_, ?_⟩
      · simp only [Option.getD]
        exact hsum b.sum hs
      · simp only [Option.getD]
        exact hnc b.nc hc
      · simp only [Option.getD]
        exact hcx b.cx hx

/-- the bucket as fixed: the string rule is FastParseFloat -/
theorem foldRB_sum (vs : List Val) (h : absIntSum (nums (parseFast exact) vs) < 9223372036854775808) :
    (vs = [] ∧ foldRB exact vs = none) ∨
    (∃ b, foldRB exact vs = some b ∧ b.n = vs.length ∧ vs ≠ [] ∧ b.sum = rbSum (nums (parseFast exact) vs) ∧
      b.nc = (nums (parseFast exact) vs).length ∧ b.cx = present vs) :=
  foldRBWith_sum (parseFast exact) vs h

theorem sumStep_toCV (x y : Num) : sumStep exact x.toCV y.toCV = (addSum exact x y).toCV := by
  cases x <;> cases y <;> simp [sumStep, addSum, Num.toCV]

/-- merging the Sum cells of two buckets gives the Sum cell of the concatenation -/
theorem sumStep_rbSum (nx ny : List Num) (h : absIntSum (nx ++ ny) < 9223372036854775808) :
    sumStep exact (rbSum nx) (rbSum ny) = rbSum (nx ++ ny) := by
  by_cases ey : ny.isEmpty
  · have : ny = [] := List.isEmpty_iff.mp ey
    subst this
    rw [List.append_nil]
    exact sumStep_nonnum nx _ (Or.inl (by simp [rbSum]))
  · by_cases ex : nx.isEmpty
    · have : nx = [] := List.isEmpty_iff.mp ex
      subst this
      simp only [List.nil_append]
      unfold rbSum
      simp only [ey, List.isEmpty_nil, if_true]
      cases sumSpec ny <;> simp [sumStep, Num.toCV]
    · have e3 : (nx ++ ny).isEmpty = false := by
        cases hx : nx with
        | nil => simp [hx] at ex
        | cons a r => rfl
      unfold rbSum
      simp only [ex, ey, e3, Bool.false_eq_true, if_false]
      rw [sumStep_toCV, addSum_sumSpec nx ny h]

/-- bucket merge: record counts, numeric counts and Count cells add up, Sum cells merge to the Sum cell of the
concatenation — every pair of lists, every string rule -/
theorem mergeRBWith_n_sum (parse : Str → Option Rat) (xs ys : List Val)
    (h : absIntSum (nums parse (xs ++ ys)) < 9223372036854775808) :
    (mergeRB exact (foldRBWith parse exact xs) (foldRBWith parse exact ys)).map (fun b => (b.n, b.sum, b.nc, b.cx)) =
      (foldRBWith parse exact (xs ++ ys)).map (fun b => (b.n, b.sum, b.nc, b.cx)) := by
  have hx : absIntSum (nums parse xs) < 9223372036854775808 := by
    rw [nums_append, absIntSum_append] at h; omega
  have hy : absIntSum (nums parse ys) < 9223372036854775808 := by
    rw [nums_append, absIntSum_append] at h; omega
  rcases foldRBWith_sum parse xs hx with ⟨rfl, hxn⟩ | ⟨a, ha, han, hxne, has, hac, hax⟩
  · rw [hxn]; simp [mergeRB]
  · rcases foldRBWith_sum parse ys hy with ⟨rfl, hyn⟩ | ⟨b, hb, hbn, hyne, hbs, hbc, hbx⟩
    · rw [hyn, ha]; simp [mergeRB, ha]
    · rcases foldRBWith_sum parse (xs ++ ys) h with ⟨hnil, _⟩ | ⟨c, hc, hcn, _, hcs, hcc, hcx⟩
      · exact absurd (List.append_eq_nil_iff.mp hnil).1 hxne
      · rw [ha, hb, hc]
        rw [nums_append] at h hcs hcc
        simp only [mergeRB, Option.map]
        rw [han, hbn, hcn, has, hbs, hcs, hac, hbc, hcc, hax, hbx, hcx, sumStep_rbSum _ _ h, List.length_append,
          List.length_append, present_append]

theorem mergeRB_n_sum (xs ys : List Val) (h : absIntSum (nums (parseFast exact) (xs ++ ys)) < 9223372036854775808) :
    (mergeRB exact (foldRB exact xs) (foldRB exact ys)).map (fun b => (b.n, b.sum, b.nc, b.cx)) =
      (foldRB exact (xs ++ ys)).map (fun b => (b.n, b.sum, b.nc, b.cx)) :=
  mergeRBWith_n_sum (parseFast exact) xs ys h

/-! ### the bucket's Sum cell read as a number: no guard (patch c04-15) -/

/-- the Sum cell `c` of a bucket that has seen the numeric values `ns`: BACKFILL when there is none, else a number cell
whose VALUE is their mathematical sum (int64 or, once the sum left int64 or a float arrived, float64) -/
def SumOK (c : CV) (ns : List Num) : Prop :=
  (ns = [] ∧ c = .backfill) ∨ (ns ≠ [] ∧ c.rat? = some (ratSum ns))

theorem addInt_toCV_rat (a i : Int) : (addInt exact a i).toCV.rat? = some ((a : Rat) + (i : Rat)) := by
  unfold addInt
  by_cases h : fitsI64 (a + i) <;> simp [h, Num.toCV, CV.rat?, Rat.intCast_add]

theorem sumStep_rat (s e : CV) (x y : Rat) (hs : s.rat? = some x) (he : e.rat? = some y) :
    (sumStep exact s e).rat? = some (x + y) := by
  cases s <;> cases e <;> simp_all [sumStep, CV.rat?]
  rename_i a i
  subst hs; subst he
  exact addInt_toCV_rat a i

theorem sumStep_SumOK_num (c : CV) (ns : List Num) (x : Num) (h : SumOK c ns) :
    SumOK (sumStep exact c x.toCV) (ns ++ [x]) := by
  right
  refine ⟨by simp, ?_⟩
  rcases h with ⟨rfl, rfl⟩ | ⟨_, hr⟩
  · cases x <;> simp [sumStep, Num.toCV, CV.rat?, ratSum, Num.toRat, Rat.add_zero]
  · have hx : x.toCV.rat? = some x.toRat := by cases x <;> rfl
    rw [sumStep_rat c x.toCV _ _ hr hx, ratSum_append]
    simp [ratSum, Rat.add_zero]

theorem sumStep_SumOK_nonnum (c : CV) (ns : List Num) (e : CV) (h : SumOK c ns)
    (he : e = .backfill ∨ ∃ s, e = .str s) : SumOK (sumStep exact c e) ns := by
  rcases h with ⟨rfl, rfl⟩ | ⟨hne, hr⟩
  · left; rcases he with rfl | ⟨s, rfl⟩ <;> simp [sumStep]
  · right
    refine ⟨hne, ?_⟩
    rcases he with rfl | ⟨s, rfl⟩ <;> cases c <;> simp_all [sumStep, CV.rat?]

/-- the bucket after any list, every string rule, NO overflow guard: records, Sum cell (as a number), numeric count, Count cell -/
theorem foldRBWith_val (parse : Str → Option Rat) (vs : List Val) :
    (vs = [] ∧ foldRBWith parse exact vs = none) ∨
    (∃ b, foldRBWith parse exact vs = some b ∧ b.n = vs.length ∧ vs ≠ [] ∧ SumOK b.sum (nums parse vs) ∧
      b.nc = (nums parse vs).length ∧ b.cx = present vs) := by
  induction vs using snocInd with
  | nil => left; exact ⟨rfl, rfl⟩
  | append_singleton vs v ih =>
    right
    have hstep : foldRBWith parse exact (vs ++ [v]) = stepRBWith parse exact (foldRBWith parse exact vs) v := by
      simp [foldRBWith, List.foldl_append]
    rw [hstep]
    have hsum : ∀ s0 : CV, SumOK s0 (nums parse vs) → SumOK (sumStep exact s0 (v.toCVWith parse)) (nums parse (vs ++ [v])) := by
      intro s0 hs0
      rw [nums_snoc]
      cases v with
      | absent => simpa [numOf, Val.toCVWith] using sumStep_SumOK_nonnum _ _ .backfill hs0 (Or.inl rfl)
      | int i => simpa [numOf, Val.toCVWith, Num.toCV] using sumStep_SumOK_num _ _ (.int i) hs0
      | flt f => simpa [numOf, Val.toCVWith, Num.toCV] using sumStep_SumOK_num _ _ (.flt f) hs0
      | str s =>
        cases hp : parse s with
        | none => simpa [numOf, Val.toCVWith, hp] using sumStep_SumOK_nonnum _ _ (.str s) hs0 (Or.inr ⟨s, rfl⟩)
        | some q => simpa [numOf, Val.toCVWith, hp, Num.toCV] using sumStep_SumOK_num _ _ (.flt q) hs0
    have hnc : ∀ k : Nat, k = (nums parse vs).length →
        k + (if (v.toCVWith parse).isNumeric then 1 else 0) = (nums parse (vs ++ [v])).length := by
      intro k hk
      subst hk
      rw [nums_snoc]
      cases v with
      | str s => cases hp : parse s <;> simp [numOf, Val.toCVWith, CV.isNumeric, hp]
      | _ => simp [numOf, Val.toCVWith, CV.isNumeric]
    have hcx : ∀ k : Nat, k = present vs → k + (if v.isAbsent then 0 else 1) = present (vs ++ [v]) := by
      intro k hk
      subst hk
      rw [present_snoc]
      cases v <;> simp [Val.isAbsent, isPresent]
    rcases ih with ⟨hnil, hnone⟩ | ⟨b, hb, hn, _, hs, hc, hx⟩
    · subst hnil
      rw [hnone]
      refine ⟨_, rfl, by simp [newRB], by simp, ?_, ?_, ?_⟩
      · have := hsum .backfill (Or.inl ⟨rfl, rfl⟩)
        simp only [Option.getD, newRB]
        have e : sumStep exact .invalid (v.toCVWith parse) = sumStep exact .backfill (v.toCVWith parse) := by
          cases v with
          | str s => cases hp : parse s <;> simp [sumStep, Val.toCVWith, hp]
          | _ => simp [sumStep, Val.toCVWith]
        rw [e]; exact this
      · simp only [Option.getD, newRB]
        exact hnc 0 (by simp)
      · simp only [Option.getD, newRB]
        exact hcx 0 (by simp)
    · rw [hb]
      refine ⟨_, rfl, by simp [hn], by simp, ?_, ?_, ?_⟩
      · simp only [Option.getD]
        exact hsum b.sum hs
      · simp only [Option.getD]
        exact hnc b.nc hc
      · simp only [Option.getD]
        exact hcx b.cx hx

/-- merging two Sum cells that are right gives a Sum cell that is right for the concatenation -/
theorem sumStep_SumOK_merge (c d : CV) (nx ny : List Num) (hc : SumOK c nx) (hd : SumOK d ny) :
    SumOK (sumStep exact c d) (nx ++ ny) := by
  rcases hd with ⟨rfl, rfl⟩ | ⟨hyne, hy⟩
  · rw [List.append_nil]; exact sumStep_SumOK_nonnum c nx .backfill hc (Or.inl rfl)
  · right
    refine ⟨by intro h; exact hyne (List.append_eq_nil_iff.mp h).2, ?_⟩
    rcases hc with ⟨rfl, rfl⟩ | ⟨_, hx⟩
    · simp only [List.nil_append]
      cases d <;> simp_all [sumStep, CV.rat?]
    · rw [sumStep_rat c d _ _ hx hy, ratSum_append]

/-- bucket merge read as numbers, every pair of lists, every string rule, no guard: record counts, numeric counts and Count
cells add up and the merged Sum cell holds the mathematical sum of the concatenation -/
theorem mergeRBWith_val (parse : Str → Option Rat) (xs ys : List Val) :
    (xs ++ ys = [] ∧ mergeRB exact (foldRBWith parse exact xs) (foldRBWith parse exact ys) = none) ∨
    (∃ m w, mergeRB exact (foldRBWith parse exact xs) (foldRBWith parse exact ys) = some m ∧
      foldRBWith parse exact (xs ++ ys) = some w ∧
      m.n = w.n ∧ m.nc = w.nc ∧ m.cx = w.cx ∧ SumOK m.sum (nums parse (xs ++ ys)) ∧ SumOK w.sum (nums parse (xs ++ ys))) := by
  rcases foldRBWith_val parse xs with ⟨rfl, hxn⟩ | ⟨a, ha, han, hxne, has, hac, hax⟩
  · rcases foldRBWith_val parse ys with ⟨rfl, hyn⟩ | ⟨b, hb, hbn, hyne, hbs, hbc, hbx⟩
    · left; exact ⟨rfl, by rw [hxn]; rfl⟩
    · right; rw [hxn, hb]; exact ⟨b, b, rfl, by simpa using hb, rfl, rfl, rfl, by simpa using hbs, by simpa using hbs⟩
  · right
    rcases foldRBWith_val parse (xs ++ ys) with ⟨hnil, _⟩ | ⟨c, hc, hcn, _, hcs, hcc, hcx⟩
    · exact absurd (List.append_eq_nil_iff.mp hnil).1 hxne
    · rcases foldRBWith_val parse ys with ⟨rfl, hyn⟩ | ⟨b, hb, hbn, hyne, hbs, hbc, hbx⟩
      · rw [ha, hyn]
        refine ⟨a, c, rfl, hc, ?_, ?_, ?_, ?_, hcs⟩
        · rw [han, hcn]; simp
        · rw [hac, hcc]; simp
        · rw [hax, hcx]; simp
        · simpa using has
      · rw [ha, hb]
        refine ⟨_, c, rfl, hc, ?_, ?_, ?_, ?_, hcs⟩
        · simp [han, hbn, hcn]
        · simp [hac, hbc, hcc, nums_append]
        · simp [hax, hbx, hcx, present_append]
        · rw [nums_append]; exact sumStep_SumOK_merge _ _ _ _ has hbs

end SigModel.Stats
