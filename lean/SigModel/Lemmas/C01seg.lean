/-
Lemmas for the multi-block part of C01 (`Model/TlvSeg.lean`): the invariant that ties the per-SEGMENT record
length (`SegSt.size`, AllSeenColumnSizes) to the records of EVERY block written so far.
-/
import SigModel.Model.TlvSeg
import SigModel.Lemmas.C01
import SigModel.Lemmas.C01b
import SigModel.Lemmas.C01d

namespace SigModel.Lemmas.C01
open SigModel.Tlv

/-- the block has at least one event that carries the column (⇔ the column has bytes in the block) -/
def hasCol (evs : List (Option Val)) : Prop := ∃ v ∈ evs, v.isSome = true

/-- every record of a block that has the column is `c` bytes long -/
def BlockLen (c : Nat) (evs : List (Option Val)) : Prop :=
  hasCol evs → ∀ v ∈ evs, (encTLV (getB v)).length = c

/-- a flushed block against the events it was filled with -/
def BlockRel (b : BlockOut) (evs : List (Option Val)) : Prop :=
  (hasCol evs → b.buf = encCol (storedVals b.mixed (evs.map getB))) ∧ (¬ hasCol evs → b.buf = [] ∧ b.mixed = false)

theorem hasCol_nil : ¬ hasCol [] := by
  rintro ⟨v, hv, _⟩
  simp at hv

theorem hasCol_append_left {a : List (Option Val)} (b : List (Option Val)) (h : hasCol a) : hasCol (a ++ b) := by
  obtain ⟨v, hv, hs⟩ := h
  exact ⟨v, by simp [hv], hs⟩

theorem sum_length_zero (done : List (List (Option Val))) (h : (done.map List.length).sum = 0) :
    ∀ evs ∈ done, evs = [] := by
  induction done with
  | nil => intro evs he; simp at he
  | cons a t ih =>
    simp only [List.map_cons, List.sum_cons] at h
    intro evs he
    simp at he
    rcases he with rfl | he
    · exact List.length_eq_zero_iff.mp (by omega)
    · exact ih (by omega) evs he

/-! ### `updateColValueSizeInAllSeenColumns` -/

theorem updSize_inconsistent (rc sz : Nat) : updSize rc (some inconsistent) sz = some inconsistent := by
  simp [updSize]

theorem updSize_ne_none (rc : Nat) (cur : Option Nat) (sz : Nat) : updSize rc cur sz ≠ none := by
  unfold updSize
  cases cur with
  | none => simp
  | some c =>
    simp only
    split
    · simp
    · split <;> simp

/-- a consistent size after an update: the reported size is it, and either it was the size before, or the column
is new to a segment that has no record yet -/
theorem updSize_cons (rc : Nat) (cur : Option Nat) (sz c : Nat) (hc : c ≠ inconsistent)
    (h : updSize rc cur sz = some c) : sz = c ∧ (cur = some c ∨ (cur = none ∧ rc = 0)) := by
  unfold updSize at h
  cases cur with
  | none =>
    simp only at h
    by_cases hr : rc > 0
    · rw [if_pos hr] at h
      exact absurd (Option.some.inj h).symm hc
    · rw [if_neg hr] at h
      exact ⟨Option.some.inj h, Or.inr ⟨rfl, by omega⟩⟩
  | some c0 =>
    simp only at h
    by_cases h1 : c0 = inconsistent
    · rw [if_pos h1] at h
      exact absurd ((Option.some.inj h).symm.trans h1) hc
    · rw [if_neg h1] at h
      by_cases h2 : c0 ≠ sz
      · rw [if_pos h2] at h
        exact absurd (Option.some.inj h).symm hc
      · rw [if_neg h2] at h
        have h3 : c0 = sz := Classical.not_not.mp h2
        have h4 : c0 = c := Option.some.inj h
        exact ⟨by omega, Or.inl (by rw [h4])⟩

/-! ### the invariant -/

structure SegInv (st : SegSt) (done : List (List (Option Val))) (cur : List (Option Val)) : Prop where
  fill : FillInv st.col cur
  seenHas : st.col.seen = true → hasCol cur
  blkRec : st.blkRec = cur.length
  rc : st.recordCount = (done.map List.length).sum + cur.length
  nblocks : st.blocks.length = done.length
  rel : ∀ p ∈ st.blocks.zip done, BlockRel p.1 p.2
  mixedInc : ∀ b ∈ st.blocks, b.mixed = true → st.size = some inconsistent
  cons : ∀ c, st.size = some c → c ≠ inconsistent →
      (∀ evs ∈ done, BlockLen c evs) ∧ (st.col.seen = true → ∀ v ∈ cur, (encTLV (getB v)).length = c)

theorem fillInv_empty : FillInv ({} : ColSt) [] :=
  ⟨fun _ => ⟨rfl, rfl, by simp⟩, fun h => by simp at h, fun h => by simp at h, by simp, fun h => by simp at h⟩

theorem segInv_init : SegInv ({} : SegSt) [] [] where
  fill := fillInv_empty
  seenHas := fun h => by simp at h
  blkRec := rfl
  rc := rfl
  nblocks := rfl
  rel := by intro p hp; simp at hp
  mixedInc := by intro b hb; simp at hb
  cons := by intro c h; simp at h

/-! ### one event -/

theorem event_col (f : Bool) (lim : Nat) (st : SegSt) (v : Option Val) :
    (st.eventWith f lim v).col = st.col.step lim st.blkRec v := rfl

theorem event_blocks (f : Bool) (lim : Nat) (st : SegSt) (v : Option Val) :
    (st.eventWith f lim v).blocks = st.blocks := rfl

theorem event_size_none_seen (f : Bool) (lim : Nat) (st : SegSt) (h : st.col.seen = true) :
    (st.eventWith f lim none).size = updSize st.recordCount st.size 1 := by
  simp [SegSt.eventWith, h]

theorem event_size_none_unseen (f : Bool) (lim : Nat) (st : SegSt) (h : st.col.seen = false) :
    (st.eventWith f lim none).size = st.size := by
  simp [SegSt.eventWith, h]

theorem event_size_some_seen (f : Bool) (lim : Nat) (st : SegSt) (x : Val) (h : st.col.seen = true) :
    (st.eventWith f lim (some x)).size = updSize st.recordCount st.size (encTLV x).length := by
  simp [SegSt.eventWith, h]

theorem event_size_some_first (f : Bool) (lim : Nat) (st : SegSt) (x : Val) (h : st.col.seen = false)
    (h0 : st.blkRec = 0) :
    (st.eventWith f lim (some x)).size = updSize st.recordCount st.size (encTLV x).length := by
  simp [SegSt.eventWith, h, h0]

/-- the fixed code: the back-filled records are reported (1 byte) before the value -/
theorem event_size_some_late (lim : Nat) (st : SegSt) (x : Val) (h : st.col.seen = false) (h0 : st.blkRec ≠ 0) :
    (st.eventWith true lim (some x)).size =
      updSize st.recordCount (updSize st.recordCount st.size 1) (encTLV x).length := by
  simp [SegSt.eventWith, h, h0]

/-- once inconsistent, always inconsistent -/
theorem event_size_inc (f : Bool) (lim : Nat) (st : SegSt) (v : Option Val) (h : st.size = some inconsistent) :
    (st.eventWith f lim v).size = some inconsistent := by
  cases v with
  | none =>
    cases hs : st.col.seen with
    | true => rw [event_size_none_seen f lim st hs, h, updSize_inconsistent]
    | false => rw [event_size_none_unseen f lim st hs, h]
  | some x =>
    cases hs : st.col.seen with
    | true => rw [event_size_some_seen f lim st x hs, h, updSize_inconsistent]
    | false =>
      by_cases h0 : st.blkRec = 0
      · rw [event_size_some_first f lim st x hs h0, h, updSize_inconsistent]
      · cases f with
        | true => rw [event_size_some_late lim st x hs h0, h, updSize_inconsistent, updSize_inconsistent]
        | false =>
          have : (st.eventWith false lim (some x)).size = updSize st.recordCount st.size (encTLV x).length := by
            simp [SegSt.eventWith, hs, h0]
          rw [this, h, updSize_inconsistent]

theorem step_seen_cases (lim : Nat) (c : ColSt) (i : Nat) (v : Option Val) (h : (c.step lim i v).seen = true) :
    c.seen = true ∨ v.isSome = true := by
  cases v with
  | some x => exact Or.inr rfl
  | none =>
    cases hs : c.seen with
    | true => exact Or.inl rfl
    | false => simp [ColSt.step, hs] at h

theorem getB_none_len : (encTLV (getB none)).length = 1 := rfl

theorem event_inv (lim : Nat) (st : SegSt) (done : List (List (Option Val))) (cur : List (Option Val))
    (v : Option Val) (inv : SegInv st done cur) : SegInv (st.event lim v) done (cur ++ [v]) := by
  have hfill : FillInv (st.col.step lim st.blkRec v) (cur ++ [v]) := by
    rw [inv.blkRec]; exact step_inv lim st.col cur v inv.fill
  refine ⟨hfill, ?_, ?_, ?_, inv.nblocks, inv.rel, ?_, ?_⟩
  · -- seenHas
    intro h
    rcases step_seen_cases lim st.col st.blkRec v h with h1 | h1
    · exact hasCol_append_left _ (inv.seenHas h1)
    · exact ⟨v, by simp, h1⟩
  · show st.blkRec + 1 = (cur ++ [v]).length
    rw [inv.blkRec]; simp
  · show st.recordCount + 1 = (done.map List.length).sum + (cur ++ [v]).length
    rw [inv.rc]; simp; omega
  · -- mixedInc
    intro b hb hm
    exact event_size_inc true lim st v (inv.mixedInc b hb hm)
  · -- cons
    intro c hsz hc
    show (∀ evs ∈ done, BlockLen c evs) ∧
      ((st.col.step lim st.blkRec v).seen = true → ∀ w ∈ cur ++ [v], (encTLV (getB w)).length = c)
    have hrcpos : cur ≠ [] → st.recordCount ≠ 0 := by
      intro hne
      have : 0 < cur.length := List.length_pos_iff.mpr hne
      rw [inv.rc]; omega
    -- the generic "seen before" argument: an update with size `sz` on a block that already has the column
    have seenCase : ∀ sz, st.col.seen = true → updSize st.recordCount st.size sz = some c →
        sz = c ∧ (∀ evs ∈ done, BlockLen c evs) ∧ ∀ w ∈ cur, (encTLV (getB w)).length = c := by
      intro sz hs hu
      obtain ⟨h1, h2⟩ := updSize_cons _ _ _ _ hc hu
      rcases h2 with h2 | ⟨_, h2⟩
      · obtain ⟨a, b⟩ := inv.cons c h2 hc
        exact ⟨h1, a, b hs⟩
      · exact absurd h2 (hrcpos (inv.fill.nonempty hs))
    cases v with
    | none =>
      cases hs : st.col.seen with
      | true =>
        have hu := hsz
        unfold SegSt.event at hu
        rw [event_size_none_seen true lim st hs] at hu
        obtain ⟨h1, a, b⟩ := seenCase 1 hs hu
        refine ⟨a, fun _ w hw => ?_⟩
        simp at hw
        rcases hw with hw | rfl
        · exact b w hw
        · rw [getB_none_len]; exact h1
      | false =>
        have hu := hsz
        unfold SegSt.event at hu
        rw [event_size_none_unseen true lim st hs] at hu
        refine ⟨(inv.cons c hu hc).1, fun h => ?_⟩
        simp [ColSt.step, hs] at h
    | some x =>
      cases hs : st.col.seen with
      | true =>
        have hu := hsz
        unfold SegSt.event at hu
        rw [event_size_some_seen true lim st x hs] at hu
        obtain ⟨h1, a, b⟩ := seenCase _ hs hu
        refine ⟨a, fun _ w hw => ?_⟩
        simp at hw
        rcases hw with hw | rfl
        · exact b w hw
        · exact h1
      | false =>
        obtain ⟨_, _, hnone⟩ := inv.fill.unseen hs
        by_cases h0 : st.blkRec = 0
        · have hu := hsz
          unfold SegSt.event at hu
          rw [event_size_some_first true lim st x hs h0] at hu
          obtain ⟨h1, h2⟩ := updSize_cons _ _ _ _ hc hu
          have hcur : cur = [] := List.length_eq_zero_iff.mp (by rw [← inv.blkRec]; exact h0)
          have hdone : ∀ evs ∈ done, BlockLen c evs := by
            rcases h2 with h2 | ⟨_, h2⟩
            · exact (inv.cons c h2 hc).1
            · intro evs he hh
              have hz : (done.map List.length).sum = 0 := by
                have := inv.rc
                omega
              rw [sum_length_zero done hz evs he] at hh
              exact absurd hh hasCol_nil
          refine ⟨hdone, fun _ w hw => ?_⟩
          subst hcur
          simp at hw
          subst hw
          exact h1
        · have hu := hsz
          unfold SegSt.event at hu
          rw [event_size_some_late lim st x hs h0] at hu
          obtain ⟨h1, h2⟩ := updSize_cons _ _ _ _ hc hu
          rcases h2 with h2 | ⟨h2, _⟩
          · obtain ⟨h3, h4⟩ := updSize_cons _ _ _ _ hc h2
            have hne : cur ≠ [] := by
              intro he
              rw [he] at inv
              exact h0 inv.blkRec
            rcases h4 with h4 | ⟨_, h4⟩
            · refine ⟨(inv.cons c h4 hc).1, fun _ w hw => ?_⟩
              simp at hw
              rcases hw with hw | rfl
              · rw [hnone w hw, getB_none_len]; exact h3
              · exact h1
            · exact absurd h4 (hrcpos hne)
          · exact absurd h2 (updSize_ne_none _ _ _)

theorem events_inv (lim : Nat) (tail : List (Option Val)) :
    ∀ (st : SegSt) (done : List (List (Option Val))) (cur : List (Option Val)), SegInv st done cur →
      SegInv (tail.foldl (fun s v => s.event lim v) st) done (cur ++ tail) := by
  induction tail with
  | nil => intro st done cur inv; simpa using inv
  | cons v t ih =>
    intro st done cur inv
    have := ih _ done (cur ++ [v]) (event_inv lim st done cur v inv)
    simpa using this

/-! ### the flush of a block -/

theorem map_getD_eq (evs : List (Option Val)) : evs.map (fun v => v.getD .backfill) = evs.map getB := rfl

theorem flush_inv (st : SegSt) (done : List (List (Option Val))) (cur : List (Option Val))
    (inv : SegInv st done cur) : SegInv (st.flush cur) (done ++ [cur]) [] := by
  have hseen_of : hasCol cur → st.col.seen = true := by
    intro hh
    cases hs : st.col.seen with
    | true => rfl
    | false =>
      obtain ⟨v, hv, hsome⟩ := hh
      rw [(inv.fill.unseen hs).2.2 v hv] at hsome
      simp at hsome
  cases hm : (st.col.seen && st.bloom && st.range) with
  | true =>
    have hs : st.col.seen = true := by
      cases h : st.col.seen <;> simp [h] at hm ⊢
    have hblocks : (st.flush cur).blocks =
        st.blocks ++ [{ mixed := true, buf := encCol (consolidate (cur.map getB)), de := 0 }] := by
      simp [SegSt.flush, hm, map_getD_eq]
    have hsize : (st.flush cur).size = some inconsistent := by simp [SegSt.flush, hm]
    refine ⟨fillInv_empty, fun h => by simp [SegSt.flush] at h, rfl, ?_, ?_, ?_, ?_, ?_⟩
    · show st.recordCount = ((done ++ [cur]).map List.length).sum + ([] : List (Option Val)).length
      rw [inv.rc]; simp
    · rw [hblocks]; simp [inv.nblocks]
    · rw [hblocks, List.zip_append inv.nblocks]
      intro p hp
      simp only [List.mem_append] at hp
      rcases hp with hp | hp
      · exact inv.rel p hp
      · simp at hp
        subst hp
        exact ⟨fun _ => by simp [storedVals], fun hn => absurd (inv.seenHas hs) hn⟩
    · intro b _ _; exact hsize
    · intro c h hc
      rw [hsize] at h
      exact absurd (Option.some.inj h).symm hc
  | false =>
    have hblocks : (st.flush cur).blocks =
        st.blocks ++ [{ mixed := false, buf := st.col.buf, de := st.col.dict.length }] := by
      simp [SegSt.flush, hm]
    have hsize : (st.flush cur).size = st.size := by simp [SegSt.flush, hm]
    refine ⟨fillInv_empty, fun h => by simp [SegSt.flush] at h, rfl, ?_, ?_, ?_, ?_, ?_⟩
    · show st.recordCount = ((done ++ [cur]).map List.length).sum + ([] : List (Option Val)).length
      rw [inv.rc]; simp
    · rw [hblocks]; simp [inv.nblocks]
    · rw [hblocks, List.zip_append inv.nblocks]
      intro p hp
      simp only [List.mem_append] at hp
      rcases hp with hp | hp
      · exact inv.rel p hp
      · simp at hp
        subst hp
        refine ⟨fun hh => ?_, fun hn => ⟨?_, rfl⟩⟩
        · simp [storedVals, inv.fill.seen (hseen_of hh)]
        · cases hs : st.col.seen with
          | true => exact absurd (inv.seenHas hs) hn
          | false => exact (inv.fill.unseen hs).1
    · intro b hb hmx
      rw [hblocks] at hb
      simp only [List.mem_append] at hb
      rw [hsize]
      rcases hb with hb | hb
      · exact inv.mixedInc b hb hmx
      · simp at hb
        subst hb
        simp at hmx
    · intro c h hc
      rw [hsize] at h
      obtain ⟨a, b⟩ := inv.cons c h hc
      refine ⟨fun evs he => ?_, fun hh => by simp [SegSt.flush] at hh⟩
      simp at he
      rcases he with he | rfl
      · exact a evs he
      · intro hh; exact b (hseen_of hh)

theorem block_inv (lim : Nat) (st : SegSt) (done : List (List (Option Val))) (evs : List (Option Val))
    (inv : SegInv st done []) : SegInv (st.blockWith true lim evs) (done ++ [evs]) [] := by
  have h := events_inv lim evs st done [] inv
  simp only [List.nil_append] at h
  exact flush_inv _ done evs h

theorem blocks_inv (lim : Nat) (seg : List (List (Option Val))) :
    ∀ (st : SegSt) (done : List (List (Option Val))), SegInv st done [] →
      SegInv (seg.foldl (fun s evs => s.blockWith true lim evs) st) (done ++ seg) [] := by
  induction seg with
  | nil => intro st done inv; simpa using inv
  | cons b t ih =>
    intro st done inv
    have := ih _ (done ++ [b]) (block_inv lim st done b inv)
    simpa using this

/-- the invariant holds after any segment has been written … -/
theorem writeSeg_inv (lim : Nat) (seg : List (List (Option Val))) : SegInv (writeSeg lim seg) seg [] := by
  have := blocks_inv lim seg {} [] segInv_init
  simpa [writeSeg, writeSegWith] using this

/-- … and while a further block is being filled -/
theorem writeSeg_open_inv (lim : Nat) (seg : List (List (Option Val))) (tail : List (Option Val)) :
    SegInv ((writeSeg lim seg).fillOpen lim tail) seg tail := by
  have := events_inv lim tail _ seg [] (writeSeg_inv lim seg)
  simpa [SegSt.fillOpen] using this

/-! ### reading a block of the segment with the advertised length -/

theorem wf_map_getB (evs : List (Option Val)) (hwf : ∀ v ∈ evs, ∀ x, v = some x → wf x) : ∀ v ∈ evs.map getB, wf v := by
  intro v hv
  simp at hv
  obtain ⟨o, ho, rfl⟩ := hv
  cases o with
  | none => simp [getB, wf]
  | some x => exact hwf _ ho x rfl

theorem segInv_read {st : SegSt} {done : List (List (Option Val))} {cur : List (Option Val)} (inv : SegInv st done cur)
    (hwf : ∀ evs ∈ done, ∀ v ∈ evs, ∀ x, v = some x → wf x)
    (j : Nat) (hj : j < done.length) (hsome : hasCol done[j]) (ns : List Nat) (hns : ∀ n ∈ ns, n < done[j].length) :
    ∃ blk, st.blocks[j]? = some blk ∧
      (storedVals blk.mixed (done[j].map getB)).length = done[j].length ∧
      blk.buf = encCol (storedVals blk.mixed (done[j].map getB)) ∧
      ∃ rd, Rd.init blk.buf st.hint = .ok rd ∧
        rd.readMany ns = ns.map (fun n => .ok (encTLV ((storedVals blk.mixed (done[j].map getB))[n]!))) := by
  have hjb : j < st.blocks.length := by rw [inv.nblocks]; exact hj
  have hmem : (st.blocks[j], done[j]) ∈ st.blocks.zip done := by
    rw [List.mem_iff_getElem]
    exact ⟨j, by simp; omega, by simp⟩
  have hrel := inv.rel _ hmem
  have hbuf := hrel.1 hsome
  simp only at hbuf
  refine ⟨st.blocks[j], by simp [hjb], ?_, hbuf, ?_⟩
  · cases st.blocks[j].mixed with
    | true => simp [storedVals, (consolidate_spec (done[j].map getB)).1]
    | false => simp [storedVals]
  have hwf' := wf_map_getB done[j] (hwf _ (List.getElem_mem hj))
  have hlen : (storedVals st.blocks[j].mixed (done[j].map getB)).length = done[j].length := by
    cases st.blocks[j].mixed with
    | true => simp [storedVals, (consolidate_spec (done[j].map getB)).1]
    | false => simp [storedVals]
  have hpos : 0 < done[j].length := by
    obtain ⟨v, hv, _⟩ := hsome
    exact List.length_pos_of_mem hv
  have hl : LenOk (storedVals st.blocks[j].mixed (done[j].map getB)) st.hint := by
    by_cases hmode : st.hint > 0 ∧ st.hint ≠ inconsistent
    · cases hsz : st.size with
      | none => simp [SegSt.hint, hsz] at hmode
      | some c =>
        have hc : st.hint = c := by simp [SegSt.hint, hsz]
        rw [hc] at hmode ⊢
        have hnm : st.blocks[j].mixed = false := by
          cases hmx : st.blocks[j].mixed with
          | false => rfl
          | true =>
            have := inv.mixedInc _ (List.getElem_mem hjb) hmx
            rw [hsz] at this
            exact absurd (Option.some.inj this) hmode.2
        rw [hnm]
        apply lenOk_const _ _ hmode
        intro v hv
        simp [storedVals] at hv
        obtain ⟨o, ho, rfl⟩ := hv
        exact (inv.cons c hsz hmode.2).1 _ (List.getElem_mem hj) hsome o ho
    · apply lenOk_scan _ _ hmode
      cases st.blocks[j].mixed with
      | true => simpa [storedVals] using (consolidate_spec (done[j].map getB)).2 hwf'
      | false => simpa [storedVals] using hwf'
  obtain ⟨rd, hinit, g⟩ := init_good hl (by omega)
  refine ⟨rd, by rw [hbuf]; exact hinit, ?_⟩
  exact readMany_good hl ns rd g (by intro n hn; rw [hlen]; exact hns n hn)

/-! ### block bookkeeping of AppendWipToSegfile -/

/-- block number = position -/
def enumBlocks (l : List Nat) : List (Nat × Nat) := l.zipIdx.map (fun p => (p.2, p.1))

theorem enumBlocks_snoc (l : List Nat) (n : Nat) : enumBlocks (l ++ [n]) = enumBlocks l ++ [(l.length, n)] := by
  simp [enumBlocks, List.zipIdx_append]

theorem enumBlocks_getElem? (l : List Nat) (b : Nat) : (enumBlocks l)[b]? = (l[b]?).map (fun n => (b, n)) := by
  simp [enumBlocks]
  cases l[b]? <;> simp

structure BlkInv (st : BlkSt) (sp : List Nat × Nat) : Prop where
  bsu : st.bsu = enumBlocks sp.1
  nb : st.numBlocks = sp.1.length
  recs : st.blkRec = sp.2

theorem blk_step (st : BlkSt) (sp : List Nat × Nat) (op : BlkOp) (inv : BlkInv st sp) :
    BlkInv (st.opWith true op) (cutStep sp op) := by
  cases op with
  | ev k => exact ⟨inv.bsu, inv.nb, by show st.blkRec + 1 = sp.2 + 1; rw [inv.recs]⟩
  | flush =>
    by_cases h0 : st.blkRec = 0
    · have h1 : sp.2 = 0 := by rw [← inv.recs]; exact h0
      simp only [BlkSt.opWith, BlkSt.flushWith, cutStep, h0, h1, if_true]
      exact inv
    · have h1 : ¬ sp.2 = 0 := by rw [← inv.recs]; exact h0
      simp only [BlkSt.opWith, BlkSt.flushWith, cutStep, h0, h1, if_false]
      refine ⟨?_, ?_, rfl⟩
      · simp [inv.bsu, inv.nb, inv.recs, enumBlocks_snoc]
      · simp [inv.nb]

theorem blk_run (ops : List BlkOp) : ∀ (st : BlkSt) (sp : List Nat × Nat), BlkInv st sp →
    BlkInv (ops.foldl (BlkSt.opWith true) st) (ops.foldl cutStep sp) := by
  induction ops with
  | nil => intro st sp inv; exact inv
  | cons op t ih => intro st sp inv; exact ih _ _ (blk_step st sp op inv)

theorem runBlk_inv (ops : List BlkOp) : BlkInv (runBlk ops) (cutBlocks ops) :=
  blk_run ops {} ([], 0) ⟨rfl, rfl, rfl⟩

end SigModel.Lemmas.C01
