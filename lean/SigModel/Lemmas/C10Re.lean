/-
C10 slice "walrecover", repairs c10-5 / c10-6 and the flush sub-steps (Model/WalRecover.lean: flushCrashed,
recoverNames, sysMetaAfterRecovery).
(F) a crash between the system calls of the flushBlock inside RecoverWALData is repaired by the next restart,
(G) a crash inside RecoverMNameWALData loses no metric name, (H) the meta entry written by a segment's rotation stays
the segment's entry.  Core Lean only.
-/
import SigModel.Lemmas.C10Rd
namespace SigModel.Lemmas.C10R
open SigModel.Wal (Dp)
open SigModel.WalRecover

/-! ### (F) flushBlock interrupted -/

theorem flushTo_flushTo (k : Key) (x v : List Dp) (d : Disk) : flushTo k v (flushTo k x d) = flushTo k v d := by
  induction d with
  | nil => simp [flushTo]
  | cons kv r ih =>
    obtain ⟨k', v'⟩ := kv
    by_cases hk : k' = k
    · simp [flushTo, hk]
    · simp [flushTo, hk, ih]

theorem flushTo_flushCrashed (m : Nat) (k : Key) (v : List Dp) (d : Disk) :
    flushTo k v (flushCrashed m k v d) = flushTo k v d := by
  unfold flushCrashed
  split
  · rfl
  · split
    · exact flushTo_flushTo k [] v d
    · exact flushTo_flushTo k v v d

/-- whatever the interrupted flush left of the block files, the second restart ends with the disk of an uninterrupted
recovery -/
theorem flush_crashed_recovery (m : Nat) (d : RawDir) (disk : Disk) :
    diskAfterFlushCrashedRecovery m d disk = applyFlushes disk (recover d) := by
  unfold diskAfterFlushCrashedRecovery recoverFlushCrashed
  cases h : recover d with
  | nil => rfl
  | cons kv rest =>
    obtain ⟨k, v⟩ := kv
    simp only [applyFlushes, List.foldl_cons]
    rw [flushTo_flushCrashed]

theorem recovery_flush_crash_safe (cap shard : Nat) (h : List Op) (m : Nat)
    (hs : (run cap shard h).seg < 18446744073709551616) (hb : (run cap shard h).blkNum < 18446744073709551616)
    (hi : (run cap shard h).walIdx < 18446744073709551616) (k : Key) :
    lookup k (diskAfterFlushCrashedRecovery m (dirAfter cap shard h) (durableBlocks cap shard h)) = specBlock cap shard h k := by
  rw [flush_crashed_recovery]
  exact recover_exact_full cap shard h hs hb hi k

/-! ### (G) RecoverMNameWALData interrupted -/

theorem writeMnm_idem (seg : Nat) (ns : List Nat) (l : List (Nat × List Nat)) :
    writeMnm seg ns (writeMnm seg ns l) = writeMnm seg ns l := by
  induction l with
  | nil => simp [writeMnm]
  | cons sv r ih =>
    obtain ⟨s, v⟩ := sv
    by_cases hs : s = seg
    · simp [writeMnm, hs]
    · simp [writeMnm, hs, ih]

def mnmLookup (seg : Nat) : List (Nat × List Nat) → Option (List Nat)
  | [] => none
  | (s, v) :: r => if s = seg then some v else mnmLookup seg r

theorem mnmLookup_writeMnm (seg : Nat) (ns : List Nat) (l : List (Nat × List Nat)) :
    mnmLookup seg (writeMnm seg ns l) = some ns := by
  induction l with
  | nil => simp [writeMnm, mnmLookup]
  | cons sv r ih =>
    obtain ⟨s, v⟩ := sv
    by_cases hs : s = seg
    · simp [writeMnm, mnmLookup, hs]
    · simp [writeMnm, mnmLookup, hs, ih]

theorem mnmLookup_writeMnm_other (seg seg' : Nat) (ns : List Nat) (l : List (Nat × List Nat)) (hne : seg' ≠ seg) :
    mnmLookup seg' (writeMnm seg ns l) = mnmLookup seg' l := by
  induction l with
  | nil => simp [writeMnm, mnmLookup, Ne.symm hne]
  | cons sv r ih =>
    obtain ⟨s, v⟩ := sv
    by_cases hs : s = seg
    · subst hs
      simp [writeMnm, mnmLookup, Ne.symm hne]
    · by_cases hs' : s = seg'
      · subst hs'
        simp [writeMnm, mnmLookup, hne]
      · simp [writeMnm, mnmLookup, hs, hs', ih]

theorem mnmNamesOf_writeMnm (seg : Nat) (ns : List Nat) (l : List (Nat × List Nat)) :
    mnmNamesOf seg (writeMnm seg ns l) = ns := by
  induction l with
  | nil => simp [writeMnm, mnmNamesOf]
  | cons sv r ih =>
    obtain ⟨s, v⟩ := sv
    by_cases hs : s = seg
    · simp [writeMnm, mnmNamesOf, hs]
    · simp [writeMnm, mnmNamesOf, hs, ih]

theorem mnmNamesOf_eq_lookup (seg : Nat) (l : List (Nat × List Nat)) :
    mnmNamesOf seg l = (mnmLookup seg l).getD [] := by
  induction l with
  | nil => rfl
  | cons sv r ih =>
    obtain ⟨s, v⟩ := sv
    by_cases hs : s = seg
    · simp [mnmNamesOf, mnmLookup, hs]
    · simp [mnmNamesOf, mnmLookup, hs, ih]

theorem mem_mergeNames (old new : List Nat) (n : Nat) : n ∈ mergeNames old new ↔ n ∈ old ∨ n ∈ new := by
  simp only [mergeNames, List.mem_append, List.mem_filter, List.contains_eq_mem, Bool.not_eq_true', decide_eq_false_iff_not]
  constructor
  · rintro (h | ⟨h, _⟩)
    · exact Or.inl h
    · exact Or.inr h
  · rintro (h | h)
    · exact Or.inl h
    · by_cases ho : n ∈ old
      · exact Or.inl ho
      · exact Or.inr ⟨h, ho⟩

/-- names that the file already has add nothing -/
theorem mergeNames_of_subset (old new : List Nat) (h : ∀ n ∈ new, n ∈ old) : mergeNames old new = old := by
  have : new.filter (fun n => !old.contains n) = [] := by
    rw [List.filter_eq_nil_iff]
    intro n hn
    simp [h n hn]
  unfold mergeNames
  rw [this, List.append_nil]

theorem mergeNames_idem (old new : List Nat) : mergeNames (mergeNames old new) new = mergeNames old new :=
  mergeNames_of_subset _ _ (fun n hn => (mem_mergeNames old new n).2 (Or.inr hn))

/-- what RecoverMNameWALData does, stated without steps: the segment's .mnm file holds the names it held before and the
names of the WAL (nothing is written for an empty WAL), the other .mnm files are untouched, the WAL is gone -/
theorem recoverNames_spec (seg : Nat) (ns : List Nat) (mnm : List (Nat × List Nat)) :
    (recoverNames seg { wal := some ns, mnm := mnm }).wal = none ∧
    (recoverNames seg { wal := some ns, mnm := mnm }).mnm =
      (if ns.isEmpty then mnm else writeMnm seg (mergeNames (mnmNamesOf seg mnm) ns) mnm) := by
  unfold recoverNames nameActions
  by_cases he : ns.isEmpty = true
  · simp [he, applyNameAct]
  · simp [he, applyNameAct]

theorem name_recovery_crash_safe (m seg : Nat) (nd : NameDisk) :
    namesAfterCrashedRecovery m seg nd = recoverNames seg nd := by
  obtain ⟨wal, mnm⟩ := nd
  cases wal with
  | none => simp [namesAfterCrashedRecovery, recoverNamesCrashed, recoverNames, nameActions]
  | some ns =>
    by_cases he : ns.isEmpty = true
    · -- steps: [delete]
      match m with
      | 0 => simp [namesAfterCrashedRecovery, recoverNamesCrashed, recoverNames, nameActions, he]
      | m + 1 => simp [namesAfterCrashedRecovery, recoverNamesCrashed, recoverNames, nameActions, he, applyNameAct]
    · -- steps: [flush, delete]
      match m with
      | 0 => simp [namesAfterCrashedRecovery, recoverNamesCrashed, recoverNames, nameActions, he]
      | 1 =>
        simp [namesAfterCrashedRecovery, recoverNamesCrashed, recoverNames, nameActions, he, applyNameAct, writeMnm_idem,
          mnmNamesOf_writeMnm, mergeNames_idem]
      | m + 2 =>
        simp [namesAfterCrashedRecovery, recoverNamesCrashed, recoverNames, nameActions, he, applyNameAct]

/-- a segment rotation that died after FlushMetricNames: the file holds ALL names of the segment, the name WAL those whose
append had completed (a subset).  Recovery leaves exactly the names of the file. -/
theorem recoverNames_after_rotation_flush (seg : Nat) (walNames allNames : List Nat) (mnm : List (Nat × List Nat))
    (hsub : ∀ n ∈ walNames, n ∈ allNames) :
    mnmLookup seg (recoverNames seg { wal := some walNames, mnm := writeMnm seg allNames mnm }).mnm = some allNames := by
  rw [(recoverNames_spec seg walNames _).2]
  by_cases he : walNames.isEmpty = true
  · simp [he, mnmLookup_writeMnm]
  · simp only [he, Bool.false_eq_true, if_false, mnmNamesOf_writeMnm, mnmLookup_writeMnm]
    rw [mergeNames_of_subset allNames walNames hsub]

/-- before the repair c10-5: the name WAL was deleted first; a restart that died right after that step lost the names -/
theorem name_recovery_old_loses :
    namesAfterCrashedRecoveryOld 1 0 { wal := some [7], mnm := [] } = { wal := none, mnm := [] } ∧
    recoverNames 0 { wal := some [7], mnm := [] } = { wal := none, mnm := [(0, [7])] } := by
  decide

/-! ### (H) the rotation entry of a segment is final -/

theorem metaEntryOf_append_nil (a b : List MetaEntry) (shard seg : Nat)
    (hb : b.filter (fun x => x.shard == shard && x.seg == seg) = []) :
    metaEntryOf (a ++ b) shard seg = metaEntryOf a shard seg := by
  unfold metaEntryOf
  rw [List.filter_append, hb, List.append_nil]

theorem meta_rotation_entry_final (s : Sys) (shard seg : Nat)
    (hrot : (s.metaFile.filter (fun x => x.shard == shard && x.seg == seg)) ≠ []) :
    metaEntryOf (sysMetaAfterRecovery s) shard seg = metaEntryOf s.metaFile shard seg := by
  unfold sysMetaAfterRecovery
  apply metaEntryOf_append_nil
  rw [List.filter_filter]
  apply List.filter_eq_nil_iff.mpr
  intro e _ hp
  simp only [Bool.and_eq_true, Bool.not_eq_eq_eq_not, Bool.not_true, beq_iff_eq] at hp
  obtain ⟨⟨hsh, hsg⟩, hno⟩ := hp
  apply hrot
  apply List.filter_eq_nil_iff.mpr
  intro x hx hpx
  simp only [Bool.and_eq_true, beq_iff_eq] at hpx
  have : hasMetaEntry s.metaFile e = true := by
    unfold hasMetaEntry
    rw [List.any_eq_true]
    exact ⟨x, hx, by simp [hpx.1, hpx.2, hsh, hsg]⟩
  rw [this] at hno
  exact Bool.noConfusion hno

/-- a segment without an entry in the file gets the WAL's entry -/
theorem meta_wal_entry_recovered (s : Sys) (shard seg : Nat)
    (hrot : (s.metaFile.filter (fun x => x.shard == shard && x.seg == seg)) = []) :
    metaEntryOf (sysMetaAfterRecovery s) shard seg = metaEntryOf s.metaWal shard seg := by
  unfold sysMetaAfterRecovery metaEntryOf
  rw [List.filter_append, hrot, List.nil_append, List.filter_filter]
  congr 1
  apply List.filter_congr
  intro e _
  by_cases hp : (e.shard == shard && e.seg == seg) = true
  · have hno : hasMetaEntry s.metaFile e = false := by
      unfold hasMetaEntry
      rw [Bool.eq_false_iff]
      intro hany
      rw [List.any_eq_true] at hany
      obtain ⟨x, hx, hxe⟩ := hany
      simp only [Bool.and_eq_true, beq_iff_eq] at hxe hp
      have : x ∈ s.metaFile.filter (fun x => x.shard == shard && x.seg == seg) := by
        rw [List.mem_filter]
        exact ⟨hx, by simp [hxe.1, hxe.2, hp.1, hp.2]⟩
      rw [hrot] at this
      exact List.not_mem_nil this
    simp [hp, hno]
  · simp [hp]

/-- the history of the former finding: ingest, meta-WAL write, more ingest, segment rotation, crash -/
def hMeta : List SysOp :=
  [.shard 0 (.ingest 0 ⟨1, 1, 0⟩ false), .metaFlush, .shard 0 (.ingest 0 ⟨50, 1, 0⟩ false), .shard 0 .segRotate]

theorem hMeta_old_stale :
    metaEntryOf (sysMetaAfterRecoveryOld (sysRun 1000 1 hMeta)) 0 0 = some ⟨0, 0, 0, 1⟩ ∧
    metaEntryOf (sysRun 1000 1 hMeta).metaFile 0 0 = some ⟨0, 0, 1, 2⟩ ∧
    metaEntryOf (sysMetaAfterRecovery (sysRun 1000 1 hMeta)) 0 0 = some ⟨0, 0, 1, 2⟩ := by
  decide +kernel

end SigModel.Lemmas.C10R
