/-
C10 slice "walrecover": the REPAIRED recovery (Model/WalRecover.lean: groups, hasFirstWal, recover, recoverActions).
(A) walFileIndex parses the index back, (B) the sort restores the creation order, (C) recovery = specification without
a bound on the number of WAL files, (D) crash inside rotateBlock, (E) crash inside RecoverWALData.  Core Lean only.
-/
import SigModel.Lemmas.C10Rc
namespace SigModel.Lemmas.C10R
open SigModel.Wal (Dp)
open SigModel.WalRecover

/-! ### (A) walFileIndex -/

theorem takeWhile_stop {α : Type} (p : α → Bool) (a b : List α) (c : α) (ha : ∀ x ∈ a, p x = true) (hc : p c = false) :
    (a ++ c :: b).takeWhile p = a := by
  rw [List.takeWhile_append_of_pos ha, List.takeWhile_cons, hc]
  simp

theorem stripWal_append (x : List Char) : stripWal (x ++ ".wal".toList) = x := by
  unfold stripWal
  have h : ".wal".toList.isSuffixOf (x ++ ".wal".toList) = true := by
    rw [List.isSuffixOf_iff_suffix]; exact List.suffix_append _ _
  rw [if_pos h]
  apply List.take_left'
  rw [List.length_append, c_wal]
  simp

theorem afterLastU_append (p d : List Char) (hd : '_' ∉ d) : afterLastU (p ++ '_' :: d) = d := by
  unfold afterLastU
  have e : (p ++ '_' :: d).reverse = d.reverse ++ '_' :: p.reverse := by
    simp only [List.reverse_append, List.reverse_cons, List.append_assoc, List.singleton_append]
  rw [e, takeWhile_stop _ _ _ _ _ (by decide), List.reverse_reverse]
  intro x hx
  have hx' : x ∈ d := List.mem_reverse.mp hx
  have : x ≠ '_' := fun e => hd (e ▸ hx')
  simpa using this

theorem walIndexOf_shape (a d : List Char) (n : Nat) (hd : '_' ∉ d) (hp : parseUint d = some n) :
    walIndexOf (a ++ '_' :: (d ++ ".wal".toList)) = n := by
  have e : a ++ '_' :: (d ++ ".wal".toList) = (a ++ '_' :: d) ++ ".wal".toList := (List.append_assoc a ('_' :: d) _).symm
  unfold walIndexOf
  rw [e, stripWal_append, afterLastU_append _ _ hd, hp]
  rfl

/-- the index of a file name the writer produced is parsed back (walFileIndex) -/
theorem walIndexOf_render (f : WalName) (h : f.idx < 18446744073709551616) : walIndexOf (render f) = f.idx := by
  unfold render
  exact walIndexOf_shape _ _ _ (dec_noU _) (parseUint_dec _ h)

/-! ### (B) sort.SliceStable by walFileIndex -/

def leIx (a b : RawFile) : Prop := walIndexOf a.1 ≤ walIndexOf b.1
def ltIx (a b : RawFile) : Prop := walIndexOf a.1 < walIndexOf b.1

theorem perm_insertByIndex (x : RawFile) (l : List RawFile) : (insertByIndex x l).Perm (x :: l) := by
  induction l with
  | nil => exact List.Perm.refl _
  | cons z zs ih =>
    unfold insertByIndex
    split
    · exact (List.Perm.cons z ih).trans (List.Perm.swap x z zs)
    · exact List.Perm.refl _

theorem perm_sortByIndex (l : List RawFile) : (sortByIndex l).Perm l := by
  induction l with
  | nil => exact List.Perm.refl _
  | cons x l ih =>
    have : sortByIndex (x :: l) = insertByIndex x (sortByIndex l) := rfl
    rw [this]
    exact (perm_insertByIndex x _).trans (List.Perm.cons x ih)

theorem mem_sortByIndex (f : RawFile) (l : List RawFile) : f ∈ sortByIndex l ↔ f ∈ l := (perm_sortByIndex l).mem_iff

theorem sorted_insertByIndex (x : RawFile) (l : List RawFile) (h : l.Pairwise leIx) : (insertByIndex x l).Pairwise leIx := by
  induction l with
  | nil => simp [insertByIndex]
  | cons y ys ih =>
    rw [List.pairwise_cons] at h
    unfold insertByIndex
    split
    · rename_i hlt
      rw [List.pairwise_cons]
      refine ⟨?_, ih h.2⟩
      intro z hz
      rcases (List.mem_cons.mp ((perm_insertByIndex x ys).mem_iff.mp hz)) with e | hz
      · subst e; exact Nat.le_of_lt hlt
      · exact h.1 z hz
    · rename_i hge
      rw [List.pairwise_cons]
      refine ⟨?_, List.pairwise_cons.mpr h⟩
      intro z hz
      have hxy : walIndexOf x.1 ≤ walIndexOf y.1 := Nat.le_of_not_lt hge
      rcases List.mem_cons.mp hz with e | hz
      · subst e; exact hxy
      · exact Nat.le_trans hxy (h.1 z hz)

theorem sorted_sortByIndex (l : List RawFile) : (sortByIndex l).Pairwise leIx := by
  induction l with
  | nil => exact List.Pairwise.nil
  | cons x l ih => exact sorted_insertByIndex x _ ih

theorem ix_inj_of_pairwise (l : List RawFile) (h : l.Pairwise ltIx) :
    ∀ a ∈ l, ∀ b ∈ l, walIndexOf a.1 = walIndexOf b.1 → a = b := by
  induction l with
  | nil => intro a ha; cases ha
  | cons x l ih =>
    rw [List.pairwise_cons] at h
    intro a ha b hb e
    rcases List.mem_cons.mp ha with ea | ha <;> rcases List.mem_cons.mp hb with eb | hb
    · rw [ea, eb]
    · rw [ea] at e; have := h.1 b hb; unfold ltIx at this; omega
    · rw [eb] at e; have := h.1 a ha; unfold ltIx at this; omega
    · exact ih h.2 a ha b hb e

/-- sorting a permutation of a list with strictly increasing indices gives that list -/
theorem sortByIndex_eq (l l' : List RawFile) (hp : l.Perm l') (hs : l'.Pairwise ltIx) : sortByIndex l = l' := by
  have hp' : (sortByIndex l).Perm l' := (perm_sortByIndex l).trans hp
  apply List.Perm.eq_of_pairwise (le := leIx) _ (sorted_sortByIndex l) (hs.imp (fun h => Nat.le_of_lt h)) hp'
  intro a b ha hb h1 h2
  exact ix_inj_of_pairwise l' hs a (hp'.mem_iff.mp ha) b hb (Nat.le_antisymm h1 h2)

theorem groupsOld_same (i : Info) (d : RawDir) (hne : d ≠ []) (hp : ∀ f ∈ d, parseName f.1 = some i) :
    groupsOld d = [{ info := i, files := readDir d }] := by
  unfold groupsOld
  have hp' : ∀ f ∈ readDir d, parseName f.1 = some i := fun f hf => hp f ((mem_readDir _ _).mp hf)
  cases hr : readDir d with
  | nil =>
    have := (perm_readDir d).length_eq
    rw [hr] at this
    exact absurd (List.length_eq_zero_iff.mp this.symm) hne
  | cons f l =>
    rw [hr] at hp'
    exact groupsOfSorted_same _ f l hp'

/-- one info, strictly increasing indices: one group, files in that order -/
theorem groups_same (i : Info) (d : RawDir) (hne : d ≠ []) (hp : ∀ f ∈ d, parseName f.1 = some i) (hs : d.Pairwise ltIx) :
    groups d = [{ info := i, files := d }] := by
  unfold groups
  rw [groupsOld_same i d hne hp]
  simp only [List.map_cons, List.map_nil]
  rw [sortByIndex_eq _ _ (perm_readDir d) hs]

theorem rawOf_ne_nil (st : WState) (hinv : Inv st) : rawOf st.files ≠ [] := by
  intro e
  exact files_ne_nil st hinv (List.map_eq_nil_iff.mp e)

theorem mem_rawOf_name (st : WState) (hinv : Inv st) (f : RawFile) (hf : f ∈ rawOf st.files) :
    ∃ i, i < st.walIdx + 1 ∧ f.1 = render { shard := st.shard, seg := st.seg, blk := st.blkNum, idx := i } := by
  unfold rawOf at hf
  rw [List.mem_map] at hf
  obtain ⟨g, hg, e⟩ := hf
  obtain ⟨i, hi, hn⟩ := mem_files_name st hinv g hg
  subst e
  exact ⟨i, hi, by simp only [hn]⟩

theorem rawOf_ix_sorted (st : WState) (hinv : Inv st) (hi : st.walIdx < 18446744073709551616) :
    (rawOf st.files).Pairwise ltIx := by
  have h1 : (rawOf st.files).map (·.1) =
      (List.range (st.walIdx + 1)).map (fun i => render { shard := st.shard, seg := st.seg, blk := st.blkNum, idx := i }) := by
    have : (rawOf st.files).map (·.1) = (st.files.map (·.1)).map render := by
      simp [rawOf, List.map_map, Function.comp_def]
    rw [this, hinv.names, List.map_map]
    rfl
  have h2 : ((rawOf st.files).map (·.1)).Pairwise (fun a b => walIndexOf a < walIndexOf b) := by
    rw [h1, List.pairwise_map]
    refine List.Pairwise.imp_of_mem ?_ List.pairwise_lt_range
    intro a b ha hb hab
    have ha' := List.mem_range.mp ha
    have hb' := List.mem_range.mp hb
    rw [walIndexOf_render _ (show a < 18446744073709551616 by omega),
      walIndexOf_render _ (show b < 18446744073709551616 by omega)]
    exact hab
  rw [List.pairwise_map] at h2
  exact h2

/-- after the repair c10-1: the single group of the writer's directory holds the files in CREATION order, however many -/
theorem groups_writer_full (st : WState) (hinv : Inv st) (hs : st.seg < 18446744073709551616)
    (hb : st.blkNum < 18446744073709551616) (hi : st.walIdx < 18446744073709551616) :
    groups (rawOf st.files) = [{ info := infoOf st, files := rawOf st.files }] :=
  groups_same _ _ (rawOf_ne_nil st hinv) (parse_rawOf st hinv hs hb) (rawOf_ix_sorted st hinv hi)

theorem replay_in_order_full (cap shard : Nat) (h : List Op)
    (hs : (run cap shard h).seg < 18446744073709551616) (hb : (run cap shard h).blkNum < 18446744073709551616)
    (hi : (run cap shard h).walIdx < 18446744073709551616) :
    (groups (dirAfter cap shard h)).map (·.files) = [dirAfter cap shard h] := by
  unfold dirAfter
  rw [groups_writer_full _ (inv_run cap shard h) hs hb hi]
  rfl

theorem groups_keys_nodup_full (d : RawDir) : ((groups d).map (fun g => g.info.key)).Nodup := by
  have : (groups d).map (fun g => g.info.key) = (groupsOld d).map (fun g => g.info.key) := by
    unfold groups
    rw [List.map_map]
    rfl
  rw [this]
  exact groups_keys_nodup d

theorem recover_length_le_full (d : RawDir) : (recover d).length ≤ (groups d).length :=
  List.length_filterMap_le _ _

/-! ### (C) recovery = specification -/

theorem hasFirstWal_of_zero (i : Info) (d : RawDir) (hs : d.Pairwise ltIx) (f : RawFile) (hf : f ∈ d)
    (h0 : walIndexOf f.1 = 0) : hasFirstWal { info := i, files := d } = true := by
  cases d with
  | nil => cases hf
  | cons x xs =>
    show (walIndexOf x.1 == 0) = true
    rcases List.mem_cons.mp hf with e | hf
    · rw [← e, h0]; rfl
    · have := (List.pairwise_cons.mp hs).1 f hf
      unfold ltIx at this
      omega

theorem zero_mem_rawOf (st : WState) (hinv : Inv st) :
    ∃ f ∈ rawOf st.files, f.1 = render { shard := st.shard, seg := st.seg, blk := st.blkNum, idx := 0 } := by
  have : ({ shard := st.shard, seg := st.seg, blk := st.blkNum, idx := 0 } : WalName) ∈ st.files.map (·.1) := by
    rw [hinv.names]
    exact List.mem_map.mpr ⟨0, List.mem_range.mpr (Nat.succ_pos _), rfl⟩
  obtain ⟨g, hg, e⟩ := List.mem_map.mp this
  refine ⟨(render g.1, g.2), List.mem_map.mpr ⟨g, hg, rfl⟩, ?_⟩
  show render g.1 = _
  rw [e]

theorem hasFirstWal_writer (st : WState) (hinv : Inv st) (hi : st.walIdx < 18446744073709551616) :
    hasFirstWal { info := infoOf st, files := rawOf st.files } = true := by
  obtain ⟨f, hf, e⟩ := zero_mem_rawOf st hinv
  apply hasFirstWal_of_zero _ _ (rawOf_ix_sorted st hinv hi) f hf
  rw [e]
  exact walIndexOf_render _ (by show (0 : Nat) < 18446744073709551616; omega)

theorem recover_writer_full (st : WState) (hinv : Inv st) (hs : st.seg < 18446744073709551616)
    (hb : st.blkNum < 18446744073709551616) (hi : st.walIdx < 18446744073709551616) :
    recover (rawOf st.files) = if (logged st).isEmpty then [] else [(curKey st, logged st)] := by
  unfold recover
  rw [groups_writer_full st hinv hs hb hi]
  have hf := hasFirstWal_writer st hinv hi
  have hd : groupDps { info := infoOf st, files := rawOf st.files } = logged st := flatMap_rawOf st.files
  by_cases he : (logged st).isEmpty = true
  · have he' : logged st = [] := List.isEmpty_iff.mp he
    simp [hf, hd, he']
  · have he' : logged st ≠ [] := fun e => he (List.isEmpty_iff.mpr e)
    simp [hf, hd, he, he']
    rfl

theorem recover_only_open_block_full (cap shard : Nat) (h : List Op)
    (hs : (run cap shard h).seg < 18446744073709551616) (hb : (run cap shard h).blkNum < 18446744073709551616)
    (hi : (run cap shard h).walIdx < 18446744073709551616) :
    (recover (dirAfter cap shard h)).length ≤ 1 ∧ ∀ kv ∈ recover (dirAfter cap shard h), kv.1 = openKey cap shard h := by
  unfold dirAfter
  rw [recover_writer_full _ (inv_run cap shard h) hs hb hi]
  have hk : curKey (run cap shard h) = openKey cap shard h := by
    unfold curKey openKey; rw [shard_run]
  split
  · simp
  · simp [hk]

/-- the main theorem at full strength (no bound on the number of WAL files) -/
theorem recover_exact_full (cap shard : Nat) (h : List Op)
    (hs : (run cap shard h).seg < 18446744073709551616) (hb : (run cap shard h).blkNum < 18446744073709551616)
    (hi : (run cap shard h).walIdx < 18446744073709551616) (k : Key) :
    lookup k (diskAfterRecovery cap shard h) = specBlock cap shard h k := by
  have hr := R_run cap shard h
  unfold diskAfterRecovery durableBlocks dirAfter
  rw [recover_writer_full _ (inv_run cap shard h) hs hb hi, lookup_after hr]
  split
  · rename_i hk
    rw [hk]; exact hr.doneCur.symm
  · rfl

/-! ### directories that recover nothing -/

theorem groups_files_full (Q : RawFile → Prop) (d : RawDir) (hd : ∀ f ∈ d, Q f) : ∀ g ∈ groups d, ∀ x ∈ g.files, Q x := by
  intro g hg x hx
  unfold groups at hg
  obtain ⟨g', hg', e⟩ := List.mem_map.mp hg
  subst e
  exact groups_files Q d hd g' hg' x ((mem_sortByIndex _ _).mp hx)

theorem recover_no_dps_full (d : RawDir) (hd : ∀ f ∈ d, fileDps f = []) : recover d = [] := by
  unfold recover
  rw [List.filterMap_eq_nil_iff]
  intro g hg
  have : groupDps g = [] := by
    unfold groupDps
    rw [List.flatMap_eq_nil_iff]
    exact groups_files_full (fun f => fileDps f = []) d hd g hg
  simp [this]

/-- repair c10-3: no file with index 0 in the directory: nothing is replayed -/
theorem recover_skips (d : RawDir) (h0 : ∀ f ∈ d, walIndexOf f.1 ≠ 0) : recover d = [] := by
  unfold recover
  rw [List.filterMap_eq_nil_iff]
  intro g hg
  have hq := groups_files_full (fun f => walIndexOf f.1 ≠ 0) d h0 g hg
  cases hfs : g.files with
  | nil =>
    have : groupDps g = [] := by unfold groupDps; rw [hfs]; rfl
    simp [this]
  | cons x xs =>
    have hx : walIndexOf x.1 ≠ 0 := hq x (by rw [hfs]; simp)
    have : hasFirstWal g = false := by
      unfold hasFirstWal; rw [hfs]; simpa using hx
    simp [this]

theorem pairwise_drop_ne_zero (d : RawDir) (hs : d.Pairwise ltIx) (j : Nat) (hj : 0 < j) :
    ∀ f ∈ d.drop j, walIndexOf f.1 ≠ 0 := by
  intro f hf
  cases d with
  | nil => simp at hf
  | cons x xs =>
    cases j with
    | zero => omega
    | succ j =>
      rw [List.drop_succ_cons] at hf
      have := (List.pairwise_cons.mp hs).1 f (List.mem_of_mem_drop hf)
      unfold ltIx at this
      omega

/-! ### (D) crash inside rotateBlock -/

/-- block files after: the writer dies inside a block-rotation pass after `m` steps, restart recovers completely (repaired recovery) -/
def diskAfterRotateCrash (cap shard : Nat) (h : List Op) (m : Nat) : Disk :=
  let st := blockRotateCrash m (run cap shard h)
  applyFlushes st.durable (recover (rawOf st.files))

theorem block_rotation_crash_safe (cap shard : Nat) (h : List Op) (m : Nat)
    (hs : (run cap shard h).seg < 18446744073709551616) (hb : (run cap shard h).blkNum < 18446744073709551616)
    (hi : (run cap shard h).walIdx < 18446744073709551616) (k : Key) :
    specBlock cap shard h k <+: lookup k (diskAfterRotateCrash cap shard h m) := by
  have hr := R_run cap shard h
  have hinv := inv_run cap shard h
  have hex : specBlock cap shard h k <+:
      lookup k (applyFlushes (run cap shard h).durable (recover (rawOf (run cap shard h).files))) := by
    have := recover_exact_full cap shard h hs hb hi k
    unfold diskAfterRecovery durableBlocks dirAfter at this
    rw [this]
    exact List.prefix_refl _
  unfold diskAfterRotateCrash blockRotateCrash
  by_cases he : (run cap shard h).cur.isEmpty = true
  · rw [if_pos he]
    exact hex
  · rw [if_neg he]
    unfold rotateBlockCrashed
    by_cases h0 : m = 0
    · simp only [if_pos h0]
      exact hex
    · simp only [if_neg h0]
      show blockOf (specRun cap shard h).done k <+: _
      by_cases hle : m ≤ (run cap shard h).files.length + 1
      · rw [if_pos hle]
        show blockOf (specRun cap shard h).done k <+:
          lookup k (applyFlushes (flushTo (curKey (run cap shard h)) (run cap shard h).cur (run cap shard h).durable)
            (recover (rawOf (List.drop (m - 1) (run cap shard h).files))))
        by_cases h1 : m = 1
        · subst h1
          rw [show (1 - 1 : Nat) = 0 from rfl, List.drop_zero, recover_writer_full _ hinv hs hb hi]
          by_cases hx : (logged (run cap shard h)).isEmpty = true
          · rw [if_pos hx]
            exact prefix_after_flush hr k
          · rw [if_neg hx]
            simp only [applyFlushes, List.foldl_cons, List.foldl_nil]
            by_cases hk : k = curKey (run cap shard h)
            · rw [hk, lookup_flushTo_self, hr.doneCur]
              exact List.prefix_refl _
            · rw [lookup_flushTo_ne _ _ _ _ hk, lookup_flushTo_ne _ _ _ _ hk, hr.doneOld k hk]
              exact List.prefix_refl _
        · have hrec : recover (rawOf (List.drop (m - 1) (run cap shard h).files)) = [] := by
            apply recover_skips
            have : rawOf (List.drop (m - 1) (run cap shard h).files) = List.drop (m - 1) (rawOf (run cap shard h).files) := by
              unfold rawOf; exact List.map_drop
            rw [this]
            exact pairwise_drop_ne_zero _ (rawOf_ix_sorted _ hinv hi) _ (by omega)
          rw [hrec]
          exact prefix_after_flush hr k
      · rw [if_neg hle]
        have hrec : recover (rawOf (rotateBlock (run cap shard h)).files) = [] := by
          apply recover_no_dps_full
          intro f hf
          have : (rotateBlock (run cap shard h)).files =
              [({ shard := (run cap shard h).shard, seg := (run cap shard h).walSeg, blk := (run cap shard h).walBlk + 1,
                  idx := 0 }, [])] := rfl
          rw [this] at hf
          simp only [rawOf, List.map_cons, List.map_nil, List.mem_singleton] at hf
          subst hf
          rfl
        rw [hrec, rb_durable]
        exact prefix_after_flush hr k

/-! ### (E) crash inside RecoverWALData -/

theorem recoverActions_writer_full (st : WState) (hinv : Inv st) (hs : st.seg < 18446744073709551616)
    (hb : st.blkNum < 18446744073709551616) (hi : st.walIdx < 18446744073709551616) :
    recoverActions (rawOf st.files) =
      (if (logged st).isEmpty then [] else [RecAction.flush (curKey st) (logged st)])
        ++ (rawOf st.files).map (fun f => RecAction.delete f.1) := by
  unfold recoverActions
  rw [groups_writer_full st hinv hs hb hi]
  have hf := hasFirstWal_writer st hinv hi
  have hd : groupDps { info := infoOf st, files := rawOf st.files } = logged st := flatMap_rawOf st.files
  simp only [List.flatMap_cons, List.flatMap_nil, List.append_nil, hd, hf]
  by_cases he : (logged st).isEmpty = true
  · simp [he]
  · simp [he, curKey, infoOf]

theorem zero_in_take (d : RawDir) (hs : d.Pairwise ltIx) (f : RawFile) (hf : f ∈ d) (h0 : walIndexOf f.1 = 0) (j : Nat) :
    f ∈ d.take (j + 1) := by
  cases d with
  | nil => cases hf
  | cons x xs =>
    rw [List.take_succ_cons]
    rcases List.mem_cons.mp hf with e | hf
    · rw [e]; exact List.mem_cons_self
    · have := (List.pairwise_cons.mp hs).1 f hf
      unfold ltIx at this
      omega

theorem lookup_flush_logged {st : WState} {sp : Spec} (hr : R st sp) (D : Disk)
    (hD : ∀ k, k ≠ curKey st → lookup k D = blockOf sp.done k) (k : Key) :
    lookup k (flushTo (curKey st) (logged st) D) = blockOf sp.done k := by
  by_cases hk : k = curKey st
  · rw [hk, lookup_flushTo_self, hr.doneCur]
  · rw [lookup_flushTo_ne _ _ _ _ hk, hD k hk]

theorem crashed_recovery_lookup {st : WState} {sp : Spec} (hr : R st sp) (hinv : Inv st)
    (hs : st.seg < 18446744073709551616) (hb : st.blkNum < 18446744073709551616)
    (hi : st.walIdx < 18446744073709551616) (m : Nat) (k : Key) :
    lookup k (diskAfterCrashedRecovery m (rawOf st.files) st.durable) = blockOf sp.done k := by
  have hex : lookup k (applyFlushes st.durable (recover (rawOf st.files))) = blockOf sp.done k := by
    rw [recover_writer_full st hinv hs hb hi, lookup_after hr]
    split
    · rename_i hk
      rw [hk]; exact hr.doneCur.symm
    · rfl
  unfold diskAfterCrashedRecovery recoverCrashed
  rw [recoverActions_writer_full st hinv hs hb hi]
  by_cases he : (logged st).isEmpty = true
  · rw [if_pos he, List.nil_append, ← List.map_take]
    obtain ⟨h1, h2⟩ := foldl_deletes st.durable ((rawOf st.files).take m) (rawOf st.files)
    have hnd : ∀ f ∈ rawOf st.files, fileDps f = [] := by
      have hl : (rawOf st.files).flatMap fileDps = [] := by
        rw [flatMap_rawOf]; exact List.isEmpty_iff.mp he
      exact List.flatMap_eq_nil_iff.mp hl
    dsimp only
    rw [h1, recover_no_dps_full _ (fun f hf => hnd f (h2 f hf).1)]
    rw [recover_no_dps_full _ hnd] at hex
    exact hex
  · rw [if_neg he]
    cases m with
    | zero => exact hex
    | succ m =>
      rw [List.singleton_append, List.take_succ_cons, List.foldl_cons, ← List.map_take]
      show lookup k (applyFlushes
        (List.foldl applyRecAction (rawOf st.files, flushTo (curKey st) (logged st) st.durable)
          (List.map (fun f => RecAction.delete f.1) (List.take m (rawOf st.files)))).2
        (recover (List.foldl applyRecAction (rawOf st.files, flushTo (curKey st) (logged st) st.durable)
          (List.map (fun f => RecAction.delete f.1) (List.take m (rawOf st.files)))).1)) = _
      obtain ⟨h1, h2⟩ := foldl_deletes (flushTo (curKey st) (logged st) st.durable) ((rawOf st.files).take m) (rawOf st.files)
      rw [h1]
      cases m with
      | zero =>
        show lookup k (applyFlushes (flushTo (curKey st) (logged st) st.durable) (recover (rawOf st.files))) = _
        rw [recover_writer_full st hinv hs hb hi, if_neg he]
        show lookup k (flushTo (curKey st) (logged st) (flushTo (curKey st) (logged st) st.durable)) = _
        apply lookup_flush_logged hr
        intro k' hk'
        rw [lookup_flushTo_ne _ _ _ _ hk']
        exact hr.doneOld k' hk'
      | succ j =>
        obtain ⟨f0, hf0, e0⟩ := zero_mem_rawOf st hinv
        have hz : walIndexOf f0.1 = 0 := by rw [e0]; exact walIndexOf_render _ (by show (0 : Nat) < 18446744073709551616; omega)
        have hin := zero_in_take _ (rawOf_ix_sorted st hinv hi) f0 hf0 hz j
        rw [recover_skips]
        · show lookup k (flushTo (curKey st) (logged st) st.durable) = _
          exact lookup_flush_logged hr _ hr.doneOld k
        · intro f hf
          obtain ⟨hfd, hne⟩ := h2 f hf
          obtain ⟨t, ht, et⟩ := mem_rawOf_name st hinv f hfd
          have hne0 := hne f0 hin
          have ht0 : t ≠ 0 := by
            intro e; apply hne0; rw [et, e0, e]
          rw [et, walIndexOf_render _ (show t < 18446744073709551616 by omega)]
          exact ht0

theorem recovery_crash_safe (cap shard : Nat) (h : List Op) (m : Nat)
    (hs : (run cap shard h).seg < 18446744073709551616) (hb : (run cap shard h).blkNum < 18446744073709551616)
    (hi : (run cap shard h).walIdx < 18446744073709551616) (k : Key) :
    lookup k (diskAfterCrashedRecovery m (dirAfter cap shard h) (durableBlocks cap shard h)) = specBlock cap shard h k :=
  crashed_recovery_lookup (R_run cap shard h) (inv_run cap shard h) hs hb hi m k

/-- the old counterexample histories are repaired -/
theorem h11_recovered_fixed :
    (lookup (dec 0, 0, 0) (diskAfterRecovery 100 0 h11)).map (·.ts) = [100, 101, 102, 103, 104, 105, 106, 107, 108, 109, 110, 111] := by
  decide +kernel

end SigModel.Lemmas.C10R
