import SigModel.Model.Retention
/-! Invariant of the interleaving machine `SigModel.Retention.MmConc` (one retention pass over metricmeta.json against
any number of rotations and readers): helper lemmas for §8 of Props/C14.lean. -/
namespace SigModel.Lemmas.C14Conc
open SigModel.Retention SigModel.Retention.MmConc

/-- what every reachable state satisfies -/
structure Inv (victim : Nat → Bool) (key : Nat → Nat) (f0 : List Nat) (s : St) : Prop where
  surv : ∀ k ∈ f0, victim k = false → k ∈ s.file
  ack : ∀ i, s.apc i = .done → key i ∈ s.file
  region : (s.ppc = .rmdir ∨ s.ppc = .rewrite) →
    s.writer = some .pass ∧ s.preserved = s.file.filter (fun k => !victim k) ∧ s.removed = s.file.filter victim
  scanning : s.ppc = .scan → s.writer = some .pass
  work : ∀ i, s.apc i = .work → s.writer = some (.app i)
  clean : s.ppc = .done → ∀ k ∈ s.file, victim k = false
  only : ∀ k ∈ s.file, k ∈ f0 ∨ ∃ i, k = key i ∧ s.apc i = .done

theorem inv_init (victim : Nat → Bool) (key : Nat → Nat) (f0 d0 : List Nat) :
    Inv victim key f0 { file := f0, dirs := d0 } where
  surv := fun _ hk _ => hk
  ack := fun i h => by simp at h
  region := fun h => by simp at h
  scanning := fun h => by simp at h
  work := fun i h => by simp at h
  clean := fun h => by simp at h
  only := fun _ hk => Or.inl hk

theorem upd_same {α : Type} (f : Nat → α) (i : Nat) (v : α) : upd f i v i = v := by simp [upd]

theorem upd_other {α : Type} (f : Nat → α) (i j : Nat) (v : α) (h : j ≠ i) : upd f i v j = f j := by simp [upd, h]

theorem inv_pass (victim : Nat → Bool) (key : Nat → Nat) (hk : ∀ i, victim (key i) = false) (f0 : List Nat) (s : St)
    (h : Inv victim key f0 s) : Inv victim key f0 (step victim key s .pass).1 := by
  unfold step
  cases hp : s.ppc with
  | lock =>
    by_cases hf : (s.writer.isNone && s.readers.isEmpty) = true
    · simp only [hf, if_true]
      have hw : s.writer = none := by
        cases hw : s.writer with
        | none => rfl
        | some _ => simp [hw] at hf
      refine ⟨h.surv, h.ack, fun hr => by simp at hr, fun _ => rfl, ?_, fun hd => by simp at hd, h.only⟩
      intro i hi
      have := h.work i hi
      simp [hw] at this
    · simp only [hf]
      exact h
  | scan =>
    refine ⟨h.surv, h.ack, fun _ => ⟨h.scanning hp, rfl, rfl⟩, ?_, h.work, ?_, h.only⟩
    · intro hs
      dsimp only at hs
      split at hs <;> simp at hs
    · intro hs
      dsimp only at hs
      split at hs <;> simp at hs
  | rmdir =>
    have hr := h.region (Or.inl hp)
    cases ht : s.todo with
    | nil =>
      exact ⟨h.surv, h.ack, fun _ => hr, fun hs => by simp at hs, h.work, fun hs => by simp at hs, h.only⟩
    | cons d r =>
      refine ⟨h.surv, h.ack, fun _ => hr, ?_, h.work, ?_, h.only⟩
      · intro hs
        dsimp only at hs
        split at hs <;> simp at hs
      · intro hs
        dsimp only at hs
        split at hs <;> simp at hs
  | rewrite =>
    have hr := h.region (Or.inr hp)
    obtain ⟨hw, hpre, hrem⟩ := hr
    have nowork : ∀ i, s.apc i ≠ .work := by
      intro i hi
      have := h.work i hi
      rw [hw] at this
      cases this
    by_cases he : s.removed.isEmpty = true
    · have hnone : ∀ k ∈ s.file, victim k = false := by
        intro k hkf
        cases hv : victim k with
        | false => rfl
        | true =>
          have : k ∈ s.file.filter victim := List.mem_filter.mpr ⟨hkf, hv⟩
          rw [← hrem] at this
          have hnil : s.removed = [] := by simpa using he
          rw [hnil] at this
          cases this
      refine ⟨?_, ?_, fun hx => by simp at hx, fun hx => by simp at hx, ?_, ?_, ?_⟩
      · simpa [he] using h.surv
      · simpa [he] using h.ack
      · intro i hi
        exact absurd hi (nowork i)
      · intro _
        simpa [he] using hnone
      · simpa [he] using h.only
    · refine ⟨?_, ?_, fun hx => by simp at hx, fun hx => by simp at hx, ?_, ?_, ?_⟩
      · intro k hk0 hv
        simp only [he]
        rw [hpre]
        exact List.mem_filter.mpr ⟨h.surv k hk0 hv, by simp [hv]⟩
      · intro i hi
        simp only [he]
        rw [hpre]
        exact List.mem_filter.mpr ⟨h.ack i hi, by simp [hk i]⟩
      · intro i hi
        exact absurd hi (nowork i)
      · intro _ k hkf
        simp only [he] at hkf
        rw [hpre] at hkf
        have := (List.mem_filter.mp hkf).2
        simpa using this
      · intro k hkf
        simp only [he] at hkf
        rw [hpre] at hkf
        exact h.only k (List.mem_filter.mp hkf).1
  | done => exact h

theorem inv_app (victim : Nat → Bool) (key : Nat → Nat) (hk : ∀ i, victim (key i) = false) (f0 : List Nat) (s : St)
    (h : Inv victim key f0 s) (i : Nat) : Inv victim key f0 (step victim key s (.app i)).1 := by
  cases ha : s.apc i with
  | lock =>
    simp only [step, ha]
    by_cases hf : (s.writer.isNone && s.readers.isEmpty) = true
    · simp only [hf, if_true]
      have hw : s.writer = none := by
        cases hw : s.writer with
        | none => rfl
        | some _ => simp [hw] at hf
      refine ⟨h.surv, ?_, ?_, ?_, ?_, h.clean, ?_⟩
      · intro j hj
        by_cases hji : j = i
        · subst hji
          simp [upd] at hj
        · simp [upd, hji] at hj
          exact h.ack j hj
      · intro hr
        have := (h.region hr).1
        simp [hw] at this
      · intro hs
        have := h.scanning hs
        simp [hw] at this
      · intro j hj
        by_cases hji : j = i
        · subst hji
          rfl
        · simp [upd, hji] at hj
          have := h.work j hj
          simp [hw] at this
      · intro k hkf
        rcases h.only k hkf with h0 | ⟨j, hj, hd⟩
        · exact Or.inl h0
        · refine Or.inr ⟨j, hj, ?_⟩
          by_cases hji : j = i
          · subst hji
            rw [ha] at hd
            cases hd
          · simpa [upd, hji] using hd
    · simp only [hf]
      exact h
  | work =>
    simp only [step, ha]
    have hw := h.work i ha
    have notregion : ¬ (s.ppc = .rmdir ∨ s.ppc = .rewrite) := by
      intro hr
      have := (h.region hr).1
      rw [hw] at this
      cases this
    have notscan : s.ppc ≠ .scan := by
      intro hs
      have := h.scanning hs
      rw [hw] at this
      cases this
    refine ⟨?_, ?_, fun hr => absurd hr notregion, fun hs => absurd hs notscan, ?_, ?_, ?_⟩
    · intro k hk0 hv
      exact List.mem_append_left _ (h.surv k hk0 hv)
    · intro j hj
      by_cases hji : j = i
      · subst hji
        simp
      · simp [upd, hji] at hj
        exact List.mem_append_left _ (h.ack j hj)
    · intro j hj
      by_cases hji : j = i
      · subst hji
        simp [upd] at hj
      · simp [upd, hji] at hj
        have := h.work j hj
        rw [hw] at this
        injection this with this
        injection this with this
        exact absurd this.symm hji
    · intro hd k hkf
      rcases List.mem_append.mp hkf with h1 | h1
      · exact h.clean hd k h1
      · have : k = key i := by simpa using h1
        rw [this]
        exact hk i
    · intro k hkf
      rcases List.mem_append.mp hkf with h1 | h1
      · rcases h.only k h1 with h0 | ⟨j, hj, hd⟩
        · exact Or.inl h0
        · refine Or.inr ⟨j, hj, ?_⟩
          by_cases hji : j = i
          · subst hji
            simp [upd]
          · simpa [upd, hji] using hd
      · have : k = key i := by simpa using h1
        exact Or.inr ⟨i, this, by simp [upd]⟩
  | done =>
    simp only [step, ha]
    exact h

theorem inv_rd (victim : Nat → Bool) (key : Nat → Nat) (f0 : List Nat) (s : St)
    (h : Inv victim key f0 s) (j : Nat) : Inv victim key f0 (step victim key s (.rd j)).1 := by
  cases hr : s.rpc j with
  | lock =>
    simp only [step, hr]
    by_cases hf : s.writer.isNone = true
    · simp only [hf, if_true]
      exact ⟨h.surv, h.ack, h.region, h.scanning, h.work, h.clean, h.only⟩
    · simp only [hf]
      exact h
  | work =>
    simp only [step, hr]
    exact ⟨h.surv, h.ack, h.region, h.scanning, h.work, h.clean, h.only⟩
  | done =>
    simp only [step, hr]
    exact h

theorem inv_step (victim : Nat → Bool) (key : Nat → Nat) (hk : ∀ i, victim (key i) = false) (f0 : List Nat) (s : St)
    (h : Inv victim key f0 s) (t : Tid) : Inv victim key f0 (step victim key s t).1 := by
  cases t with
  | pass => exact inv_pass victim key hk f0 s h
  | app i => exact inv_app victim key hk f0 s h i
  | rd j => exact inv_rd victim key f0 s h j

theorem inv_run (victim : Nat → Bool) (key : Nat → Nat) (hk : ∀ i, victim (key i) = false) (f0 : List Nat)
    (sched : List Tid) : ∀ s, Inv victim key f0 s → Inv victim key f0 (run victim key s sched) := by
  induction sched with
  | nil => intro s h; exact h
  | cons t r ih =>
    intro s h
    exact ih _ (inv_step victim key hk f0 s h t)

end SigModel.Lemmas.C14Conc
